import TexelVerif.BookBuild.Preserve
/-!
# BookBuild: `updateScores_spec`

The modelled lambdas are instances of the generic propagation (`updNM … true false true = run sysUp`,
`updPE = run sysDown`); the children-first initialisation branch of `updateNegaMax` is the identity below a node whose
descendants already satisfy their equations; `sortByDepth` only permutes the work list.
-/
namespace Bk
open Book Propagate

theorem updNM_up_eq_run (start : Nat) : ∀ (f i : Nat) (s : US),
    updNM true start f i true false true s = run (sysUp start) f i s := by
  intro f
  induction f with
  | zero => intro i s; rfl
  | succ f ih =>
    intro i s
    have hfun : (fun acc p => updNM true start f p true false true acc) = (fun acc j => run (sysUp start) f j acc) := by
      funext acc p; exact ih p acc
    simp only [updNM, run, sysUp, Bool.not_true, Bool.false_and, Bool.false_eq_true, if_false, Bool.true_and, hfun]
    rfl

theorem updPE_eq_run : ∀ (f i : Nat) (b : Book), updPE f i b = run sysDown f i b := by
  intro f
  induction f with
  | zero => intro i b; rfl
  | succ f ih =>
    intro i b
    have hfun : (fun acc c => updPE f c acc) = (fun acc j => run sysDown f j acc) := by
      funext acc c; exact ih c acc
    simp only [updPE, run, sysDown, Bool.or_false, hfun]

/-- The `updateChildren` branch (`updateNegaMax(child, false, true, false)`) changes nothing below a node all of whose
    descendants satisfy their equations. -/
theorem updNM_down_id (start : Nat) (r : Nat → Nat) (s : US) (hwf : WF s.b) (hr : Ranked s.b r)
    (hok : ∀ j, j < s.b.size → r start < r j → nmOk s.b j) :
    ∀ (f c : Nat), c < s.b.size → r start < r c → updNM true start f c false true false s = s := by
  intro f
  induction f with
  | zero => intro c _ _; rfl
  | succ f ih =>
    intro c hc hrc
    simp only [updNM, Bool.not_false, Bool.true_and, Bool.false_and, Bool.false_eq_true, if_false, if_true]
    by_cases hnm : ((s.b.nd c).nm != INVALID) = true
    · simp [hnm]
    · simp only [hnm, Bool.false_eq_true, if_false]
      have hfold : (childIds (s.b.nd c)).foldl (fun acc c' => updNM true start f c' false true false acc) s = s := by
        -- every step is the identity *at s*; fold starting at s stays at s
        have : ∀ (l : List Nat), (∀ x ∈ l, x < s.b.size ∧ r start < r x) →
            l.foldl (fun acc c' => updNM true start f c' false true false acc) s = s := by
          intro l
          induction l with
          | nil => intro _; rfl
          | cons x t iht =>
            intro hl
            simp only [List.foldl_cons]
            rw [ih x (hl x (by simp)).1 (hl x (by simp)).2]
            exact iht (fun y hy => hl y (by simp [hy]))
        apply this
        intro x hx
        have h1 := wf_child s.b hwf c x hc hx
        have h2 := hr.mono c hc x hx
        exact ⟨h1.1, by omega⟩
      rw [hfold]
      rw [nmStep_unchanged s c (hok c hc hrc)]

theorem mem_sortByDepth (b : Book) (l : List Nat) (x : Nat) : x ∈ sortByDepth b l ↔ x ∈ l := by
  unfold sortByDepth
  induction l with
  | nil => simp
  | cons a t ih =>
    simp only [List.foldr_cons]
    have hspan : ∀ (acc : List Nat) (p : Nat → Bool), x ∈ acc.takeWhile p ++ a :: acc.dropWhile p ↔ x = a ∨ x ∈ acc := by
      intro acc p
      simp only [List.mem_append, List.mem_cons]
      constructor
      · rintro (h | rfl | h)
        · exact Or.inr ((List.takeWhile_sublist p).subset h)
        · exact Or.inl rfl
        · exact Or.inr ((List.dropWhile_sublist p).subset h)
      · rintro (rfl | h)
        · exact Or.inr (Or.inl rfl)
        · have := List.takeWhile_append_dropWhile (p := p) (l := acc)
          rw [← this] at h
          rcases List.mem_append.mp h with h | h
          · exact Or.inl h
          · exact Or.inr (Or.inr h)
    rw [hspan, ih, List.mem_cons]

/-- erase everything `updateScores` may write -/
def Node.base (n : Node) : Node := { n with nm := 0, ecW := 0, ecB := 0, peW := 0, peB := 0 }

/-- two books that differ at most in the five derived score fields -/
structure SameBase (b' b : Book) : Prop where
  size : b'.size = b.size
  pending : b'.pending = b.pending
  costs : b'.costs = b.costs
  base : ∀ j, (b'.nd j).base = (b.nd j).base
  rootpe : ∀ j, (b.nd j).depth = 0 → pe2 (b'.nd j) = pe2 (b.nd j)

/-- the second pass of `updateScores` (path errors), given the state after the first pass -/
theorem second_pass_spec (b : Book) (r : Nat → Nat) (hwf : WF b) (hr : Ranked b r) (s1 : US) (hI1 : InvUp b s1)
    (hnm1 : ∀ j, j < b.size → nmOk s1.b j) :
    SameBase ((sortByDepth s1.b s1.tu).foldl (fun acc n => updPE (b.size + 1) n acc) s1.b) b ∧
    (∀ j, j < b.size → nmOk ((sortByDepth s1.b s1.tu).foldl (fun acc n => updPE (b.size + 1) n acc) s1.b) j) ∧
    (∀ j, j < b.size → peOk ((sortByDepth s1.b s1.tu).foldl (fun acc n => updPE (b.size + 1) n acc) s1.b) j) := by
  -- structure of the intermediate book
  have hwf1 : WF s1.b := by
    constructor
    · intro i hi e he
      rw [hI1.size] at hi
      rw [hI1.children i] at he
      have := hwf.child i hi e he
      rw [hI1.size, hI1.parents e.2]; exact this
    · intro i hi e he
      rw [hI1.size] at hi
      rw [hI1.parents i] at he
      have := hwf.parent i hi e he
      rw [hI1.size, hI1.children e.2]; exact this
  have hr1 : Ranked s1.b r := by
    constructor
    · intro i hi; rw [hI1.size] at hi ⊢; exact hr.bound i hi
    · intro i hi c hc
      rw [hI1.size] at hi
      simp only [childIds, hI1.children i] at hc
      exact hr.mono i hi c hc
  -- second pass
  have hI2 : InvDown s1.b s1.b := ⟨rfl, rfl, rfl, fun _ => rfl, fun _ _ => rfl⟩
  have hfun2 : (fun acc n => updPE (b.size + 1) n acc) = (fun acc j => run sysDown (b.size + 1) j acc) := by
    funext acc n; exact updPE_eq_run (b.size + 1) n acc
  have hdn := run_list_spec (specDown s1.b r hwf1 hr1) (b.size + 1) (sortByDepth s1.b s1.tu) s1.b
    (by intro j hj
        rw [mem_sortByDepth] at hj
        have := hI1.tuValid j hj
        rw [hI1.size]; exact ⟨this, by omega⟩) hI2
  rw [hfun2]
  generalize (sortByDepth s1.b s1.tu).foldl (fun acc j => run sysDown (b.size + 1) j acc) s1.b = b2 at hdn
  obtain ⟨hI3, hok3, hmono3⟩ := hdn
  refine ⟨?_, ?_, ?_⟩
  · refine ⟨by rw [hI3.size, hI1.size], by rw [hI3.pending, hI1.pending], by rw [hI3.costs, hI1.costs], ?_, ?_⟩
    · intro j
      have h1 := hI3.skel j
      have h2 := hI1.skel j
      have e1 : (b2.nd j).base = ((b2.nd j).noPE).noS3 := rfl
      have e2 : (b.nd j).base = ((b.nd j).noS3).noPE := rfl
      have e3 : ((s1.b.nd j).noPE).noS3 = ((s1.b.nd j).noS3).noPE := rfl
      rw [e1, h1, e3, h2, e2]
    · intro j h0
      have hd1 : (s1.b.nd j).depth = (b.nd j).depth := by
        have := congrArg Node.depth (hI1.skel j); exact this
      rw [hI3.rootpe j (by rw [hd1]; exact h0)]
      have := hI1.skel j
      have hw : (s1.b.nd j).peW = (b.nd j).peW := by have := congrArg Node.peW this; exact this
      have hb : (s1.b.nd j).peB = (b.nd j).peB := by have := congrArg Node.peB this; exact this
      simp [pe2, hw, hb]
  · intro j hj
    have h1 := hnm1 j hj
    unfold nmOk at h1 ⊢
    have hsk := hI3.skel j
    have hnmj : (b2.nd j).nm = (s1.b.nd j).nm := by have := congrArg Node.nm hsk; exact this
    have hew : (b2.nd j).ecW = (s1.b.nd j).ecW := by have := congrArg Node.ecW hsk; exact this
    have heb : (b2.nd j).ecB = (s1.b.nd j).ecB := by have := congrArg Node.ecB hsk; exact this
    have hsc : scores3 (b2.nd j) = scores3 (s1.b.nd j) := by simp [scores3, hnmj, hew, heb]
    rw [hsc, ← h1]
    apply scoresOf_congr
    · simp [Book.isPending, hI3.pending]
    · exact hI3.costs
    · rw [hI3.depth j]
    · have := congrArg Node.bestMove hsk; exact this
    · have := congrArg Node.search hsk; exact this
    · exact hI3.children j
    · intro c _
      have hskc := hI3.skel c
      have a1 : (b2.nd c).nm = (s1.b.nd c).nm := by have := congrArg Node.nm hskc; exact this
      have a2 : (b2.nd c).ecW = (s1.b.nd c).ecW := by have := congrArg Node.ecW hskc; exact this
      have a3 : (b2.nd c).ecB = (s1.b.nd c).ecB := by have := congrArg Node.ecB hskc; exact this
      simp [scores3, a1, a2, a3]
  · intro j hj
    rcases hI1.tinv j hj with h | h
    · exact hmono3 j h
    · exact hok3 j ((mem_sortByDepth _ _ _).mpr h)

theorem updateScores_spec (b : Book) (start : Nat) (r : Nat → Nat) (hwf : WF b) (hr : Ranked b r)
    (hs : start < b.size)
    (hnm : ∀ j, j < b.size → j ≠ start → j ∉ parentIds (b.nd start) → nmOk b j)
    (hpe : ∀ j, j < b.size → j ≠ start → peOk b j) :
    SameBase (updateScores true b start) b ∧
    (∀ j, j < b.size → nmOk (updateScores true b start) j) ∧
    (∀ j, j < b.size → peOk (updateScores true b start) j) := by
  -- first pass
  let s0 : US := { b := b, tu := [start] }
  have hI0 : InvUp b s0 :=
    ⟨rfl, rfl, rfl, fun _ => rfl, by intro j hj; simp [s0] at hj; subst hj; exact hs,
     by intro j hj
        by_cases h : j = start
        · right; simp [s0, h]
        · left; exact hpe j hj h⟩
  have htop : updNM true start (b.size + 1) start true true true s0 = run (sysUp start) (b.size + 1) start s0 := by
    have hdown : (childIds (s0.b.nd start)).foldl (fun acc c => updNM true start b.size c false true false acc) s0 = s0 := by
      have hid := updNM_down_id start r s0 hwf hr
        (by intro j hj hrj
            apply hnm j hj
            · rintro rfl; omega
            · intro hp; have := rank_parent b r hwf hr start j hs hp; omega) b.size
      have : ∀ (l : List Nat), (∀ x ∈ l, x < b.size ∧ r start < r x) →
          l.foldl (fun acc c => updNM true start b.size c false true false acc) s0 = s0 := by
        intro l
        induction l with
        | nil => intro _; rfl
        | cons x t iht =>
          intro hl
          simp only [List.foldl_cons]
          rw [hid x (hl x (by simp)).1 (hl x (by simp)).2]
          exact iht (fun y hy => hl y (by simp [hy]))
      apply this
      intro x hx
      exact ⟨(wf_child b hwf start x hs hx).1, hr.mono start hs x hx⟩
    have hfun : (fun acc p => updNM true start b.size p true false true acc) = (fun acc j => run (sysUp start) b.size j acc) := by
      funext acc p; exact updNM_up_eq_run start b.size p acc
    simp only [updNM, run, sysUp, Bool.not_true, Bool.false_and, Bool.false_eq_true, if_false, if_true, Bool.true_and, hdown, hfun]
    rfl
  have hup := run_spec (specUp b r hwf hr start) (b.size + 1) start s0 (by have := hr.bound start hs; omega) hs hI0
  rw [← htop] at hup
  generalize hs1 : updNM true start (b.size + 1) start true true true s0 = s1 at hup
  obtain ⟨hI1, hok1, hmono1, hforce1⟩ := hup
  have hnm1 : ∀ j, j < b.size → nmOk s1.b j := by
    intro j hj
    by_cases h1 : j = start
    · subst h1; exact hok1
    by_cases h2 : j ∈ parentIds (b.nd start)
    · exact hforce1 (by simp [sysUp]) j h2
    · exact hmono1 j (hnm j hj h1 h2)
  have h2 := second_pass_spec b r hwf hr s1 hI1 hnm1
  have hres : updateScores true b start = (sortByDepth s1.b s1.tu).foldl (fun acc n => updPE (b.size + 1) n acc) s1.b := by
    simp only [updateScores]
    rw [show ({ b := b, tu := [start] } : US) = s0 from rfl, hs1]
  rw [hres]; exact h2

end Bk
