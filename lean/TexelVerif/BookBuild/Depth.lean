import TexelVerif.BookBuild.Ops
/-!
# BookBuild: `BookNode::updateDepth` re-establishes the depth equations

`updDepth = run sysDepth`; `specDepth` instantiates the generic propagation theorem: recomputing a node's depth from its
parents makes its depth equation hold (given that its depth is not already too small) and can only disturb its children.
Along the way depths only decrease, keep their parity (every link joins depths of different parity) and stay non-zero.
-/
namespace Bk
open Book Propagate

/-- the loop of `updateDepth`: running minimum of `parent.depth + 1` starting from the node's own depth -/
def minDepth (b : Book) (l : List Nat) (init : Nat) : Nat :=
  l.foldl (fun acc p => if acc > (b.nd p).depth + 1 then (b.nd p).depth + 1 else acc) init

theorem minDepth_cons (b : Book) (a : Nat) (t : List Nat) (init : Nat) :
    minDepth b (a :: t) init = minDepth b t (if init > (b.nd a).depth + 1 then (b.nd a).depth + 1 else init) := rfl

theorem minDepth_le_init (b : Book) (l : List Nat) (init : Nat) : minDepth b l init ≤ init := by
  induction l generalizing init with
  | nil => simp [minDepth]
  | cons a t ih =>
    rw [minDepth_cons]
    have := ih (if init > (b.nd a).depth + 1 then (b.nd a).depth + 1 else init)
    by_cases hc : init > (b.nd a).depth + 1
    · simp only [hc, if_true] at this ⊢; omega
    · simp only [hc, if_false] at this ⊢; omega

theorem minDepth_le_mem (b : Book) (l : List Nat) (init p : Nat) (hp : p ∈ l) : minDepth b l init ≤ (b.nd p).depth + 1 := by
  induction l generalizing init with
  | nil => simp at hp
  | cons a t ih =>
    rw [minDepth_cons]
    rcases List.mem_cons.mp hp with rfl | hp
    · have := minDepth_le_init b t (if init > (b.nd p).depth + 1 then (b.nd p).depth + 1 else init)
      by_cases hc : init > (b.nd p).depth + 1
      · simp only [hc, if_true] at this ⊢; omega
      · simp only [hc, if_false] at this ⊢; omega
    · exact ih _ hp

theorem minDepth_attains (b : Book) (l : List Nat) (init : Nat) :
    minDepth b l init = init ∨ ∃ p ∈ l, minDepth b l init = (b.nd p).depth + 1 := by
  induction l generalizing init with
  | nil => left; rfl
  | cons a t ih =>
    rw [minDepth_cons]
    rcases ih (if init > (b.nd a).depth + 1 then (b.nd a).depth + 1 else init) with h | ⟨p, hp, h⟩
    · by_cases hc : init > (b.nd a).depth + 1
      · right; refine ⟨a, by simp, ?_⟩; rw [h]; simp [hc]
      · left; rw [h]; simp [hc]
    · right; exact ⟨p, by simp [hp], h⟩

theorem minDepth_congr (b b' : Book) (l : List Nat) (init : Nat) (h : ∀ p ∈ l, (b'.nd p).depth = (b.nd p).depth) :
    minDepth b' l init = minDepth b l init := by
  induction l generalizing init with
  | nil => rfl
  | cons a t ih =>
    rw [minDepth_cons, minDepth_cons, h a (by simp)]
    exact ih _ (fun p hp => h p (by simp [hp]))

def Node.noDepth (n : Node) : Node := { n with depth := 0 }

def Book.setDepth (b : Book) (i d : Nat) : Book := b.setNode i { b.nd i with depth := d }

theorem nd_setDepth_self (b : Book) (i d : Nat) (h : i < b.size) : (b.setDepth i d).nd i = { b.nd i with depth := d } :=
  nd_setNode_self _ _ _ h
theorem nd_setDepth_ne (b : Book) (i j d : Nat) (h : i ≠ j) : (b.setDepth i d).nd j = b.nd j := nd_setNode_ne _ _ _ _ h
@[simp] theorem size_setDepth (b : Book) (i d : Nat) : (b.setDepth i d).size = b.size := size_setNode _ _ _
@[simp] theorem pending_setDepth (b : Book) (i d : Nat) : (b.setDepth i d).pending = b.pending := rfl
@[simp] theorem costs_setDepth (b : Book) (i d : Nat) : (b.setDepth i d).costs = b.costs := rfl

theorem depthStep_eq (b : Book) (i : Nat) :
    depthStep b i =
      if minDepth b (parentIds (b.nd i)) (b.nd i).depth < (b.nd i).depth
      then (b.setDepth i (minDepth b (parentIds (b.nd i)) (b.nd i).depth), true) else (b, false) := rfl

def sysDepth : Sys Book :=
  { step := depthStep, succ := fun b i => childIds (b.nd i), force := fun _ => false }

theorem updDepth_eq_run : ∀ (f i : Nat) (b : Book), updDepth f i b = run sysDepth f i b := by
  intro f
  induction f with
  | zero => intro i b; rfl
  | succ f ih =>
    intro i b
    have hfun : (fun acc c => updDepth f c acc) = (fun acc j => run sysDepth f j acc) := by
      funext acc c; exact ih c acc
    simp only [updDepth, run, sysDepth, Bool.or_false, hfun]

/-- a node without parents, or one whose depth is one more than its smallest parent depth -/
def dOkF (b : Book) (j : Nat) : Prop := parentIds (b.nd j) = [] ∨ depthOk b j

/-- node `j` has a depth of the other parity than each of its parents -/
def ParentsParity (b : Book) (j : Nat) : Prop :=
  ∀ p ∈ parentIds (b.nd j), ((b.nd p).depth + (b.nd j).depth) % 2 = 1

/-- what stays fixed while `updateDepth` runs, relative to the book `b0` it started from -/
structure InvDepth (b0 : Book) (b : Book) : Prop where
  size : b.size = b0.size
  pending : b.pending = b0.pending
  costs : b.costs = b0.costs
  skel : ∀ j, (b.nd j).noDepth = (b0.nd j).noDepth
  le : ∀ j, (b.nd j).depth ≤ (b0.nd j).depth
  par : ∀ j, ParentsParity b0 j → (b.nd j).depth % 2 = (b0.nd j).depth % 2
  pos : ∀ j, (b.nd j).depth = 0 ↔ (b0.nd j).depth = 0
  ge : ∀ j, j < b0.size → parentIds (b0.nd j) ≠ [] → ∃ p ∈ parentIds (b0.nd j), (b.nd p).depth + 1 ≤ (b.nd j).depth
  same : ∀ j, parentIds (b0.nd j) = [] → (b.nd j).depth = (b0.nd j).depth

theorem InvDepth.children {b0 b : Book} (h : InvDepth b0 b) (j : Nat) : (b.nd j).children = (b0.nd j).children := by
  have := congrArg Node.children (h.skel j); exact this
theorem InvDepth.parents {b0 b : Book} (h : InvDepth b0 b) (j : Nat) : (b.nd j).parents = (b0.nd j).parents := by
  have := congrArg Node.parents (h.skel j); exact this

section depth
variable (b0 : Book) (r : Nat → Nat) (hwf : WF b0) (hr : Ranked b0 r)
  (hQ : ∀ i, i < b0.size → childIds (b0.nd i) ≠ [] → ParentsParity b0 i)

include hwf hr in
theorem depth_ok_step (b : Book) (i : Nat) (hI : InvDepth b0 b) (hi : i < b0.size) : dOkF (depthStep b i).1 i := by
  have his : i < b.size := by rw [hI.size]; exact hi
  have hpi : parentIds (b.nd i) = parentIds (b0.nd i) := by simp only [parentIds, hI.parents i]
  by_cases hnil : parentIds (b0.nd i) = []
  · left
    rw [depthStep_eq]; split
    · rw [nd_setDepth_self _ _ _ his]; show parentIds (b.nd i) = []; rw [hpi]; exact hnil
    · rw [hpi]; exact hnil
  · right
    obtain ⟨q, hq, hqle⟩ := hI.ge i hi hnil
    -- the parents of i are different from i, so their depths are not touched by the step
    have hne : ∀ p ∈ parentIds (b0.nd i), i ≠ p := by
      intro p hp; rintro rfl; exact not_self_parent b0 r hwf hr i hi hp
    have hle := minDepth_le_mem b (parentIds (b.nd i)) (b.nd i).depth
    have hatt := minDepth_attains b (parentIds (b.nd i)) (b.nd i).depth
    rw [depthStep_eq]; split
    · next hlt =>
      unfold depthOk
      rw [nd_setDepth_self _ _ _ his]
      show (∃ p ∈ parentIds (b.nd i), _ = ((b.setDepth i _).nd p).depth + 1) ∧ ∀ p ∈ parentIds (b.nd i), _ ≤ ((b.setDepth i _).nd p).depth + 1
      constructor
      · rcases hatt with h | ⟨p, hp, h⟩
        · omega
        · refine ⟨p, hp, ?_⟩
          rw [nd_setDepth_ne _ _ _ _ (hne p (hpi ▸ hp))]; exact h
      · intro p hp
        rw [nd_setDepth_ne _ _ _ _ (hne p (hpi ▸ hp))]; exact hle p hp
    · next hnlt =>
      have heq : minDepth b (parentIds (b.nd i)) (b.nd i).depth = (b.nd i).depth := by
        have := minDepth_le_init b (parentIds (b.nd i)) (b.nd i).depth; omega
      show depthOk b i
      unfold depthOk
      constructor
      · refine ⟨q, hpi ▸ hq, ?_⟩
        have := hle q (hpi ▸ hq); omega
      · intro p hp; have := hle p hp; omega

include hwf hr hQ in
theorem specDepth :
    Spec sysDepth (InvDepth b0) (fun i => i < b0.size) dOkF (fun i => childIds (b0.nd i)) (fun i => b0.size - r i) where
  succ_eq := by
    intro b i hI
    simp only [sysDepth, childIds, hI.children i]
  succ_valid := by
    intro i j hi hj
    have h1 := (wf_child b0 hwf i j hi hj).1
    have h2 := hr.mono i hi j hj
    have h3 := hr.bound j h1
    exact ⟨h1, by omega⟩
  inv_step := by
    intro b i hI hi
    have his : i < b.size := by rw [hI.size]; exact hi
    have hpi : parentIds (b.nd i) = parentIds (b0.nd i) := by simp only [parentIds, hI.parents i]
    simp only [sysDepth]
    rw [depthStep_eq]; split
    · next hlt =>
      -- the new depth is `depth p + 1` for a parent p
      obtain ⟨p, hp, hd⟩ : ∃ p ∈ parentIds (b0.nd i), minDepth b (parentIds (b.nd i)) (b.nd i).depth = (b.nd p).depth + 1 := by
        rcases minDepth_attains b (parentIds (b.nd i)) (b.nd i).depth with h | ⟨p, hp, h⟩
        · omega
        · exact ⟨p, hpi ▸ hp, h⟩
      have hpc := wf_parent b0 hwf i p hi hp
      have hQp : ParentsParity b0 p := hQ p hpc.1 (List.ne_nil_of_mem hpc.2)
      refine ⟨by simp [hI.size], by simp [hI.pending], by simp [hI.costs], ?_, ?_, ?_, ?_, ?_, ?_⟩
      rotate_right
      · intro j hnil
        by_cases hj : i = j
        · subst hj
          rw [hnil] at hp; simp at hp
        · rw [nd_setDepth_ne _ _ _ _ hj]; exact hI.same j hnil
      · intro j
        by_cases hj : i = j
        · subst hj; rw [nd_setDepth_self _ _ _ his]; exact hI.skel i
        · rw [nd_setDepth_ne _ _ _ _ hj]; exact hI.skel j
      · intro j
        by_cases hj : i = j
        · subst hj; rw [nd_setDepth_self _ _ _ his]
          show minDepth b _ _ ≤ _
          have := hI.le i; omega
        · rw [nd_setDepth_ne _ _ _ _ hj]; exact hI.le j
      · intro j hjf
        by_cases hj : i = j
        · subst hj; rw [nd_setDepth_self _ _ _ his]
          show minDepth b _ _ % 2 = _
          rw [hd]
          have h1 := hI.par p hQp
          have hedge := hjf p hp
          omega
        · rw [nd_setDepth_ne _ _ _ _ hj]; exact hI.par j hjf
      · intro j
        by_cases hj : i = j
        · subst hj; rw [nd_setDepth_self _ _ _ his]
          show minDepth b _ _ = 0 ↔ _
          rw [hd]
          have h2 := hI.le i
          constructor
          · intro h; omega
          · intro h; omega
        · rw [nd_setDepth_ne _ _ _ _ hj]; exact hI.pos j
      · intro j hj hnil
        by_cases hji : i = j
        · subst hji
          have hpi' : i ≠ p := by rintro rfl; exact not_self_parent b0 r hwf hr i hi hp
          refine ⟨p, hp, ?_⟩
          rw [nd_setDepth_self _ _ _ his, nd_setDepth_ne _ _ _ _ hpi']
          show (b.nd p).depth + 1 ≤ minDepth b _ _
          omega
        · obtain ⟨q, hq, hqle⟩ := hI.ge j hj hnil
          refine ⟨q, hq, ?_⟩
          rw [nd_setDepth_ne _ _ _ _ hji]
          by_cases hqi : i = q
          · subst hqi; rw [nd_setDepth_self _ _ _ his]
            show minDepth b _ _ + 1 ≤ _
            omega
          · rw [nd_setDepth_ne _ _ _ _ hqi]; exact hqle
    · exact hI
  ok_step := by
    intro b i hI hi
    exact depth_ok_step b0 r hwf hr b i hI hi
  frame_unchanged := by
    intro b i j hI hi h2 hok
    simp only [sysDepth] at h2 ⊢
    rw [depthStep_eq] at h2 ⊢
    split
    · next hlt => simp [hlt] at h2
    · exact hok
  frame_changed := by
    intro b i j hI hi hnot hok
    by_cases hji : j = i
    · subst hji; exact depth_ok_step b0 r hwf hr b j hI hi
    have his : i < b.size := by rw [hI.size]; exact hi
    simp only [sysDepth]
    rw [depthStep_eq]; split
    · have hne : i ≠ j := fun h => hji h.symm
      have hpne : ∀ p ∈ parentIds (b.nd j), i ≠ p := by
        intro p hp; rintro rfl
        by_cases hjs : j < b0.size
        · have hp' : i ∈ parentIds (b0.nd j) := by simpa only [parentIds, hI.parents j] using hp
          exact hnot (wf_parent b0 hwf j i hjs hp').2
        · rw [nd_oob _ _ (by rw [hI.size]; exact hjs)] at hp
          simp [parentIds, default_parents] at hp
      unfold dOkF depthOk at hok ⊢
      rw [nd_setDepth_ne _ _ _ _ hne]
      rcases hok with h | ⟨⟨p, hp, h1⟩, h2⟩
      · exact Or.inl h
      · right
        refine ⟨⟨p, hp, ?_⟩, ?_⟩
        · rw [nd_setDepth_ne _ _ _ _ (hpne p hp)]; exact h1
        · intro p' hp'; rw [nd_setDepth_ne _ _ _ _ (hpne p' hp')]; exact h2 p' hp'
    · exact hok

end depth
end Bk
