import TexelVerif.BookBuild.AddLink
/-!
# BookBuild: the structural part of `addPosToBook` (`linkNew`)

`AddOk` collects what the chess rules guarantee about the links of a new position (the model is parametric in them);
`linkNew_spec` shows that pushing the new node, linking it to all its parents and then to all its existing children
keeps the linking invariant and changes old nodes only by adding links to the new node and by lowering depths
(parity and zero-ness preserved).
-/
namespace Bk
open Book

/-- What is assumed about the links `ps` (move, parent) and `cs` (move, child) of a new position; `r'` is a ghost
    topological rank of the extended graph (the new node has index `b.size`). -/
structure AddOk (b : Book) (ps cs : List (Nat × Nat)) (r' : Nat → Nat) : Prop where
  psne : ps ≠ []
  psValid : ∀ e ∈ ps, e.2 < b.size
  csValid : ∀ e ∈ cs, e.2 < b.size ∧ e.2 ≠ 0
  rkBound : ∀ i, i < b.size + 1 → r' i < b.size + 1
  rkOld : ∀ i, i < b.size → ∀ c ∈ childIds (b.nd i), r' i < r' c
  rkPs : ∀ e ∈ ps, r' e.2 < r' b.size
  rkCs : ∀ e ∈ cs, r' b.size < r' e.2
  parPs : ∀ e ∈ ps, ∀ e' ∈ ps, (b.nd e.2).depth % 2 = (b.nd e'.2).depth % 2
  parCs : ∀ e ∈ ps, ∀ e' ∈ cs, ((b.nd e.2).depth + (b.nd e'.2).depth) % 2 = 0
  mvPs : ∀ e ∈ ps, ∀ x ∈ (b.nd e.2).children, x.1 ≠ e.1
  mvCs : ∀ e ∈ cs, ∀ e' ∈ cs, e.1 = e'.1 → e = e'
  small : b.size + 1 < DEPTH_INF

/-- the book with the new, still unlinked node -/
def pushNew (b : Book) (key : Nat) : Book := { b with nodes := b.nodes.push { key := key } }

theorem linkNew_eq (b : Book) (key : Nat) (ps cs : List (Nat × Nat)) :
    linkNew b key ps cs =
      cs.foldl (fun acc e => addLink acc e.2 e.1 b.size)
        (ps.foldl (fun acc e => addLink acc b.size e.1 e.2) (pushNew b key)) := rfl

@[simp] theorem size_pushNew (b : Book) (key : Nat) : (pushNew b key).size = b.size + 1 := by
  simp [pushNew, Book.size]

theorem nd_pushNew_old (b : Book) (key j : Nat) (h : j < b.size) : (pushNew b key).nd j = b.nd j := by
  simp only [pushNew, Book.nd, Book.size, Array.getD_eq_getD_getElem?] at *
  rw [Array.getElem?_push_lt h, Array.getElem?_eq_getElem h]

theorem nd_pushNew_new (b : Book) (key : Nat) : (pushNew b key).nd b.size = { key := key } := by
  simp only [pushNew, Book.nd, Book.size, Array.getD_eq_getD_getElem?]
  rw [Array.getElem?_push_size]; rfl

/-- frame of the linking phase relative to the original book: old nodes only gain links to the new node -/
structure NF (b : Book) (key : Nat) (bc : Book) : Prop where
  size : bc.size = b.size + 1
  pending : bc.pending = b.pending
  costs : bc.costs = b.costs
  scalOld : ∀ j, j < b.size → (bc.nd j).scal = (b.nd j).scal
  scalNew : (bc.nd b.size).scal = ({ key := key } : Node).scal
  chOld : ∀ j, j < b.size → (bc.nd j).children.filter (fun e => e.2 != b.size) = (b.nd j).children
  paOld : ∀ j, j < b.size → (bc.nd j).parents.filter (fun e => e.2 != b.size) = (b.nd j).parents
  dparOld : ∀ j, j < b.size →
    (bc.nd j).depth % 2 = (b.nd j).depth % 2 ∧ ((bc.nd j).depth = 0 ↔ (b.nd j).depth = 0)

theorem filter_id_of_all {α : Type} (l : List α) (P : α → Bool) (h : ∀ x ∈ l, P x = true) : l.filter P = l :=
  List.filter_eq_self.mpr h

/-- depth ≤ rank for every node of a book at its fixed point (structural part) -/
theorem depth_le_rank (b : Book) (hS : StructOk b) (r : Nat → Nat)
    (hr : ∀ i, i < b.size → ∀ c ∈ childIds (b.nd i), r i < r c) :
    ∀ (k j : Nat), r j ≤ k → j < b.size → (b.nd j).depth ≤ r j := by
  intro k
  induction k with
  | zero =>
    intro j hk hj
    by_cases h0 : j = 0
    · subst h0; rw [hS.root.1]; omega
    · obtain ⟨q, hq, _⟩ := (hS.depth j (by omega) hj).1
      have hq' := wf_parent b hS.wf j q hj hq
      have := hr q hq'.1 j hq'.2
      omega
  | succ k ih =>
    intro j hk hj
    by_cases h0 : j = 0
    · subst h0; rw [hS.root.1]; omega
    · obtain ⟨q, hq, he⟩ := (hS.depth j (by omega) hj).1
      have hq' := wf_parent b hS.wf j q hj hq
      have h1 := hr q hq'.1 j hq'.2
      have h2 := ih q (by omega) hq'.1
      omega

section linknew
variable (b : Book) (key : Nat) (ps cs : List (Nat × Nat)) (r' : Nat → Nat) (hS : StructOk b) (hA : AddOk b ps cs r')

include hS hA in
theorem pushNew_linkInv : LinkInv (pushNew b key) r' := by
  have hold := nd_pushNew_old b key
  have hnew := nd_pushNew_new b key
  have hcases : ∀ j, j < b.size + 1 → j < b.size ∨ j = b.size := by intro j hj; omega
  refine ⟨by simp, by simp; exact hA.small, ⟨?_, ?_⟩, ⟨?_, ?_⟩, ?_, ?_, ?_, ?_, ?_, ?_⟩
  · intro i hi e he
    rw [size_pushNew] at hi ⊢
    rcases hcases i hi with h | h
    · rw [hold i h] at he
      have := hS.wf.child i h e he
      rw [hold e.2 this.1]; exact ⟨by omega, this.2⟩
    · subst h; rw [hnew] at he; simp at he
  · intro i hi e he
    rw [size_pushNew] at hi ⊢
    rcases hcases i hi with h | h
    · rw [hold i h] at he
      have := hS.wf.parent i h e he
      rw [hold e.2 this.1]; exact ⟨by omega, this.2⟩
    · subst h; rw [hnew] at he; simp at he
  · intro i hi; rw [size_pushNew] at hi ⊢; exact hA.rkBound i hi
  · intro i hi c hc
    rw [size_pushNew] at hi
    rcases hcases i hi with h | h
    · rw [hold i h] at hc; exact hA.rkOld i h c hc
    · subst h; rw [hnew] at hc; simp [childIds] at hc
  · rw [hold 0 hS.nonempty]; exact ⟨hS.root.1, hS.root.2.1⟩
  · intro j hj
    rw [size_pushNew] at hj
    rcases hcases j hj with h | h
    · by_cases h0 : j = 0
      · left; subst h0; rw [hold 0 h]; simp only [parentIds, hS.root.2.1]; rfl
      · right
        have := hS.depth j (by omega) h
        unfold depthOk at this ⊢
        rw [hold j h]
        obtain ⟨⟨q, hq, he⟩, hall⟩ := this
        refine ⟨⟨q, hq, ?_⟩, ?_⟩
        · rw [hold q (wf_parent b hS.wf j q h hq).1]; exact he
        · intro q' hq'; rw [hold q' (wf_parent b hS.wf j q' h hq').1]; exact hall q' hq'
    · left; subst h; rw [hnew]; rfl
  · intro i hi c hc
    rw [size_pushNew] at hi
    rcases hcases i hi with h | h
    · rw [hold i h] at hc ⊢
      rw [hold c (wf_child b hS.wf i c h hc).1]
      exact hS.parity i h c hc
    · subst h; rw [hnew] at hc; simp [childIds] at hc
  · intro j hj hj0 hnil
    rw [size_pushNew] at hj
    rcases hcases j hj with h | h
    · rw [hold j h] at hnil
      obtain ⟨q, hq, _⟩ := (hS.depth j (by omega) h).1
      rw [hnil] at hq; simp at hq
    · subst h; rw [hnew]; rfl
  · intro j hj hj0 hnil
    rw [size_pushNew] at hj
    rcases hcases j hj with h | h
    · rw [hold j h] at hnil
      obtain ⟨q, hq, _⟩ := (hS.depth j (by omega) h).1
      rw [hnil] at hq; simp at hq
    · subst h; rw [hnew]
  · intro j hj hl
    rw [size_pushNew] at hj
    rcases hcases j hj with h | h
    · rw [hold j h]
      exact depth_le_rank b hS r' hA.rkOld (r' j) j (Nat.le_refl _) h
    · subst h
      rcases hl with h | h
      · have := hS.nonempty; omega
      · rw [hnew] at h; exact absurd rfl h

include hS in
theorem pushNew_nf : NF b key (pushNew b key) := by
  have hold := nd_pushNew_old b key
  refine ⟨by simp, rfl, rfl, fun j hj => by rw [hold j hj], by rw [nd_pushNew_new], ?_, ?_, fun j hj => by rw [hold j hj]; exact ⟨rfl, Iff.rfl⟩⟩
  · intro j hj
    rw [hold j hj]
    apply filter_id_of_all
    intro e he
    have := (hS.wf.child j hj e he).1
    simp only [bne_iff_ne, ne_eq]; omega
  · intro j hj
    rw [hold j hj]
    apply filter_id_of_all
    intro e he
    have := (hS.wf.parent j hj e he).1
    simp only [bne_iff_ne, ne_eq]; omega


include hS in
/-- an old non-root node keeps at least one parent -/
theorem nf_parents_ne (bc : Book) (hnf : NF b key bc) (j : Nat) (hj : j < b.size) (hj0 : j ≠ 0) :
    parentIds (bc.nd j) ≠ [] := by
  obtain ⟨q, hq, _⟩ := (hS.depth j (by omega) hj).1
  obtain ⟨e, he, rfl⟩ := (mem_parentIds _ _).mp hq
  rw [← hnf.paOld j hj] at he
  have := (List.mem_filter.mp he).1
  intro hnil
  have h2 : e.2 ∈ parentIds (bc.nd j) := (mem_parentIds _ _).mpr ⟨e, this, rfl⟩
  rw [hnil] at h2; simp at h2

/-- loop invariant while the new node is being linked to its parents -/
structure PsInv (done : List (Nat × Nat)) (bc : Book) : Prop where
  inv : LinkInv bc r'
  nf : NF b key bc
  paEq : ∀ j, j < b.size → (bc.nd j).parents = (b.nd j).parents
  chNew : (bc.nd b.size).children = []
  paNew : ∀ x, x ∈ (bc.nd b.size).parents ↔ x ∈ done

include hS hA in
theorem ps_step (done : List (Nat × Nat)) (bc : Book) (e : Nat × Nat) (hd : ∀ x ∈ done, x ∈ ps) (he : e ∈ ps)
    (h : PsInv b key r' done bc) : PsInv b key r' (done ++ [e]) (addLink bc b.size e.1 e.2) := by
  have hn := hS.nonempty
  have he2 := hA.psValid e he
  have hsz := h.nf.size
  have hpl : e.2 = 0 ∨ parentIds (bc.nd e.2) ≠ [] := by
    by_cases h0 : e.2 = 0
    · exact Or.inl h0
    · exact Or.inr (nf_parents_ne b key hS bc h.nf e.2 he2 h0)
  have hpar : parentIds (bc.nd b.size) = [] ∨ ((bc.nd e.2).depth + (bc.nd b.size).depth) % 2 = 1 := by
    by_cases hnil : parentIds (bc.nd b.size) = []
    · exact Or.inl hnil
    · right
      rcases h.inv.dep b.size (by omega) with h1 | h1
      · exact absurd h1 hnil
      · obtain ⟨q, hq, hqe⟩ := h1.1
        obtain ⟨x, hx, rfl⟩ := (mem_parentIds _ _).mp hq
        have hxps := hd x ((h.paNew x).mp hx)
        have hx2 := hA.psValid x hxps
        have h3 := (h.nf.dparOld x.2 hx2).1
        have h4 := (h.nf.dparOld e.2 he2).1
        have h5 := hA.parPs e he x hxps
        omega
  have huniq : ∀ x ∈ (bc.nd e.2).children, x.1 = e.1 → x = (e.1, b.size) := by
    intro x hx hx1
    by_cases hxn : x.2 = b.size
    · rw [← hx1, ← hxn]
    · have : x ∈ (b.nd e.2).children := by
        rw [← h.nf.chOld e.2 he2]
        exact List.mem_filter.mpr ⟨hx, by simpa using hxn⟩
      exact absurd hx1 (hA.mvPs e he x this)
  have hspec := addLink_spec bc r' b.size e.1 e.2 h.inv (by omega) (by omega) (by omega) (hA.rkPs e he) hpl hpar huniq
  obtain ⟨hinv', hal⟩ := hspec
  have hne : ∀ j, j < b.size → j ≠ b.size := fun j hj => by omega
  refine ⟨hinv', ⟨by rw [hal.size, hsz], by rw [hal.pending, h.nf.pending], by rw [hal.costs, h.nf.costs], ?_, ?_, ?_, ?_, ?_⟩, ?_, ?_, ?_⟩
  · intro j hj; rw [hal.scal j]; exact h.nf.scalOld j hj
  · rw [hal.scal b.size]; exact h.nf.scalNew
  · intro j hj
    rw [hal.children j]
    split
    · next hje => rw [insertChild_filter _ _ _ _ (by simp), ← hje]; exact h.nf.chOld j hj
    · exact h.nf.chOld j hj
  · intro j hj
    rw [hal.parents j]; simp only [hne j hj, if_false]; exact h.nf.paOld j hj
  · intro j hj
    have h1 := hal.dpar j (Or.inl (hne j hj))
    have h2 := h.nf.dparOld j hj
    exact ⟨h1.1.trans h2.1, h1.2.trans h2.2⟩
  · intro j hj
    rw [hal.parents j]; simp only [hne j hj, if_false]; exact h.paEq j hj
  · rw [hal.children b.size]
    have : b.size ≠ e.2 := by omega
    simp only [this, if_false]; exact h.chNew
  · intro x
    rw [hal.parents b.size]; simp only [if_true]
    rw [mem_insertParent, h.paNew x, List.mem_append, List.mem_singleton]

include hS hA in
theorem ps_loop : ∀ (todo done : List (Nat × Nat)) (bc : Book), (∀ x ∈ done, x ∈ ps) → (∀ x ∈ todo, x ∈ ps) →
    PsInv b key r' done bc → PsInv b key r' (done ++ todo) (todo.foldl (fun acc e => addLink acc b.size e.1 e.2) bc) := by
  intro todo
  induction todo with
  | nil => intro done bc _ _ h; simpa using h
  | cons e t ih =>
    intro done bc hd ht h
    simp only [List.foldl_cons]
    have := ih (done ++ [e]) (addLink bc b.size e.1 e.2)
      (by intro x hx; rcases List.mem_append.mp hx with h1 | h1
          · exact hd x h1
          · rw [List.mem_singleton.mp h1]; exact ht e (by simp))
      (fun x hx => ht x (by simp [hx]))
      (ps_step b key ps cs r' hS hA done bc e hd (ht e (by simp)) h)
    simpa using this

/-- loop invariant while the new node is being linked to its existing children (`setChildRefs`) -/
structure CsInv (done : List (Nat × Nat)) (bc : Book) : Prop where
  inv : LinkInv bc r'
  nf : NF b key bc
  paNewPs : ∀ x ∈ (bc.nd b.size).parents, x ∈ ps
  paNewNe : parentIds (bc.nd b.size) ≠ []
  chNew : ∀ x ∈ (bc.nd b.size).children, x ∈ done

include hS hA in
theorem cs_step (done : List (Nat × Nat)) (bc : Book) (e : Nat × Nat) (hd : ∀ x ∈ done, x ∈ cs) (he : e ∈ cs)
    (h : CsInv b key ps r' done bc) : CsInv b key ps r' (done ++ [e]) (addLink bc e.2 e.1 b.size) := by
  have hn := hS.nonempty
  have he2 := hA.csValid e he
  have hsz := h.nf.size
  have hpne := nf_parents_ne b key hS bc h.nf e.2 he2.1 he2.2
  have hpar : parentIds (bc.nd e.2) = [] ∨ ((bc.nd b.size).depth + (bc.nd e.2).depth) % 2 = 1 := by
    right
    rcases h.inv.dep b.size (by omega) with h1 | h1
    · exact absurd h1 h.paNewNe
    · obtain ⟨q, hq, hqe⟩ := h1.1
      obtain ⟨x, hx, rfl⟩ := (mem_parentIds _ _).mp hq
      have hxps := h.paNewPs x hx
      have hx2 := hA.psValid x hxps
      have h3 := (h.nf.dparOld x.2 hx2).1
      have h4 := (h.nf.dparOld e.2 he2.1).1
      have h5 := hA.parCs x hxps e he
      omega
  have huniq : ∀ x ∈ (bc.nd b.size).children, x.1 = e.1 → x = (e.1, e.2) := by
    intro x hx hx1
    have := hA.mvCs x (hd x (h.chNew x hx)) e he hx1
    rw [this]
  have hspec := addLink_spec bc r' e.2 e.1 b.size h.inv (by omega) (by omega) he2.2 (hA.rkCs e he) (Or.inr h.paNewNe) hpar huniq
  obtain ⟨hinv', hal⟩ := hspec
  have hne : ∀ j, j < b.size → j ≠ b.size := fun j hj => by omega
  have hne2 : b.size ≠ e.2 := by omega
  refine ⟨hinv', ⟨by rw [hal.size, hsz], by rw [hal.pending, h.nf.pending], by rw [hal.costs, h.nf.costs], ?_, ?_, ?_, ?_, ?_⟩, ?_, ?_, ?_⟩
  · intro j hj; rw [hal.scal j]; exact h.nf.scalOld j hj
  · rw [hal.scal b.size]; exact h.nf.scalNew
  · intro j hj
    rw [hal.children j]; simp only [hne j hj, if_false]; exact h.nf.chOld j hj
  · intro j hj
    rw [hal.parents j]
    split
    · next hje => rw [insertParent_filter _ _ _ _ (by simp), ← hje]; exact h.nf.paOld j hj
    · exact h.nf.paOld j hj
  · intro j hj
    have h1 := hal.dpar j (Or.inr hpne)
    have h2 := h.nf.dparOld j hj
    exact ⟨h1.1.trans h2.1, h1.2.trans h2.2⟩
  · intro x hx
    rw [hal.parents b.size] at hx; simp only [hne2, if_false] at hx
    exact h.paNewPs x hx
  · simp only [parentIds, hal.parents b.size, hne2, if_false]; exact h.paNewNe
  · intro x hx
    rw [hal.children b.size] at hx; simp only [if_true] at hx
    rcases mem_insertChild_cases _ _ _ _ hx with h1 | h1
    · exact List.mem_append.mpr (Or.inl (h.chNew x h1))
    · rw [h1]; simp

include hS hA in
theorem cs_loop : ∀ (todo done : List (Nat × Nat)) (bc : Book), (∀ x ∈ done, x ∈ cs) → (∀ x ∈ todo, x ∈ cs) →
    CsInv b key ps r' done bc → CsInv b key ps r' (done ++ todo) (todo.foldl (fun acc e => addLink acc e.2 e.1 b.size) bc) := by
  intro todo
  induction todo with
  | nil => intro done bc _ _ h; simpa using h
  | cons e t ih =>
    intro done bc hd ht h
    simp only [List.foldl_cons]
    have := ih (done ++ [e]) (addLink bc e.2 e.1 b.size)
      (by intro x hx; rcases List.mem_append.mp hx with h1 | h1
          · exact hd x h1
          · rw [List.mem_singleton.mp h1]; exact ht e (by simp))
      (fun x hx => ht x (by simp [hx]))
      (cs_step b key ps cs r' hS hA done bc e hd (ht e (by simp)) h)
    simpa using this

include hS hA in
/-- after `linkNew` the linking invariant holds, old nodes only gained links to the new node, the new node's parents
    are exactly `ps` and its children are among `cs` -/
theorem linkNew_spec :
    LinkInv (linkNew b key ps cs) r' ∧ NF b key (linkNew b key ps cs) ∧
    (∀ x ∈ ((linkNew b key ps cs).nd b.size).parents, x ∈ ps) ∧ parentIds ((linkNew b key ps cs).nd b.size) ≠ [] := by
  have h0 : PsInv b key r' [] (pushNew b key) :=
    ⟨pushNew_linkInv b key ps cs r' hS hA, pushNew_nf b key hS, fun j hj => by rw [nd_pushNew_old b key j hj],
     by rw [nd_pushNew_new], fun x => by rw [nd_pushNew_new]⟩
  have h1 := ps_loop b key ps cs r' hS hA ps [] (pushNew b key) (by simp) (fun x hx => hx) h0
  simp only [List.nil_append] at h1
  have h2 : CsInv b key ps r' [] (ps.foldl (fun acc e => addLink acc b.size e.1 e.2) (pushNew b key)) := by
    refine ⟨h1.inv, h1.nf, fun x hx => (h1.paNew x).mp hx, ?_, fun x hx => by rw [h1.chNew] at hx; simp at hx⟩
    obtain ⟨e, t, hps⟩ := List.exists_cons_of_ne_nil hA.psne
    have : e ∈ (((ps.foldl (fun acc e => addLink acc b.size e.1 e.2) (pushNew b key)).nd b.size).parents) :=
      (h1.paNew e).mpr (by rw [hps]; simp)
    intro hnil
    have h3 : e.2 ∈ parentIds ((ps.foldl (fun acc e => addLink acc b.size e.1 e.2) (pushNew b key)).nd b.size) :=
      (mem_parentIds _ _).mpr ⟨e, this, rfl⟩
    rw [hnil] at h3; simp at h3
  have h3 := cs_loop b key ps cs r' hS hA cs [] _ (by simp) (fun x hx => hx) h2
  rw [linkNew_eq]
  exact ⟨h3.inv, h3.nf, h3.paNewPs, h3.paNewNe⟩

end linknew
end Bk
