import TexelVerif.TT.Index
import TexelVerif.TT.Entry
import TexelVerif.TT.Fields
/-!
Executable model of `TranspositionTable` (transpositionTable.hpp / .cpp): entry fields,
ply-relative mate scores, the 4-slot bucket `insert` / `probe`, generation, contempt hash,
`clear`, byte access used by the on-demand tablebase.  Single-threaded semantics; the
concurrent over-approximation is in `Entry.lean`.
-/
namespace TT

abbrev W := BitVec 64

-- field layout (transpositionTable.hpp:125-133)
def getMove (d : W) : BitVec 32 := getBits d 0 16
def setMove (d : W) (m : BitVec 32) : W := setBits d 0 16 m
def getDepth (d : W) : Nat := (getBits d 32 9).toNat
def setDepth (d : W) (x : Int) : W := setBits d 32 9 (BitVec.ofInt 32 x)
def getBusy (d : W) : Bool := getBits d 41 1 != 0
def setBusy (d : W) (b : Bool) : W := setBits d 41 1 (if b then 1 else 0)
def getGeneration (d : W) : Nat := (getBits d 42 4).toNat
def setGeneration (d : W) (g : Nat) : W := setBits d 42 4 (BitVec.ofNat 32 g)
def getType (d : W) : Nat := (getBits d 46 2).toNat
def setType (d : W) (t : Int) : W := setBits d 46 2 (BitVec.ofInt 32 t)
def getEvalScore (d : W) : Int := ((getBits d 48 16).setWidth 16).toInt
def setEvalScore (d : W) (s : Int) : W := setBits d 48 16 (BitVec.ofInt 32 s)
def rawScore (d : W) : Int := ((getBits d 16 16).setWidth 16).toInt

def MATE0 : Int := 32000
def isWinScore (s : Int) : Bool := decide (s > 16000)   -- MATE0 / 2
def isLoseScore (s : Int) : Bool := decide (s < -16000)

/-- the ply adjustment of `TTEntry::setScore`, before truncation to 16 bits -/
def toStored (score ply : Int) : Int :=
  if isWinScore score then score + ply else if isLoseScore score then score - ply else score
/-- the ply adjustment of `TTEntry::getScore` -/
def fromStored (sc ply : Int) : Int :=
  if isWinScore sc then sc - ply else if isLoseScore sc then sc + ply else sc

def getScore (d : W) (ply : Int) : Int := fromStored (rawScore d) ply
def setScore (d : W) (score ply : Int) : W := setBits d 16 16 (BitVec.ofInt 32 (toStored score ply))

def T_EMPTY : Nat := 0
def T_EXACT : Nat := 1
def T_GE : Nat := 2
def T_LE : Nat := 3

/-- `TTEntry::isCutOff` -/
def isCutOff (d : W) (alpha beta ply depth : Int) : Bool :=
  let score := getScore d ply
  let eDepth : Int := getDepth d
  let eType := getType d
  if eDepth ≥ depth ∧ (eType = T_EXACT ∨ (eType = T_GE ∧ score ≥ beta) ∨ (eType = T_LE ∧ score ≤ alpha)) then true
  else if isWinScore score ∧ score ≥ beta ∧ (eType = T_EXACT ∨ eType = T_GE) then true
  else if isLoseScore score ∧ score ≤ alpha ∧ (eType = T_EXACT ∨ eType = T_LE) then true
  else false

/-- `TTEntry::betterThan` on data words -/
def betterThan (a b : W) (currGen : Nat) : Bool :=
  if (getGeneration a == currGen) != (getGeneration b == currGen) then getGeneration a == currGen
  else
    let d1 := getDepth a + (if getType a = T_EXACT then 3 else 0)
    let d2 := getDepth b + (if getType b = T_EXACT then 3 else 0)
    if d1 ≠ d2 then d1 > d2 else false

/-- A slot as stored in memory: (key ^ data, data). -/
abbrev Slot := W × W

structure Table where
  size : Nat                 -- tableSize (entries)
  used : Used                -- usedSizeTopBits / usedSizeShift / usedSizeMask
  gen : Nat                  -- generation (0..15)
  contempt : W               -- contemptHash
  slots : Array Slot

instance : Inhabited Table := ⟨{ size := 0, used := ⟨0,0,0⟩, gen := 0, contempt := 0, slots := #[] }⟩

def normSize (n : Nat) : Nat := (if n < 4 then 4 else n) / 4 * 4

/-- `TranspositionTable(numEntries)` / `reSize`: a fresh table -/
def Table.new (numEntries : Nat) : Table :=
  let n := normSize numEntries
  { size := n, used := setUsedSize n, gen := 0, contempt := 0, slots := Array.replicate n (0, 0) }

/-- `clear()` (after the repair `fix: reset the hash generation in TranspositionTable::clear()`; the pinned commit
    kept `generation`, see `Props.C14.clearOld`) -/
def Table.clear (t : Table) : Table :=
  { t with used := setUsedSize t.size, gen := 0, slots := Array.replicate t.size (0, 0) }

def Table.nextGeneration (t : Table) : Table := { t with gen := (t.gen + 1) % 16 }

def contemptHashOf (c : Int) : W :=
  if c > 0 then 0x9E3779B97DE88147#64 * BitVec.ofInt 64 c
  else if c < 0 then ~~~(0x9E3779B97DE88147#64 * BitVec.ofInt 64 (-c))
  else 0

def Table.setWhiteContempt (t : Table) (c : Int) : Table := { t with contempt := contemptHashOf c }

def Table.index (t : Table) (key : W) : Nat := getIndex t.used key.toNat

def loadSlot (s : Slot) : W × W := (s.1 ^^^ s.2, s.2)      -- (key, data)

def Table.slot (t : Table) (i : Nat) : Slot := t.slots.getD i (0, 0)

/-- choice of the victim slot in `insert` (the loop over the 4 bucket slots);
    returns (slot offset, key, data) of the chosen entry -/
def chooseSlot (t : Table) (idx0 : Nat) (key : W) : Nat × W × W :=
  let rec go (i : Nat) (fuel : Nat) (cur : Nat × W × W) : Nat × W × W :=
    match fuel with
    | 0 => cur
    | fuel+1 =>
      let e := loadSlot (t.slot (idx0 + i))
      if e.1 == key then (i, e.1, e.2)
      else if i == 0 then go (i+1) fuel (i, e.1, e.2)
      else if betterThan cur.2.2 e.2 t.gen then go (i+1) fuel (i, e.1, e.2)
      else go (i+1) fuel cur
  go 0 4 (0, 0, 0)

structure InsArgs where
  key : W
  from_ : Nat
  to : Nat
  promote : Nat
  score : Int
  type : Int
  ply : Int
  depth : Int
  eval : Int
  busy : Bool

def compressedMove (from_ to promote : Nat) : BitVec 32 := BitVec.ofNat 32 ((from_ + to * 64 + promote * 4096) % 65536)

/-- the data word `insert` composes from the chosen entry `edata` (whose key is `ekey`) -/
def composeData (t : Table) (a : InsArgs) (key ekey edata : W) (depth : Int) : W :=
  let d := edata
  let d := if ekey != key || a.from_ != a.to then setMove d (compressedMove a.from_ a.to a.promote) else d
  let d := setScore d a.score a.ply
  let d := setDepth d depth
  let d := setBusy d a.busy
  let d := setGeneration d t.gen
  let d := setType d a.type
  setEvalScore d a.eval

/-- the "do not overwrite a deeper entry of the same type" rule of `insert` -/
def doStore (a : InsArgs) (key ekey edata : W) (depth : Int) : Bool :=
  if !a.busy && (ekey == key) && (decide ((getDepth edata : Int) > depth)) && (decide ((getType edata : Int) = a.type)) then
    if a.type = T_EXACT then false
    else if a.type = T_GE ∧ a.score ≤ getScore edata a.ply then false
    else if a.type = T_LE ∧ a.score ≥ getScore edata a.ply then false
    else true
  else true

/-- what `insert` writes: `none`, or (slot index, key, data) -/
def Table.insertPlan (t : Table) (a : InsArgs) : Option (Nat × W × W) :=
  let key := a.key ^^^ t.contempt
  let depth : Int := if a.depth < 0 then 0 else a.depth
  let idx0 := t.index key
  let cs := chooseSlot t idx0 key
  if doStore a key cs.2.1 cs.2.2 depth then some (idx0 + cs.1, key, composeData t a key cs.2.1 cs.2.2 depth) else none

/-- `TranspositionTable::insert` -/
def Table.insert (t : Table) (a : InsArgs) : Table :=
  match t.insertPlan a with
  | some (i, k, d) => { t with slots := t.slots.setIfInBounds i (encode k d) }
  | none => t

/-- `TranspositionTable::setBusy(ent, ply)`: the entry read by a probe is inserted again, marked busy, with the score it
    shows at `ply` stored back at `ply`.  `k` is the key field of the probed entry (xor-ed with the contempt hash); the
    repaired C++ removes the contempt hash before handing the key to `insert`, which applies it again (the pinned code did
    not: with a non-zero contempt the record was stored a second time under the key `k ^ contempt`). -/
def Table.setBusy (t : Table) (k d : W) (ply : Int) : Table :=
  let m := (getMove d).toNat
  t.insert { key := k ^^^ t.contempt, from_ := m % 64, to := m / 64 % 64, promote := m / 4096, score := getScore d ply, type := (getType d : Int),
             ply := ply, depth := (getDepth d : Int), eval := getEvalScore d, busy := true }

/-- `TranspositionTable::probe`: returns the entry (key, data) on a hit; refreshes the generation -/
def Table.probe (t : Table) (key0 : W) : Table × Option (W × W) :=
  let key := key0 ^^^ t.contempt
  let idx0 := t.index key
  let rec go (i fuel : Nat) : Table × Option (W × W) :=
    match fuel with
    | 0 => (t, none)
    | fuel+1 =>
      let e := loadSlot (t.slot (idx0 + i))
      if e.1 == key then
        if getGeneration e.2 != t.gen then
          let d := setGeneration e.2 t.gen
          ({ t with slots := t.slots.setIfInBounds (idx0 + i) (encode key d) }, some (key, d))
        else (t, some (key, e.2))
      else go (i+1) fuel
  go 0 4

/-- `getByte` / `putByte` (byte `idx` of the table memory, little endian words key,data) -/
def Table.getByte (t : Table) (idx : Nat) : Nat :=
  let s := t.slot (idx / 16)
  let offs := idx % 16
  let w := if offs < 8 then s.1 else s.2
  ((w >>> ((offs % 8) * 8)) &&& 0xff#64).toNat

def Table.putByte (t : Table) (idx : Nat) (v : Nat) : Table :=
  let ent := idx / 16
  let s := t.slot ent
  let offs := idx % 16
  let sh := (offs % 8) * 8
  let upd (w : W) : W := (w &&& ~~~(0xff#64 <<< sh)) ||| (BitVec.ofNat 64 (v % 256) <<< sh)
  let s' : Slot := if offs < 8 then (upd s.1, s.2) else (s.1, upd s.2)
  { t with slots := t.slots.setIfInBounds ent s' }

end TT
