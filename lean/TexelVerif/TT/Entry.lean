import TexelVerif.TT.Index
namespace TT

/-- TTEntry::store writes (key ^ data, data); TTEntry::load computes key := w0 ^ w1 -/
def encode (k d : BitVec 64) : BitVec 64 × BitVec 64 := (k ^^^ d, d)
def decodeKey (w0 w1 : BitVec 64) : BitVec 64 := w0 ^^^ w1

theorem decode_encode (k d : BitVec 64) : decodeKey (encode k d).1 (encode k d).2 = k := by
  simp [decodeKey, encode, BitVec.xor_assoc]

/-- Any pair of words (each possibly from a different writer) that validates for key k is bit-identical
    to the unit record a single store of (k, w1) would have written. -/
theorem xor_hit_is_unit (w0 w1 k : BitVec 64) (h : decodeKey w0 w1 = k) : (w0, w1) = encode k w1 := by
  subst h
  simp [decodeKey, encode, BitVec.xor_assoc]

/-- relaxed-atomics over-approximation: a load returns some value previously stored to that word.
    If the history is free of xor-coincidences, a validating probe returns a record that was stored as a unit. -/
theorem hit_was_stored (stores : List (BitVec 64 × BitVec 64))      -- (key, data) units stored into this slot
    (w0 w1 k : BitVec 64)
    (h0 : ∃ r ∈ stores, w0 = (encode r.1 r.2).1) (h1 : ∃ r ∈ stores, w1 = (encode r.1 r.2).2)
    (hk : decodeKey w0 w1 = k)
    (hfree : ∀ a ∈ stores, ∀ b ∈ stores, a.1 ^^^ a.2 ^^^ b.2 = k → a = b) :
    (k, w1) ∈ stores := by
  obtain ⟨a, ha, rfl⟩ := h0
  obtain ⟨b, hb, rfl⟩ := h1
  simp only [encode, decodeKey] at hk
  have := hfree a ha b hb hk
  subst this
  have : k = a.1 := by rw [← hk]; simp [BitVec.xor_assoc]
  subst this
  simpa [encode] using ha

/-- while a 4-man tablebase is resident the hash part ends before the tablebase bytes begin -/
theorem tb_region_disjoint (tableSize key : Nat) (hsz : 7 * 2^20 ≤ tableSize * 16) (hmax : tableSize < 2^72)
    (hk : key < 2^64) :
    let used := tableSize - 327680
    (getIndex (setUsedSize used) key + 3) * 16 + 15 < tableSize * 16 - 5 * 2^20 := by
  simp only
  have h := index_ok (tableSize - 327680) key (by omega) (by omega) hk
  simp only at h
  omega

end TT
