import TexelVerif.TT.Table
/-! Lemmas about the table model: score truncation, bucket locality of `insert` and `probe`. -/
namespace TT

theorem toStored_def (s p : Int) : toStored s p = if s > 16000 then s + p else if s < -16000 then s - p else s := by
  simp [toStored, isWinScore, isLoseScore]
theorem fromStored_def (s p : Int) : fromStored s p = if s > 16000 then s - p else if s < -16000 then s + p else s := by
  simp [fromStored, isWinScore, isLoseScore]

theorem trunc16 (x : Int) (h1 : -32768 ≤ x) (h2 : x ≤ 32767) :
    ((BitVec.ofInt 32 x &&& BitVec.ofNat 32 (2^16 - 1)).setWidth 16).toInt = x := by
  have e : (BitVec.ofInt 32 x &&& BitVec.ofNat 32 (2^16 - 1)).setWidth 16 = BitVec.ofInt 16 x := by
    apply BitVec.eq_of_toNat_eq
    rw [BitVec.toNat_setWidth, BitVec.toNat_and, BitVec.toNat_ofInt, BitVec.toNat_ofInt, BitVec.toNat_ofNat]
    have : (2^16 - 1) % 2^32 = 2^16 - 1 := by decide
    rw [this, Nat.and_two_pow_sub_one_eq_mod]
    omega
  rw [e, BitVec.toInt_ofInt]
  exact @Int.bmod_eq_of_le x (2^16) (by omega) (by omega)

theorem rawScore_setScore (d : W) (s p : Int) (h1 : -32768 ≤ toStored s p) (h2 : toStored s p ≤ 32767) :
    rawScore (setScore d s p) = toStored s p := by
  unfold rawScore setScore
  rw [getBits_setBits_same d 16 16 _ (by omega) (by omega)]
  exact trunc16 _ h1 h2

theorem chooseSlot_go_lt (t : Table) (idx0 : Nat) (key : W) :
    ∀ fuel i cur, i + fuel ≤ 4 → cur.1 < 4 → (chooseSlot.go t idx0 key i fuel cur).1 < 4 := by
  intro fuel
  induction fuel with
  | zero => intro i cur _ h; simpa [chooseSlot.go] using h
  | succ n ih =>
    intro i cur hi hc
    unfold chooseSlot.go
    simp only
    split
    · simp; omega
    · split
      · exact ih _ _ (by omega) (by simp; omega)
      · split
        · exact ih _ _ (by omega) (by simp; omega)
        · exact ih _ _ (by omega) hc

theorem chooseSlot_lt (t : Table) (idx0 : Nat) (key : W) : (chooseSlot t idx0 key).1 < 4 :=
  chooseSlot_go_lt t idx0 key 4 0 (0, 0, 0) (by omega) (by simp)

theorem insertPlan_bucket (t : Table) (a : InsArgs) (i : Nat) (k d : W) (h : t.insertPlan a = some (i, k, d)) :
    t.index (a.key ^^^ t.contempt) ≤ i ∧ i < t.index (a.key ^^^ t.contempt) + 4 ∧ k = a.key ^^^ t.contempt := by
  unfold Table.insertPlan at h
  have hlt := chooseSlot_lt t (t.index (a.key ^^^ t.contempt)) (a.key ^^^ t.contempt)
  simp only [Option.ite_none_right_eq_some, Option.some.injEq, Prod.mk.injEq] at h
  obtain ⟨_, h1, h2, _⟩ := h
  exact ⟨by omega, by omega, h2.symm⟩

/-- `insert` writes at most one slot, and that slot is one of the four slots of the key's bucket. -/
theorem insert_local (t : Table) (a : InsArgs) (i : Nat)
    (h : i < t.index (a.key ^^^ t.contempt) ∨ t.index (a.key ^^^ t.contempt) + 4 ≤ i) :
    (t.insert a).slot i = t.slot i := by
  unfold Table.insert
  split
  · next j k d hp =>
    have := insertPlan_bucket t a j k d hp
    simp only [Table.slot, Array.getD_eq_getD_getElem?]
    rw [Array.getElem?_setIfInBounds_ne]
    omega
  · rfl

theorem insert_meta (t : Table) (a : InsArgs) :
    (t.insert a).size = t.size ∧ (t.insert a).used = t.used ∧ (t.insert a).gen = t.gen ∧
    (t.insert a).contempt = t.contempt ∧ (t.insert a).slots.size = t.slots.size := by
  unfold Table.insert
  split <;> simp

end TT
