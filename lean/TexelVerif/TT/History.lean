import TexelVerif.TT.TableLemmas
/-!
History-level refinement for the single-threaded table: whatever a probe returns was written by an earlier
`insert` for exactly that (contempt-adjusted) key as one unit — up to the generation field, which probes refresh.
-/
namespace TT

inductive Op where
  | ins (a : InsArgs)
  | probe (k : W)
  | gen
  | clear
  | contempt (c : Int)

def runOp (t : Table) : Op → Table
  | .ins a => t.insert a
  | .probe k => (t.probe k).1
  | .gen => t.nextGeneration
  | .clear => t.clear
  | .contempt c => t.setWhiteContempt c

/-- the units written by the inserts of a history (key already xor-ed with the contempt hash) -/
def unitsOf : Table → List Op → List (W × W)
  | _, [] => []
  | t, op :: ops =>
    (match op with
     | .ins a => match t.insertPlan a with
       | some (_, k, d) => [(k, d)]
       | none => []
     | _ => []) ++ unitsOf (runOp t op) ops

def runOps (t : Table) (ops : List Op) : Table := ops.foldl runOp t

/-- data words equal up to the generation field -/
def clearGen (d : W) : W := setGeneration d 0

theorem setBits_setBits_same (d : W) (f s : Nat) (v v' : BitVec 32) (hs : s ≤ 64) :
    setBits (setBits d f s v) f s v' = setBits d f s v' := by
  apply BitVec.eq_of_getLsbD_eq
  intro i hi
  simp only [setBits, mask, BitVec.getLsbD_and, BitVec.getLsbD_or, BitVec.getLsbD_not, BitVec.getLsbD_shiftLeft,
    lowMask_getLsbD _ _ hs]
  by_cases h1 : i < f
  · simp [h1, hi]
  · by_cases h2 : i - f < s
    · simp [h1, h2]
    · simp [h1, h2]

theorem clearGen_setGeneration (d : W) (g : Nat) : clearGen (setGeneration d g) = clearGen d := by
  unfold clearGen setGeneration
  exact setBits_setBits_same d 42 4 _ _ (by omega)

/-- every slot is empty or holds a unit written by an insert, up to the generation field -/
def Inv (t : Table) (U : List (W × W)) : Prop :=
  ∀ i, t.slot i = (0, 0) ∨ ∃ u ∈ U, ∃ d, t.slot i = encode u.1 d ∧ clearGen d = clearGen u.2

theorem Inv.mono {t : Table} {U V : List (W × W)} (h : Inv t U) (hs : ∀ u ∈ U, u ∈ V) : Inv t V := by
  intro i
  rcases h i with h0 | ⟨u, hu, d, h1, h2⟩
  · exact Or.inl h0
  · exact Or.inr ⟨u, hs u hu, d, h1, h2⟩

theorem slot_set (t : Table) (j : Nat) (s : Slot) (i : Nat) :
    ({ t with slots := t.slots.setIfInBounds j s } : Table).slot i = if i = j ∧ j < t.slots.size then s else t.slot i := by
  simp only [Table.slot, Array.getD_eq_getD_getElem?, Array.getElem?_setIfInBounds]
  by_cases h : j = i
  · subst h
    by_cases h2 : j < t.slots.size
    · simp [h2]
    · simp [h2]
  · have : ¬ (i = j ∧ j < t.slots.size) := fun hh => h hh.1.symm
    simp [h, this]

theorem inv_insert (t : Table) (a : InsArgs) (U : List (W × W)) (h : Inv t U) :
    Inv (t.insert a) (U ++ (match t.insertPlan a with | some (_, k, d) => [(k, d)] | none => [])) := by
  unfold Table.insert
  cases hp : t.insertPlan a with
  | none => simpa using h
  | some x =>
    obtain ⟨j, k, d⟩ := x
    intro i
    simp only
    rw [slot_set]
    split
    · exact Or.inr ⟨(k, d), by simp, d, rfl, rfl⟩
    · rcases h i with h0 | ⟨u, hu, d', h1, h2⟩
      · exact Or.inl h0
      · exact Or.inr ⟨u, by simp [hu], d', h1, h2⟩

/-- the loop of `probe`, as a specification: result and table -/
theorem probe_go_spec (t : Table) (key : W) (idx0 : Nat) (U : List (W × W)) (h : Inv t U) (h0 : (0, 0) ∈ U) :
    ∀ fuel i, Inv (Table.probe.go t key idx0 i fuel).1 U ∧
      ∀ k d, (Table.probe.go t key idx0 i fuel).2 = some (k, d) → k = key ∧ ∃ u ∈ U, u.1 = key ∧ clearGen d = clearGen u.2 := by
  intro fuel
  induction fuel with
  | zero => intro i; simp [Table.probe.go]; exact h
  | succ n ih =>
    intro i
    unfold Table.probe.go
    simp only
    -- what the slot holds
    have hslot : ∃ u ∈ U, ∃ d, t.slot (idx0 + i) = encode u.1 d ∧ clearGen d = clearGen u.2 := by
      rcases h (idx0 + i) with hz | hh
      · exact ⟨(0, 0), h0, 0, by simp [hz, encode], rfl⟩
      · exact hh
    obtain ⟨u, hu, d0, hs, hc⟩ := hslot
    have hload : loadSlot (t.slot (idx0 + i)) = (u.1, d0) := by
      rw [hs]; simp [loadSlot, encode, BitVec.xor_assoc]
    rw [hload]
    simp only
    split
    · next hk =>
      have hk' : u.1 = key := by simpa using hk
      split
      · refine ⟨?_, ?_⟩
        · intro j
          simp only
          rw [slot_set]
          split
          · exact Or.inr ⟨u, hu, setGeneration d0 t.gen, by rw [hk'], by rw [clearGen_setGeneration]; exact hc⟩
          · exact h j
        · intro k d hkd
          simp only [Option.some.injEq, Prod.mk.injEq] at hkd
          obtain ⟨rfl, rfl⟩ := hkd
          exact ⟨rfl, u, hu, hk', by rw [clearGen_setGeneration]; exact hc⟩
      · refine ⟨h, ?_⟩
        intro k d hkd
        simp only [Option.some.injEq, Prod.mk.injEq] at hkd
        obtain ⟨rfl, rfl⟩ := hkd
        exact ⟨rfl, u, hu, hk', hc⟩
    · exact ih (i + 1)

theorem inv_clear (t : Table) (U : List (W × W)) : Inv t.clear U := by
  intro i
  left
  simp only [Table.clear, Table.slot, Array.getD_eq_getD_getElem?]
  by_cases hi : i < t.size <;> simp [hi]

theorem inv_runOp (t : Table) (op : Op) (U : List (W × W)) (h : Inv t U) (h0 : (0, 0) ∈ U) :
    Inv (runOp t op) (U ++ unitsOf t [op]) := by
  cases op with
  | ins a => simpa [runOp, unitsOf] using inv_insert t a U h
  | probe k =>
    simp only [runOp, unitsOf, List.append_nil]
    exact (probe_go_spec t (k ^^^ t.contempt) (t.index (k ^^^ t.contempt)) U h h0 4 0).1
  | gen => simpa [runOp, unitsOf, Table.nextGeneration, Inv, Table.slot] using h
  | clear => simpa [runOp, unitsOf] using inv_clear t U
  | contempt c => simpa [runOp, unitsOf, Table.setWhiteContempt, Inv, Table.slot] using h

theorem unitsOf_append (t : Table) (a b : List Op) : unitsOf t (a ++ b) = unitsOf t a ++ unitsOf (runOps t a) b := by
  induction a generalizing t with
  | nil => simp [unitsOf, runOps]
  | cons x xs ih => simp [unitsOf, runOps, ih, List.append_assoc]

theorem inv_runOps (t : Table) (ops : List Op) (U : List (W × W)) (h : Inv t U) (h0 : (0, 0) ∈ U) :
    Inv (runOps t ops) (U ++ unitsOf t ops) := by
  induction ops generalizing t U with
  | nil => simpa [runOps, unitsOf] using h
  | cons op ops ih =>
    have h1 := inv_runOp t op U h h0
    have := ih (runOp t op) (U ++ unitsOf t [op]) h1 (List.mem_append_left _ h0)
    simpa [runOps, unitsOf, List.append_assoc] using this

theorem inv_new (n : Nat) : Inv (Table.new n) [(0, 0)] := by
  intro i
  left
  simp only [Table.new, Table.slot, Array.getD_eq_getD_getElem?]
  by_cases hi : i < normSize n <;> simp [hi]

end TT
