/-! TTEntry::setBits / getBits (transpositionTable.hpp:424-434) on `BitVec 64`, symbolic in first/size. -/
namespace TT
def fieldMask (size : Nat) : BitVec 64 := BitVec.ofNat 64 (2^size - 1)
def mask (first size : Nat) : BitVec 64 := fieldMask size <<< first
def setBits (d : BitVec 64) (first size : Nat) (v : BitVec 32) : BitVec 64 :=
  (d &&& ~~~(mask first size)) ||| ((v.setWidth 64 <<< first) &&& mask first size)
def getBits (d : BitVec 64) (first size : Nat) : BitVec 32 :=
  ((d >>> first) &&& fieldMask size).setWidth 32

theorem lowMask_getLsbD (size i : Nat) (hs : size ≤ 64) : (fieldMask size).getLsbD i = decide (i < size) := by
  unfold fieldMask
  rw [BitVec.getLsbD_ofNat, Nat.testBit_two_pow_sub_one]
  by_cases h : i < size
  · have : i < 64 := by omega
    simp [h, this]
  · simp [h]

theorem getBits_setBits_same (d : BitVec 64) (f s : Nat) (v : BitVec 32) (hs : s ≤ 32) (hf : f + s ≤ 64) :
    getBits (setBits d f s v) f s = v &&& BitVec.ofNat 32 (2^s - 1) := by
  apply BitVec.eq_of_getLsbD_eq
  intro i hi
  simp only [getBits, setBits, mask, BitVec.getLsbD_setWidth, BitVec.getLsbD_and, BitVec.getLsbD_or,
    BitVec.getLsbD_ushiftRight, BitVec.getLsbD_shiftLeft, BitVec.getLsbD_not, lowMask_getLsbD _ _ (by omega : s ≤ 64),
    BitVec.getLsbD_ofNat, Nat.testBit_two_pow_sub_one]
  by_cases h : i < s
  · have h1 : f + i < 64 := by omega
    have h2 : ¬ (f + i < f) := by omega
    have h3 : i < 64 := by omega
    simp [h, hi, h1, h2, h3]
  · simp [h]

theorem getBits_setBits_other (d : BitVec 64) (f s f' s' : Nat) (v : BitVec 32) (hs : s ≤ 64) (hs' : s' ≤ 64)
    (hd : f + s ≤ f' ∨ f' + s' ≤ f) :
    getBits (setBits d f s v) f' s' = getBits d f' s' := by
  apply BitVec.eq_of_getLsbD_eq
  intro i hi
  simp only [getBits, setBits, mask, BitVec.getLsbD_setWidth, BitVec.getLsbD_and, BitVec.getLsbD_or,
    BitVec.getLsbD_ushiftRight, BitVec.getLsbD_shiftLeft, BitVec.getLsbD_not, lowMask_getLsbD _ _ hs, lowMask_getLsbD _ _ hs']
  by_cases h : i < s'
  · by_cases h2 : f' + i < f
    · simp [h, h2, hi]
      intro hh; exact BitVec.lt_of_getLsbD hh
    · have : ¬ (f' + i - f < s) := by omega
      simp [h, h2, hi, this]
      intro hh; exact BitVec.lt_of_getLsbD hh
  · simp [h]
end TT
