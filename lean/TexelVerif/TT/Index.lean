/-! Prototype: TranspositionTable::setUsedSize / getIndex (transpositionTable.cpp:72-83, .hpp:432-440) -/
namespace TT

def topBitsLoop : Nat → Nat → Nat → Nat × Nat
  | 0, t, s => (t, s)
  | fuel+1, t, s => if t ≥ 256 then topBitsLoop fuel (t / 2) (s + 1) else (t, s)

structure Used where
  top : Nat      -- usedSizeTopBits
  shift : Nat    -- usedSizeShift
  mask : Nat     -- usedSizeMask

def lowMask (s : Nat) : Nat := (2^s - 1) &&& (2^64 - 1 - 3)

def setUsedSize (n : Nat) : Used :=
  let r := topBitsLoop 64 n 0
  { top := r.1, shift := r.2, mask := lowMask r.2 }

/-- getIndex on naturals; `key < 2^64` -/
def getIndex (u : Used) (key : Nat) : Nat :=
  ((((key >>> 48) * u.top) >>> 16) <<< u.shift) ||| (key &&& u.mask)

theorem loop_spec (fuel t s : Nat) (hf : t < 2^(fuel+8)) :
    let r := topBitsLoop fuel t s
    r.1 < 256 ∧ s ≤ r.2 ∧ r.1 * 2^(r.2 - s) ≤ t ∧ t < (r.1 + 1) * 2^(r.2 - s) ∧ (256 ≤ t → 128 ≤ r.1) ∧ (t < 256 → r = (t, s)) := by
  induction fuel generalizing t s with
  | zero =>
    simp [topBitsLoop] at *
    omega
  | succ n ih =>
    unfold topBitsLoop
    split
    · next hge =>
      have hlt : t / 2 < 2^(n+8) := by
        have : 2^(n+1+8) = 2 * 2^(n+8) := by rw [show n+1+8 = (n+8)+1 by omega, Nat.pow_succ]; omega
        omega
      obtain ⟨h1, h2, h3, h4, h5, h6⟩ := ih (t/2) (s+1) hlt
      have e : (topBitsLoop n (t/2) (s+1)).2 - s = ((topBitsLoop n (t/2) (s+1)).2 - (s+1)) + 1 := by omega
      refine ⟨h1, by omega, ?_, ?_, ?_, by omega⟩
      · rw [e, Nat.pow_succ, ← Nat.mul_assoc]
        calc _ ≤ t / 2 * 2 := Nat.mul_le_mul_right 2 h3
          _ ≤ t := Nat.div_mul_le_self t 2
      · rw [e, Nat.pow_succ, ← Nat.mul_assoc]
        have : t < (t/2 + 1) * 2 := by omega
        calc t < (t/2 + 1) * 2 := this
          _ ≤ ((topBitsLoop n (t/2) (s+1)).1 + 1) * 2 ^ ((topBitsLoop n (t/2) (s+1)).2 - (s+1)) * 2 := Nat.mul_le_mul_right 2 (by omega)
      · intro _
        by_cases h256 : 256 ≤ t / 2
        · exact h5 h256
        · have := h6 (by omega); rw [this]; simp; omega
    · simp; omega

end TT

namespace TT

theorem lowMask_mod4 (s : Nat) : lowMask s % 4 = 0 := by
  unfold lowMask
  have h := Nat.and_mod_two_pow (a := 2^s - 1) (b := 2^64 - 1 - 3) (n := 2)
  have e : (2^64 - 1 - 3) % 2^2 = 0 := by decide
  rw [e] at h
  simpa using h

theorem and_lowMask (key s : Nat) (hs : 2 ≤ s) :
    (key &&& lowMask s) % 4 = 0 ∧ (key &&& lowMask s) + 4 ≤ 2^s := by
  have hm := lowMask_mod4 s
  have h1 : (key &&& lowMask s) % 4 = 0 := by
    have h := Nat.and_mod_two_pow (a := key) (b := lowMask s) (n := 2)
    have : lowMask s % 2^2 = 0 := by simpa using hm
    rw [this] at h; simpa using h
  have h2 : key &&& lowMask s ≤ 2^s - 1 := by
    calc key &&& lowMask s ≤ lowMask s := Nat.and_le_right
      _ ≤ 2^s - 1 := Nat.and_le_left
  have h3 : 2^s % 4 = 0 := by
    obtain ⟨k, rfl⟩ : ∃ k, s = k + 2 := ⟨s - 2, by omega⟩
    rw [Nat.pow_add]; omega
  have h4 : 0 < 2^s := Nat.two_pow_pos s
  exact ⟨h1, by omega⟩

/-- The index theorem: for every table size n ≥ 512 (multiple of 4) and every 64-bit key the bucket
    [idx, idx+3] is 4-aligned and inside the table. -/
theorem index_ok (n key : Nat) (hn : 512 ≤ n) (hmax : n < 2^72) (hk : key < 2^64) :
    let u := setUsedSize n
    getIndex u key % 4 = 0 ∧ getIndex u key + 3 < n := by
  have ls := loop_spec 64 n 0 (by simpa using hmax)
  simp only [Nat.sub_zero] at ls
  obtain ⟨h1, _, h3, h4, h5, _⟩ := ls
  have htop := h5 (by omega)
  -- name the loop result
  generalize hr : topBitsLoop 64 n 0 = r at h1 h3 h4 htop
  obtain ⟨top, shift⟩ := r
  simp only at h1 h3 h4 htop
  have hshift : 2 ≤ shift := by
    rcases shift with _ | _ | s
    · simp at h4; omega
    · simp at h4; omega
    · omega
  have hu : setUsedSize n = { top := top, shift := shift, mask := lowMask shift } := by
    simp [setUsedSize, hr]
  simp only [hu, getIndex]
  obtain ⟨m1, m2⟩ := and_lowMask key shift hshift
  have hlt : key &&& lowMask shift < 2^shift := by omega
  rw [← Nat.shiftLeft_add_eq_or_of_lt hlt, Nat.shiftLeft_eq]
  -- r1 < top
  have hk16 : key >>> 48 < 2^16 := by
    rw [Nat.shiftRight_eq_div_pow]
    have : key < 2^16 * 2^48 := by rw [← Nat.pow_add]; exact hk
    exact Nat.div_lt_of_lt_mul (by rw [Nat.mul_comm]; exact this)
  have hr1 : ((key >>> 48) * top) >>> 16 < top := by
    rw [Nat.shiftRight_eq_div_pow]
    apply Nat.div_lt_of_lt_mul
    calc (key >>> 48) * top < 2^16 * top := Nat.mul_lt_mul_of_pos_right hk16 (by omega)
      _ = 2^16 * top := rfl
  have h2s : 2^shift % 4 = 0 := by
    obtain ⟨k, rfl⟩ : ∃ k, shift = k + 2 := ⟨shift - 2, by omega⟩
    rw [Nat.pow_add]; omega
  constructor
  · -- alignment
    have : (((key >>> 48) * top) >>> 16) * 2^shift % 4 = 0 := by
      obtain ⟨k, rfl⟩ : ∃ k, shift = k + 2 := ⟨shift - 2, by omega⟩
      rw [Nat.pow_add, ← Nat.mul_assoc]; omega
    omega
  · -- range
    have hb : (((key >>> 48) * top) >>> 16 + 1) * 2^shift ≤ top * 2^shift :=
      Nat.mul_le_mul_right _ hr1
    have e : (((key >>> 48) * top) >>> 16 + 1) * 2^shift = (((key >>> 48) * top) >>> 16) * 2^shift + 2^shift := by
      rw [Nat.add_mul, Nat.one_mul]
    omega

end TT
