import TexelVerif.PG.Deadlock
/-!
# When no man can be lost any more, every legal line is capture-free

`computeDeadlockedPieces` returns at once when the position has more men than the goal ("captures can break a
deadlock").  Otherwise the position and the goal have the same number of men, and since a move never adds a man and a
capture removes one, **no** legal line from the position to the goal contains a capture.  This file proves that, so the
soundness theorem of `PG/Deadlock.lean` can be stated for all legal lines between positions with equally many men
instead of for lines assumed capture-free.
-/
namespace PG
open Chess Chess.Texel

/-- behind an en-passant square stands a pawn of the side that is not to move -/
def EpPawn (p : Pos) : Prop :=
  ∀ e : Sq, p.ep = some e → p.b.getD (if p.wtm then e.val - 8 else e.val + 8) 0 = (if p.wtm then BPAWN else WPAWN)

theorem pawn_code_fin : ∀ (w : Bool) (n : Fin 256), own w (UInt8.ofNat n.val) = true → kind (UInt8.ofNat n.val) = 6 →
    UInt8.ofNat n.val = (if w then WPAWN else BPAWN) := by decide +kernel

theorem pawn_code (w : Bool) (x : Pc) (ho : own w x = true) (hk : kind x = 6) : x = (if w then WPAWN else BPAWN) := by
  have := pawn_code_fin w ⟨x.toNat, x.toNat_lt⟩
  simp only [UInt8.ofNat_toNat] at this
  exact this ho hk

theorem enemy_code_fin : ∀ (w : Bool) (n : Fin 256), UInt8.ofNat n.val ≤ 12 → UInt8.ofNat n.val ≠ 0 →
    own w (UInt8.ofNat n.val) = false → own (!w) (UInt8.ofNat n.val) = true := by decide +kernel

theorem enemy_code (w : Bool) (x : Pc) (hv : x ≤ 12) (h0 : x ≠ 0) (ho : own w x = false) : own (!w) x = true := by
  have := enemy_code_fin w ⟨x.toNat, x.toNat_lt⟩
  simp only [UInt8.ofNat_toNat] at this
  exact this hv h0 ho

/-- a double push is made from the start rank, so it does not promote -/
theorem double_push_promo (p : Pos) (m : Mv) (h : pseudo p m = true) (hk : kind (p.at m.f) = 6)
    (hd : m.t.val = m.f.val + 16 ∨ m.f.val = m.t.val + 16) : m.promo = 0 := by
  have hpp := (pseudo_pawn p m h hk).1
  unfold pseudo at h
  simp only [Bool.and_eq_true] at h
  obtain ⟨_, h2⟩ := h
  simp only [hk] at h2
  simp only [Bool.and_eq_true, Bool.or_eq_true, beq_iff_eq] at h2
  obtain ⟨_, h3⟩ := h2
  have hf := m.f.isLt
  have ht := m.t.isLt
  have hy : ¬ (m.t.y = (if p.wtm then 7 else 0)) := by
    unfold dxy at h3
    simp only [Sq.x, Sq.y] at h3 ⊢
    rcases h3 with (⟨⟨h4, h5⟩, _⟩ | ⟨⟨⟨⟨h4, h5⟩, h6⟩, _⟩, _⟩) | ⟨⟨h4, h5⟩, _⟩
    · cases hw : p.wtm <;> simp only [hw, if_true, if_false, Bool.false_eq_true] at h5 ⊢ <;> omega
    · cases hw : p.wtm <;> simp only [hw, if_true, if_false, Bool.false_eq_true] at h5 h6 ⊢ <;> omega
    · cases hw : p.wtm <;> simp only [hw, if_true, if_false, Bool.false_eq_true] at h5 ⊢ <;> omega
  unfold promoOk at hpp
  have : (m.t.y == if p.wtm then 7 else 0) = false := by simpa using hy
  rw [this] at hpp
  simpa using hpp

theorem apply_epPawn (p : Pos) (m : Mv) (h : pseudo p m = true) : EpPawn (apply p m) := by
  intro e he
  obtain ⟨hk, hd, hev⟩ := apply_ep_some p m e he
  have hp := (pseudo_pawn p m h hk).2
  have hf := m.f.isLt
  have ht := m.t.isLt
  unfold dxy at hp
  simp only [Sq.y] at hp
  have hb : (apply p m).b = stage1 p m := by
    rw [apply_b]
    have c1 : (kind (p.at m.f) == 1 && m.t.val == m.f.val + 2) = false := by rw [hk]; rfl
    have c2 : (kind (p.at m.f) == 1 && m.t.val + 2 == m.f.val) = false := by rw [hk]; rfl
    rw [c1, c2]; rfl
  have key : (if (apply p m).wtm then e.val - 8 else e.val + 8) = m.t.val := by
    rw [apply_wtm]
    cases hw : p.wtm <;> simp only [hw, if_true, if_false, Bool.false_eq_true, Bool.not_true, Bool.not_false] at hp ⊢ <;> omega
  rw [key, hb, getD_eq _ _ ht, stage1_get_t, apply_wtm]
  unfold newPc
  rw [double_push_promo p m h hk hd]
  simp only [bne_self_eq_false, Bool.false_eq_true, if_false]
  rw [pawn_code p.wtm _ (pseudo_basic p m h).1 hk]
  cases p.wtm <;> rfl

theorem fixupEP_epPawn (p : Pos) (h : EpPawn p) : EpPawn (fixupEP p) := by
  unfold fixupEP
  split
  · exact h
  · split
    · exact h
    · intro e he; cases he

theorem EpPawn.epOK {p : Pos} (h : EpPawn p) : EpOK p := by
  intro e he
  rw [h e he]
  cases p.wtm <;> decide

/-- the captured man of a capturing move belongs to the opponent -/
theorem captured_enemy (p : Pos) (m : Mv) (hv : ValidB p.b) (h : pseudo p m = true) (hep : EpPawn p)
    (hc : isCaptureMv p m = true) : own (!p.wtm) (capturedPc p m) = true := by
  unfold capturedPc
  cases he : isEpMv p m
  · simp only [Bool.false_eq_true, if_false]
    have hne : p.at m.t ≠ 0 := by
      intro h0
      unfold isCaptureMv at hc
      unfold isEpMv at he
      rw [h0] at hc he
      simp only [bne_self_eq_false, Bool.false_or, Bool.not_false, Bool.and_true] at hc he
      rw [hc] at he; cases he
    exact enemy_code _ _ (hv m.t) hne (pseudo_basic p m h).2.1
  · simp only [if_true]
    unfold isEpMv at he
    simp only [Bool.and_eq_true, beq_iff_eq] at he
    unfold epVictimSq
    rw [hep m.t he.1.1.2]
    cases p.wtm <;> decide

def total (b : Board) : Nat := men true b + men false b

theorem total_step (p : Pos) (m : Mv) (hv : ValidB p.b) (h : pseudo p m = true) (hep : EpPawn p) :
    total (apply p m).b + (if isCaptureMv p m then 1 else 0) = total p.b := by
  obtain ⟨m1, m2⟩ := apply_men p m h hep.epOK
  unfold total
  cases hc : isCaptureMv p m
  · have : own (!p.wtm) (capturedPc p m) = false := by
      unfold capturedPc
      have hne := noncapture_facts p m hc
      have he : isEpMv p m = false := by
        cases he : isEpMv p m with
        | false => rfl
        | true =>
          exfalso
          unfold isEpMv at he
          simp only [Bool.and_eq_true, beq_iff_eq, bne_iff_ne, ne_eq] at he
          exact hne.2 ⟨he.1.1.1, he.1.1.2, he.2⟩
      rw [he]
      simp only [Bool.false_eq_true, if_false]
      show own (!p.wtm) p.b[m.t] = false
      rw [hne.1]; cases p.wtm <;> decide
    rw [this] at m2
    cases hw : p.wtm <;> rw [hw] at m1 m2 <;> simp only [Bool.not_true, Bool.not_false, Bool.false_eq_true, if_false] at m1 m2 ⊢ <;> omega
  · rw [captured_enemy p m hv h hep hc] at m2
    cases hw : p.wtm <;> rw [hw] at m1 m2 <;> simp only [Bool.not_true, Bool.not_false, if_true] at m1 m2 ⊢ <;> omega

theorem playable_total_le (p g : Pos) (ms : List Mv) (h : Playable p ms g) (hv : ValidB p.b) (hep : EpPawn p) :
    total g.b ≤ total p.b := by
  induction h with
  | nil p => exact Nat.le_refl _
  | cons p m ms q hl _ ih =>
    have hps := legalB_pseudo p m hl
    have := ih (by rw [fixupEP_b]; exact validB_apply p hv m hps) (fixupEP_epPawn _ (apply_epPawn p m hps))
    rw [fixupEP_b] at this
    have := total_step p m hv hps hep
    omega

/-- a line of legal moves during which the `B` squares keep their contents (no assumption about captures) -/
inductive BlockedLine (B : Sq → Bool) : Pos → List Mv → Pos → Prop
  | nil (p) : BlockedLine B p [] p
  | cons (p m ms q) : legalB p m = true → (∃ k, KingAt p.b p.wtm k) →
      (∀ s, B s = true → (apply p m).b[s] = p.b[s]) → BlockedLine B (fixupEP (apply p m)) ms q → BlockedLine B p (m :: ms) q

theorem BlockedLine.playable {B : Sq → Bool} {p q : Pos} {ms : List Mv} (h : BlockedLine B p ms q) : Playable p ms q := by
  induction h with
  | nil p => exact .nil p
  | cons p m ms q hl _ _ _ ih => exact .cons p m ms q hl ih

/-- **with equally many men at both ends no move of the line is a capture** -/
theorem quiet_of_equal_men (B : Sq → Bool) (p g : Pos) (ms : List Mv) (h : BlockedLine B p ms g) (hv : ValidB p.b)
    (hep : EpPawn p) (hmen : total p.b ≤ total g.b) : QuietLine B p ms g := by
  induction h with
  | nil p => exact .nil p
  | cons p m ms q hl hk hB hrest ih =>
    have hps := legalB_pseudo p m hl
    have hv' : ValidB (fixupEP (apply p m)).b := by rw [fixupEP_b]; exact validB_apply p hv m hps
    have hep' := fixupEP_epPawn _ (apply_epPawn p m hps)
    have hle := playable_total_le _ _ _ hrest.playable hv' hep'
    rw [fixupEP_b] at hle
    have hst := total_step p m hv hps hep
    have hq : isCaptureMv p m = false := by
      cases hc : isCaptureMv p m with
      | false => rfl
      | true => rw [hc] at hst; simp only [if_true] at hst; omega
    rw [hq] at hst
    simp only [Bool.false_eq_true, if_false, Nat.add_zero] at hst
    exact .cons p m ms q hl hq hk hB (ih hv' hep' (by rw [fixupEP_b]; omega))

/-- the two well-formedness facts used above hold in every position of every legal game -/
theorem playable_wf (p q : Pos) (ms : List Mv) (h : Playable p ms q) (hv : ValidB p.b) (hep : EpPawn p) :
    ValidB q.b ∧ EpPawn q := by
  induction h with
  | nil p => exact ⟨hv, hep⟩
  | cons p m ms q hl _ ih =>
    have hps := legalB_pseudo p m hl
    exact ih (by rw [fixupEP_b]; exact validB_apply p hv m hps) (fixupEP_epPawn _ (apply_epPawn p m hps))

theorem startPos_wf : ValidB startPos.b ∧ EpPawn startPos := by
  refine ⟨by unfold ValidB; decide +kernel, ?_⟩
  intro e he
  have : startPos.ep = none := rfl
  rw [this] at he; cases he

/-! ## castling rights (the test `cMask & ~pos.getCastleMask()` of `computeBlocked`) -/

theorem and_bit_mono (x k1 k2 bit : UInt8) (h : x &&& bit = 0) : (x &&& k1 &&& k2) &&& bit = 0 := by
  have : (x &&& k1 &&& k2) &&& bit = (x &&& bit) &&& (k1 &&& k2) := by
    rw [UInt8.and_assoc, UInt8.and_assoc, UInt8.and_assoc]
    congr 1
    rw [← UInt8.and_assoc, UInt8.and_comm]
  rw [this, h, UInt8.zero_and]

/-- castling rights are never regained -/
theorem castle_monotone (p g : Pos) (ms : List Mv) (h : Playable p ms g) (bit : UInt8) (hb : p.castle &&& bit = 0) :
    g.castle &&& bit = 0 := by
  induction h with
  | nil p => exact hb
  | cons p m ms q _ _ ih =>
    apply ih
    have : (fixupEP (apply p m)).castle = p.castle &&& castleKeep m.f &&& castleKeep m.t := by
      unfold fixupEP
      split
      · rfl
      · split <;> rfl
    rw [this]
    exact and_bit_mono _ _ _ _ hb

theorem and_kill1 (x k1 k2 bit : UInt8) (h : k1 &&& bit = 0) : (x &&& k1 &&& k2) &&& bit = 0 := by
  have : (x &&& k1 &&& k2) &&& bit = (k1 &&& bit) &&& (x &&& k2) := by
    rw [UInt8.and_comm x k1, UInt8.and_assoc, UInt8.and_assoc, UInt8.and_assoc]
    congr 1
    rw [← UInt8.and_assoc, UInt8.and_comm]
  rw [this, h, UInt8.zero_and]

theorem and_kill2 (x k1 k2 bit : UInt8) (h : k2 &&& bit = 0) : (x &&& k1 &&& k2) &&& bit = 0 := by
  rw [UInt8.and_assoc (x &&& k1), h, UInt8.and_zero]

theorem fixupEP_castle (p : Pos) : (fixupEP p).castle = p.castle := by
  unfold fixupEP
  split
  · rfl
  · split <;> rfl

/-- while a castling right survives to the end of a line, no move of the line starts from or ends on a square that
    cancels it (the king's and the rook's home squares) -/
theorem castle_squares_untouched (p g : Pos) (ms : List Mv) (h : Playable p ms g) (bit : UInt8) (s : Sq)
    (hs : castleKeep s &&& bit = 0) (hg : g.castle &&& bit ≠ 0) : ∀ m ∈ ms, m.f ≠ s ∧ m.t ≠ s := by
  induction h with
  | nil p => intro m hm; cases hm
  | cons p m ms q _ hrest ih =>
    intro m' hm'
    rcases List.mem_cons.1 hm' with rfl | hm'
    · have hc : (fixupEP (apply p m')).castle = p.castle &&& castleKeep m'.f &&& castleKeep m'.t := by rw [fixupEP_castle]; rfl
      constructor
      · intro e
        apply hg
        apply castle_monotone _ _ _ hrest bit
        rw [hc]; exact and_kill1 _ _ _ _ (by rw [e]; exact hs)
      · intro e
        apply hg
        apply castle_monotone _ _ _ hrest bit
        rw [hc]; exact and_kill2 _ _ _ _ (by rw [e]; exact hs)
    · exact ih hg m' hm'

end PG
