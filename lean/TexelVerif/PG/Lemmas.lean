import TexelVerif.PG.Model
/-!
# Lemmas for C16: the count transition of `Chess.apply` and what follows from it

`apply_counts` is the one place where the board manipulation of `Chess.apply` (five `setSq`s: en-passant victim,
from-square, to-square, castling rook from/to) is analysed; everything else is arithmetic on the counts.
-/
namespace PG
open Chess

theorem setIfInBounds_eq_set {α} {k} (xs : Vector α k) (n : Nat) (h : n < k) (v : α) :
    xs.setIfInBounds n v = xs.set n v h := by
  apply Vector.ext
  intro i hi
  simp [Vector.getElem_setIfInBounds, Vector.getElem_set]

/-- indicator -/
def ind (x a : Pc) : Nat := if x = a then 1 else 0
theorem ind_zero (a : Pc) (h : a ≠ 0) : ind 0 a = 0 := by unfold ind; rw [if_neg (Ne.symm h)]

theorem cnt_setSq (b : Board) (n : Nat) (h : n < 64) (v a : Pc) :
    cnt (setSq b n v) a + ind b[n] a = cnt b a + ind v a := by
  unfold cnt setSq ind
  rw [setIfInBounds_eq_set _ _ h, Vector.count_set h]
  have := Vector.boole_getElem_le_count (a := a) (xs := b) h
  simp only [beq_iff_eq] at this ⊢
  omega

theorem pseudo_basic (p : Pos) (m : Mv) (h : pseudo p m = true) :
    own p.wtm (p.at m.f) = true ∧ own p.wtm (p.at m.t) = false ∧ m.f ≠ m.t := by
  unfold pseudo at h
  simp only [Bool.and_eq_true, Bool.not_eq_true', bne_iff_ne, ne_eq] at h
  exact ⟨h.1.1.1, h.1.1.2, h.1.2⟩

theorem pseudo_promo0 (p : Pos) (m : Mv) (h : pseudo p m = true) (hk : kind (p.at m.f) ≠ 6) : m.promo = 0 := by
  unfold pseudo at h
  simp only [Bool.and_eq_true] at h
  obtain ⟨_, hk2⟩ := h
  split at hk2
  · next h6 => exact absurd h6 hk
  · simp only [Bool.and_eq_true, beq_iff_eq] at hk2; exact hk2.1
  · simp only [Bool.and_eq_true, beq_iff_eq] at hk2; exact hk2.1

theorem pseudo_pawn (p : Pos) (m : Mv) (h : pseudo p m = true) (hk : kind (p.at m.f) = 6) :
    promoOk p.wtm m = true ∧
    ((dxy m.f m.t).2 = (if p.wtm then 1 else -1) ∨ (dxy m.f m.t).2 = 2 * (if p.wtm then 1 else -1)) := by
  unfold pseudo at h
  simp only [Bool.and_eq_true] at h
  obtain ⟨_, hk2⟩ := h
  split at hk2
  · simp only [Bool.and_eq_true, Bool.or_eq_true, beq_iff_eq] at hk2
    refine ⟨hk2.1, ?_⟩
    rcases hk2.2 with (h1 | h1) | h1
    · exact Or.inl h1.1.2
    · exact Or.inr h1.1.1.1.2
    · exact Or.inl h1.1.2
  · next h1 => rw [hk] at h1; exact absurd h1 (by decide)
  · next h6 _ => exact absurd hk h6

theorem pseudo_king (p : Pos) (m : Mv) (h : pseudo p m = true) (hk : kind (p.at m.f) = 1) :
    m.promo = 0 ∧
    ( ((dxy m.f m.t).1.natAbs ≤ 1 ∧ (dxy m.f m.t).2.natAbs ≤ 1) ∨
      ((dxy m.f m.t).2 = 0 ∧ (dxy m.f m.t).1 = 2 ∧ m.f.val = (if p.wtm then 4 else 60) ∧ castleOk p true = true) ∨
      ((dxy m.f m.t).2 = 0 ∧ (dxy m.f m.t).1 = -2 ∧ m.f.val = (if p.wtm then 4 else 60) ∧ castleOk p false = true)) := by
  unfold pseudo at h
  simp only [Bool.and_eq_true] at h
  obtain ⟨_, hk2⟩ := h
  split at hk2
  · next h6 => rw [hk] at h6; exact absurd h6 (by decide)
  · simp only [Bool.and_eq_true, Bool.or_eq_true, beq_iff_eq, decide_eq_true_eq] at hk2
    refine ⟨hk2.1, ?_⟩
    rcases hk2.2 with (h1 | h1) | h1
    · exact Or.inl h1
    · exact Or.inr (Or.inl ⟨h1.1.1.1, h1.1.1.2, h1.1.2, h1.2⟩)
    · exact Or.inr (Or.inr ⟨h1.1.1.1, h1.1.1.2, h1.1.2, h1.2⟩)
  · next _ h1 => exact absurd hk h1
def isEpMv (p : Pos) (m : Mv) : Bool :=
  kind (p.at m.f) == 6 && p.ep == some m.t && !(p.at m.t != 0) && m.f.x != m.t.x
def epVictimSq (p : Pos) (m : Mv) : Nat := if p.wtm then m.t.val - 8 else m.t.val + 8
def newPc (p : Pos) (m : Mv) : Pc := if m.promo != 0 then m.promo else p.at m.f
def rookOf (w : Bool) : Pc := if w then WROOK else BROOK
def stage1 (p : Pos) (m : Mv) : Board :=
  setSq (setSq (if isEpMv p m then setSq p.b (epVictimSq p m) 0 else p.b) m.f.val 0) m.t.val (newPc p m)

theorem apply_b (p : Pos) (m : Mv) : (apply p m).b =
    (if kind (p.at m.f) == 1 && m.t.val == m.f.val + 2 then setSq (setSq (stage1 p m) (m.f.val + 3) 0) (m.f.val + 1) (rookOf p.wtm)
     else if kind (p.at m.f) == 1 && m.t.val + 2 == m.f.val then setSq (setSq (stage1 p m) (m.f.val - 4) 0) (m.f.val - 1) (rookOf p.wtm)
     else stage1 p m) := rfl

theorem castleOk_short (p : Pos) (h : castleOk p true = true) :
    let home := if p.wtm then 4 else 60
    p.b.getD home 0 = (if p.wtm then WKING else BKING) ∧ p.b.getD (home+1) 0 = 0 ∧ p.b.getD (home+2) 0 = 0 ∧ p.b.getD (home+3) 0 = rookOf p.wtm := by
  unfold castleOk at h
  simp only [Bool.and_eq_true, beq_iff_eq, if_true] at h
  exact ⟨h.1.1.2, h.2.1.1.1, h.2.1.1.2, h.2.1.2⟩

theorem castleOk_long (p : Pos) (h : castleOk p false = true) :
    let home := if p.wtm then 4 else 60
    p.b.getD home 0 = (if p.wtm then WKING else BKING) ∧ p.b.getD (home-1) 0 = 0 ∧ p.b.getD (home-2) 0 = 0 ∧ p.b.getD (home-3) 0 = 0 ∧ p.b.getD (home-4) 0 = rookOf p.wtm := by
  unfold castleOk at h
  simp only [Bool.and_eq_true, beq_iff_eq, if_false, Bool.false_eq_true] at h
  exact ⟨h.1.1.2, h.2.1.1.1.1, h.2.1.1.1.2, h.2.1.1.2, h.2.1.2⟩


theorem setSq_get_ne (b : Board) (n j : Nat) (hj : j < 64) (v : Pc) (h : n ≠ j) : (setSq b n v)[j] = b[j] := by
  unfold setSq; rw [Vector.getElem_setIfInBounds hj, if_neg h]

theorem getD_eq (b : Board) (n : Nat) (h : n < 64) : b.getD n 0 = b[n] := by
  simp [Vector.getD, h]

def capturedPc (p : Pos) (m : Mv) : Pc := if isEpMv p m then p.b.getD (epVictimSq p m) 0 else p.at m.t

theorem ep_sq_facts (p : Pos) (m : Mv) (h : pseudo p m = true) (he : isEpMv p m = true) :
    epVictimSq p m ≠ m.f.val ∧ epVictimSq p m ≠ m.t.val ∧ p.at m.t = 0 := by
  unfold isEpMv at he
  simp only [Bool.and_eq_true, beq_iff_eq, bne_iff_ne, ne_eq, Bool.not_eq_eq_eq_not, Bool.not_true, bne_eq_false_iff_eq] at he
  obtain ⟨⟨⟨hk, _⟩, htg⟩, hx⟩ := he
  have hp := (pseudo_pawn p m h hk).2
  unfold epVictimSq
  unfold dxy at hp
  simp only [Sq.x, Sq.y] at hp hx
  have hf := m.f.isLt
  have ht := m.t.isLt
  refine ⟨?_, ?_, htg⟩
  · cases hw : p.wtm <;> simp only [hw, if_true, if_false, Bool.false_eq_true] at hp ⊢ <;> omega
  · cases hw : p.wtm <;> simp only [hw, if_true, if_false, Bool.false_eq_true] at hp ⊢ <;> omega


theorem stage1_counts (p : Pos) (m : Mv) (h : pseudo p m = true) (a : Pc) (ha : a ≠ 0) :
    cnt (stage1 p m) a + ind (capturedPc p m) a + ind (p.at m.f) a = cnt p.b a + ind (newPc p m) a := by
  obtain ⟨_, _, hft⟩ := pseudo_basic p m h
  have hftv : m.f.val ≠ m.t.val := fun e => hft (Fin.ext e)
  have hf := m.f.isLt
  have ht := m.t.isLt
  have z := ind_zero a ha
  unfold stage1 capturedPc
  cases he : isEpMv p m
  · simp only [Bool.false_eq_true, if_false]
    have e1 := cnt_setSq p.b m.f.val hf 0 a
    have e2 := cnt_setSq (setSq p.b m.f.val 0) m.t.val ht (newPc p m) a
    rw [setSq_get_ne _ _ _ ht _ hftv] at e2
    have h1 : p.at m.f = p.b[m.f.val] := rfl
    have h2 : p.at m.t = p.b[m.t.val] := rfl
    rw [h1, h2]
    omega
  · simp only [if_true]
    obtain ⟨hef, het, htg⟩ := ep_sq_facts p m h he
    by_cases hb : epVictimSq p m < 64
    · have e0 := cnt_setSq p.b _ hb 0 a
      have e1 := cnt_setSq (setSq p.b (epVictimSq p m) 0) m.f.val hf 0 a
      have e2 := cnt_setSq (setSq (setSq p.b (epVictimSq p m) 0) m.f.val 0) m.t.val ht (newPc p m) a
      rw [setSq_get_ne _ _ _ ht _ hftv, setSq_get_ne _ _ _ ht _ het] at e2
      rw [setSq_get_ne _ _ _ hf _ hef] at e1
      rw [getD_eq _ _ hb]
      have h1 : p.at m.f = p.b[m.f.val] := rfl
      have h2 : p.at m.t = p.b[m.t.val] := rfl
      rw [h2] at htg
      rw [htg] at e2
      rw [h1]
      omega
    · have hb' : 64 ≤ epVictimSq p m := by omega
      have e1 := cnt_setSq p.b m.f.val hf 0 a
      have e2 := cnt_setSq (setSq p.b m.f.val 0) m.t.val ht (newPc p m) a
      rw [setSq_get_ne _ _ _ ht _ hftv] at e2
      have h1 : p.at m.f = p.b[m.f.val] := rfl
      have h2 : p.at m.t = p.b[m.t.val] := rfl
      have hs : setSq p.b (epVictimSq p m) 0 = p.b := by unfold setSq; exact Vector.setIfInBounds_eq_of_size_le hb'
      have hg : p.b.getD (epVictimSq p m) 0 = 0 := by simp [Vector.getD, hb]
      rw [hs, hg]
      rw [h2] at htg
      rw [htg] at e2
      rw [h1]
      omega

theorem isEpMv_false_of_kind (p : Pos) (m : Mv) (hk : kind (p.at m.f) ≠ 6) : isEpMv p m = false := by
  unfold isEpMv
  have : (kind (p.at m.f) == 6) = false := by simpa using hk
  rw [this]; rfl

theorem stage1_get_other (p : Pos) (m : Mv) (he : isEpMv p m = false) (j : Nat) (hj : j < 64)
    (h1 : m.f.val ≠ j) (h2 : m.t.val ≠ j) : (stage1 p m)[j] = p.b[j] := by
  unfold stage1
  rw [he]
  simp only [Bool.false_eq_true, if_false]
  rw [setSq_get_ne _ _ _ hj _ h2, setSq_get_ne _ _ _ hj _ h1]

theorem castle_short_facts (p : Pos) (m : Mv) (h : pseudo p m = true) (hk : kind (p.at m.f) = 1) (ht : m.t.val = m.f.val + 2) :
    m.f.val + 3 < 64 ∧ p.b.getD (m.f.val + 1) 0 = 0 ∧ p.b.getD (m.f.val + 3) 0 = rookOf p.wtm := by
  obtain ⟨_, hc⟩ := pseudo_king p m h hk
  have hf := m.f.isLt
  have htl := m.t.isLt
  unfold dxy at hc
  simp only [Sq.x, Sq.y] at hc
  rcases hc with hc | hc | hc
  · omega
  · obtain ⟨_, _, hhome, hco⟩ := hc
    have := castleOk_short p hco
    simp only at this
    rw [← hhome] at this
    refine ⟨?_, this.2.1, this.2.2.2⟩
    cases hw : p.wtm <;> simp only [hw, if_true, if_false, Bool.false_eq_true] at hhome <;> omega
  · omega

theorem castle_long_facts (p : Pos) (m : Mv) (h : pseudo p m = true) (hk : kind (p.at m.f) = 1) (ht : m.t.val + 2 = m.f.val) :
    4 ≤ m.f.val ∧ p.b.getD (m.f.val - 1) 0 = 0 ∧ p.b.getD (m.f.val - 4) 0 = rookOf p.wtm := by
  obtain ⟨_, hc⟩ := pseudo_king p m h hk
  have hf := m.f.isLt
  have htl := m.t.isLt
  unfold dxy at hc
  simp only [Sq.x, Sq.y] at hc
  rcases hc with hc | hc | hc
  · omega
  · omega
  · obtain ⟨_, _, hhome, hco⟩ := hc
    have := castleOk_long p hco
    simp only at this
    rw [← hhome] at this
    refine ⟨?_, this.2.1, this.2.2.2.2⟩
    cases hw : p.wtm <;> simp only [hw, if_true, if_false, Bool.false_eq_true] at hhome <;> omega

/-- **count transition of one move**: for every piece code `a ≠ 0`, the number of `a`s after the move, plus one if
    `a` is the captured piece, plus one if `a` is the moving piece, equals the number before plus one if `a` is the
    piece that lands on the target square (the moving piece itself, or the promotion piece). -/
theorem apply_counts (p : Pos) (m : Mv) (h : pseudo p m = true) (a : Pc) (ha : a ≠ 0) :
    cnt (apply p m).b a + ind (capturedPc p m) a + ind (p.at m.f) a = cnt p.b a + ind (newPc p m) a := by
  rw [apply_b]
  have s1 := stage1_counts p m h a ha
  have z := ind_zero a ha
  have hf := m.f.isLt
  have htl := m.t.isLt
  by_cases hk : kind (p.at m.f) = 1
  · have he := isEpMv_false_of_kind p m (by rw [hk]; decide)
    by_cases hs : m.t.val = m.f.val + 2
    · have c1 : (kind (p.at m.f) == 1 && m.t.val == m.f.val + 2) = true := by simp [hk, hs]
      rw [if_pos c1]
      obtain ⟨hb, h1, h3⟩ := castle_short_facts p m h hk hs
      rw [getD_eq _ _ (by omega)] at h1 h3
      have e1 := cnt_setSq (stage1 p m) (m.f.val + 3) hb 0 a
      have e2 := cnt_setSq (setSq (stage1 p m) (m.f.val + 3) 0) (m.f.val + 1) (by omega) (rookOf p.wtm) a
      rw [setSq_get_ne _ _ _ (by omega) _ (by omega), stage1_get_other p m he _ (by omega) (by omega) (by omega), h1] at e2
      rw [stage1_get_other p m he _ hb (by omega) (by omega), h3] at e1
      omega
    · have c1 : (kind (p.at m.f) == 1 && m.t.val == m.f.val + 2) = false := by simp [hs]
      rw [c1]
      simp only [Bool.false_eq_true, if_false]
      by_cases hl : m.t.val + 2 = m.f.val
      · have c2 : (kind (p.at m.f) == 1 && m.t.val + 2 == m.f.val) = true := by simp [hk, hl]
        rw [if_pos c2]
        obtain ⟨hb, h1, h4⟩ := castle_long_facts p m h hk hl
        rw [getD_eq _ _ (by omega)] at h1 h4
        have e1 := cnt_setSq (stage1 p m) (m.f.val - 4) (by omega) 0 a
        have e2 := cnt_setSq (setSq (stage1 p m) (m.f.val - 4) 0) (m.f.val - 1) (by omega) (rookOf p.wtm) a
        rw [setSq_get_ne _ _ _ (by omega) _ (by omega), stage1_get_other p m he _ (by omega) (by omega) (by omega), h1] at e2
        rw [stage1_get_other p m he _ (by omega) (by omega) (by omega), h4] at e1
        omega
      · have c2 : (kind (p.at m.f) == 1 && m.t.val + 2 == m.f.val) = false := by simp [hl]
        rw [c2]
        simp only [Bool.false_eq_true, if_false]
        exact s1
  · have c1 : (kind (p.at m.f) == 1 && m.t.val == m.f.val + 2) = false := by simp [hk]
    have c2 : (kind (p.at m.f) == 1 && m.t.val + 2 == m.f.val) = false := by simp [hk]
    rw [c1, c2]
    simp only [Bool.false_eq_true, if_false]
    exact s1

/-! ## the move seen on the counts -/

def pawnOf (w : Bool) : Pc := if w then WPAWN else BPAWN

set_option maxRecDepth 100000 in
theorem own_kind6_aux : ∀ (w : Bool) (n : Fin 256), own w (UInt8.ofNat n.val) = true → kind (UInt8.ofNat n.val) = 6 →
    UInt8.ofNat n.val = pawnOf w := by decide +kernel

theorem own_kind6 (w : Bool) (pc : Pc) (ho : own w pc = true) (hk : kind pc = 6) : pc = pawnOf w := by
  have := own_kind6_aux w ⟨pc.toNat, pc.toNat_lt⟩
  simp only [UInt8.ofNat_toNat] at this
  exact this ho hk

set_option maxRecDepth 100000 in
theorem isPromoPiece_cases_aux : ∀ (w : Bool) (n : Fin 256), isPromoPiece w (UInt8.ofNat n.val) = true →
    (w = true ∧ (n.val = 2 ∨ n.val = 3 ∨ n.val = 4 ∨ n.val = 5)) ∨ (w = false ∧ (n.val = 8 ∨ n.val = 9 ∨ n.val = 10 ∨ n.val = 11)) := by
  decide +kernel

theorem isPromoPiece_cases (w : Bool) (pr : Pc) (h : isPromoPiece w pr = true) :
    (w = true ∧ (pr = 2 ∨ pr = 3 ∨ pr = 4 ∨ pr = 5)) ∨ (w = false ∧ (pr = 8 ∨ pr = 9 ∨ pr = 10 ∨ pr = 11)) := by
  have := isPromoPiece_cases_aux w ⟨pr.toNat, pr.toNat_lt⟩
  simp only [UInt8.ofNat_toNat] at this
  have e : ∀ k : Nat, k < 256 → pr.toNat = k → pr = UInt8.ofNat k := by
    intro k _ hk; rw [← hk]; simp
  rcases this h with ⟨hw, h1⟩ | ⟨hw, h1⟩
  · left; refine ⟨hw, ?_⟩
    rcases h1 with h1 | h1 | h1 | h1
    · exact Or.inl (e 2 (by decide) h1)
    · exact Or.inr (Or.inl (e 3 (by decide) h1))
    · exact Or.inr (Or.inr (Or.inl (e 4 (by decide) h1)))
    · exact Or.inr (Or.inr (Or.inr (e 5 (by decide) h1)))
  · right; refine ⟨hw, ?_⟩
    rcases h1 with h1 | h1 | h1 | h1
    · exact Or.inl (e 8 (by decide) h1)
    · exact Or.inr (Or.inl (e 9 (by decide) h1))
    · exact Or.inr (Or.inr (Or.inl (e 10 (by decide) h1)))
    · exact Or.inr (Or.inr (Or.inr (e 11 (by decide) h1)))

/-- a promoting move is made by a pawn of the mover and promotes to Q/R/B/N of the mover -/
theorem promo_facts (p : Pos) (m : Mv) (h : pseudo p m = true) (hp : m.promo ≠ 0) :
    p.at m.f = pawnOf p.wtm ∧ isPromoPiece p.wtm m.promo = true := by
  have hk : kind (p.at m.f) = 6 := by
    apply Classical.byContradiction
    intro hk
    exact hp (pseudo_promo0 p m h hk)
  refine ⟨own_kind6 _ _ (pseudo_basic p m h).1 hk, ?_⟩
  have hpo := (pseudo_pawn p m h hk).1
  unfold promoOk at hpo
  by_cases hc : (m.t.y == (if p.wtm then 7 else 0)) = true
  · rw [if_pos hc] at hpo; exact hpo
  · rw [if_neg hc] at hpo; exact absurd (by simpa using hpo) hp

/-- **one move on the counts** (colour-blind form): there is a promotion piece `pr` (`0` = no promotion) such that
    every count can only fall, except that a promotion turns one pawn of the mover into one `pr` -/
def CStep (w : Bool) (c c' : Pc → Nat) : Prop :=
  ∃ pr : Pc, (pr = 0 ∨ isPromoPiece w pr = true) ∧
    ∀ a, a ≠ 0 → c' a + (if pr = 0 then 0 else ind (pawnOf w) a) ≤ c a + ind pr a

theorem apply_cstep (p : Pos) (m : Mv) (h : pseudo p m = true) : CStep p.wtm (cnt p.b) (cnt (apply p m).b) := by
  refine ⟨m.promo, ?_, ?_⟩
  · by_cases hp : m.promo = 0
    · exact Or.inl hp
    · exact Or.inr (promo_facts p m h hp).2
  · intro a ha
    have e := apply_counts p m h a ha
    unfold newPc at e
    by_cases hp : m.promo = 0
    · have : (m.promo != 0) = false := by simp [hp]
      rw [this] at e
      simp only [Bool.false_eq_true, if_false] at e
      rw [if_pos hp, hp, ind_zero a ha]
      omega
    · have : (m.promo != 0) = true := by simp [hp]
      rw [this] at e
      simp only [if_true] at e
      rw [if_neg hp, ← (promo_facts p m h hp).1]
      omega

/-! ## the two count rules are compatible with every move -/

theorem valid_iff (c : Pc → Int) : validatePieceCounts c = .ok ↔
    (c WPAWN ≤ maxPawns (c WKNIGHT) (c WBISHOP) (c WROOK) (c WQUEEN) ∧
     c BPAWN ≤ maxPawns (c BKNIGHT) (c BBISHOP) (c BROOK) (c BQUEEN)) := by
  unfold validatePieceCounts
  split
  · constructor
    · intro h; cases h
    · intro h; omega
  · split
    · constructor
      · intro h; cases h
      · intro h; omega
    · constructor
      · intro _; omega
      · intro _; rfl

theorem inst10 {P : Pc → Prop} (H : ∀ a, a ≠ 0 → P a) :
    P 2 ∧ P 3 ∧ P 4 ∧ P 5 ∧ P 6 ∧ P 8 ∧ P 9 ∧ P 10 ∧ P 11 ∧ P 12 :=
  ⟨H 2 (by decide), H 3 (by decide), H 4 (by decide), H 5 (by decide), H 6 (by decide), H 8 (by decide),
   H 9 (by decide), H 10 (by decide), H 11 (by decide), H 12 (by decide)⟩

theorem pos_part_step (x x' d k : Int) (hd : 0 ≤ d) (h : x' ≤ x + d) : max 0 (x' - k) ≤ max 0 (x - k) + d := by omega

theorem side_valid (p n b r q p' n' b' r' q' dn db dr dq : Int) (h0 : 0 ≤ dn) (h1 : 0 ≤ db) (h2 : 0 ≤ dr) (h3 : 0 ≤ dq)
    (hp : p' + (dn + db + dr + dq) ≤ p) (hn : n' ≤ n + dn) (hb : b' ≤ b + db) (hr : r' ≤ r + dr) (hq : q' ≤ q + dq)
    (h : p ≤ maxPawns n b r q) : p' ≤ maxPawns n' b' r' q' := by
  unfold maxPawns at h ⊢
  have e1 := pos_part_step n n' dn 2 h0 hn
  have e2 := pos_part_step b b' db 2 h1 hb
  have e3 := pos_part_step r r' dr 2 h2 hr
  have e4 := pos_part_step q q' dq 1 h3 hq
  generalize max 0 (n' - 2) = a1 at *
  generalize max 0 (b' - 2) = a2 at *
  generalize max 0 (r' - 2) = a3 at *
  generalize max 0 (q' - 1) = a4 at *
  generalize max 0 (n - 2) = a5 at *
  generalize max 0 (b - 2) = a6 at *
  generalize max 0 (r - 2) = a7 at *
  generalize max 0 (q - 1) = a8 at *
  omega

/-- the piece-count validity rule survives every move -/
theorem valid_step (w : Bool) (c c' : Pc → Nat) (hs : CStep w c c')
    (hv : validatePieceCounts (fun a => (c a : Int)) = .ok) : validatePieceCounts (fun a => (c' a : Int)) = .ok := by
  rw [valid_iff] at hv ⊢
  obtain ⟨pr, hpr, H⟩ := hs
  obtain ⟨h2, h3, h4, h5, h6, h8, h9, h10, h11, h12⟩ := inst10 H
  simp only [WPAWN, WKNIGHT, WBISHOP, WROOK, WQUEEN, BPAWN, BKNIGHT, BBISHOP, BROOK, BQUEEN] at hv ⊢
  have mono := fun (p n b r q p' n' b' r' q' : Int) => side_valid p n b r q p' n' b' r' q' 0 0 0 0 (by omega) (by omega) (by omega) (by omega)
  rcases hpr with rfl | hpr
  · simp [ind] at h2 h3 h4 h5 h6 h8 h9 h10 h11 h12
    exact ⟨mono _ _ _ _ _ _ _ _ _ _ (by omega) (by omega) (by omega) (by omega) (by omega) hv.1,
           mono _ _ _ _ _ _ _ _ _ _ (by omega) (by omega) (by omega) (by omega) (by omega) hv.2⟩
  · rcases isPromoPiece_cases w pr hpr with ⟨rfl, rfl | rfl | rfl | rfl⟩ | ⟨rfl, rfl | rfl | rfl | rfl⟩ <;>
      simp [ind, pawnOf, WPAWN, BPAWN] at h2 h3 h4 h5 h6 h8 h9 h10 h11 h12
    · exact ⟨side_valid _ _ _ _ _ _ _ _ _ _ 0 0 0 1 (by omega) (by omega) (by omega) (by omega) (by omega) (by omega) (by omega) (by omega) (by omega) hv.1,
           mono _ _ _ _ _ _ _ _ _ _ (by omega) (by omega) (by omega) (by omega) (by omega) hv.2⟩
    · exact ⟨side_valid _ _ _ _ _ _ _ _ _ _ 0 0 1 0 (by omega) (by omega) (by omega) (by omega) (by omega) (by omega) (by omega) (by omega) (by omega) hv.1,
           mono _ _ _ _ _ _ _ _ _ _ (by omega) (by omega) (by omega) (by omega) (by omega) hv.2⟩
    · exact ⟨side_valid _ _ _ _ _ _ _ _ _ _ 0 1 0 0 (by omega) (by omega) (by omega) (by omega) (by omega) (by omega) (by omega) (by omega) (by omega) hv.1,
           mono _ _ _ _ _ _ _ _ _ _ (by omega) (by omega) (by omega) (by omega) (by omega) hv.2⟩
    · exact ⟨side_valid _ _ _ _ _ _ _ _ _ _ 1 0 0 0 (by omega) (by omega) (by omega) (by omega) (by omega) (by omega) (by omega) (by omega) (by omega) hv.1,
           mono _ _ _ _ _ _ _ _ _ _ (by omega) (by omega) (by omega) (by omega) (by omega) hv.2⟩
    · exact ⟨mono _ _ _ _ _ _ _ _ _ _ (by omega) (by omega) (by omega) (by omega) (by omega) hv.1,
           side_valid _ _ _ _ _ _ _ _ _ _ 0 0 0 1 (by omega) (by omega) (by omega) (by omega) (by omega) (by omega) (by omega) (by omega) (by omega) hv.2⟩
    · exact ⟨mono _ _ _ _ _ _ _ _ _ _ (by omega) (by omega) (by omega) (by omega) (by omega) hv.1,
           side_valid _ _ _ _ _ _ _ _ _ _ 0 0 1 0 (by omega) (by omega) (by omega) (by omega) (by omega) (by omega) (by omega) (by omega) (by omega) hv.2⟩
    · exact ⟨mono _ _ _ _ _ _ _ _ _ _ (by omega) (by omega) (by omega) (by omega) (by omega) hv.1,
           side_valid _ _ _ _ _ _ _ _ _ _ 0 1 0 0 (by omega) (by omega) (by omega) (by omega) (by omega) (by omega) (by omega) (by omega) (by omega) hv.2⟩
    · exact ⟨mono _ _ _ _ _ _ _ _ _ _ (by omega) (by omega) (by omega) (by omega) (by omega) hv.1,
           side_valid _ _ _ _ _ _ _ _ _ _ 1 0 0 0 (by omega) (by omega) (by omega) (by omega) (by omega) (by omega) (by omega) (by omega) (by omega) hv.2⟩

theorem enoughSide_iff (cp cq cr cb cn gp gq gr gb gn : Int) :
    enoughSide cp cq cr cb cn gp gq gr gb gn = true ↔
      0 ≤ cp - gp - max 0 (gq - cq) - max 0 (gr - cr) - max 0 (gb - cb) - max 0 (gn - cn) := by
  unfold enoughSide
  simp only
  have m1 : 0 ≤ max 0 (gq - cq) := by omega
  have m2 : 0 ≤ max 0 (gr - cr) := by omega
  have m3 : 0 ≤ max 0 (gb - cb) := by omega
  have m4 : 0 ≤ max 0 (gn - cn) := by omega
  generalize max 0 (gq - cq) = a1 at *
  generalize max 0 (gr - cr) = a2 at *
  generalize max 0 (gb - cb) = a3 at *
  generalize max 0 (gn - cn) = a4 at *
  repeat' split
  all_goals simp only [Bool.false_eq_true, false_iff, true_iff]
  all_goals omega

theorem miss_part_step (x x' d g : Int) (hd : 0 ≤ d) (h : x' ≤ x + d) : max 0 (g - x) ≤ max 0 (g - x') + d := by omega

theorem side_enough (p q r b n p' q' r' b' n' gp gq gr gb gn dq dr db dn : Int)
    (h0 : 0 ≤ dq) (h1 : 0 ≤ dr) (h2 : 0 ≤ db) (h3 : 0 ≤ dn) (hp : p' + (dq + dr + db + dn) ≤ p) (hq : q' ≤ q + dq) (hr : r' ≤ r + dr) (hb : b' ≤ b + db) (hn : n' ≤ n + dn)
    (h : enoughSide p' q' r' b' n' gp gq gr gb gn = true) : enoughSide p q r b n gp gq gr gb gn = true := by
  rw [enoughSide_iff] at h ⊢
  have e1 := miss_part_step q q' dq gq h0 hq
  have e2 := miss_part_step r r' dr gr h1 hr
  have e3 := miss_part_step b b' db gb h2 hb
  have e4 := miss_part_step n n' dn gn h3 hn
  generalize max 0 (gq - q) = a1 at *
  generalize max 0 (gr - r) = a2 at *
  generalize max 0 (gb - b) = a3 at *
  generalize max 0 (gn - n) = a4 at *
  generalize max 0 (gq - q') = a5 at *
  generalize max 0 (gr - r') = a6 at *
  generalize max 0 (gb - b') = a7 at *
  generalize max 0 (gn - n') = a8 at *
  omega

/-- if the goal counts are still reachable after a move, they were reachable before it -/
theorem enough_step (w : Bool) (c c' : Pc → Nat) (g : Pc → Int) (hs : CStep w c c')
    (he : enoughRemainingPieces (fun a => (c' a : Int)) g = true) : enoughRemainingPieces (fun a => (c a : Int)) g = true := by
  unfold enoughRemainingPieces at he ⊢
  rw [Bool.and_eq_true] at he ⊢
  obtain ⟨pr, hpr, H⟩ := hs
  obtain ⟨h2, h3, h4, h5, h6, h8, h9, h10, h11, h12⟩ := inst10 H
  simp only [WPAWN, WKNIGHT, WBISHOP, WROOK, WQUEEN, BPAWN, BKNIGHT, BBISHOP, BROOK, BQUEEN] at he ⊢
  have mono := fun (p q r b n p' q' r' b' n' gp gq gr gb gn : Int) => side_enough p q r b n p' q' r' b' n' gp gq gr gb gn 0 0 0 0 (by omega) (by omega) (by omega) (by omega)
  rcases hpr with rfl | hpr
  · simp [ind] at h2 h3 h4 h5 h6 h8 h9 h10 h11 h12
    exact ⟨mono _ _ _ _ _ _ _ _ _ _ _ _ _ _ _ (by omega) (by omega) (by omega) (by omega) (by omega) he.1,
           mono _ _ _ _ _ _ _ _ _ _ _ _ _ _ _ (by omega) (by omega) (by omega) (by omega) (by omega) he.2⟩
  · rcases isPromoPiece_cases w pr hpr with ⟨rfl, rfl | rfl | rfl | rfl⟩ | ⟨rfl, rfl | rfl | rfl | rfl⟩ <;>
      simp [ind, pawnOf, WPAWN, BPAWN] at h2 h3 h4 h5 h6 h8 h9 h10 h11 h12
    · exact ⟨side_enough _ _ _ _ _ _ _ _ _ _ _ _ _ _ _ 1 0 0 0 (by omega) (by omega) (by omega) (by omega) (by omega) (by omega) (by omega) (by omega) (by omega) he.1,
           mono _ _ _ _ _ _ _ _ _ _ _ _ _ _ _ (by omega) (by omega) (by omega) (by omega) (by omega) he.2⟩
    · exact ⟨side_enough _ _ _ _ _ _ _ _ _ _ _ _ _ _ _ 0 1 0 0 (by omega) (by omega) (by omega) (by omega) (by omega) (by omega) (by omega) (by omega) (by omega) he.1,
           mono _ _ _ _ _ _ _ _ _ _ _ _ _ _ _ (by omega) (by omega) (by omega) (by omega) (by omega) he.2⟩
    · exact ⟨side_enough _ _ _ _ _ _ _ _ _ _ _ _ _ _ _ 0 0 1 0 (by omega) (by omega) (by omega) (by omega) (by omega) (by omega) (by omega) (by omega) (by omega) he.1,
           mono _ _ _ _ _ _ _ _ _ _ _ _ _ _ _ (by omega) (by omega) (by omega) (by omega) (by omega) he.2⟩
    · exact ⟨side_enough _ _ _ _ _ _ _ _ _ _ _ _ _ _ _ 0 0 0 1 (by omega) (by omega) (by omega) (by omega) (by omega) (by omega) (by omega) (by omega) (by omega) he.1,
           mono _ _ _ _ _ _ _ _ _ _ _ _ _ _ _ (by omega) (by omega) (by omega) (by omega) (by omega) he.2⟩
    · exact ⟨mono _ _ _ _ _ _ _ _ _ _ _ _ _ _ _ (by omega) (by omega) (by omega) (by omega) (by omega) he.1,
           side_enough _ _ _ _ _ _ _ _ _ _ _ _ _ _ _ 1 0 0 0 (by omega) (by omega) (by omega) (by omega) (by omega) (by omega) (by omega) (by omega) (by omega) he.2⟩
    · exact ⟨mono _ _ _ _ _ _ _ _ _ _ _ _ _ _ _ (by omega) (by omega) (by omega) (by omega) (by omega) he.1,
           side_enough _ _ _ _ _ _ _ _ _ _ _ _ _ _ _ 0 1 0 0 (by omega) (by omega) (by omega) (by omega) (by omega) (by omega) (by omega) (by omega) (by omega) he.2⟩
    · exact ⟨mono _ _ _ _ _ _ _ _ _ _ _ _ _ _ _ (by omega) (by omega) (by omega) (by omega) (by omega) he.1,
           side_enough _ _ _ _ _ _ _ _ _ _ _ _ _ _ _ 0 0 1 0 (by omega) (by omega) (by omega) (by omega) (by omega) (by omega) (by omega) (by omega) (by omega) he.2⟩
    · exact ⟨mono _ _ _ _ _ _ _ _ _ _ _ _ _ _ _ (by omega) (by omega) (by omega) (by omega) (by omega) he.1,
           side_enough _ _ _ _ _ _ _ _ _ _ _ _ _ _ _ 0 0 0 1 (by omega) (by omega) (by omega) (by omega) (by omega) (by omega) (by omega) (by omega) (by omega) he.2⟩

theorem enough_refl (c : Pc → Int) : enoughRemainingPieces c c = true := by
  unfold enoughRemainingPieces
  rw [Bool.and_eq_true, enoughSide_iff, enoughSide_iff]
  omega

/-! ## along a legal game -/

theorem fixupEP_b (p : Pos) : (fixupEP p).b = p.b := by
  unfold fixupEP
  split
  · rfl
  · split <;> rfl

theorem fixupEP_wtm (p : Pos) : (fixupEP p).wtm = p.wtm := by
  unfold fixupEP
  split
  · rfl
  · split <;> rfl

theorem legalB_pseudo (p : Pos) (m : Mv) (h : legalB p m = true) : pseudo p m = true := by
  unfold legalB at h; rw [Bool.and_eq_true] at h; exact h.1

theorem playable_valid (p q : Pos) (ms : List Mv) (h : Playable p ms q)
    (hv : validatePieceCounts (countsOf p.b) = .ok) : validatePieceCounts (countsOf q.b) = .ok := by
  induction h with
  | nil p => exact hv
  | cons p m ms q hl _ ih =>
    apply ih
    rw [fixupEP_b]
    exact valid_step p.wtm _ _ (apply_cstep p m (legalB_pseudo p m hl)) hv

theorem playable_enough (p q : Pos) (ms : List Mv) (h : Playable p ms q) :
    enoughRemainingPieces (countsOf p.b) (countsOf q.b) = true := by
  induction h with
  | nil p => exact enough_refl _
  | cons p m ms q hl _ ih =>
    rw [fixupEP_b] at ih
    exact enough_step p.wtm _ _ _ (apply_cstep p m (legalB_pseudo p m hl)) ih


/-! ## sides alternate; plies from per-side move counts -/

theorem apply_wtm (p : Pos) (m : Mv) : (apply p m).wtm = !p.wtm := rfl

theorem playable_wtm (p q : Pos) (ms : List Mv) (h : Playable p ms q) :
    q.wtm = (if ms.length % 2 = 0 then p.wtm else !p.wtm) := by
  induction h with
  | nil p => rfl
  | cons p m ms q _ _ ih =>
    rw [ih, fixupEP_wtm, apply_wtm, List.length_cons]
    by_cases h2 : ms.length % 2 = 0
    · have : (ms.length + 1) % 2 ≠ 0 := by omega
      rw [if_pos h2, if_neg this]
    · have : (ms.length + 1) % 2 = 0 := by omega
      rw [if_neg h2, if_pos this, Bool.not_not]

theorem nWhite_add_nBlack (w : Bool) (n : Nat) : nWhite w n + nBlack w n = n := by
  unfold nWhite nBlack; cases w <;> simp only [if_true, if_false, Bool.false_eq_true] <;> omega

/-- arithmetic core: if white makes `nw ≥ a` and black `nb ≥ b` moves in an alternating sequence of `n` plies that
    starts with `posW` to move and ends with `goalW` to move, then `n ≥ pliesFromMoves a b posW goalW` -/
theorem plies_arith (a b : Int) (posW : Bool) (n : Nat) (ha : a ≤ nWhite posW n) (hb : b ≤ nBlack posW n) :
    pliesFromMoves a b posW (if n % 2 = 0 then posW else !posW) ≤ n := by
  unfold pliesFromMoves wNeededPlies bNeededPlies
  unfold nWhite at ha
  unfold nBlack at hb
  cases posW <;> by_cases h2 : n % 2 = 0 <;>
    simp only [h2, if_true, if_false, Bool.false_eq_true, Bool.not_false, Bool.not_true] at ha hb ⊢ <;> omega

/-! ## certificate checker -/

theorem sameDraw_iff (q t : Pos) : sameDraw q t = true ↔ (q.b = t.b ∧ q.wtm = t.wtm ∧ q.castle = t.castle ∧ q.ep = t.ep) := by
  unfold sameDraw
  simp only [Bool.and_eq_true, decide_eq_true_eq, beq_iff_eq]
  constructor
  · rintro ⟨⟨⟨h1, h2⟩, h3⟩, h4⟩; exact ⟨h1, h2, h3, h4⟩
  · rintro ⟨h1, h2, h3, h4⟩; exact ⟨⟨⟨h1, h2⟩, h3⟩, h4⟩

theorem playSan_sound (p q : Pos) (ss : List String) (h : playSan p ss = some q) :
    ∃ ms : List Mv, ms.length = ss.length ∧ Playable p ms q := by
  induction ss generalizing p with
  | nil =>
    simp only [playSan, Option.some.injEq] at h
    subst h
    exact ⟨[], rfl, .nil p⟩
  | cons s rest ih =>
    simp only [playSan] at h
    split at h
    · next m _ =>
      split at h
      · next hl =>
        obtain ⟨ms, hlen, hp⟩ := ih _ h
        exact ⟨m :: ms, by simp [hlen], .cons p m ms q hl hp⟩
      · cases h
    · cases h

/-! ## colour-exact form: the mover never loses a man, the opponent at most one -/

/-- the en-passant square, if set, has a man of the side *not* to move behind it (true after every `apply`) -/
def EpOK (p : Pos) : Prop :=
  ∀ e : Sq, p.ep = some e → own p.wtm (p.b.getD (if p.wtm then e.val - 8 else e.val + 8) 0) = false

set_option maxRecDepth 100000 in
theorem own_excl_aux : ∀ (w : Bool) (n : Fin 256), own w (UInt8.ofNat n.val) = true → own (!w) (UInt8.ofNat n.val) = false := by
  decide +kernel

theorem own_excl (w : Bool) (x : Pc) (h : own w x = true) : own (!w) x = false := by
  have := own_excl_aux w ⟨x.toNat, x.toNat_lt⟩
  simp only [UInt8.ofNat_toNat] at this
  exact this h

set_option maxRecDepth 100000 in
theorem sum_ind_aux : ∀ (n : Fin 256),
    (ind (UInt8.ofNat n.val) 1 + ind (UInt8.ofNat n.val) 2 + ind (UInt8.ofNat n.val) 3 + ind (UInt8.ofNat n.val) 4 +
      ind (UInt8.ofNat n.val) 5 + ind (UInt8.ofNat n.val) 6 = if own true (UInt8.ofNat n.val) then 1 else 0) ∧
    (ind (UInt8.ofNat n.val) 7 + ind (UInt8.ofNat n.val) 8 + ind (UInt8.ofNat n.val) 9 + ind (UInt8.ofNat n.val) 10 +
      ind (UInt8.ofNat n.val) 11 + ind (UInt8.ofNat n.val) 12 = if own false (UInt8.ofNat n.val) then 1 else 0) := by
  decide +kernel

theorem sum_ind (x : Pc) :
    (ind x 1 + ind x 2 + ind x 3 + ind x 4 + ind x 5 + ind x 6 = if own true x then 1 else 0) ∧
    (ind x 7 + ind x 8 + ind x 9 + ind x 10 + ind x 11 + ind x 12 = if own false x then 1 else 0) := by
  have := sum_ind_aux ⟨x.toNat, x.toNat_lt⟩
  simp only [UInt8.ofNat_toNat] at this
  exact this

theorem newPc_own (p : Pos) (m : Mv) (h : pseudo p m = true) : own p.wtm (newPc p m) = true := by
  unfold newPc
  by_cases hp : m.promo = 0
  · have : (m.promo != 0) = false := by simp [hp]
    rw [this]; exact (pseudo_basic p m h).1
  · have : (m.promo != 0) = true := by simp [hp]
    rw [this]
    have := (promo_facts p m h hp).2
    unfold isPromoPiece at this
    rw [Bool.and_eq_true] at this
    exact this.1

theorem capturedPc_not_own (p : Pos) (m : Mv) (h : pseudo p m = true) (hep : EpOK p) : own p.wtm (capturedPc p m) = false := by
  unfold capturedPc
  cases he : isEpMv p m
  · simp only [Bool.false_eq_true, if_false]; exact (pseudo_basic p m h).2.1
  · simp only [if_true]
    unfold isEpMv at he
    simp only [Bool.and_eq_true, beq_iff_eq] at he
    exact hep m.t he.1.1.2

/-- men of each colour across one move: the mover keeps all, the opponent loses exactly the captured man -/
theorem apply_men (p : Pos) (m : Mv) (h : pseudo p m = true) (hep : EpOK p) :
    men p.wtm (apply p m).b = men p.wtm p.b ∧
    men (!p.wtm) (apply p m).b + (if own (!p.wtm) (capturedPc p m) then 1 else 0) = men (!p.wtm) p.b := by
  have E := fun a ha => apply_counts p m h a ha
  have e1 := E 1 (by decide); have e2 := E 2 (by decide); have e3 := E 3 (by decide); have e4 := E 4 (by decide)
  have e5 := E 5 (by decide); have e6 := E 6 (by decide); have e7 := E 7 (by decide); have e8 := E 8 (by decide)
  have e9 := E 9 (by decide); have e10 := E 10 (by decide); have e11 := E 11 (by decide); have e12 := E 12 (by decide)
  have sc := sum_ind (capturedPc p m)
  have sp := sum_ind (p.at m.f)
  have sn := sum_ind (newPc p m)
  have c0 := capturedPc_not_own p m h hep
  have p0 := (pseudo_basic p m h).1
  have n0 := newPc_own p m h
  have p1 := own_excl _ _ p0
  have n1 := own_excl _ _ n0
  unfold men
  cases hw : p.wtm <;> rw [hw] at c0 p0 n0 p1 n1 <;>
    simp only [Bool.not_true, Bool.not_false] at p1 n1 <;>
    simp only [c0, p0, n0, p1, n1, if_true, if_false, Bool.false_eq_true, Bool.not_true, Bool.not_false] at sc sp sn ⊢ <;>
    constructor <;> omega

def epAdj (p : Pos) (m : Mv) : Bool :=
  (m.t.x > 0 && (apply p m).b.getD (m.t.val - 1) 0 == (if p.wtm then BPAWN else WPAWN)) ||
  (m.t.x < 7 && (apply p m).b.getD (m.t.val + 1) 0 == (if p.wtm then BPAWN else WPAWN))

theorem apply_ep (p : Pos) (m : Mv) : (apply p m).ep =
    (if kind (p.at m.f) == 6 && (m.t.val == m.f.val + 16 || m.f.val == m.t.val + 16) then
      (if epAdj p m then some ⟨((m.f.val + m.t.val) / 2) % 64, Nat.mod_lt _ (by decide)⟩ else none)
     else none) := rfl

theorem apply_ep_some (p : Pos) (m : Mv) (e : Sq) (he : (apply p m).ep = some e) :
    kind (p.at m.f) = 6 ∧ (m.t.val = m.f.val + 16 ∨ m.f.val = m.t.val + 16) ∧ e.val = ((m.f.val + m.t.val) / 2) % 64 := by
  rw [apply_ep] at he
  by_cases hc : (kind (p.at m.f) == 6 && (m.t.val == m.f.val + 16 || m.f.val == m.t.val + 16)) = true
  · rw [if_pos hc] at he
    by_cases ha : epAdj p m = true
    · rw [if_pos ha] at he
      simp only [Option.some.injEq] at he
      simp only [Bool.and_eq_true, Bool.or_eq_true, beq_iff_eq] at hc
      refine ⟨hc.1, hc.2, ?_⟩
      rw [← he]
    · rw [if_neg ha] at he; cases he
  · rw [if_neg hc] at he; cases he

theorem stage1_get_t (p : Pos) (m : Mv) : (stage1 p m)[m.t.val] = newPc p m := by
  unfold stage1 setSq
  rw [Vector.getElem_setIfInBounds m.t.isLt, if_pos rfl]

theorem apply_epOK (p : Pos) (m : Mv) (h : pseudo p m = true) : EpOK (apply p m) := by
  intro e he
  obtain ⟨hk, hd, hev⟩ := apply_ep_some p m e he
  have hp := (pseudo_pawn p m h hk).2
  have hf := m.f.isLt
  have ht := m.t.isLt
  unfold dxy at hp
  simp only [Sq.y] at hp
  have hb : (apply p m).b = stage1 p m := by
    rw [apply_b]
    have c1 : (kind (p.at m.f) == 1 && m.t.val == m.f.val + 2) = false := by rw [hk]; rfl
    have c2 : (kind (p.at m.f) == 1 && m.t.val + 2 == m.f.val) = false := by rw [hk]; rfl
    rw [c1, c2]; rfl
  have key : (if (apply p m).wtm then e.val - 8 else e.val + 8) = m.t.val := by
    rw [apply_wtm]
    cases hw : p.wtm <;> simp only [hw, if_true, if_false, Bool.false_eq_true, Bool.not_true, Bool.not_false] at hp ⊢ <;> omega
  rw [key, hb, getD_eq _ _ ht, stage1_get_t, apply_wtm]
  exact own_excl _ _ (newPc_own p m h)

theorem fixupEP_epOK (p : Pos) (h : EpOK p) : EpOK (fixupEP p) := by
  unfold fixupEP
  split
  · exact h
  · split
    · exact h
    · intro e he; cases he

/-- along a legal game each side loses at most one man per move of the other side -/
theorem playable_men (p q : Pos) (ms : List Mv) (h : Playable p ms q) (hep : EpOK p) :
    men false p.b ≤ men false q.b + nWhite p.wtm ms.length ∧ men true p.b ≤ men true q.b + nBlack p.wtm ms.length := by
  induction h with
  | nil p => simp [nWhite, nBlack]
  | cons p m ms q hl _ ih =>
    have hps := legalB_pseudo p m hl
    have ih := ih (fixupEP_epOK _ (apply_epOK p m hps))
    rw [fixupEP_b, fixupEP_wtm, apply_wtm] at ih
    obtain ⟨m1, m2⟩ := apply_men p m hps hep
    rw [List.length_cons]
    unfold nWhite nBlack at ih ⊢
    cases hw : p.wtm <;> rw [hw] at m1 m2 ih <;>
      simp only [Bool.not_true, Bool.not_false, if_true, if_false, Bool.false_eq_true] at m1 m2 ih ⊢ <;>
      split at m2 <;> omega
end PG
