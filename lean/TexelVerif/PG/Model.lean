import TexelVerif.Chess.Line
import TexelVerif.Chess.Fen
/-!
# Proof-game tool (C16): executable models of the arithmetic kernels and the proof-game certificate checker

* `cnt`, `countsOf` — the count abstraction of a board (`pieceCnt[p] = bitCount(pos.pieceTypeBB(p))`).
* `validatePieceCounts` — `ProofGame::validatePieceCounts` (proofgame.cpp:276-299), identical to the static
  `pieceCountsValid` of revmovegen.cpp:314-338.
* `enoughRemainingPieces` — proofgame.cpp:599-632 (sequence of early returns kept).
* `distCombine` / `pliesFromMoves` — the tail of `ProofGame::distLowerBound` (proofgame.cpp:580-597): per-side move
  counts are raised to the number of captures the side still has to make and converted to plies with the two
  side-to-move corrections.
* `checkProofGame` / `checkSanGame` — certificate checker for an emitted proof game.  The SAN resolver is *untrusted*:
  the checker re-tests every resolved move with `legalB`, and the soundness theorem is existential over the moves.
All counts are `Int` like the C++ `int`s.
-/
namespace PG
open Chess

/-- number of squares holding piece code `a` -/
def cnt (b : Board) (a : Pc) : Nat := b.count a

/-- the C++ `pieceCnt[]` array of a position (index = piece code) -/
def countsOf (b : Board) : Pc → Int := fun a => (cnt b a : Int)

/-- `maxWPawns` / `maxBPawns`: 8 minus the pieces that can only be promoted pawns -/
def maxPawns (n b r q : Int) : Int := 8 - max 0 (n - 2) - max 0 (b - 2) - max 0 (r - 2) - max 0 (q - 1)

inductive CountVerdict where
  | ok | tooManyWhite | tooManyBlack
deriving DecidableEq, Repr

/-- `ProofGame::validatePieceCounts`: which exception (if any) is thrown -/
def validatePieceCounts (c : Pc → Int) : CountVerdict :=
  if c WPAWN > maxPawns (c WKNIGHT) (c WBISHOP) (c WROOK) (c WQUEEN) then .tooManyWhite
  else if c BPAWN > maxPawns (c BKNIGHT) (c BBISHOP) (c BROOK) (c BQUEEN) then .tooManyBlack
  else .ok

/-- one colour of `ProofGame::enoughRemainingPieces` (c… = current counts, g… = goal counts) -/
def enoughSide (cp cq cr cb cn gp gq gr gb gn : Int) : Bool :=
  let prom := cp - gp
  if prom < 0 then false else
  let prom := prom - max 0 (gq - cq)
  if prom < 0 then false else
  let prom := prom - max 0 (gr - cr)
  if prom < 0 then false else
  let prom := prom - max 0 (gb - cb)
  if prom < 0 then false else
  let prom := prom - max 0 (gn - cn)
  if prom < 0 then false else true

/-- `ProofGame::enoughRemainingPieces(pieceCnt)` with `goalPieceCnt = g` -/
def enoughRemainingPieces (c g : Pc → Int) : Bool :=
  enoughSide (c WPAWN) (c WQUEEN) (c WROOK) (c WBISHOP) (c WKNIGHT) (g WPAWN) (g WQUEEN) (g WROOK) (g WBISHOP) (g WKNIGHT) &&
  enoughSide (c BPAWN) (c BQUEEN) (c BROOK) (c BBISHOP) (c BKNIGHT) (g BPAWN) (g BQUEEN) (g BROOK) (g BBISHOP) (g BKNIGHT)

/-- plies needed by white: `neededMoves[0]*2`, `+1` if black is to move now, `-1` if black is to move in the goal -/
def wNeededPlies (wMoves : Int) (posW goalW : Bool) : Int :=
  wMoves * 2 + (if posW then 0 else 1) - (if goalW then 0 else 1)

/-- plies needed by black: `neededMoves[1]*2`, `+1` if white is to move now, `-1` if white is to move in the goal -/
def bNeededPlies (bMoves : Int) (posW goalW : Bool) : Int :=
  bMoves * 2 + (if posW then 1 else 0) - (if goalW then 1 else 0)

/-- "Compute number of needed plies from number of needed white/black moves" -/
def pliesFromMoves (wMoves bMoves : Int) (posW goalW : Bool) : Int :=
  max (wNeededPlies wMoves posW goalW) (bNeededPlies bMoves posW goalW)

/-- the tail of `distLowerBound`: `nm0`/`nm1` = result of `computeNeededMoves`, `nBlackCapt`/`nWhiteCapt` = number of
    black/white men that still have to disappear -/
def distCombine (nm0 nm1 nBlackCapt nWhiteCapt : Int) (posW goalW : Bool) : Int :=
  pliesFromMoves (max nm0 nBlackCapt) (max nm1 nWhiteCapt) posW goalW

/-- number of men of one colour -/
def men (w : Bool) (b : Board) : Nat :=
  if w then cnt b 1 + cnt b 2 + cnt b 3 + cnt b 4 + cnt b 5 + cnt b 6
  else cnt b 7 + cnt b 8 + cnt b 9 + cnt b 10 + cnt b 11 + cnt b 12

/-- number of moves made by white / black in an alternating sequence of `n` plies started by `wtm` -/
def nWhite (wtm : Bool) (n : Nat) : Nat := if wtm then (n + 1) / 2 else n / 2
def nBlack (wtm : Bool) (n : Nat) : Nat := if wtm then n / 2 else (n + 1) / 2

/-! ## the initial position -/

def startBoard : Board :=
  #v[3, 5, 4, 2, 1, 4, 5, 3,  6, 6, 6, 6, 6, 6, 6, 6,  0, 0, 0, 0, 0, 0, 0, 0,  0, 0, 0, 0, 0, 0, 0, 0,
     0, 0, 0, 0, 0, 0, 0, 0,  0, 0, 0, 0, 0, 0, 0, 0,  12, 12, 12, 12, 12, 12, 12, 12,  9, 11, 10, 8, 7, 10, 11, 9]

def startPos : Pos := { b := startBoard, wtm := true, castle := 15, ep := none, hmc := 0, fmc := 1 }

/-! ## certificate checker for proof games -/

/-- equality of positions under the draw rules: placement, side to move, castling rights, en-passant square -/
def sameDraw (q t : Pos) : Bool :=
  decide (q.b = t.b) && q.wtm == t.wtm && q.castle == t.castle && decide (q.ep = t.ep)

/-- `moves` is a legal game from the initial position that ends in `target` -/
def checkProofGame (moves : List Mv) (target : Pos) : Bool :=
  match playLine startPos moves with
  | some q => sameDraw q target
  | none => false

/-! ### SAN front end (untrusted: only proposes a move, which the checker tests with `legalB`) -/

def kindOfLetter (c : Char) : Option UInt8 :=
  match c with
  | 'K' => some 1 | 'Q' => some 2 | 'R' => some 3 | 'B' => some 4 | 'N' => some 5 | _ => none

def stripSuffix (cs : List Char) : List Char :=
  (cs.reverse.dropWhile fun c => c == '+' || c == '#' || c == '!' || c == '?').reverse

/-- the unique legal move matching a SAN token as written by `TextIO::moveToString(pos, m, false)` -/
def resolveSan (p : Pos) (s : String) : Option Mv :=
  let cs := stripSuffix s.toList
  let legal := genLegal p
  let home : Nat := if p.wtm then 4 else 60
  let pick (l : List Mv) : Option Mv := match l with | [m] => some m | _ => none
  if cs == "O-O".toList || cs == "0-0".toList then
    pick (legal.filter fun m => kind (p.at m.f) == 1 && m.f.val == home && m.t.val == home + 2)
  else if cs == "O-O-O".toList || cs == "0-0-0".toList then
    pick (legal.filter fun m => kind (p.at m.f) == 1 && m.f.val == home && m.t.val + 2 == home)
  else
    -- promotion suffix "=X"
    let (cs, promoK) : List Char × UInt8 :=
      match cs.reverse with
      | x :: '=' :: rest => (rest.reverse, (kindOfLetter x).getD 255)
      | x :: d :: rest =>
        -- Texel writes promotions without '=' ("dxc8Q")
        if d.isDigit && (kindOfLetter x).isSome then ((d :: rest).reverse, (kindOfLetter x).getD 255) else (cs, 0)
      | _ => (cs, 0)
    let (k, cs) : UInt8 × List Char :=
      match cs with
      | c :: rest => (match kindOfLetter c with | some k => (k, rest) | none => (6, cs))
      | [] => (0, [])
    let cs := cs.filter fun c => c != 'x'
    match cs.reverse with
    | r :: f :: dis =>
      match mkSq? ((f.toNat : Int) - 97) ((r.toNat : Int) - 49) with
      | none => none
      | some t =>
        let dis := dis.reverse
        let fileOk (m : Mv) : Bool := dis.all fun c => if 'a' ≤ c ∧ c ≤ 'h' then m.f.x == c.toNat - 97 else true
        let rankOk (m : Mv) : Bool := dis.all fun c => if '1' ≤ c ∧ c ≤ '8' then m.f.y == c.toNat - 49 else true
        pick (legal.filter fun m =>
          m.t == t && kind (p.at m.f) == k && kind m.promo == promoK && fileOk m && rankOk m &&
          !(k == 1 && (m.t.val == m.f.val + 2 || m.t.val + 2 == m.f.val)))
    | _ => none

/-- play a SAN game from `p`; every proposed move is re-tested with the specification's `legalB` -/
def playSan (p : Pos) : List String → Option Pos
  | [] => some p
  | s :: rest =>
    match resolveSan p s with
    | some m => if legalB p m then playSan (fixupEP (apply p m)) rest else none
    | none => none

/-- index of the first SAN token that cannot be played (diagnostics) -/
def firstBadSan (p : Pos) : List String → Nat → Option Nat
  | [], _ => none
  | s :: rest, i =>
    match resolveSan p s with
    | some m => if legalB p m then firstBadSan (fixupEP (apply p m)) rest (i + 1) else some i
    | none => some i

/-- the SAN game is a legal game from the initial position ending in `target` -/
def checkSanGame (sans : List String) (target : Pos) : Bool :=
  match playSan startPos sans with
  | some q => sameDraw q target
  | none => false

end PG
