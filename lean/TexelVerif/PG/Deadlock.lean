import TexelVerif.Chess.TexelGenGivesCastle
import TexelVerif.PG.Lemmas
/-!
# `ProofGame::computeDeadlockedPieces` (proofgame.cpp:1582-1650): executable model and soundness

The C++ function is called when no capture can happen any more between the current position and the goal.  Starting
from `deadlocked = occupied & ~blocked` it repeatedly removes every piece that "can move" when all blocked and
all still-deadlocked squares are treated as permanent obstacles, until nothing changes; the pieces left are added to
`blocked`, and the position is rejected when one of them differs from the goal.

* `canMove` — the lambda `pieceCanMove` (king: a free neighbour square not attacked by an enemy pawn *that is itself an
  obstacle*; sliders: a free neighbour square in one of their directions; knight: a free jump square; pawn: the square
  in front is free).
* `sweepStep` / `iter` — the two nested loops (inner: squares from a1 to h8, `deadlocked` updated in place; outer: until
  `modified` stays false).
* `Frozen`-invariant and `deadlock_step`: a legal, non-capturing move in a position in which every obstacle square still
  holds its original piece cannot move a piece of a set `D` satisfying the fixed-point condition, nor (by castling) its rook.
* `deadlock_sound`: along every capture-free legal line in which the `blocked` squares keep their contents, every
  square of the computed set keeps its piece; `deadlock_reject_sound`: hence a `false` verdict never hits a goal that is
  reachable that way.
-/
namespace PG
open Chess Chess.Texel

def stepSq (s : Sq) (d : Int × Int) : Option Sq := mkSq? ((s.x : Int) + d.1) ((s.y : Int) + d.2)

def knightDirs : List (Int × Int) := [(1,2), (2,1), (-1,2), (-2,1), (1,-2), (2,-1), (-1,-2), (-2,-1)]

/-- `q` is attacked by a pawn of the side opposite to `w` that stands on an obstacle square -/
def pawnGuard (b : Board) (occ : Sq → Bool) (w : Bool) (q : Sq) : Bool :=
  allSq.any fun r => occ r && b[r] == (if w then BPAWN else WPAWN) && attacks b r q

def freeDir (s : Sq) (occ : Sq → Bool) (d : Int × Int) : Bool :=
  match stepSq s d with
  | some q => !occ q
  | none => false

/-- the lambda `pieceCanMove(sq, occ)`; `occ` never contains `s` itself -/
def canMove (b : Board) (s : Sq) (occ : Sq → Bool) : Bool :=
  let pc := b[s]
  match kind pc with
  | 1 => dirs8.any fun d =>
           match stepSq s d with
           | some q => !occ q && !pawnGuard b occ (isWhite pc) q
           | none => false
  | 2 => dirs8.any (freeDir s occ)
  | 3 => rookDirs.any (freeDir s occ)
  | 4 => bishDirs.any (freeDir s occ)
  | 5 => knightDirs.any (freeDir s occ)
  | 6 => freeDir s occ (0, if isWhite pc then 1 else -1)
  | _ => true

/-- obstacles seen by the piece on `s`: blocked and still-deadlocked squares other than `s` -/
def obst (B D : Sq → Bool) (s : Sq) : Sq → Bool := fun q => (B q || D q) && q != s

/-- one iteration of the inner `while (tmp)` loop -/
def sweepStep (b : Board) (B : Sq → Bool) (st : (Sq → Bool) × Bool) (s : Sq) : (Sq → Bool) × Bool :=
  if st.1 s && canMove b s (obst B st.1 s) then (fun q => st.1 q && q != s, true) else st

def sweep (b : Board) (B D : Sq → Bool) : (Sq → Bool) × Bool := allSq.foldl (sweepStep b B) (D, false)

/-- the outer `while (true)` loop; `none` when the fuel is used up (64 removals at most can happen) -/
def iter (b : Board) (B : Sq → Bool) : Nat → (Sq → Bool) → Option (Sq → Bool)
  | 0, _ => none
  | n + 1, D => let r := sweep b B D; if r.2 then iter b B n r.1 else some r.1

/-- `computeDeadlockedPieces` after its early return: the final deadlocked set and the verdict -/
def deadlocked (b : Board) (B : Sq → Bool) : Option (Sq → Bool) :=
  iter b B 66 (fun q => b[q] != 0 && !B q)

def verdict (b goal : Board) (D : Sq → Bool) : Bool := allSq.all fun s => !D s || b[s] == goal[s]

/-! ## the loops end in a fixed point inside the start set -/

def FixPt (b : Board) (B D : Sq → Bool) : Prop := ∀ s, D s = true → canMove b s (obst B D s) = false

theorem sweepStep_sub (b : Board) (B : Sq → Bool) (st : (Sq → Bool) × Bool) (s q : Sq)
    (h : (sweepStep b B st s).1 q = true) : st.1 q = true := by
  unfold sweepStep at h
  split at h
  · simp only [Bool.and_eq_true] at h; exact h.1
  · exact h

theorem sweepStep_flag (b : Board) (B : Sq → Bool) (st : (Sq → Bool) × Bool) (s : Sq) (h : st.2 = true) :
    (sweepStep b B st s).2 = true := by
  unfold sweepStep; split
  · rfl
  · exact h

theorem fold_flag (b : Board) (B : Sq → Bool) (l : List Sq) (st : (Sq → Bool) × Bool) (h : st.2 = true) :
    (l.foldl (sweepStep b B) st).2 = true := by
  induction l generalizing st with
  | nil => exact h
  | cons s l ih => exact ih _ (sweepStep_flag b B st s h)

theorem fold_sub (b : Board) (B : Sq → Bool) (l : List Sq) (st : (Sq → Bool) × Bool) (q : Sq)
    (h : (l.foldl (sweepStep b B) st).1 q = true) : st.1 q = true := by
  induction l generalizing st with
  | nil => exact h
  | cons s l ih => exact sweepStep_sub b B st s q (ih _ h)

/-- a sweep that ends with `modified = false` changed nothing and found no movable piece among the squares visited -/
theorem fold_quiet (b : Board) (B : Sq → Bool) (l : List Sq) (st : (Sq → Bool) × Bool)
    (h : (l.foldl (sweepStep b B) st).2 = false) :
    l.foldl (sweepStep b B) st = st ∧ ∀ s ∈ l, st.1 s = true → canMove b s (obst B st.1 s) = false := by
  induction l generalizing st with
  | nil => exact ⟨rfl, by simp⟩
  | cons s l ih =>
    simp only [List.foldl_cons] at h ⊢
    by_cases hc : (st.1 s && canMove b s (obst B st.1 s)) = true
    · have : (sweepStep b B st s).2 = true := by unfold sweepStep; rw [if_pos hc]
      rw [fold_flag b B l _ this] at h; cases h
    · have e : sweepStep b B st s = st := by unfold sweepStep; rw [if_neg hc]
      rw [e] at h ⊢
      obtain ⟨h1, h2⟩ := ih st h
      refine ⟨h1, ?_⟩
      intro q hq hD
      rcases List.mem_cons.1 hq with rfl | hq
      · simp only [Bool.and_eq_true, not_and, Bool.not_eq_true] at hc; exact hc hD
      · exact h2 q hq hD

theorem sweep_sub (b : Board) (B D : Sq → Bool) (q : Sq) (h : (sweep b B D).1 q = true) : D q = true := by
  unfold sweep at h
  exact fold_sub b B allSq (D, false) q h

theorem sweep_quiet (b : Board) (B D : Sq → Bool) (h : (sweep b B D).2 = false) : (sweep b B D).1 = D ∧ FixPt b B D := by
  unfold sweep at h ⊢
  obtain ⟨h1, h2⟩ := fold_quiet b B allSq (D, false) h
  refine ⟨by rw [h1], fun s hs => h2 s (List.mem_finRange s) hs⟩

theorem iter_spec (b : Board) (B : Sq → Bool) (n : Nat) (D D' : Sq → Bool) (h : iter b B n D = some D') :
    FixPt b B D' ∧ ∀ q, D' q = true → D q = true := by
  induction n generalizing D with
  | zero => cases h
  | succ n ih =>
    rw [iter] at h
    by_cases hf : (sweep b B D).2 = true
    · simp only [hf, if_true] at h
      obtain ⟨h1, h2⟩ := ih _ h
      exact ⟨h1, fun q hq => sweep_sub b B D q (h2 q hq)⟩
    · simp only [hf, Bool.false_eq_true, if_false, Option.some.injEq] at h
      obtain ⟨e, hfix⟩ := sweep_quiet b B D (by simpa using hf)
      rw [e] at h; subst h
      exact ⟨hfix, fun _ h => h⟩

theorem deadlocked_spec (b : Board) (B D : Sq → Bool) (h : deadlocked b B = some D) :
    FixPt b B D ∧ ∀ q, D q = true → b[q] ≠ 0 := by
  obtain ⟨h1, h2⟩ := iter_spec b B _ _ _ h
  refine ⟨h1, fun q hq => ?_⟩
  have := h2 q hq
  simp only [Bool.and_eq_true, bne_iff_ne, ne_eq] at this
  exact this.1

/-! ## a legal non-capturing move needs what `canMove` tests -/

/-- every obstacle square holds, on board `b`, the same non-empty piece as on the reference board `b0` -/
def Occ (occ : Sq → Bool) (b0 b : Board) : Prop := ∀ q, occ q = true → b[q] = b0[q] ∧ b0[q] ≠ 0

theorem Occ.free {occ : Sq → Bool} {b0 b : Board} (h : Occ occ b0 b) (q : Sq) (hq : b[q] = 0) : occ q = false := by
  cases ho : occ q with
  | false => rfl
  | true => obtain ⟨h1, h2⟩ := h q ho; rw [hq] at h1; exact absurd h1.symm h2

theorem stepSq_dxy (f t : Sq) : stepSq f (dxy f t) = some t := by
  unfold stepSq dxy
  rw [mkSq?_eq_some]
  constructor <;> simp only <;> omega

theorem dxy_ne (f t : Sq) (h : f ≠ t) : ¬ ((dxy f t).1 = 0 ∧ (dxy f t).2 = 0) := by
  intro ⟨h1, h2⟩
  have := stepSq_dxy f t
  unfold stepSq at this
  rw [h1, h2] at this
  simp only [Int.add_zero] at this
  rw [mkSq?_xy] at this
  exact h (Option.some.inj this)

theorem ray_first (b : Board) (s t : Sq) (d : Int × Int) (h : rayReach b s t d.1 d.2 = true) :
    ∃ q, stepSq s d = some q ∧ (q = t ∨ b[q] = 0) := by
  unfold rayReach at h
  rw [rayGo] at h
  unfold stepSq
  split at h
  · cases h
  · next q hq =>
    refine ⟨q, hq, ?_⟩
    by_cases e : q = t
    · exact Or.inl e
    · right
      have e' : (q == t) = false := by simpa using e
      rw [e'] at h
      simp only [Bool.false_eq_true, if_false] at h
      split at h
      · cases h
      · next hb => simpa using hb

theorem any_ray_free (b0 b : Board) (occ : Sq → Bool) (hO : Occ occ b0 b) (s t : Sq) (ht : b[t] = 0) (ds : List (Int × Int))
    (h : (ds.any fun dd => rayReach b s t dd.1 dd.2) = true) : ds.any (freeDir s occ) = true := by
  rw [List.any_eq_true] at h ⊢
  obtain ⟨d, hd, hr⟩ := h
  obtain ⟨q, hq, hqq⟩ := ray_first b s t d hr
  refine ⟨d, hd, ?_⟩
  unfold freeDir
  rw [hq]
  have : b[q] = 0 := by
    rcases hqq with e | e
    · rw [e]; exact ht
    · exact e
  have hf := hO.free q this
  simp only [hf, Bool.not_false]

theorem pawn_attacks_congr (b b' : Board) (r t : Sq) (h : b'[r] = b[r]) (hk : kind b[r] = 6) :
    attacks b' r t = attacks b r t := by
  unfold attacks
  simp only [h, hk]

theorem noncapture_facts (p : Pos) (m : Mv) (h : isCaptureMv p m = false) :
    p.b[m.t] = 0 ∧ ¬ (kind p.b[m.f] = 6 ∧ p.ep = some m.t ∧ m.f.x ≠ m.t.x) := by
  unfold isCaptureMv at h
  simp only [Bool.or_eq_false_iff, bne_eq_false_iff_eq, Bool.and_eq_false_imp, Bool.and_eq_true, beq_iff_eq,
    and_imp] at h
  refine ⟨h.1, ?_⟩
  rintro ⟨h1, h2, h3⟩
  exact h3 (h.2 h1 h2)

/-- the pawn case: the square in front is empty -/
theorem pawn_front (p : Pos) (m : Mv) (hp : pseudo p m = true) (hk : kind p.b[m.f] = 6) (hq : isCaptureMv p m = false) :
    ∃ q, stepSq m.f (0, if p.wtm then 1 else -1) = some q ∧ p.b[q] = 0 := by
  obtain ⟨ht, hne⟩ := noncapture_facts p m hq
  unfold pseudo at hp
  simp only [Pos.at, Bool.and_eq_true] at hp
  obtain ⟨_, h2⟩ := hp
  simp only [hk] at h2
  simp only [Bool.and_eq_true, Bool.or_eq_true, beq_iff_eq] at h2
  obtain ⟨_, h3⟩ := h2
  have hs := stepSq_dxy m.f m.t
  rcases h3 with (⟨⟨h4, h5⟩, _⟩ | ⟨⟨⟨⟨h4, h5⟩, _⟩, _⟩, h6⟩) | ⟨⟨h4, h5⟩, h6⟩
  · refine ⟨m.t, ?_, ht⟩
    rw [← hs]
    have : dxy m.f m.t = ((dxy m.f m.t).1, (dxy m.f m.t).2) := rfl
    rw [this, h4, h5]
  · unfold stepSq
    simp only [Int.add_zero]
    split at h6
    · next q hq' => exact ⟨q, hq', by simpa using h6⟩
    · cases h6
  · exfalso
    rcases h6 with h6 | h6
    · simp only [bne_iff_ne, ne_eq] at h6; exact h6 ht
    · apply hne
      refine ⟨hk, h6, ?_⟩
      unfold dxy at h4
      simp only at h4
      intro e; rw [e] at h4; simp at h4

theorem other_attacks (p : Pos) (m : Mv) (hp : pseudo p m = true) (h6 : kind p.b[m.f] ≠ 6) (h1 : kind p.b[m.f] ≠ 1) :
    attacks p.b m.f m.t = true := by
  unfold pseudo at hp
  simp only [Pos.at, Bool.and_eq_true] at hp
  obtain ⟨_, h2⟩ := hp
  exact h2.2

theorem kind_of_own_fin : ∀ (w : Bool) (n : Fin 256), own w (UInt8.ofNat n.val) = true →
    (kind (UInt8.ofNat n.val) = 1 ∨ kind (UInt8.ofNat n.val) = 2 ∨ kind (UInt8.ofNat n.val) = 3 ∨
     kind (UInt8.ofNat n.val) = 4 ∨ kind (UInt8.ofNat n.val) = 5 ∨ kind (UInt8.ofNat n.val) = 6) := by
  decide +kernel

theorem kind_of_own (w : Bool) (pc : Pc) (h : own w pc = true) :
    kind pc = 1 ∨ kind pc = 2 ∨ kind pc = 3 ∨ kind pc = 4 ∨ kind pc = 5 ∨ kind pc = 6 := by
  have := kind_of_own_fin w ⟨pc.toNat, pc.toNat_lt⟩
  simp only [UInt8.ofNat_toNat] at this
  exact this h

theorem knight_dir (d : Int × Int)
    (h : (d.1.natAbs = 1 ∧ d.2.natAbs = 2) ∨ (d.1.natAbs = 2 ∧ d.2.natAbs = 1)) : d ∈ knightDirs := by
  obtain ⟨a, b⟩ := d
  simp only at h
  have : (a = 1 ∨ a = -1) ∧ (b = 2 ∨ b = -2) ∨ (a = 2 ∨ a = -2) ∧ (b = 1 ∨ b = -1) := by omega
  rcases this with ⟨rfl | rfl, rfl | rfl⟩ | ⟨rfl | rfl, rfl | rfl⟩ <;> simp [knightDirs]

theorem king_dir (d : Int × Int) (h1 : d.1.natAbs ≤ 1) (h2 : d.2.natAbs ≤ 1) (hne : ¬ (d.1 = 0 ∧ d.2 = 0)) : d ∈ dirs8 := by
  obtain ⟨a, b⟩ := d
  simp only at h1 h2 hne
  have ha : a = -1 ∨ a = 0 ∨ a = 1 := by omega
  have hb : b = -1 ∨ b = 0 ∨ b = 1 := by omega
  rcases ha with rfl | rfl | rfl <;> rcases hb with rfl | rfl | rfl <;> simp [dirs8, rookDirs, bishDirs] at hne ⊢

theorem mover_free_nonking (b0 : Board) (occ : Sq → Bool) (p : Pos) (m : Mv) (hO : Occ occ b0 p.b)
    (hf : p.b[m.f] = b0[m.f]) (hp : pseudo p m = true) (hq : isCaptureMv p m = false) (hk1 : kind p.b[m.f] ≠ 1) :
    canMove b0 m.f occ = true := by
  have ht := (noncapture_facts p m hq).1
  have hown := pseudo_own_f p m hp
  unfold canMove
  rw [← hf]
  rcases kind_of_own _ _ hown with hk | hk | hk | hk | hk | hk
  · exact absurd hk hk1
  · have ha := other_attacks p m hp (by rw [hk]; decide) hk1
    unfold attacks at ha
    simp only [hk] at ha ⊢
    exact any_ray_free b0 p.b occ hO m.f m.t ht _ ha
  · have ha := other_attacks p m hp (by rw [hk]; decide) hk1
    unfold attacks at ha
    simp only [hk] at ha ⊢
    exact any_ray_free b0 p.b occ hO m.f m.t ht _ ha
  · have ha := other_attacks p m hp (by rw [hk]; decide) hk1
    unfold attacks at ha
    simp only [hk] at ha ⊢
    exact any_ray_free b0 p.b occ hO m.f m.t ht _ ha
  · have ha := other_attacks p m hp (by rw [hk]; decide) hk1
    unfold attacks at ha
    simp only [hk, Bool.or_eq_true, Bool.and_eq_true, beq_iff_eq] at ha ⊢
    rw [List.any_eq_true]
    refine ⟨dxy m.f m.t, knight_dir _ ha, ?_⟩
    unfold freeDir
    rw [stepSq_dxy]
    simp only [hO.free m.t ht, Bool.not_false]
  · obtain ⟨q, hq1, hq2⟩ := pawn_front p m hp hk hq
    simp only [hk]
    rw [isWhite_of_own _ _ hown]
    unfold freeDir
    rw [hq1]
    simp only [hO.free q hq2, Bool.not_false]

theorem enemy_pawn_facts (w : Bool) : own (!w) (if w then BPAWN else WPAWN) = true ∧ kind (if w then BPAWN else WPAWN) = 6 := by
  cases w <;> decide

/-- an obstacle pawn that guards `q` on the reference board attacks `q` on every board that still has it -/
theorem guard_attacked (b0 b' : Board) (occ : Sq → Bool) (w : Bool) (q : Sq)
    (hb' : ∀ r, occ r = true → b'[r] = b0[r]) (hg : pawnGuard b0 occ w q = true) : attackedBy b' (!w) q = true := by
  unfold pawnGuard at hg
  rw [List.any_eq_true] at hg
  obtain ⟨r, hr, h⟩ := hg
  simp only [Bool.and_eq_true, beq_iff_eq] at h
  obtain ⟨⟨ho, hpc⟩, ha⟩ := h
  unfold attackedBy
  rw [List.any_eq_true]
  refine ⟨r, hr, ?_⟩
  have e := hb' r ho
  have hk6 : kind b0[r] = 6 := by rw [hpc]; exact (enemy_pawn_facts w).2
  rw [pawn_attacks_congr b0 b' r q e hk6, ha, e, hpc, (enemy_pawn_facts w).1]
  rfl

theorem castle_pass_safe (p : Pos) (short : Bool) (h : castleOk p short = true) :
    attackedBy p.b (!p.wtm) ⟨(if short then (if p.wtm then 4 else 60) + 1 else (if p.wtm then 4 else 60) - 1) % 64,
      Nat.mod_lt _ (by decide)⟩ = false := by
  unfold castleOk at h
  cases short <;> simp only [Bool.and_eq_true, Bool.not_eq_true', if_true, if_false, Bool.false_eq_true] at h ⊢
  · exact h.2.2
  · exact h.2.2

theorem mover_free_king (b0 : Board) (occ : Sq → Bool) (p : Pos) (m : Mv) (hO : Occ occ b0 p.b)
    (hf : p.b[m.f] = b0[m.f]) (hof : occ m.f = false) (hp : pseudo p m = true)
    (hsafe : Chess.inCheck (apply p m).b p.wtm = false) (hq : isCaptureMv p m = false)
    (k : Sq) (hk : KingAt p.b p.wtm k) (hk1 : kind p.b[m.f] = 1) : canMove b0 m.f occ = true := by
  obtain ⟨ht, _⟩ := noncapture_facts p m hq
  have hown := pseudo_own_f p m hp
  have hocc : ∀ r, occ r = true → p.b[r] = b0[r] := fun r hr => (hO r hr).1
  obtain ⟨hpr, hsh⟩ := pseudo_king p m hp hk1
  unfold canMove
  rw [← hf]
  simp only [hk1]
  rw [isWhite_of_own _ _ hown, List.any_eq_true]
  rcases hsh with ⟨h1, h2⟩ | ⟨h2, h1, hhome, hc⟩ | ⟨h2, h1, hhome, hc⟩
  · -- an ordinary king step
    refine ⟨dxy m.f m.t, king_dir _ h1 h2 (dxy_ne _ _ (pseudo_ne p m hp)), ?_⟩
    rw [stepSq_dxy]
    simp only [hO.free m.t ht, Bool.not_false, Bool.true_and, Bool.not_eq_true']
    cases hg : pawnGuard b0 occ p.wtm m.t with
    | false => rfl
    | true =>
      exfalso
      have hE : PosImpl.isEpS p m = false := by unfold PosImpl.isEpS; rw [getP_sq, hk1]; rfl
      have hC : ¬ (kind p.b[m.f] = 1 ∧ (m.t.val = m.f.val + 2 ∨ m.t.val + 2 = m.f.val)) := by
        rintro ⟨_, hh⟩
        unfold dxy at h1 h2
        simp only [Sq.x, Sq.y] at h1 h2
        have := m.f.isLt; have := m.t.isLt
        omega
      have hb := apply_b_simple p m hE hC
      have hb' : ∀ r, occ r = true → (apply p m).b[r] = b0[r] := by
        intro r hr
        obtain ⟨e1, e2⟩ := hO r hr
        rw [hb r, if_neg, if_neg, e1]
        · intro e; rw [e, hof] at hr; cases hr
        · intro e; subst e; rw [ht] at e1; exact e2 e1.symm
      have hatt := guard_attacked b0 (apply p m).b occ p.wtm m.t hb' hg
      have hk' := own_king_after p k hk m hp hk1
      unfold Chess.inCheck at hsafe
      rw [kingSq_of_kingAt _ _ _ hk'] at hsafe
      simp only at hsafe
      rw [hatt] at hsafe; cases hsafe
  · -- castling short: the king passes over the square next to it
    have hsafe1 := castle_pass_safe p true hc
    obtain ⟨_, he1, _, _⟩ := castleOk_short p hc
    have hlt : m.f.val + 1 < 64 := by rw [hhome]; split <;> decide
    have hq1 : stepSq m.f (1, 0) = some ⟨m.f.val + 1, hlt⟩ := by
      unfold stepSq
      rw [mkSq?_eq_some]
      simp only [Sq.x, Sq.y, Int.add_zero]
      have : m.f.val = 4 ∨ m.f.val = 60 := by rw [hhome]; split <;> simp
      constructor <;> omega
    refine ⟨(1, 0), by simp [dirs8, rookDirs], ?_⟩
    rw [hq1]
    have hempty : p.b[(⟨m.f.val + 1, hlt⟩ : Sq)] = 0 := by
      have h := getD_eq p.b (m.f.val + 1) hlt
      rw [← hhome] at he1
      simp only [Fin.getElem_fin]
      rw [← h]; exact he1
    simp only [hO.free _ hempty, Bool.not_false, Bool.true_and, Bool.not_eq_true']
    cases hg : pawnGuard b0 occ p.wtm ⟨m.f.val + 1, hlt⟩ with
    | false => rfl
    | true =>
      exfalso
      have hatt := guard_attacked b0 p.b occ p.wtm _ hocc hg
      have e : (⟨((if p.wtm then 4 else 60) + 1) % 64, Nat.mod_lt _ (by decide)⟩ : Sq) = ⟨m.f.val + 1, hlt⟩ := by
        apply Fin.ext
        simp only [hhome]
        split <;> rfl
      simp only [if_true] at hsafe1
      rw [e, hatt] at hsafe1; cases hsafe1
  · -- castling long
    have hsafe1 := castle_pass_safe p false hc
    obtain ⟨_, he1, _, _, _⟩ := castleOk_long p hc
    have hge : 1 ≤ m.f.val := by rw [hhome]; split <;> decide
    have hlt : m.f.val - 1 < 64 := by have := m.f.isLt; omega
    have hq1 : stepSq m.f (-1, 0) = some ⟨m.f.val - 1, hlt⟩ := by
      unfold stepSq
      rw [mkSq?_eq_some]
      simp only [Sq.x, Sq.y, Int.add_zero]
      have : m.f.val = 4 ∨ m.f.val = 60 := by rw [hhome]; split <;> simp
      constructor <;> omega
    refine ⟨(-1, 0), by simp [dirs8, rookDirs], ?_⟩
    rw [hq1]
    have hempty : p.b[(⟨m.f.val - 1, hlt⟩ : Sq)] = 0 := by
      have h := getD_eq p.b (m.f.val - 1) hlt
      rw [← hhome] at he1
      simp only [Fin.getElem_fin]
      rw [← h]; exact he1
    simp only [hO.free _ hempty, Bool.not_false, Bool.true_and, Bool.not_eq_true']
    cases hg : pawnGuard b0 occ p.wtm ⟨m.f.val - 1, hlt⟩ with
    | false => rfl
    | true =>
      exfalso
      have hatt := guard_attacked b0 p.b occ p.wtm _ hocc hg
      have e : (⟨((if p.wtm then 4 else 60) - 1) % 64, Nat.mod_lt _ (by decide)⟩ : Sq) = ⟨m.f.val - 1, hlt⟩ := by
        apply Fin.ext
        simp only [hhome]
        split <;> rfl
      simp only [if_false, Bool.false_eq_true] at hsafe1
      rw [e, hatt] at hsafe1; cases hsafe1

theorem rook_free (b0 b : Board) (occ : Sq → Bool) (hO : Occ occ b0 b) (s q : Sq) (d : Int × Int) (hd : d ∈ rookDirs)
    (hst : stepSq s d = some q) (hq : b[q] = 0) (hs : kind b0[s] = 3) : canMove b0 s occ = true := by
  unfold canMove
  simp only [hs]
  rw [List.any_eq_true]
  refine ⟨d, hd, ?_⟩
  unfold freeDir
  rw [hst]
  simp only [hO.free q hq, Bool.not_false]

theorem mover_free (b0 : Board) (occ : Sq → Bool) (p : Pos) (m : Mv) (hO : Occ occ b0 p.b)
    (hf : p.b[m.f] = b0[m.f]) (hof : occ m.f = false) (hl : legalB p m = true) (hq : isCaptureMv p m = false)
    (k : Sq) (hk : KingAt p.b p.wtm k) : canMove b0 m.f occ = true := by
  unfold legalB at hl
  simp only [Bool.and_eq_true, Bool.not_eq_true'] at hl
  by_cases hk1 : kind p.b[m.f] = 1
  · exact mover_free_king b0 occ p m hO hf hof hl.1 hl.2 hq k hk hk1
  · exact mover_free_nonking b0 occ p m hO hf hl.1 hq hk1

theorem isEpS_false (p : Pos) (m : Mv) (hq : isCaptureMv p m = false) : PosImpl.isEpS p m = false := by
  obtain ⟨_, hne⟩ := noncapture_facts p m hq
  cases h : PosImpl.isEpS p m with
  | false => rfl
  | true =>
    exfalso
    unfold PosImpl.isEpS at h
    rw [getP_sq] at h
    simp only [Bool.and_eq_true, beq_iff_eq, bne_iff_ne, ne_eq] at h
    exact hne ⟨h.1.1.1, h.1.1.2, h.2⟩

theorem rookOf_kind (w : Bool) : kind (rookOf w) = 3 := by cases w <;> decide

/-- **one move**: a legal non-capturing move that leaves the `B` squares alone leaves the `D` squares alone as well -/
theorem deadlock_step (b0 : Board) (B D : Sq → Bool) (hfix : FixPt b0 B D)
    (hne : ∀ s, (B s || D s) = true → b0[s] ≠ 0)
    (p : Pos) (hfr : ∀ s, (B s || D s) = true → p.b[s] = b0[s])
    (k : Sq) (hk : KingAt p.b p.wtm k)
    (m : Mv) (hl : legalB p m = true) (hq : isCaptureMv p m = false)
    (hB : ∀ s, B s = true → (apply p m).b[s] = p.b[s]) :
    ∀ s, (B s || D s) = true → (apply p m).b[s] = b0[s] := by
  intro s hs
  by_cases hBs : B s = true
  · rw [hB s hBs]; exact hfr s hs
  have hDs : D s = true := by simpa [hBs] using hs
  have hO : ∀ x, Occ (obst B D x) b0 p.b := by
    intro x q hq'
    unfold obst at hq'
    simp only [Bool.and_eq_true] at hq'
    exact ⟨hfr q hq'.1, hne q hq'.1⟩
  have hself : ∀ x, obst B D x x = false := by intro x; simp [obst]
  have hp : pseudo p m = true := by unfold legalB at hl; simp only [Bool.and_eq_true] at hl; exact hl.1
  obtain ⟨ht, _⟩ := noncapture_facts p m hq
  have hsne : p.b[s] ≠ 0 := by rw [hfr s hs]; exact hne s hs
  have hst : s ≠ m.t := by intro e; rw [e] at hsne; exact hsne ht
  have hsf : s ≠ m.f := by
    intro e
    subst e
    have := mover_free b0 (obst B D m.f) p m (hO _) (hfr _ hs) (hself _) hl hq k hk
    rw [hfix _ hDs] at this; cases this
  have hE := isEpS_false p m hq
  by_cases hC : kind p.b[m.f] = 1 ∧ (m.t.val = m.f.val + 2 ∨ m.t.val + 2 = m.f.val)
  · obtain ⟨hk1, hside⟩ := hC
    obtain ⟨hpr, hsh⟩ := pseudo_king p m hp hk1
    have hfl := m.f.isLt
    have htl := m.t.isLt
    have hsl := s.isLt
    rcases hside with htf | htf
    · -- short castling
      have hcast : m.f.val = (if p.wtm then 4 else 60) ∧ castleOk p true = true := by
        rcases hsh with ⟨h1, h2⟩ | ⟨_, _, h3, h4⟩ | ⟨_, h1, _, _⟩
        · exfalso; unfold dxy at h1 h2; simp only [Sq.x, Sq.y] at h1 h2; omega
        · exact ⟨h3, h4⟩
        · exfalso; unfold dxy at h1; simp only [Sq.x] at h1; omega
      obtain ⟨hhome, hc⟩ := hcast
      obtain ⟨_, he1, he2, he3⟩ := castleOk_short p hc
      rw [← hhome] at he1 he2 he3
      have hf4 : m.f.val = 4 ∨ m.f.val = 60 := by rw [hhome]; split <;> simp
      rw [getD_eq _ _ (by omega)] at he1 he2 he3
      rw [apply_b_short p m hk1 hpr htf s]
      have n1 : ¬ m.f.val + 1 = s.val := by
        intro e; apply hsne; have : s = ⟨m.f.val + 1, by omega⟩ := Fin.ext e.symm
        rw [this]; exact he1
      have n3 : ¬ m.f.val + 3 = s.val := by
        intro e
        have es : s = ⟨m.f.val + 3, by omega⟩ := Fin.ext e.symm
        have hrook : kind b0[s] = 3 := by rw [← hfr s hs, es]; show kind p.b[m.f.val + 3] = 3; rw [he3]; exact rookOf_kind _
        have hq2 : stepSq s (-1, 0) = some ⟨m.f.val + 2, by omega⟩ := by
          unfold stepSq; rw [mkSq?_eq_some]; simp only [Sq.x, Sq.y, Int.add_zero]; constructor <;> omega
        have := rook_free b0 p.b (obst B D s) (hO s) s _ (-1, 0) (by simp [rookDirs]) hq2 he2 hrook
        rw [hfix s hDs] at this; cases this
      rw [if_neg n1, if_neg n3, if_neg (fun e => hst (Fin.ext e.symm)), if_neg (fun e => hsf (Fin.ext e.symm))]
      exact hfr s hs
    · -- long castling
      have hcast : m.f.val = (if p.wtm then 4 else 60) ∧ castleOk p false = true := by
        rcases hsh with ⟨h1, h2⟩ | ⟨_, h1, _, _⟩ | ⟨_, _, h3, h4⟩
        · exfalso; unfold dxy at h1 h2; simp only [Sq.x, Sq.y] at h1 h2; omega
        · exfalso; unfold dxy at h1; simp only [Sq.x] at h1; omega
        · exact ⟨h3, h4⟩
      obtain ⟨hhome, hc⟩ := hcast
      obtain ⟨_, he1, he2, he3, he4⟩ := castleOk_long p hc
      rw [← hhome] at he1 he2 he3 he4
      have hf4 : m.f.val = 4 ∨ m.f.val = 60 := by rw [hhome]; split <;> simp
      rw [getD_eq _ _ (by omega)] at he1 he2 he3 he4
      rw [apply_b_long p m hk1 hpr htf s]
      have n1 : ¬ m.f.val - 1 = s.val := by
        intro e; apply hsne; have : s = ⟨m.f.val - 1, by omega⟩ := Fin.ext e.symm
        rw [this]; exact he1
      have n4 : ¬ m.f.val - 4 = s.val := by
        intro e
        have es : s = ⟨m.f.val - 4, by omega⟩ := Fin.ext e.symm
        have hrook : kind b0[s] = 3 := by rw [← hfr s hs, es]; show kind p.b[m.f.val - 4] = 3; rw [he4]; exact rookOf_kind _
        have hq2 : stepSq s (1, 0) = some ⟨m.f.val - 3, by omega⟩ := by
          unfold stepSq; rw [mkSq?_eq_some]; simp only [Sq.x, Sq.y, Int.add_zero]; constructor <;> omega
        have := rook_free b0 p.b (obst B D s) (hO s) s _ (1, 0) (by simp [rookDirs]) hq2 he3 hrook
        rw [hfix s hDs] at this; cases this
      rw [if_neg n1, if_neg n4, if_neg (fun e => hst (Fin.ext e.symm)), if_neg (fun e => hsf (Fin.ext e.symm))]
      exact hfr s hs
  · rw [apply_b_simple p m hE hC s, if_neg hst, if_neg hsf]
    exact hfr s hs

/-! ## every capture-free line -/

/-- a line of legal, non-capturing moves during which the `B` squares keep their contents (what `computeBlocked`
    established before the call — no theorem here) and the side to move always has exactly one king -/
inductive QuietLine (B : Sq → Bool) : Pos → List Mv → Pos → Prop
  | nil (p) : QuietLine B p [] p
  | cons (p m ms q) : legalB p m = true → isCaptureMv p m = false → (∃ k, KingAt p.b p.wtm k) →
      (∀ s, B s = true → (apply p m).b[s] = p.b[s]) → QuietLine B (fixupEP (apply p m)) ms q → QuietLine B p (m :: ms) q

theorem QuietLine.playable {B : Sq → Bool} {p q : Pos} {ms : List Mv} (h : QuietLine B p ms q) : Playable p ms q := by
  induction h with
  | nil p => exact .nil p
  | cons p m ms q hl _ _ _ _ ih => exact .cons p m ms q hl ih

/-- the invariant along a whole line, relative to the board `b0` on which the fixed point was computed -/
theorem deadlock_line (b0 : Board) (B D : Sq → Bool) (hfix : FixPt b0 B D)
    (hne : ∀ s, (B s || D s) = true → b0[s] ≠ 0) (p q : Pos) (ms : List Mv) (h : QuietLine B p ms q)
    (hfr : ∀ s, (B s || D s) = true → p.b[s] = b0[s]) : ∀ s, (B s || D s) = true → q.b[s] = b0[s] := by
  induction h with
  | nil p => exact hfr
  | cons p m ms q hl hq hk hB _ ih =>
    obtain ⟨k, hk⟩ := hk
    apply ih
    rw [fixupEP_b]
    exact deadlock_step b0 B D hfix hne p hfr k hk m hl hq hB

/-- **`computeDeadlockedPieces` is sound**: whatever set the loops return, along every capture-free legal line from
    `p` in which the blocked squares keep their contents, every blocked or deadlocked square still holds the piece it
    holds in `p` -/
theorem deadlock_sound (p q : Pos) (B D : Sq → Bool) (ms : List Mv) (hB : ∀ s, B s = true → p.b[s] ≠ 0)
    (hD : deadlocked p.b B = some D) (h : QuietLine B p ms q) : ∀ s, (B s || D s) = true → q.b[s] = p.b[s] := by
  obtain ⟨hfix, hocc⟩ := deadlocked_spec p.b B D hD
  refine deadlock_line p.b B D hfix ?_ p q ms h (fun _ _ => rfl)
  intro s hs
  rcases Bool.or_eq_true _ _ ▸ hs with h1 | h1
  · exact hB s h1
  · exact hocc s h1

/-- a `false` verdict (a deadlocked piece differs from the goal) is never given for a goal reachable that way -/
theorem deadlock_reject_sound (p g : Pos) (B D : Sq → Bool) (ms : List Mv) (hB : ∀ s, B s = true → p.b[s] ≠ 0)
    (hD : deadlocked p.b B = some D) (h : QuietLine B p ms g) : verdict p.b g.b D = true := by
  unfold verdict
  rw [List.all_eq_true]
  intro s _
  cases hDs : D s with
  | false => rfl
  | true =>
    have := deadlock_sound p g B D ms hB hD h s (by simp [hDs])
    simp [this]

end PG
