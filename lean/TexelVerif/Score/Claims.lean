/-! Prototype: semantics of mate claims and the basic combination rules of the search (C04). -/
namespace Cl

structure Game (P : Type) where
  moves : P → List P          -- positions after each legal move
  inCheck : P → Bool

variable {P : Type} (G : Game P)

def mated (p : P) : Bool := (G.moves p).isEmpty && G.inCheck p

/-- (loseWithin k p, winWithin k p) in plies: the mate is on the board after at most k plies -/
def within : Nat → P → Bool × Bool
  | 0, p => (mated G p, false)
  | k+1, p =>
    (mated G p || (!(G.moves p).isEmpty && (G.moves p).all (fun q => (within k q).2)),
     (G.moves p).any (fun q => (within k q).1))

def loseW (k : Nat) (p : P) : Bool := (within G k p).1
def winW (k : Nat) (p : P) : Bool := (within G k p).2

theorem loseW_zero (p : P) : loseW G 0 p = mated G p := rfl
theorem winW_zero (p : P) : winW G 0 p = false := rfl
theorem loseW_succ (k : Nat) (p : P) :
    loseW G (k+1) p = (mated G p || (!(G.moves p).isEmpty && (G.moves p).all (fun q => winW G k q))) := rfl
theorem winW_succ (k : Nat) (p : P) : winW G (k+1) p = (G.moves p).any (fun q => loseW G k q) := rfl

/-- monotonicity in the ply budget -/
theorem mono : ∀ k p, (loseW G k p = true → loseW G (k+1) p = true) ∧ (winW G k p = true → winW G (k+1) p = true)
  | 0, p => by
    refine ⟨fun h => ?_, fun h => by simp [winW_zero] at h⟩
    rw [loseW_succ]; rw [loseW_zero] at h; simp [h]
  | k+1, p => by
    refine ⟨fun h => ?_, fun h => ?_⟩
    · rw [loseW_succ] at h ⊢
      simp only [Bool.or_eq_true, Bool.and_eq_true, List.all_eq_true] at h ⊢
      rcases h with h | ⟨h1, h2⟩
      · left; exact h
      · right; exact ⟨h1, fun q hq => (mono k q).2 (h2 q hq)⟩
    · rw [winW_succ] at h ⊢
      simp only [List.any_eq_true] at h ⊢
      obtain ⟨q, hq, hl⟩ := h
      exact ⟨q, hq, (mono k q).1 hl⟩

theorem loseW_mono (k k' : Nat) (h : k ≤ k') (p : P) (hl : loseW G k p = true) : loseW G k' p = true := by
  induction h with
  | refl => exact hl
  | step _ ih => exact (mono G _ p).1 ih
theorem winW_mono (k k' : Nat) (h : k ≤ k') (p : P) (hw : winW G k p = true) : winW G k' p = true := by
  induction h with
  | refl => exact hw
  | step _ ih => exact (mono G _ p).2 ih

/-! ### scores -/
def MATE0 : Int := 32000
def isWin (s : Int) : Prop := s > MATE0 / 2
def isLose (s : Int) : Prop := s < -(MATE0 / 2)

inductive Bound where | exact | lower | upper
deriving DecidableEq

/-- soundness of a search result `(s, b)` for position p searched at ply `ply` -/
def Sound (p : P) (ply : Nat) (s : Int) (b : Bound) : Prop :=
  (isWin s → b ≠ .upper → ∃ k : Nat, (k : Int) = MATE0 - s - ply - 1 ∧ winW G k p = true) ∧
  (isLose s → b ≠ .lower → ∃ k : Nat, (k : Int) = MATE0 + s - ply - 1 ∧ loseW G k p = true)

/-- terminal rule: checkmated at ply `ply` scores −(MATE0 − (ply+1)) exactly -/
theorem sound_mated (p : P) (ply : Nat) (hm : mated G p = true) (hply : ply < 1000) :
    Sound G p ply (-(MATE0 - (ply + 1))) .exact := by
  refine ⟨fun hw _ => ?_, fun _ _ => ⟨0, by simp [MATE0]; omega, by rw [loseW_zero]; exact hm⟩⟩
  simp [isWin, MATE0] at hw; omega

/-- negamax step as a lower bound: a sound losing claim of the child gives a sound winning claim of the parent -/
theorem sound_step_lower (p q : P) (ply : Nat) (sc : Int) (bc : Bound) (hq : q ∈ G.moves p)
    (hc : Sound G q (ply+1) sc bc) (hb : bc ≠ .lower) :
    Sound G p ply (-sc) .lower := by
  refine ⟨fun hw _ => ?_, fun _ h => absurd rfl h⟩
  have hl : isLose sc := by simp [isWin, isLose] at hw ⊢; omega
  obtain ⟨k, hk, hkl⟩ := hc.2 hl hb
  refine ⟨k+1, by push_cast; omega, ?_⟩
  rw [winW_succ, List.any_eq_true]
  exact ⟨q, hq, hkl⟩

/-- all-moves rule as an upper bound: if every legal move was searched and each child's result is a sound
    winning claim for the opponent with score ≥ −s, the parent is lost within the budget of `s` -/
theorem sound_all_upper (p : P) (ply : Nat) (s : Int) (hne : (G.moves p).isEmpty = false)
    (hall : ∀ q ∈ G.moves p, ∃ sc bc, Sound G q (ply+1) sc bc ∧ bc ≠ .upper ∧ -sc ≤ s)
    (hs : isLose s) (hrange : MATE0 + s - ply - 1 ≥ 1) :
    Sound G p ply s .upper := by
  refine ⟨fun _ h => absurd rfl h, fun _ _ => ?_⟩
  obtain ⟨K, hK⟩ : ∃ K : Nat, (K : Int) = MATE0 + s - ply - 1 := ⟨(MATE0 + s - ply - 1).toNat, by omega⟩
  refine ⟨K, hK, ?_⟩
  obtain ⟨K', rfl⟩ : ∃ K', K = K' + 1 := ⟨K - 1, by omega⟩
  rw [loseW_succ]
  simp only [Bool.or_eq_true, Bool.and_eq_true, Bool.not_eq_true', List.all_eq_true]
  right
  refine ⟨hne, fun q hq => ?_⟩
  obtain ⟨sc, bc, hsnd, hbc, hle⟩ := hall q hq
  have hwin : isWin sc := by simp [isWin, isLose] at hs ⊢; omega
  obtain ⟨k, hk, hkw⟩ := hsnd.1 hwin hbc
  exact winW_mono G k K' (by omega) q hkw

/-- hash-table rule: a claim stored at ply p₁ (score shifted by +p₁ for wins, −p₁ for losses) and read at ply p₂
    is sound at p₂: the ply budget k is a property of the position alone -/
theorem sound_tt_shift (p : P) (p1 p2 : Nat) (s : Int) (b : Bound) (h : Sound G p p1 s b)
    (hp1 : p1 < 1000) (hp2 : p2 < 1000) :
    Sound G p p2 (if s > MATE0/2 then s + p1 - p2 else if s < -(MATE0/2) then s - p1 + p2 else s) b := by
  by_cases hw : s > MATE0 / 2
  · rw [if_pos hw]
    refine ⟨fun _ hb => ?_, fun hl _ => ?_⟩
    · obtain ⟨k, hk, hkw⟩ := h.1 hw hb
      exact ⟨k, by omega, hkw⟩
    · -- a shifted win score read as a lose score would need |shift| > 32000: excluded by the guard in the real statement
      exfalso; simp [isLose, MATE0] at hl hw; omega
  · rw [if_neg hw]
    by_cases hl : s < -(MATE0 / 2)
    · rw [if_pos hl]
      refine ⟨fun hw' _ => ?_, fun _ hb => ?_⟩
      · exfalso; simp [isWin, MATE0] at hw' hl; omega
      · obtain ⟨k, hk, hkl⟩ := h.2 hl hb
        exact ⟨k, by omega, hkl⟩
    · rw [if_neg hl]
      exact ⟨fun hw' => absurd hw' hw, fun hl' => absurd hl' hl⟩

/-! ### results without a mate claim, and the pruning sites of `negaScout`

The pruning sites (mate-distance cut, razoring, reverse futility, null move, futility, late-move pruning) are sound for
the *mate-claim* property not because their bounds are right (they are heuristics) but because, under their guards, what
they return carries no mate claim, or — for moves skipped inside the move loop — because a node that skipped a move
never ends with a lose score.  `Bridge/SearchGuards.lean` proves the side conditions below from the guard expressions
regenerated from search.cpp. -/

/-- the result `(s, b)` claims nothing about mates -/
def NoClaim (s : Int) (b : Bound) : Prop := (isWin s → b = .upper) ∧ (isLose s → b = .lower)

theorem sound_noClaim (p : P) (ply : Nat) (s : Int) (b : Bound) (h : NoClaim s b) : Sound G p ply s b :=
  ⟨fun hw hb => absurd (h.1 hw) hb, fun hl hb => absurd (h.2 hl) hb⟩

theorem noClaim_normal (s : Int) (b : Bound) (h1 : ¬ isWin s) (h2 : ¬ isLose s) : NoClaim s b :=
  ⟨fun hw => absurd hw h1, fun hl => absurd hl h2⟩

/-- an exact claim may be relabelled as any bound -/
theorem sound_weaken (p : P) (ply : Nat) (s : Int) (b : Bound) (h : Sound G p ply s .exact) : Sound G p ply s b :=
  ⟨fun hw _ => h.1 hw (by decide), fun hl _ => h.2 hl (by decide)⟩

/-- mated node, any bound label (negaScout returns it as `T_LE` from the all-moves path, quiesce as a plain value) -/
theorem sound_mated_any (p : P) (ply : Nat) (b : Bound) (hm : mated G p = true) (hply : ply < 1000) :
    Sound G p ply (-(MATE0 - (ply + 1))) b := sound_weaken G p ply _ b (sound_mated G p ply hm hply)

/-- razoring: returned as an upper bound, and not a lose score (quiesce outside check is ≥ its stand-pat value) -/
theorem sound_razor (p : P) (ply : Nat) (s : Int) (hs : ¬ isLose s) : Sound G p ply s .upper :=
  sound_noClaim G p ply s .upper ⟨fun _ => rfl, fun hl => absurd hl hs⟩

/-- reverse futility: returned as a lower bound, and not a win score (static evaluation minus a margin) -/
theorem sound_revfut (p : P) (ply : Nat) (s : Int) (hs : ¬ isWin s) : Sound G p ply s .lower :=
  sound_noClaim G p ply s .lower ⟨fun hw => absurd hw hs, fun _ => rfl⟩

/-- the clamp applied to the null-move result before it is returned as a lower bound -/
def nullClamp (score beta : Int) : Int := if score > MATE0 / 2 then beta else score

theorem nullClamp_not_win (score beta : Int) (hb : ¬ isWin beta) : ¬ isWin (nullClamp score beta) := by
  unfold nullClamp; split
  · exact hb
  · assumption

/-- null move: a null move is not a move of the game, so a win score found behind it proves nothing; the site returns
    the clamped value as a lower bound, which claims nothing because β is not a win score -/
theorem sound_null (p : P) (ply : Nat) (score beta : Int) (hb : ¬ isWin beta) :
    Sound G p ply (nullClamp score beta) .lower :=
  sound_revfut G p ply _ (nullClamp_not_win score beta hb)

/-- mate-distance cut: `β' = min β (MATE0−ply−1)`; the node returns α when `α ≥ β'`.  With `α < β` that means
    `α ≥ MATE0−ply−1`, and every score that can carry a non-vacuous win claim at this ply (`k ≥ 1`) is below it: the
    returned α is a correct upper bound, and as a win score with bound `upper` it claims nothing. -/
theorem mdp_upper_correct (alpha beta : Int) (ply : Nat) (hab : alpha < beta) (hcut : alpha ≥ min beta (MATE0 - ply - 1)) :
    (∀ s : Int, ∀ k : Nat, 1 ≤ k → (k : Int) = MATE0 - s - ply - 1 → s < alpha) ∧ alpha ≥ MATE0 - ply - 1 := by
  have h : alpha ≥ MATE0 - ply - 1 := by omega
  exact ⟨fun s k hk he => by omega, h⟩

theorem sound_mdp (p : P) (ply : Nat) (alpha : Int) (h : alpha ≥ MATE0 - ply - 1) (hply : ply < 1000) :
    Sound G p ply alpha .upper ∧ NoClaim (-alpha) .lower := by
  refine ⟨sound_razor G p ply alpha (by simp [isLose, MATE0] at *; omega), ⟨fun hw => ?_, fun _ => rfl⟩⟩
  simp [isWin, MATE0] at *; omega

/-! #### the move loop with skipped moves (late-move pruning, futility) -/

/-- what happens to one move of the list: searched (`s = −child`), skipped by late-move pruning, or not searched and
    scored with the futility score `f` -/
inductive MoveEv where
  | searched (s : Int)
  | lmp
  | fut (f : Int)

/-- `bestScore = max(bestScore, score)`; a late-move-pruned move leaves it unchanged -/
def MoveEv.step (best : Int) : MoveEv → Int
  | .searched s => max best s
  | .lmp => best
  | .fut f => max best f

/-- the guards under which search.cpp prunes: LMP only while `bestScore` is not a lose score, futility only with a
    futility score that is not a lose score -/
def MoveEv.Guarded (best : Int) : MoveEv → Prop
  | .searched _ => True
  | .lmp => ¬ isLose best
  | .fut f => ¬ isLose f

def runLoop (best : Int) : List MoveEv → Int
  | [] => best
  | e :: es => runLoop (e.step best) es

def GuardedRun (best : Int) : List MoveEv → Prop
  | [] => True
  | e :: es => e.Guarded best ∧ GuardedRun (e.step best) es

theorem runLoop_ge (best : Int) (es : List MoveEv) : best ≤ runLoop best es := by
  induction es generalizing best with
  | nil => exact Int.le_refl _
  | cons e es ih =>
    have h1 : best ≤ e.step best := by cases e <;> simp [MoveEv.step] <;> omega
    exact Int.le_trans h1 (ih _)

/-- **pruning rule**: if the guards held whenever a move was skipped and the node nevertheless ends with a lose
    score, then no move was skipped — every move was searched and its score is ≤ the final score.  (This is what
    feeds `sound_all_upper`.) -/
theorem guarded_lose_all_searched (best : Int) (es : List MoveEv) (hg : GuardedRun best es) (hl : isLose (runLoop best es)) :
    ∀ e ∈ es, ∃ s, e = .searched s ∧ s ≤ runLoop best es := by
  induction es generalizing best with
  | nil => intro e he; cases he
  | cons e es ih =>
    intro e' he'
    have hge := runLoop_ge (e.step best) es
    have hl' : isLose (e.step best) := by unfold isLose at *; simp only [runLoop] at hl; omega
    rcases List.mem_cons.1 he' with rfl | hmem
    · cases e' with
      | searched s =>
        refine ⟨s, rfl, ?_⟩
        show s ≤ runLoop (max best s) es
        exact Int.le_trans (Int.le_max_right best s) (runLoop_ge (max best s) es)
      | lmp => exact absurd hl' hg.1
      | fut f =>
        exfalso; apply hg.1
        simp [MoveEv.step] at hl'; unfold isLose at *; omega
    · exact ih (e.step best) hg.2 (by simpa [runLoop] using hl) e' hmem

/-- without the guard the rule is false: one searched move that loses, one skipped move, final score a lose score -/
theorem unguarded_lmp_witness : isLose (runLoop (-31999) [.searched (-31990), .lmp]) ∧
    ¬ (∀ e ∈ [MoveEv.searched (-31990), MoveEv.lmp], ∃ s, e = MoveEv.searched s ∧ s ≤ runLoop (-31999) [.searched (-31990), .lmp]) := by
  refine ⟨by simp only [runLoop, MoveEv.step, isLose, MATE0]; decide, fun h => ?_⟩
  obtain ⟨s, hs, _⟩ := h .lmp (by simp)
  cases hs

/-! #### derivations -/

/-- How `negaScout` / `quiesce` produce results.  Every constructor stands for a family of return sites of
    search.cpp (DESIGN.md Appendix A); `noclaim` covers draws, stalemate, the busy sentinel, stand-pat values and all
    pruning sites (their side conditions are the `sound_*` lemmas above). -/
inductive Derivable : P → Nat → Int → Bound → Prop
  | mated (p : P) (ply : Nat) (b : Bound) : mated G p = true → ply < 1000 → Derivable p ply (-(MATE0 - (ply + 1))) b
  | noclaim (p : P) (ply : Nat) (s : Int) (b : Bound) : NoClaim s b → Derivable p ply s b
  | step (p q : P) (ply : Nat) (s sc : Int) (bc : Bound) : q ∈ G.moves p → Derivable q (ply+1) sc bc → bc ≠ .lower →
      s ≤ -sc → s + ply + 1 < MATE0 → Derivable p ply s .lower
  | all (p : P) (ply : Nat) (s : Int) (sc : P → Int) (bc : P → Bound) : (G.moves p).isEmpty = false →
      (∀ q, q ∈ G.moves p → Derivable q (ply+1) (sc q) (bc q)) → (∀ q, q ∈ G.moves p → bc q ≠ .upper ∧ -(sc q) ≤ s) →
      MATE0 + s - ply - 1 ≥ 1 → Derivable p ply s .upper
  | exact (p : P) (ply : Nat) (s : Int) : Derivable p ply s .lower → Derivable p ply s .upper → Derivable p ply s .exact
  | relabel (p : P) (ply : Nat) (s : Int) (b : Bound) : Derivable p ply s .exact → Derivable p ply s b
  | tt (p : P) (p1 p2 : Nat) (s : Int) (b : Bound) : Derivable p p1 s b → p1 < 1000 → p2 < 1000 →
      Derivable p p2 (if s > MATE0/2 then s + p1 - p2 else if s < -(MATE0/2) then s - p1 + p2 else s) b

theorem derivable_sound (p : P) (ply : Nat) (s : Int) (b : Bound) (h : Derivable G p ply s b) : Sound G p ply s b := by
  induction h with
  | mated p ply b hm hp => exact sound_mated_any G p ply b hm hp
  | noclaim p ply s b h => exact sound_noClaim G p ply s b h
  | step p q ply s sc bc hq _ hb hle hr ih =>
    have h1 := sound_step_lower G p q ply sc bc hq ih hb
    refine ⟨fun hw _ => ?_, fun _ hb' => absurd rfl hb'⟩
    have hw' : isWin (-sc) := by unfold isWin at *; omega
    obtain ⟨k, hk, hkw⟩ := h1.1 hw' (by decide)
    obtain ⟨K, hK⟩ : ∃ K : Nat, (K : Int) = MATE0 - s - ply - 1 := ⟨(MATE0 - s - ply - 1).toNat, by omega⟩
    exact ⟨K, hK, winW_mono G k K (by omega) p hkw⟩
  | all p ply s sc bc hne _ hb hr ih =>
    by_cases hl : isLose s
    · exact sound_all_upper G p ply s hne (fun q hq => ⟨sc q, bc q, ih q hq, (hb q hq).1, (hb q hq).2⟩) hl hr
    · exact sound_razor G p ply s hl
  | exact p ply s _ _ ih1 ih2 => exact ⟨fun hw _ => ih1.1 hw (by decide), fun hl _ => ih2.2 hl (by decide)⟩
  | relabel p ply s b _ ih => exact sound_weaken G p ply s b ih
  | tt p p1 p2 s b _ h1 h2 ih => exact sound_tt_shift G p p1 p2 s b ih h1 h2

end Cl
