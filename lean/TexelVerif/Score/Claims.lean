/-! Prototype: semantics of mate claims and the basic combination rules of the search (C04). -/
namespace Cl

structure Game (P : Type) where
  moves : P → List P          -- positions after each legal move
  inCheck : P → Bool

variable {P : Type} (G : Game P)

def mated (p : P) : Bool := (G.moves p).isEmpty && G.inCheck p

/-- (loseWithin k p, winWithin k p) in plies: the mate is on the board after at most k plies -/
def within : Nat → P → Bool × Bool
  | 0, p => (mated G p, false)
  | k+1, p =>
    (mated G p || (!(G.moves p).isEmpty && (G.moves p).all (fun q => (within k q).2)),
     (G.moves p).any (fun q => (within k q).1))

def loseW (k : Nat) (p : P) : Bool := (within G k p).1
def winW (k : Nat) (p : P) : Bool := (within G k p).2

theorem loseW_zero (p : P) : loseW G 0 p = mated G p := rfl
theorem winW_zero (p : P) : winW G 0 p = false := rfl
theorem loseW_succ (k : Nat) (p : P) :
    loseW G (k+1) p = (mated G p || (!(G.moves p).isEmpty && (G.moves p).all (fun q => winW G k q))) := rfl
theorem winW_succ (k : Nat) (p : P) : winW G (k+1) p = (G.moves p).any (fun q => loseW G k q) := rfl

/-- monotonicity in the ply budget -/
theorem mono : ∀ k p, (loseW G k p = true → loseW G (k+1) p = true) ∧ (winW G k p = true → winW G (k+1) p = true)
  | 0, p => by
    refine ⟨fun h => ?_, fun h => by simp [winW_zero] at h⟩
    rw [loseW_succ]; rw [loseW_zero] at h; simp [h]
  | k+1, p => by
    refine ⟨fun h => ?_, fun h => ?_⟩
    · rw [loseW_succ] at h ⊢
      simp only [Bool.or_eq_true, Bool.and_eq_true, List.all_eq_true] at h ⊢
      rcases h with h | ⟨h1, h2⟩
      · left; exact h
      · right; exact ⟨h1, fun q hq => (mono k q).2 (h2 q hq)⟩
    · rw [winW_succ] at h ⊢
      simp only [List.any_eq_true] at h ⊢
      obtain ⟨q, hq, hl⟩ := h
      exact ⟨q, hq, (mono k q).1 hl⟩

theorem loseW_mono (k k' : Nat) (h : k ≤ k') (p : P) (hl : loseW G k p = true) : loseW G k' p = true := by
  induction h with
  | refl => exact hl
  | step _ ih => exact (mono G _ p).1 ih
theorem winW_mono (k k' : Nat) (h : k ≤ k') (p : P) (hw : winW G k p = true) : winW G k' p = true := by
  induction h with
  | refl => exact hw
  | step _ ih => exact (mono G _ p).2 ih

/-! ### scores -/
def MATE0 : Int := 32000
def isWin (s : Int) : Prop := s > MATE0 / 2
def isLose (s : Int) : Prop := s < -(MATE0 / 2)

inductive Bound where | exact | lower | upper
deriving DecidableEq

/-- soundness of a search result `(s, b)` for position p searched at ply `ply` -/
def Sound (p : P) (ply : Nat) (s : Int) (b : Bound) : Prop :=
  (isWin s → b ≠ .upper → ∃ k : Nat, (k : Int) = MATE0 - s - ply - 1 ∧ winW G k p = true) ∧
  (isLose s → b ≠ .lower → ∃ k : Nat, (k : Int) = MATE0 + s - ply - 1 ∧ loseW G k p = true)

/-- terminal rule: checkmated at ply `ply` scores −(MATE0 − (ply+1)) exactly -/
theorem sound_mated (p : P) (ply : Nat) (hm : mated G p = true) (hply : ply < 1000) :
    Sound G p ply (-(MATE0 - (ply + 1))) .exact := by
  refine ⟨fun hw _ => ?_, fun _ _ => ⟨0, by simp [MATE0]; omega, by rw [loseW_zero]; exact hm⟩⟩
  simp [isWin, MATE0] at hw; omega

/-- negamax step as a lower bound: a sound losing claim of the child gives a sound winning claim of the parent -/
theorem sound_step_lower (p q : P) (ply : Nat) (sc : Int) (bc : Bound) (hq : q ∈ G.moves p)
    (hc : Sound G q (ply+1) sc bc) (hb : bc ≠ .lower) :
    Sound G p ply (-sc) .lower := by
  refine ⟨fun hw _ => ?_, fun _ h => absurd rfl h⟩
  have hl : isLose sc := by simp [isWin, isLose] at hw ⊢; omega
  obtain ⟨k, hk, hkl⟩ := hc.2 hl hb
  refine ⟨k+1, by push_cast; omega, ?_⟩
  rw [winW_succ, List.any_eq_true]
  exact ⟨q, hq, hkl⟩

/-- all-moves rule as an upper bound: if every legal move was searched and each child's result is a sound
    winning claim for the opponent with score ≥ −s, the parent is lost within the budget of `s` -/
theorem sound_all_upper (p : P) (ply : Nat) (s : Int) (hne : (G.moves p).isEmpty = false)
    (hall : ∀ q ∈ G.moves p, ∃ sc bc, Sound G q (ply+1) sc bc ∧ bc ≠ .upper ∧ -sc ≤ s)
    (hs : isLose s) (hrange : MATE0 + s - ply - 1 ≥ 1) :
    Sound G p ply s .upper := by
  refine ⟨fun _ h => absurd rfl h, fun _ _ => ?_⟩
  obtain ⟨K, hK⟩ : ∃ K : Nat, (K : Int) = MATE0 + s - ply - 1 := ⟨(MATE0 + s - ply - 1).toNat, by omega⟩
  refine ⟨K, hK, ?_⟩
  obtain ⟨K', rfl⟩ : ∃ K', K = K' + 1 := ⟨K - 1, by omega⟩
  rw [loseW_succ]
  simp only [Bool.or_eq_true, Bool.and_eq_true, Bool.not_eq_true', List.all_eq_true]
  right
  refine ⟨hne, fun q hq => ?_⟩
  obtain ⟨sc, bc, hsnd, hbc, hle⟩ := hall q hq
  have hwin : isWin sc := by simp [isWin, isLose] at hs ⊢; omega
  obtain ⟨k, hk, hkw⟩ := hsnd.1 hwin hbc
  exact winW_mono G k K' (by omega) q hkw

/-- hash-table rule: a claim stored at ply p₁ (score shifted by +p₁ for wins, −p₁ for losses) and read at ply p₂
    is sound at p₂: the ply budget k is a property of the position alone -/
theorem sound_tt_shift (p : P) (p1 p2 : Nat) (s : Int) (b : Bound) (h : Sound G p p1 s b)
    (hp1 : p1 < 1000) (hp2 : p2 < 1000) :
    Sound G p p2 (if s > MATE0/2 then s + p1 - p2 else if s < -(MATE0/2) then s - p1 + p2 else s) b := by
  by_cases hw : s > MATE0 / 2
  · rw [if_pos hw]
    refine ⟨fun _ hb => ?_, fun hl _ => ?_⟩
    · obtain ⟨k, hk, hkw⟩ := h.1 hw hb
      exact ⟨k, by omega, hkw⟩
    · -- a shifted win score read as a lose score would need |shift| > 32000: excluded by the guard in the real statement
      exfalso; simp [isLose, MATE0] at hl hw; omega
  · rw [if_neg hw]
    by_cases hl : s < -(MATE0 / 2)
    · rw [if_pos hl]
      refine ⟨fun hw' _ => ?_, fun _ hb => ?_⟩
      · exfalso; simp [isWin, MATE0] at hw' hl; omega
      · obtain ⟨k, hk, hkl⟩ := h.2 hl hb
        exact ⟨k, by omega, hkl⟩
    · rw [if_neg hl]
      exact ⟨fun hw' => absurd hw' hw, fun hl' => absurd hl' hl⟩

end Cl
