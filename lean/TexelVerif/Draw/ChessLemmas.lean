import TexelVerif.Chess.Mate
import TexelVerif.Chess.SpecLemmas
import TexelVerif.Chess.Fen
/-!
# Facts about the chess specification used by the repetition theorems

* `fixupEP` changes only the en-passant square and is idempotent;
* the side to move alternates, the half-move clock is reset or incremented;
* **a position never equals the one two plies earlier**: the square the mover left is empty after its move, and the
  opponent's reply can only put one of *its* pieces there.
-/
namespace Chess

/-! ### `fixupEP` -/

theorem fixupEP_cases (p : Pos) : fixupEP p = p ∨ fixupEP p = { p with ep := none } := by
  unfold fixupEP
  split
  · exact Or.inl rfl
  · split
    · exact Or.inl rfl
    · exact Or.inr rfl

@[simp] theorem fixupEP_b (p : Pos) : (fixupEP p).b = p.b := by
  rcases fixupEP_cases p with h | h <;> rw [h]
@[simp] theorem fixupEP_wtm (p : Pos) : (fixupEP p).wtm = p.wtm := by
  rcases fixupEP_cases p with h | h <;> rw [h]
@[simp] theorem fixupEP_castle (p : Pos) : (fixupEP p).castle = p.castle := by
  rcases fixupEP_cases p with h | h <;> rw [h]
@[simp] theorem fixupEP_hmc (p : Pos) : (fixupEP p).hmc = p.hmc := by
  rcases fixupEP_cases p with h | h <;> rw [h]
@[simp] theorem fixupEP_fmc (p : Pos) : (fixupEP p).fmc = p.fmc := by
  rcases fixupEP_cases p with h | h <;> rw [h]

theorem fixupEP_of_ep_none (p : Pos) (h : p.ep = none) : fixupEP p = p := by
  unfold fixupEP; rw [h]

/-- a position is *normalised* when its en-passant square is set only if an en-passant capture is legal -/
def Norm (p : Pos) : Prop := fixupEP p = p

theorem fixupEP_idem (p : Pos) : fixupEP (fixupEP p) = fixupEP p := by
  rcases fixupEP_cases p with h | h
  · rw [h, h]
  · rw [h]; exact fixupEP_of_ep_none _ rfl

theorem norm_fixupEP (p : Pos) : Norm (fixupEP p) := fixupEP_idem p
theorem norm_nextPos (p : Pos) (m : Mv) : Norm (nextPos p m) := fixupEP_idem _

/-! ### the FEN reader's output is normalised -/

theorem legalB_congr (p : Pos) (h f : Nat) (m : Mv) : legalB { p with hmc := h, fmc := f } m = legalB p m := rfl
theorem genLegal_congr (p : Pos) (h f : Nat) : genLegal { p with hmc := h, fmc := f } = genLegal p := rfl
theorem fixupEP_congr (p : Pos) (h f : Nat) : fixupEP { p with hmc := h, fmc := f } = { fixupEP p with hmc := h, fmc := f } := by
  obtain ⟨b, w, c, ep, hm, fm⟩ := p
  cases ep with
  | none => rfl
  | some e =>
    unfold fixupEP
    simp only []
    have e1 : genLegal (⟨b, w, c, some e, h, f⟩ : Pos) = genLegal ⟨b, w, c, some e, hm, fm⟩ := genLegal_congr ⟨b, w, c, some e, hm, fm⟩ h f
    have e2 : ∀ m : Mv, (⟨b, w, c, some e, h, f⟩ : Pos).at m.f = (⟨b, w, c, some e, hm, fm⟩ : Pos).at m.f := fun _ => rfl
    simp only [e1, e2]
    split <;> rfl

/-- the record the FEN reader builds in its last line (`readFENRaw`: e.p. square taken from `fixupEP` of the position with
    counters 0 / 1, then the counters of the FEN) is normalised -/
theorem norm_fen_shape (b : Board) (wtm : Bool) (cm : UInt8) (ep : Option Sq) (h f : Nat) :
    Norm { b := b, wtm := wtm, castle := cm, ep := (fixupEP { b := b, wtm := wtm, castle := cm, ep := ep, hmc := 0, fmc := 1 }).ep,
           hmc := h, fmc := f } := by
  unfold Norm
  have key : fixupEP { b := b, wtm := wtm, castle := cm, ep := ep, hmc := 0, fmc := 1 } =
      { b := b, wtm := wtm, castle := cm, ep := (fixupEP { b := b, wtm := wtm, castle := cm, ep := ep, hmc := 0, fmc := 1 }).ep, hmc := 0, fmc := 1 } := by
    rcases fixupEP_cases { b := b, wtm := wtm, castle := cm, ep := ep, hmc := 0, fmc := 1 } with e | e <;> rw [e]
  have := fixupEP_congr { b := b, wtm := wtm, castle := cm, ep := (fixupEP { b := b, wtm := wtm, castle := cm, ep := ep, hmc := 0, fmc := 1 }).ep, hmc := 0, fmc := 1 } h f
  simp only [] at this
  rw [this, ← key, fixupEP_idem, key]

theorem finishRead_shape (b : Board) (wtm : Bool) (cm : UInt8) (ep : Option Sq) (hmc fmc : Int) (r : RawPos)
    (h : finishRead b wtm cm ep hmc fmc = .ok r) :
    r.ep = (fixupEP { b := r.b, wtm := r.wtm, castle := r.castle, ep := ep, hmc := 0, fmc := 1 }).ep := by
  unfold finishRead at h
  repeat' split at h
  all_goals first
    | (cases h; rfl)
    | (cases h; done)

theorem readFENRaw_shape (fen : String) (r : RawPos) (h : readFENRaw fen = .ok r) :
    ∃ ep, r.ep = (fixupEP { b := r.b, wtm := r.wtm, castle := r.castle, ep := ep, hmc := 0, fmc := 1 }).ep := by
  unfold readFENRaw at h
  simp only [bind, Except.bind, pure, Except.pure] at h
  repeat' split at h
  all_goals first
    | (cases h; done)
    | exact ⟨_, finishRead_shape _ _ _ _ _ _ _ h⟩

theorem readFEN_norm (fen : String) (p : Pos) (h : readFEN fen = .ok p) : Norm p := by
  unfold readFEN at h
  cases hr : readFENRaw fen with
  | error e => rw [hr] at h; cases h
  | ok r =>
    rw [hr] at h
    simp only [Except.map] at h
    cases h
    obtain ⟨ep, he⟩ := readFENRaw_shape fen r hr
    unfold RawPos.toPos
    rw [he]
    exact norm_fen_shape _ _ _ _ _ _
/-! ### side to move and clock -/

@[simp] theorem apply_wtm (p : Pos) (m : Mv) : (apply p m).wtm = !p.wtm := rfl
@[simp] theorem nextPos_wtm (p : Pos) (m : Mv) : (nextPos p m).wtm = !p.wtm := by simp [nextPos]

theorem apply_hmc (p : Pos) (m : Mv) : (apply p m).hmc = 0 ∨ (apply p m).hmc = p.hmc + 1 := by
  unfold apply
  simp only []
  split
  · exact Or.inl rfl
  · exact Or.inr rfl

theorem nextPos_hmc (p : Pos) (m : Mv) : (nextPos p m).hmc = 0 ∨ (nextPos p m).hmc = p.hmc + 1 := by
  simpa [nextPos] using apply_hmc p m

/-- a move of a piece other than a pawn leaves no en-passant square: the raw position is already normalised -/
theorem apply_ep_none_of_hmc (p : Pos) (m : Mv) (h : (apply p m).hmc ≠ 0) : (apply p m).ep = none := by
  unfold apply at h ⊢
  simp only [] at h ⊢
  split at h
  · exact absurd rfl h
  · next hz =>
    have : (kind (p.at m.f) == 6) = false := by
      cases hk : (kind (p.at m.f) == 6) <;> simp_all
    simp [this]

/-! ### the board after a move -/

theorem setSq_get (b : Board) (n : Nat) (v : Pc) (s : Sq) : (setSq b n v)[s] = if n = s.val then v else b[s] := by
  unfold setSq
  simp only [Fin.getElem_fin, Vector.getElem_setIfInBounds]

theorem own_ne_zero_dr (w : Bool) (x : Pc) (h : own w x = true) : x ≠ 0 := by
  rintro rfl
  cases w <;> simp [own, isWhite, isBlack] at h

theorem own_not_both (w : Bool) (x : Pc) (h : own w x = true) : own (!w) x = false := by
  have key : ∀ n : Fin 256, own w (UInt8.ofNat n.val) = true → own (!w) (UInt8.ofNat n.val) = false := by
    cases w <;> decide +kernel
  have := key ⟨x.toNat, x.toNat_lt⟩
  simp only [UInt8.ofNat_toNat] at this
  exact this h

theorem mem_promos_own (w : Bool) (x : Pc) (h : x ∈ promos w) (hx : x ≠ 0) : own w x = true := by
  cases w <;> simp [promos] at h <;> rcases h with rfl | rfl | rfl | rfl | rfl <;> first | exact absurd rfl hx | decide

/-- the from-square is empty after a pseudo-legal move -/
theorem apply_from_empty (p : Pos) (m : Mv) (hne : m.f ≠ m.t) : (apply p m).b[m.f] = 0 := by
  have hv : m.f.val ≠ m.t.val := fun h => hne (Fin.ext h)
  have hf := m.f.isLt
  unfold apply
  simp only []
  split
  · next hc =>
    simp only [Bool.and_eq_true, beq_iff_eq] at hc
    simp only [setSq_get]
    repeat' split
    all_goals first | rfl | omega | contradiction
  · split
    · next hc =>
      simp only [Bool.and_eq_true, beq_iff_eq] at hc
      simp only [setSq_get]
      repeat' split
      all_goals first | rfl | omega | contradiction
    · simp only [setSq_get]
      repeat' split
      all_goals first | rfl | omega | contradiction

/-- every square after a pseudo-legal move holds what it held before, nothing, or a piece of the mover -/
theorem apply_square (p : Pos) (m : Mv) (hp : pseudo p m = true) (s : Sq) :
    (apply p m).b[s] = p.b[s] ∨ (apply p m).b[s] = 0 ∨ own p.wtm (apply p m).b[s] = true := by
  have hown : own p.wtm (p.at m.f) = true := pseudo_own p m hp
  have hpromo := pseudo_promo p m hp
  have hpr : m.promo ≠ 0 → own p.wtm m.promo = true := fun h => mem_promos_own _ _ hpromo h
  have hwr : p.wtm = true → own p.wtm WROOK = true := by intro h; rw [h]; decide
  have hbr : ¬ p.wtm = true → own p.wtm BROOK = true := by intro h; simp only [Bool.not_eq_true] at h; rw [h]; decide
  unfold apply
  simp only []
  -- case analysis on the optional writes; every written value is 0, the placed piece, or the mover's rook
  split <;> (try split) <;> simp only [setSq_get] <;> (repeat' split) <;> (try simp only [setSq_get]) <;> (repeat' split) <;>
    first
      | exact Or.inl rfl
      | exact Or.inl trivial
      | exact Or.inr (Or.inl rfl)
      | exact Or.inr (Or.inl trivial)
      | exact Or.inr (Or.inr hown)
      | exact Or.inr (Or.inr (hwr ‹_›))
      | exact Or.inr (Or.inr (hbr ‹_›))
      | exact Or.inr (Or.inr (hpr (by simp_all)))

/-- **A position never equals the one two plies earlier.**  (Texel's scan starts four plies back.) -/
theorem board_ne_two_plies (p : Pos) (m1 m2 : Mv) (h1 : legalB p m1 = true) (h2 : legalB (nextPos p m1) m2 = true) :
    (nextPos (nextPos p m1) m2).b ≠ p.b := by
  have hp1 : pseudo p m1 = true := by unfold legalB at h1; simp only [Bool.and_eq_true] at h1; exact h1.1
  have hp2 : pseudo (nextPos p m1) m2 = true := by unfold legalB at h2; simp only [Bool.and_eq_true] at h2; exact h2.1
  have hne : m1.f ≠ m1.t := by
    unfold pseudo at hp1; simp only [Bool.and_eq_true] at hp1
    simpa using hp1.1.2
  have hown : own p.wtm p.b[m1.f] = true := pseudo_own p m1 hp1
  have hempty : (nextPos p m1).b[m1.f] = 0 := by simp [nextPos, apply_from_empty p m1 hne]
  intro heq
  have hsq := apply_square (nextPos p m1) m2 hp2 m1.f
  have hb : (nextPos (nextPos p m1) m2).b[m1.f] = p.b[m1.f] := by rw [heq]
  simp only [nextPos, fixupEP_b] at hb hsq hempty
  rw [hb] at hsq
  rcases hsq with h | h | h
  · rw [hempty] at h; exact own_ne_zero_dr _ _ hown h
  · exact own_ne_zero_dr _ _ hown h
  · simp only [fixupEP_wtm, apply_wtm] at h
    rw [own_not_both _ _ hown] at h
    cases h

end Chess
