import TexelVerif.Draw.Witness
import TexelVerif.Draw.GameLemmas
/-! Kernel-evaluated facts about the witness game (kept in their own module: they take about a minute each). -/
namespace Chess
open Hist GameM

set_option maxRecDepth 100000 in
theorem witness_facts :
    LegalLine wP0 wMoves ∧ legalB (givenHistory wP0 wMoves).2 wM = true ∧
    ((givenHistory wP0 wMoves).1 ++ [(givenHistory wP0 wMoves).2]).countP
        (fun q => decide (drawKey q = drawKey (nextPos (givenHistory wP0 wMoves).2 wM))) = 2 ∧
    (rawHistory wP0 wMoves).1.map (·.ep) = [some ⟨20, by decide⟩, none, none, none, none, none, none] ∧
    ((rawHistory wP0 wMoves).1 ++ [(rawHistory wP0 wMoves).2]).countP
        (fun q => decide (drawKey q = drawKey (apply (rawHistory wP0 wMoves).2 wM))) = 1 := by
  decide +kernel

/-- the console script `setpos 3k4/8/8/8/3p4/8/4P3/3R2K1 w - - 0 1; e2e4; undo; redo; d8d7 g1g2 d7d8 g2g1 d8e8 g1g2 e8d8;
    draw rep g2g1` -/
def redoScript : List Cmd :=
  [.move (some (mv 12 28)), .undo, .redo] ++ (wMoves.drop 1).map (fun m => Cmd.move (some m)) ++ [.drawRep (some wM)]

def runCmds (fixRedo : Bool) (g : Game) (cs : List Cmd) : Game := cs.foldl (fun g c => (processString fixRedo g c).1) g

set_option maxRecDepth 100000 in
/-- with the raw `redo` the claim for the third occurrence is rejected (and the move played); with the repaired one it is
    accepted -/
theorem redo_witness_facts :
    (runCmds false (newGame wP0) redoScript).drawState = .alive ∧ (runCmds false (newGame wP0) redoScript).cur = 9 ∧
    (runCmds true (newGame wP0) redoScript).drawState = .drawRep ∧ (runCmds true (newGame wP0) redoScript).cur = 8 := by
  decide +kernel

end Chess
