import TexelVerif.Draw.RepScan
/-!
# Declarative characterisation of `Search::canClaimDrawRep` (search.hpp:329-341)

`Rep.loop_eq` describes the loop through the list `hits` of matching indices it visits.  Here `hits` is characterised
(for any fuel covering the distance to `stop`) as exactly the indices `j` with `stop ≤ j ≤ i`, `i - j` even and
`hs j = h`, in strictly descending order; hence the scan is true iff some matching index of the *window*
lies at or above `posHashFirstNew`, or two different indices of the window match.
-/
namespace Rep

/-- the indices the scan looks at: `max 0 (size - hmc) ≤ i ≤ size - 4`, same parity as `size` -/
def InWindow (size hmc i : Int) : Prop := max 0 (size - hmc) ≤ i ∧ i ≤ size - 4 ∧ (size - i) % 2 = 0

instance (size hmc i : Int) : Decidable (InWindow size hmc i) := by unfold InWindow; exact inferInstance

theorem mem_hits (hs : Nat → Nat) (stop : Int) (h : Nat) :
    ∀ (f : Nat) (i j : Int), i < stop + 2 * f → (j ∈ hits hs stop h f i ↔ stop ≤ j ∧ j ≤ i ∧ (i - j) % 2 = 0 ∧ hs j.toNat = h)
  | 0, i, j, hf => by
    simp only [hits, List.not_mem_nil, false_iff]
    omega
  | f+1, i, j, hf => by
    unfold hits
    by_cases h1 : i < stop
    · simp only [h1, if_true, List.not_mem_nil, false_iff]; omega
    · simp only [h1, if_false]
      have ih := mem_hits hs stop h f (i - 2) j (by omega)
      by_cases h2 : hs i.toNat = h
      · simp only [h2, if_true, List.mem_cons, ih]
        constructor
        · rintro (rfl | ⟨a, b, c, d⟩)
          · exact ⟨by omega, by omega, by omega, h2⟩
          · exact ⟨a, by omega, by omega, d⟩
        · rintro ⟨a, b, c, d⟩
          by_cases e : j = i
          · exact Or.inl e
          · exact Or.inr ⟨a, by omega, by omega, d⟩
      · simp only [h2, if_false, ih]
        constructor
        · rintro ⟨a, b, c, d⟩; exact ⟨a, by omega, by omega, d⟩
        · rintro ⟨a, b, c, d⟩
          have : j ≠ i := by rintro rfl; exact h2 d
          exact ⟨a, by omega, by omega, d⟩

/-- the hit list is strictly descending -/
theorem hits_sorted (hs : Nat → Nat) (stop : Int) (h : Nat) :
    ∀ f i, (hits hs stop h f i).Pairwise (fun a b => b < a)
  | 0, i => by simp [hits]
  | f+1, i => by
    unfold hits
    split
    · exact List.Pairwise.nil
    · split
      · refine List.Pairwise.cons ?_ (hits_sorted hs stop h f (i - 2))
        intro b hb
        have := hits_le hs stop h f (i - 2) b hb
        omega
      · exact hits_sorted hs stop h f (i - 2)

theorem two_le_length_iff {l : List Int} (hl : l.Pairwise (fun a b => b < a)) :
    2 ≤ l.length ↔ ∃ a ∈ l, ∃ b ∈ l, b ≠ a := by
  constructor
  · intro h2
    match l, h2 with
    | a :: b :: t, _ =>
      have hab : b < a := (List.pairwise_cons.1 hl).1 b (List.mem_cons_self ..)
      exact ⟨a, List.mem_cons_self .., b, List.mem_cons_of_mem _ (List.mem_cons_self ..), by omega⟩
  · rintro ⟨a, ha, b, hb, hne⟩
    match l, ha, hb with
    | [], ha, _ => cases ha
    | [x], ha, hb =>
      simp only [List.mem_singleton] at ha hb
      exact absurd (hb.trans ha.symm) hne
    | _ :: _ :: _, _, _ => simp

/-- **The scan, declaratively.**  `canClaimDrawRep` is true iff some index `i` of the window holds the current hash
    and either lies at or above `posHashFirstNew` (a position reached inside the search tree: one earlier occurrence is
    enough) or a second index of the window holds it too (positions played over the board: two earlier occurrences). -/
theorem canClaimDrawRep_iff (hs : Nat → Nat) (size hmc firstNew : Int) (h : Nat) :
    canClaimDrawRep hs size hmc firstNew h = true ↔
      ∃ i, InWindow size hmc i ∧ hs i.toNat = h ∧
        (firstNew ≤ i ∨ ∃ j, InWindow size hmc j ∧ j ≠ i ∧ hs j.toNat = h) := by
  unfold canClaimDrawRep
  simp only []
  rw [loop_eq]
  have hstop : (0 : Int) ≤ max 0 (size - hmc) := Int.le_max_left _ _
  have hfuel : size - 4 < max 0 (size - hmc) + 2 * ((size.toNat + 1 : Nat) : Int) := by omega
  have mem : ∀ j, j ∈ hits hs (max 0 (size - hmc)) h (size.toNat + 1) (size - 4) ↔ (InWindow size hmc j ∧ hs j.toNat = h) := by
    intro j
    rw [mem_hits hs _ h _ _ j hfuel]
    unfold InWindow
    constructor
    · rintro ⟨a, b, c, d⟩; exact ⟨⟨a, b, by omega⟩, d⟩
    · rintro ⟨⟨a, b, c⟩, d⟩; exact ⟨a, b, by omega, d⟩
  have hs2 := two_le_length_iff (hits_sorted hs (max 0 (size - hmc)) h (size.toNat + 1) (size - 4))
  simp only [decide_eq_true_eq, Nat.zero_add]
  constructor
  · rintro (⟨j, hj, hf⟩ | ⟨h2, _⟩)
    · obtain ⟨hw, he⟩ := (mem j).1 hj
      exact ⟨j, hw, he, Or.inl hf⟩
    · obtain ⟨a, ha, b, hb, hne⟩ := hs2.1 h2
      obtain ⟨hwa, hea⟩ := (mem a).1 ha
      obtain ⟨hwb, heb⟩ := (mem b).1 hb
      exact ⟨a, hwa, hea, Or.inr ⟨b, hwb, hne, heb⟩⟩
  · rintro ⟨i, hw, he, (hf | ⟨j, hwj, hne, hej⟩)⟩
    · exact Or.inl ⟨i, (mem i).2 ⟨hw, he⟩, hf⟩
    · have hi := (mem i).2 ⟨hw, he⟩
      have hj := (mem j).2 ⟨hwj, hej⟩
      refine Or.inr ⟨hs2.2 ⟨i, hi, j, hj, hne⟩, ?_⟩
      intro hnil; rw [hnil] at hi; cases hi

/-- shifting the list: dropping `n` leading entries that lie outside the half-move-clock window changes nothing
    (used for "the list is cleared on a zeroing move" and "cleared when longer than 100") -/
theorem canClaimDrawRep_shift (hs : Nat → Nat) (size hmc firstNew : Int) (h : Nat) (n : Nat)
    (hn : (n : Int) ≤ size - hmc) :
    canClaimDrawRep hs size hmc firstNew h = canClaimDrawRep (fun i => hs (i + n)) (size - n) hmc (firstNew - n) h := by
  rw [Bool.eq_iff_iff, canClaimDrawRep_iff, canClaimDrawRep_iff]
  have win : ∀ i : Int, InWindow size hmc i ↔ InWindow (size - n) hmc (i - n) := by
    intro i; unfold InWindow; omega
  have idx : ∀ i : Int, InWindow size hmc i → (i - n).toNat + n = i.toNat := by
    intro i hi; unfold InWindow at hi; omega
  have idx2 : ∀ i : Int, InWindow (size - n) hmc i → (i + n).toNat = i.toNat + n := by
    intro i hi; unfold InWindow at hi; omega
  constructor
  · rintro ⟨i, hw, he, hr⟩
    refine ⟨i - n, (win i).1 hw, by simp only [idx i hw]; exact he, ?_⟩
    rcases hr with hf | ⟨j, hwj, hne, hej⟩
    · exact Or.inl (by omega)
    · exact Or.inr ⟨j - n, (win j).1 hwj, by omega, by simp only [idx j hwj]; exact hej⟩
  · rintro ⟨i, hw, he, hr⟩
    have hw' : InWindow size hmc (i + n) := (win (i + n)).2 (by simpa using hw)
    have e1 := idx2 i hw
    refine ⟨i + n, hw', by rw [e1]; exact he, ?_⟩
    rcases hr with hf | ⟨j, hwj, hne, hej⟩
    · left; omega
    · have hwj' : InWindow size hmc (j + n) := (win (j + n)).2 (by simpa using hwj)
      have e2 := idx2 j hwj
      have hne' : j + n ≠ i + n := by omega
      right
      exact ⟨j + n, hwj', hne', by rw [e2]; exact hej⟩

end Rep
