import TexelVerif.Draw.RepScan
/-!
# The history list handed to the search (`EngineControl::setupPosition`, enginecontrol.cpp) and the scan at ply 1

Generic in the position type `P`, the move type `M` and the hash type `H`: `step` is "make the move" (raw
`Position::makeMove` in the code before the repair, `makeMove` followed by `TextIO::fixupEPSquare` after it),
`hmc` the half-move clock, `hash` the Zobrist key.
-/
namespace Hist
variable {P M H : Type}

/-- the loop of `setupPosition`; `acc` is `posHashList` -/
def buildLoop (step : P → M → P) (hmc : P → Nat) (hash : P → H) : P → List M → List H → List H × P
  | p, [], acc => (acc, p)
  | p, m :: ms, acc =>
    let p' := step p m
    buildLoop step hmc hash p' ms (if hmc p' = 0 then [] else acc ++ [hash p])

/-- `EngineControl::setupPosition`: (posHashList[0 .. posHashListSize), this->pos) -/
def setupPosition (step : P → M → P) (hmc : P → Nat) (hash : P → H) (p : P) (ms : List M) : List H × P :=
  let r := buildLoop step hmc hash p ms []
  (if r.1.length > 100 then [] else r.1, r.2)

/-- mutation used by the self-test of the check: the list is not cleared on a zeroing move -/
def setupPositionNoClear (step : P → M → P) (hash : P → H) (p : P) (ms : List M) : List H × P :=
  let r := buildLoop step (fun _ => 1) hash p ms []
  (if r.1.length > 100 then [] else r.1, r.2)

/-- all positions of the game: `p₀, p₁, …, pₙ` -/
def states (step : P → M → P) : P → List M → List P
  | p, [] => [p]
  | p, m :: ms => p :: states step (step p m) ms

/-- what the root loop of `iterativeDeepening` and `negaScout` see at ply 1 after the root move: the list is the given
    history plus the root position's hash; `posHashFirstNew` is the given size (+1 with MultiPV > 1) -/
def scanPly1 (hist : List Nat) (rootHash newHash : Nat) (newHmc : Int) (multiPV : Bool) : Bool :=
  let l := hist ++ [rootHash]
  Rep.canClaimDrawRep (fun i => l.getD i 0) l.length newHmc (hist.length + (if multiPV then 1 else 0)) newHash

/-- the scan over the hashes of the positions `l` with `posHashFirstNew` at (or within 3 below) the end of the list -/
def scanOld (hash : P → Nat) (l : List P) (newHash : Nat) (newHmc firstNew : Int) : Bool :=
  Rep.canClaimDrawRep (fun i => (l.map hash).getD i 0) l.length newHmc firstNew newHash

end Hist
