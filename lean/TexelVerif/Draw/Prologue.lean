/-!
# The draw tests at the top of `Search::negaScout` (search.cpp:519-533), modelled by reading

```
if (canClaimDraw50(pos)) {
    if (inCheck) { generate legal moves; if (moves.size == 0) return -(MATE0-(ply+1)); }   // mate first
    return 0;
}
if (canClaimDrawRep(pos, posHashList, posHashListSize, posHashFirstNew)) return 0;
```
`some s`: the node returns `s` at once; `none`: the search of the node continues.
-/
namespace Prologue

def MATE0 : Int := 32000

/-- `Search::canClaimDraw50` -/
def canClaimDraw50 (hmc : Int) : Bool := decide (100 ≤ hmc)

def drawTests (hmc : Int) (inCheck noLegalMoves repScan : Bool) (ply : Int) : Option Int :=
  if canClaimDraw50 hmc then
    if inCheck then
      if noLegalMoves then some (-(MATE0 - (ply + 1))) else some 0
    else some 0
  else if repScan then some 0
  else none

/-- the score `-(MATE0 - (ply+1))` returned at ply 1 is shown by the root as `mate 1`
    (`notifyPV`: `(MATE0 - score + 1) / 2` plies-to-moves conversion of the negated score) -/
def mateInOneAtRoot : Int := -(-(MATE0 - (1 + 1)))

end Prologue
