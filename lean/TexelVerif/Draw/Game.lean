import TexelVerif.Chess.Mate
/-!
# Model of the console game (`Game`, lib/texellib/game.cpp)

State: current position, move list with the positions before each move (the effect of `UndoInfo` + `unMakeMove`),
draw-offer flags per move, `currentMove`, the pending draw offer, the draw state set by an accepted claim / agreement
and the resignation state.  Commands: the subset of `Game::processString` that concerns adjudication
(`new`, `setpos`, `undo`, `redo`, a move, `draw rep [m]`, `draw 50 [m]`, `draw offer m`, `draw accept`, `resign`,
commands without effect on the game, unknown text).  Moves are given in coordinate notation; `TextIO::stringToMove`
on such a string is the lookup of the move in the legal move list.

The flag `fixRedo` selects whether `redo` normalises the en-passant square like a played move does (the repaired
behaviour) or replays the raw `Position::makeMove` (game.cpp before the repair).
-/
namespace GameM
open Chess

inductive GState where
  | alive | whiteMate | blackMate | whiteStalemate | blackStalemate
  | drawRep | draw50 | drawNoMate | drawAgree | resignWhite | resignBlack
deriving DecidableEq, Repr

def GState.code : GState → String
  | .alive => "A" | .whiteMate => "WM" | .blackMate => "BM" | .whiteStalemate => "WS" | .blackStalemate => "BS"
  | .drawRep => "DR" | .draw50 => "D50" | .drawNoMate => "DN" | .drawAgree => "DA"
  | .resignWhite => "RW" | .resignBlack => "RB"

structure Game where
  pos : Pos
  moves : List Mv := []        -- moveList
  prevs : List Pos := []       -- position before moveList[i] (what unMakeMove with uiInfoList[i] restores)
  offers : List Bool := []     -- drawOfferList
  cur : Nat := 0               -- currentMove
  pending : Bool := false      -- pendingDrawOffer
  drawState : GState := .alive
  drawMove : Bool := false     -- drawStateMoveStr is non-empty
  resignState : GState := .alive

/-- identity of positions under the repetition rule as `Position::drawRuleEquals` computes it:
    board, side to move, castling mask, en-passant square -/
def drawKey (p : Pos) : Board × Bool × UInt8 × Option Sq := (p.b, p.wtm, p.castle, p.ep)

def drawRuleEquals (p q : Pos) : Bool := decide (drawKey p = drawKey q)

def darkSq (s : Sq) : Bool := (s.x + s.y) % 2 == 0

def countKind (b : Board) (pc : Pc) : Nat := allSq.countP fun s => b[s] == pc

/-- `Game::insufficientMaterial` -/
def insufficientMaterial (b : Board) : Bool :=
  if countKind b WQUEEN != 0 then false else
  if countKind b WROOK != 0 then false else
  if countKind b WPAWN != 0 then false else
  if countKind b BQUEEN != 0 then false else
  if countKind b BROOK != 0 then false else
  if countKind b BPAWN != 0 then false else
  let wb := countKind b WBISHOP
  let wn := countKind b WKNIGHT
  let bb := countKind b BBISHOP
  let bn := countKind b BKNIGHT
  if wb + wn + bb + bn ≤ 1 then true
  else if wn + bn == 0 then
    let isB (s : Sq) : Bool := b[s] == WBISHOP || b[s] == BBISHOP
    (allSq.all fun s => !(isB s && darkSq s)) || (allSq.all fun s => !(isB s && !darkSq s))
  else false

/-- `Game::getGameState` -/
def getGameState (g : Game) : GState :=
  if (genLegal g.pos).isEmpty then
    if inCheck g.pos.b g.pos.wtm then (if g.pos.wtm then .blackMate else .whiteMate)
    else (if g.pos.wtm then .whiteStalemate else .blackStalemate)
  else if insufficientMaterial g.pos.b then .drawNoMate
  else if g.resignState != .alive then g.resignState
  else g.drawState

/-- `Game::haveDrawOffer` -/
def haveDrawOffer (g : Game) : Bool :=
  if g.cur > 0 then g.offers.getD (g.cur - 1) false else false

/-- the part of `processString` after the move has been found legal: play it, normalise the en-passant square,
    cut the redo tail, record -/
def playMove (g : Game) (m : Mv) : Game :=
  { g with pos := fixupEP (apply g.pos m),
           moves := g.moves.take g.cur ++ [m],
           prevs := g.prevs.take g.cur ++ [g.pos],
           offers := g.offers.take g.cur ++ [g.pending],
           pending := false,
           cur := g.cur + 1 }

/-- a move string: accepted iff the game is alive and the move is legal -/
def processMove (g : Game) (m : Option Mv) : Game × Bool :=
  if getGameState g != .alive then (g, false) else
  match m with
  | none => (g, false)
  | some m => if legalB g.pos m then (playMove g m, true) else (g, false)

def newGame (p : Pos) : Game := { pos := p }

/-- the positions compared by a repetition claim: (position after the claimed move,) current position, then all
    earlier positions of the game back to its start, newest first -/
def claimPositions (g : Game) (m : Option Mv) : List Pos :=
  (match m with | some m => [apply g.pos m] | none => []) ++ [g.pos] ++ (g.prevs.take g.cur).reverse

def repValid (g : Game) (m : Option Mv) : Bool :=
  match claimPositions g m with
  | [] => false
  | first :: rest => decide (3 ≤ (first :: rest).countP fun q => drawRuleEquals q first)

def fiftyValid (g : Game) (m : Option Mv) : Bool :=
  let p := match m with | some m => apply g.pos m | none => g.pos
  decide (100 ≤ p.hmc)

/-- the legal move named by the text, if any (`stringToMove` yields the empty move otherwise) -/
def legalOnly (g : Game) (m : Option Mv) : Option Mv :=
  match m with
  | some m => if legalB g.pos m then some m else none
  | none => none

/-- `draw rep [m]` / `draw 50 [m]` in a live game -/
def claim (g : Game) (rep : Bool) (m : Option Mv) : Game :=
  let m := legalOnly g m
  let valid := if rep then repValid g m else fiftyValid g m
  if valid then { g with drawState := if rep then .drawRep else .draw50, drawMove := m.isSome }
  else
    let g := { g with pending := true }
    match m with
    | some m => (processMove g (some m)).1
    | none => g

inductive Cmd where
  | new
  | setpos (fen : String)
  | undo
  | redo
  | move (m : Option Mv)                 -- `none`: text that names no legal move
  | drawRep (m : Option Mv)
  | draw50 (m : Option Mv)
  | drawOffer (m : Option Mv)
  | drawAccept
  | resign
  | noop                                  -- swap / go / list / getpos: accepted, no effect on the game
  | junk                                  -- not a command and not a move

/-- `Game::processString`; returns the new state and the function's result -/
def processString (fixRedo : Bool) (g : Game) : Cmd → Game × Bool
  | .new => (match readFEN startFEN with | .ok p => newGame p | .error _ => g, true)
  | .setpos fen =>
    match readFEN fen with
    | .ok p => (newGame p, true)
    | .error _ => (g, true)
  | .undo =>
    if g.cur > 0 then
      match g.prevs[g.cur - 1]? with
      | some p => ({ g with pos := p, cur := g.cur - 1, pending := false, drawState := .alive, resignState := .alive }, true)
      | none => (g, true)
    else (g, true)
  | .redo =>
    match g.moves[g.cur]? with
    | some m =>
      let p := apply g.pos m
      -- `makeMove(moveList[cur], uiInfoList[cur])` rewrites the undo record from the current position
      ({ g with pos := if fixRedo then fixupEP p else p, prevs := g.prevs.set g.cur g.pos, cur := g.cur + 1, pending := false }, true)
    | none => (g, true)
  | .noop => (g, true)
  | .resign =>
    if getGameState g == .alive then ({ g with resignState := if g.pos.wtm then .resignWhite else .resignBlack }, true)
    else (g, true)
  | .drawRep m => if getGameState g == .alive then (claim g true m, true) else (g, true)
  | .draw50 m => if getGameState g == .alive then (claim g false m, true) else (g, true)
  | .drawOffer m =>
    if getGameState g == .alive then
      let g := { g with pending := true }
      match legalOnly g m with
      | some m => ((processMove g (some m)).1, true)
      | none => (g, true)
    else (g, true)
  | .drawAccept =>
    if getGameState g == .alive then
      (if haveDrawOffer g then { g with drawState := .drawAgree } else g, true)
    else (g, true)
  | .move m => processMove g m
  | .junk => (g, false)

end GameM
