import TexelVerif.Draw.History
import TexelVerif.Draw.ScanSpec
/-! Lemmas: what `setupPosition` builds; the ply-1 scan against occurrence counts. -/
namespace Hist
variable {P M H : Type}

theorem states_length (step : P → M → P) : ∀ (p : P) (ms : List M), (states step p ms).length = ms.length + 1
  | _, [] => rfl
  | p, m :: ms => by simp [states, states_length step (step p m) ms]

theorem buildLoop_snd (step : P → M → P) (hmc : P → Nat) (hash : P → H) :
    ∀ (p : P) (ms : List M) (acc : List H), (buildLoop step hmc hash p ms acc).2 = ms.foldl step p
  | p, [], acc => by simp [buildLoop]
  | p, m :: ms, acc => by
    simp only [buildLoop, List.foldl_cons]
    exact buildLoop_snd step hmc hash (step p m) ms _

theorem states_getLast? (step : P → M → P) : ∀ (p : P) (ms : List M), (states step p ms).getLast? = some (ms.foldl step p)
  | p, [] => by simp [states]
  | p, m :: ms => by
    simp only [states, List.foldl_cons]
    rw [List.getLast?_cons, states_getLast? step (step p m) ms]
    rfl

theorem states_last_index (step : P → M → P) (p : P) (ms : List M) :
    (states step p ms)[ms.length]? = some (ms.foldl step p) := by
  have h := states_getLast? step p ms
  rw [List.getLast?_eq_getElem?, states_length] at h
  simpa using h

theorem states_append (step : P → M → P) : ∀ (p : P) (ms : List M) (m : M),
    states step p (ms ++ [m]) = states step p ms ++ [step (ms.foldl step p) m]
  | p, [], m => by simp [states]
  | p, a :: ms, m => by
    simp only [List.cons_append, states, List.foldl_cons]
    rw [states_append step (step p a) ms m]

/-- generalised statement for the induction: with accumulator `acc` the result is `acc ++` all hashes when no zeroing
    move occurs, and the hashes from the last zeroing position otherwise -/
theorem buildLoop_spec (step : P → M → P) (hmc : P → Nat) (hash : P → H) :
    ∀ (p : P) (ms : List M) (acc : List H),
      ∃ k, k ≤ ms.length ∧
        (∀ j q, k < j → (states step p ms)[j]? = some q → hmc q ≠ 0) ∧
        ((k = 0 ∧ (buildLoop step hmc hash p ms acc).1 = acc ++ ((states step p ms).take ms.length).map hash) ∨
         (0 < k ∧ (∃ q, (states step p ms)[k]? = some q ∧ hmc q = 0) ∧
            (buildLoop step hmc hash p ms acc).1 = (((states step p ms).take ms.length).drop k).map hash))
  | p, [], acc => ⟨0, Nat.le_refl _, by
      intro j q hj hq
      simp only [states] at hq
      cases j with
      | zero => omega
      | succ j => simp at hq, Or.inl ⟨rfl, by simp [buildLoop]⟩⟩
  | p, m :: ms, acc => by
    obtain ⟨k', hk', hnz, hres⟩ := buildLoop_spec step hmc hash (step p m) ms
      (if hmc (step p m) = 0 then [] else acc ++ [hash p])
    simp only [buildLoop, states, List.length_cons, List.take_succ_cons]
    rcases hres with ⟨hk0, hr⟩ | ⟨hkpos, hz, hr⟩
    · subst hk0
      by_cases hz : hmc (step p m) = 0
      · -- the move just made is the last zeroing move: k = 1
        refine ⟨1, by omega, ?_, Or.inr ⟨by omega, ⟨step p m, ?_, hz⟩, ?_⟩⟩
        · intro j q hj hq
          obtain ⟨j', rfl⟩ : ∃ j', j = j' + 1 := ⟨j - 1, by omega⟩
          rw [List.getElem?_cons_succ] at hq
          exact hnz j' q (by omega) hq
        · cases ms <;> simp [states]
        · rw [hr]; simp [hz]
      · refine ⟨0, by omega, ?_, Or.inl ⟨rfl, ?_⟩⟩
        · intro j q hj hq
          obtain ⟨j', rfl⟩ : ∃ j', j = j' + 1 := ⟨j - 1, by omega⟩
          rw [List.getElem?_cons_succ] at hq
          cases j' with
          | zero =>
            have : (states step (step p m) ms)[0]? = some (step p m) := by cases ms <;> simp [states]
            rw [this] at hq
            cases hq
            exact hz
          | succ j'' => exact hnz (j'' + 1) q (by omega) hq
        · rw [hr]; simp [hz]
    · refine ⟨k' + 1, by omega, ?_, Or.inr ⟨by omega, ?_, ?_⟩⟩
      · intro j q hj hq
        obtain ⟨j', rfl⟩ : ∃ j', j = j' + 1 := ⟨j - 1, by omega⟩
        rw [List.getElem?_cons_succ] at hq
        exact hnz j' q (by omega) hq
      · obtain ⟨q, hq, hq0⟩ := hz
        exact ⟨q, by rw [List.getElem?_cons_succ]; exact hq, hq0⟩
      · rw [hr]; simp

/-- when every non-zeroing step increments the clock, the final clock is at least the length of the list built
    (so a list longer than 100 implies `canClaimDraw50` at the root, and the scan's lower bound `size - hmc` is ≤ 0
    for positions reached by reversible moves) -/
theorem buildLoop_clock (step : P → M → P) (hmc : P → Nat) (hash : P → H)
    (hstep : ∀ p m, hmc (step p m) = 0 ∨ hmc (step p m) = hmc p + 1) :
    ∀ (p : P) (ms : List M) (acc : List H), acc.length ≤ hmc p →
      (buildLoop step hmc hash p ms acc).1.length ≤ hmc (buildLoop step hmc hash p ms acc).2
  | p, [], acc, h => by simpa [buildLoop] using h
  | p, m :: ms, acc, h => by
    simp only [buildLoop]
    apply buildLoop_clock step hmc hash hstep
    by_cases hz : hmc (step p m) = 0
    · simp [hz]
    · rcases hstep p m with h0 | h1
      · exact absurd h0 hz
      · simp [h1]; exact h

/-! ### occurrence counting -/

theorem two_le_countP_iff {α : Type} (pr : α → Bool) : ∀ (l : List α),
    2 ≤ l.countP pr ↔ ∃ (i j : Nat), i < j ∧ (∃ a, l[i]? = some a ∧ pr a = true) ∧ (∃ b, l[j]? = some b ∧ pr b = true)
  | [] => by simp
  | x :: l => by
    have ih := two_le_countP_iff pr l
    have one : 1 ≤ l.countP pr ↔ ∃ (j : Nat) (b : α), l[j]? = some b ∧ pr b = true := by
      show 0 < l.countP pr ↔ _
      rw [List.countP_pos_iff]
      constructor
      · rintro ⟨b, hb, hp⟩
        obtain ⟨j, hj⟩ := List.getElem?_of_mem hb
        exact ⟨j, b, hj, hp⟩
      · rintro ⟨j, b, hj, hp⟩
        exact ⟨b, List.mem_of_getElem? hj, hp⟩
    by_cases hx : pr x = true
    · rw [List.countP_cons_of_pos hx]
      constructor
      · intro h2
        obtain ⟨j, b, hj, hp⟩ := one.1 (by omega)
        exact ⟨0, j + 1, by omega, ⟨x, by simp, hx⟩, ⟨b, by simpa using hj, hp⟩⟩
      · rintro ⟨i, j, hij, _, ⟨b, hb, hp⟩⟩
        obtain ⟨j', rfl⟩ : ∃ j', j = j' + 1 := ⟨j - 1, by omega⟩
        rw [List.getElem?_cons_succ] at hb
        have := one.2 ⟨j', b, hb, hp⟩
        omega
    · rw [List.countP_cons_of_neg hx, ih]
      constructor
      · rintro ⟨i, j, hij, ⟨a, ha, hpa⟩, ⟨b, hb, hpb⟩⟩
        exact ⟨i + 1, j + 1, by omega, ⟨a, by simpa using ha, hpa⟩, ⟨b, by simpa using hb, hpb⟩⟩
      · rintro ⟨i, j, hij, ⟨a, ha, hpa⟩, ⟨b, hb, hpb⟩⟩
        cases i with
        | zero => simp at ha; subst ha; exact absurd hpa hx
        | succ i' =>
          obtain ⟨j', rfl⟩ : ∃ j', j = j' + 1 := ⟨j - 1, by omega⟩
          rw [List.getElem?_cons_succ] at ha hb
          exact ⟨i', j', by omega, ⟨a, ha, hpa⟩, ⟨b, hb, hpb⟩⟩

/-! ### the scan when every list entry was played over the board -/

/-- soundness direction alone: needs only that the hash does not identify different positions -/
theorem scanOld_imp {K : Type} [DecidableEq K] (key : P → K) (hash : P → Nat)
    (l : List P) (new : P) (newHmc firstNew : Int)
    (hfn : (l.length : Int) - 3 ≤ firstNew)
    (hinj : ∀ q ∈ l, hash q = hash new → key q = key new)
    (h : scanOld hash l (hash new) newHmc firstNew = true) : 2 ≤ l.countP (fun q => decide (key q = key new)) := by
  unfold scanOld at h
  rw [Rep.canClaimDrawRep_iff] at h
  rw [two_le_countP_iff]
  have hget : ∀ (i : Nat) (q : P), l[i]? = some q → (l.map hash).getD i 0 = hash q := by
    intro i q hq
    rw [List.getD_eq_getElem?_getD, List.getElem?_map, hq]; rfl
  have hsome : ∀ i : Nat, i < l.length → ∃ q, l[i]? = some q := by
    intro i hi
    exact ⟨l[i], List.getElem?_eq_getElem hi⟩
  obtain ⟨i, hw, he, hr⟩ := h
  have hw0 := hw
  unfold Rep.InWindow at hw0
  have hi0 : 0 ≤ i := by omega
  rcases hr with hf | ⟨j, hwj, hne, hej⟩
  · exfalso; omega
  · have hwj0 := hwj
    unfold Rep.InWindow at hwj0
    obtain ⟨a, ha⟩ := hsome i.toNat (by omega)
    obtain ⟨b, hb⟩ := hsome j.toNat (by omega)
    rw [hget _ _ ha] at he
    rw [hget _ _ hb] at hej
    have ka := hinj a (List.mem_of_getElem? ha) he
    have kb := hinj b (List.mem_of_getElem? hb) hej
    by_cases hlt : i < j
    · exact ⟨i.toNat, j.toNat, by omega, ⟨a, ha, by simpa using ka⟩, ⟨b, hb, by simpa using kb⟩⟩
    · exact ⟨j.toNat, i.toNat, by omega, ⟨b, hb, by simpa using kb⟩, ⟨a, ha, by simpa using ka⟩⟩

/-- **All entries old.**  `l` are the positions whose hashes are in the list (oldest first), `new` the position tested,
    `newHmc` its half-move clock.  `key` is identity under the rules.  Hypotheses: the hash separates exactly the
    `key`-classes on these positions (`hinj`: no collisions; `hwf`: positions equal under the rules carry equal hashes —
    in particular equal en-passant flags); an earlier occurrence lies at even distance ≥ 4 (`hwin`); the clock covers
    the list, or nothing in the list equals the new position (`hclk`). -/
theorem scanOld_iff {K : Type} [DecidableEq K] (key : P → K) (hash : P → Nat)
    (l : List P) (new : P) (newHmc firstNew : Int)
    (hfn : (l.length : Int) - 3 ≤ firstNew)
    (hinj : ∀ q ∈ l, hash q = hash new → key q = key new)
    (hwf : ∀ q ∈ l, key q = key new → hash q = hash new)
    (hwin : ∀ (i : Nat) q, l[i]? = some q → key q = key new → i + 4 ≤ l.length ∧ (l.length - i) % 2 = 0)
    (hclk : ((l.length : Int) ≤ newHmc) ∨ ∀ q ∈ l, key q ≠ key new) :
    scanOld hash l (hash new) newHmc firstNew = true ↔ 2 ≤ l.countP (fun q => decide (key q = key new)) := by
  unfold scanOld
  rw [Rep.canClaimDrawRep_iff, two_le_countP_iff]
  have hget : ∀ (i : Nat) (q : P), l[i]? = some q → (l.map hash).getD i 0 = hash q := by
    intro i q hq
    rw [List.getD_eq_getElem?_getD, List.getElem?_map, hq]; rfl
  have hsome : ∀ i : Nat, i < l.length → ∃ q, l[i]? = some q := by
    intro i hi
    exact ⟨l[i], List.getElem?_eq_getElem hi⟩
  constructor
  · intro h
    have := scanOld_imp key hash l new newHmc firstNew hfn hinj (by unfold scanOld; rw [Rep.canClaimDrawRep_iff]; exact h)
    rwa [two_le_countP_iff] at this
  · rintro ⟨i, j, hij, ⟨a, ha, hpa⟩, ⟨b, hb, hpb⟩⟩
    have ka : key a = key new := by simpa using hpa
    have kb : key b = key new := by simpa using hpb
    have hc : (l.length : Int) ≤ newHmc := by
      rcases hclk with h | h
      · exact h
      · exact absurd ka (h a (List.mem_of_getElem? ha))
    obtain ⟨wa1, wa2⟩ := hwin i a ha ka
    obtain ⟨wb1, wb2⟩ := hwin j b hb kb
    have ea := hwf a (List.mem_of_getElem? ha) ka
    have eb := hwf b (List.mem_of_getElem? hb) kb
    refine ⟨(i : Int), ?_, ?_, Or.inr ⟨(j : Int), ?_, by omega, ?_⟩⟩
    · unfold Rep.InWindow; omega
    · rw [Int.toNat_natCast, hget _ _ ha]; exact ea
    · unfold Rep.InWindow; omega
    · rw [Int.toNat_natCast, hget _ _ hb]; exact eb

/-- the ply-1 scan is the all-old scan over the given history plus the root position -/
theorem scanPly1_eq (hash : P → Nat) (qs : List P) (root : P) (newHash : Nat) (newHmc : Int) (multiPV : Bool) :
    scanPly1 (qs.map hash) (hash root) newHash newHmc multiPV =
      scanOld hash (qs ++ [root]) newHash newHmc (qs.length + (if multiPV then 1 else 0)) := by
  unfold scanPly1 scanOld
  simp

end Hist
