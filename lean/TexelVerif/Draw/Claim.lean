import TexelVerif.Draw.Game
import TexelVerif.Draw.History
/-!
# The computer player's draw claims (`ComputerPlayer::canClaimDraw`, computerPlayer.cpp:146-170)

`Game::getHistory` collects the positions back to the last zeroing move; the player hashes them, and tests the
50-move counter and the repetition scan for the current position and for the position after its move, with
`posHashFirstNew = posHashListSize` (every entry was played over the board).
-/
namespace GameM
open Chess

/-- `Game::getHistory`: walk back from the current position while its clock is non-zero -/
def historyFrom : Pos → List Pos → List Pos → List Pos
  | _, [], acc => acc
  | p, q :: older, acc => if p.hmc = 0 then acc else historyFrom q older (q :: acc)

/-- positions before the current one, back to the last zeroing move, oldest first -/
def getHistory (g : Game) : List Pos := historyFrom g.pos (g.prevs.take g.cur).reverse []

inductive CpClaim where
  | none | d50 | rep | d50m | repm
deriving DecidableEq, Repr

def CpClaim.code : CpClaim → String
  | .none => "none" | .d50 => "50" | .rep => "rep" | .d50m => "50m" | .repm => "repm"

/-- `ComputerPlayer::canClaimDraw` for a hash function `hash` -/
def canClaimDraw (hash : Pos → Nat) (hist : List Pos) (p : Pos) (m : Mv) : CpClaim :=
  if 100 ≤ p.hmc then .d50
  else if Hist.scanOld hash hist (hash p) p.hmc hist.length then .rep
  else
    let q := apply p m
    if 100 ≤ q.hmc then .d50m
    else if Hist.scanOld hash (hist ++ [p]) (hash q) q.hmc (hist.length + 1) then .repm
    else .none

end GameM
