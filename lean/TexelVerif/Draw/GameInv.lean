import TexelVerif.Draw.GameLemmas
/-! Reachable states of the console game: the record is a legal game from its start position. -/
namespace GameM
open Chess Hist

/-- the game record is consistent -/
structure Inv (g : Game) : Prop where
  lenP : g.prevs.length = g.moves.length
  lenO : g.offers.length = g.moves.length
  curLe : g.cur ≤ g.moves.length
  legal : ∀ (i : Nat) (p : Pos) (m : Mv), g.prevs[i]? = some p → g.moves[i]? = some m → legalB p m = true
  chain : ∀ (i : Nat) (p : Pos) (m : Mv) (q : Pos), g.prevs[i]? = some p → g.moves[i]? = some m → g.prevs[i+1]? = some q → q = nextPos p m
  here : ∀ p : Pos, g.prevs[g.cur]? = some p → g.pos = p
  last : ∀ (p : Pos) (m : Mv), g.cur = g.moves.length → 0 < g.cur → g.prevs[g.cur - 1]? = some p → g.moves[g.cur - 1]? = some m →
            g.pos = nextPos p m

theorem inv_newGame (p : Pos) : Inv (newGame p) := by
  refine ⟨rfl, rfl, Nat.le_refl _, ?_, ?_, ?_, ?_⟩ <;> simp [newGame]

theorem inv_playMove (g : Game) (m : Mv) (h : Inv g) (hm : legalB g.pos m = true) : Inv (playMove g m) := by
  have hc := h.curLe
  have hlp := h.lenP
  have hlo := h.lenO
  refine ⟨?_, ?_, ?_, ?_, ?_, ?_, ?_⟩
  · simp [playMove, hlp, Nat.min_eq_left hc]
  · simp [playMove, hlo, Nat.min_eq_left hc]
  · simp [playMove, Nat.min_eq_left hc]
  · -- legal
    intro i p mv hp hmv
    simp only [playMove] at hp hmv
    by_cases hi : i < g.cur
    · rw [List.getElem?_append_left (by simp [hlp]; omega), List.getElem?_take_of_lt hi] at hp
      rw [List.getElem?_append_left (by simp; omega), List.getElem?_take_of_lt hi] at hmv
      exact h.legal i p mv hp hmv
    · have hic : i = g.cur := by
        have := List.getElem?_eq_some_iff.1 hp
        obtain ⟨hl, _⟩ := this
        simp [hlp, Nat.min_eq_left hc] at hl
        omega
      subst hic
      rw [List.getElem?_append_right (by simp [hlp]; omega)] at hp
      rw [List.getElem?_append_right (by simp; omega)] at hmv
      simp [hlp, Nat.min_eq_left hc] at hp hmv
      subst hp; subst hmv
      exact hm
  · -- chain
    intro i p mv q hp hmv hq
    simp only [playMove] at hp hmv hq
    have hi1 : i + 1 ≤ g.cur := by
      have := List.getElem?_eq_some_iff.1 hq
      obtain ⟨hl, _⟩ := this
      simp [hlp, Nat.min_eq_left hc] at hl
      omega
    rw [List.getElem?_append_left (by simp [hlp]; omega), List.getElem?_take_of_lt (by omega)] at hp
    rw [List.getElem?_append_left (by simp; omega), List.getElem?_take_of_lt (by omega)] at hmv
    by_cases hi : i + 1 < g.cur
    · rw [List.getElem?_append_left (by simp [hlp]; omega), List.getElem?_take_of_lt hi] at hq
      exact h.chain i p mv q hp hmv hq
    · have hic : i + 1 = g.cur := by omega
      rw [List.getElem?_append_right (by simp [hlp]; omega)] at hq
      simp [hlp, Nat.min_eq_left hc, hic] at hq
      subst hq
      -- g.pos is the position after move i
      by_cases hcl : g.cur = g.moves.length
      · have := h.last p mv hcl (by omega) (by rw [← hic]; simpa using hp) (by rw [← hic]; simpa using hmv)
        exact this
      · have hlt : g.cur < g.prevs.length := by omega
        have hh := h.here (g.prevs[g.cur]) (List.getElem?_eq_getElem hlt)
        rw [hh]
        exact h.chain i p mv _ hp hmv (by rw [hic]; exact List.getElem?_eq_getElem hlt)
  · -- here: index cur+1 is beyond the list
    intro p hp
    simp only [playMove] at hp
    have := List.getElem?_eq_some_iff.1 hp
    obtain ⟨hl, _⟩ := this
    simp [hlp, Nat.min_eq_left hc] at hl
  · -- last
    intro p mv _ _ hp hmv
    simp only [playMove, Nat.add_sub_cancel] at hp hmv ⊢
    rw [List.getElem?_append_right (by simp [hlp]; omega)] at hp
    rw [List.getElem?_append_right (by simp; omega)] at hmv
    simp [hlp, Nat.min_eq_left hc] at hp hmv
    subst hp; subst hmv
    rfl

theorem inv_congr (g g' : Game) (h : Inv g) (h1 : g'.pos = g.pos) (h2 : g'.moves = g.moves) (h3 : g'.prevs = g.prevs)
    (h4 : g'.offers = g.offers) (h5 : g'.cur = g.cur) : Inv g' := by
  refine ⟨?_, ?_, ?_, ?_, ?_, ?_, ?_⟩
  · rw [h3, h2]; exact h.lenP
  · rw [h4, h2]; exact h.lenO
  · rw [h5, h2]; exact h.curLe
  · rw [h3, h2]; exact h.legal
  · rw [h3, h2]; exact h.chain
  · rw [h3, h5, h1]; exact h.here
  · rw [h3, h2, h5, h1]; exact h.last

theorem inv_processMove (g : Game) (m : Option Mv) (h : Inv g) : Inv (processMove g m).1 := by
  unfold processMove
  split
  · exact h
  · split
    · exact h
    · split
      · next hm => exact inv_playMove g _ h hm
      · exact h

theorem inv_claim (g : Game) (rep : Bool) (m : Option Mv) (h : Inv g) : Inv (claim g rep m) := by
  have hp : Inv { g with pending := true } := inv_congr g _ h rfl rfl rfl rfl rfl
  unfold claim
  cases rep
  all_goals
    simp only [Bool.false_eq_true, if_false, if_true]
    split
    · exact inv_congr g _ h rfl rfl rfl rfl rfl
    · split
      · exact inv_processMove _ _ hp
      · exact hp

theorem inv_undo (g : Game) (h : Inv g) : Inv (processString true g .undo).1 := by
  simp only [processString]
  split
  · next hc =>
    split
    · next p hp =>
      refine ⟨h.lenP, h.lenO, by simp only []; have := h.curLe; omega, h.legal, h.chain, ?_, ?_⟩
      · intro q hq
        simp only [] at hq ⊢
        rw [hp] at hq; cases hq; rfl
      · intro q mv hcl
        simp only [] at hcl
        have := h.curLe
        omega
    · exact h
  · exact h

theorem inv_redo (g : Game) (h : Inv g) : Inv (processString true g .redo).1 := by
  simp only [processString]
  split
  · next m hm =>
    have hlt : g.cur < g.moves.length := (List.getElem?_eq_some_iff.1 hm).1
    have hltp : g.cur < g.prevs.length := by rw [h.lenP]; exact hlt
    have hpos : g.prevs[g.cur]? = some g.pos := by
      rw [List.getElem?_eq_getElem hltp]
      exact congrArg some (h.here _ (List.getElem?_eq_getElem hltp)).symm
    have hset : g.prevs.set g.cur g.pos = g.prevs := by
      apply List.ext_getElem?
      intro i
      by_cases hi : g.cur = i
      · subst hi; rw [List.getElem?_set_self hltp, hpos]
      · rw [List.getElem?_set_ne hi]
    simp only [if_true, hset]
    refine ⟨h.lenP, h.lenO, by simp only []; omega, h.legal, h.chain, ?_, ?_⟩
    · intro q hq
      simp only [] at hq ⊢
      exact (h.chain g.cur g.pos m q hpos hm hq).symm
    · intro p mv _ _ hp hmv
      simp only [Nat.add_sub_cancel] at hp hmv ⊢
      rw [hpos] at hp; rw [hm] at hmv
      cases hp; cases hmv; rfl
  · exact h

/-- **every command preserves the consistency of the game record** (with the repaired `redo`) -/
theorem inv_processString (g : Game) (c : Cmd) (h : Inv g) : Inv (processString true g c).1 := by
  cases c with
  | new => simp only [processString]; split <;> first | exact inv_newGame _ | exact h
  | setpos fen => simp only [processString]; split <;> first | exact inv_newGame _ | exact h
  | undo => exact inv_undo g h
  | redo => exact inv_redo g h
  | move m => exact inv_processMove g m h
  | drawRep m => simp only [processString]; split <;> first | exact inv_claim g true m h | exact h
  | draw50 m => simp only [processString]; split <;> first | exact inv_claim g false m h | exact h
  | drawOffer m =>
    simp only [processString]
    split
    · have hp : Inv { g with pending := true } := inv_congr g _ h rfl rfl rfl rfl rfl
      split
      · exact inv_processMove _ _ hp
      · exact hp
    · exact h
  | drawAccept =>
    simp only [processString]
    split
    · split
      · exact inv_congr g _ h rfl rfl rfl rfl rfl
      · exact h
    · exact h
  | resign =>
    simp only [processString]
    split
    · exact inv_congr g _ h rfl rfl rfl rfl rfl
    · exact h
  | noop => exact h
  | junk => exact h

/-! ### the record is a legal game -/

theorem chain_is_states (step : Pos → Mv → Pos) : ∀ (ms : List Mv) (L : List Pos), L.length = ms.length + 1 →
    (∀ (k : Nat) (p : Pos) (m : Mv) (q : Pos), L[k]? = some p → ms[k]? = some m → L[k+1]? = some q → q = step p m) →
    ∃ p0 rest, L = p0 :: rest ∧ L = states step p0 ms
  | [], L, hl, _ => by
    match L, hl with
    | [p0], _ => exact ⟨p0, [], rfl, rfl⟩
  | m :: ms, L, hl, hc => by
    match L, hl with
    | p0 :: q :: rest, hl =>
      have hq : q = step p0 m := hc 0 p0 m q rfl rfl rfl
      obtain ⟨p1, rest', e1, e2⟩ := chain_is_states step ms (q :: rest) (by simpa using hl)
        (fun k p mv r hp hm hr => hc (k + 1) p mv r (by simpa using hp) (by simpa using hm) (by simpa using hr))
      have hp1 : p1 = q := by injection e1 with a _; exact a.symm
      subst hp1
      refine ⟨p0, p1 :: rest, rfl, ?_⟩
      simp only [states]
      rw [← hq, ← e2]

theorem legal_is_legalLine : ∀ (p0 : Pos) (ms : List Mv),
    (∀ (k : Nat) (p : Pos) (m : Mv), (states nextPos p0 ms)[k]? = some p → ms[k]? = some m → legalB p m = true) →
    LegalLine p0 ms
  | _, [], _ => trivial
  | p0, m :: ms, h => by
    refine ⟨h 0 p0 m (by simp [states]) rfl, legal_is_legalLine (nextPos p0 m) ms ?_⟩
    intro k p mv hp hm
    exact h (k + 1) p mv (by simpa [states] using hp) (by simpa using hm)

/-- **the positions of a consistent record are the positions of a legal game** played from its first position with
    the first `currentMove` moves of the move list -/
theorem inv_gamePositions (g : Game) (h : Inv g) :
    ∃ p0, (gamePositions g).head? = some p0 ∧ gamePositions g = states nextPos p0 (g.moves.take g.cur) ∧
      LegalLine p0 (g.moves.take g.cur) := by
  have hc := h.curLe
  have hlp := h.lenP
  have hlen : (gamePositions g).length = (g.moves.take g.cur).length + 1 := by
    simp [gamePositions, hlp, Nat.min_eq_left hc]
  -- element k of gamePositions
  have hget : ∀ (k : Nat) (p : Pos), (gamePositions g)[k]? = some p → (k < g.cur ∧ g.prevs[k]? = some p) ∨ (k = g.cur ∧ p = g.pos) := by
    intro k p hp
    unfold gamePositions at hp
    by_cases hk : k < g.cur
    · rw [List.getElem?_append_left (by simp [hlp]; omega), List.getElem?_take_of_lt hk] at hp
      exact Or.inl ⟨hk, hp⟩
    · have hl := (List.getElem?_eq_some_iff.1 hp).1
      simp [hlp, Nat.min_eq_left hc] at hl
      have : k = g.cur := by omega
      subst this
      rw [List.getElem?_append_right (by simp [hlp]; omega)] at hp
      simp [hlp, Nat.min_eq_left hc] at hp
      exact Or.inr ⟨rfl, hp.symm⟩
  have hstep : ∀ (k : Nat) (p : Pos) (m : Mv) (q : Pos), (gamePositions g)[k]? = some p → (g.moves.take g.cur)[k]? = some m →
      (gamePositions g)[k+1]? = some q → q = nextPos p m := by
    intro k p m q hp hm hq
    have hk : k < g.cur := by
      have := (List.getElem?_eq_some_iff.1 hm).1
      simp at this; omega
    rw [List.getElem?_take_of_lt hk] at hm
    rcases hget k p hp with ⟨_, hp'⟩ | ⟨hk', _⟩
    · rcases hget (k + 1) q hq with ⟨_, hq'⟩ | ⟨hk1, hq'⟩
      · exact h.chain k p m q hp' hm hq'
      · subst hq'
        by_cases hcl : g.cur = g.moves.length
        · exact h.last p m hcl (by omega) (by rw [← hk1]; simpa using hp') (by rw [← hk1]; simpa using hm)
        · have hlt : g.cur < g.prevs.length := by omega
          rw [h.here _ (List.getElem?_eq_getElem hlt)]
          exact h.chain k p m _ hp' hm (by rw [hk1]; exact List.getElem?_eq_getElem hlt)
    · omega
  obtain ⟨p0, rest, e1, e2⟩ := chain_is_states nextPos (g.moves.take g.cur) (gamePositions g) hlen hstep
  refine ⟨p0, by rw [e1]; rfl, e2, ?_⟩
  apply legal_is_legalLine
  intro k p m hp hm
  rw [← e2] at hp
  have hk : k < g.cur := by
    have := (List.getElem?_eq_some_iff.1 hm).1
    simp at this; omega
  rw [List.getElem?_take_of_lt hk] at hm
  rcases hget k p hp with ⟨_, hp'⟩ | ⟨hk', _⟩
  · exact h.legal k p m hp' hm
  · omega

/-! ### every position of the record is normalised -/

/-- the current position and all recorded positions carry an e.p. square only if an e.p. capture is legal -/
def NormInv (g : Game) : Prop := Norm g.pos ∧ ∀ q ∈ g.prevs, Norm q

theorem norm_newGame (p : Pos) (h : Norm p) : NormInv (newGame p) := ⟨h, by simp [newGame]⟩

theorem norm_playMove (g : Game) (m : Mv) (h : NormInv g) : NormInv (playMove g m) := by
  refine ⟨norm_fixupEP _, ?_⟩
  intro q hq
  simp only [playMove, List.mem_append, List.mem_singleton] at hq
  rcases hq with hq | rfl
  · exact h.2 q (List.mem_of_mem_take hq)
  · exact h.1

theorem norm_processMove (g : Game) (m : Option Mv) (h : NormInv g) : NormInv (processMove g m).1 := by
  unfold processMove
  split
  · exact h
  · split
    · exact h
    · split
      · exact norm_playMove g _ h
      · exact h

theorem norm_claim (g : Game) (rep : Bool) (m : Option Mv) (h : NormInv g) : NormInv (claim g rep m) := by
  have hp : NormInv { g with pending := true } := h
  unfold claim
  cases rep
  all_goals
    simp only [Bool.false_eq_true, if_false, if_true]
    split
    · exact h
    · split
      · exact norm_processMove _ _ hp
      · exact hp

/-- **every command keeps all positions normalised** (with the repaired `redo`; `new` / `setpos` start from the FEN
    reader's output, which is normalised) -/
theorem norm_processString (g : Game) (c : Cmd) (h : NormInv g) : NormInv (processString true g c).1 := by
  cases c with
  | new =>
    simp only [processString]
    split
    · next p hp => exact norm_newGame p (readFEN_norm _ p hp)
    · exact h
  | setpos fen =>
    simp only [processString]
    split
    · next p hp => exact norm_newGame p (readFEN_norm _ p hp)
    · exact h
  | undo =>
    simp only [processString]
    split
    · split
      · next p hp => exact ⟨h.2 p (List.mem_of_getElem? hp), h.2⟩
      · exact h
    · exact h
  | redo =>
    simp only [processString]
    split
    · refine ⟨by simp only [if_true]; exact norm_fixupEP _, ?_⟩
      intro q hq
      simp only [] at hq
      rcases List.mem_or_eq_of_mem_set hq with hq | rfl
      · exact h.2 q hq
      · exact h.1
    · exact h
  | move m => exact norm_processMove g m h
  | drawRep m => simp only [processString]; split <;> first | exact norm_claim g true m h | exact h
  | draw50 m => simp only [processString]; split <;> first | exact norm_claim g false m h | exact h
  | drawOffer m =>
    simp only [processString]
    split
    · have hp : NormInv { g with pending := true } := h
      split
      · exact norm_processMove _ _ hp
      · exact hp
    · exact h
  | drawAccept =>
    simp only [processString]
    split
    · split
      · exact h
      · exact h
    · exact h
  | resign =>
    simp only [processString]
    split
    · exact h
    · exact h
  | noop => exact h
  | junk => exact h

/-- states reachable by the commands of the (repaired) console game from a start position as the FEN reader gives it -/
inductive Reach : Game → Prop
  | start (p0 : Pos) : Norm p0 → Reach (newGame p0)
  | step (g : Game) (c : Cmd) : Reach g → Reach (processString true g c).1

theorem reach_inv (g : Game) (h : Reach g) : Inv g ∧ NormInv g := by
  induction h with
  | start p0 hn => exact ⟨inv_newGame p0, norm_newGame p0 hn⟩
  | step g c _ ih => exact ⟨inv_processString g c ih.1, norm_processString g c ih.2⟩

theorem gamePositions_norm (g : Game) (h : NormInv g) : ∀ q ∈ gamePositions g, Norm q := by
  intro q hq
  simp only [gamePositions, List.mem_append, List.mem_singleton] at hq
  rcases hq with hq | rfl
  · exact h.2 q (List.mem_of_mem_take hq)
  · exact h.1

end GameM
