import TexelVerif.Draw.Third
/-!
# The defect of the unrepaired history builder, as a concrete game

`position fen 3k4/8/8/8/3p4/8/4P3/3R2K1 w - - 0 1 moves e2e4 d8d7 g1g2 d7d8 g2g1 d8e8 g1g2 e8d8`, root move `g2g1`.
After `e2e4` the black d-pawn stands beside the pushed pawn, so `Position::makeMove` sets the e.p. square e3, but the
pawn is pinned on the d-file: no e.p. capture is legal, and under the rules this position is the one that recurs after
`g2g1` twice more.  The builder before the repair (raw `makeMove`, here `Chess.apply`) keeps the e3 flag in the first
list entry.
-/
namespace Chess
open Hist GameM

def wBoard : Board :=
  setSq (setSq (setSq (setSq (setSq (Vector.replicate 64 0) 59 BKING) 27 BPAWN) 12 WPAWN) 3 WROOK) 6 WKING

/-- 3k4/8/8/8/3p4/8/4P3/3R2K1 w - - 0 1 -/
def wP0 : Pos := { b := wBoard, wtm := true, castle := 0, ep := none, hmc := 0, fmc := 1 }

def mv (f t : Nat) (hf : f < 64 := by decide) (ht : t < 64 := by decide) : Mv := { f := ⟨f, hf⟩, t := ⟨t, ht⟩, promo := 0 }

/-- e2e4 d8d7 g1g2 d7d8 g2g1 d8e8 g1g2 e8d8 -/
def wMoves : List Mv := [mv 12 28, mv 59 51, mv 6 14, mv 51 59, mv 14 6, mv 59 60, mv 6 14, mv 60 59]

/-- g2g1 -/
def wM : Mv := mv 14 6

/-- the history builder before the repair: raw `makeMove` -/
def rawHistory (p0 : Pos) (ms : List Mv) : List Pos × Pos := Hist.setupPosition apply (·.hmc) (fun q => q) p0 ms

end Chess
