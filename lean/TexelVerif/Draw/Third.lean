import TexelVerif.Draw.ChessLemmas
import TexelVerif.Draw.HistoryLemmas
import TexelVerif.Draw.Game
/-!
# Legal games: the window loses nothing; the third occurrence at ply 1 on the chess specification
-/
namespace Chess
open Hist GameM

/-- every move of the line is legal in the position it is played in (positions e.p.-normalised after every move) -/
def LegalLine : Pos → List Mv → Prop
  | _, [] => True
  | p, m :: ms => legalB p m = true ∧ LegalLine (nextPos p m) ms

def legalLineB : Pos → List Mv → Bool
  | _, [] => true
  | p, m :: ms => legalB p m && legalLineB (nextPos p m) ms

theorem legalLineB_iff : ∀ (p : Pos) (ms : List Mv), legalLineB p ms = true ↔ LegalLine p ms
  | _, [] => by simp [legalLineB, LegalLine]
  | p, m :: ms => by simp [legalLineB, LegalLine, legalLineB_iff (nextPos p m) ms]

instance (p : Pos) (ms : List Mv) : Decidable (LegalLine p ms) := decidable_of_iff _ (legalLineB_iff p ms)

/-- positions equal under the repetition rule: same board, side to move, castling rights and e.p. capturability -/
def sameRules (p q : Pos) : Prop := drawKey (fixupEP p) = drawKey (fixupEP q)

instance (p q : Pos) : Decidable (sameRules p q) := by unfold sameRules; exact inferInstance

theorem sameRules_of_norm {p q : Pos} (hp : Norm p) (hq : Norm q) : sameRules p q ↔ drawKey p = drawKey q := by
  unfold sameRules; rw [hp, hq]

theorem drawKey_b_wtm {p q : Pos} (h : drawKey p = drawKey q) : p.b = q.b ∧ p.wtm = q.wtm := by
  unfold drawKey at h
  simp only [Prod.mk.injEq] at h
  exact ⟨h.1, h.2.1⟩

theorem sameRules_b_wtm {p q : Pos} (h : sameRules p q) : p.b = q.b ∧ p.wtm = q.wtm := by
  have := drawKey_b_wtm h
  simpa using this

/-! ### positions of a legal game -/

theorem states_getElem?_zero (step : Pos → Mv → Pos) (p : Pos) (ms : List Mv) : (states step p ms)[0]? = some p := by
  cases ms <;> simp [states]

theorem states_getElem?_succ (step : Pos → Mv → Pos) (p : Pos) (m : Mv) (ms : List Mv) (j : Nat) :
    (states step p (m :: ms))[j + 1]? = (states step (step p m) ms)[j]? := by
  simp [states]

/-- side to move along the line -/
theorem states_wtm : ∀ (p : Pos) (ms : List Mv) (j : Nat) (q : Pos), (states nextPos p ms)[j]? = some q →
    q.wtm = (if j % 2 = 0 then p.wtm else !p.wtm)
  | p, ms, 0, q, h => by
    rw [states_getElem?_zero] at h; cases h; simp
  | p, [], j + 1, q, h => by simp [states] at h
  | p, m :: ms, j + 1, q, h => by
    rw [states_getElem?_succ] at h
    have := states_wtm (nextPos p m) ms j q h
    rw [this, nextPos_wtm]
    by_cases hj : j % 2 = 0
    · have : (j + 1) % 2 ≠ 0 := by omega
      simp [hj, this]
    · have : (j + 1) % 2 = 0 := by omega
      simp [hj, this]

/-- a later position of a legal line with the board and side to move of the first one is at least four plies later,
    at an even distance -/
theorem first_repeats_late (p : Pos) (ms : List Mv) (hl : LegalLine p ms) (j : Nat) (q : Pos) (hj : 0 < j)
    (hq : (states nextPos p ms)[j]? = some q) (hb : q.b = p.b) (hw : q.wtm = p.wtm) : 4 ≤ j ∧ j % 2 = 0 := by
  have hpar : j % 2 = 0 := by
    have := states_wtm p ms j q hq
    rw [hw] at this
    by_cases h : j % 2 = 0
    · exact h
    · simp [h] at this
  refine ⟨?_, hpar⟩
  -- j is even and positive: exclude j = 2
  by_cases h2 : j = 2
  · subst h2
    match ms, hl, hq with
    | m1 :: m2 :: rest, hl, hq =>
      simp only [LegalLine] at hl
      have : (states nextPos p (m1 :: m2 :: rest))[2]? = some (nextPos (nextPos p m1) m2) := by
        rw [states_getElem?_succ, states_getElem?_succ, states_getElem?_zero]
      rw [this] at hq
      cases hq
      exact absurd hb (board_ne_two_plies p m1 m2 hl.1 hl.2.1)
    | [m1], _, hq => simp [states] at hq
    | [], _, hq => simp [states] at hq
  · omega

theorem states_drop : ∀ (p : Pos) (ms : List Mv) (i : Nat) (q : Pos), (states nextPos p ms)[i]? = some q →
    (states nextPos p ms).drop i = states nextPos q (ms.drop i)
  | p, ms, 0, q, h => by
    rw [states_getElem?_zero] at h; cases h; simp
  | p, [], i + 1, q, h => by simp [states] at h
  | p, m :: ms, i + 1, q, h => by
    rw [states_getElem?_succ] at h
    simpa [states] using states_drop (nextPos p m) ms i q h

theorem legalLine_drop : ∀ (p : Pos) (ms : List Mv) (i : Nat) (q : Pos), LegalLine p ms →
    (states nextPos p ms)[i]? = some q → LegalLine q (ms.drop i)
  | p, ms, 0, q, hl, h => by
    rw [states_getElem?_zero] at h; cases h; simpa using hl
  | p, [], i + 1, q, _, h => by simp [states] at h
  | p, m :: ms, i + 1, q, hl, h => by
    rw [states_getElem?_succ] at h
    simpa using legalLine_drop (nextPos p m) ms i q hl.2 h

/-- **`window_loses_nothing`** on the positions of a legal game: two positions with the same board and side to move
    are an even number of plies, and at least four, apart -/
theorem window_loses_nothing (p : Pos) (ms : List Mv) (hl : LegalLine p ms) (i j : Nat) (a b : Pos) (hij : i < j)
    (ha : (states nextPos p ms)[i]? = some a) (hb : (states nextPos p ms)[j]? = some b)
    (hbb : b.b = a.b) (hw : b.wtm = a.wtm) : 4 ≤ j - i ∧ (j - i) % 2 = 0 := by
  have hd := states_drop p ms i a ha
  have hl' := legalLine_drop p ms i a hl ha
  have hb' : (states nextPos a (ms.drop i))[j - i]? = some b := by
    rw [← hd, List.getElem?_drop]
    have : i + (j - i) = j := by omega
    rw [this]; exact hb
  exact first_repeats_late a (ms.drop i) hl' (j - i) b (by omega) hb' hbb hw

theorem states_norm : ∀ (p : Pos) (ms : List Mv), Norm p → ∀ q ∈ states nextPos p ms, Norm q
  | p, [], hp, q, hq => by simp [states] at hq; rw [hq]; exact hp
  | p, m :: ms, hp, q, hq => by
    simp only [states, List.mem_cons] at hq
    rcases hq with rfl | hq
    · exact hp
    · exact states_norm (nextPos p m) ms (norm_nextPos p m) q hq

theorem legalLine_append : ∀ (p : Pos) (ms : List Mv) (m : Mv), LegalLine p ms →
    legalB (ms.foldl nextPos p) m = true → LegalLine p (ms ++ [m])
  | p, [], m, _, h => by simpa [LegalLine] using h
  | p, a :: ms, m, hl, h => by
    simp only [List.cons_append, LegalLine]
    exact ⟨hl.1, legalLine_append (nextPos p a) ms m hl.2 (by simpa using h)⟩

/-! ### the third occurrence at ply 1 -/

/-- what the repaired `EngineControl::setupPosition` hands to the search: the positions whose hashes are in the list,
    and the root position -/
def givenHistory (p0 : Pos) (ms : List Mv) : List Pos × Pos := Hist.setupPosition nextPos (·.hmc) (fun q => q) p0 ms

theorem givenHistory_root (p0 : Pos) (ms : List Mv) : (givenHistory p0 ms).2 = ms.foldl nextPos p0 := by
  unfold givenHistory setupPosition
  exact buildLoop_snd _ _ _ _ _ _

/-- the list plus the root position is a suffix of the game's positions -/
theorem givenHistory_suffix (p0 : Pos) (ms : List Mv) :
    ∃ k, k ≤ ms.length ∧ (givenHistory p0 ms).1 ++ [(givenHistory p0 ms).2] = (states nextPos p0 ms).drop k := by
  have hroot := givenHistory_root p0 ms
  have hlen := states_length nextPos p0 ms
  have hlast := states_last_index nextPos p0 ms
  have hsplit : ∀ k, k ≤ ms.length →
      ((states nextPos p0 ms).take ms.length).drop k ++ [ms.foldl nextPos p0] = (states nextPos p0 ms).drop k := by
    intro k hk
    have e : states nextPos p0 ms = (states nextPos p0 ms).take ms.length ++ [ms.foldl nextPos p0] := by
      conv => lhs; rw [← List.take_append_drop ms.length (states nextPos p0 ms)]
      congr 1
      rw [List.drop_eq_getElem?_toList_append, hlast]
      simp [List.drop_eq_nil_of_le, hlen]
    conv => rhs; rw [e]
    rw [List.drop_append_of_le_length (by simp [hlen]; omega)]
  obtain ⟨k, hk, _, hres⟩ := buildLoop_spec nextPos (·.hmc) (fun q : Pos => q) p0 ms []
  have hL : (buildLoop nextPos (·.hmc) (fun q : Pos => q) p0 ms []).1 = ((states nextPos p0 ms).take ms.length).drop k := by
    rcases hres with ⟨rfl, h⟩ | ⟨_, _, h⟩
    · simpa using h
    · simpa using h
  by_cases hbig : (buildLoop nextPos (·.hmc) (fun q : Pos => q) p0 ms []).1.length > 100
  · refine ⟨ms.length, Nat.le_refl _, ?_⟩
    rw [hroot]
    have : (givenHistory p0 ms).1 = [] := by
      unfold givenHistory setupPosition; simp only [hbig, if_true]
    rw [this, ← hsplit ms.length (Nat.le_refl _)]
    simp
  · refine ⟨k, hk, ?_⟩
    rw [hroot]
    have : (givenHistory p0 ms).1 = ((states nextPos p0 ms).take ms.length).drop k := by
      unfold givenHistory setupPosition; simp only [hbig, if_false]; exact hL
    rw [this, hsplit k hk]

theorem givenHistory_clock (p0 : Pos) (ms : List Mv) : (givenHistory p0 ms).1.length ≤ (givenHistory p0 ms).2.hmc := by
  have h := buildLoop_clock nextPos (·.hmc) (fun q : Pos => q) (fun p m => nextPos_hmc p m) p0 ms [] (by simp)
  unfold givenHistory setupPosition
  simp only []
  split
  · simp
  · exact h

/-- **Third occurrence at ply 1, on the chess specification.**  `p0` is the position given by FEN (normalised by the
    reader), `ms` the legal moves of `position … moves`, `m` the legal root move.  The search scans the hashes of the list
    built by the repaired `setupPosition` plus the root hash for the hash of `apply root m` (the search itself plays raw
    moves).  Under no collisions among these positions (`hcoll`), with the Zobrist key a function of board, side, castling
    mask and e.p. square (`hzob`), and zeroing moves irreversible (`hirr`: after a capture or pawn move the board differs
    from every earlier board — a chess fact not proved here), the scan is true iff the position after the move occurred
    at least twice among the positions since the last zeroing move (root included), identity being that of the repetition
    rule on normalised positions. -/
theorem third_occurrence_chess (hash : Pos → Nat) (p0 : Pos) (ms : List Mv) (m : Mv) (multiPV : Bool)
    (hl : LegalLine p0 ms) (hm : legalB (givenHistory p0 ms).2 m = true)
    (hzob : ∀ a b : Pos, drawKey a = drawKey b → hash a = hash b)
    (hcoll : ∀ q ∈ (givenHistory p0 ms).1 ++ [(givenHistory p0 ms).2],
        hash q = hash (apply (givenHistory p0 ms).2 m) → drawKey q = drawKey (apply (givenHistory p0 ms).2 m))
    (hirr : (apply (givenHistory p0 ms).2 m).hmc = 0 →
        ∀ q ∈ (givenHistory p0 ms).1 ++ [(givenHistory p0 ms).2], q.b ≠ (apply (givenHistory p0 ms).2 m).b) :
    scanPly1 ((givenHistory p0 ms).1.map hash) (hash (givenHistory p0 ms).2) (hash (apply (givenHistory p0 ms).2 m))
        (apply (givenHistory p0 ms).2 m).hmc multiPV = true ↔
      2 ≤ ((givenHistory p0 ms).1 ++ [(givenHistory p0 ms).2]).countP
            (fun q => decide (drawKey q = drawKey (nextPos (givenHistory p0 ms).2 m))) := by
  obtain ⟨k, hk, hsuf⟩ := givenHistory_suffix p0 ms
  have hroot := givenHistory_root p0 ms
  generalize hqs : (givenHistory p0 ms).1 = qs at *
  generalize hr : (givenHistory p0 ms).2 = root at *
  have hclock : qs.length ≤ root.hmc := by rw [← hqs, ← hr]; exact givenHistory_clock p0 ms
  -- the extended line
  have hl' : LegalLine p0 (ms ++ [m]) := legalLine_append p0 ms m hl (by rw [← hroot]; exact hm)
  have hst' : states nextPos p0 (ms ++ [m]) = states nextPos p0 ms ++ [nextPos root m] := by
    rw [states_append, ← hroot]
  have hlen := states_length nextPos p0 ms
  have hllen : (qs ++ [root]).length = ms.length + 1 - k := by rw [hsuf]; simp [hlen]
  have hwin : ∀ (i : Nat) (q : Pos), (qs ++ [root])[i]? = some q → q.b = (apply root m).b → q.wtm = (apply root m).wtm →
      i + 4 ≤ (qs ++ [root]).length ∧ ((qs ++ [root]).length - i) % 2 = 0 := by
    intro i q hq hb hw
    rw [hsuf, List.getElem?_drop] at hq
    have hi : k + i < ms.length + 1 := by
      have := List.getElem?_eq_some_iff.1 hq
      obtain ⟨h, _⟩ := this
      simpa [hlen] using h
    have ha : (states nextPos p0 (ms ++ [m]))[k + i]? = some q := by
      rw [hst', List.getElem?_append_left (by simp [hlen]; omega)]; exact hq
    have hb' : (states nextPos p0 (ms ++ [m]))[ms.length + 1]? = some (nextPos root m) := by
      rw [hst', List.getElem?_append_right (by simp [hlen])]
      simp [hlen]
    have := window_loses_nothing p0 (ms ++ [m]) hl' (k + i) (ms.length + 1) q (nextPos root m) (by omega) ha hb'
      (by simp [nextPos, hb]) (by simp [nextPos, hw])
    rw [hllen]; omega
  by_cases hz : (apply root m).hmc = 0
  · -- zeroing root move: the scan looks at nothing, and nothing earlier has this board
    have hno := hirr hz
    have lhs : scanPly1 (qs.map hash) (hash root) (hash (apply root m)) (apply root m).hmc multiPV = false := by
      rw [Bool.eq_false_iff]
      intro ht
      rw [scanPly1_eq] at ht
      unfold scanOld at ht
      rw [Rep.canClaimDrawRep_iff] at ht
      obtain ⟨i, hw, _⟩ := ht
      unfold Rep.InWindow at hw
      rw [hz] at hw
      omega
    have rhs : (qs ++ [root]).countP (fun q => decide (drawKey q = drawKey (nextPos root m))) = 0 := by
      rw [List.countP_eq_zero]
      intro q hq
      simp only [decide_eq_true_eq]
      intro he
      have := (drawKey_b_wtm he).1
      exact hno q hq (by simpa [nextPos] using this)
    rw [lhs, rhs]; simp
  · have hep : (apply root m).ep = none := apply_ep_none_of_hmc root m hz
    have hnp : nextPos root m = apply root m := fixupEP_of_ep_none _ hep
    rw [hnp, scanPly1_eq]
    have hinc : (apply root m).hmc = root.hmc + 1 := by
      rcases apply_hmc root m with h | h
      · exact absurd h hz
      · exact h
    apply scanOld_iff drawKey hash (qs ++ [root]) (apply root m) _ _
    · simp only [List.length_append, List.length_singleton]; split <;> omega
    · exact hcoll
    · intro q _ h; exact hzob _ _ h
    · intro i q hq hkey
      have := drawKey_b_wtm hkey
      exact hwin i q hq this.1 this.2
    · left
      simp only [List.length_append, List.length_singleton, hinc]
      omega

end Chess
