/-! Prototype: Search::canClaimDrawRep (search.hpp:329-341) -/
namespace Rep

/-- the C++ loop: i runs size-4, size-6, … while i ≥ stop -/
def loop (hs : Nat → Nat) (stop firstNew : Int) (h : Nat) : Nat → Int → Nat → Bool
  | 0, _, _ => false
  | f+1, i, reps =>
    if i < stop then false
    else if hs i.toNat = h then
      (if firstNew ≤ i ∨ 2 ≤ reps + 1 then true else loop hs stop firstNew h f (i - 2) (reps + 1))
    else loop hs stop firstNew h f (i - 2) reps

def canClaimDrawRep (hs : Nat → Nat) (size hmc firstNew : Int) (h : Nat) : Bool :=
  let stop := max 0 (size - hmc)
  loop hs stop firstNew h (size.toNat + 1) (size - 4) 0

/-- the matching indices visited, in visiting (descending) order -/
def hits (hs : Nat → Nat) (stop : Int) (h : Nat) : Nat → Int → List Int
  | 0, _ => []
  | f+1, i => if i < stop then [] else
      if hs i.toNat = h then i :: hits hs stop h f (i - 2) else hits hs stop h f (i - 2)

theorem hits_le (hs : Nat → Nat) (stop : Int) (h : Nat) : ∀ f i j, j ∈ hits hs stop h f i → j ≤ i
  | 0, _, _, hj => by simp [hits] at hj
  | f+1, i, j, hj => by
    unfold hits at hj
    split at hj
    · cases hj
    · split at hj
      · rcases List.mem_cons.1 hj with rfl | hj'
        · omega
        · have := hits_le hs stop h f (i-2) j hj'; omega
      · have := hits_le hs stop h f (i-2) j hj; omega

/-- loop result in terms of the hit list -/
theorem loop_eq (hs : Nat → Nat) (stop firstNew : Int) (h : Nat) :
    ∀ f i reps, loop hs stop firstNew h f i reps =
      decide ((∃ j ∈ hits hs stop h f i, firstNew ≤ j) ∨ 2 ≤ reps + (hits hs stop h f i).length ∧ (hits hs stop h f i) ≠ [])
  | 0, i, reps => by simp [loop, hits]
  | f+1, i, reps => by
    unfold loop hits
    by_cases h1 : i < stop
    · simp [h1]
    · simp only [h1, if_false]
      by_cases h2 : hs i.toNat = h
      · simp only [h2, if_true]
        by_cases h3 : firstNew ≤ i ∨ 2 ≤ reps + 1
        · simp only [h3, if_true]
          rcases h3 with h3 | h3
          · simp [h3]
          · simp; right; omega
        · simp only [h3, if_false]
          rw [loop_eq hs stop firstNew h f (i-2) (reps+1)]
          have h3a : ¬ firstNew ≤ i := fun e => h3 (Or.inl e)
          have h3b : reps = 0 := by omega
          subst h3b
          -- all later hits are below i hence below firstNew
          have hlow : ∀ j ∈ hits hs stop h f (i-2), ¬ firstNew ≤ j := by
            intro j hj; have := hits_le hs stop h f (i-2) j hj; omega
          have e1 : (∃ j ∈ hits hs stop h f (i - 2), firstNew ≤ j) ↔ False :=
            ⟨fun ⟨j, hj, hh⟩ => hlow j hj hh, False.elim⟩
          have e2 : (∃ j ∈ i :: hits hs stop h f (i - 2), firstNew ≤ j) ↔ False :=
            ⟨fun ⟨j, hj, hh⟩ => by
              rcases List.mem_cons.1 hj with rfl | hj'
              · exact h3a hh
              · exact hlow j hj' hh, False.elim⟩
          simp only [e1, e2, false_or, List.length_cons]
          cases hl : hits hs stop h f (i-2) with
          | nil => simp
          | cons a t => simp; omega
      · simp only [h2, if_false]
        exact loop_eq hs stop firstNew h f (i-2) reps

end Rep
