import TexelVerif.Draw.Third
import TexelVerif.Draw.Claim
/-! Lemmas about the console game model: adjudication against rule-level definitions, claims, invariants. -/
namespace GameM
open Chess Hist

/-! ### rule-level definitions -/

/-- no legal move and the king is not attacked -/
def isStalemate (p : Pos) : Bool := (genLegal p).isEmpty && !inCheck p.b p.wtm

def numBishops (b : Board) : Nat := countKind b WBISHOP + countKind b BBISHOP
def numKnights (b : Board) : Nat := countKind b WKNIGHT + countKind b BKNIGHT

/-- **dead material** as the console game recognises it: only kings, bishops and knights are left, and either at most
    one of them in total, or no knight and all bishops on squares of one colour -/
def DeadMaterial (b : Board) : Prop :=
  (∀ s : Sq, b[s] ≠ WQUEEN ∧ b[s] ≠ WROOK ∧ b[s] ≠ WPAWN ∧ b[s] ≠ BQUEEN ∧ b[s] ≠ BROOK ∧ b[s] ≠ BPAWN) ∧
  (numBishops b + numKnights b ≤ 1 ∨
   (numKnights b = 0 ∧
     ((∀ s : Sq, (b[s] = WBISHOP ∨ b[s] = BBISHOP) → darkSq s = false) ∨
      (∀ s : Sq, (b[s] = WBISHOP ∨ b[s] = BBISHOP) → darkSq s = true))))

theorem countKind_eq_zero (b : Board) (pc : Pc) : countKind b pc = 0 ↔ ∀ s : Sq, b[s] ≠ pc := by
  unfold countKind
  rw [List.countP_eq_zero]
  simp [allSq]

theorem insufficientMaterial_iff (b : Board) : insufficientMaterial b = true ↔ DeadMaterial b := by
  unfold insufficientMaterial DeadMaterial numBishops numKnights
  have hz := countKind_eq_zero b
  by_cases h1 : countKind b WQUEEN = 0 <;> by_cases h2 : countKind b WROOK = 0 <;> by_cases h3 : countKind b WPAWN = 0 <;>
    by_cases h4 : countKind b BQUEEN = 0 <;> by_cases h5 : countKind b BROOK = 0 <;> by_cases h6 : countKind b BPAWN = 0
  case pos =>
    have hheavy : ∀ s : Sq, b[s] ≠ WQUEEN ∧ b[s] ≠ WROOK ∧ b[s] ≠ WPAWN ∧ b[s] ≠ BQUEEN ∧ b[s] ≠ BROOK ∧ b[s] ≠ BPAWN :=
      fun s => ⟨(hz _).1 h1 s, (hz _).1 h2 s, (hz _).1 h3 s, (hz _).1 h4 s, (hz _).1 h5 s, (hz _).1 h6 s⟩
    simp only [h1, h2, h3, h4, h5, h6, bne_self_eq_false, Bool.false_eq_true, if_false]
    by_cases hle : countKind b WBISHOP + countKind b WKNIGHT + countKind b BBISHOP + countKind b BKNIGHT ≤ 1
    · simp only [hle, if_true, true_iff]
      exact ⟨hheavy, Or.inl (by omega)⟩
    · simp only [hle, if_false]
      by_cases hn : countKind b WKNIGHT + countKind b BKNIGHT = 0
      · simp only [hn, beq_self_eq_true, if_true, Bool.or_eq_true, List.all_eq_true, allSq, List.mem_finRange, true_implies,
          Bool.not_eq_true', Bool.and_eq_false_iff, Bool.or_eq_false_iff, beq_eq_false_iff_ne, Bool.not_eq_false']
        constructor
        · intro h
          refine ⟨hheavy, Or.inr ⟨trivial, ?_⟩⟩
          rcases h with h | h
          · left
            intro s hs
            rcases h s with hh | hh
            · rcases hs with hs | hs
              · exact absurd hs hh.1
              · exact absurd hs hh.2
            · exact hh
          · right
            intro s hs
            rcases h s with hh | hh
            · rcases hs with hs | hs
              · exact absurd hs hh.1
              · exact absurd hs hh.2
            · exact hh
        · rintro ⟨_, h | ⟨_, h⟩⟩
          · omega
          · rcases h with h | h
            · left
              intro s
              by_cases hs : b[s] = WBISHOP ∨ b[s] = BBISHOP
              · exact Or.inr (h s hs)
              · exact Or.inl ⟨fun e => hs (Or.inl e), fun e => hs (Or.inr e)⟩
            · right
              intro s
              by_cases hs : b[s] = WBISHOP ∨ b[s] = BBISHOP
              · exact Or.inr (h s hs)
              · exact Or.inl ⟨fun e => hs (Or.inl e), fun e => hs (Or.inr e)⟩
      · have hn' : (countKind b WKNIGHT + countKind b BKNIGHT == 0) = false := by simpa using hn
        simp only [hn', Bool.false_eq_true, if_false, false_iff]
        rintro ⟨_, h | ⟨h, _⟩⟩
        · omega
        · exact hn h
  all_goals
    simp only [h1, h2, h3, h4, h5, h6, bne_self_eq_false, Bool.false_eq_true, if_false, bne_iff_ne, ne_eq, not_false_eq_true,
      if_true, false_iff, not_and]
    intro hh
    first
      | exact absurd ((hz _).2 fun s => (hh s).1) h1
      | exact absurd ((hz _).2 fun s => (hh s).2.1) h2
      | exact absurd ((hz _).2 fun s => (hh s).2.2.1) h3
      | exact absurd ((hz _).2 fun s => (hh s).2.2.2.1) h4
      | exact absurd ((hz _).2 fun s => (hh s).2.2.2.2.1) h5
      | exact absurd ((hz _).2 fun s => (hh s).2.2.2.2.2) h6

/-- **`getGameState` against the rules**: mate, then stalemate, then dead material, then resignation, then the draw
    state set by an accepted claim or an accepted offer -/
theorem getGameState_eq (g : Game) :
    getGameState g =
      if isMated g.pos then (if g.pos.wtm then .blackMate else .whiteMate)
      else if isStalemate g.pos then (if g.pos.wtm then .whiteStalemate else .blackStalemate)
      else if insufficientMaterial g.pos.b then .drawNoMate
      else if g.resignState ≠ .alive then g.resignState
      else g.drawState := by
  unfold getGameState isMated isStalemate
  by_cases hl : (genLegal g.pos).isEmpty = true <;> by_cases hc : inCheck g.pos.b g.pos.wtm = true <;>
    simp [hl, hc]

theorem alive_fields (g : Game) (h : getGameState g = .alive) :
    g.drawState = .alive ∧ g.resignState = .alive ∧ isMated g.pos = false ∧ isStalemate g.pos = false ∧
      insufficientMaterial g.pos.b = false := by
  rw [getGameState_eq] at h
  by_cases h1 : isMated g.pos = true
  · simp only [h1, if_true] at h; split at h <;> cases h
  · by_cases h2 : isStalemate g.pos = true
    · simp only [h1, h2, if_true, Bool.false_eq_true, if_false] at h; split at h <;> cases h
    · by_cases h3 : insufficientMaterial g.pos.b = true
      · simp only [h1, h2, h3, if_true, Bool.false_eq_true, if_false] at h; cases h
      · by_cases h4 : g.resignState = .alive
        · simp only [h1, h2, h3, h4, Bool.false_eq_true, if_false, ne_eq, not_true_eq_false] at h
          exact ⟨h, h4, by simpa using h1, by simpa using h2, by simpa using h3⟩
        · simp only [h1, h2, h3, h4, Bool.false_eq_true, if_false, ne_eq, not_false_eq_true, if_true] at h

/-! ### claims -/

/-- the positions of the game so far, oldest first -/
def gamePositions (g : Game) : List Pos := g.prevs.take g.cur ++ [g.pos]

/-- the position a claim is about: after the named legal move, or the current one -/
def claimed (g : Game) (m : Option Mv) : Pos :=
  match legalOnly g m with
  | some m => apply g.pos m
  | none => g.pos

/-- the claim's positions, oldest first: the game so far and, for a claim with a move, the position after it -/
def claimLine (g : Game) (m : Option Mv) : List Pos :=
  gamePositions g ++ (match legalOnly g m with | some m => [apply g.pos m] | none => [])

theorem repValid_iff (g : Game) (m : Option Mv) :
    repValid g (legalOnly g m) = true ↔
      3 ≤ (claimLine g m).countP (fun q => decide (drawKey q = drawKey (claimed g m))) := by
  unfold repValid claimPositions claimLine claimed gamePositions drawRuleEquals
  cases hm : legalOnly g m with
  | none =>
    simp only [List.nil_append, List.cons_append, decide_eq_true_eq, List.append_nil]
    rw [List.countP_append, List.countP_cons, List.countP_reverse, List.countP_singleton]
  | some mv =>
    simp only [List.cons_append, List.nil_append, decide_eq_true_eq]
    rw [List.countP_cons, List.countP_cons, List.countP_reverse, List.countP_append, List.countP_append,
      List.countP_singleton, List.countP_singleton]

theorem legalOnly_idem (g : Game) (m : Option Mv) : legalOnly g (legalOnly g m) = legalOnly g m := by
  unfold legalOnly
  cases m with
  | none => rfl
  | some mv =>
    by_cases h : legalB g.pos mv = true
    · simp [h]
    · simp [h]

theorem processMove_drawState (g : Game) (m : Option Mv) : (processMove g m).1.drawState = g.drawState := by
  unfold processMove
  split
  · rfl
  · split
    · rfl
    · split
      · rfl
      · rfl

theorem processMove_resignState (g : Game) (m : Option Mv) : (processMove g m).1.resignState = g.resignState := by
  unfold processMove
  split
  · rfl
  · split
    · rfl
    · split
      · rfl
      · rfl

/-- `draw rep [m]` in a live game is accepted exactly when the claimed position occurs at least three times in the
    claim's line (positions compared by `Position::drawRuleEquals`) -/
theorem claim_rep_iff (g : Game) (m : Option Mv) (hal : getGameState g = .alive) :
    (claim g true m).drawState = .drawRep ↔
      3 ≤ (claimLine g m).countP (fun q => decide (drawKey q = drawKey (claimed g m))) := by
  rw [← repValid_iff]
  have ha := (alive_fields g hal).1
  unfold claim
  simp only [if_true]
  by_cases hv : repValid g (legalOnly g m) = true
  · simp [hv]
  · simp only [hv, Bool.false_eq_true, if_false, iff_false]
    split
    · rw [processMove_drawState]; simp [ha]
    · simp [ha]

/-- `draw 50 [m]` in a live game is accepted exactly when the clock of the claimed position has reached 100 -/
theorem claim_50_iff (g : Game) (m : Option Mv) (hal : getGameState g = .alive) :
    (claim g false m).drawState = .draw50 ↔ 100 ≤ (claimed g m).hmc := by
  have ha := (alive_fields g hal).1
  have hv : fiftyValid g (legalOnly g m) = decide (100 ≤ (claimed g m).hmc) := by
    unfold fiftyValid claimed
    cases legalOnly g m <;> rfl
  unfold claim
  simp only [Bool.false_eq_true, if_false, hv]
  by_cases h : 100 ≤ (claimed g m).hmc
  · simp [h]
  · simp only [h, decide_false, Bool.false_eq_true, if_false, iff_false]
    split
    · rw [processMove_drawState]; simp [ha]
    · simp [ha]

/-! ### the computer player's claims -/

/-- the hypotheses under which the hash scan decides repetition: see `Hist.scanOld_iff` -/
structure ScanHyp (hash : Pos → Nat) (l : List Pos) (new : Pos) : Prop where
  hinj : ∀ q ∈ l, hash q = hash new → drawKey q = drawKey new
  hwf : ∀ q ∈ l, drawKey q = drawKey new → hash q = hash new
  hwin : ∀ (i : Nat) q, l[i]? = some q → drawKey q = drawKey new → i + 4 ≤ l.length ∧ (l.length - i) % 2 = 0
  hclk : ((l.length : Int) ≤ new.hmc) ∨ ∀ q ∈ l, drawKey q ≠ drawKey new

theorem canClaimDraw_eq (hash : Pos → Nat) (hist : List Pos) (p : Pos) (m : Mv)
    (h1 : ScanHyp hash hist p) (h2 : ScanHyp hash (hist ++ [p]) (apply p m)) :
    canClaimDraw hash hist p m =
      if 100 ≤ p.hmc then .d50
      else if 2 ≤ hist.countP (fun q => decide (drawKey q = drawKey p)) then .rep
      else if 100 ≤ (apply p m).hmc then .d50m
      else if 2 ≤ (hist ++ [p]).countP (fun q => decide (drawKey q = drawKey (apply p m))) then .repm
      else .none := by
  have e1 := scanOld_iff drawKey hash hist p p.hmc hist.length (by omega) h1.hinj h1.hwf h1.hwin h1.hclk
  have e2 := scanOld_iff drawKey hash (hist ++ [p]) (apply p m) (apply p m).hmc (hist.length + 1)
    (by simp only [List.length_append, List.length_singleton]; omega) h2.hinj h2.hwf h2.hwin h2.hclk
  unfold canClaimDraw
  simp only []
  by_cases a : 100 ≤ p.hmc
  · simp [a]
  · simp only [a, if_false]
    by_cases b : 2 ≤ hist.countP (fun q => decide (drawKey q = drawKey p))
    · simp only [b, if_true]; rw [if_pos (e1.2 b)]
    · simp only [b, if_false]
      rw [if_neg (fun h => b (e1.1 h))]
      by_cases c : 100 ≤ (apply p m).hmc
      · simp [c]
      · simp only [c, if_false]
        by_cases d : 2 ≤ (hist ++ [p]).countP (fun q => decide (drawKey q = drawKey (apply p m)))
        · simp only [d, if_true]; rw [if_pos (e2.2 d)]
        · simp only [d, if_false]; rw [if_neg (fun h => d (e2.1 h))]

end GameM
