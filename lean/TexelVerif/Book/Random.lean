/-!
Model of `Random` (`lib/texellib/util/random.{hpp,cpp}`): xoshiro256-style generator seeded through `hashU64`.
Only needed so that the differential tie can replay `Book::rndGen` from a chosen seed; no theorem depends on it
(the property theorems quantify over every 64-bit draw).
-/
namespace Book

def hashU64 (v : UInt64) : UInt64 :=
  let v := v * 0x7CF9ADC6FE4A7653
  let v := v ^^^ (v >>> 37)
  let v := v * 0xC25D3F49433E7607
  v ^^^ (v >>> 43)

structure Rng where
  s0 : UInt64
  s1 : UInt64
  s2 : UInt64
  s3 : UInt64

def rotl (x : UInt64) (k : UInt64) : UInt64 := (x <<< k) ||| (x >>> (64 - k))

/-- `Random::setSeed(seed1, seed2)` -/
def Rng.seed (seed1 : UInt64) (seed2 : UInt64 := 0) : Rng :=
  { s0 := hashU64 (seed1 + hashU64 1), s1 := hashU64 (seed1 + hashU64 2),
    s2 := hashU64 (seed1 + hashU64 3) ^^^ hashU64 (seed2 + hashU64 7),
    s3 := hashU64 (seed1 + hashU64 4) ^^^ hashU64 (seed2 + hashU64 8) }

/-- `Random::nextU64` -/
def Rng.next (g : Rng) : UInt64 × Rng :=
  let result := rotl (g.s0 + g.s3) 23 + g.s0
  let t := g.s1 <<< 17
  let s2 := g.s2 ^^^ g.s0
  let s3 := g.s3 ^^^ g.s1
  let s1 := g.s1 ^^^ s2
  let s0 := g.s0 ^^^ s3
  let s2 := s2 ^^^ t
  let s3 := rotl s3 45
  (result, { s0 := s0, s1 := s1, s2 := s2, s3 := s3 })

end Book
