import TexelVerif.Chess.Spec
import TexelVerif.Book.PGRandoms
/-!
# Polyglot book records, move codec and hash key (`lib/texellib/book/polyglot.cpp`)

Model of `PolyglotBook::{serialize, deSerialize, getMove, getPGMove, getHashKey}`.  Byte strings are
`List UInt8`; the 64/16-bit fields are `Nat`s (shifts and masks are written as `/ 2^k` and `% 2^k`; the
differential tie `pgbook ser|deser|dec|enc|key` checks that this reading agrees with the C++ shifts).
-/
namespace Book
open Chess

/-- the fields `deSerialize` extracts from one 16-byte record -/
structure PGEntry where
  key : Nat       -- U64, bytes 0..7 big-endian
  move : Nat      -- U16, bytes 8..9
  weight : Nat    -- U16, bytes 10..11   (bytes 12..15 "learn" are ignored)
deriving DecidableEq, Repr

/-- `v = (v << 8) | b` over the bytes -/
def beVal (bs : List UInt8) : Nat := bs.foldl (fun a b => a * 256 + b.toNat) 0

def deSerialize (d : List UInt8) : PGEntry :=
  { key := beVal (d.take 8), move := beVal ((d.drop 8).take 2), weight := beVal ((d.drop 10).take 2) }

/-- `(U8)(v >> s)` -/
def byteAt (v s : Nat) : UInt8 := UInt8.ofNat (v / 2 ^ s % 256)

def serialize (hash move weight : Nat) : List UInt8 :=
  [byteAt hash 56, byteAt hash 48, byteAt hash 40, byteAt hash 32, byteAt hash 24, byteAt hash 16, byteAt hash 8, byteAt hash 0,
   byteAt move 8, byteAt move 0, byteAt weight 8, byteAt weight 0, 0, 0, 0, 0]

/-- `Square(file, row)` for 3-bit fields -/
def mkSquare (file row : Nat) : Sq := ⟨(row % 8) * 8 + file % 8, by omega⟩

def E1 : Sq := sq 4
def E8 : Sq := sq 60
def A1 : Sq := sq 0
def C1 : Sq := sq 2
def G1 : Sq := sq 6
def H1 : Sq := sq 7
def A8 : Sq := sq 56
def C8 : Sq := sq 58
def G8 : Sq := sq 62
def H8 : Sq := sq 63

/-- the `switch (prom)` of `getMove` -/
def decodeProm (wtm : Bool) (prom : Nat) : Pc :=
  match prom with
  | 1 => if wtm then WKNIGHT else BKNIGHT
  | 2 => if wtm then WBISHOP else BBISHOP
  | 3 => if wtm then WROOK else BROOK
  | 4 => if wtm then WQUEEN else BQUEEN
  | _ => EMPTY

/-- "Convert castling moves": king-takes-own-rook becomes the king's two-square move, but only when a king of
    the right colour stands on e1 / e8 -/
def convTo (p : Pos) (from_ to : Sq) : Sq :=
  let to := if from_ = E1 ∧ p.at from_ = WKING then (if to = H1 then G1 else if to = A1 then C1 else to) else to
  if from_ = E8 ∧ p.at from_ = BKING then (if to = H8 then G8 else if to = A8 then C8 else to) else to

/-- `PolyglotBook::getMove`: decode the 16-bit move (bit 15 is ignored) -/
def getMove (p : Pos) (mv : Nat) : Mv :=
  let toFile := mv % 8
  let toRow := mv / 8 % 8
  let fromFile := mv / 64 % 8
  let fromRow := mv / 512 % 8
  let prom := mv / 4096 % 8
  let from_ := mkSquare fromFile fromRow
  let to := mkSquare toFile toRow
  { f := from_, t := convTo p from_ to, promo := decodeProm p.wtm prom }

/-- the `switch (move.promoteTo())` of `getPGMove` -/
def encodeProm (pr : Pc) : Nat :=
  if pr = WKNIGHT ∨ pr = BKNIGHT then 1
  else if pr = WBISHOP ∨ pr = BBISHOP then 2
  else if pr = WROOK ∨ pr = BROOK then 3
  else if pr = WQUEEN ∨ pr = BQUEEN then 4
  else 0

/-- destination file written by `getPGMove`: the rook's file for the king's castling moves -/
def encToX (p : Pos) (m : Mv) : Nat :=
  let toX := m.t.x
  let toX := if m.f = E1 ∧ p.at m.f = WKING then (if m.t = G1 then H1.x else if m.t = C1 then A1.x else toX) else toX
  if m.f = E8 ∧ p.at m.f = BKING then (if m.t = G8 then H8.x else if m.t = C8 then A8.x else toX) else toX

/-- `PolyglotBook::getPGMove` -/
def getPGMove (p : Pos) (m : Mv) : Nat :=
  encToX p m + m.t.y * 8 + m.f.x * 64 + m.f.y * 512 + encodeProm m.promo * 4096

set_option maxRecDepth 100000 in
theorem hashRandoms_size : hashRandoms.size = 781 := by decide +kernel

/-- piece index of the polyglot format: bp wp bn wn bb wb br wr bq wq bk wk -/
def pVal (pc : Pc) : Option (Fin 12) :=
  if pc = BPAWN then some 0 else if pc = WPAWN then some 1
  else if pc = BKNIGHT then some 2 else if pc = WKNIGHT then some 3
  else if pc = BBISHOP then some 4 else if pc = WBISHOP then some 5
  else if pc = BROOK then some 6 else if pc = WROOK then some 7
  else if pc = BQUEEN then some 8 else if pc = WQUEEN then some 9
  else if pc = BKING then some 10 else if pc = WKING then some 11
  else none

def rnd (i : Nat) (h : i < 781 := by omega) : UInt64 := hashRandoms[i]'(by rw [hashRandoms_size]; exact h)

def pieceTerm (p : Pos) (s : Sq) : UInt64 :=
  match pVal (p.at s) with
  | some v => rnd (64 * v.val + s.val)
  | none => 0

/-- `PolyglotBook::getHashKey`: xor of the table entries for every piece, the four castling rights, the file of
    the en-passant square (whenever the position *has* an en-passant square) and the side to move (white) -/
def getHashKey (p : Pos) : UInt64 :=
  let key := allSq.foldl (fun k s => k ^^^ pieceTerm p s) 0
  let key := if p.castle &&& 2 != 0 then key ^^^ rnd 768 else key     -- h1Castle
  let key := if p.castle &&& 1 != 0 then key ^^^ rnd 769 else key     -- a1Castle
  let key := if p.castle &&& 8 != 0 then key ^^^ rnd 770 else key     -- h8Castle
  let key := if p.castle &&& 4 != 0 then key ^^^ rnd 771 else key     -- a8Castle
  let key := match p.ep with
    | some e => key ^^^ rnd (772 + e.x) (by have := Nat.mod_lt e.val (show 8 > 0 by decide); simp only [Sq.x]; omega)
    | none => key
  if p.wtm then key ^^^ rnd 780 else key

end Book
