import TexelVerif.Book.Polyglot
/-!
# The book probe (`lib/texellib/book/book.cpp`, `Book::getBookEntries` / `Book::getBookMove`)

A book file is an arbitrary `List UInt8`.  The model follows the code statement by statement (after the
64-bit repair `fix: 64-bit arithmetic in the polyglot book probe`):

* `numEntries = fileLen / 16` (a trailing partial record is never looked at; a missing file has
  `tellg() = -1`, hence `numEntries = 0`, i.e. behaves as the empty byte string);
* `readEntry(entNo)`: seek to `16·entNo`, read 16 bytes, zero-fill when the read fails;
* binary search `lo = -1, hi = numEntries; while (hi - lo > 1) { mid = (lo + hi) / 2; … }` on signed integers,
  *without* assuming the file is sorted;
* collect the run of records with the probe key starting at `hi`;
* every candidate must be in the legal move list, otherwise no book move; weighted random pick.
-/
namespace Book
open Chess

def numEntries (file : List UInt8) : Nat := file.length / 16

/-- what `readEntry` leaves in the record after a failed read (all 16 bytes zero) -/
def zeroEntry : PGEntry := { key := 0, move := 0, weight := 0 }

/-- the lambda `readEntry` followed by `deSerialize`; a negative entry number is a negative seek offset, which
    fails like a short read does -/
def readEntry (file : List UInt8) (entNo : Int) : PGEntry :=
  if entNo < 0 then zeroEntry
  else
    let d := (file.drop (16 * entNo.toNat)).take 16
    if d.length = 16 then deSerialize d else zeroEntry

/-- C++ `(lo + hi) / 2` on signed integers (truncating division) -/
def midpoint (lo hi : Int) : Int := (lo + hi).tdiv 2

theorem midpoint_between (lo hi : Int) (h : hi - lo > 1) : lo < midpoint lo hi ∧ midpoint lo hi < hi := by
  unfold midpoint
  rcases Int.le_total 0 (lo + hi) with hs | hs
  · rw [Int.tdiv_eq_ediv_of_nonneg hs]; omega
  · have h2 : (lo + hi).tdiv 2 = -((-(lo + hi)).tdiv 2) := by rw [Int.neg_tdiv]; omega
    rw [h2, Int.tdiv_eq_ediv_of_nonneg (by omega)]; omega

/-- the `while (hi - lo > 1)` loop; returns the final `hi` -/
def bsearch (file : List UInt8) (key : Nat) (lo hi : Int) : Int :=
  if _h : hi - lo > 1 then
    if (readEntry file (midpoint lo hi)).key < key then bsearch file key (midpoint lo hi) hi
    else bsearch file key lo (midpoint lo hi)
  else hi
termination_by (hi - lo).toNat
decreasing_by
  all_goals (have := midpoint_between lo hi _h; omega)

/-- number of iterations of the same loop (for the explicit termination bound) -/
def bsearchIters (file : List UInt8) (key : Nat) (lo hi : Int) : Nat :=
  if _h : hi - lo > 1 then
    if (readEntry file (midpoint lo hi)).key < key then bsearchIters file key (midpoint lo hi) hi + 1
    else bsearchIters file key lo (midpoint lo hi) + 1
  else 0
termination_by (hi - lo).toNat
decreasing_by
  all_goals (have := midpoint_between lo hi _h; omega)

/-- `for (entNo = hi; entNo < numEntries; entNo++) { …; if (entHash != key) break; push }`: the entry numbers pushed -/
def collectIdx (file : List UInt8) (key : Nat) (entNo : Nat) : List Nat :=
  if entNo < numEntries file then
    if (readEntry file entNo).key ≠ key then [] else entNo :: collectIdx file key (entNo + 1)
  else []
termination_by numEntries file - entNo

/-- entry numbers of the records `getBookEntries` returns for `key` -/
def candidateIdx (file : List UInt8) (key : Nat) : List Nat :=
  collectIdx file key (bsearch file key (-1) (numEntries file)).toNat

/-- `Book::getBookEntries` for a polyglot file: (move, count) pairs, the count being the 16-bit weight -/
def entriesForKey (file : List UInt8) (p : Pos) (key : Nat) : List (Mv × Int) :=
  (candidateIdx file key).map fun (i : Nat) => (getMove p (readEntry file (i : Int)).move, ((readEntry file (i : Int)).weight : Int))

/-! ### linear-time execution of `entriesForKey`

`readEntry` on a `List` walks to the record from the start of the file each time, which makes the run of a huge
equal-key book quadratic when the model is *executed* by the differential driver.  `entriesForKeyFast` walks the
run once; `entriesForKey_eq_fast` proves it equal, and `@[csimp]` lets the compiler use it.  No theorem uses it. -/

theorem readEntry_in_range (file : List UInt8) (i : Nat) (h : i < numEntries file) :
    ((file.drop (16 * i)).take 16).length = 16 ∧
    readEntry file (i : Int) = deSerialize ((file.drop (16 * i)).take 16) := by
  have hl : ((file.drop (16 * i)).take 16).length = 16 := by
    simp only [List.length_take, List.length_drop]
    unfold numEntries at h
    omega
  refine ⟨hl, ?_⟩
  unfold readEntry
  have : ¬ ((i : Int) < 0) := by omega
  simp only [this, if_false, Int.toNat_natCast, hl, if_true]

def runFast (p : Pos) (key : Nat) : List UInt8 → Nat → List (Mv × Int)
  | _, 0 => []
  | rest, k + 1 =>
    let e := deSerialize (rest.take 16)
    if e.key ≠ key then [] else (getMove p e.move, (e.weight : Int)) :: runFast p key (rest.drop 16) k

def entriesForKeyFast (file : List UInt8) (p : Pos) (key : Nat) : List (Mv × Int) :=
  let s := (bsearch file key (-1) (numEntries file)).toNat
  runFast p key (file.drop (16 * s)) (numEntries file - s)

theorem collect_eq_runFast (file : List UInt8) (p : Pos) (key : Nat) (k : Nat) :
    ∀ s, numEntries file - s = k →
      (collectIdx file key s).map (fun (i : Nat) => (getMove p (readEntry file (i : Int)).move, ((readEntry file (i : Int)).weight : Int)))
        = runFast p key (file.drop (16 * s)) k := by
  induction k with
  | zero =>
    intro s hs
    rw [collectIdx, if_neg (by omega)]
    rfl
  | succ k ih =>
    intro s hs
    have hlt : s < numEntries file := by omega
    have hr := (readEntry_in_range file s hlt).2
    rw [collectIdx, if_pos hlt]
    simp only [runFast]
    rw [← hr]
    by_cases hk : (readEntry file (s : Int)).key ≠ key
    · rw [if_pos hk, if_pos hk]; rfl
    · rw [if_neg hk, if_neg hk, List.map_cons, ih (s + 1) (by omega), List.drop_drop]
      have : 16 * (s + 1) = 16 * s + 16 := by omega
      rw [this]

@[csimp] theorem entriesForKey_eq_fast : @entriesForKey = @entriesForKeyFast := by
  funext file p key
  unfold entriesForKey entriesForKeyFast candidateIdx
  exact collect_eq_runFast file p key _ _ rfl

def getBookEntries (file : List UInt8) (p : Pos) : List (Mv × Int) :=
  entriesForKey file p (getHashKey p).toNat

/-- first loop of `getBookMove`: `none` as soon as a candidate is not in the legal list, else the weight sum -/
def sumIfLegal (legal : List Mv) : List (Mv × Int) → Int → Option Int
  | [], s => some s
  | c :: cs, s => if legal.contains c.1 then sumIfLegal legal cs (s + c.2) else none

/-- second loop: first candidate whose running sum exceeds `rnd` (`none` = the "should never get here" exit) -/
def pick : List (Mv × Int) → Int → Int → Option Mv
  | [], _, _ => none
  | c :: cs, rnd, acc => if rnd < acc + c.2 then some c.1 else pick cs rnd (acc + c.2)

/-- `Book::getBookMove` after `getBookEntries`, for any list of (move, weight) candidates — the same code serves
    the polyglot file and the built-in book.  `r` is the raw 64-bit draw `rndGen.nextU64()`. -/
def selectMove (p : Pos) (cands : List (Mv × Int)) (r : Nat) : Option Mv :=
  if cands.isEmpty then none
  else
    match sumIfLegal (genLegal p) cands 0 with
    | none => none
    | some sum => if sum ≤ 0 then none else pick cands ((r % sum.toNat : Nat) : Int) 0

/-- a probe of the polyglot file `file` -/
def getBookMove (file : List UInt8) (p : Pos) (r : Nat) : Option Mv :=
  selectMove p (getBookEntries file p) r

end Book
