import TexelVerif.Book.Polyglot
import TexelVerif.Chess.SpecLemmas
/-! Lemmas about the polyglot record and move codecs. -/
namespace Book
open Chess

/-! ## records -/

theorem byteAt_toNat (v s : Nat) : (byteAt v s).toNat = v / 2 ^ s % 256 := by
  unfold byteAt
  rw [UInt8.toNat_ofNat']
  exact Nat.mod_eq_of_lt (Nat.mod_lt _ (by decide))

theorem deSerialize_serialize (hash move weight : Nat) (hh : hash < 2 ^ 64) (hm : move < 2 ^ 16) (hw : weight < 2 ^ 16) :
    deSerialize (serialize hash move weight) = { key := hash, move := move, weight := weight } := by
  simp only [deSerialize, serialize, beVal, List.take, List.drop, List.foldl, byteAt_toNat]
  congr 1 <;> omega

theorem serialize_length (hash move weight : Nat) : (serialize hash move weight).length = 16 := rfl

theorem beVal_append_lt (bs : List UInt8) (a : Nat) :
    bs.foldl (fun a b => a * 256 + b.toNat) a < (a + 1) * 256 ^ bs.length := by
  induction bs generalizing a with
  | nil => simp
  | cons b bs ih =>
    simp only [List.foldl, List.length_cons]
    have hb : b.toNat < 256 := b.toNat_lt
    have h1 := ih (a * 256 + b.toNat)
    have h2 : (a * 256 + b.toNat + 1) * 256 ^ bs.length ≤ ((a + 1) * 256) * 256 ^ bs.length :=
      Nat.mul_le_mul_right _ (by omega)
    rw [Nat.pow_succ, Nat.mul_comm (256 ^ bs.length) 256, ← Nat.mul_assoc]
    omega

theorem beVal_lt (bs : List UInt8) : beVal bs < 256 ^ bs.length := by
  have := beVal_append_lt bs 0
  simpa [beVal] using this

theorem deSerialize_weight_lt (d : List UInt8) : (deSerialize d).weight < 65536 := by
  have h := beVal_lt ((d.drop 10).take 2)
  have hl : ((d.drop 10).take 2).length ≤ 2 := by simp [List.length_take]; omega
  have : 256 ^ ((d.drop 10).take 2).length ≤ 256 ^ 2 := Nat.pow_le_pow_right (by decide) hl
  simp only [deSerialize]
  omega

/-! ## moves -/

theorem mkSquare_xy (s : Sq) : mkSquare s.x s.y = s := by
  apply Fin.ext
  simp only [mkSquare, Sq.x, Sq.y]
  have := s.isLt
  omega

theorem decode_fields (a b c d e : Nat) (ha : a < 8) (hb : b < 8) (hc : c < 8) (hd : d < 8) (he : e < 8) :
    (a + b * 8 + c * 64 + d * 512 + e * 4096) % 8 = a ∧
    (a + b * 8 + c * 64 + d * 512 + e * 4096) / 8 % 8 = b ∧
    (a + b * 8 + c * 64 + d * 512 + e * 4096) / 64 % 8 = c ∧
    (a + b * 8 + c * 64 + d * 512 + e * 4096) / 512 % 8 = d ∧
    (a + b * 8 + c * 64 + d * 512 + e * 4096) / 4096 % 8 = e := by
  omega

theorem decodeProm_encodeProm : ∀ (w : Bool), ∀ pr ∈ promos w, decodeProm w (encodeProm pr) = pr := by decide

theorem encodeProm_lt (pr : Pc) : encodeProm pr < 8 := by
  unfold encodeProm
  repeat' split
  all_goals omega

theorem sq_x_lt (s : Sq) : s.x < 8 := Nat.mod_lt _ (by decide)
theorem sq_y_lt (s : Sq) : s.y < 8 := by have := s.isLt; simp only [Sq.y]; omega

theorem encToX_lt (p : Pos) (m : Mv) : encToX p m < 8 := by
  unfold encToX
  have := sq_x_lt m.t
  repeat' split
  all_goals first | assumption | decide

/-- the destination square after encoding and decoding is the original one, provided a king standing on its
    home square does not move to a rook corner (kings move one step or castle) -/
theorem convTo_encToX (p : Pos) (m : Mv)
    (h1 : m.f = E1 → p.at m.f = WKING → m.t ≠ H1 ∧ m.t ≠ A1)
    (h8 : m.f = E8 → p.at m.f = BKING → m.t ≠ H8 ∧ m.t ≠ A8) :
    convTo p m.f (mkSquare (encToX p m) m.t.y) = m.t := by
  have hxy := mkSquare_xy m.t
  unfold convTo encToX
  by_cases c1 : m.f = E1 ∧ p.at m.f = WKING
  · have c8 : ¬ (m.f = E8 ∧ p.at m.f = BKING) := by
      rintro ⟨hf, _⟩; rw [c1.1] at hf; exact absurd hf (by decide)
    obtain ⟨n1, n2⟩ := h1 c1.1 c1.2
    simp only [if_pos c1, if_neg c8]
    by_cases g : m.t = G1
    · simp only [if_pos g]; rw [g]; decide
    · by_cases c : m.t = C1
      · simp only [if_neg g, if_pos c]; rw [c]; decide
      · simp only [if_neg g, if_neg c, hxy, if_neg n1, if_neg n2]
  · by_cases c8 : m.f = E8 ∧ p.at m.f = BKING
    · obtain ⟨n1, n2⟩ := h8 c8.1 c8.2
      simp only [if_neg c1, if_pos c8]
      by_cases g : m.t = G8
      · simp only [if_pos g]; rw [g]; decide
      · by_cases c : m.t = C8
        · simp only [if_neg g, if_pos c]; rw [c]; decide
        · simp only [if_neg g, if_neg c, hxy, if_neg n1, if_neg n2]
    · simp only [if_neg c1, if_neg c8, hxy]

theorem pg_codec_core (p : Pos) (m : Mv) (hpromo : m.promo ∈ promos p.wtm)
    (h1 : m.f = E1 → p.at m.f = WKING → m.t ≠ H1 ∧ m.t ≠ A1)
    (h8 : m.f = E8 → p.at m.f = BKING → m.t ≠ H8 ∧ m.t ≠ A8) :
    getMove p (getPGMove p m) = m := by
  obtain ⟨e1, e2, e3, e4, e5⟩ := decode_fields (encToX p m) m.t.y m.f.x m.f.y (encodeProm m.promo)
    (encToX_lt p m) (sq_y_lt _) (sq_x_lt _) (sq_y_lt _) (encodeProm_lt _)
  unfold getMove getPGMove
  simp only [e1, e2, e3, e4, e5, mkSquare_xy, decodeProm_encodeProm p.wtm m.promo hpromo, convTo_encToX p m h1 h8]

/-- a pseudo-legal king move changes the file by at most two -/
theorem pseudo_king_dx (p : Pos) (m : Mv) (h : pseudo p m = true) (hk : kind (p.at m.f) = 1) :
    (dxy m.f m.t).1.natAbs ≤ 2 := by
  unfold pseudo at h
  simp only [hk, Bool.and_eq_true, Bool.or_eq_true, decide_eq_true_eq, beq_iff_eq] at h
  obtain ⟨_, _, hmv⟩ := h
  rcases hmv with (⟨h, _⟩ | ⟨⟨⟨_, h⟩, _⟩, _⟩) | ⟨⟨⟨_, h⟩, _⟩, _⟩
  · omega
  · omega
  · omega

theorem king_not_to_corner (p : Pos) (m : Mv) (h : pseudo p m = true) (home : Sq) (k : Pc) (hkk : kind k = 1)
    (hf : m.f = home) (hp : p.at m.f = k) (c : Sq) (hc : ((c.x : Int) - home.x).natAbs > 2) : m.t ≠ c := by
  intro ht
  have := pseudo_king_dx p m h (by rw [hp]; exact hkk)
  simp only [dxy, hf, ht] at this
  omega

theorem pg_codec (p : Pos) (m : Mv) (h : legalB p m = true) : getMove p (getPGMove p m) = m := by
  have hp : pseudo p m = true := by
    unfold legalB at h; simp only [Bool.and_eq_true] at h; exact h.1
  refine pg_codec_core p m (pseudo_promo p m hp) ?_ ?_
  · intro hf hk
    exact ⟨king_not_to_corner p m hp E1 WKING (by decide) hf hk H1 (by decide),
           king_not_to_corner p m hp E1 WKING (by decide) hf hk A1 (by decide)⟩
  · intro hf hk
    exact ⟨king_not_to_corner p m hp E8 BKING (by decide) hf hk H8 (by decide),
           king_not_to_corner p m hp E8 BKING (by decide) hf hk A8 (by decide)⟩

end Book
