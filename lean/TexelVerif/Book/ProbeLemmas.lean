import TexelVerif.Book.Probe
import TexelVerif.Book.PolyglotLemmas
/-! Lemmas about the book probe model (`Book/Probe.lean`). -/
namespace Book
open Chess

/-- key of entry `i` as the probe reads it -/
def keyAt (file : List UInt8) (i : Nat) : Nat := (readEntry file (i : Int)).key

/-- a well-formed polyglot book: keys in non-decreasing order -/
def SortedBook (file : List UInt8) : Prop :=
  ∀ i j : Nat, i ≤ j → j < numEntries file → keyAt file i ≤ keyAt file j

/-! ## reads -/

theorem readEntry_weight_lt (file : List UInt8) (e : Int) : (readEntry file e).weight < 65536 := by
  unfold readEntry
  split
  · decide
  · simp only
    split
    · exact deSerialize_weight_lt _
    · decide

/-! ## binary search -/

theorem bsearch_range (file : List UInt8) (key : Nat) (lo hi : Int) (h : lo < hi) :
    lo < bsearch file key lo hi ∧ bsearch file key lo hi ≤ hi := by
  induction lo, hi using bsearch.induct file key with
  | case1 lo hi hgt hlt ih =>
    have hm := midpoint_between lo hi hgt
    rw [bsearch, dif_pos hgt, if_pos hlt]
    have := ih hm.2
    omega
  | case2 lo hi hgt hlt ih =>
    have hm := midpoint_between lo hi hgt
    rw [bsearch, dif_pos hgt, if_neg hlt]
    have := ih hm.1
    omega
  | case3 lo hi hgt =>
    rw [bsearch, dif_neg hgt]
    omega

/-- every record the binary search reads lies inside the file: with `-1 ≤ lo` and `hi ≤ numEntries` the
    midpoint is a valid entry number, and both bounds are preserved -/
theorem bsearch_mid_in_range (n : Int) (lo hi : Int) (hlo : -1 ≤ lo) (hhi : hi ≤ n) (h : hi - lo > 1) :
    0 ≤ midpoint lo hi ∧ midpoint lo hi < n := by
  have := midpoint_between lo hi h
  omega

/-- the loop runs at most `k` times when `hi - lo ≤ 2^k` -/
theorem bsearchIters_le (file : List UInt8) (key : Nat) (k : Nat) :
    ∀ lo hi : Int, hi - lo ≤ (2 ^ k : Nat) → bsearchIters file key lo hi ≤ k := by
  induction k with
  | zero =>
    intro lo hi h
    rw [bsearchIters, dif_neg (by simp at h; omega)]
    exact Nat.le_refl _
  | succ k ih =>
    intro lo hi h
    rw [bsearchIters]
    split
    · rename_i hgt
      have hm := midpoint_between lo hi hgt
      have hmid : midpoint lo hi = (lo + hi) / 2 ∨ midpoint lo hi = -((-(lo + hi)) / 2) := by
        unfold midpoint
        rcases Int.le_total 0 (lo + hi) with hs | hs
        · left; exact Int.tdiv_eq_ediv_of_nonneg hs
        · right
          have h2 : (lo + hi).tdiv 2 = -((-(lo + hi)).tdiv 2) := by rw [Int.neg_tdiv]; omega
          rw [h2, Int.tdiv_eq_ediv_of_nonneg (by omega)]
      have hp : ((2 ^ (k + 1) : Nat) : Int) = 2 * ((2 ^ k : Nat) : Int) := by
        rw [Nat.pow_succ]; omega
      split
      · have := ih (midpoint lo hi) hi (by rcases hmid with e | e <;> omega)
        omega
      · have := ih lo (midpoint lo hi) (by rcases hmid with e | e <;> omega)
        omega
    · omega

/-- the search invariant on a sorted book -/
theorem bsearch_sorted (file : List UInt8) (key : Nat) (hs : SortedBook file) (lo hi : Int)
    (hlo : -1 ≤ lo) (hlt : lo < hi) (hhi : hi ≤ (numEntries file : Int))
    (h1 : ∀ i : Nat, (i : Int) ≤ lo → keyAt file i < key)
    (h2 : ∀ i : Nat, hi ≤ (i : Int) → i < numEntries file → key ≤ keyAt file i) :
    (∀ i : Nat, (i : Int) < bsearch file key lo hi → keyAt file i < key) ∧
    (∀ i : Nat, bsearch file key lo hi ≤ (i : Int) → i < numEntries file → key ≤ keyAt file i) := by
  induction lo, hi using bsearch.induct file key with
  | case1 lo hi hgt hkey ih =>
    have hm := midpoint_between lo hi hgt
    rw [bsearch, dif_pos hgt, if_pos hkey]
    have hmid : midpoint lo hi = ((midpoint lo hi).toNat : Int) := by omega
    apply ih (by omega) hm.2 hhi
    · intro i hi'
      have hle : i ≤ (midpoint lo hi).toNat := by omega
      have hlt' : (midpoint lo hi).toNat < numEntries file := by omega
      have := hs i (midpoint lo hi).toNat hle hlt'
      have hk : keyAt file (midpoint lo hi).toNat < key := by
        unfold keyAt; rw [← hmid]; exact hkey
      omega
    · exact h2
  | case2 lo hi hgt hkey ih =>
    have hm := midpoint_between lo hi hgt
    rw [bsearch, dif_pos hgt, if_neg hkey]
    have hmid : midpoint lo hi = ((midpoint lo hi).toNat : Int) := by omega
    apply ih hlo hm.1 (by omega) h1
    intro i hi' hin
    have hle : (midpoint lo hi).toNat ≤ i := by omega
    have := hs (midpoint lo hi).toNat i hle hin
    have hk : key ≤ keyAt file (midpoint lo hi).toNat := by
      unfold keyAt; rw [← hmid]; omega
    omega
  | case3 lo hi hgt =>
    rw [bsearch, dif_neg hgt]
    exact ⟨fun i hi' => h1 i (by omega), h2⟩

/-! ## collecting the run -/

theorem collectIdx_spec (file : List UInt8) (key : Nat) (s : Nat) :
    ∀ i ∈ collectIdx file key s, s ≤ i ∧ i < numEntries file ∧ keyAt file i = key := by
  induction s using collectIdx.induct file key with
  | case1 s hlt hne =>
    intro i hi
    rw [collectIdx, if_pos hlt, if_pos hne] at hi
    cases hi
  | case2 s hlt heq ih =>
    intro i hi
    rw [collectIdx, if_pos hlt, if_neg heq] at hi
    rcases List.mem_cons.mp hi with rfl | hi
    · refine ⟨Nat.le_refl _, hlt, ?_⟩
      unfold keyAt
      exact Decidable.not_not.mp heq
    · have := ih i hi
      exact ⟨by omega, this.2⟩
  | case3 s hge =>
    intro i hi
    rw [collectIdx, if_neg hge] at hi
    cases hi

theorem collectIdx_length (file : List UInt8) (key : Nat) (s : Nat) :
    (collectIdx file key s).length ≤ numEntries file - s := by
  induction s using collectIdx.induct file key with
  | case1 s hlt hne => rw [collectIdx, if_pos hlt, if_pos hne]; simp
  | case2 s hlt heq ih =>
    rw [collectIdx, if_pos hlt, if_neg heq, List.length_cons]
    omega
  | case3 s hge => rw [collectIdx, if_neg hge]; simp

/-- on a sorted book, the run collected from a position `s` at or after which no key is below `key` is exactly
    the list of entries from `s` on that carry the key -/
theorem collectIdx_sorted (file : List UInt8) (key : Nat) (hs : SortedBook file) (s : Nat)
    (h2 : ∀ i : Nat, s ≤ i → i < numEntries file → key ≤ keyAt file i) :
    collectIdx file key s = (List.range' s (numEntries file - s)).filter (fun i => keyAt file i = key) := by
  induction s using collectIdx.induct file key with
  | case1 s hlt hne =>
    rw [collectIdx, if_pos hlt, if_pos hne]
    symm
    rw [List.filter_eq_nil_iff]
    intro i hi
    rw [List.mem_range'_1] at hi
    have h3 := hs s i hi.1 (by omega)
    have h4 := h2 s (Nat.le_refl _) hlt
    have h5 : keyAt file s ≠ key := hne
    simp only [decide_eq_true_eq]
    omega
  | case2 s hlt heq ih =>
    rw [collectIdx, if_pos hlt, if_neg heq]
    have hk : keyAt file s = key := Decidable.not_not.mp heq
    have hn : numEntries file - s = (numEntries file - (s + 1)) + 1 := by omega
    rw [hn, List.range'_succ, List.filter_cons]
    simp only [hk, decide_true, if_true]
    rw [ih (fun i hi hin => h2 i (by omega) hin)]
  | case3 s hge =>
    rw [collectIdx, if_neg hge]
    have : numEntries file - s = 0 := by omega
    rw [this]; rfl

theorem candidateIdx_own_key (file : List UInt8) (key : Nat) :
    ∀ i ∈ candidateIdx file key, i < numEntries file ∧ keyAt file i = key := by
  intro i hi
  exact (collectIdx_spec file key _ i hi).2

theorem candidateIdx_sorted (file : List UInt8) (key : Nat) (hs : SortedBook file) :
    candidateIdx file key = (List.range (numEntries file)).filter (fun i => keyAt file i = key) := by
  have hr := bsearch_range file key (-1) (numEntries file) (by omega)
  have hb := bsearch_sorted file key hs (-1) (numEntries file) (Int.le_refl _) (by omega) (Int.le_refl _)
    (fun i hi => by omega) (fun i hi hin => by omega)
  generalize hrv : bsearch file key (-1) (numEntries file) = r at hr hb
  have hr0 : r = (r.toNat : Int) := by omega
  have hrn : r.toNat ≤ numEntries file := by omega
  unfold candidateIdx
  rw [hrv, collectIdx_sorted file key hs r.toNat (fun i hi hin => hb.2 i (by omega) hin)]
  have hsplit : List.range (numEntries file) = List.range' 0 r.toNat ++ List.range' r.toNat (numEntries file - r.toNat) := by
    have h := @List.range'_append_1 0 r.toNat (numEntries file - r.toNat)
    rw [Nat.zero_add] at h
    rw [List.range_eq_range', h]
    congr 1; omega
  rw [hsplit, List.filter_append]
  have hnil : (List.range' 0 r.toNat).filter (fun i => keyAt file i = key) = [] := by
    rw [List.filter_eq_nil_iff]
    intro i hi
    rw [List.mem_range'_1] at hi
    have := hb.1 i (by omega)
    simp only [decide_eq_true_eq]
    omega
  rw [hnil, List.nil_append]

/-! ## selection -/

theorem sum_nonneg_of (l : List Int) (h : ∀ x ∈ l, 0 ≤ x) : 0 ≤ l.sum := by
  induction l with
  | nil => simp
  | cons a l ih =>
    rw [List.sum_cons]
    have := h a List.mem_cons_self
    have := ih (fun x hx => h x (List.mem_cons_of_mem _ hx))
    omega

theorem sumIfLegal_legal (legal : List Mv) (cs : List (Mv × Int)) (s t : Int)
    (h : sumIfLegal legal cs s = some t) : ∀ c ∈ cs, c.1 ∈ legal := by
  induction cs generalizing s with
  | nil => intro c hc; cases hc
  | cons d ds ih =>
    intro c hc
    unfold sumIfLegal at h
    split at h
    · rename_i hd
      rcases List.mem_cons.mp hc with rfl | hc
      · exact List.contains_iff_mem.mp hd
      · exact ih _ h c hc
    · cases h

theorem sumIfLegal_value (legal : List Mv) (cs : List (Mv × Int)) (s : Int)
    (h : ∀ c ∈ cs, c.1 ∈ legal) : sumIfLegal legal cs s = some (s + (cs.map (fun c : Mv × Int => c.2)).sum) := by
  induction cs generalizing s with
  | nil => simp [sumIfLegal]
  | cons d ds ih =>
    unfold sumIfLegal
    have hd : legal.contains d.1 = true := List.contains_iff_mem.mpr (h d (List.mem_cons_self))
    rw [if_pos hd, ih _ (fun c hc => h c (List.mem_cons_of_mem _ hc))]
    simp only [List.map_cons, List.sum_cons]
    congr 1; omega

theorem pick_mem (cs : List (Mv × Int)) (rnd acc : Int) (m : Mv) (h : pick cs rnd acc = some m) :
    ∃ c ∈ cs, c.1 = m := by
  induction cs generalizing acc with
  | nil => cases h
  | cons d ds ih =>
    unfold pick at h
    split at h
    · exact ⟨d, List.mem_cons_self, by injection h⟩
    · obtain ⟨c, hc, e⟩ := ih _ h
      exact ⟨c, List.mem_cons_of_mem _ hc, e⟩

/-- the candidate reached by the draw equal to the total weight before it -/
theorem pick_at (pre : List (Mv × Int)) (c : Mv × Int) (post : List (Mv × Int)) (acc : Int)
    (hpre : ∀ d ∈ pre, 0 ≤ d.2) (hc : 0 < c.2) :
    pick (pre ++ c :: post) (acc + (pre.map (fun c : Mv × Int => c.2)).sum) acc = some c.1 := by
  induction pre generalizing acc with
  | nil =>
    simp only [List.nil_append, List.map_nil, List.sum_nil]
    unfold pick
    rw [if_pos (by omega)]
  | cons d ds ih =>
    have hd := hpre d List.mem_cons_self
    have hs : 0 ≤ (ds.map (fun c : Mv × Int => c.2)).sum := by
      apply sum_nonneg_of
      intro x hx
      obtain ⟨e, he, rfl⟩ := List.mem_map.mp hx
      exact hpre e (List.mem_cons_of_mem _ he)
    simp only [List.cons_append, List.map_cons, List.sum_cons]
    unfold pick
    rw [if_neg (by omega)]
    have := ih (acc + d.2) (fun e he => hpre e (List.mem_cons_of_mem _ he))
    rw [← this]
    congr 1; omega

theorem selectMove_safe (p : Pos) (cands : List (Mv × Int)) (r : Nat) :
    selectMove p cands r = none ∨
    ∃ m, selectMove p cands r = some m ∧ legalB p m = true ∧ ∃ c ∈ cands, c.1 = m := by
  unfold selectMove
  split
  · exact Or.inl rfl
  · split
    · exact Or.inl rfl
    · rename_i sum hsum
      split
      · exact Or.inl rfl
      · cases hp : pick cands ((r % sum.toNat : Nat) : Int) 0 with
        | none => exact Or.inl rfl
        | some m =>
          right
          obtain ⟨c, hc, e⟩ := pick_mem _ _ _ _ hp
          refine ⟨m, rfl, ?_, c, hc, e⟩
          have := sumIfLegal_legal _ _ _ _ hsum c hc
          rw [e] at this
          exact (mem_genLegal p m).mp this

/-! ## weights -/

theorem sum_le_of (l : List Int) (B : Int) (h : ∀ x ∈ l, x ≤ B) : l.sum ≤ l.length * B := by
  induction l with
  | nil => simp
  | cons a l ih =>
    rw [List.sum_cons, List.length_cons]
    have h1 := h a List.mem_cons_self
    have h2 := ih (fun x hx => h x (List.mem_cons_of_mem _ hx))
    have : ((l.length + 1 : Nat) : Int) * B = l.length * B + B := by
      rw [Int.natCast_add, Int.add_mul]; simp
    omega

theorem sum_replicate_int (n : Nat) (a : Int) : (List.replicate n a).sum = n * a := by
  induction n with
  | zero => simp
  | succ n ih =>
    rw [List.replicate_succ, List.sum_cons, ih, Int.natCast_add, Int.add_mul]
    simp only [Int.cast_ofNat_Int, Int.one_mul]; omega

theorem entriesForKey_weights (file : List UInt8) (p : Pos) (key : Nat) :
    (∀ c ∈ entriesForKey file p key, 0 ≤ c.2 ∧ c.2 ≤ 65535) ∧
    (entriesForKey file p key).length ≤ numEntries file := by
  constructor
  · intro c hc
    unfold entriesForKey at hc
    obtain ⟨i, _, rfl⟩ := List.mem_map.mp hc
    have := readEntry_weight_lt file (i : Int)
    simp only
    omega
  · unfold entriesForKey candidateIdx
    rw [List.length_map]
    have := collectIdx_length file key (bsearch file key (-1) (numEntries file)).toNat
    omega

/-- the weight sum of any probe is between 0 and 65535 · numEntries -/
theorem weight_sum_bound (file : List UInt8) (p : Pos) (key : Nat) :
    0 ≤ ((entriesForKey file p key).map (fun c : Mv × Int => c.2)).sum ∧
    ((entriesForKey file p key).map (fun c : Mv × Int => c.2)).sum ≤ (numEntries file : Int) * 65535 := by
  obtain ⟨hw, hl⟩ := entriesForKey_weights file p key
  constructor
  · apply sum_nonneg_of
    intro x hx
    obtain ⟨c, hc, rfl⟩ := List.mem_map.mp hx
    exact (hw c hc).1
  · have h := sum_le_of ((entriesForKey file p key).map (fun c : Mv × Int => c.2)) 65535 (by
      intro x hx
      obtain ⟨c, hc, rfl⟩ := List.mem_map.mp hx
      exact (hw c hc).2)
    rw [List.length_map] at h
    have : ((entriesForKey file p key).length : Int) * 65535 ≤ (numEntries file : Int) * 65535 :=
      Int.mul_le_mul_of_nonneg_right (by omega) (by decide)
    omega

end Book
