/-! Small `BitVec` facts used by the `Bridge` theorems (generated C++ kernels ≍ hand models). -/
namespace Util

/-- the C idiom `(1ULL << s) - 1` is the low-`s`-bits mask, for every `s` (for `s ≥ 64` both sides are all-ones) -/
theorem one_shl_sub_one (s : Nat) : (1#64 <<< s) - 1#64 = BitVec.ofNat 64 (2^s - 1) := by
  apply BitVec.eq_of_toNat_eq
  simp only [BitVec.toNat_sub, BitVec.toNat_shiftLeft, BitVec.toNat_ofNat, Nat.shiftLeft_eq, Nat.one_mul, Nat.reducePow, Nat.reduceMod]
  by_cases h : s < 64
  · have h1 : 2^s < 2^64 := Nat.pow_lt_pow_right (by omega) h
    have h0 : 0 < 2^s := Nat.two_pow_pos s
    omega
  · obtain ⟨k, rfl⟩ : ∃ k, s = 64 + k := ⟨s - 64, by omega⟩
    have h0 : 0 < 2^k := Nat.two_pow_pos k
    rw [Nat.pow_add]
    generalize 2^k = m at h0
    omega

end Util
