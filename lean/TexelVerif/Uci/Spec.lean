/-!
# UCI session contract as a small automaton (property C05)

A session is the merged timeline of commands sent to the engine (`.inp`) and output lines received (`.out`), in the
order the driver observed them (a command is logged *before* it is written to the engine's stdin, so everything it
causes is logged after it).  `accepts` decides whether the timeline obeys the contract; `Uci/Impl` models which
commands touch the lazily created engine object.
-/
namespace Uci

inductive Cmd where
  | uci | isready
  | go (ponder infinite : Bool)
  | stop | ponderhit | quit
  | other                       -- setoption, position, ucinewgame, unknown words, blank lines
deriving Repr, DecidableEq

inductive Out where
  | uciok | readyok | bestmove
  | info                        -- search output: depth / pv / nodes / currmove lines
  | idOrOption                  -- `id …` / `option …` lines of the `uci` reply
  | infoString                  -- `info string …` (may appear with `go` in analyse mode)
  | malformed                   -- anything that is not a well-formed UCI output line
deriving Repr, DecidableEq

inductive Ev where
  | inp (c : Cmd)
  | out (o : Out)
deriving Repr, DecidableEq

structure St where
  uciOwed : Nat := 0
  readyOwed : Nat := 0
  goOwed : Nat := 0            -- searches started whose `bestmove` has not been seen yet
  ponder : Bool := false       -- the most recent search is a ponder search not yet released
  infinite : Bool := false     -- the most recent search is infinite and not yet released
deriving Repr, DecidableEq

def St.held (s : St) : Bool := s.ponder || s.infinite

/-- one step of the contract automaton; `none` = contract violated -/
def step (s : St) : Ev → Option St
  | .inp .uci => some { s with uciOwed := s.uciOwed + 1 }
  | .inp .isready => some { s with readyOwed := s.readyOwed + 1 }
  | .inp (.go p i) => some { s with goOwed := s.goOwed + 1, ponder := p, infinite := i }   -- a new `go` ends the previous search
  | .inp .stop => some { s with ponder := false, infinite := false }
  | .inp .ponderhit => some { s with ponder := false }
  | .inp .quit => some { s with ponder := false, infinite := false }
  | .inp .other => some s
  | .out .uciok => if s.uciOwed > 0 then some { s with uciOwed := s.uciOwed - 1 } else none
  | .out .idOrOption => if s.uciOwed > 0 then some s else none
  | .out .readyok => if s.readyOwed > 0 then some { s with readyOwed := s.readyOwed - 1 } else none
  | .out .bestmove =>
      if s.goOwed = 0 then none                            -- a bestmove nobody asked for
      else if s.goOwed = 1 ∧ s.held then none              -- the current ponder / infinite search has not been released
      else some { s with goOwed := s.goOwed - 1 }
  | .out .info => if s.goOwed > 0 then some s else none     -- search output only while a search is outstanding
  | .out .infoString => some s
  | .out .malformed => none

def run (s : St) : List Ev → Option St
  | [] => some s
  | e :: es => match step s e with
    | some s' => run s' es
    | none => none

/-- index of the first event that violates the contract -/
def firstBad (s : St) : List Ev → Nat → Option Nat
  | [], _ => none
  | e :: es, i => match step s e with
    | some s' => firstBad s' es (i + 1)
    | none => some i

/-- a complete session (process has exited): every step allowed and nothing left owed -/
def accepts (tr : List Ev) : Bool :=
  match run {} tr with
  | some s => s.uciOwed == 0 && s.readyOwed == 0 && s.goOwed == 0
  | none => false

def countIn (p : Cmd → Bool) (tr : List Ev) : Nat := (tr.filter fun e => match e with | .inp c => p c | _ => false).length
def countOut (o : Out) (tr : List Ev) : Nat := (tr.filter fun e => e == .out o).length
def isGo : Cmd → Bool | .go _ _ => true | _ => false

end Uci
