import TexelVerif.Uci.Spec
/-!
Which commands touch the lazily created `EngineControl` object in `UCIProtocol::handleCommand`
(uciprotocol.cpp:163-300).  `guardedPonderhit = false` is the pinned commit (unguarded `engine->ponderHit()`),
`true` the repaired dispatch.
-/
namespace Uci

inductive Outcome where
  | ok (engineCreated : Bool)
  | crash                      -- null `engine` dereferenced
deriving Repr, DecidableEq

def dispatch (guardedPonderhit : Bool) (engineCreated : Bool) : Cmd → Outcome
  | .uci => .ok engineCreated
  | .isready => .ok true                     -- initEngine
  | .go _ _ => .ok true                      -- initEngine
  | .other => .ok engineCreated              -- setoption creates it, position / ucinewgame / unknown do not touch or guard it
  | .stop => .ok engineCreated               -- `if (engine)`
  | .quit => .ok engineCreated               -- `if (engine)`
  | .ponderhit => if engineCreated || guardedPonderhit then .ok engineCreated else .crash

def runCmds (g : Bool) : Bool → List Cmd → Outcome
  | e, [] => .ok e
  | e, c :: cs => match dispatch g e c with
    | .ok e' => runCmds g e' cs
    | .crash => .crash

end Uci
