import TexelVerif.Csp.Solver
namespace Csp

/-- constraint  var_v1 ≤ var_v2 + c  -/
structure Con where
  v1 : Nat
  v2 : Nat
  c : Int

abbrev Doms := List Dom
abbrev Asg := List Int     -- value of variable i at index i

def domOf (ds : Doms) (v : Nat) : Dom := ds.getD v 0
def valOf (σ : Asg) (v : Nat) : Int := σ.getD v 0

/-- σ is a solution: right length, every value in its domain, every constraint holds -/
def Sol (ds : Doms) (cs : List Con) (σ : Asg) : Prop :=
  σ.length = ds.length ∧ (∀ v, v < ds.length → (domOf ds v).has (valOf σ v) = true) ∧
  (∀ c ∈ cs, valOf σ c.v1 ≤ valOf σ c.v2 + c.c)

inductive StepRes where
  | unsat                      -- C++ `return false`
  | ub                         -- outside the bit-set contract (never happens, see theorem)
  | ok (ds : Doms) (changed1 changed2 : Bool)

/-- vi = 0 half of the loop body for constraint `c`; `none` = C++ `return false` -/
def step1 (ds : Doms) (c : Con) : Option (Doms × Bool) :=
  let maxVal := maxBit (domOf ds c.v2) + c.c
  if maxVal ≥ offs + 64 then some (ds, false)
  else if maxVal < offs then none
  else match removeLarger (domOf ds c.v1) maxVal with
    | none => some (ds, false)   -- unreachable under the guards
    | some d =>
      if d != domOf ds c.v1 then (if d.isEmpty then none else some (ds.set c.v1 d, true))
      else some (ds, false)

/-- vi = 1 half -/
def step2 (ds1 : Doms) (c : Con) (ch1 : Bool) : StepRes :=
  let minVal := minBit (domOf ds1 c.v1) - c.c
  if minVal ≤ offs then .ok ds1 ch1 false
  else if minVal ≥ offs + 64 then .unsat
  else match removeSmaller (domOf ds1 c.v2) minVal with
    | none => .ub
    | some d =>
      if d != domOf ds1 c.v2 then (if d.isEmpty then .unsat else .ok (ds1.set c.v2 d) ch1 true)
      else .ok ds1 ch1 false

def stepCon (ds : Doms) (c : Con) : StepRes :=
  match step1 ds c with
  | none => .unsat
  | some (ds1, ch1) => step2 ds1 c ch1

end Csp

namespace Csp

theorem domOf_set (ds : Doms) (i j : Nat) (d : Dom) (hi : i < ds.length) :
    domOf (ds.set i d) j = if j = i then d else domOf ds j := by
  unfold domOf
  by_cases h : j = i
  · subst h; simp [List.getD_eq_getElem?_getD, hi]
  · simp [List.getD_eq_getElem?_getD, List.getElem?_set, h, Ne.symm h]

/-- replacing the domain of `i` by `d`, where `d` keeps exactly the values satisfying `keep` -/
theorem sol_set_iff (ds : Doms) (cs : List Con) (i : Nat) (d : Dom) (hi : i < ds.length)
    (keep : Int → Bool) (hd : ∀ x, d.has x = ((domOf ds i).has x && keep x))
    (hk : ∀ σ, Sol ds cs σ → keep (valOf σ i) = true) (σ : Asg) :
    Sol (ds.set i d) cs σ ↔ Sol ds cs σ := by
  constructor
  · rintro ⟨h1, h2, h3⟩
    refine ⟨by simpa using h1, fun v hv => ?_, h3⟩
    have := h2 v (by simpa using hv)
    rw [domOf_set _ _ _ _ hi] at this
    by_cases hvi : v = i
    · subst hvi; simp only [if_true] at this; rw [hd] at this
      simp only [Bool.and_eq_true] at this; exact this.1
    · simpa [hvi] using this
  · intro hs
    obtain ⟨h1, h2, h3⟩ := hs
    refine ⟨by simpa using h1, fun v hv => ?_, h3⟩
    rw [domOf_set _ _ _ _ hi]
    by_cases hvi : v = i
    · subst hvi; simp only [if_true]; rw [hd]
      simp only [Bool.and_eq_true]
      exact ⟨h2 v hi, hk σ ⟨h1, h2, h3⟩⟩
    · simp only [hvi, if_false]; exact h2 v (by simpa using hv)

end Csp

namespace Csp

theorem empty_has (x : Int) : (0 : Dom).has x = false := by simp [Dom.has]

theorem step1_sound (ds : Doms) (cs : List Con) (c : Con) (hc : c ∈ cs)
    (h1 : c.v1 < ds.length) (h2 : c.v2 < ds.length) :
    match step1 ds c with
    | none => ∀ σ, ¬ Sol ds cs σ
    | some (ds1, _) => ds1.length = ds.length ∧ ∀ σ, Sol ds1 cs σ ↔ Sol ds cs σ := by
  have hval : ∀ σ, Sol ds cs σ →
      (domOf ds c.v1).has (valOf σ c.v1) = true ∧ (domOf ds c.v2).has (valOf σ c.v2) = true ∧
      valOf σ c.v1 ≤ valOf σ c.v2 + c.c := fun σ hs => ⟨hs.2.1 _ h1, hs.2.1 _ h2, hs.2.2 c hc⟩
  unfold step1
  simp only
  by_cases g1 : maxBit (domOf ds c.v2) + c.c ≥ offs + 64
  · simp only [g1, if_true]; first | exact ⟨rfl, fun _ => Iff.rfl⟩ | simp
  · simp only [g1, if_false]
    by_cases g2 : maxBit (domOf ds c.v2) + c.c < offs
    · simp only [g2, if_true]
      intro σ hs
      obtain ⟨a1, a2, a3⟩ := hval σ hs
      have hm := (le_maxBit _ _ a2).2
      have hlo := ((Dom.has_iff _ _).1 a1).1
      omega
    · simp only [g2, if_false]
      cases hd : removeLarger (domOf ds c.v1) (maxBit (domOf ds c.v2) + c.c) with
      | none => exact ⟨rfl, fun _ => Iff.rfl⟩
      | some d =>
        simp only
        by_cases g3 : (d != domOf ds c.v1) = true
        · simp only [g3, if_true]
          by_cases g4 : d.isEmpty = true
          · simp only [g4, if_true]
            intro σ hs
            obtain ⟨a1, a2, a3⟩ := hval σ hs
            have hm := (le_maxBit _ _ a2).2
            have := removeLarger_has _ _ _ (valOf σ c.v1) hd
            have hin : d.has (valOf σ c.v1) = true := by rw [this]; simp [a1]; omega
            have : d = 0 := by simpa [Dom.isEmpty] using g4
            subst this
            rw [empty_has] at hin; cases hin
          · simp only [g4]
            refine ⟨by simp, fun σ => ?_⟩
            apply sol_set_iff ds cs c.v1 d h1 (fun x => decide (x ≤ maxBit (domOf ds c.v2) + c.c))
            · intro x; exact removeLarger_has _ _ _ x hd
            · intro σ hs
              obtain ⟨a1, a2, a3⟩ := hval σ hs
              have hm := (le_maxBit _ _ a2).2
              simp; omega
        · simp only [g3]; exact ⟨rfl, fun _ => Iff.rfl⟩

theorem step2_sound (ds1 : Doms) (cs : List Con) (c : Con) (ch1 : Bool) (hc : c ∈ cs)
    (h1 : c.v1 < ds1.length) (h2 : c.v2 < ds1.length) :
    match step2 ds1 c ch1 with
    | .ub => False
    | .unsat => ∀ σ, ¬ Sol ds1 cs σ
    | .ok ds' _ _ => ds'.length = ds1.length ∧ ∀ σ, Sol ds' cs σ ↔ Sol ds1 cs σ := by
  have hval : ∀ σ, Sol ds1 cs σ →
      (domOf ds1 c.v1).has (valOf σ c.v1) = true ∧ (domOf ds1 c.v2).has (valOf σ c.v2) = true ∧
      valOf σ c.v1 ≤ valOf σ c.v2 + c.c := fun σ hs => ⟨hs.2.1 _ h1, hs.2.1 _ h2, hs.2.2 c hc⟩
  unfold step2
  simp only
  by_cases g1 : minBit (domOf ds1 c.v1) - c.c ≤ offs
  · simp only [g1, if_true]; first | exact ⟨rfl, fun _ => Iff.rfl⟩ | simp
  · simp only [g1, if_false]
    by_cases g2 : minBit (domOf ds1 c.v1) - c.c ≥ offs + 64
    · simp only [g2, if_true]
      intro σ hs
      obtain ⟨a1, a2, a3⟩ := hval σ hs
      have hm := (minBit_le _ _ a1).2
      have hhi := ((Dom.has_iff _ _).1 a2).2.1
      omega
    · simp only [g2, if_false]
      cases hd : removeSmaller (domOf ds1 c.v2) (minBit (domOf ds1 c.v1) - c.c) with
      | none =>
        simp only
        unfold removeSmaller at hd
        simp only at hd
        split at hd
        · cases hd
        · split at hd
          · cases hd
          · omega
      | some d =>
        simp only
        by_cases g3 : (d != domOf ds1 c.v2) = true
        · simp only [g3, if_true]
          by_cases g4 : d.isEmpty = true
          · simp only [g4, if_true]
            intro σ hs
            obtain ⟨a1, a2, a3⟩ := hval σ hs
            have hm := (minBit_le _ _ a1).2
            have := removeSmaller_has _ _ _ (valOf σ c.v2) hd
            have hin : d.has (valOf σ c.v2) = true := by rw [this]; simp [a2]; omega
            have : d = 0 := by simpa [Dom.isEmpty] using g4
            subst this
            rw [empty_has] at hin; cases hin
          · simp only [g4]
            refine ⟨by simp, fun σ => ?_⟩
            apply sol_set_iff ds1 cs c.v2 d h2 (fun x => decide (minBit (domOf ds1 c.v1) - c.c ≤ x))
            · intro x; exact removeSmaller_has _ _ _ x hd
            · intro σ hs
              obtain ⟨a1, a2, a3⟩ := hval σ hs
              have hm := (minBit_le _ _ a1).2
              simp; omega
        · simp only [g3]; exact ⟨rfl, fun _ => Iff.rfl⟩

/-- soundness of one constraint step: never `ub`; `unsat` only if no solution; `ok` preserves solutions and length -/
theorem stepCon_sound (ds : Doms) (cs : List Con) (c : Con) (hc : c ∈ cs)
    (h1 : c.v1 < ds.length) (h2 : c.v2 < ds.length) :
    match stepCon ds c with
    | .ub => False
    | .unsat => ∀ σ, ¬ Sol ds cs σ
    | .ok ds' _ _ => ds'.length = ds.length ∧ ∀ σ, Sol ds' cs σ ↔ Sol ds cs σ := by
  have s1 := step1_sound ds cs c hc h1 h2
  unfold stepCon
  cases h : step1 ds c with
  | none => rw [h] at s1; exact s1
  | some r =>
    obtain ⟨ds1, ch1⟩ := r
    rw [h] at s1
    simp only at s1 ⊢
    obtain ⟨hl, hs⟩ := s1
    have s2 := step2_sound ds1 cs c ch1 hc (by omega) (by omega)
    cases h2' : step2 ds1 c ch1 with
    | ub => rw [h2'] at s2; exact s2
    | unsat => rw [h2'] at s2; simp only at s2 ⊢; intro σ hσ; exact s2 σ ((hs σ).2 hσ)
    | ok ds' a b =>
      rw [h2'] at s2; simp only at s2 ⊢
      exact ⟨by omega, fun σ => (s2.2 σ).trans (hs σ)⟩

end Csp
