/-! Prototype model of texelutillib/pg/cspsolver.{hpp,cpp} and bitSet.hpp (BitSet<64,-16>) -/
namespace Csp

/-- Domain of a variable: bit i set ↔ value (i - 16) allowed. -/
abbrev Dom := BitVec 64

def offs : Int := -16

def Dom.has (d : Dom) (v : Int) : Bool :=
  decide (offs ≤ v) && decide (v < offs + 64) && d.getLsbD (v - offs).toNat

theorem Dom.has_iff (d : Dom) (v : Int) :
    d.has v = true ↔ offs ≤ v ∧ v < offs + 64 ∧ d.getLsbD (v - offs).toNat = true := by
  simp [Dom.has, and_assoc]

/-- all bits ≥ k -/
def maskGe (k : Nat) : Dom := BitVec.allOnes 64 <<< k
/-- all bits < k -/
def maskLt (k : Nat) : Dom := ~~~ (BitVec.allOnes 64 <<< k)

theorem ones_getAll : ∀ i : Fin 64, (18446744073709551615#64).getLsbD i.val = true := by decide
theorem ones_get (i : Nat) (h : i < 64) : (18446744073709551615#64)[i] = true := by
  have := ones_getAll ⟨i, h⟩
  simpa [BitVec.getLsbD_eq_getElem h] using this
theorem maskGe_get (k j : Nat) (hj : j < 64) : (maskGe k).getLsbD j = decide (k ≤ j) := by
  simp [maskGe, hj]
  by_cases h : j < k
  · simp [h]
  · simp [h, ones_get (j - k) (by omega)]; omega
theorem maskLt_get (k j : Nat) (hj : j < 64) : (maskLt k).getLsbD j = decide (j < k) := by
  simp [maskLt, hj]
  intro h
  have := ones_get (j - k) (by omega)
  rw [this] at h; cases h

/-- C++ `removeSmaller(minVal)`; `none` = outside the code's contract (would index data[1]) -/
def removeSmaller (d : Dom) (minVal : Int) : Option Dom :=
  let m := minVal - offs
  if m ≤ 0 then some d
  else if m < 64 then some (d &&& maskGe m.toNat)
  else none

/-- C++ `removeLarger(maxVal)`; `none` = outside the contract (negative word index) -/
def removeLarger (d : Dom) (maxVal : Int) : Option Dom :=
  let m := maxVal - offs + 1
  if 64 ≤ m then some d
  else if 0 ≤ m then some (d &&& maskLt m.toNat)
  else none

theorem removeSmaller_has (d d' : Dom) (m v : Int) (h : removeSmaller d m = some d') :
    d'.has v = (d.has v && decide (m ≤ v)) := by
  unfold removeSmaller at h
  simp only at h
  split at h
  · injection h with h; subst h
    by_cases hv : d.has v = true
    · have := (Dom.has_iff d v).1 hv; simp [hv]; unfold offs at *; omega
    · simp at hv; simp [hv]
  · split at h
    · injection h with h; subst h
      simp only [Dom.has, BitVec.getLsbD_and]
      by_cases h1 : offs ≤ v <;> by_cases h2 : v < offs + 64 <;> simp [h1, h2]
      rw [maskGe_get _ _ (by unfold offs at *; omega)]
      by_cases h3 : m ≤ v
      · have : (m - offs).toNat ≤ (v - offs).toNat := by unfold offs at *; omega
        simp [h3, this]
      · have : ¬ (m - offs).toNat ≤ (v - offs).toNat := by unfold offs at *; omega
        simp [h3, this]
    · cases h

theorem removeLarger_has (d d' : Dom) (m v : Int) (h : removeLarger d m = some d') :
    d'.has v = (d.has v && decide (v ≤ m)) := by
  unfold removeLarger at h
  simp only at h
  split at h
  · injection h with h; subst h
    by_cases hv : d.has v = true
    · have := (Dom.has_iff d v).1 hv; simp [hv]; unfold offs at *; omega
    · simp at hv; simp [hv]
  · split at h
    · injection h with h; subst h
      simp only [Dom.has, BitVec.getLsbD_and]
      by_cases h1 : offs ≤ v <;> by_cases h2 : v < offs + 64 <;> simp [h1, h2]
      rw [maskLt_get _ _ (by unfold offs at *; omega)]
      by_cases h3 : v ≤ m
      · have : (v - offs).toNat < (m - offs + 1).toNat := by unfold offs at *; omega
        simp [h3, this]
      · have : ¬ (v - offs).toNat < (m - offs + 1).toNat := by unfold offs at *; omega
        simp [h3, this]
    · cases h

end Csp
