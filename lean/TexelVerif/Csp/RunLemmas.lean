import TexelVerif.Csp.Run
import TexelVerif.Csp.BuildLemmas
/-! Lemmas about the total solver `Sys.solve` / `solveCmds`: node-counting search = search, exactness, the decidable
    description of the supported limits, and the `int` ranges of the arithmetic the C++ performs. -/
namespace Csp

theorem goVals_fst (rec : Asg → Option Asg × Nat) (f : Asg → Option Asg) (h : ∀ σ', (rec σ').1 = f σ')
    (cs : List Con) (σ : Asg) (k : Nat) : ∀ (vs : List Int) (n : Nat),
    (goVals rec cs σ k vs n).1 = vs.findSome? (fun v => if checkAt cs (σ ++ [v]) k then f (σ ++ [v]) else none)
  | [], n => by simp [goVals]
  | v :: vs, n => by
    unfold goVals
    rw [List.findSome?_cons]
    by_cases hc : checkAt cs (σ ++ [v]) k = true
    · simp only [hc, if_true]
      have hv := h (σ ++ [v])
      cases hr : rec (σ ++ [v]) with
      | mk o c =>
        rw [hr] at hv; simp only at hv
        cases o with
        | some τ => simp only [← hv]
        | none => simp only [← hv]; exact goVals_fst rec f h cs σ k vs (n + c)
    · simp only [hc, Bool.false_eq_true, if_false]
      exact goVals_fst rec f h cs σ k vs n

/-- the node-counting search returns exactly what `search` returns -/
theorem searchN_fst (ds : Doms) (cs : List Con) (ord : Nat → Dom → List Int) :
    ∀ (m : Nat) (σ : Asg), (searchN ds cs ord m σ).1 = search ds cs ord m σ
  | 0, σ => by simp [searchN, search]
  | m+1, σ => by
    unfold searchN search
    simp only
    exact goVals_fst _ _ (fun σ' => searchN_fst ds cs ord m σ') cs σ σ.length _ 1

theorem ordOf_ok (ps : List Pref) : OrdOk (ordOf ps) := ordOk (prefOf ps)

/-- What `Sys.solve` returns on a well-formed state with at most 192 constraints: never an error, never stuck;
    `sat` carries a solution, both `unsat` answers mean there is none; the reported domains (after arc consistency)
    have exactly the same solutions as the original ones. -/
theorem Sys.solve_spec (s : Sys) (wf : s.WF) (hm : s.cons.length ≤ maxCons) :
    match s.solve with
    | .sat τ _ ds' => Sol s.doms s.cons τ ∧ (s.doms.length ≠ 0 → ds'.length = s.doms.length ∧ ∀ σ, Sol ds' s.cons σ ↔ Sol s.doms s.cons σ)
    | .unsatArc => ∀ τ, ¬ Sol s.doms s.cons τ
    | .unsatSearch _ ds' => (∀ τ, ¬ Sol s.doms s.cons τ) ∧ ds'.length = s.doms.length ∧ ∀ σ, Sol ds' s.cons σ ↔ Sol s.doms s.cons σ
    | .err _ _ => False
    | .tooMany => False
    | .stuck => False := by
  have hwf := wf.wfc
  unfold Sys.solve
  by_cases h0 : s.doms.length = 0
  · rw [if_pos h0]
    have : s.cons = [] := by
      cases hc : s.cons with
      | nil => rfl
      | cons c _ => have := (hwf c (by rw [hc]; exact List.mem_cons_self ..)).1; omega
    simp only
    refine ⟨⟨by simp [h0], fun v hv => by omega, fun c hc => by rw [this] at hc; cases hc⟩, fun h => absurd h0 h⟩
  · rw [if_neg h0, if_neg (by omega)]
    have ha := arcLoop_sound s.cons (arcFuel s.doms.length s.cons.length) s.doms (List.replicate s.cons.length true) hwf (by simp)
    have hf := arcLoop_arcFuel s.doms s.cons hwf
    cases hr : arcLoop s.cons (arcFuel s.doms.length s.cons.length) s.doms (List.replicate s.cons.length true) with
    | unsat => rw [hr] at ha; exact ha
    | ub => rw [hr] at ha; exact ha
    | outOfFuel => exact absurd hr hf
    | ok ds' =>
      rw [hr] at ha
      simp only at ha ⊢
      obtain ⟨hl, hs⟩ := ha
      have hwf' : WFc ds' s.cons := fun c hc => by have := hwf c hc; omega
      have hfst := searchN_fst ds' s.cons (ordOf s.prefs) ds'.length []
      cases hsr : searchN ds' s.cons (ordOf s.prefs) ds'.length [] with
      | mk o n =>
        rw [hsr] at hfst; simp only at hfst
        cases o with
        | some τ =>
          simp only
          have := search_sound ds' s.cons (ordOf s.prefs) (ordOf_ok s.prefs) ds'.length [] 0
            ⟨rfl, fun v hv => by omega, fun c _ h1 _ => by omega⟩ τ hfst.symm
          rw [Nat.zero_add] at this
          exact ⟨(hs τ).1 ((psol_iff_sol ds' s.cons hwf' τ).1 this), fun _ => ⟨hl, hs⟩⟩
        | none =>
          simp only
          refine ⟨fun τ hτ => ?_, hl, hs⟩
          have hτ' := (psol_iff_sol ds' s.cons hwf' τ).2 ((hs τ).2 hτ)
          have := search_complete ds' s.cons (ordOf s.prefs) (ordOf_ok s.prefs) ds'.length τ hτ' ds'.length 0 (by omega)
          simp [← hfst] at this

/-! ### The supported limits as a decidable predicate on the call sequence -/

/-- call `c` is inside the API contract when `n` variables exist -/
def Cmd.okAt (n : Nat) : Cmd → Bool
  | .addVar _ lo hi => decide (-16 ≤ lo ∧ lo ≤ 47 ∧ -16 ≤ hi ∧ hi ≤ 47)
  | .even v => decide (v < n)
  | .odd v => decide (v < n)
  | .minVal v m => decide (v < n ∧ m ≤ 47)
  | .maxVal v m => decide (v < n ∧ -17 ≤ m ∧ m ≤ mMax)
  | .le v1 v2 c => decide (v1 < n ∧ v2 < n ∧ -cMax ≤ c ∧ c ≤ cMax)
  | .ge v1 v2 c => decide (v1 < n ∧ v2 < n ∧ -cMax ≤ c ∧ c ≤ cMax)
  | .eq v1 v2 c => decide (v1 < n ∧ v2 < n ∧ -cMax ≤ c ∧ c ≤ cMax)

/-- number of `Constraint` records a call appends -/
def Cmd.nc : Cmd → Nat
  | .le _ _ _ => 1
  | .ge _ _ _ => 1
  | .eq _ _ _ => 2
  | _ => 0

def okFrom : Nat → List Cmd → Bool
  | _, [] => true
  | n, c :: r => c.okAt n && okFrom (n + c.nv) r

def nConsOf : List Cmd → Nat
  | [] => 0
  | c :: r => c.nc + nConsOf r

/-- The solver's supported limits: every call inside its contract (values in [-16,47], existing variables, offsets
    small enough for `int`), and at most 192 constraint records (unless there is no variable at all, in which case
    `solve` returns before looking at them — and there cannot be any). -/
def Supported (cmds : List Cmd) : Bool := okFrom 0 cmds && decide (nConsOf cmds ≤ maxCons)

theorem removeSmaller_isSome (d : Dom) (m : Int) : (removeSmaller d m).isSome = decide (m ≤ 47) := by
  unfold removeSmaller offs; simp only
  split
  · simp; omega
  · split
    · simp; omega
    · simp; omega

theorem removeLarger_isSome (d : Dom) (m : Int) : (removeLarger d m).isSome = decide (-17 ≤ m) := by
  unfold removeLarger offs; simp only
  split
  · simp; omega
  · split
    · simp; omega
    · simp; omega

theorem apply_ok_iff (s : Sys) (c : Cmd) : (∃ s', s.apply c = .ok s') ↔ c.okAt s.doms.length = true := by
  cases c with
  | addVar p lo hi =>
    simp only [Sys.apply, Cmd.okAt, decide_eq_true_eq]
    by_cases h : lo < offs ∨ offs + 64 ≤ lo ∨ hi < offs ∨ offs + 64 ≤ hi
    · rw [if_pos h]; unfold offs at h; constructor
      · rintro ⟨_, h'⟩; cases h'
      · intro h'; omega
    · rw [if_neg h]
      have h' : offs ≤ lo ∧ lo < offs + 64 ∧ offs ≤ hi ∧ hi < offs + 64 := by omega
      obtain ⟨d, hd, _⟩ := setRange_spec lo hi h'.1 h'.2.1 h'.2.2.1 h'.2.2.2
      rw [hd]; unfold offs at h'
      exact ⟨fun _ => by omega, fun _ => ⟨_, rfl⟩⟩
  | even v =>
    simp only [Sys.apply, Cmd.okAt, decide_eq_true_eq]
    by_cases h : v < s.doms.length
    · simp [h]
    · simp [h]
  | odd v =>
    simp only [Sys.apply, Cmd.okAt, decide_eq_true_eq]
    by_cases h : v < s.doms.length
    · simp [h]
    · simp [h]
  | minVal v m =>
    simp only [Sys.apply, Cmd.okAt, decide_eq_true_eq]
    by_cases h : v < s.doms.length
    · rw [if_pos h]
      have := removeSmaller_isSome (domOf s.doms v) m
      cases hr : removeSmaller (domOf s.doms v) m with
      | none => rw [hr] at this; simp at this; simp only; constructor
                · rintro ⟨_, h'⟩; cases h'
                · intro h'; omega
      | some d => rw [hr] at this; simp at this; simp only; exact ⟨fun _ => ⟨h, this⟩, fun _ => ⟨_, rfl⟩⟩
    · rw [if_neg h]; constructor
      · rintro ⟨_, h'⟩; cases h'
      · intro h'; exact absurd h'.1 h
  | maxVal v m =>
    simp only [Sys.apply, Cmd.okAt, decide_eq_true_eq]
    by_cases h : v < s.doms.length
    · rw [if_pos h]
      by_cases hm : mMax < m
      · rw [if_pos hm]; constructor
        · rintro ⟨_, h'⟩; cases h'
        · intro h'; omega
      · rw [if_neg hm]
        have := removeLarger_isSome (domOf s.doms v) m
        cases hr : removeLarger (domOf s.doms v) m with
        | none => rw [hr] at this; simp at this; simp only; constructor
                  · rintro ⟨_, h'⟩; cases h'
                  · intro h'; omega
        | some d => rw [hr] at this; simp at this; simp only; exact ⟨fun _ => ⟨h, this, by omega⟩, fun _ => ⟨_, rfl⟩⟩
    · rw [if_neg h]; constructor
      · rintro ⟨_, h'⟩; cases h'
      · intro h'; exact absurd h'.1 h
  | le v1 v2 c =>
    simp only [Sys.apply, Cmd.okAt, decide_eq_true_eq]
    by_cases h : v1 < s.doms.length ∧ v2 < s.doms.length
    · rw [if_pos h]
      by_cases hc : c < -cMax ∨ cMax < c
      · rw [if_pos hc]; constructor
        · rintro ⟨_, h'⟩; cases h'
        · intro h'; omega
      · rw [if_neg hc]; exact ⟨fun _ => ⟨h.1, h.2, by omega, by omega⟩, fun _ => ⟨_, rfl⟩⟩
    · rw [if_neg h]; constructor
      · rintro ⟨_, h'⟩; cases h'
      · intro h'; exact absurd ⟨h'.1, h'.2.1⟩ h
  | ge v1 v2 c =>
    simp only [Sys.apply, Cmd.okAt, decide_eq_true_eq]
    by_cases h : v1 < s.doms.length ∧ v2 < s.doms.length
    · rw [if_pos h]
      by_cases hc : c < -cMax ∨ cMax < c
      · rw [if_pos hc]; constructor
        · rintro ⟨_, h'⟩; cases h'
        · intro h'; omega
      · rw [if_neg hc]; exact ⟨fun _ => ⟨h.1, h.2, by omega, by omega⟩, fun _ => ⟨_, rfl⟩⟩
    · rw [if_neg h]; constructor
      · rintro ⟨_, h'⟩; cases h'
      · intro h'; exact absurd ⟨h'.1, h'.2.1⟩ h
  | eq v1 v2 c =>
    simp only [Sys.apply, Cmd.okAt, decide_eq_true_eq]
    by_cases h : v1 < s.doms.length ∧ v2 < s.doms.length
    · rw [if_pos h]
      by_cases hc : c < -cMax ∨ cMax < c
      · rw [if_pos hc]; constructor
        · rintro ⟨_, h'⟩; cases h'
        · intro h'; omega
      · rw [if_neg hc]; exact ⟨fun _ => ⟨h.1, h.2, by omega, by omega⟩, fun _ => ⟨_, rfl⟩⟩
    · rw [if_neg h]; constructor
      · rintro ⟨_, h'⟩; cases h'
      · intro h'; exact absurd ⟨h'.1, h'.2.1⟩ h

theorem apply_ncons (s s' : Sys) (c : Cmd) (h : s.apply c = .ok s') : s'.cons.length = s.cons.length + c.nc := by
  cases c <;> simp only [Sys.apply] at h <;> (repeat' split at h) <;>
    first
    | (cases h; done)
    | (cases h; simp [Cmd.nc, setDom])

theorem buildFrom_ok_iff : ∀ (cmds : List Cmd) (s : Sys) (i : Nat),
    (∃ s', buildFrom s i cmds = .ok s' ∧ s'.cons.length = s.cons.length + nConsOf cmds) ↔ okFrom s.doms.length cmds = true
  | [], s, i => by simp [buildFrom, okFrom, nConsOf]
  | c :: r, s, i => by
    simp only [buildFrom, okFrom, Bool.and_eq_true, nConsOf]
    rw [← apply_ok_iff]
    cases ha : s.apply c with
    | error e => simp
    | ok s1 =>
      have hn := (apply_spec s s1 c ha).2.1
      have hc := apply_ncons s s1 c ha
      have ih := buildFrom_ok_iff r s1 (i+1)
      rw [hn] at ih
      simp only [Except.ok.injEq, exists_eq', true_and]
      rw [← ih]
      constructor
      · rintro ⟨s', h1, h2⟩; exact ⟨s', h1, by omega⟩
      · rintro ⟨s', h1, h2⟩; exact ⟨s', h1, by omega⟩

/-- `Supported` says exactly: the building calls all succeed and `solve`'s assert on the constraint count holds. -/
theorem supported_iff (cmds : List Cmd) :
    Supported cmds = true ↔ ∃ s, build cmds = .ok s ∧ s.cons.length ≤ maxCons := by
  unfold Supported build
  rw [Bool.and_eq_true, decide_eq_true_eq]
  have := buildFrom_ok_iff cmds {} 0
  simp only [List.length_nil, Nat.zero_add] at this
  constructor
  · rintro ⟨h1, h2⟩
    obtain ⟨s, hs, hl⟩ := this.2 h1
    exact ⟨s, hs, by omega⟩
  · rintro ⟨s, hs, hl⟩
    have hex : ∃ s', buildFrom {} 0 cmds = .ok s' ∧ s'.cons.length = nConsOf cmds := by
      by_cases hok : okFrom 0 cmds = true
      · exact this.2 hok
      · exfalso
        -- build succeeded, so every call was inside the contract
        have : ∀ (cmds : List Cmd) (s : Sys) (i : Nat) (s' : Sys), buildFrom s i cmds = .ok s' → okFrom s.doms.length cmds = true := by
          intro cmds
          induction cmds with
          | nil => intro s i s' _; rfl
          | cons c r ih =>
            intro s i s' h
            simp only [buildFrom] at h
            cases ha : s.apply c with
            | error e => rw [ha] at h; cases h
            | ok s1 =>
              rw [ha] at h; simp only at h
              have hn := (apply_spec s s1 c ha).2.1
              simp only [okFrom, Bool.and_eq_true]
              refine ⟨(apply_ok_iff s c).1 ⟨s1, ha⟩, ?_⟩
              rw [← hn]; exact ih s1 (i+1) s' h
        exact hok (this cmds {} 0 s hs)
    obtain ⟨s', hs', hl'⟩ := hex
    rw [hs] at hs'; cases hs'
    exact ⟨this.1 ⟨s, hs, hl'⟩, by omega⟩

theorem Sys.solve_tooMany (s : Sys) (wf : s.WF) (h : ¬ s.cons.length ≤ maxCons) : s.solve = .tooMany := by
  unfold Sys.solve
  have h0 : s.doms.length ≠ 0 := by
    intro h0
    cases hc : s.cons with
    | nil => rw [hc] at h; simp [maxCons] at h
    | cons c _ => have := (wf.wfc c (by rw [hc]; exact List.mem_cons_self ..)).1; omega
  rw [if_neg h0, if_pos (by omega)]

/-- forget the value preference of a call -/
def erasePref : Cmd → Cmd
  | .addVar _ lo hi => .addVar .small lo hi
  | c => c

theorem erase_props (c : Cmd) (n : Nat) (σ : Asg) :
    (erasePref c).okAt n = c.okAt n ∧ (erasePref c).nv = c.nv ∧ (erasePref c).nc = c.nc ∧ ((erasePref c).holds n σ ↔ c.holds n σ) := by
  cases c <;> simp [erasePref, Cmd.okAt, Cmd.nv, Cmd.nc, Cmd.holds]

theorem erase_list : ∀ (cmds : List Cmd) (n : Nat) (σ : Asg),
    okFrom n (cmds.map erasePref) = okFrom n cmds ∧ nConsOf (cmds.map erasePref) = nConsOf cmds ∧
    nVarsOf (cmds.map erasePref) = nVarsOf cmds ∧ (SatFrom n (cmds.map erasePref) σ ↔ SatFrom n cmds σ)
  | [], n, σ => by simp [okFrom, nConsOf, nVarsOf, SatFrom]
  | c :: r, n, σ => by
    obtain ⟨a1, a2, a3, a4⟩ := erase_props c n σ
    obtain ⟨b1, b2, b3, b4⟩ := erase_list r (n + c.nv) σ
    simp only [List.map_cons, okFrom, nConsOf, nVarsOf, SatFrom, a1, a2, a3, a4, b1, b2, b3, b4, and_self]

/-! ### `int` ranges -/

theorem minBit_range (d : Dom) : -16 ≤ minBit d ∧ minBit d ≤ 47 := by
  unfold minBit
  cases h : lowest d with
  | none => simp
  | some i => have := (lowest_spec d i h).2.1; simp only [offs]; omega

theorem maxBit_range (d : Dom) : -16 ≤ maxBit d ∧ maxBit d ≤ 47 := by
  unfold maxBit
  cases h : highest d with
  | none => simp
  | some i => have := (highest_spec d i h).2.1; simp only [offs]; omega

end Csp
