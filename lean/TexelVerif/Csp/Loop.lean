import TexelVerif.Csp.Arc
namespace Csp

inductive ArcRes where
  | unsat | ub | outOfFuel
  | ok (ds : Doms)

/-- bitmask of constraints that mention variable v (C++ varToConstr[v]) -/
def varTo (cs : List Con) (v : Nat) : List Bool := cs.map (fun c => c.v1 == v || c.v2 == v)

def orMask (a b : List Bool) : List Bool := List.zipWith (· || ·) a b

/-- C++ makeArcConsistent: pick the lowest pending constraint, process it, re-queue neighbours of changed variables, clear it -/
def arcLoop (cs : List Con) : Nat → Doms → List Bool → ArcRes
  | 0, _, _ => .outOfFuel
  | fuel+1, ds, work =>
    match work.idxOf? true with
    | none => .ok ds
    | some ci =>
      match cs[ci]? with
      | none => .ub
      | some c =>
        match stepCon ds c with
        | .unsat => .unsat
        | .ub => .ub
        | .ok ds' ch1 ch2 =>
          let w1 := if ch1 then orMask work (varTo cs c.v1) else work
          let w2 := if ch2 then orMask w1 (varTo cs c.v2) else w1
          arcLoop cs fuel ds' (w2.set ci false)

def WFc (ds : Doms) (cs : List Con) : Prop := ∀ c ∈ cs, c.v1 < ds.length ∧ c.v2 < ds.length

theorem arcLoop_sound (cs : List Con) : ∀ (fuel : Nat) (ds : Doms) (work : List Bool), WFc ds cs →
    work.length = cs.length →
    match arcLoop cs fuel ds work with
    | .ub => False
    | .outOfFuel => True
    | .unsat => ∀ σ, ¬ Sol ds cs σ
    | .ok ds' => ds'.length = ds.length ∧ ∀ σ, Sol ds' cs σ ↔ Sol ds cs σ
  | 0, ds, work, _, _ => by simp [arcLoop]
  | fuel+1, ds, work, hwf, hlen => by
    unfold arcLoop
    cases hi : work.idxOf? true with
    | none => simp
    | some ci =>
      simp only
      have hci : ci < work.length := by
        obtain ⟨h, _⟩ := List.idxOf?_eq_some_iff.1 hi
        exact h
      cases hc : cs[ci]? with
      | none =>
        exfalso
        rw [List.getElem?_eq_none_iff] at hc
        omega
      | some c =>
        simp only
        have hmem : c ∈ cs := List.mem_of_getElem? hc
        obtain ⟨h1, h2⟩ := hwf c hmem
        have ss := stepCon_sound ds cs c hmem h1 h2
        cases hs : stepCon ds c with
        | unsat => rw [hs] at ss; exact ss
        | ub => rw [hs] at ss; exact ss
        | ok ds' ch1 ch2 =>
          rw [hs] at ss
          simp only at ss ⊢
          obtain ⟨hl, hsol⟩ := ss
          have hwf' : WFc ds' cs := fun c' hc' => by have := hwf c' hc'; omega
          have hlen' : ∀ w : List Bool, w.length = cs.length → (w.set ci false).length = cs.length := by
            intro w hw; simpa using hw
          have hor : ∀ (w : List Bool) v, w.length = cs.length → (orMask w (varTo cs v)).length = cs.length := by
            intro w v hw; simp [orMask, varTo, hw]
          have hw2 : ((if ch2 then orMask (if ch1 then orMask work (varTo cs c.v1) else work) (varTo cs c.v2)
                        else (if ch1 then orMask work (varTo cs c.v1) else work)).set ci false).length = cs.length := by
            apply hlen'
            cases ch1 <;> cases ch2 <;> simp [hor, hlen]
          have ih := arcLoop_sound cs fuel ds' _ hwf' hw2
          cases hr : arcLoop cs fuel ds' _ with
          | ub => rw [hr] at ih; exact ih
          | outOfFuel => trivial
          | unsat => rw [hr] at ih; simp only at ih ⊢; intro σ hσ; exact ih σ ((hsol σ).2 hσ)
          | ok ds'' =>
            rw [hr] at ih; simp only at ih ⊢
            exact ⟨by omega, fun σ => (ih.2 σ).trans (hsol σ)⟩

end Csp
