import TexelVerif.Csp.Order
/-!
Termination of `makeArcConsistent`: the work-list loop of the model (`arcLoop`) never runs out of fuel when started
with `arcFuel n m = (64·n + 1)·(m + 1)` (n variables, m constraints).  Measure: (total number of values left in all
domains)·(m+1) + (number of pending constraints); every iteration either shrinks a domain or removes the processed
constraint from the work list without adding any.
-/
namespace Csp

def sumCard : Doms → Nat
  | [] => 0
  | d :: r => card d + sumCard r

def cntTrue (w : List Bool) : Nat := w.count true

/-- fuel that always suffices for `n` variables and `m` constraints -/
def arcFuel (n m : Nat) : Nat := (64 * n + 1) * (m + 1)

theorem sumCard_le : ∀ ds : Doms, sumCard ds ≤ 64 * ds.length
  | [] => by simp [sumCard]
  | d :: r => by have := sumCard_le r; have := card_le d; simp only [sumCard, List.length_cons]; omega

theorem sumCard_set : ∀ (ds : Doms) (i : Nat) (d : Dom), i < ds.length →
    sumCard (ds.set i d) + card (domOf ds i) = sumCard ds + card d
  | [], i, d, h => by simp at h
  | x :: r, 0, d, _ => by simp [sumCard, domOf]; omega
  | x :: r, i+1, d, h => by
    have := sumCard_set r i d (by simpa using h)
    simp only [List.set_cons_succ, sumCard]
    have e : domOf (x :: r) (i+1) = domOf r i := by simp [domOf]
    rw [e]; omega

theorem countP_lt_of_imp {α} (p q : α → Bool) : ∀ (l : List α), (∀ x ∈ l, p x = true → q x = true) →
    (∃ x ∈ l, q x = true ∧ p x = false) → l.countP p < l.countP q
  | [], _, h => by obtain ⟨x, hx, _⟩ := h; cases hx
  | a :: l, himp, hex => by
    have hle : l.countP p ≤ l.countP q := List.countP_mono_left (fun x hx => himp x (List.mem_cons_of_mem _ hx))
    obtain ⟨x, hx, hq, hp⟩ := hex
    rcases List.mem_cons.1 hx with rfl | hx'
    · simp only [List.countP_cons, hq, hp, if_true]; simp; omega
    · have ih := countP_lt_of_imp p q l (fun y hy => himp y (List.mem_cons_of_mem _ hy)) ⟨x, hx', hq, hp⟩
      have := himp a (List.mem_cons_self ..)
      simp only [List.countP_cons]
      by_cases hpa : p a = true
      · simp [hpa, this hpa]; omega
      · have hpa' : p a = false := by simpa using hpa
        simp only [hpa', Bool.false_eq_true, if_false]
        by_cases hqa : q a = true
        · simp only [hqa, if_true]; omega
        · simp only [hqa, if_false]; omega

theorem card_and_le (d m : Dom) : card (d &&& m) ≤ card d := by
  unfold card
  apply List.countP_mono_left
  intro i _ h
  simp only [BitVec.getLsbD_and, Bool.and_eq_true] at h
  exact h.1

theorem card_and_lt (d m : Dom) (h : d &&& m ≠ d) : card (d &&& m) < card d := by
  unfold card
  apply countP_lt_of_imp
  · intro i _ h
    simp only [BitVec.getLsbD_and, Bool.and_eq_true] at h
    exact h.1
  · by_cases hex : ∃ i, i < 64 ∧ d.getLsbD i = true ∧ (d &&& m).getLsbD i = false
    · obtain ⟨i, hi, a, b⟩ := hex
      exact ⟨i, by simp [hi], a, b⟩
    · exfalso; apply h
      apply BitVec.eq_of_getLsbD_eq
      intro i hi
      by_cases hd : d.getLsbD i = true
      · by_cases ha : (d &&& m).getLsbD i = true
        · rw [ha, hd]
        · exact absurd ⟨i, hi, hd, by simpa using ha⟩ hex
      · simp only [Bool.not_eq_true] at hd
        simp [hd]

theorem removeLarger_and (d d' : Dom) (m : Int) (h : removeLarger d m = some d') : ∃ k, d' = d &&& k := by
  unfold removeLarger at h
  simp only at h
  split at h
  · injection h with h; exact ⟨BitVec.allOnes 64, by rw [← h, BitVec.and_allOnes]⟩
  · split at h
    · injection h with h; exact ⟨_, h.symm⟩
    · cases h

theorem removeSmaller_and (d d' : Dom) (m : Int) (h : removeSmaller d m = some d') : ∃ k, d' = d &&& k := by
  unfold removeSmaller at h
  simp only at h
  split at h
  · injection h with h; exact ⟨BitVec.allOnes 64, by rw [← h, BitVec.and_allOnes]⟩
  · split at h
    · injection h with h; exact ⟨_, h.symm⟩
    · cases h

def b2n (b : Bool) : Nat := if b then 1 else 0

theorem step1_card (ds ds1 : Doms) (c : Con) (ch : Bool) (h1 : c.v1 < ds.length)
    (h : step1 ds c = some (ds1, ch)) :
    ds1.length = ds.length ∧ sumCard ds1 + b2n ch ≤ sumCard ds ∧ (ch = false → ds1 = ds) := by
  unfold step1 at h
  simp only at h
  split at h
  · injection h with h; injection h with a b; subst a; subst b; simp [b2n]
  · split at h
    · cases h
    · split at h
      · injection h with h; injection h with a b; subst a; subst b; simp [b2n]
      · rename_i d hd
        split at h
        · rename_i hne
          split at h
          · cases h
          · injection h with h; injection h with a b; subst a; subst b
            obtain ⟨k, hk⟩ := removeLarger_and _ _ _ hd
            have hne' : domOf ds c.v1 &&& k ≠ domOf ds c.v1 := by rw [← hk]; simpa using hne
            have := card_and_lt _ _ hne'
            have hs := sumCard_set ds c.v1 d h1
            rw [hk] at hs ⊢
            refine ⟨by simp, by simp only [b2n, if_true]; omega, by simp⟩
        · injection h with h; injection h with a b; subst a; subst b; simp [b2n]

theorem step2_card (ds1 ds' : Doms) (c : Con) (ch1 a b : Bool) (h2 : c.v2 < ds1.length)
    (h : step2 ds1 c ch1 = .ok ds' a b) :
    ds'.length = ds1.length ∧ a = ch1 ∧ sumCard ds' + b2n b ≤ sumCard ds1 ∧ (b = false → ds' = ds1) := by
  unfold step2 at h
  simp only at h
  split at h
  · injection h with x y z; subst x; subst y; subst z; simp [b2n]
  · split at h
    · cases h
    · split at h
      · cases h
      · rename_i d hd
        split at h
        · rename_i hne
          split at h
          · cases h
          · injection h with x y z; subst x; subst y; subst z
            obtain ⟨k, hk⟩ := removeSmaller_and _ _ _ hd
            have hne' : domOf ds1 c.v2 &&& k ≠ domOf ds1 c.v2 := by rw [← hk]; simpa using hne
            have := card_and_lt _ _ hne'
            have hs := sumCard_set ds1 c.v2 d h2
            rw [hk] at hs ⊢
            refine ⟨by simp, rfl, by simp only [b2n, if_true]; omega, by simp⟩
        · injection h with x y z; subst x; subst y; subst z; simp [b2n]

theorem stepCon_card (ds ds' : Doms) (c : Con) (a b : Bool) (h1 : c.v1 < ds.length) (h2 : c.v2 < ds.length)
    (h : stepCon ds c = .ok ds' a b) :
    ds'.length = ds.length ∧ sumCard ds' + b2n a + b2n b ≤ sumCard ds := by
  unfold stepCon at h
  cases hs : step1 ds c with
  | none => rw [hs] at h; cases h
  | some r =>
    obtain ⟨ds1, ch1⟩ := r
    rw [hs] at h
    simp only at h
    obtain ⟨l1, s1, _⟩ := step1_card ds ds1 c ch1 h1 hs
    obtain ⟨l2, e, s2, _⟩ := step2_card ds1 ds' c ch1 a b (by omega) h
    subst e
    exact ⟨by omega, by omega⟩

theorem cntTrue_le (w : List Bool) : cntTrue w ≤ w.length := List.count_le_length

theorem cntTrue_set_false : ∀ (w : List Bool) (i : Nat), i < w.length → w[i]? = some true →
    cntTrue (w.set i false) + 1 = cntTrue w
  | [], i, h, _ => by simp at h
  | x :: r, 0, _, hx => by
    simp at hx; subst hx; simp [cntTrue]
  | x :: r, i+1, h, hx => by
    have := cntTrue_set_false r i (by simpa using h) (by simpa using hx)
    simp only [cntTrue, List.set_cons_succ, List.count_cons] at this ⊢
    omega

theorem idxOf?_get (w : List Bool) (i : Nat) (h : w.idxOf? true = some i) : i < w.length ∧ w[i]? = some true := by
  obtain ⟨h1, h2⟩ := List.idxOf?_eq_some_iff.1 h
  refine ⟨h1, ?_⟩
  rw [List.getElem?_eq_getElem h1]
  simpa using h2.1

/-- the work-list loop never runs out of fuel once the fuel exceeds the measure -/
theorem arcLoop_fuel (cs : List Con) : ∀ (fuel : Nat) (ds : Doms) (work : List Bool), WFc ds cs →
    work.length = cs.length → sumCard ds * (cs.length + 1) + cntTrue work < fuel →
    arcLoop cs fuel ds work ≠ .outOfFuel
  | 0, _, _, _, _, h => by omega
  | fuel+1, ds, work, hwf, hlen, hf => by
    unfold arcLoop
    cases hi : work.idxOf? true with
    | none => simp
    | some ci =>
      simp only
      obtain ⟨hci, hget⟩ := idxOf?_get work ci hi
      cases hc : cs[ci]? with
      | none => simp
      | some c =>
        simp only
        have hmem : c ∈ cs := List.mem_of_getElem? hc
        obtain ⟨h1, h2⟩ := hwf c hmem
        cases hs : stepCon ds c with
        | unsat => simp
        | ub => simp
        | ok ds' ch1 ch2 =>
          simp only
          obtain ⟨hl, hcard⟩ := stepCon_card ds ds' c ch1 ch2 h1 h2 hs
          have hwf' : WFc ds' cs := fun c' hc' => by have := hwf c' hc'; omega
          have hor : ∀ (w : List Bool) v, w.length = cs.length → (orMask w (varTo cs v)).length = cs.length := by
            intro w v hw; simp [orMask, varTo, hw]
          have hw2len : (if ch2 then orMask (if ch1 then orMask work (varTo cs c.v1) else work) (varTo cs c.v2)
                        else (if ch1 then orMask work (varTo cs c.v1) else work)).length = cs.length := by
            cases ch1 <;> cases ch2 <;> simp [hor, hlen]
          generalize hW : (if ch2 then orMask (if ch1 then orMask work (varTo cs c.v1) else work) (varTo cs c.v2)
                        else (if ch1 then orMask work (varTo cs c.v1) else work)) = W at hw2len ⊢
          apply arcLoop_fuel cs fuel ds' _ hwf' (by simpa using hw2len)
          have hS : sumCard ds' * (cs.length + 1) ≤ sumCard ds * (cs.length + 1) :=
            Nat.mul_le_mul_right _ (by omega)
          by_cases hch : ch1 = false ∧ ch2 = false
          · -- nothing changed: the processed constraint leaves the work list
            obtain ⟨e1, e2⟩ := hch
            subst e1; subst e2
            simp only [Bool.false_eq_true, if_false] at hW
            subst hW
            have := cntTrue_set_false work ci hci hget
            omega
          · -- some domain shrank: at most m pending constraints afterwards
            have hb : sumCard ds' + 1 ≤ sumCard ds := by
              cases ch1 <;> cases ch2 <;> simp [b2n] at hcard hch ⊢ <;> omega
            have hm := Nat.mul_le_mul_right (cs.length + 1) hb
            rw [Nat.add_mul, Nat.one_mul] at hm
            have hcnt := cntTrue_le (W.set ci false)
            simp only [List.length_set] at hcnt
            omega

theorem cntTrue_replicate (n : Nat) : cntTrue (List.replicate n true) = n := by simp [cntTrue]

/-- `arcFuel` suffices for the initial work list (all constraints pending) -/
theorem arcLoop_arcFuel (ds : Doms) (cs : List Con) (hwf : WFc ds cs) :
    arcLoop cs (arcFuel ds.length cs.length) ds (List.replicate cs.length true) ≠ .outOfFuel := by
  apply arcLoop_fuel cs _ ds _ hwf (by simp)
  rw [cntTrue_replicate]
  have := Nat.mul_le_mul_right (cs.length + 1) (sumCard_le ds)
  unfold arcFuel
  rw [Nat.add_mul, Nat.one_mul]
  omega

end Csp
