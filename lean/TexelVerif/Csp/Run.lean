import TexelVerif.Csp.Fuel
import TexelVerif.Csp.Build
/-!
`CspSolver::solve` as a total function of the call sequence: build, arc consistency with the fuel `arcFuel` that
provably suffices, search with the node counter of `solveRecursive` (`getNumNodes()`), result.
-/
namespace Csp

/-- value loop of one `solveRecursive` call; `rec` = the recursive call for the next variable; `n` = nodes so far -/
def goVals (rec : Asg → Option Asg × Nat) (cs : List Con) (σ : Asg) (k : Nat) : List Int → Nat → Option Asg × Nat
  | [], n => (none, n)
  | v :: vs, n =>
    if checkAt cs (σ ++ [v]) k then
      match rec (σ ++ [v]) with
      | (some τ, c) => (some τ, n + c)
      | (none, c) => goVals rec cs σ k vs (n + c)
    else goVals rec cs σ k vs n

/-- `search` with the C++ node counter (`nodes++` on entry of every `solveRecursive` call) -/
def searchN (ds : Doms) (cs : List Con) (ord : Nat → Dom → List Int) : Nat → Asg → Option Asg × Nat
  | 0, σ => (some σ, 0)
  | m+1, σ =>
    let k := σ.length
    goVals (fun σ' => searchN ds cs ord m σ') cs σ k (ord k (domOf ds k)) 1

def prefOf (ps : List Pref) (k : Nat) : Pref := ps.getD k .small
def ordOf (ps : List Pref) : Nat → Dom → List Int := fun k d => ordLoop (prefOf ps k) 64 d

/-- `ConstrSet::numBits` -/
def maxCons : Nat := 192

inductive Out where
  | err (e : BuildErr) (i : Nat)          -- call `i` violates the contract of the building API
  | tooMany                               -- assert(constr.size() <= 192) in solve()
  | stuck                                 -- model out of fuel / outside the bit-set contract: proved unreachable
  | unsatArc                              -- makeArcConsistent() returned false
  | unsatSearch (nodes : Nat) (doms : Doms)
  | sat (τ : Asg) (nodes : Nat) (doms : Doms)

def Sys.solve (s : Sys) : Out :=
  if s.doms.length = 0 then .sat [] 0 []
  else if maxCons < s.cons.length then .tooMany
  else match arcLoop s.cons (arcFuel s.doms.length s.cons.length) s.doms (List.replicate s.cons.length true) with
    | .unsat => .unsatArc
    | .ub => .stuck
    | .outOfFuel => .stuck
    | .ok ds' => match searchN ds' s.cons (ordOf s.prefs) ds'.length [] with
      | (some τ, n) => .sat τ n ds'
      | (none, n) => .unsatSearch n ds'

/-- the whole life of one `CspSolver` object: the building calls, then `solve` -/
def solveCmds (cmds : List Cmd) : Out :=
  match build cmds with
  | .error (e, i) => .err e i
  | .ok s => s.solve

def Out.isSat : Out → Bool
  | .sat _ _ _ => true
  | _ => false

def Out.vals : Out → Option Asg
  | .sat τ _ _ => some τ
  | _ => none

def Out.isUnsat : Out → Bool
  | .unsatArc => true
  | .unsatSearch _ _ => true
  | _ => false

end Csp
