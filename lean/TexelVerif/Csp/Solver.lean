import TexelVerif.Csp.Basic
/-! Prototype: model of CspSolver::solve and its exactness. -/
namespace Csp

/-- lowest / highest set bit index -/
def lowest (d : Dom) : Option Nat := (List.range 64).find? (fun i => d.getLsbD i)
def highest (d : Dom) : Option Nat := (List.range 64).reverse.find? (fun i => d.getLsbD i)

/-- C++ getMinBit / getMaxBit (return -1 for the empty set) -/
def minBit (d : Dom) : Int := match lowest d with | some i => (i : Int) + offs | none => -1
def maxBit (d : Dom) : Int := match highest d with | some i => (i : Int) + offs | none => -1

def Dom.isEmpty (d : Dom) : Bool := d == 0

theorem has_of_getLsbD (d : Dom) (i : Nat) (hi : i < 64) (h : d.getLsbD i = true) : d.has ((i:Int) + offs) = true := by
  rw [Dom.has_iff]; refine ⟨by unfold offs; omega, by unfold offs; omega, ?_⟩
  have : ((i:Int) + offs - offs).toNat = i := by omega
  rw [this]; exact h

theorem find?_pairwise {α} (R : α → α → Prop) (p : α → Bool) :
    ∀ (l : List α), l.Pairwise R → ∀ a, l.find? p = some a → ∀ b ∈ l, p b = true → b = a ∨ R a b
  | [], _, a, h, _, _, _ => by simp at h
  | x :: l, hp, a, h, b, hb, hpb => by
    rw [List.pairwise_cons] at hp
    rw [List.find?_cons] at h
    cases hx : p x with
    | true =>
      rw [hx] at h; injection h with h; subst h
      rcases List.mem_cons.1 hb with rfl | hb'
      · left; rfl
      · right; exact hp.1 b hb'
    | false =>
      rw [hx] at h
      rcases List.mem_cons.1 hb with rfl | hb'
      · rw [hx] at hpb; cases hpb
      · exact find?_pairwise R p l hp.2 a h b hb' hpb

theorem lowest_spec (d : Dom) (i : Nat) (h : lowest d = some i) :
    d.getLsbD i = true ∧ i < 64 ∧ ∀ j, j < 64 → d.getLsbD j = true → i ≤ j := by
  unfold lowest at h
  have h1 := List.find?_some h
  have h2 := List.mem_of_find?_eq_some h
  simp at h2
  refine ⟨by simpa using h1, h2, fun j hj64 hj => ?_⟩
  have := find?_pairwise (· < ·) _ _ List.pairwise_lt_range i h j (by simp [hj64]) hj
  omega

theorem highest_spec (d : Dom) (i : Nat) (h : highest d = some i) :
    d.getLsbD i = true ∧ i < 64 ∧ ∀ j, j < 64 → d.getLsbD j = true → j ≤ i := by
  unfold highest at h
  have h1 := List.find?_some h
  have h2 := List.mem_of_find?_eq_some h
  simp at h2
  refine ⟨by simpa using h1, h2, fun j hj64 hj => ?_⟩
  have hp : (List.range 64).reverse.Pairwise (· > ·) := by
    rw [List.pairwise_reverse]; exact List.pairwise_lt_range
  have := find?_pairwise (· > ·) _ _ hp i h j (by simp [hj64]) hj
  omega

theorem lowest_none (d : Dom) (h : lowest d = none) : ∀ j, j < 64 → d.getLsbD j = false := by
  unfold lowest at h
  rw [List.find?_eq_none] at h
  intro j hj
  have := h j (by simp [hj])
  simpa using this


theorem highest_none (d : Dom) (h : highest d = none) : ∀ j, j < 64 → d.getLsbD j = false := by
  unfold highest at h
  rw [List.find?_eq_none] at h
  intro j hj
  have := h j (by simp [hj])
  simpa using this

/-- value-level specs -/
theorem minBit_le (d : Dom) (v : Int) (hv : d.has v = true) : d.has (minBit d) = true ∧ minBit d ≤ v := by
  obtain ⟨h1, h2, h3⟩ := (Dom.has_iff d v).1 hv
  cases hl : lowest d with
  | none =>
    have := lowest_none d hl (v - offs).toNat (by unfold offs at *; omega)
    rw [this] at h3; cases h3
  | some i =>
    obtain ⟨g1, g2, g3⟩ := lowest_spec d i hl
    simp only [minBit, hl]
    refine ⟨has_of_getLsbD d i g2 g1, ?_⟩
    have := g3 (v - offs).toNat (by unfold offs at *; omega) h3
    unfold offs at *; omega

theorem le_maxBit (d : Dom) (v : Int) (hv : d.has v = true) : d.has (maxBit d) = true ∧ v ≤ maxBit d := by
  obtain ⟨h1, h2, h3⟩ := (Dom.has_iff d v).1 hv
  cases hl : highest d with
  | none =>
    have := highest_none d hl (v - offs).toNat (by unfold offs at *; omega)
    rw [this] at h3; cases h3
  | some i =>
    obtain ⟨g1, g2, g3⟩ := highest_spec d i hl
    simp only [maxBit, hl]
    refine ⟨has_of_getLsbD d i g2 g1, ?_⟩
    have := g3 (v - offs).toNat (by unfold offs at *; omega) h3
    unfold offs at *; omega

end Csp
