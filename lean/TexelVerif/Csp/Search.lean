import TexelVerif.Csp.Loop
/-! Backtracking search of CspSolver::solveRecursive, abstracted over the order in which values are tried. -/
namespace Csp

/-- constraints that become checkable when variable k gets its value (both variables ≤ k, one of them = k) -/
def checkAt (cs : List Con) (σ : Asg) (k : Nat) : Bool :=
  cs.all (fun c => !((c.v1 == k || c.v2 == k) && decide (c.v1 ≤ k) && decide (c.v2 ≤ k)) ||
                   decide (valOf σ c.v1 ≤ valOf σ c.v2 + c.c))

/-- `ord k d` = the sequence of values tried for variable k with domain d (C++: getBitVal / clearBit loop) -/
def search (ds : Doms) (cs : List Con) (ord : Nat → Dom → List Int) : Nat → Asg → Option Asg
  | 0, σ => some σ
  | m+1, σ =>
    let k := σ.length
    (ord k (domOf ds k)).findSome? (fun v =>
      if checkAt cs (σ ++ [v]) k then search ds cs ord m (σ ++ [v]) else none)

/-- partial solution on the first k variables -/
def PSol (ds : Doms) (cs : List Con) (k : Nat) (σ : Asg) : Prop :=
  σ.length = k ∧ (∀ v, v < k → (domOf ds v).has (valOf σ v) = true) ∧
  (∀ c ∈ cs, c.v1 < k → c.v2 < k → valOf σ c.v1 ≤ valOf σ c.v2 + c.c)

def OrdOk (ord : Nat → Dom → List Int) : Prop := ∀ k d x, x ∈ ord k d ↔ d.has x = true

theorem valOf_append_lt (σ : Asg) (x : Int) (v : Nat) (h : v < σ.length) : valOf (σ ++ [x]) v = valOf σ v := by
  simp [valOf, List.getD_eq_getElem?_getD, List.getElem?_append_left h]

theorem valOf_append_eq (σ : Asg) (x : Int) : valOf (σ ++ [x]) σ.length = x := by
  simp [valOf, List.getD_eq_getElem?_getD]

/-- extending a partial solution by one checked value -/
theorem psol_extend (ds : Doms) (cs : List Con) (σ : Asg) (x : Int) (k : Nat)
    (hp : PSol ds cs k σ) (hx : (domOf ds k).has x = true) (hc : checkAt cs (σ ++ [x]) k = true) :
    PSol ds cs (k+1) (σ ++ [x]) := by
  obtain ⟨hl, hd, hcs⟩ := hp
  refine ⟨by simp [hl], fun v hv => ?_, fun c hcm h1 h2 => ?_⟩
  · by_cases hvk : v < k
    · rw [valOf_append_lt _ _ _ (by omega)]; exact hd v hvk
    · have : v = k := by omega
      subst this; rw [← hl, valOf_append_eq]; rw [hl]; exact hx
  · by_cases hboth : c.v1 < k ∧ c.v2 < k
    · rw [valOf_append_lt _ _ _ (by omega), valOf_append_lt _ _ _ (by omega)]
      exact hcs c hcm hboth.1 hboth.2
    · -- one of them is k: covered by checkAt
      unfold checkAt at hc
      rw [List.all_eq_true] at hc
      have := hc c hcm
      have hk : (c.v1 == k || c.v2 == k) = true := by
        simp only [Bool.or_eq_true, beq_iff_eq]; omega
      have h1' : decide (c.v1 ≤ k) = true := by simp; omega
      have h2' : decide (c.v2 ≤ k) = true := by simp; omega
      simpa [hk, h1', h2'] using this

end Csp

namespace Csp

theorem search_sound (ds : Doms) (cs : List Con) (ord : Nat → Dom → List Int) (hord : OrdOk ord) :
    ∀ (m : Nat) (σ : Asg) (k : Nat), PSol ds cs k σ → ∀ τ, search ds cs ord m σ = some τ → PSol ds cs (k+m) τ
  | 0, σ, k, hp, τ, h => by simp [search] at h; subst h; simpa using hp
  | m+1, σ, k, hp, τ, h => by
    unfold search at h
    simp only at h
    obtain ⟨x, hx, hxs⟩ := List.exists_of_findSome?_eq_some h
    have hlen : σ.length = k := hp.1
    by_cases hc : checkAt cs (σ ++ [x]) σ.length = true
    · rw [if_pos hc] at hxs
      have hx' : (domOf ds k).has x = true := by rw [← hlen]; exact (hord _ _ _).1 hx
      have := psol_extend ds cs σ x k hp hx' (by rw [← hlen]; exact hc)
      have r := search_sound ds cs ord hord m (σ ++ [x]) (k+1) this τ hxs
      have e : k + 1 + m = k + (m + 1) := by omega
      rw [e] at r; exact r
    · rw [if_neg hc] at hxs; cases hxs

/-- τ extends σ -/
def Ext (σ τ : Asg) : Prop := ∃ r, τ = σ ++ r

/-- a full solution's prefix passes the check at every level -/
theorem checkAt_of_psol (ds : Doms) (cs : List Con) (τ : Asg) (N k : Nat) (hk : k < N)
    (hτ : PSol ds cs N τ) : checkAt cs (τ.take (k+1)) k = true := by
  unfold checkAt
  rw [List.all_eq_true]
  intro c hc
  by_cases hcond : ((c.v1 == k || c.v2 == k) && decide (c.v1 ≤ k) && decide (c.v2 ≤ k)) = true
  · simp only [hcond, Bool.not_true, Bool.false_or, decide_eq_true_eq]
    simp only [Bool.and_eq_true, decide_eq_true_eq] at hcond
    obtain ⟨⟨_, h1⟩, h2⟩ := hcond
    have hv : ∀ v, v ≤ k → valOf (τ.take (k+1)) v = valOf τ v := by
      intro v hv
      simp [valOf, List.getD_eq_getElem?_getD, List.getElem?_take, Nat.lt_succ_of_le hv]
    rw [hv _ h1, hv _ h2]
    exact hτ.2.2 c hc (by omega) (by omega)
  · simp only [Bool.not_eq_true] at hcond
    simp [hcond]

theorem search_complete (ds : Doms) (cs : List Con) (ord : Nat → Dom → List Int) (hord : OrdOk ord)
    (N : Nat) (τ : Asg) (hτ : PSol ds cs N τ) :
    ∀ (m k : Nat), k + m = N → (search ds cs ord m (τ.take k)).isSome = true
  | 0, k, _ => by simp [search]
  | m+1, k, hkm => by
    unfold search
    simp only
    have hlen : (τ.take k).length = k := by simp [hτ.1]; omega
    rw [List.findSome?_isSome_iff]
    have hkN : k < N := by omega
    refine ⟨valOf τ k, ?_, ?_⟩
    · rw [hlen]; exact (hord _ _ _).2 (hτ.2.1 k hkN)
    · have htake : τ.take k ++ [valOf τ k] = τ.take (k+1) := by
        rw [List.take_succ]
        congr 1
        simp [valOf, List.getD_eq_getElem?_getD]
        have : k < τ.length := by rw [hτ.1]; exact hkN
        simp [List.getElem?_eq_getElem this]
      rw [htake, hlen, checkAt_of_psol ds cs τ N k hkN hτ, if_pos rfl]
      exact search_complete ds cs ord hord N τ hτ m (k+1) (by omega)

end Csp
