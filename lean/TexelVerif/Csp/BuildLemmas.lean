import TexelVerif.Csp.Build
/-! Specifications of the building API: each call restricts the solution set exactly as documented. -/
namespace Csp

theorem ptrn_getAll : ∀ i : Fin 64, (0x5555555555555555#64).getLsbD i.val = decide (i.val % 2 = 0) := by decide
theorem ptrn1_getAll : ∀ i : Fin 64, (0x5555555555555555#64 <<< 1).getLsbD i.val = decide (i.val % 2 = 1) := by decide

theorem removeOdd_has (d : Dom) (x : Int) : (removeOdd d).has x = (d.has x && decide (x % 2 = 0)) := by
  simp only [Dom.has, removeOdd, BitVec.getLsbD_and]
  by_cases h1 : offs ≤ x <;> by_cases h2 : x < offs + 64 <;> simp [h1, h2]
  have := ptrn_getAll ⟨(x - offs).toNat, by unfold offs at *; omega⟩
  simp only at this
  rw [this]
  have e : ((x - offs).toNat % 2 = 0) ↔ x % 2 = 0 := by unfold offs at *; omega
  by_cases hx : x % 2 = 0
  · simp [hx, e.2 hx]
  · have : ¬ (x - offs).toNat % 2 = 0 := fun h => hx (e.1 h)
    simp [hx, this]

theorem removeEven_has (d : Dom) (x : Int) : (removeEven d).has x = (d.has x && decide (x % 2 = 1)) := by
  simp only [Dom.has, removeEven, BitVec.getLsbD_and]
  by_cases h1 : offs ≤ x <;> by_cases h2 : x < offs + 64 <;> simp only [h1, h2, decide_true, decide_false, Bool.true_and, Bool.false_and, Bool.and_false]
  have := ptrn1_getAll ⟨(x - offs).toNat, by unfold offs at *; omega⟩
  simp only at this
  rw [this]
  have e : ((x - offs).toNat % 2 = 1) ↔ x % 2 = 1 := by unfold offs at *; omega
  by_cases hx : x % 2 = 1
  · simp [hx, e.2 hx]
  · have : ¬ (x - offs).toNat % 2 = 1 := fun h => hx (e.1 h)
    simp [hx, this]

theorem allOnes_has (x : Int) : Dom.has (BitVec.allOnes 64) x = (decide (offs ≤ x) && decide (x < offs + 64)) := by
  simp only [Dom.has]
  by_cases h1 : offs ≤ x <;> by_cases h2 : x < offs + 64 <;> simp [h1, h2]
  exact ones_getAll ⟨(x - offs).toNat, by unfold offs at *; omega⟩

/-- `setRange` inside the window never fails and yields exactly the interval -/
theorem setRange_spec (lo hi : Int) (h1 : offs ≤ lo) (h2 : lo < offs + 64) (h3 : offs ≤ hi) (h4 : hi < offs + 64) :
    ∃ d, setRange lo hi = some d ∧ ∀ x, d.has x = (decide (lo ≤ x) && decide (x ≤ hi)) := by
  unfold setRange
  have a : ∃ d1, removeSmaller (BitVec.allOnes 64) lo = some d1 := by
    unfold removeSmaller; simp only
    split
    · exact ⟨_, rfl⟩
    · split
      · exact ⟨_, rfl⟩
      · omega
  obtain ⟨d1, hd1⟩ := a
  have b : ∃ d2, removeLarger d1 hi = some d2 := by
    unfold removeLarger; simp only
    split
    · exact ⟨_, rfl⟩
    · split
      · exact ⟨_, rfl⟩
      · omega
  obtain ⟨d2, hd2⟩ := b
  refine ⟨d2, by rw [hd1]; exact hd2, fun x => ?_⟩
  rw [removeLarger_has _ _ _ x hd2, removeSmaller_has _ _ _ x hd1, allOnes_has]
  by_cases g1 : lo ≤ x <;> by_cases g2 : x ≤ hi <;> simp [g1, g2]
  constructor <;> omega

/-- solution predicate without the length clause -/
def Sol' (ds : Doms) (cs : List Con) (σ : Asg) : Prop :=
  (∀ v, v < ds.length → (domOf ds v).has (valOf σ v) = true) ∧ (∀ c ∈ cs, valOf σ c.v1 ≤ valOf σ c.v2 + c.c)

theorem sol_iff_sol' (ds : Doms) (cs : List Con) (σ : Asg) : Sol ds cs σ ↔ σ.length = ds.length ∧ Sol' ds cs σ := by
  unfold Sol Sol'; constructor
  · rintro ⟨a, b, c⟩; exact ⟨a, b, c⟩
  · rintro ⟨a, b, c⟩; exact ⟨a, b, c⟩

/-- restricting the domain of variable `i` by a predicate `keep` -/
theorem sol'_set (ds : Doms) (cs : List Con) (i : Nat) (d : Dom) (hi : i < ds.length) (keep : Int → Bool)
    (hd : ∀ x, d.has x = ((domOf ds i).has x && keep x)) (σ : Asg) :
    Sol' (ds.set i d) cs σ ↔ Sol' ds cs σ ∧ keep (valOf σ i) = true := by
  unfold Sol'
  constructor
  · rintro ⟨h2, h3⟩
    have hi' := h2 i (by simpa using hi)
    rw [domOf_set _ _ _ _ hi, if_pos rfl, hd] at hi'
    simp only [Bool.and_eq_true] at hi'
    refine ⟨⟨fun v hv => ?_, h3⟩, hi'.2⟩
    by_cases hvi : v = i
    · subst hvi; exact hi'.1
    · have := h2 v (by simpa using hv)
      rw [domOf_set _ _ _ _ hi, if_neg hvi] at this; exact this
  · rintro ⟨⟨h2, h3⟩, hk⟩
    refine ⟨fun v hv => ?_, h3⟩
    rw [domOf_set _ _ _ _ hi]
    by_cases hvi : v = i
    · subst hvi; rw [if_pos rfl, hd]; simp only [Bool.and_eq_true]; exact ⟨h2 v hi, hk⟩
    · rw [if_neg hvi]; exact h2 v (by simpa using hv)

theorem domOf_append_lt (ds : Doms) (d : Dom) (v : Nat) (h : v < ds.length) : domOf (ds ++ [d]) v = domOf ds v := by
  simp [domOf, List.getD_eq_getElem?_getD, List.getElem?_append_left h]

theorem domOf_append_eq (ds : Doms) (d : Dom) : domOf (ds ++ [d]) ds.length = d := by
  simp [domOf, List.getD_eq_getElem?_getD]

theorem sol'_addVar (ds : Doms) (cs : List Con) (d : Dom) (σ : Asg) :
    Sol' (ds ++ [d]) cs σ ↔ Sol' ds cs σ ∧ d.has (valOf σ ds.length) = true := by
  unfold Sol'
  constructor
  · rintro ⟨h2, h3⟩
    refine ⟨⟨fun v hv => ?_, h3⟩, ?_⟩
    · have := h2 v (by simp; omega)
      rwa [domOf_append_lt _ _ _ hv] at this
    · have := h2 ds.length (by simp)
      rwa [domOf_append_eq] at this
  · rintro ⟨⟨h2, h3⟩, hd⟩
    refine ⟨fun v hv => ?_, h3⟩
    by_cases hvl : v < ds.length
    · rw [domOf_append_lt _ _ _ hvl]; exact h2 v hvl
    · have : v = ds.length := by simp at hv; omega
      subst this; rw [domOf_append_eq]; exact hd

theorem sol'_addCon (ds : Doms) (cs : List Con) (c : Con) (σ : Asg) :
    Sol' ds (cs ++ [c]) σ ↔ Sol' ds cs σ ∧ valOf σ c.v1 ≤ valOf σ c.v2 + c.c := by
  unfold Sol'
  constructor
  · rintro ⟨h2, h3⟩
    exact ⟨⟨h2, fun c' hc' => h3 c' (by simp [hc'])⟩, h3 c (by simp)⟩
  · rintro ⟨⟨h2, h3⟩, hc⟩
    refine ⟨h2, fun c' hc' => ?_⟩
    rcases List.mem_append.1 hc' with h | h
    · exact h3 c' h
    · simp at h; subst h; exact hc

/-- constraint offsets stay where no `int` overflows -/
def ConsOk (cs : List Con) : Prop := ∀ c ∈ cs, -cMax ≤ c.c ∧ c.c ≤ cMax

/-- well-formedness of a solver state -/
structure Sys.WF (s : Sys) : Prop where
  wfc : WFc s.doms s.cons
  prefs : s.prefs.length = s.doms.length
  cons : ConsOk s.cons

theorem Sys.wf_empty : Sys.WF {} := ⟨fun c hc => (by cases hc), rfl, fun c hc => (by cases hc)⟩

/-- one successful call: exactly the documented restriction, one more variable iff `addVariable` -/
theorem apply_spec (s s' : Sys) (c : Cmd) (h : s.apply c = .ok s') :
    (∀ σ, Sol' s'.doms s'.cons σ ↔ Sol' s.doms s.cons σ ∧ c.holds s.doms.length σ) ∧
    s'.doms.length = s.doms.length + c.nv ∧ (s.WF → s'.WF) := by
  cases c with
  | addVar p lo hi =>
    simp only [Sys.apply] at h
    split at h
    · cases h
    · rename_i hr
      have hr' : offs ≤ lo ∧ lo < offs + 64 ∧ offs ≤ hi ∧ hi < offs + 64 := by omega
      obtain ⟨d, hd, hx⟩ := setRange_spec lo hi hr'.1 hr'.2.1 hr'.2.2.1 hr'.2.2.2
      rw [hd] at h
      simp only [Except.ok.injEq] at h
      subst h
      refine ⟨fun σ => ?_, by simp [Cmd.nv], fun wf => ⟨fun c hc => ?_, by simp [wf.prefs], wf.cons⟩⟩
      · rw [sol'_addVar, hx]; simp [Cmd.holds]
      · have := wf.wfc c hc; simp; omega
  | even v =>
    simp only [Sys.apply] at h
    split at h
    · rename_i hv
      simp only [Except.ok.injEq] at h; subst h
      refine ⟨fun σ => ?_, by simp [setDom, Cmd.nv], fun wf => ⟨fun c hc => ?_, by simp [setDom, wf.prefs], wf.cons⟩⟩
      · simp only [setDom]
        rw [sol'_set _ _ v _ hv (fun x => decide (x % 2 = 0)) (fun x => removeOdd_has _ x)]
        simp [Cmd.holds]
      · have := wf.wfc c hc; simpa [setDom] using this
    · cases h
  | odd v =>
    simp only [Sys.apply] at h
    split at h
    · rename_i hv
      simp only [Except.ok.injEq] at h; subst h
      refine ⟨fun σ => ?_, by simp [setDom, Cmd.nv], fun wf => ⟨fun c hc => ?_, by simp [setDom, wf.prefs], wf.cons⟩⟩
      · simp only [setDom]
        rw [sol'_set _ _ v _ hv (fun x => decide (x % 2 = 1)) (fun x => removeEven_has _ x)]
        simp [Cmd.holds]
      · have := wf.wfc c hc; simpa [setDom] using this
    · cases h
  | minVal v m =>
    simp only [Sys.apply] at h
    split at h
    · rename_i hv
      split at h
      · rename_i d hd
        simp only [Except.ok.injEq] at h; subst h
        refine ⟨fun σ => ?_, by simp [setDom, Cmd.nv], fun wf => ⟨fun c hc => ?_, by simp [setDom, wf.prefs], wf.cons⟩⟩
        · simp only [setDom]
          rw [sol'_set _ _ v _ hv (fun x => decide (m ≤ x)) (fun x => removeSmaller_has _ _ _ x hd)]
          simp [Cmd.holds]
        · have := wf.wfc c hc; simpa [setDom] using this
      · cases h
    · cases h
  | maxVal v m =>
    simp only [Sys.apply] at h
    split at h
    · rename_i hv
      split at h
      · cases h
      · split at h
        · rename_i d hd
          simp only [Except.ok.injEq] at h; subst h
          refine ⟨fun σ => ?_, by simp [setDom, Cmd.nv], fun wf => ⟨fun c hc => ?_, by simp [setDom, wf.prefs], wf.cons⟩⟩
          · simp only [setDom]
            rw [sol'_set _ _ v _ hv (fun x => decide (x ≤ m)) (fun x => removeLarger_has _ _ _ x hd)]
            simp [Cmd.holds]
          · have := wf.wfc c hc; simpa [setDom] using this
        · cases h
    · cases h
  | le v1 v2 c =>
    simp only [Sys.apply] at h
    split at h
    · rename_i hv
      split at h
      · cases h
      · rename_i hc
        simp only [Except.ok.injEq] at h; subst h
        refine ⟨fun σ => ?_, by simp [Cmd.nv], fun wf => ⟨fun c' hc' => ?_, wf.prefs, fun c' hc' => ?_⟩⟩
        · simp only; rw [sol'_addCon]; simp [Cmd.holds]
        · rcases List.mem_append.1 hc' with g | g
          · exact wf.wfc c' g
          · simp at g; subst g; exact hv
        · rcases List.mem_append.1 hc' with g | g
          · exact wf.cons c' g
          · simp at g; subst g; simp only; omega
    · cases h
  | ge v1 v2 c =>
    simp only [Sys.apply] at h
    split at h
    · rename_i hv
      split at h
      · cases h
      · rename_i hc
        simp only [Except.ok.injEq] at h; subst h
        refine ⟨fun σ => ?_, by simp [Cmd.nv], fun wf => ⟨fun c' hc' => ?_, wf.prefs, fun c' hc' => ?_⟩⟩
        · simp only; rw [sol'_addCon]; simp only [Cmd.holds]
          constructor
          · rintro ⟨a, b⟩; exact ⟨a, by omega⟩
          · rintro ⟨a, b⟩; exact ⟨a, by omega⟩
        · rcases List.mem_append.1 hc' with g | g
          · exact wf.wfc c' g
          · simp at g; subst g; exact ⟨hv.2, hv.1⟩
        · rcases List.mem_append.1 hc' with g | g
          · exact wf.cons c' g
          · simp at g; subst g; simp only; omega
    · cases h
  | eq v1 v2 c =>
    simp only [Sys.apply] at h
    split at h
    · rename_i hv
      split at h
      · cases h
      · rename_i hc
        simp only [Except.ok.injEq] at h; subst h
        refine ⟨fun σ => ?_, by simp [Cmd.nv], fun wf => ⟨fun c' hc' => ?_, wf.prefs, fun c' hc' => ?_⟩⟩
        · simp only
          have : s.cons ++ [⟨v1, v2, c⟩, ⟨v2, v1, -c⟩] = (s.cons ++ [⟨v1, v2, c⟩]) ++ [⟨v2, v1, -c⟩] := by simp
          rw [this, sol'_addCon, sol'_addCon]; simp only [Cmd.holds]
          constructor
          · rintro ⟨⟨a, b⟩, b'⟩; exact ⟨a, by omega⟩
          · rintro ⟨a, b⟩; exact ⟨⟨a, by omega⟩, by omega⟩
        · simp only [List.mem_append, List.mem_cons, List.not_mem_nil, or_false] at hc'
          rcases hc' with g | g | g
          · exact wf.wfc c' g
          · subst g; exact hv
          · subst g; exact ⟨hv.2, hv.1⟩
        · simp only [List.mem_append, List.mem_cons, List.not_mem_nil, or_false] at hc'
          rcases hc' with g | g | g
          · exact wf.cons c' g
          · subst g; simp only; omega
          · subst g; simp only; omega
    · cases h

theorem buildFrom_spec : ∀ (cmds : List Cmd) (s s' : Sys) (i : Nat), buildFrom s i cmds = .ok s' →
    (∀ σ, Sol' s'.doms s'.cons σ ↔ Sol' s.doms s.cons σ ∧ SatFrom s.doms.length cmds σ) ∧
    s'.doms.length = s.doms.length + nVarsOf cmds ∧ (s.WF → s'.WF)
  | [], s, s', i, h => by
    simp only [buildFrom, Except.ok.injEq] at h; subst h
    simp [SatFrom, nVarsOf]
  | c :: r, s, s', i, h => by
    simp only [buildFrom] at h
    cases ha : s.apply c with
    | error e => rw [ha] at h; cases h
    | ok s1 =>
      rw [ha] at h
      simp only at h
      obtain ⟨a1, a2, a3⟩ := apply_spec s s1 c ha
      obtain ⟨b1, b2, b3⟩ := buildFrom_spec r s1 s' (i+1) h
      refine ⟨fun σ => ?_, by simp only [nVarsOf]; omega, fun wf => b3 (a3 wf)⟩
      rw [b1, a1, a2]; simp only [SatFrom, and_assoc]

/-- A successfully built solver state describes exactly the assignments the calls describe. -/
theorem build_spec (cmds : List Cmd) (s : Sys) (h : build cmds = .ok s) :
    (∀ σ, Sol s.doms s.cons σ ↔ Satisfies cmds σ) ∧ s.WF := by
  obtain ⟨a, b, c⟩ := buildFrom_spec cmds {} s 0 h
  refine ⟨fun σ => ?_, c Sys.wf_empty⟩
  rw [sol_iff_sol', a, b]
  simp only [Satisfies, List.length_nil, Nat.zero_add]
  constructor
  · rintro ⟨h1, _, h3⟩; exact ⟨h1, h3⟩
  · rintro ⟨h1, h3⟩; exact ⟨h1, ⟨fun v hv => by simp at hv, fun c hc => by cases hc⟩, h3⟩

end Csp
