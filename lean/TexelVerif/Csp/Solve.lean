import TexelVerif.Csp.Search
namespace Csp

theorem psol_iff_sol (ds : Doms) (cs : List Con) (hwf : WFc ds cs) (τ : Asg) :
    PSol ds cs ds.length τ ↔ Sol ds cs τ := by
  constructor
  · rintro ⟨h1, h2, h3⟩
    exact ⟨h1, h2, fun c hc => h3 c hc (hwf c hc).1 (hwf c hc).2⟩
  · rintro ⟨h1, h2, h3⟩
    exact ⟨h1, h2, fun c hc _ _ => h3 c hc⟩

inductive SolveRes where
  | sat (τ : Asg) | unsat | stuck      -- stuck = outside the model's contract or fuel exhausted

/-- CspSolver::solve -/
def solve (ds : Doms) (cs : List Con) (ord : Nat → Dom → List Int) (fuel : Nat) : SolveRes :=
  if ds.length = 0 then .sat []
  else match arcLoop cs fuel ds (List.replicate cs.length true) with
    | .unsat => .unsat
    | .ub => .stuck
    | .outOfFuel => .stuck
    | .ok ds' => match search ds' cs ord ds'.length [] with
      | some τ => .sat τ
      | none => .unsat

/-- exactness: `sat τ` gives a solution, `unsat` means there is none -/
theorem solve_exact (ds : Doms) (cs : List Con) (ord : Nat → Dom → List Int) (hord : OrdOk ord)
    (fuel : Nat) (hwf : WFc ds cs) :
    match solve ds cs ord fuel with
    | .sat τ => Sol ds cs τ
    | .unsat => ∀ τ, ¬ Sol ds cs τ
    | .stuck => True := by
  unfold solve
  by_cases h0 : ds.length = 0
  · rw [if_pos h0]
    have : cs = [] := by
      cases cs with
      | nil => rfl
      | cons c _ => have := (hwf c (List.mem_cons_self ..)).1; omega
    subst this
    exact ⟨by simp [h0], fun v hv => by omega, fun c hc => by cases hc⟩
  · rw [if_neg h0]
    have ha := arcLoop_sound cs fuel ds (List.replicate cs.length true) hwf (by simp)
    cases hr : arcLoop cs fuel ds (List.replicate cs.length true) with
    | unsat => rw [hr] at ha; exact ha
    | ub => trivial
    | outOfFuel => trivial
    | ok ds' =>
      rw [hr] at ha
      simp only at ha ⊢
      obtain ⟨hl, hs⟩ := ha
      have hwf' : WFc ds' cs := fun c hc => by have := hwf c hc; omega
      cases hsr : search ds' cs ord ds'.length [] with
      | some τ =>
        simp only
        have := search_sound ds' cs ord hord ds'.length [] 0 ⟨rfl, fun v hv => by omega, fun c _ h1 _ => by omega⟩ τ hsr
        rw [Nat.zero_add] at this
        exact (hs τ).1 ((psol_iff_sol ds' cs hwf' τ).1 this)
      | none =>
        simp only
        intro τ hτ
        have hτ' := (psol_iff_sol ds' cs hwf' τ).2 ((hs τ).2 hτ)
        have := search_complete ds' cs ord hord ds'.length τ hτ' ds'.length 0 (by omega)
        simp [hsr] at this

end Csp
