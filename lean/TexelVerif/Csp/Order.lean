import TexelVerif.Csp.Solve
namespace Csp

inductive Pref where | small | large | midSmall | midLarge

/-- CspSolver::getBitVal -/
def getBitVal (d : Dom) : Pref → Int
  | .small => minBit d
  | .large => maxBit d
  | .midSmall => if d.has 3 then 3 else if d.has 2 then 2 else if d.has 1 then 1 else minBit d
  | .midLarge => if d.has 4 then 4 else if d.has 5 then 5 else if d.has 6 then 6 else maxBit d

/-- BitSet::clearBit -/
def clearBit (d : Dom) (v : Int) : Dom := d &&& ~~~ (1#64 <<< (v - offs).toNat)

/-- the `while (!d.empty())` loop of solveRecursive, as the list of values tried -/
def ordLoop (pref : Pref) : Nat → Dom → List Int
  | 0, _ => []
  | f+1, d => if d.isEmpty then [] else
      let v := getBitVal d pref
      v :: ordLoop pref f (clearBit d v)

def card (d : Dom) : Nat := (List.range 64).countP (fun i => d.getLsbD i)

theorem exists_bit_of_ne_zero (d : Dom) (h : d ≠ 0) : ∃ i, i < 64 ∧ d.getLsbD i = true := by
  by_cases hex : ∃ i, i < 64 ∧ d.getLsbD i = true
  · exact hex
  · exfalso; apply h
    apply BitVec.eq_of_getLsbD_eq
    intro i hi
    have : ¬ d.getLsbD i = true := fun hh => hex ⟨i, hi, hh⟩
    simp at this; simp [this]

theorem exists_has_of_ne_zero (d : Dom) (h : d ≠ 0) : ∃ x, d.has x = true := by
  obtain ⟨i, hi, hb⟩ := exists_bit_of_ne_zero d h
  exact ⟨(i:Int) + offs, has_of_getLsbD d i hi hb⟩

theorem getBitVal_has (d : Dom) (pref : Pref) (h : d ≠ 0) : d.has (getBitVal d pref) = true := by
  obtain ⟨x, hx⟩ := exists_has_of_ne_zero d h
  cases pref with
  | small => exact (minBit_le d x hx).1
  | large => exact (le_maxBit d x hx).1
  | midSmall =>
    simp only [getBitVal]
    split
    · assumption
    · split
      · assumption
      · split
        · assumption
        · exact (minBit_le d x hx).1
  | midLarge =>
    simp only [getBitVal]
    split
    · assumption
    · split
      · assumption
      · split
        · assumption
        · exact (le_maxBit d x hx).1

theorem one_shl_get (k j : Nat) (hj : j < 64) (hk : k < 64) : (1#64 <<< k).getLsbD j = decide (j = k) := by
  simp [BitVec.getLsbD_shiftLeft, hj]
  by_cases h : j = k
  · subst h; simp
  · by_cases h2 : j < k
    · simp [h, h2]
    · simp [h, h2]
      have : j - k ≠ 0 := by omega
      intro h0; exact absurd h0 this

theorem clearBit_get (d : Dom) (v : Int) (j : Nat) (hj : j < 64) (hv : offs ≤ v ∧ v < offs + 64) :
    (clearBit d v).getLsbD j = (d.getLsbD j && !decide (j = (v - offs).toNat)) := by
  simp only [clearBit, BitVec.getLsbD_and, BitVec.getLsbD_not, hj, decide_true, Bool.true_and]
  rw [one_shl_get _ _ hj (by unfold offs at *; omega)]

theorem clearBit_has (d : Dom) (v x : Int) (hv : offs ≤ v ∧ v < offs + 64) :
    (clearBit d v).has x = (d.has x && !decide (x = v)) := by
  simp only [Dom.has]
  by_cases h1 : offs ≤ x <;> by_cases h2 : x < offs + 64 <;> simp [h1, h2]
  rw [clearBit_get d v _ (by unfold offs at *; omega) hv]
  have : ((x - offs).toNat = (v - offs).toNat) ↔ x = v := by unfold offs at *; omega
  by_cases hxv : x = v
  · simp [hxv]
  · simp [hxv, this]

end Csp

namespace Csp

theorem countP_upd (p q : Nat → Bool) (l : List Nat) (i0 : Nat) (hnd : l.Nodup) (hmem : i0 ∈ l)
    (hp : p i0 = true) (hq : q i0 = false) (hpq : ∀ i, i ≠ i0 → p i = q i) :
    l.countP q + 1 = l.countP p := by
  induction l with
  | nil => cases hmem
  | cons x l ih =>
    rw [List.nodup_cons] at hnd
    by_cases hx : x = i0
    · subst hx
      have : l.countP q = l.countP p := by
        apply List.countP_congr
        intro i hi
        have : i ≠ x := fun e => hnd.1 (e ▸ hi)
        rw [hpq i this]
      simp [List.countP_cons, hp, hq, this]
    · have hm : i0 ∈ l := by
        rcases List.mem_cons.1 hmem with h | h
        · exact absurd h.symm hx
        · exact h
      have := ih hnd.2 hm
      simp only [List.countP_cons, hpq x hx]
      omega

theorem card_clearBit (d : Dom) (v : Int) (hv : d.has v = true) : card (clearBit d v) + 1 = card d := by
  obtain ⟨h1, h2, h3⟩ := (Dom.has_iff d v).1 hv
  unfold card
  apply countP_upd (fun i => d.getLsbD i) (fun i => (clearBit d v).getLsbD i) (List.range 64) (v - offs).toNat
    List.nodup_range (by simp; unfold offs at *; omega) h3
  · rw [clearBit_get d v _ (by unfold offs at *; omega) ⟨h1, h2⟩]; simp
  · intro i hi
    by_cases hi64 : i < 64
    · rw [clearBit_get d v _ hi64 ⟨h1, h2⟩]; simp [hi]
    · have a : d.getLsbD i = false := BitVec.getLsbD_of_ge _ _ (by omega)
      have b : (clearBit d v).getLsbD i = false := BitVec.getLsbD_of_ge _ _ (by omega)
      rw [a, b]

theorem has_false_of_card_zero (d : Dom) (h : card d = 0) (x : Int) : d.has x = false := by
  unfold card at h
  rw [List.countP_eq_zero] at h
  by_cases hx : d.has x = true
  · obtain ⟨h1, h2, h3⟩ := (Dom.has_iff d x).1 hx
    have := h (x - offs).toNat (by simp; unfold offs at *; omega)
    simp [h3] at this
  · simpa using hx

theorem ordLoop_mem (pref : Pref) : ∀ (f : Nat) (d : Dom), card d ≤ f → ∀ x, x ∈ ordLoop pref f d ↔ d.has x = true
  | 0, d, hc, x => by
    have := has_false_of_card_zero d (by omega) x
    simp [ordLoop, this]
  | f+1, d, hc, x => by
    unfold ordLoop
    by_cases he : d.isEmpty = true
    · rw [if_pos he]
      have : d = 0 := by simpa [Dom.isEmpty] using he
      subst this
      have := empty_has x
      simp only [List.not_mem_nil, false_iff]
      intro h; rw [this] at h; cases h
    · rw [if_neg he]
      have hne : d ≠ 0 := by simpa [Dom.isEmpty] using he
      have hv := getBitVal_has d pref hne
      have hvr := (Dom.has_iff d _).1 hv
      have hcard := card_clearBit d _ hv
      have ih := ordLoop_mem pref f (clearBit d (getBitVal d pref)) (by omega) x
      simp only [List.mem_cons, ih, clearBit_has d _ x ⟨hvr.1, hvr.2.1⟩]
      by_cases hxv : x = getBitVal d pref
      · subst hxv; simp [hv]
      · simp [hxv]

theorem card_le (d : Dom) : card d ≤ 64 := by
  unfold card
  have := List.countP_le_length (p := fun i => d.getLsbD i) (l := List.range 64)
  simpa using this

/-- the order actually used by the C++ (64 iterations suffice) satisfies the abstract requirement -/
theorem ordOk (prefs : Nat → Pref) : OrdOk (fun k d => ordLoop (prefs k) 64 d) :=
  fun k d x => ordLoop_mem (prefs k) 64 d (card_le d) x

/-- Final form: exactness of the solver for every preference assignment -/
theorem solve_exact_prefs (ds : Doms) (cs : List Con) (prefs : Nat → Pref) (fuel : Nat) (hwf : WFc ds cs) :
    match solve ds cs (fun k d => ordLoop (prefs k) 64 d) fuel with
    | .sat τ => Sol ds cs τ
    | .unsat => ∀ τ, ¬ Sol ds cs τ
    | .stuck => True :=
  solve_exact ds cs _ (ordOk prefs) fuel hwf

end Csp
