import TexelVerif.Csp.Order
/-!
Model of the *building* API of `CspSolver` (cspsolver.cpp): `addVariable`, `makeEven`, `makeOdd`, `addMinVal`,
`addMaxVal`, `addIneq` (LE / GE), `addEq`, together with the bit-set primitives they use
(`BitSet<64,-16>::setRange / removeOdd / removeEven`).  Every call that would trip a C++ `assert`, index outside an
array or overflow an `int` is an explicit error of the model (the harness makes the same pre-checks, because the
real code would abort or be undefined there).
-/
namespace Csp

/-- `BitSet::removeOdd` for `offs = -16` (even offset: pattern is not shifted) -/
def removeOdd (d : Dom) : Dom := d &&& 0x5555555555555555#64
/-- `BitSet::removeEven` for `offs = -16` (pattern shifted by one) -/
def removeEven (d : Dom) : Dom := d &&& (0x5555555555555555#64 <<< 1)

/-- `BitSet::setRange(minVal, maxVal)`: all ones, then `removeSmaller`, then `removeLarger` -/
def setRange (lo hi : Int) : Option Dom :=
  match removeSmaller (BitVec.allOnes 64) lo with
  | none => none
  | some d => removeLarger d hi

/-- `BitSet::setBit` (argument inside the window) -/
def setBit (d : Dom) (v : Int) : Dom := d ||| (1#64 <<< (v - offs).toNat)

/-- `BitSet::bitCount` -/
def bitCount (d : Dom) : Nat := card d

/-- One call of the building API.  Variable numbers are the values returned by `addVariable` (0, 1, 2, …). -/
inductive Cmd where
  | addVar (p : Pref) (lo hi : Int)
  | even (v : Nat)
  | odd (v : Nat)
  | minVal (v : Nat) (m : Int)
  | maxVal (v : Nat) (m : Int)
  | le (v1 v2 : Nat) (c : Int)     -- addIneq(v1, LE, v2, c)
  | ge (v1 v2 : Nat) (c : Int)     -- addIneq(v1, GE, v2, c)
  | eq (v1 v2 : Nat) (c : Int)     -- addEq(v1, v2, c)

/-- State of a `CspSolver` before `solve`. -/
structure Sys where
  doms : Doms := []
  prefs : List Pref := []
  cons : List Con := []

inductive BuildErr where
  | range      -- addVariable: assert(minVal/maxVal inside [-16,47]) fails
  | var        -- variable number ≥ number of variables (vector index out of range / assert in addIneq)
  | window     -- addMinVal / addMaxVal argument for which removeSmaller / removeLarger index outside data[]
  | overflow   -- an `int` computation could overflow
  deriving DecidableEq, Repr

/-- largest |offset| for which `getMaxBit()+c`, `getMinBit()-c`, `values[v2]+c` and `-offs` stay inside `int` -/
def cMax : Int := 2147483600
/-- largest `maxVal` for which `maxVal - offs + 1` stays inside `int` -/
def mMax : Int := 2147483630
def intMin : Int := -2147483648
def intMax : Int := 2147483647

def setDom (s : Sys) (v : Nat) (d : Dom) : Sys := { s with doms := s.doms.set v d }

def Sys.apply (s : Sys) : Cmd → Except BuildErr Sys
  | .addVar p lo hi =>
    if lo < offs ∨ offs + 64 ≤ lo ∨ hi < offs ∨ offs + 64 ≤ hi then .error .range
    else match setRange lo hi with
      | none => .error .range
      | some d => .ok { s with doms := s.doms ++ [d], prefs := s.prefs ++ [p] }
  | .even v => if v < s.doms.length then .ok (setDom s v (removeOdd (domOf s.doms v))) else .error .var
  | .odd v => if v < s.doms.length then .ok (setDom s v (removeEven (domOf s.doms v))) else .error .var
  | .minVal v m =>
    if v < s.doms.length then
      match removeSmaller (domOf s.doms v) m with
      | some d => .ok (setDom s v d)
      | none => .error .window
    else .error .var
  | .maxVal v m =>
    if v < s.doms.length then
      if mMax < m then .error .overflow else
      match removeLarger (domOf s.doms v) m with
      | some d => .ok (setDom s v d)
      | none => .error .window
    else .error .var
  | .le v1 v2 c =>
    if v1 < s.doms.length ∧ v2 < s.doms.length then
      if c < -cMax ∨ cMax < c then .error .overflow else .ok { s with cons := s.cons ++ [⟨v1, v2, c⟩] }
    else .error .var
  | .ge v1 v2 c =>
    if v1 < s.doms.length ∧ v2 < s.doms.length then
      if c < -cMax ∨ cMax < c then .error .overflow else .ok { s with cons := s.cons ++ [⟨v2, v1, -c⟩] }
    else .error .var
  | .eq v1 v2 c =>
    if v1 < s.doms.length ∧ v2 < s.doms.length then
      if c < -cMax ∨ cMax < c then .error .overflow
      else .ok { s with cons := s.cons ++ [⟨v1, v2, c⟩, ⟨v2, v1, -c⟩] }
    else .error .var

/-- apply the calls in order; the result carries the index of the first offending call -/
def buildFrom (s : Sys) (i : Nat) : List Cmd → Except (BuildErr × Nat) Sys
  | [] => .ok s
  | c :: r => match s.apply c with
    | .error e => .error (e, i)
    | .ok s' => buildFrom s' (i+1) r

def build (cmds : List Cmd) : Except (BuildErr × Nat) Sys := buildFrom {} 0 cmds

/-! ### Meaning of a call sequence (independent of bit sets): the set of assignments it describes -/

/-- what one call says about an assignment; `n` = number of variables added before the call -/
def Cmd.holds (n : Nat) (σ : Asg) : Cmd → Prop
  | .addVar _ lo hi => lo ≤ valOf σ n ∧ valOf σ n ≤ hi
  | .even v => valOf σ v % 2 = 0
  | .odd v => valOf σ v % 2 = 1
  | .minVal v m => m ≤ valOf σ v
  | .maxVal v m => valOf σ v ≤ m
  | .le v1 v2 c => valOf σ v1 ≤ valOf σ v2 + c
  | .ge v1 v2 c => valOf σ v1 ≥ valOf σ v2 + c
  | .eq v1 v2 c => valOf σ v1 = valOf σ v2 + c

/-- number of variables a call adds -/
def Cmd.nv : Cmd → Nat
  | .addVar _ _ _ => 1
  | _ => 0

/-- `SatFrom n cmds σ`: σ satisfies what the calls `cmds` say, `n` = number of variables added before them -/
def SatFrom : Nat → List Cmd → Asg → Prop
  | _, [], _ => True
  | n, c :: r, σ => c.holds n σ ∧ SatFrom (n + c.nv) r σ

def nVarsOf : List Cmd → Nat
  | [] => 0
  | c :: r => c.nv + nVarsOf r

/-- The problem described by a call sequence: one value per added variable, every call's condition holds. -/
def Satisfies (cmds : List Cmd) (σ : Asg) : Prop := σ.length = nVarsOf cmds ∧ SatFrom 0 cmds σ

end Csp
