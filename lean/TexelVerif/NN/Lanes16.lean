import TexelVerif.NN.Refine
/-! Transfer of the refinement theorem from exact integer lanes to the arithmetic the code really uses:
    vectors of wrapping 16-bit lanes (`Vector<S16, n1>`, `_mm*_add_epi16` / `+=` on `S16`).
    The evaluator's control flow never inspects accumulator values, so every map `φ` that respects `+` and `-`
    commutes with the whole state machine (`runTr_map`); `BitVec.ofInt 16` and lane projection are such maps. -/
namespace NN

section hom
variable {V V' : Type} [Add V] [Sub V] [Add V'] [Sub V']

/-- a map between accumulator types that respects the two operations the evaluator uses -/
structure Hom (V V' : Type) [Add V] [Sub V] [Add V'] [Sub V'] where
  f : V → V'
  add : ∀ a b, f (a + b) = f a + f b
  sub : ∀ a b, f (a - b) = f a - f b

def Net.map (φ : V → V') (N : Net V) : Net V' := { idx := N.idx, W := fun i => φ (N.W i), bias := φ N.bias }
def FLS.map (φ : V → V') (s : FLS V) : FLS V' := { l1 := φ s.l1, toAdd := s.toAdd, toSub := s.toSub, ksq := s.ksq }
def Lvl.map (φ : V → V') (l : Lvl V) : Lvl V' := { w := l.w.map φ, b := l.b.map φ }
def St.map (φ : V → V') (st : St V) : St V' := { top := st.top.map φ, below := st.below.map (Lvl.map φ), aborted := st.aborted }

variable (φ : Hom V V') (N : Net V)

theorem addRows_map (x : V) (l : List Nat) : addRows (N.map φ.f) (φ.f x) l = φ.f (addRows N x l) := by
  unfold addRows
  induction l generalizing x with
  | nil => rfl
  | cons a l ih => simp only [List.foldl_cons]; rw [← ih]; simp only [Net.map, φ.add]

theorem subRows_map (x : V) (l : List Nat) : subRows (N.map φ.f) (φ.f x) l = φ.f (subRows N x l) := by
  unfold subRows
  induction l generalizing x with
  | nil => rfl
  | cons a l ih => simp only [List.foldl_cons]; rw [← ih]; simp only [Net.map, φ.sub]

theorem fresh_map (c : Bool) (k : Sq) (b : Board) : fresh (N.map φ.f) c k b = φ.f (fresh N c k b) := by
  unfold fresh
  have : activeFeatures (N.map φ.f) c k b = activeFeatures N c k b := rfl
  rw [this]
  exact addRows_map φ N N.bias _

theorem applyPending_map (s : FLS V) : applyPending (N.map φ.f) (s.map φ.f) = φ.f (applyPending N s) := by
  unfold applyPending
  simp only [FLS.map]
  rw [addRows_map, subRows_map]

theorem flush1_map (c : Bool) (s : FLS V) (k : Sq) (b : Board) :
    flush1 (N.map φ.f) c (s.map φ.f) k b = (flush1 N c s k b).map φ.f := by
  unfold flush1
  have hk : (s.map φ.f).ksq = s.ksq := rfl
  rw [hk]
  split
  · simp only [FLS.map]
    rw [← applyPending_map φ N s]; rfl
  · simp only [FLS.map, fresh_map]

theorem clear_map (s : FLS V) : (s.map φ.f).clear = (s.clear).map φ.f := rfl

theorem pushSub_map (s : FLS V) (i : Nat) : pushSub (s.map φ.f) i = (pushSub s i).map φ.f := by
  unfold pushSub
  have : (s.map φ.f).toSub = s.toSub := rfl
  rw [this]; split <;> rfl

theorem pushAdd_map (s : FLS V) (i : Nat) : pushAdd (s.map φ.f) i = (pushAdd s i).map φ.f := by
  unfold pushAdd
  have : (s.map φ.f).toAdd = s.toAdd := rfl
  rw [this]; split <;> rfl

theorem setPiece1_map (c : Bool) (s : FLS V) (sq : Sq) (o n : Pc) :
    setPiece1 (N.map φ.f) c (s.map φ.f) sq o n = (setPiece1 N c s sq o n).map φ.f := by
  unfold setPiece1
  have hk : (s.map φ.f).ksq = s.ksq := rfl
  rw [hk]
  cases s.ksq with
  | none => rfl
  | some k =>
    simp only
    have hidx : ∀ p, (N.map φ.f).idx c k p sq = N.idx c k p sq := fun _ => rfl
    rw [hidx, hidx]
    have h1 : (if isNonKing o then pushSub (s.map φ.f) (N.idx c k o sq) else s.map φ.f)
        = (if isNonKing o then pushSub s (N.idx c k o sq) else s).map φ.f := by
      split
      · exact pushSub_map φ s _
      · rfl
    rw [h1]
    generalize (if isNonKing o then pushSub s (N.idx c k o sq) else s) = s1
    have hk1 : (s1.map φ.f).ksq = s1.ksq := rfl
    rw [hk1]
    cases s1.ksq with
    | none => rfl
    | some _ =>
      simp only
      split
      · exact pushAdd_map φ s1 _
      · rfl

theorem computeL1WB_map (l : Lvl V) (b : Board) :
    computeL1WB (N.map φ.f) (l.map φ.f) b = (computeL1WB N l b).map φ.f := by
  unfold computeL1WB Lvl.map
  simp only [flush1_map]

theorem pending_map (s : FLS V) : pending (s.map φ.f) = pending s := rfl

theorem bottom_map (st : St V) : (st.map φ.f).bottom = st.bottom.map φ.f := by
  unfold St.bottom
  simp only [St.map, List.getLast?_map]
  cases st.below.getLast? <;> rfl

theorem step_map (st : St V) (b : Board) (op : Op) :
    step (N.map φ.f) (st.map φ.f) b op = (step N st b op).map φ.f := by
  unfold step
  have ha : (st.map φ.f).aborted = st.aborted := rfl
  rw [ha]
  split
  · rfl
  · cases op with
    | setPiece sq o n =>
      simp only [setPiece, St.map, Lvl.map, setPiece1_map]
    | push =>
      simp only [pushState]
      have e1 : (if pending (st.map φ.f).top.w then computeL1WB (N.map φ.f) (st.map φ.f).top b else (st.map φ.f).top)
          = (if pending st.top.w then computeL1WB N st.top b else st.top).map φ.f := by
        have : (st.map φ.f).top = st.top.map φ.f := rfl
        rw [this]
        have : pending (st.top.map φ.f).w = pending st.top.w := rfl
        rw [this]
        split
        · exact computeL1WB_map φ N _ _
        · rfl
      rw [e1]
      generalize (if pending st.top.w then computeL1WB N st.top b else st.top) = t1
      have e2 : (if pending (t1.map φ.f).b then computeL1WB (N.map φ.f) (t1.map φ.f) b else t1.map φ.f)
          = (if pending t1.b then computeL1WB N t1 b else t1).map φ.f := by
        have : pending (t1.map φ.f).b = pending t1.b := rfl
        rw [this]
        split
        · exact computeL1WB_map φ N _ _
        · rfl
      rw [e2]
      have hl : (st.map φ.f).below.length = st.below.length := by simp [St.map]
      rw [hl]
      split <;> rfl
    | pop =>
      simp only [popState]
      have hb : (st.map φ.f).below = st.below.map (Lvl.map φ.f) := rfl
      rw [hb]
      cases hbl : st.below with
      | nil =>
        simp only [List.map_nil, forceFullEval, bottom_map]
        rfl
      | cons l r => rfl
    | reset =>
      simp only [forceFullEval, bottom_map]
      rfl
    | eval =>
      simp only [evalFlush]
      have : (st.map φ.f).top = st.top.map φ.f := rfl
      rw [this, computeL1WB_map]
      rfl

theorem runTr_map (tr : Trace) (st : St V) (b : Board) :
    runTr (N.map φ.f) (st.map φ.f) b tr = ((runTr N st b tr).1.map φ.f, (runTr N st b tr).2) := by
  induction tr generalizing st b with
  | nil => rfl
  | cons x tr ih =>
    obtain ⟨op, b'⟩ := x
    simp only [runTr]
    rw [step_map, ih]

theorem evalAcc_map (st : St V) (b : Board) (c : Bool) :
    evalAcc (N.map φ.f) (st.map φ.f) b c = φ.f (evalAcc N st b c) := by
  unfold evalAcc
  have : (st.map φ.f).top = st.top.map φ.f := rfl
  rw [this, computeL1WB_map]
  unfold Lvl.get Lvl.map
  cases c <;> rfl

theorem init_map (x : V) : (St.init x).map φ.f = St.init (φ.f x) := rfl

end hom

/-! ### the concrete homomorphisms -/

theorem ofInt_sub16 (x y : Int) : BitVec.ofInt 16 (x - y) = BitVec.ofInt 16 x - BitVec.ofInt 16 y := by
  rw [Int.sub_eq_add_neg, BitVec.ofInt_add, BitVec.ofInt_neg, BitVec.sub_eq_add_neg]

/-- reduction modulo 2^16 (two's complement `S16`) -/
def wrap16 : Hom Int (BitVec 16) := { f := BitVec.ofInt 16, add := fun _ _ => BitVec.ofInt_add _ _, sub := ofInt_sub16 }

/-- an accumulator as the code has it: a vector of wrapping 16-bit lanes (any number of lanes) -/
def Lanes := Nat → BitVec 16
instance : Add Lanes := ⟨fun a b i => a i + b i⟩
instance : Sub Lanes := ⟨fun a b i => a i - b i⟩

def lane (i : Nat) : Hom Lanes (BitVec 16) := { f := fun a => a i, add := fun _ _ => rfl, sub := fun _ _ => rfl }

/-- the exact-integer network that lane `i` of a 16-bit network is the image of -/
def Net.laneInt (N : Net Lanes) (i : Nat) : Net Int :=
  { idx := N.idx, W := fun f => (N.W f i).toInt, bias := (N.bias i).toInt }

theorem laneInt_map (N : Net Lanes) (i : Nat) : (N.laneInt i).map wrap16.f = N.map (lane i).f := by
  simp only [Net.map, Net.laneInt, wrap16, lane, BitVec.ofInt_toInt]

/-- The refinement theorem for the arithmetic of the code: 16-bit wrapping lanes, arbitrary weights. -/
theorem refines_lanes (N : Net Lanes) (tr : Trace) (b0 : Board) (x : Lanes) (hwf : WF b0 [] tr)
    (hna : (runTr N (St.init x) b0 tr).1.aborted = false) (white : Bool) :
    evalAcc N (runTr N (St.init x) b0 tr).1 (runTr N (St.init x) b0 tr).2 white
      = fresh N white (kingSq white (runTr N (St.init x) b0 tr).2) (runTr N (St.init x) b0 tr).2 := by
  funext i
  -- lane projection of the 16-bit run
  have hL := runTr_map (lane i) N tr (St.init x) b0
  have hI := runTr_map wrap16 (N.laneInt i) tr (St.init ((x i).toInt)) b0
  rw [init_map] at hL hI
  have hx : wrap16.f ((x i).toInt) = (lane i).f x := by simp [wrap16, lane, BitVec.ofInt_toInt]
  rw [laneInt_map, hx, hL] at hI
  -- boards and abort flags agree
  have hb : (runTr (N.laneInt i) (St.init ((x i).toInt)) b0 tr).2 = (runTr N (St.init x) b0 tr).2 := by
    have := congrArg Prod.snd hI; simpa using this.symm
  have hs : (runTr N (St.init x) b0 tr).1.map (lane i).f
      = (runTr (N.laneInt i) (St.init ((x i).toInt)) b0 tr).1.map wrap16.f := by
    have := congrArg Prod.fst hI; simpa using this
  have hna' : (runTr (N.laneInt i) (St.init ((x i).toInt)) b0 tr).1.aborted = false := by
    have := congrArg St.aborted hs
    simp only [St.map] at this
    rw [← this]; exact hna
  have hint := refines_int (N.laneInt i) tr b0 ((x i).toInt) hwf hna' white
  rw [hb] at hint
  -- push both sides through the homomorphisms
  have e1 := evalAcc_map (lane i) N (runTr N (St.init x) b0 tr).1 (runTr N (St.init x) b0 tr).2 white
  have e2 := evalAcc_map wrap16 (N.laneInt i) (runTr (N.laneInt i) (St.init ((x i).toInt)) b0 tr).1
    (runTr N (St.init x) b0 tr).2 white
  have f1 := fresh_map (lane i) N white (kingSq white (runTr N (St.init x) b0 tr).2) (runTr N (St.init x) b0 tr).2
  have f2 := fresh_map wrap16 (N.laneInt i) white (kingSq white (runTr N (St.init x) b0 tr).2) (runTr N (St.init x) b0 tr).2
  rw [laneInt_map] at e2 f2
  rw [← hs] at e2
  have : (lane i).f (evalAcc N (runTr N (St.init x) b0 tr).1 (runTr N (St.init x) b0 tr).2 white)
      = (lane i).f (fresh N white (kingSq white (runTr N (St.init x) b0 tr).2) (runTr N (St.init x) b0 tr).2) := by
    rw [← e1, e2, hint, ← f2, f1]
  exact this

end NN
