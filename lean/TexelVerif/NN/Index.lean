import TexelVerif.NN.Lanes16
/-! Symmetries of the real feature index function `getIndex` (nneval.cpp) and their consequence for the
    from-scratch accumulators: the colour-flipped position seen from the other perspective, and the left-right
    mirrored position seen from the same perspective, activate the same multiset of `weight1` rows. -/
namespace NN

/-- `pt = (pt >= 5) ? (pt - 5) : (pt + 5)` -/
def swapPt (pt : Nat) : Nat := if pt ≥ 5 then pt - 5 else pt + 5

/-- colour swap of a piece code -/
def flipPc (p : Pc) : Pc := if p = 0 then 0 else if p ≤ 6 then p + 6 else p - 6

/-- colour-flipped position: ranks reversed, colours swapped -/
def flipBoard (b : Board) : Board := fun s => flipPc (b (s ^^^ 56))
/-- left-right mirrored position -/
def mirrorBoard (b : Board) : Board := fun s => b (s ^^^ 7)

theorem xor56_invol : ∀ s, s < 64 → (s ^^^ 56) ^^^ 56 = s ∧ (s ^^^ 56) < 64 := by decide
theorem xor7_invol : ∀ s, s < 64 → (s ^^^ 7) ^^^ 7 = s ∧ (s ^^^ 7) < 64 := by decide
theorem xor7_56 : ∀ s, s < 64 → (s ^^^ 7) ^^^ 56 = (s ^^^ 56) ^^^ 7 := by decide

theorem swapPt_invol (pt : Nat) (h : pt < 10) : swapPt (swapPt pt) = pt := by
  unfold swapPt; split <;> split <;> omega

/-- `getIndex` written with the king bucket separated from the square part -/
def kIdx (k : Sq) : Nat := (k / 8) * 4 + (if k % 8 ≥ 4 then (k % 8) ^^^ 7 else k % 8)
def flipX (k : Sq) : Bool := k % 8 ≥ 4

theorem getIndex_eq (k : Sq) (pt : Nat) (sq : Sq) (white : Bool) :
    getIndex k pt sq white =
      (kIdx (if white then k else k ^^^ 56) * 10 + (if white then pt else swapPt pt)) * 64
        + (if flipX (if white then k else k ^^^ 56) then (if white then sq else sq ^^^ 56) ^^^ 7
           else (if white then sq else sq ^^^ 56)) := by
  unfold getIndex kIdx flipX swapPt
  simp only [decide_eq_true_eq]

theorem kIdx_mirror : ∀ k, k < 64 → kIdx (k ^^^ 7) = kIdx k ∧ flipX (k ^^^ 7) = !flipX k := by decide

/-- colour symmetry of the index function (`getIndex`): swapping perspective, piece colour and ranks is the identity -/
theorem getIndex_flip (k : Sq) (pt : Nat) (sq : Sq) (white : Bool) (hk : k < 64) (hsq : sq < 64) (hpt : pt < 10) :
    getIndex (k ^^^ 56) (swapPt pt) (sq ^^^ 56) (!white) = getIndex k pt sq white := by
  rw [getIndex_eq, getIndex_eq]
  cases white
  · simp only [Bool.not_false, if_true, Bool.false_eq_true, if_false]
  · simp only [Bool.not_true, Bool.false_eq_true, if_false, if_true]
    rw [(xor56_invol k hk).1, (xor56_invol sq hsq).1, swapPt_invol pt hpt]

/-- left-right symmetry of the index function: mirroring king square and piece square is the identity -/
theorem getIndex_mirror (k : Sq) (pt : Nat) (sq : Sq) (white : Bool) (hk : k < 64) (hsq : sq < 64) :
    getIndex (k ^^^ 7) pt (sq ^^^ 7) white = getIndex k pt sq white := by
  rw [getIndex_eq, getIndex_eq]
  cases white
  · simp only [Bool.false_eq_true, if_false]
    have hk' := (xor56_invol k hk).2
    rw [xor7_56 k hk, (kIdx_mirror _ hk').1, (kIdx_mirror _ hk').2, xor7_56 sq hsq]
    have hs' := (xor56_invol sq hsq).2
    cases flipX (k ^^^ 56)
    · simp [(xor7_invol _ hs').1]
    · simp
  · simp only [if_true]
    rw [(kIdx_mirror _ hk).1, (kIdx_mirror _ hk).2]
    cases flipX k
    · simp [(xor7_invol _ hsq).1]
    · simp

/-- index range: every row index is inside `weight1` (`inFeatures = 32*10*64`) -/
theorem kIdx_lt : ∀ k, k < 64 → kIdx k < 32 := by decide

theorem getIndex_lt (k : Sq) (pt : Nat) (sq : Sq) (white : Bool) (hk : k < 64) (hsq : sq < 64) (hpt : pt < 10) :
    getIndex k pt sq white < 32 * 10 * 64 := by
  rw [getIndex_eq]
  have h1 : kIdx (if white then k else k ^^^ 56) < 32 := by
    cases white
    · exact kIdx_lt _ (xor56_invol k hk).2
    · exact kIdx_lt _ hk
  have h2 : (if white then pt else swapPt pt) < 10 := by
    cases white
    · simp only [Bool.false_eq_true, if_false]; unfold swapPt; split <;> omega
    · exact hpt
  have hs : (if white then sq else sq ^^^ 56) < 64 := by
    cases white
    · exact (xor56_invol sq hsq).2
    · exact hsq
  generalize kIdx (if white then k else k ^^^ 56) = a at h1
  generalize (if white then pt else swapPt pt) = p at h2
  generalize (if white then sq else sq ^^^ 56) = s0 at hs
  generalize flipX (if white then k else k ^^^ 56) = fx
  have h3 : (if fx = true then s0 ^^^ 7 else s0) < 64 := by
    cases fx
    · simpa using hs
    · simpa using (xor7_invol _ hs).2
  generalize (if fx = true then s0 ^^^ 7 else s0) = s at h3
  have h3' : @LT.lt Nat _ s 64 := h3
  omega

/-! ### piece codes -/

theorem flipPc_facts : ∀ p, p ≤ 12 →
    isNonKing (flipPc p) = isNonKing p ∧ (isNonKing p = true → ptValue (flipPc p) = swapPt (ptValue p) ∧ ptValue p < 10) ∧
    (flipPc p = 1 ↔ p = 7) ∧ (flipPc p = 7 ↔ p = 1) := by decide

/-! ### feature multisets -/

theorem filterMap_congr' {α β} (f g : α → Option β) (l : List α) (h : ∀ x ∈ l, f x = g x) :
    l.filterMap f = l.filterMap g := by
  induction l with
  | nil => rfl
  | cons a l ih =>
    simp only [List.filterMap_cons]
    rw [h a (by simp), ih (fun x hx => h x (by simp [hx]))]

theorem perm56 : ((List.range 64).map (· ^^^ 56)).Perm (List.range 64) := by decide
theorem perm7 : ((List.range 64).map (· ^^^ 7)).Perm (List.range 64) := by decide

section feat
variable {V : Type} (N : Net V)

/-- the network uses the real index function of nneval.cpp -/
def RealIdx : Prop := ∀ c k p sq, N.idx c k p sq = realIdx c k p sq

/-- Colour flip: the flipped position seen from perspective `!c` (king on the rank-mirrored square) activates
    the same multiset of rows as the original seen from `c`. -/
theorem features_flip (hN : RealIdx N) (c : Bool) (k : Sq) (b : Board) (hk : k < 64) (hb : ∀ s, s < 64 → b s ≤ 12) :
    (activeFeatures N (!c) (k ^^^ 56) (flipBoard b)).Perm (activeFeatures N c k b) := by
  unfold activeFeatures
  let g : Nat → Option Nat := fun t => if isNonKing (b t) then some (N.idx c k (b t) t) else none
  have h1 : (List.range 64).filterMap (fun s => if isNonKing (flipBoard b s) then some (N.idx (!c) (k ^^^ 56) (flipBoard b s) s) else none)
      = (List.range 64).filterMap (g ∘ (· ^^^ 56)) := by
    apply filterMap_congr'
    intro s hs
    have hs64 : s < 64 := by simpa using hs
    have hs' := xor56_invol s hs64
    have hp := flipPc_facts (b (s ^^^ 56)) (hb _ hs'.2)
    simp only [Function.comp, g, flipBoard, hp.1]
    by_cases hnk : isNonKing (b (s ^^^ 56)) = true
    · simp only [hnk, if_true]
      have := hp.2.1 hnk
      rw [hN, hN]; unfold realIdx
      rw [this.1]
      have e := getIndex_flip k (ptValue (b (s ^^^ 56))) (s ^^^ 56) c hk hs'.2 this.2
      rw [hs'.1] at e
      rw [e]
    · simp [hnk]
  rw [h1, ← List.filterMap_map]
  exact List.Perm.filterMap g perm56

/-- Left-right mirror: the mirrored position seen from the same perspective (king on the file-mirrored square)
    activates the same multiset of rows as the original. -/
theorem features_mirror (hN : RealIdx N) (c : Bool) (k : Sq) (b : Board) (hk : k < 64) :
    (activeFeatures N c (k ^^^ 7) (mirrorBoard b)).Perm (activeFeatures N c k b) := by
  unfold activeFeatures
  let g : Nat → Option Nat := fun t => if isNonKing (b t) then some (N.idx c k (b t) t) else none
  have h1 : (List.range 64).filterMap (fun s => if isNonKing (mirrorBoard b s) then some (N.idx c (k ^^^ 7) (mirrorBoard b s) s) else none)
      = (List.range 64).filterMap (g ∘ (· ^^^ 7)) := by
    apply filterMap_congr'
    intro s hs
    have hs64 : s < 64 := by simpa using hs
    have hs' := xor7_invol s hs64
    simp only [Function.comp, g, mirrorBoard]
    by_cases hnk : isNonKing (b (s ^^^ 7)) = true
    · simp only [hnk, if_true]
      rw [hN, hN]; unfold realIdx
      have e := getIndex_mirror k (ptValue (b (s ^^^ 7))) (s ^^^ 7) c hk hs'.2
      rw [hs'.1] at e
      rw [e]
    · simp [hnk]
  rw [h1, ← List.filterMap_map]
  exact List.Perm.filterMap g perm7

end feat

/-! ### from multisets to accumulators -/

theorem sumW_perm (N : Net Int) (l₁ l₂ : List Nat) (h : l₁.Perm l₂) : sumW N l₁ = sumW N l₂ := by
  unfold sumW
  induction h with
  | nil => rfl
  | cons x _ ih => simp only [List.map_cons, List.sum_cons, ih]
  | swap x y l => simp only [List.map_cons, List.sum_cons]; omega
  | trans _ _ ih1 ih2 => rw [ih1, ih2]

/-- 16-bit lane accumulators depend only on the multiset of active rows (addition of wrapping lanes commutes) -/
theorem addRows_perm_lanes (N : Net Lanes) (x : Lanes) (l₁ l₂ : List Nat) (h : l₁.Perm l₂) :
    addRows N x l₁ = addRows N x l₂ := by
  funext i
  have a1 := addRows_map (lane i) N x l₁
  have a2 := addRows_map (lane i) N x l₂
  have b1 := addRows_map wrap16 (N.laneInt i) ((x i).toInt) l₁
  have b2 := addRows_map wrap16 (N.laneInt i) ((x i).toInt) l₂
  have hx : wrap16.f ((x i).toInt) = (lane i).f x := by simp [wrap16, lane, BitVec.ofInt_toInt]
  rw [laneInt_map, hx] at b1 b2
  have : addRows (N.laneInt i) ((x i).toInt) l₁ = addRows (N.laneInt i) ((x i).toInt) l₂ := by
    rw [addRows_eq, addRows_eq, sumW_perm _ _ _ h]
  have e : (lane i).f (addRows N x l₁) = (lane i).f (addRows N x l₂) := by
    rw [← a1, b1, this, ← b2, a2]
  exact e

/-! ### king squares of the transformed positions -/

theorem findFrom_spec (p : Sq → Bool) (n s k : Nat) (hk : p k = true) (h1 : s ≤ k) (h2 : k < s + n)
    (hfirst : ∀ t, s ≤ t → t < k → p t = false) : findFrom p n s = k := by
  induction n generalizing s with
  | zero => omega
  | succ n ih =>
    unfold findFrom
    by_cases hs : s = k
    · subst hs; simp [hk]
    · have : p s = false := hfirst s (Nat.le_refl _) (by omega)
      simp only [this, Bool.false_eq_true, if_false]
      exact ih (s+1) (by omega) (by omega) (fun t ht1 ht2 => hfirst t (by omega) ht2)

/-- `k` is the only square holding the king of colour `c` -/
def KingAt (c : Bool) (b : Board) (k : Sq) : Prop := k < 64 ∧ ∀ s, s < 64 → (b s = kingPc c ↔ s = k)

theorem kingSq_of_kingAt (c : Bool) (b : Board) (k : Sq) (h : KingAt c b k) : kingSq c b = k := by
  obtain ⟨hk64', hiff⟩ := h
  have hk64 : @LT.lt Nat _ k 64 := hk64'
  unfold kingSq
  apply findFrom_spec _ 64 0 k
  · simp [(hiff k hk64).2 rfl]
  · omega
  · omega
  · intro t _ ht
    have ht64 : t < 64 := by omega
    have : ¬ b t = kingPc c := fun e => by have h' : @Eq Nat t k := (hiff t ht64).1 e; omega
    simp [this]

theorem kingAt_flip (c : Bool) (b : Board) (k : Sq) (h : KingAt c b k) (hb : ∀ s, s < 64 → b s ≤ 12) :
    KingAt (!c) (flipBoard b) (k ^^^ 56) := by
  refine ⟨(xor56_invol k h.1).2, ?_⟩
  intro s hs
  have hs' := xor56_invol s hs
  have hp := flipPc_facts (b (s ^^^ 56)) (hb _ hs'.2)
  have hkk := h.2 (s ^^^ 56) hs'.2
  have hiff : (s ^^^ 56 = k ↔ s = k ^^^ 56) := by
    constructor
    · intro e; rw [← e, hs'.1]
    · intro e; rw [e, (xor56_invol k h.1).1]
  unfold flipBoard kingPc at *
  cases c
  · simp only [Bool.not_false, if_true, Bool.false_eq_true, if_false] at *
    rw [hp.2.2.1, hkk, hiff]
  · simp only [Bool.not_true, Bool.false_eq_true, if_false, if_true] at *
    rw [hp.2.2.2, hkk, hiff]

theorem kingAt_mirror (c : Bool) (b : Board) (k : Sq) (h : KingAt c b k) :
    KingAt c (mirrorBoard b) (k ^^^ 7) := by
  refine ⟨(xor7_invol k h.1).2, ?_⟩
  intro s hs
  have hs' := xor7_invol s hs
  have hkk := h.2 (s ^^^ 7) hs'.2
  have hiff : (s ^^^ 7 = k ↔ s = k ^^^ 7) := by
    constructor
    · intro e; rw [← e, hs'.1]
    · intro e; rw [e, (xor7_invol k h.1).1]
  unfold mirrorBoard
  rw [hkk, hiff]

end NN
