import TexelVerif.NN.Model
/-! One perspective, one lane with exact integer arithmetic (`V = Int`): the pending add/sub queues with
    capacity 4 and overflow-to-invalid keep `l1 + ΣW(toAdd) − ΣW(toSub) = fresh (kingSqComputed) board`,
    and a flush yields the from-scratch value for the current king square. -/
namespace NN

variable (N : Net Int)

def sumW (l : List Nat) : Int := (l.map N.W).sum

theorem addRows_eq (x : Int) (l : List Nat) : addRows N x l = x + sumW N l := by
  unfold addRows sumW
  induction l generalizing x with
  | nil => simp
  | cons a l ih => simp only [List.foldl_cons, List.map_cons, List.sum_cons]; rw [ih]; omega

theorem subRows_eq (x : Int) (l : List Nat) : subRows N x l = x - sumW N l := by
  unfold subRows sumW
  induction l generalizing x with
  | nil => simp
  | cons a l ih => simp only [List.foldl_cons, List.map_cons, List.sum_cons]; rw [ih]; omega

def contrib (c : Bool) (k : Sq) (b : Board) (s : Sq) : Int :=
  if isNonKing (b s) then N.W (N.idx c k (b s) s) else 0

theorem sumW_filterMap (f : Nat → Option Nat) (l : List Nat) :
    sumW N (l.filterMap f) = (l.map fun s => match f s with | some i => N.W i | none => 0).sum := by
  unfold sumW
  induction l with
  | nil => simp
  | cons a l ih =>
    simp only [List.filterMap_cons, List.map_cons, List.sum_cons]
    cases h : f a with
    | none => simp [ih]
    | some i => simp [ih]

/-- from-scratch accumulator as a sum over the squares -/
theorem fresh_eq (c : Bool) (k : Sq) (b : Board) :
    fresh N c k b = N.bias + ((List.range 64).map (contrib N c k b)).sum := by
  unfold fresh activeFeatures
  rw [addRows_eq, sumW_filterMap]
  congr 2
  apply List.map_congr_left
  intro s _
  unfold contrib
  by_cases h : isNonKing (b s) = true <;> simp [h]

def FLS.bal (s : FLS Int) : Int := s.l1 + sumW N s.toAdd - sumW N s.toSub

theorem applyPending_eq (s : FLS Int) : applyPending N s = s.bal N := by
  unfold applyPending FLS.bal; rw [subRows_eq, addRows_eq]

/-- invariant of one perspective w.r.t. the board the evaluator is tracking -/
def Good (c : Bool) (s : FLS Int) (b : Board) : Prop :=
  match s.ksq with
  | none => True
  | some k => s.bal N = fresh N c k b ∧ s.toAdd.length ≤ maxIncr ∧ s.toSub.length ≤ maxIncr

theorem sum_map_upd (f g : Nat → Int) (l : List Nat) (sq : Nat) (hnd : l.Nodup) (hmem : sq ∈ l)
    (hfg : ∀ s, s ≠ sq → f s = g s) : (l.map f).sum = (l.map g).sum - g sq + f sq := by
  induction l with
  | nil => cases hmem
  | cons x l ih =>
    rw [List.nodup_cons] at hnd
    simp only [List.map_cons, List.sum_cons]
    by_cases hx : x = sq
    · subst hx
      have : (l.map f) = (l.map g) := by
        apply List.map_congr_left
        intro s hs; exact hfg s (fun e => hnd.1 (e ▸ hs))
      rw [this]; omega
    · have hm : sq ∈ l := by
        rcases List.mem_cons.1 hmem with h | h
        · exact absurd h.symm hx
        · exact h
      rw [ih hnd.2 hm, hfg x hx]; omega

theorem fresh_upd (c : Bool) (k : Sq) (b : Board) (sq : Sq) (p : Pc) (hsq : sq < 64) :
    fresh N c k (upd b sq p) = fresh N c k b - contrib N c k b sq + contrib N c k (upd b sq p) sq := by
  rw [fresh_eq, fresh_eq]
  have := sum_map_upd (contrib N c k (upd b sq p)) (contrib N c k b) (List.range 64) sq
    List.nodup_range (by simp [hsq]) (by
      intro s hs; simp [contrib, upd, hs])
  rw [this]; omega

theorem sumW_append (l : List Nat) (x : Nat) : sumW N (l ++ [x]) = sumW N l + N.W x := by
  simp [sumW]

theorem good_of_ksq_none (c : Bool) (s : FLS Int) (b : Board) (h : s.ksq = none) : Good N c s b := by
  simp [Good, h]

theorem good_clear (c : Bool) (s : FLS Int) (b : Board) : Good N c s.clear b := by
  simp [Good, FLS.clear]

theorem pushSub_spec (s : FLS Int) (i : Nat) :
    (pushSub s i).ksq = none ∨
    ((pushSub s i).ksq = s.ksq ∧ (pushSub s i).bal N = s.bal N - N.W i ∧
     (pushSub s i).toAdd = s.toAdd ∧ (pushSub s i).toSub.length ≤ maxIncr) := by
  unfold pushSub
  by_cases h : s.toSub.length < maxIncr
  · right; rw [if_pos h]
    refine ⟨rfl, ?_, rfl, by simp; omega⟩
    simp only [FLS.bal, sumW_append]; omega
  · left; simp [h, FLS.clear]

theorem pushAdd_spec (s : FLS Int) (i : Nat) :
    (pushAdd s i).ksq = none ∨
    ((pushAdd s i).ksq = s.ksq ∧ (pushAdd s i).bal N = s.bal N + N.W i ∧
     (pushAdd s i).toSub = s.toSub ∧ (pushAdd s i).toAdd.length ≤ maxIncr) := by
  unfold pushAdd
  by_cases h : s.toAdd.length < maxIncr
  · right; rw [if_pos h]
    refine ⟨rfl, ?_, rfl, by simp; omega⟩
    simp only [FLS.bal, sumW_append]; omega
  · left; simp [h, FLS.clear]

/-- setPiece keeps the invariant when the notification matches the tracked board -/
theorem setPiece1_good (c : Bool) (s : FLS Int) (b : Board) (sq : Sq) (oldP newP : Pc)
    (hsq : sq < 64) (hold : b sq = oldP) (hg : Good N c s b) :
    Good N c (setPiece1 N c s sq oldP newP) (upd b sq newP) := by
  unfold setPiece1
  cases hk : s.ksq with
  | none => exact good_of_ksq_none N c s _ hk
  | some k =>
    simp only
    have hg' : s.bal N = fresh N c k b ∧ s.toAdd.length ≤ maxIncr ∧ s.toSub.length ≤ maxIncr := by
      simpa [Good, hk] using hg
    obtain ⟨he, ha, hs⟩ := hg'
    have hf := fresh_upd N c k b sq newP hsq
    have hc1 : contrib N c k b sq = if isNonKing oldP then N.W (N.idx c k oldP sq) else 0 := by
      simp [contrib, hold]
    have hc2 : contrib N c k (upd b sq newP) sq = if isNonKing newP then N.W (N.idx c k newP sq) else 0 := by
      simp [contrib, upd]
    -- state after the "old piece" half
    have h1 : ∀ s1, s1 = (if isNonKing oldP then pushSub s (N.idx c k oldP sq) else s) →
        s1.ksq = none ∨ (s1.ksq = some k ∧ s1.bal N = fresh N c k b - contrib N c k b sq ∧
                         s1.toAdd.length ≤ maxIncr ∧ s1.toSub.length ≤ maxIncr) := by
      intro s1 e
      by_cases ho : isNonKing oldP = true
      · rw [if_pos ho] at e; subst e
        rcases pushSub_spec N s (N.idx c k oldP sq) with h | ⟨q1, q2, q3, q4⟩
        · left; exact h
        · right; refine ⟨by rw [q1, hk], ?_, by rw [q3]; exact ha, q4⟩
          rw [q2, he, hc1, if_pos ho]
      · rw [if_neg ho] at e; subst e
        right; refine ⟨hk, ?_, ha, hs⟩
        rw [he, hc1, if_neg ho]; omega
    generalize hs1 : (if isNonKing oldP then pushSub s (N.idx c k oldP sq) else s) = s1
    rcases h1 s1 hs1.symm with hn | ⟨p1, p2, p3, p4⟩
    · simp only [hn]; exact good_of_ksq_none N c s1 _ hn
    · simp only [p1]
      by_cases hnw : isNonKing newP = true
      · rw [if_pos hnw]
        rcases pushAdd_spec N s1 (N.idx c k newP sq) with h | ⟨q1, q2, q3, q4⟩
        · exact good_of_ksq_none N c _ _ h
        · simp only [Good, q1, p1]
          refine ⟨?_, q4, by rw [q3]; exact p4⟩
          rw [q2, p2, hf, hc2, if_pos hnw]
      · rw [if_neg hnw]
        simp only [Good, p1]
        refine ⟨?_, p3, p4⟩
        rw [p2, hf, hc2, if_neg hnw]; omega

/-- after a flush the accumulator IS the from-scratch value for the current king square -/
theorem flush1_exact (c : Bool) (s : FLS Int) (kNow : Sq) (b : Board) (hg : Good N c s b) :
    (flush1 N c s kNow b).l1 = fresh N c kNow b ∧ Good N c (flush1 N c s kNow b) b ∧
    (flush1 N c s kNow b).ksq = some kNow := by
  unfold flush1
  by_cases h : s.ksq = some kNow
  · rw [if_pos h]
    have : s.bal N = fresh N c kNow b := by
      have := hg; simp only [Good, h] at this; exact this.1
    refine ⟨by simp only [applyPending_eq]; exact this, ?_, h⟩
    simp only [Good, h, FLS.bal, sumW, maxIncr, applyPending_eq]
    simp; exact this
  · rw [if_neg h]
    refine ⟨rfl, ?_, rfl⟩
    simp [Good, FLS.bal, sumW, maxIncr]

end NN
