/-! Prototype: NNEvaluator first-layer incremental state (nneval.cpp) refines from-scratch accumulation.
    Accumulator values are `Int` (one lane); weights `W : Nat → Int` arbitrary. -/
namespace NN

abbrev Sq := Nat            -- 0..63
abbrev Pc := Nat            -- piece code as in piece.hpp, 0 = empty, 1 = WKING, 7 = BKING
abbrev Board := Sq → Pc     -- total function; squares ≥ 64 are always empty by convention

def isNonKing (p : Pc) : Bool := p != 0 && p != 1 && p != 7

/-- feature index of piece p on square s seen from perspective c with king on k (abstract, any function) -/
structure Net where
  idx : Bool → Sq → Pc → Sq → Nat     -- idx c kingSq piece sq
  W : Nat → Int
  bias : Int

variable (N : Net)

def contrib (c : Bool) (k : Sq) (b : Board) (s : Sq) : Int :=
  if isNonKing (b s) then N.W (N.idx c k (b s) s) else 0

/-- from-scratch accumulator for perspective c with king square k -/
def fresh (c : Bool) (k : Sq) (b : Board) : Int :=
  N.bias + ((List.range 64).map (contrib N c k b)).sum

def sumW (l : List Nat) : Int := (l.map N.W).sum

/-- one perspective's incremental state -/
structure FLS where
  l1 : Int
  toAdd : List Nat
  toSub : List Nat
  ksq : Option Sq            -- kingSqComputed
deriving Inhabited

def FLS.invalid : FLS := { l1 := 0, toAdd := [], toSub := [], ksq := none }

def maxIncr : Nat := 4

def FLS.bal (s : FLS) : Int := s.l1 + sumW N s.toAdd - sumW N s.toSub

/-- invariant of one perspective w.r.t. the board the evaluator is tracking -/
def Good (c : Bool) (s : FLS) (b : Board) : Prop :=
  match s.ksq with
  | none => True
  | some k => s.bal N = fresh N c k b ∧ s.toAdd.length ≤ maxIncr ∧ s.toSub.length ≤ maxIncr

def pushSub (s : FLS) (i : Nat) : FLS :=
  if s.toSub.length < maxIncr then { s with toSub := s.toSub ++ [i] } else FLS.invalid
def pushAdd (s : FLS) (i : Nat) : FLS :=
  if s.toAdd.length < maxIncr then { s with toAdd := s.toAdd ++ [i] } else FLS.invalid

/-- NNEvaluator::setPiece for one perspective -/
def setPiece1 (c : Bool) (s : FLS) (sq : Sq) (oldP newP : Pc) : FLS :=
  match s.ksq with
  | none => s
  | some k =>
    let s1 := if isNonKing oldP then pushSub s (N.idx c k oldP sq) else s
    match s1.ksq with
    | none => s1                       -- overflow: C++ `continue`
    | some _ => if isNonKing newP then pushAdd s1 (N.idx c k newP sq) else s1

def upd (b : Board) (sq : Sq) (p : Pc) : Board := fun s => if s = sq then p else b s

theorem sum_map_upd (f g : Nat → Int) (l : List Nat) (sq : Nat) (hnd : l.Nodup) (hmem : sq ∈ l)
    (hfg : ∀ s, s ≠ sq → f s = g s) : (l.map f).sum = (l.map g).sum - g sq + f sq := by
  induction l with
  | nil => cases hmem
  | cons x l ih =>
    rw [List.nodup_cons] at hnd
    simp only [List.map_cons, List.sum_cons]
    by_cases hx : x = sq
    · subst hx
      have : (l.map f) = (l.map g) := by
        apply List.map_congr_left
        intro s hs; exact hfg s (fun e => hnd.1 (e ▸ hs))
      rw [this]; omega
    · have hm : sq ∈ l := by
        rcases List.mem_cons.1 hmem with h | h
        · exact absurd h.symm hx
        · exact h
      rw [ih hnd.2 hm, hfg x hx]; omega

theorem fresh_upd (c : Bool) (k : Sq) (b : Board) (sq : Sq) (p : Pc) (hsq : sq < 64) :
    fresh N c k (upd b sq p) = fresh N c k b - contrib N c k b sq + contrib N c k (upd b sq p) sq := by
  unfold fresh
  have := sum_map_upd (contrib N c k (upd b sq p)) (contrib N c k b) (List.range 64) sq
    List.nodup_range (by simp [hsq]) (by
      intro s hs; simp [contrib, upd, hs])
  rw [this]; omega

end NN

namespace NN
variable (N : Net)

theorem sumW_append (l : List Nat) (x : Nat) : sumW N (l ++ [x]) = sumW N l + N.W x := by
  simp [sumW]

theorem good_invalid (c : Bool) (b : Board) : Good N c FLS.invalid b := by
  simp [Good, FLS.invalid]

theorem good_of_ksq_none (c : Bool) (s : FLS) (b : Board) (h : s.ksq = none) : Good N c s b := by
  simp [Good, h]

theorem pushSub_spec (s : FLS) (i : Nat) :
    (pushSub s i).ksq = none ∨
    ((pushSub s i).ksq = s.ksq ∧ (pushSub s i).bal N = s.bal N - N.W i ∧
     (pushSub s i).toAdd = s.toAdd ∧ (pushSub s i).toSub.length ≤ maxIncr) := by
  unfold pushSub
  by_cases h : s.toSub.length < maxIncr
  · right; rw [if_pos h]
    refine ⟨rfl, ?_, rfl, by simp; omega⟩
    simp only [FLS.bal, sumW_append]; omega
  · left; simp [h, FLS.invalid]

theorem pushAdd_spec (s : FLS) (i : Nat) :
    (pushAdd s i).ksq = none ∨
    ((pushAdd s i).ksq = s.ksq ∧ (pushAdd s i).bal N = s.bal N + N.W i ∧
     (pushAdd s i).toSub = s.toSub ∧ (pushAdd s i).toAdd.length ≤ maxIncr) := by
  unfold pushAdd
  by_cases h : s.toAdd.length < maxIncr
  · right; rw [if_pos h]
    refine ⟨rfl, ?_, rfl, by simp; omega⟩
    simp only [FLS.bal, sumW_append]; omega
  · left; simp [h, FLS.invalid]

/-- setPiece keeps the invariant when the notification matches the tracked board -/
theorem setPiece1_good (c : Bool) (s : FLS) (b : Board) (sq : Sq) (oldP newP : Pc)
    (hsq : sq < 64) (hold : b sq = oldP) (hg : Good N c s b) :
    Good N c (setPiece1 N c s sq oldP newP) (upd b sq newP) := by
  unfold setPiece1
  cases hk : s.ksq with
  | none => exact good_of_ksq_none N c s _ hk
  | some k =>
    simp only
    have hg' : s.bal N = fresh N c k b ∧ s.toAdd.length ≤ maxIncr ∧ s.toSub.length ≤ maxIncr := by
      simpa [Good, hk] using hg
    obtain ⟨he, ha, hs⟩ := hg'
    have hf := fresh_upd N c k b sq newP hsq
    have hc1 : contrib N c k b sq = if isNonKing oldP then N.W (N.idx c k oldP sq) else 0 := by
      simp [contrib, hold]
    have hc2 : contrib N c k (upd b sq newP) sq = if isNonKing newP then N.W (N.idx c k newP sq) else 0 := by
      simp [contrib, upd]
    -- state after the "old piece" half
    have h1 : ∀ s1, s1 = (if isNonKing oldP then pushSub s (N.idx c k oldP sq) else s) →
        s1.ksq = none ∨ (s1.ksq = some k ∧ s1.bal N = fresh N c k b - contrib N c k b sq ∧
                         s1.toAdd.length ≤ maxIncr ∧ s1.toSub.length ≤ maxIncr) := by
      intro s1 e
      by_cases ho : isNonKing oldP = true
      · rw [if_pos ho] at e; subst e
        rcases pushSub_spec N s (N.idx c k oldP sq) with h | ⟨q1, q2, q3, q4⟩
        · left; exact h
        · right; refine ⟨by rw [q1, hk], ?_, by rw [q3]; exact ha, q4⟩
          rw [q2, he, hc1, if_pos ho]
      · rw [if_neg ho] at e; subst e
        right; refine ⟨hk, ?_, ha, hs⟩
        rw [he, hc1, if_neg ho]; omega
    generalize hs1 : (if isNonKing oldP then pushSub s (N.idx c k oldP sq) else s) = s1
    rcases h1 s1 hs1.symm with hn | ⟨p1, p2, p3, p4⟩
    · simp only [hn]; exact good_of_ksq_none N c s1 _ hn
    · simp only [p1]
      by_cases hnw : isNonKing newP = true
      · rw [if_pos hnw]
        rcases pushAdd_spec N s1 (N.idx c k newP sq) with h | ⟨q1, q2, q3, q4⟩
        · exact good_of_ksq_none N c _ _ h
        · simp only [Good, q1, p1]
          refine ⟨?_, q4, by rw [q3]; exact p4⟩
          rw [q2, p2, hf, hc2, if_pos hnw]
      · rw [if_neg hnw]
        simp only [Good, p1]
        refine ⟨?_, p3, p4⟩
        rw [p2, hf, hc2, if_neg hnw]; omega

/-- NNEvaluator::computeL1WB for one perspective: flush pending updates or recompute; `kNow` = current king square -/
def flush1 (c : Bool) (s : FLS) (kNow : Sq) (b : Board) : FLS :=
  if s.ksq = some kNow then
    { s with l1 := s.bal N, toAdd := [], toSub := [] }
  else
    { l1 := fresh N c kNow b, toAdd := [], toSub := [], ksq := some kNow }

/-- after a flush the accumulator IS the from-scratch value for the current king square -/
theorem flush1_exact (c : Bool) (s : FLS) (kNow : Sq) (b : Board) (hg : Good N c s b) :
    (flush1 N c s kNow b).l1 = fresh N c kNow b ∧ Good N c (flush1 N c s kNow b) b ∧
    (flush1 N c s kNow b).ksq = some kNow := by
  unfold flush1
  by_cases h : s.ksq = some kNow
  · rw [if_pos h]
    have : s.bal N = fresh N c kNow b := by
      have := hg; simp only [Good, h] at this; exact this.1
    refine ⟨this, ?_, h⟩
    simp only [Good, h, FLS.bal, sumW, maxIncr]
    simp; exact this
  · rw [if_neg h]
    refine ⟨rfl, ?_, rfl⟩
    simp [Good, FLS.bal, sumW, maxIncr]

end NN
