import TexelVerif.NN.Incremental
/-! The two-perspective state stack refines from-scratch accumulation for every well-formed call history
    (exact integer lanes; `NN/Lanes16.lean` transfers the result to wrapping int16 lane vectors). -/
namespace NN

variable (N : Net Int)

def GoodL (l : Lvl Int) (b : Board) : Prop := Good N true l.w b ∧ Good N false l.b b

/-- each lower stack level is good for the board that was current at the matching `pushState` -/
def GoodStack : List (Lvl Int) → List Board → Prop
  | [], [] => True
  | l :: ls, g :: gs => GoodL N l g ∧ GoodStack ls gs
  | _, _ => False

/-- stack invariant; `gs` is the ghost stack of boards saved at the pushes that are still open -/
def Inv (st : St Int) (b : Board) (gs : List Board) : Prop :=
  st.aborted = false → GoodL N st.top b ∧ GoodStack N st.below gs

/-- ghost stack after a call -/
def ghost (gs : List Board) (b : Board) : Op → List Board
  | .push => b :: gs
  | .pop => gs.tail
  | .reset => []
  | _ => gs

/-- a call is truthful w.r.t. the connected position: `b` before, `b'` after the call.
    * `setPiece` reports the piece that really was on the square, and only that square changes;
    * `pushState` / `eval` do not change the position;
    * `popState` comes after `unMakeMove` has silently restored the position of the matching push
      (if the evaluator's stack is empty — after a copy/assignment — the position may be anything);
    * `reset` (connectPosition, copy, assignment, deSerialize) may change the position arbitrarily. -/
def OpOK (b : Board) (gs : List Board) (op : Op) (b' : Board) : Prop :=
  match op with
  | .setPiece sq o n => sq < 64 ∧ b sq = o ∧ b' = upd b sq n
  | .push => b' = b
  | .eval => b' = b
  | .pop => match gs with
    | g :: _ => b' = g
    | [] => True
  | .reset => True

def WF (b : Board) (gs : List Board) : Trace → Prop
  | [] => True
  | (op, b') :: tr => OpOK b gs op b' ∧ WF b' (ghost gs b op) tr


theorem goodL_clear (l : Lvl Int) (b : Board) : GoodL N l.clear b :=
  ⟨good_clear N true l.w b, good_clear N false l.b b⟩

theorem computeL1WB_good (l : Lvl Int) (b : Board) (h : GoodL N l b) :
    GoodL N (computeL1WB N l b) b ∧
    (computeL1WB N l b).w.l1 = fresh N true (kingSq true b) b ∧
    (computeL1WB N l b).b.l1 = fresh N false (kingSq false b) b := by
  have h1 := flush1_exact N true l.w (kingSq true b) b h.1
  have h2 := flush1_exact N false l.b (kingSq false b) b h.2
  exact ⟨⟨h1.2.1, h2.2.1⟩, h1.1, h2.1⟩

theorem step_aborted {V : Type} [Add V] [Sub V] (M : Net V) (st : St V) (b : Board) (op : Op)
    (h : st.aborted = true) : (step M st b op).aborted = true := by
  unfold step; simp [h]

theorem step_inv (st : St Int) (b b' : Board) (gs : List Board) (op : Op)
    (hi : Inv N st b gs) (hok : OpOK b gs op b') : Inv N (step N st b op) b' (ghost gs b op) := by
  intro hna
  have hst : st.aborted = false := by
    cases h : st.aborted with
    | false => rfl
    | true => rw [step_aborted N st b op h] at hna; cases hna
  obtain ⟨ht, hb⟩ := hi hst
  unfold step at hna ⊢
  simp only [hst, Bool.false_eq_true, if_false] at hna ⊢
  cases op with
  | setPiece sq o n =>
    obtain ⟨hsq, ho, hb'⟩ := hok
    subst hb'
    exact ⟨⟨setPiece1_good N true st.top.w b sq o n hsq ho ht.1,
            setPiece1_good N false st.top.b b sq o n hsq ho ht.2⟩, hb⟩
  | push =>
    have hb' : b' = b := hok
    subst hb'
    simp only [pushState] at hna ⊢
    have g1 : GoodL N (if pending st.top.w then computeL1WB N st.top b' else st.top) b' := by
      split
      · exact (computeL1WB_good N _ _ ht).1
      · exact ht
    generalize (if pending st.top.w then computeL1WB N st.top b' else st.top) = t1 at g1 hna ⊢
    have g2 : GoodL N (if pending t1.b then computeL1WB N t1 b' else t1) b' := by
      split
      · exact (computeL1WB_good N _ _ g1).1
      · exact g1
    generalize (if pending t1.b then computeL1WB N t1 b' else t1) = t2 at g2 hna ⊢
    by_cases hd : st.below.length + 1 < maxStackSize
    · simp only [hd, if_true] at hna ⊢
      exact ⟨g2, g2, hb⟩
    · simp [hd] at hna
  | pop =>
    simp only [popState, ghost] at hna ⊢
    cases hbl : st.below with
    | nil =>
      rw [hbl] at hb
      cases gs with
      | nil => simp only [forceFullEval]; exact ⟨goodL_clear N _ _, trivial⟩
      | cons g r => exact absurd hb (by simp [GoodStack])
    | cons l r =>
      rw [hbl] at hb
      cases gs with
      | nil => exact absurd hb (by simp [GoodStack])
      | cons g gr =>
        have hb' : b' = g := hok
        subst hb'
        exact ⟨hb.1, hb.2⟩
  | reset =>
    simp only [forceFullEval, ghost]
    exact ⟨goodL_clear N _ _, trivial⟩
  | eval =>
    have hb' : b' = b := hok
    subst hb'
    simp only [evalFlush, ghost]
    exact ⟨(computeL1WB_good N _ _ ht).1, hb⟩

theorem run_inv (tr : Trace) (st : St Int) (b : Board) (gs : List Board)
    (hi : Inv N st b gs) (hwf : WF b gs tr) :
    ∃ gs', Inv N (runTr N st b tr).1 (runTr N st b tr).2 gs' := by
  induction tr generalizing st b gs with
  | nil => exact ⟨gs, hi⟩
  | cons x tr ih =>
    obtain ⟨op, b'⟩ := x
    exact ih _ _ _ (step_inv N st b b' gs op hi hwf.1) hwf.2

theorem inv_init (x : Int) (b : Board) : Inv N (St.init x) b [] := by
  intro _
  exact ⟨⟨good_of_ksq_none N _ _ _ rfl, good_of_ksq_none N _ _ _ rfl⟩, trivial⟩

/-- Int version of the refinement theorem -/
theorem refines_int (tr : Trace) (b0 : Board) (x : Int) (hwf : WF b0 [] tr)
    (hna : (runTr N (St.init x) b0 tr).1.aborted = false) (white : Bool) :
    evalAcc N (runTr N (St.init x) b0 tr).1 (runTr N (St.init x) b0 tr).2 white
      = fresh N white (kingSq white (runTr N (St.init x) b0 tr).2) (runTr N (St.init x) b0 tr).2 := by
  obtain ⟨gs', hi⟩ := run_inv N tr (St.init x) b0 [] (inv_init N x b0) hwf
  have h := computeL1WB_good N _ _ (hi hna).1
  unfold evalAcc Lvl.get
  cases white
  · simp only [Bool.false_eq_true, if_false]; exact h.2.2
  · simp only [if_true]; exact h.2.1

/-! ### the assertion `stackTop < maxStackSize` never fires while the number of open pushes stays below the bound -/

/-- every `pushState` of the history happens with fewer than `maxStackSize - 1` open pushes -/
def DepthOK (gs : List Board) (b : Board) : Trace → Prop
  | [] => True
  | (op, b') :: tr => (match op with | .push => gs.length + 1 < maxStackSize | _ => True) ∧ DepthOK (ghost gs b op) b' tr

theorem step_depth {V : Type} [Add V] [Sub V] (M : Net V) (st : St V) (b : Board) (gs : List Board) (op : Op)
    (hl : st.below.length = gs.length) (hna : st.aborted = false)
    (hd : match op with | .push => gs.length + 1 < maxStackSize | _ => True) :
    (step M st b op).below.length = (ghost gs b op).length ∧ (step M st b op).aborted = false := by
  unfold step
  simp only [hna, Bool.false_eq_true, if_false]
  cases op with
  | setPiece sq o n => exact ⟨hl, hna⟩
  | push =>
    have hd' : st.below.length + 1 < maxStackSize := by rw [hl]; exact hd
    simp only [pushState, hd', if_true, ghost, List.length_cons]
    exact ⟨by omega, hna⟩
  | pop =>
    simp only [popState, ghost]
    cases hbl : st.below with
    | nil =>
      have : gs = [] := by
        cases gs with
        | nil => rfl
        | cons g r => rw [hbl] at hl; simp at hl
      subst this
      exact ⟨rfl, hna⟩
    | cons l r =>
      cases gs with
      | nil => rw [hbl] at hl; simp at hl
      | cons g gr => rw [hbl] at hl; simp at hl; exact ⟨hl, hna⟩
  | reset => exact ⟨rfl, hna⟩
  | eval => exact ⟨hl, hna⟩

theorem run_not_aborted {V : Type} [Add V] [Sub V] (M : Net V) (tr : Trace) (st : St V) (b : Board) (gs : List Board)
    (hl : st.below.length = gs.length) (hna : st.aborted = false) (hd : DepthOK gs b tr) :
    (runTr M st b tr).1.aborted = false := by
  induction tr generalizing st b gs with
  | nil => exact hna
  | cons x tr ih =>
    obtain ⟨op, b'⟩ := x
    have h := step_depth M st b gs op hl hna hd.1
    exact ih _ _ _ h.1 h.2 hd.2

end NN
