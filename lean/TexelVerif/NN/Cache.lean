/-! Model of the evaluation cache in `Evaluate::evalPos` (evaluate.cpp / evaluate.hpp), bit for bit:

```
EvalHashData::data            // 0-15: score + 2^15, 16-63: hash key;   initial value 0xffffffffffff0000
ehd = &evalHash[(int)key & (evalHash.size() - 1)];              // size = 2^16
if ((ehd->data ^ key) < (1 << 16)) return (ehd->data & 0xffff) - (1 << 15);
... score = <uncached evaluation> ...
ehd->data = (key & 0xffffffffffff0000ULL) + (score + (1 << 15));
```
`raw p c` stands for the uncached evaluation of position `p` under contempt `c` (a function of `p` and `c` only, by
the refinement theorem and the purity of the remaining code); `key p c` is whatever the code uses as cache key. -/
namespace NN.Cache

def emptyData : Nat := 0xffffffffffff0000
def hiMask : Nat := 0xffffffffffff0000

structure Tbl where
  data : Nat → Nat          -- slot index → 64-bit word

def Tbl.empty : Tbl := ⟨fun _ => emptyData⟩

def index (key : Nat) : Nat := key % 65536
def hit (d key : Nat) : Bool := (d ^^^ key) < 65536
def scoreOf (d : Nat) : Int := ((d &&& 0xffff : Nat) : Int) - 32768
def pack (key : Nat) (score : Int) : Nat := (key &&& hiMask) + (score + 32768).toNat

/-- what the engine evaluates and how it keys the cache -/
structure Sys (P : Type) where
  raw : P → Int → Int
  key : P → Int → Nat

/-- `Evaluate::evalPos<false>()` -/
def evalPos {P} (S : Sys P) (t : Tbl) (p : P) (c : Int) : Tbl × Int :=
  let k := S.key p c
  let d := t.data (index k)
  if hit d k then (t, scoreOf d)
  else (⟨fun i => if i = index k then pack k (S.raw p c) else t.data i⟩, S.raw p c)

/-- a sequence of evaluations (position, contempt in force) sharing one table -/
def runQ {P} (S : Sys P) (t : Tbl) : List (P × Int) → Tbl × List Int
  | [] => (t, [])
  | (p, c) :: qs =>
    let r := evalPos S t p c
    let rest := runQ S r.1 qs
    (rest.1, r.2 :: rest.2)

/-! ### bit facts -/

theorem xor_eq_zero (a b : Nat) (h : a ^^^ b = 0) : a = b := by
  have : a ^^^ (a ^^^ b) = a := by rw [h, Nat.xor_zero]
  rw [← Nat.xor_assoc, Nat.xor_self, Nat.zero_xor] at this
  exact this.symm

theorem hit_iff (d key : Nat) : hit d key = true ↔ d / 65536 = key / 65536 := by
  unfold hit
  simp only [decide_eq_true_eq]
  have e : (d ^^^ key) / 65536 = (d / 65536) ^^^ (key / 65536) := by
    have := @Nat.shiftRight_xor_distrib 16 d key
    simp only [Nat.shiftRight_eq_div_pow] at this
    exact this
  constructor
  · intro h
    have : (d ^^^ key) / 65536 = 0 := Nat.div_eq_of_lt h
    rw [e] at this
    exact xor_eq_zero _ _ this
  · intro h
    have : (d ^^^ key) / 65536 = 0 := by rw [e, h, Nat.xor_self]
    rcases Nat.div_eq_zero_iff.1 this with h | h
    · omega
    · exact h

theorem and_hiMask (k : Nat) (hk : k < 2^64) : k &&& hiMask = (k / 65536) * 65536 := by
  have hm : hiMask = (2^48 - 1) <<< 16 := by decide
  have hr : (k / 65536) * 65536 = (k >>> 16) <<< 16 := by
    rw [Nat.shiftLeft_eq, Nat.shiftRight_eq_div_pow]
  rw [hr, hm]
  apply Nat.eq_of_testBit_eq
  intro i
  rw [Nat.testBit_and, Nat.testBit_shiftLeft, Nat.testBit_shiftLeft, Nat.testBit_two_pow_sub_one, Nat.testBit_shiftRight]
  by_cases h16 : i ≥ 16
  · have e : 16 + (i - 16) = i := by omega
    rw [e]
    by_cases h64 : i - 16 < 48
    · simp [h16, h64]
    · have : k.testBit i = false := by
        apply Nat.testBit_lt_two_pow
        calc k < 2^64 := hk
          _ ≤ 2^i := Nat.pow_le_pow_right (by omega) (by omega)
      simp [this]
  · simp [h16]

theorem pack_spec (k : Nat) (v : Int) (hk : k < 2^64) (h1 : -32768 ≤ v) (h2 : v < 32768) :
    pack k v / 65536 = k / 65536 ∧ scoreOf (pack k v) = v := by
  unfold pack scoreOf
  rw [and_hiMask k hk]
  have hu : (v + 32768).toNat < 65536 := by omega
  have hmask : (0xffff : Nat) = 2^16 - 1 := by decide
  rw [hmask, Nat.and_two_pow_sub_one_eq_mod]
  have hu2 : ((v + 32768).toNat : Int) = v + 32768 := Int.toNat_of_nonneg (by omega)
  generalize (v + 32768).toNat = u at *
  constructor
  · omega
  · have : (k / 65536 * 65536 + u) % 2^16 = u := by omega
    rw [this]; omega

theorem hit_pack (k k' : Nat) (v : Int) (hk : k < 2^64) (h1 : -32768 ≤ v) (h2 : v < 32768)
    (hi : index k = index k') : hit (pack k v) k' = true ↔ k = k' := by
  rw [hit_iff, (pack_spec k v hk h1 h2).1]
  unfold index at hi
  constructor
  · intro h; omega
  · intro h; rw [h]

/-! ### transparency -/

/-- every slot is empty or holds the exact record of one evaluation that was stored under its own key -/
def OK {P} (S : Sys P) (t : Tbl) : Prop :=
  ∀ i, t.data i = emptyData ∨ ∃ p c, index (S.key p c) = i ∧ t.data i = pack (S.key p c) (S.raw p c)

structure Hyp {P} (S : Sys P) : Prop where
  key64 : ∀ p c, S.key p c < 2^64
  range : ∀ p c, -32768 ≤ S.raw p c ∧ S.raw p c < 32768
  /-- no-collision hypothesis: two evaluations that use the same 64-bit cache key have the same value -/
  nocoll : ∀ p c p' c', S.key p c = S.key p' c' → S.raw p c = S.raw p' c'
  /-- no key has all upper 48 bits set (the pattern of a never-written slot) -/
  notEmpty : ∀ p c, S.key p c / 65536 ≠ 2^48 - 1

theorem evalPos_ok {P} (S : Sys P) (H : Hyp S) (t : Tbl) (p : P) (c : Int) (ht : OK S t) :
    (evalPos S t p c).2 = S.raw p c ∧ OK S (evalPos S t p c).1 := by
  unfold evalPos
  simp only
  by_cases hh : hit (t.data (index (S.key p c))) (S.key p c) = true
  · rw [if_pos hh]
    refine ⟨?_, ht⟩
    rcases ht (index (S.key p c)) with he | ⟨p', c', hi, hd⟩
    · rw [he, hit_iff] at hh
      have : emptyData / 65536 = 2^48 - 1 := by decide
      exact absurd (by rw [← hh, this]) (H.notEmpty p c)
    · rw [hd] at hh ⊢
      have r := H.range p' c'
      have hk := (hit_pack (S.key p' c') (S.key p c) (S.raw p' c') (H.key64 p' c') r.1 r.2 hi).1 hh
      rw [(pack_spec _ _ (H.key64 p' c') r.1 r.2).2]
      exact H.nocoll p' c' p c hk
  · rw [if_neg hh]
    refine ⟨rfl, ?_⟩
    intro i
    by_cases hi : i = index (S.key p c)
    · right; exact ⟨p, c, hi.symm, by simp [hi]⟩
    · simp only [hi, if_false]; exact ht i

theorem ok_empty {P} (S : Sys P) : OK S Tbl.empty := fun _ => Or.inl rfl

theorem runQ_ok {P} (S : Sys P) (H : Hyp S) (qs : List (P × Int)) (t : Tbl) (ht : OK S t) :
    (runQ S t qs).2 = qs.map (fun q => S.raw q.1 q.2) := by
  induction qs generalizing t with
  | nil => rfl
  | cons q qs ih =>
    obtain ⟨p, c⟩ := q
    have h := evalPos_ok S H t p c ht
    simp only [runQ, List.map_cons]
    rw [h.1, ih _ h.2]

/-! ### the two keyings -/

/-- `Evaluate::setWhiteContempt` after the repair: the hash of `TranspositionTable::setWhiteContempt` with the low
    16 bits (the table index) cleared -/
def contemptHash (c : Int) : Nat :=
  let h := if c > 0 then (0x9E3779B97DE88147 * c.toNat) % 2^64
    else if c < 0 then (2^64 - 1) - (0x9E3779B97DE88147 * (-c).toNat) % 2^64
    else 0
  h &&& hiMask

/-- repaired code: key = historyHash ^ contemptHash -/
def sysFixed {P} (raw : P → Int → Int) (hist : P → Nat) : Sys P := { raw := raw, key := fun p c => hist p ^^^ contemptHash c }
/-- code before the repair: key = historyHash -/
def sysOld {P} (raw : P → Int → Int) (hist : P → Nat) : Sys P := { raw := raw, key := fun p _ => hist p }

end NN.Cache
