import TexelVerif.NN.Refine
/-! Histories at the level of `Position` (position.cpp): make / unmake / direct `setPiece` / copy-assign /
    null move / evaluate.  Every such history produces a well-formed call trace in the sense of `NN.WF`,
    whatever squares a move rewrites (so the statement does not depend on the move encoding):
    * `makeMove` = `pushState()` first, then one truthful notification per rewritten square;
    * `unMakeMove` = detach evaluator, restore the position saved by the matching `makeMove`, `popState()`;
      that `unMakeMove` restores exactly the earlier position is property C02, here it is the definition of `unmake`;
    * copy construction / assignment / `deSerialize` / `connectPosition` = `forceFullEval()`; the game's own undo
      information survives it, so later take-backs pop an *empty* evaluator stack;
    * a null move (`setWhiteMove`, `setEpSquare`) does not call the evaluator at all.
    Caveat: `unmake` is *defined* as restoring the whole board saved by the matching `make`.  The real `unMakeMove`
    only undoes the move itself, so a direct `setPiece` between a `makeMove` and its `unMakeMove` (which no engine
    code does) makes the real history ill-formed (`OpOK` of the pop fails); the harness rejects such inputs. -/
namespace NN

inductive HOp
  | make (chg : List (Sq × Pc))
  | unmake
  | set (sq : Sq) (p : Pc)
  | assign (b' : Board)
  | null
  | eval

structure Game where
  b : Board
  undo : List Board

def hstep (g : Game) : HOp → Game × Trace
  | .make chg => ({ b := applyChanges g.b chg, undo := g.b :: g.undo }, (Op.push, g.b) :: changesTrace g.b chg)
  | .unmake => match g.undo with
    | u :: r => ({ b := u, undo := r }, [(Op.pop, u)])
    | [] => (g, [])
  | .set sq p => ({ g with b := upd g.b sq p }, [(Op.setPiece sq (g.b sq) p, upd g.b sq p)])
  | .assign b' => ({ g with b := b' }, [(Op.reset, b')])
  | .null => (g, [])
  | .eval => (g, [(Op.eval, g.b)])

def htrace (g : Game) : List HOp → Trace
  | [] => []
  | h :: hs => (hstep g h).2 ++ htrace (hstep g h).1 hs

def hfinal (g : Game) : List HOp → Game
  | [] => g
  | h :: hs => hfinal (hstep g h).1 hs

/-- squares are on the board -/
def HOK : HOp → Prop
  | .make chg => ∀ x ∈ chg, x.1 < 64
  | .set sq _ => sq < 64
  | _ => True

/-- ghost state after a trace -/
def endGhost (b : Board) (gs : List Board) : Trace → Board × List Board
  | [] => (b, gs)
  | (op, b') :: tr => endGhost b' (ghost gs b op) tr

theorem wf_append (b : Board) (gs : List Board) (t1 t2 : Trace) :
    WF b gs (t1 ++ t2) ↔ WF b gs t1 ∧ WF (endGhost b gs t1).1 (endGhost b gs t1).2 t2 := by
  induction t1 generalizing b gs with
  | nil => simp [WF, endGhost]
  | cons x t1 ih =>
    obtain ⟨op, b'⟩ := x
    simp only [List.cons_append, WF, endGhost, ih, and_assoc]

theorem endGhost_append (b : Board) (gs : List Board) (t1 t2 : Trace) :
    endGhost b gs (t1 ++ t2) = endGhost (endGhost b gs t1).1 (endGhost b gs t1).2 t2 := by
  induction t1 generalizing b gs with
  | nil => rfl
  | cons x t1 ih =>
    obtain ⟨op, b'⟩ := x
    simp only [List.cons_append, endGhost]
    exact ih _ _

theorem changes_wf (b : Board) (gs : List Board) (chg : List (Sq × Pc)) (h : ∀ x ∈ chg, x.1 < 64) :
    WF b gs (changesTrace b chg) ∧ endGhost b gs (changesTrace b chg) = (applyChanges b chg, gs) := by
  induction chg generalizing b with
  | nil => exact ⟨trivial, rfl⟩
  | cons x chg ih =>
    obtain ⟨sq, p⟩ := x
    have h1 : sq < 64 := h (sq, p) (by simp)
    have := ih (upd b sq p) (fun y hy => h y (by simp [hy]))
    simp only [changesTrace, WF, endGhost, applyChanges, ghost]
    exact ⟨⟨⟨h1, rfl, rfl⟩, this.1⟩, this.2⟩

/-- the open evaluator pushes are the most recent game moves -/
def Linked (g : Game) (gs : List Board) : Prop := ∃ rest, g.undo = gs ++ rest

theorem hstep_wf (g : Game) (gs : List Board) (h : HOp) (hok : HOK h) (hl : Linked g gs) :
    WF g.b gs (hstep g h).2 ∧ (endGhost g.b gs (hstep g h).2).1 = (hstep g h).1.b ∧
    Linked (hstep g h).1 (endGhost g.b gs (hstep g h).2).2 := by
  obtain ⟨rest, hr⟩ := hl
  cases h with
  | make chg =>
    have := changes_wf g.b (g.b :: gs) chg hok
    simp only [hstep, WF, OpOK, endGhost, ghost, this.1, this.2, and_self, true_and]
    exact ⟨rest, by simp [hr]⟩
  | unmake =>
    simp only [hstep]
    cases hu : g.undo with
    | nil => exact ⟨trivial, rfl, ⟨rest, by simpa [endGhost] using hr⟩⟩
    | cons u r =>
      simp only [WF, OpOK, endGhost, ghost, and_true, true_and]
      cases gs with
      | nil =>
        refine ⟨trivial, ⟨r, rfl⟩⟩
      | cons g0 gs' =>
        rw [hu] at hr
        simp only [List.cons_append, List.cons.injEq] at hr
        refine ⟨hr.1, ⟨rest, ?_⟩⟩
        simp [hr.2]
  | set sq p =>
    simp only [hstep, WF, OpOK, endGhost, ghost, and_true, true_and]
    exact ⟨hok, ⟨rest, hr⟩⟩
  | assign b' =>
    simp only [hstep, WF, OpOK, endGhost, ghost, and_true, true_and]
    exact ⟨g.undo, rfl⟩
  | null => exact ⟨trivial, rfl, ⟨rest, hr⟩⟩
  | eval =>
    simp only [hstep, WF, OpOK, endGhost, ghost, and_true, true_and]
    exact ⟨rest, hr⟩

theorem htrace_wf (hs : List HOp) (g : Game) (gs : List Board) (hok : ∀ h ∈ hs, HOK h) (hl : Linked g gs) :
    WF g.b gs (htrace g hs) ∧ (endGhost g.b gs (htrace g hs)).1 = (hfinal g hs).b := by
  induction hs generalizing g gs with
  | nil => exact ⟨trivial, rfl⟩
  | cons h hs ih =>
    have h1 := hstep_wf g gs h (hok h (by simp)) hl
    simp only [htrace, hfinal, wf_append]
    have h2 := ih (hstep g h).1 _ (fun x hx => hok x (by simp [hx])) h1.2.2
    rw [h1.2.1]
    refine ⟨⟨h1.1, h2.1⟩, ?_⟩
    have e := endGhost_append g.b gs (hstep g h).2 (htrace (hstep g h).1 hs)
    rw [e, h1.2.1]
    exact h2.2

/-- board component of a run = ghost board -/
theorem runTr_board {V : Type} [Add V] [Sub V] (M : Net V) (tr : Trace) (st : St V) (b : Board) (gs : List Board) :
    (runTr M st b tr).2 = (endGhost b gs tr).1 := by
  induction tr generalizing st b gs with
  | nil => rfl
  | cons x tr ih =>
    obtain ⟨op, b'⟩ := x
    simp only [runTr, endGhost]
    exact ih _ _ _

/-- `makeMove`'s rewrites stay on the board for squares on the board (used to discharge `HOK` for real moves) -/
theorem moveChanges_ok (b : Board) (frm to : Sq) (promo : Pc) (hf : frm < 64) (ht : to < 64)
    (hep : to + 8 < 64 ∨ ¬ (b to = 0 ∧ frm % 8 ≠ to % 8 ∧ b frm = 12))
    (hc : frm + 3 < 64 ∨ ¬ (to = frm + 2)) :
    ∀ x ∈ moveChanges b frm to promo, x.1 < 64 := by
  intro x hx
  unfold moveChanges at hx
  simp only at hx
  split at hx
  · simp only [List.mem_append, List.mem_cons, List.mem_nil_iff, or_false] at hx
    rcases hx with hx | hx | hx
    · split at hx
      · split at hx
        · simp only [List.mem_cons, List.mem_nil_iff, or_false] at hx; subst hx
          have : @LT.lt Nat _ (to - 8) 64 := by
            have : @LT.lt Nat _ to 64 := ht
            omega
          exact this
        · simp only [List.mem_cons, List.mem_nil_iff, or_false] at hx; subst hx
          rename_i h1 h2
          simp only [Bool.and_eq_true, beq_iff_eq, bne_iff_ne, ne_eq] at h1
          simp only [beq_iff_eq] at h2
          rcases hep with h | h
          · exact h
          · rename_i h0
            simp only [Bool.or_eq_true, bne_iff_ne, ne_eq, beq_iff_eq] at h0
            exfalso
            apply h
            refine ⟨h1.1, h1.2, ?_⟩
            rcases h0 with (h0 | h0) | h0
            · exact absurd h1.1 h0
            · exact absurd h0 h2
            · exact h0
      · cases hx
    · subst hx; exact hf
    · subst hx; exact ht
  · simp only [List.mem_append, List.mem_cons, List.mem_nil_iff, or_false] at hx
    rcases hx with hx | hx | hx
    · split at hx
      · split at hx
        · rename_i h2
          simp only [beq_iff_eq] at h2
          have hf3 : frm + 3 < 64 := by
            rcases hc with h | h
            · exact h
            · exact absurd h2 h
          simp only [List.mem_cons, List.mem_nil_iff, or_false] at hx
          have hf3' : @LT.lt Nat _ (frm + 3) 64 := hf3
          rcases hx with hx | hx <;> subst hx
          · exact hf3
          · show @LT.lt Nat _ (frm + 1) 64; omega
        · split at hx
          · simp only [List.mem_cons, List.mem_nil_iff, or_false] at hx
            have hf' : @LT.lt Nat _ frm 64 := hf
            rcases hx with hx | hx <;> subst hx
            · show @LT.lt Nat _ (frm - 4) 64; omega
            · show @LT.lt Nat _ (frm - 1) 64; omega
          · cases hx
      · cases hx
    · subst hx; exact hf
    · subst hx; exact ht

end NN
