/-! Lane arithmetic of the SIMD kernels in lib/texellib/nn/vectorop.hpp: on the value ranges that occur in the
    network (activations in [0,127], int8 weights) every SIMD variant computes, lane by lane, exactly what the
    generic fallback computes.  Pure integer facts; the instruction semantics used are quoted at each lemma. -/
namespace NN.Lanes

/-- signed saturation to 16 bits (`_mm*_maddubs_epi16` result lanes) -/
def sat16 (x : Int) : Int := max (-32768) (min 32767 x)
/-- signed saturation to 8 bits (`_mm*_packs_epi16`, `vqshrn_n_s16`) -/
def sat8 (x : Int) : Int := max (-128) (min 127 x)
/-- `clamp(val, lo, hi) = std::min(std::max(val, lo), hi)` (util.hpp) -/
def clamp (x lo hi : Int) : Int := min (max x lo) hi

theorem mul_range (a w : Int) (ha0 : 0 ≤ a) (ha : a ≤ 127) (hw0 : -128 ≤ w) (hw : w ≤ 127) :
    -16256 ≤ a * w ∧ a * w ≤ 16129 := by
  constructor
  · have h1 : a * (-128) ≤ a * w := Int.mul_le_mul_of_nonneg_left hw0 ha0
    omega
  · have h1 : a * w ≤ a * 127 := Int.mul_le_mul_of_nonneg_left hw ha0
    omega

/-- `_mm*_maddubs_epi16(b, a)`: lane = sat16(b[2i]*a[2i] + b[2i+1]*a[2i+1]) with `b` unsigned, `a` signed bytes.
    With activations in [0,127] the saturation never triggers, so the lane is the exact two-term dot product
    of the generic loop `sum += weight(i,j) * in(j)`. -/
theorem maddubs_exact (a0 a1 w0 w1 : Int) (h0 : 0 ≤ a0 ∧ a0 ≤ 127) (h1 : 0 ≤ a1 ∧ a1 ≤ 127)
    (g0 : -128 ≤ w0 ∧ w0 ≤ 127) (g1 : -128 ≤ w1 ∧ w1 ≤ 127) :
    sat16 (a0 * w0 + a1 * w1) = a0 * w0 + a1 * w1 := by
  have r0 := mul_range a0 w0 h0.1 h0.2 g0.1 g0.2
  have r1 := mul_range a1 w1 h1.1 h1.2 g1.1 g1.2
  unfold sat16
  generalize a0 * w0 = p at *
  generalize a1 * w1 = q at *
  omega

/-- the saturation is real: with an activation of 255 (possible for an unsigned byte) the lane differs -/
theorem maddubs_needs_range : sat16 (255 * 127 + 255 * 127) ≠ 255 * 127 + 255 * 127 := by decide

/-- `_mm*_madd_epi16(d, ones16)` after `maddubs`: 32-bit lane = d[2i] + d[2i+1]; together the 4-byte block
    contributes its exact dot product (SSSE3/AVX2 path = `vpdpbusd` of AVX-512 VNNI = generic loop). -/
theorem madd4_exact (a0 a1 a2 a3 w0 w1 w2 w3 : Int)
    (h0 : 0 ≤ a0 ∧ a0 ≤ 127) (h1 : 0 ≤ a1 ∧ a1 ≤ 127) (h2 : 0 ≤ a2 ∧ a2 ≤ 127) (h3 : 0 ≤ a3 ∧ a3 ≤ 127)
    (g0 : -128 ≤ w0 ∧ w0 ≤ 127) (g1 : -128 ≤ w1 ∧ w1 ≤ 127) (g2 : -128 ≤ w2 ∧ w2 ≤ 127) (g3 : -128 ≤ w3 ∧ w3 ≤ 127) :
    sat16 (a0 * w0 + a1 * w1) * 1 + sat16 (a2 * w2 + a3 * w3) * 1 = a0 * w0 + a1 * w1 + a2 * w2 + a3 * w3 ∧
    -65024 ≤ a0 * w0 + a1 * w1 + a2 * w2 + a3 * w3 ∧ a0 * w0 + a1 * w1 + a2 * w2 + a3 * w3 ≤ 64516 := by
  rw [maddubs_exact a0 a1 w0 w1 h0 h1 g0 g1, maddubs_exact a2 a3 w2 w3 h2 h3 g2 g3]
  have r0 := mul_range a0 w0 h0.1 h0.2 g0.1 g0.2
  have r1 := mul_range a1 w1 h1.1 h1.2 g1.1 g1.2
  have r2 := mul_range a2 w2 h2.1 h2.2 g2.1 g2.2
  have r3 := mul_range a3 w3 h3.1 h3.2 g3.1 g3.2
  omega

/-- dot product of a whole row -/
def dot : List Int → List Int → Int
  | a :: as, w :: ws => a * w + dot as ws
  | _, _ => 0

/-- no 32-bit accumulator can overflow: a row of `n` inputs contributes at most 16256·n in absolute value
    (n ≤ 512 in the network ⇒ < 2^23), in whatever order the partial sums are formed. -/
theorem dot_bound (as ws : List Int) (ha : ∀ a ∈ as, 0 ≤ a ∧ a ≤ 127) (hw : ∀ w ∈ ws, -128 ≤ w ∧ w ≤ 127) :
    -16256 * (as.length : Int) ≤ dot as ws ∧ dot as ws ≤ 16256 * (as.length : Int) := by
  induction as generalizing ws with
  | nil => simp [dot]
  | cons a as ih =>
    cases ws with
    | nil => simp only [dot, List.length_cons]; omega
    | cons w ws =>
      have ha' := ha a (by simp)
      have hw' := hw w (by simp)
      have r := mul_range a w ha'.1 ha'.2 hw'.1 hw'.2
      have := ih ws (fun x hx => ha x (by simp [hx])) (fun x hx => hw x (by simp [hx]))
      simp only [dot, List.length_cons]
      generalize a * w = p at *
      omega

/-- `scaleClipPack` / `Layer::forward`: the three SIMD orders of shift, saturating pack and max-with-zero
    (AVX2: `srai, packs, max_epi8`; SSSE3: `srai, max_epi16, packs`; NEON: `vqshrn, vmaxq_s8`) all equal the generic
    `clamp(x >> shift, 0, 127)`. -/
theorem pack_orders (y : Int) :
    max (sat8 y) 0 = clamp y 0 127 ∧ sat8 (max y 0) = clamp y 0 127 := by
  unfold sat8 clamp; omega

theorem pack_shift (x : Int) (s : Nat) :
    max (sat8 (x >>> s)) 0 = clamp (x >>> s) 0 127 ∧ sat8 (max (x >>> s) 0) = clamp (x >>> s) 0 127 ∧
    0 ≤ clamp (x >>> s) 0 127 ∧ clamp (x >>> s) 0 127 ≤ 127 := by
  refine ⟨(pack_orders _).1, (pack_orders _).2, ?_, ?_⟩ <;> unfold clamp <;> omega

/-- arithmetic shift right of a 16-bit lane = floor division (both `_mm*_srai_epi16` and C++ `>>` on a negative
    `S16` promoted to int, as compiled by gcc/clang) -/
theorem srai_is_floor_div (x : Int) (s : Nat) : x >>> s = x / (2 ^ s : Nat) := Int.shiftRight_eq_div_pow x s

/-- byte order after the AVX2 pack: `_mm256_packs_epi16(a, b)` interleaves per 128-bit half, and
    `_mm256_permutevar8x32_epi32(r, idx)` with `idx = _mm256_set_epi32(7,6,3,2,5,4,1,0)` restores element order
    `a[0..15], b[0..15]`.  `packsElem q` = index (in `a ++ b`) of the element stored at byte `q` after the pack. -/
def packsElem (q : Nat) : Nat := if q % 16 < 8 then (q / 16) * 8 + q % 16 else 16 + (q / 16) * 8 + (q % 16 - 8)
def permIdx : List Nat := [0, 1, 4, 5, 2, 3, 6, 7]     -- idx[0..7] (set_epi32 lists the highest element first)
theorem avx2_pack_order : ∀ j, j < 32 → packsElem (permIdx.getD (j / 4) 0 * 4 + j % 4) = j := by decide

/-- `getNonZeroBlocks`: the SIMD variants test a 4-byte block with a signed 32-bit `> 0`, the generic code with
    `!= 0`; for activations in [0,127] the little-endian block value is in [0, 2^31) and the tests agree. -/
theorem nonzero_block (b0 b1 b2 b3 : Int) (h0 : 0 ≤ b0 ∧ b0 ≤ 127) (h1 : 0 ≤ b1 ∧ b1 ≤ 127)
    (h2 : 0 ≤ b2 ∧ b2 ≤ 127) (h3 : 0 ≤ b3 ∧ b3 ≤ 127) :
    let v := b0 + 256 * b1 + 65536 * b2 + 16777216 * b3
    0 ≤ v ∧ v < 2147483648 ∧ (v > 0 ↔ v ≠ 0) ∧ (v = 0 ↔ b0 = 0 ∧ b1 = 0 ∧ b2 = 0 ∧ b3 = 0) := by
  intro v
  refine ⟨by omega, by omega, by omega, by omega⟩

end NN.Lanes
