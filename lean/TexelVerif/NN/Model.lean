/-!
# Executable model of `NNEvaluator`'s incrementally updated first layer (lib/texellib/nn/nneval.{hpp,cpp})

The model is generic in the type `V` of an accumulator (`Vector<S16, n1>` in the code; `Int`, `BitVec 16` or
lane vectors here) and in the first-layer weights `W : Nat → V` (rows of `weight1`), bias and feature index
function.  Control flow never looks at a value of `V`: it depends only on queue lengths and king squares,
exactly as in the C++.

Correspondence (C++ → model):
* `FirstLayerState`                → `FLS V`  (`l1Out`, `toAdd[0..toAddLen)`, `toSub[0..toSubLen)`, `kingSqComputed`)
* `stack.flState[stackTop][c]`     → `St.top`, levels `stackTop-1 … 0` → `St.below` (head = level `stackTop-1`)
* `setPiece`                       → `setPiece`  (per perspective `setPiece1`)
* `computeL1WB`                    → `computeL1WB` (per perspective `flush1`)
* `pushState` / `popState` / `forceFullEval` → same names
* `assert(stackTop < maxStackSize)`→ sticky `aborted` flag
No proofs and no Mathlib in this file: it is linked into the driver executable.
-/
namespace NN

abbrev Sq := Nat            -- 0..63 (a1 = 0, h1 = 7, a8 = 56)
abbrev Pc := Nat            -- piece code of piece.hpp: 0 = EMPTY, 1 = WKING, 2..6 = WQ WR WB WN WP, 7 = BKING, 8..12 = BQ BR BB BN BP
abbrev Board := Sq → Pc     -- `Position::squares`; squares ≥ 64 are never looked at

def isNonKing (p : Pc) : Bool := p != 0 && p != 1 && p != 7

/-- first-layer parameters: `idx white kingSq piece sq` is the row of `weight1` -/
structure Net (V : Type) where
  idx : Bool → Sq → Pc → Sq → Nat
  W : Nat → V
  bias : V

/-- one perspective's incremental state (`NNEvaluator::FirstLayerState`) -/
structure FLS (V : Type) where
  l1 : V
  toAdd : List Nat
  toSub : List Nat
  ksq : Option Sq            -- kingSqComputed; `none` = invalid square

def maxIncr : Nat := 4
def maxStackSize : Nat := 200      -- SearchConst::MAX_SEARCH_DEPTH * 2

/-- `FirstLayerState::clear()`: `l1Out` is left as it is -/
def FLS.clear {V} (s : FLS V) : FLS V := { s with toAdd := [], toSub := [], ksq := none }

def pushSub {V} (s : FLS V) (i : Nat) : FLS V :=
  if s.toSub.length < maxIncr then { s with toSub := s.toSub ++ [i] } else s.clear
def pushAdd {V} (s : FLS V) (i : Nat) : FLS V :=
  if s.toAdd.length < maxIncr then { s with toAdd := s.toAdd ++ [i] } else s.clear

/-- body of the `for c` loop of `NNEvaluator::setPiece` -/
def setPiece1 {V} (N : Net V) (white : Bool) (s : FLS V) (sq : Sq) (oldP newP : Pc) : FLS V :=
  match s.ksq with
  | none => s
  | some k =>
    let s1 := if isNonKing oldP then pushSub s (N.idx white k oldP sq) else s
    match s1.ksq with
    | none => s1                       -- overflow: C++ `continue`
    | some _ => if isNonKing newP then pushAdd s1 (N.idx white k newP sq) else s1

section arith
variable {V : Type} [Add V] [Sub V]

/-- generic fallback of `addSubWeights`, first loop -/
def addRows (N : Net V) (x : V) (l : List Nat) : V := l.foldl (fun a i => a + N.W i) x
/-- generic fallback of `addSubWeights`, second loop -/
def subRows (N : Net V) (x : V) (l : List Nat) : V := l.foldl (fun a i => a - N.W i) x

/-- `addSubWeights(s.l1Out, weight1, s.toAdd, s.toAddLen, s.toSub, s.toSubLen)` -/
def applyPending (N : Net V) (s : FLS V) : V := subRows N (addRows N s.l1 s.toAdd) s.toSub

/-- rows collected by the `while (squares)` loop of `computeL1WB` (ascending squares, kings excluded) -/
def activeFeatures (N : Net V) (white : Bool) (k : Sq) (b : Board) : List Nat :=
  (List.range 64).filterMap fun s => if isNonKing (b s) then some (N.idx white k (b s) s) else none

/-- from-scratch accumulator: `copyVec(l1Out, bias1)` then add every active row -/
def fresh (N : Net V) (white : Bool) (k : Sq) (b : Board) : V :=
  addRows N N.bias (activeFeatures N white k b)

/-- `computeL1WB` for one perspective; `kNow = posP->getKingSq(white)` -/
def flush1 (N : Net V) (white : Bool) (s : FLS V) (kNow : Sq) (b : Board) : FLS V :=
  if s.ksq = some kNow then
    { s with l1 := applyPending N s, toAdd := [], toSub := [] }
  else
    { l1 := fresh N white kNow b, toAdd := [], toSub := [], ksq := some kNow }
end arith

/-- `Position::getKingSq`: lowest square holding the king of that colour (64 if there is none) -/
def kingPc (white : Bool) : Pc := if white then 1 else 7
def findFrom (p : Sq → Bool) : Nat → Sq → Sq
  | 0, s => s
  | n+1, s => if p s then s else findFrom p n (s+1)
def kingSq (white : Bool) (b : Board) : Sq := findFrom (fun s => b s == kingPc white) 64 0

/-- `flState[level][0..1]`: perspective 0 is white -/
structure Lvl (V : Type) where
  w : FLS V
  b : FLS V

def Lvl.get {V} (l : Lvl V) (white : Bool) : FLS V := if white then l.w else l.b
def Lvl.clear {V} (l : Lvl V) : Lvl V := { w := l.w.clear, b := l.b.clear }

structure St (V : Type) where
  top : Lvl V
  below : List (Lvl V)
  aborted : Bool := false

/-- level 0 of the stack -/
def St.bottom {V} (st : St V) : Lvl V :=
  match st.below.getLast? with
  | some l => l
  | none => st.top

/-- `forceFullEval(true)`: `stackTop = 0`, clear both states of level 0 -/
def forceFullEval {V} (st : St V) : St V := { st with top := st.bottom.clear, below := [] }

/-- `NNEvaluator::popState` -/
def popState {V} (st : St V) : St V :=
  match st.below with
  | l :: r => { st with top := l, below := r }
  | [] => forceFullEval st

def setPiece {V} (N : Net V) (st : St V) (sq : Sq) (oldP newP : Pc) : St V :=
  { st with top := { w := setPiece1 N true st.top.w sq oldP newP, b := setPiece1 N false st.top.b sq oldP newP } }

def pending {V} (s : FLS V) : Bool := s.toAdd.length + s.toSub.length > 0

section arith
variable {V : Type} [Add V] [Sub V]

def computeL1WB (N : Net V) (l : Lvl V) (b : Board) : Lvl V :=
  { w := flush1 N true l.w (kingSq true b) b, b := flush1 N false l.b (kingSq false b) b }

/-- `NNEvaluator::pushState`; `b` is the connected position at the time of the call -/
def pushState (N : Net V) (st : St V) (b : Board) : St V :=
  let t1 := if pending st.top.w then computeL1WB N st.top b else st.top
  let t2 := if pending t1.b then computeL1WB N t1 b else t1
  if st.below.length + 1 < maxStackSize then { st with top := t2, below := t2 :: st.below }
  else { st with top := t2, aborted := true }

/-- the part of `NNEvaluator::eval` that concerns the accumulators -/
def evalFlush (N : Net V) (st : St V) (b : Board) : St V := { st with top := computeL1WB N st.top b }

/-- calls the evaluator receives -/
inductive Op
  | setPiece (sq : Sq) (oldP newP : Pc)
  | push
  | pop
  | reset          -- connectPosition / Position copy, assignment, deSerialize: forceFullEval()
  | eval

/-- one call; `b` = contents of the connected position when the call happens -/
def step (N : Net V) (st : St V) (b : Board) (op : Op) : St V :=
  if st.aborted then st else
  match op with
  | .setPiece sq o n => setPiece N st sq o n
  | .push => pushState N st b
  | .pop => popState st
  | .reset => forceFullEval st
  | .eval => evalFlush N st b

/-- accumulator of perspective `white` that `computeL1Out` reads in an `eval()` called now -/
def evalAcc (N : Net V) (st : St V) (b : Board) (white : Bool) : V :=
  ((computeL1WB N st.top b).get white).l1
end arith

/-- a history: each call together with the position contents after it -/
abbrev Trace := List (Op × Board)

section run
variable {V : Type} [Add V] [Sub V] (M : Net V)
def runTr (st : St V) (b : Board) : Trace → St V × Board
  | [] => (st, b)
  | (op, b') :: tr => runTr (step M st b op) b' tr
end run

/-- state of a newly constructed / newly connected evaluator -/
def St.init {V} (x : V) : St V :=
  { top := { w := { l1 := x, toAdd := [], toSub := [], ksq := none }, b := { l1 := x, toAdd := [], toSub := [], ksq := none } },
    below := [] }

def upd (b : Board) (sq : Sq) (p : Pc) : Board := fun s => if s = sq then p else b s

/-! ## The notifications `Position` sends (position.cpp) -/

/-- `Position::makeMove`: the squares it rewrites, in the order the evaluator is notified, with the new contents.
    Capture / pawn branch: [en-passant victim], `clearPiece(from)`, `setPiece(to, promoteTo or p)`;
    otherwise: [castling rook `movePieceNotPawn`], `movePieceNotPawn(from, to)`.
    An en-passant capture is recognised as a pawn moving to another file onto an empty square (for legal moves this is
    `move.to() == prevEpSquare`). -/
def moveChanges (b : Board) (frm to : Sq) (promo : Pc) : List (Sq × Pc) :=
  let p := b frm
  let cap := b to
  if cap != 0 || p == 6 || p == 12 then
    let ep : List (Sq × Pc) :=
      if cap == 0 && frm % 8 != to % 8 then (if p == 6 then [(to - 8, 0)] else [(to + 8, 0)]) else []
    ep ++ [(frm, 0), (to, if promo != 0 then promo else p)]
  else
    let castle : List (Sq × Pc) :=
      if p == 1 || p == 7 then
        (if to == frm + 2 then [(frm + 3, 0), (frm + 1, b (frm + 3))]
         else if to + 2 == frm then [(frm - 4, 0), (frm - 1, b (frm - 4))] else [])
      else []
    castle ++ [(frm, 0), (to, p)]

def applyChanges (b : Board) : List (Sq × Pc) → Board
  | [] => b
  | (sq, p) :: r => applyChanges (upd b sq p) r

/-- the truthful `setPiece` notifications for a list of square rewrites -/
def changesTrace (b : Board) : List (Sq × Pc) → Trace
  | [] => []
  | (sq, p) :: r => (Op.setPiece sq (b sq) p, upd b sq p) :: changesTrace (upd b sq p) r

/-! ## The real feature index (`getIndex` in nneval.cpp) -/

/-- `NNEvaluator::ptValue` (only defined for non-king pieces; others map to 0 like the zero-initialised array) -/
def ptValue (p : Pc) : Nat :=
  if 2 ≤ p ∧ p ≤ 6 then p - 2 else if 8 ≤ p ∧ p ≤ 12 then p - 3 else 0

/-- `getIndex(kSq, pt, sq, white)` with `Square::mirrorX = ^7`, `mirrorY = ^0x38` -/
def getIndex (kSq : Sq) (pt : Nat) (sq : Sq) (white : Bool) : Nat :=
  let kSq := if white then kSq else kSq ^^^ 56
  let pt := if white then pt else (if pt ≥ 5 then pt - 5 else pt + 5)
  let sq := if white then sq else sq ^^^ 56
  let x := kSq % 8
  let y := kSq / 8
  let sq := if x ≥ 4 then sq ^^^ 7 else sq
  let x := if x ≥ 4 then x ^^^ 7 else x
  ((y * 4 + x) * 10 + pt) * 64 + sq

/-- index function of the real evaluator -/
def realIdx (white : Bool) (k : Sq) (p : Pc) (sq : Sq) : Nat := getIndex k (ptValue p) sq white

end NN
