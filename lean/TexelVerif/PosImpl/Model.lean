import TexelVerif.Chess.Spec
import TexelVerif.PosImpl.Bits
/-!
# Executable model of `Position` (position.hpp / position.cpp) — property C02

The essential state of a position is exactly the specification's `Chess.Pos` (board, side to move, castling
mask, en-passant square, the two counters).  `PosImpl` adds every redundant field that the C++ maintains
incrementally: `pieceTypeBB_[1..12]`, `whiteBB_`, `blackBB_`, `hashKey`, `pHashKey`, `matId` and the four
material sums.  The Zobrist tables, the piece values and the `MatId` weights are **parameters** (`Tables`); the
only facts used about them are `psHashKeys[EMPTY][·] = 0` and `materialId[EMPTY] = 0`.

* `fresh T p` is the from-scratch computation of every redundant field (`computeZobristHash`, recount);
  `Inv T s := s = fresh T (abs s)`.
* The primitives (`setPiece`, `clearPiece`, `movePieceNotPawn`, `setEpSquare`, `setCastleMask`, `setWhiteMove`),
  `makeMove` / `unMakeMove` (position.cpp:231-344) and the null-move edit of `Search::negaScout`
  (search.cpp:707-717) follow the C++ statement by statement; the updates of one statement block are regrouped
  *per field* so that every projection of a result reduces by `rfl`.
* Not modelled: `pieceTypeBB_[Piece::EMPTY]` (written by `setPiece`/`clearPiece`, not by `movePieceNotPawn`,
  read by nobody — the check greps for readers), the `NNEvaluator` notifications (C07).
* `matId` is the repaired unsigned 32-bit arithmetic (`BitVec 32`); the signed arithmetic of the original code
  is `MatIdOld` in `PosImpl/MatId.lean`.
* Counters are `Nat` (the reader's acceptance of negative counters is finding C17); squares passed to the
  primitives are `Nat` and must be `< 64` (theorems carry the bound; the C++ would index out of bounds).
-/
namespace PosImpl
open Chess

structure Tables where
  ps : Pc → Nat → BB            -- psHashKeys[piece][square]
  white : BB                    -- whiteHashKey
  castle : Nat → BB             -- castleHashKeys[castleMask]
  ep : Nat → BB                 -- epHashKeys[file + 1], index 0 = no e.p. square
  empty : BB                    -- hashEmpty
  value : Pc → Int              -- ::pieceValue[piece]
  kV : Int                      -- king value (material sums start at -kV)
  mat : Pc → BitVec 32          -- MatId::materialId[piece] (as unsigned)
  ps0 : ∀ s, ps 0 s = 0
  mat0 : mat 0 = 0

structure PosImpl where
  squares : Board
  bb : Vector BB 13             -- pieceTypeBB_[]; index 0 is not modelled (stays 0)
  whiteBB : BB
  blackBB : BB
  whiteMove : Bool
  castleMask : UInt8
  epSquare : Option Sq          -- `none` is Square(-1)
  halfMoveClock : Nat
  fullMoveCounter : Nat
  hashKey : BB
  pHashKey : BB
  matId : BitVec 32
  wMtrl : Int
  bMtrl : Int
  wMtrlPawns : Int
  bMtrlPawns : Int
deriving DecidableEq

structure UndoInfo where
  capturedPiece : Pc
  castleMask : UInt8
  epSquare : Option Sq
  halfMoveClock : Nat
deriving DecidableEq

/-- the essential state -/
def abs (s : PosImpl) : Pos :=
  { b := s.squares, wtm := s.whiteMove, castle := s.castleMask, ep := s.epSquare,
    hmc := s.halfMoveClock, fmc := s.fullMoveCounter }

def getP (b : Board) (sq : Nat) : Pc := b.getD sq 0
def PosImpl.getPiece (s : PosImpl) (sq : Nat) : Pc := getP s.squares sq
def PosImpl.pbb (s : PosImpl) (i : Nat) : BB := s.bb.getD i 0

/-- `Piece::isWhite` (true for EMPTY as well) -/
def pcWhite (p : Pc) : Bool := p < 7
def isPawnPc (p : Pc) : Bool := p == WPAWN || p == BPAWN

/-- index into `epHashKeys` -/
def epIdx (e : Option Sq) : Nat := match e with | none => 0 | some e => e.val % 8 + 1

def mkSqN? (n : Nat) : Option Sq := if h : n < 64 then some ⟨n, h⟩ else none

/-- `pieceTypeBB_[i] = f (pieceTypeBB_[i])`, ignoring index 0 -/
def updBB (v : Vector BB 13) (i : Pc) (f : BB → BB) : Vector BB 13 :=
  if i = 0 then v else v.setIfInBounds i.toNat (f (v.getD i.toNat 0))

/-! ## from-scratch values -/

def freshBB (b : Board) : Vector BB 13 :=
  Vector.ofFn fun (i : Fin 13) => if i.val = 0 then 0 else bbOf fun s => (getP b s).toNat == i.val

def whiteAt (b : Board) (s : Nat) : Bool := getP b s != 0 && pcWhite (getP b s)
def blackAt (b : Board) (s : Nat) : Bool := getP b s != 0 && !pcWhite (getP b s)

def freshHash (T : Tables) (p : Pos) : BB :=
  T.empty ^^^ xorAll (fun s => T.ps (getP p.b s) s) ^^^ (if p.wtm then T.white else 0) ^^^
  T.castle p.castle.toNat ^^^ T.ep (epIdx p.ep)

def freshPHash (T : Tables) (b : Board) : BB :=
  T.empty ^^^ xorAll (fun s => if isPawnPc (getP b s) then T.ps (getP b s) s else 0)

/-- every redundant field recomputed from the board and the flags -/
def fresh (T : Tables) (p : Pos) : PosImpl :=
  { squares := p.b
    bb := freshBB p.b
    whiteBB := bbOf (whiteAt p.b)
    blackBB := bbOf (blackAt p.b)
    whiteMove := p.wtm
    castleMask := p.castle
    epSquare := p.ep
    halfMoveClock := p.hmc
    fullMoveCounter := p.fmc
    hashKey := freshHash T p
    pHashKey := freshPHash T p.b
    matId := sum32 (fun s => T.mat (getP p.b s))
    wMtrl := -T.kV + sumI (fun s => if whiteAt p.b s then T.value (getP p.b s) else 0)
    bMtrl := -T.kV + sumI (fun s => if blackAt p.b s then T.value (getP p.b s) else 0)
    wMtrlPawns := sumI (fun s => if getP p.b s == WPAWN then T.value (getP p.b s) else 0)
    bMtrlPawns := sumI (fun s => if getP p.b s == BPAWN then T.value (getP p.b s) else 0) }

/-- **the invariant**: every redundant field equals its from-scratch recomputation -/
def Inv (T : Tables) (s : PosImpl) : Prop := s = fresh T (abs s)

instance (T : Tables) (s : PosImpl) : Decidable (Inv T s) := by unfold Inv; infer_instance

/-! ## primitives (position.cpp:119-213, 399-418; position.hpp:340-437) -/

/-- `Position::setPiece` -/
def setPiece (T : Tables) (s : PosImpl) (sq : Nat) (pc : Pc) : PosImpl :=
  let removed := s.getPiece sq
  let m := bit sq
  let wR : Bool := removed != 0 && pcWhite removed
  let bR : Bool := removed != 0 && !pcWhite removed
  let wA : Bool := pc != 0 && pcWhite pc
  let bA : Bool := pc != 0 && !pcWhite pc
  { squares := setSq s.squares sq pc
    bb := updBB (updBB s.bb removed (· &&& ~~~m)) pc (· ||| m)
    whiteBB := (let w1 := if wR then s.whiteBB &&& ~~~m else s.whiteBB; if wA then w1 ||| m else w1)
    blackBB := (let b1 := if bR then s.blackBB &&& ~~~m else s.blackBB; if bA then b1 ||| m else b1)
    whiteMove := s.whiteMove
    castleMask := s.castleMask
    epSquare := s.epSquare
    halfMoveClock := s.halfMoveClock
    fullMoveCounter := s.fullMoveCounter
    hashKey := s.hashKey ^^^ T.ps removed sq ^^^ T.ps pc sq
    pHashKey := (let h1 := if removed == WPAWN || removed == BPAWN then s.pHashKey ^^^ T.ps removed sq else s.pHashKey
                 if pc == WPAWN || pc == BPAWN then h1 ^^^ T.ps pc sq else h1)
    matId := s.matId - T.mat removed + T.mat pc
    wMtrl := (let w1 := if wR then s.wMtrl - T.value removed else s.wMtrl; if wA then w1 + T.value pc else w1)
    bMtrl := (let b1 := if bR then s.bMtrl - T.value removed else s.bMtrl; if bA then b1 + T.value pc else b1)
    wMtrlPawns := (let w1 := if removed == WPAWN then s.wMtrlPawns - T.value removed else s.wMtrlPawns
                   if pc == WPAWN then w1 + T.value pc else w1)
    bMtrlPawns := (let b1 := if removed == BPAWN then s.bMtrlPawns - T.value removed else s.bMtrlPawns
                   if pc == BPAWN then b1 + T.value pc else b1) }

/-- `Position::clearPiece` -/
def clearPiece (T : Tables) (s : PosImpl) (sq : Nat) : PosImpl :=
  let removed := s.getPiece sq
  let m := bit sq
  let wR : Bool := removed != 0 && pcWhite removed
  let bR : Bool := removed != 0 && !pcWhite removed
  { squares := setSq s.squares sq 0
    bb := updBB s.bb removed (· &&& ~~~m)
    whiteBB := if wR then s.whiteBB &&& ~~~m else s.whiteBB
    blackBB := if bR then s.blackBB &&& ~~~m else s.blackBB
    whiteMove := s.whiteMove
    castleMask := s.castleMask
    epSquare := s.epSquare
    halfMoveClock := s.halfMoveClock
    fullMoveCounter := s.fullMoveCounter
    hashKey := s.hashKey ^^^ T.ps removed sq
    pHashKey := if removed == WPAWN || removed == BPAWN then s.pHashKey ^^^ T.ps removed sq else s.pHashKey
    matId := s.matId - T.mat removed
    wMtrl := if wR then s.wMtrl - T.value removed else s.wMtrl
    bMtrl := if bR then s.bMtrl - T.value removed else s.bMtrl
    wMtrlPawns := if removed == WPAWN then s.wMtrlPawns - T.value removed else s.wMtrlPawns
    bMtrlPawns := if removed == BPAWN then s.bMtrlPawns - T.value removed else s.bMtrlPawns }

/-- `Position::movePieceNotPawn` (no EMPTY test, no material / pawn-hash update: the caller guarantees a
    non-pawn piece on `from` and an empty `to`) -/
def movePieceNotPawn (T : Tables) (s : PosImpl) (from_ to : Nat) : PosImpl :=
  let piece := s.getPiece from_
  let mF := bit from_
  let mT := bit to
  { squares := setSq (setSq s.squares from_ 0) to piece
    bb := updBB (updBB s.bb piece (· &&& ~~~mF)) piece (· ||| mT)
    whiteBB := if pcWhite piece then (s.whiteBB &&& ~~~mF) ||| mT else s.whiteBB
    blackBB := if pcWhite piece then s.blackBB else (s.blackBB &&& ~~~mF) ||| mT
    whiteMove := s.whiteMove
    castleMask := s.castleMask
    epSquare := s.epSquare
    halfMoveClock := s.halfMoveClock
    fullMoveCounter := s.fullMoveCounter
    hashKey := s.hashKey ^^^ T.ps piece from_ ^^^ T.ps piece to
    pHashKey := s.pHashKey
    matId := s.matId
    wMtrl := s.wMtrl
    bMtrl := s.bMtrl
    wMtrlPawns := s.wMtrlPawns
    bMtrlPawns := s.bMtrlPawns }

/-- `Position::setEpSquare` -/
def setEpSquare (T : Tables) (s : PosImpl) (e : Option Sq) : PosImpl :=
  { s with
    hashKey := if s.epSquare ≠ e then s.hashKey ^^^ T.ep (epIdx s.epSquare) ^^^ T.ep (epIdx e) else s.hashKey
    epSquare := if s.epSquare ≠ e then e else s.epSquare }

/-- `Position::setCastleMask` -/
def setCastleMask (T : Tables) (s : PosImpl) (cm : UInt8) : PosImpl :=
  { s with
    hashKey := if cm ≠ s.castleMask then s.hashKey ^^^ T.castle s.castleMask.toNat ^^^ T.castle cm.toNat else s.hashKey
    castleMask := if cm ≠ s.castleMask then cm else s.castleMask }

/-- `Position::setWhiteMove` -/
def setWhiteMove (T : Tables) (s : PosImpl) (w : Bool) : PosImpl :=
  { s with
    hashKey := if w ≠ s.whiteMove then s.hashKey ^^^ T.white else s.hashKey
    whiteMove := if w ≠ s.whiteMove then w else s.whiteMove }

def setHalfMoveClock (s : PosImpl) (h : Nat) : PosImpl := { s with halfMoveClock := h }
def setFullMoveCounter (s : PosImpl) (f : Nat) : PosImpl := { s with fullMoveCounter := f }

/-- `hashKey ^= x` -/
def xorHash (s : PosImpl) (x : BB) : PosImpl := { s with hashKey := s.hashKey ^^^ x }

/-- `BitBoard::epMaskW[x]` / `epMaskB[x]` (bitBoard.cpp:223-233): the squares beside file `x` on rank 4 / 5 -/
def epMaskW (x : Nat) : BB := (if x > 0 then bit (24 + x - 1) else 0) ||| (if x < 7 then bit (24 + x + 1) else 0)
def epMaskB (x : Nat) : BB := (if x > 0 then bit (32 + x - 1) else 0) ||| (if x < 7 then bit (32 + x + 1) else 0)

/-! ## makeMove / unMakeMove (position.cpp:231-344) -/

/-- the capture-or-pawn-move branch of `makeMove` after `halfMoveClock = 0` -/
def makeCapOrPawn (T : Tables) (s : PosImpl) (m : Mv) (p : Pc) (prevEp : Option Sq) : PosImpl :=
  let from_ := m.f.val
  let to := m.t.val
  let s :=
    if p = WPAWN then
      if to = from_ + 16 then
        if (epMaskW (to % 8) &&& s.pbb 12) ≠ 0 then setEpSquare T s (mkSqN? (from_ + 8)) else s
      else if prevEp = some m.t then clearPiece T s (to - 8)
      else s
    else if p = BPAWN then
      if to + 16 = from_ then
        if (epMaskB (to % 8) &&& s.pbb 6) ≠ 0 then setEpSquare T s (mkSqN? (from_ - 8)) else s
      else if prevEp = some m.t then clearPiece T s (to + 8)
      else s
    else s
  let s := clearPiece T s from_
  setPiece T s to (if m.promo ≠ 0 then m.promo else p)

/-- the quiet non-pawn branch of `makeMove` after `halfMoveClock++` -/
def makeQuiet (T : Tables) (s : PosImpl) (m : Mv) : PosImpl :=
  let from_ := m.f.val
  let to := m.t.val
  let s :=
    if ((s.pbb 1 ||| s.pbb 7) &&& bit from_) ≠ 0 then
      if to = from_ + 2 then movePieceNotPawn T s (from_ + 3) (from_ + 1)
      else if to + 2 = from_ then movePieceNotPawn T s (from_ - 4) (from_ - 1)
      else s
    else s
  movePieceNotPawn T s from_ to

/-- `Position::makeMove` -/
def makeMove (T : Tables) (s : PosImpl) (m : Mv) : PosImpl × UndoInfo :=
  let from_ := m.f.val
  let to := m.t.val
  let ui : UndoInfo := { capturedPiece := s.getPiece to, castleMask := s.castleMask, epSquare := s.epSquare,
                         halfMoveClock := s.halfMoveClock }
  let wtm := s.whiteMove
  let s := xorHash s T.white
  let p := s.getPiece from_
  let capP := s.getPiece to
  let prevEp := s.epSquare
  let s := setEpSquare T s none
  let s :=
    if capP ≠ 0 ∨ ((s.pbb 6 ||| s.pbb 12) &&& bit from_) ≠ 0 then
      makeCapOrPawn T (setHalfMoveClock s 0) m p prevEp
    else
      makeQuiet T (setHalfMoveClock s (s.halfMoveClock + 1)) m
  let s := setCastleMask T s (s.castleMask &&& castleKeep m.f &&& castleKeep m.t)
  ({ s with fullMoveCounter := if wtm then s.fullMoveCounter else s.fullMoveCounter + 1, whiteMove := !wtm }, ui)

/-- `hashKey ^= whiteHashKey; whiteMove = !whiteMove;` -/
def toggleSide (T : Tables) (s : PosImpl) : PosImpl :=
  { s with hashKey := s.hashKey ^^^ T.white, whiteMove := !s.whiteMove }

/-- `Position::unMakeMove` -/
def unMakeMove (T : Tables) (s : PosImpl) (m : Mv) (ui : UndoInfo) : PosImpl :=
  let from_ := m.f.val
  let to := m.t.val
  let s := toggleSide T s
  let p := s.getPiece to
  let s := setPiece T s to ui.capturedPiece
  let s := setPiece T s from_ p
  let s := setCastleMask T s ui.castleMask
  let s := setEpSquare T s ui.epSquare
  let s := setHalfMoveClock s ui.halfMoveClock
  let wtm := s.whiteMove
  let p2 : Pc := if m.promo ≠ 0 then (if wtm then WPAWN else BPAWN) else p
  let s := if m.promo ≠ 0 then setPiece T s from_ p2 else s
  let s := if wtm then s else setFullMoveCounter s (s.fullMoveCounter - 1)
  let king : Pc := if wtm then WKING else BKING
  let s :=
    if p2 = king then
      if to = from_ + 2 then movePieceNotPawn T s (from_ + 1) (from_ + 3)
      else if to + 2 = from_ then movePieceNotPawn T s (from_ - 1) (from_ - 4)
      else s
    else s
  if s.epSquare = some m.t then
    if p2 = WPAWN then setPiece T s (to - 8) BPAWN
    else if p2 = BPAWN then setPiece T s (to + 8) WPAWN
    else s
  else s

/-! ## the null-move edit of `Search::negaScout` (search.cpp:707-717) -/

def nullEdit (T : Tables) (s : PosImpl) : PosImpl × (Option Sq × Nat) :=
  let s := setWhiteMove T s (!s.whiteMove)
  let ep := s.epSquare
  let s := setEpSquare T s none
  let hmc := s.halfMoveClock
  (setHalfMoveClock s 0, (ep, hmc))

def nullUndo (T : Tables) (s : PosImpl) (saved : Option Sq × Nat) : PosImpl :=
  let s := setEpSquare T s saved.1
  let s := setWhiteMove T s (!s.whiteMove)
  setHalfMoveClock s saved.2

/-- copy construction / assignment of `PositionBase` -/
def copy (s : PosImpl) : PosImpl := s

/-! ## king squares (derived: `firstSquare(pieceTypeBB_[KING])`) -/

def firstSquare (b : BB) : Option Nat := (List.range 64).find? fun i => b.getLsbD i
def PosImpl.wKingSq (s : PosImpl) : Option Nat := firstSquare (s.pbb 1)
def PosImpl.bKingSq (s : PosImpl) : Option Nat := firstSquare (s.pbb 7)

/-! ## compact serialisation (position.cpp:420-499) -/

/-- `v = (v << 4) | squares[sq0 + sq]` for sq = 0..15 -/
def packRow (b : Board) (sq0 : Nat) : Nat :=
  (List.range 16).foldl (fun v sq => (v <<< 4) ||| (getP b (sq0 + sq)).toNat) 0

def epByte (e : Option Sq) : Nat := match e with | none => 0xff | some e => e.val

/-- `Position::serialize`: the five 64-bit words (as `Nat`; `serialize_lt` shows that nothing is truncated
    under the stated field-width conditions) -/
def serialize (s : PosImpl) : List Nat :=
  [packRow s.squares 0, packRow s.squares 16, packRow s.squares 32, packRow s.squares 48,
   (((((if s.whiteMove then 1 else 0) <<< 4 ||| s.castleMask.toNat) <<< 8 ||| (epByte s.epSquare &&& 0xff)) <<< 8 |||
      (s.halfMoveClock &&& 0xff)) <<< 16) ||| (s.fullMoveCounter &&& 0xffff)]

/-- nibble `sq` (0..15, most significant first) of a packed row -/
def nibble (v : Nat) (sq : Nat) : Pc := ((v >>> (4 * (15 - sq))) &&& 0xf).toUInt8

/-- the essential state decoded by `Position::deSerialize` -/
def decode (d : List Nat) : Pos :=
  let w (i : Nat) : Nat := d.getD i 0
  let flags := w 4
  let epB := (flags >>> 24) &&& 0xff
  { b := Vector.ofFn fun (i : Fin 64) => nibble (w (i.val / 16)) (i.val % 16)
    fmc := flags &&& 0xffff
    hmc := (flags >>> 16) &&& 0xff
    ep := if epB = 0xff then none else mkSqN? epB
    castle := ((flags >>> 32) &&& 0xf).toUInt8
    wtm := ((flags >>> 36) &&& 1) != 0 }

/-- `Position::deSerialize`: decodes the essential state and recomputes every redundant field in one pass over
    the squares (the accumulation order of the C++ loop differs from `fresh`'s; XOR and + are commutative) -/
def deSerialize (T : Tables) (d : List Nat) : PosImpl := fresh T (decode d)

end PosImpl
