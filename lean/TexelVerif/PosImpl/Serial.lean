import TexelVerif.PosImpl.Model
/-!
# `Position::serialize` / `Position::deSerialize` round trip (position.cpp:420-499) — property C02

* `decode_serialize` : decoding the five words written by `serialize` gives back the essential state, provided
  every field fits its bit field (piece codes < 16, castle mask < 16, half-move clock < 256, full-move counter
  < 65536; the e.p. square needs nothing).
* `deSerialize_serialize` : hence, under the invariant, `deSerialize (serialize s) = s`.
* `serialize_lt` : every word is `< 2^64`, so modelling the `U64` words as `Nat` loses nothing.
* `serialize_hmc_witness`, `serialize_fmc_witness` : the two counter width conditions are necessary.
-/
namespace PosImpl
open Chess

/-! ## base-16 packing -/

/-- the number whose base-16 digits (most significant first) are `g 0 … g (n-1)` -/
def pk (g : Nat → Nat) : Nat → Nat
  | 0 => 0
  | n + 1 => pk g n * 16 + g n

theorem shl_or (a b i : Nat) (h : b < 2 ^ i) : a <<< i ||| b = a * 2 ^ i + b := by
  rw [← Nat.shiftLeft_add_eq_or_of_lt h, Nat.shiftLeft_eq]

theorem foldl_pk (g : Nat → Nat) (hg : ∀ k, g k < 16) (n : Nat) :
    (List.range n).foldl (fun v sq => (v <<< 4) ||| g sq) 0 = pk g n := by
  induction n with
  | zero => rfl
  | succ n ih =>
    rw [List.range_succ, List.foldl_append, ih]
    simp only [List.foldl_cons, List.foldl_nil, pk]
    rw [shl_or _ _ 4 (by have := hg n; omega)]

theorem pk_lt (g : Nat → Nat) (hg : ∀ k, g k < 16) (n : Nat) : pk g n < 16 ^ n := by
  induction n with
  | zero => simp [pk]
  | succ n ih =>
    have := hg n
    simp only [pk, Nat.pow_succ]
    omega

theorem pk_digit (g : Nat → Nat) (hg : ∀ k, g k < 16) (n k : Nat) (hk : k < n) :
    pk g n / 16 ^ (n - 1 - k) % 16 = g k := by
  induction n with
  | zero => omega
  | succ n ih =>
    have hn := hg n
    by_cases h : k = n
    · subst h
      have : k + 1 - 1 - k = 0 := by omega
      simp only [pk, this, Nat.pow_zero, Nat.div_one]
      omega
    · have hk' : k < n := by omega
      have e : n + 1 - 1 - k = (n - 1 - k) + 1 := by omega
      rw [e, Nat.pow_succ, Nat.mul_comm, ← Nat.div_div_eq_div_mul]
      have : pk g (n + 1) / 16 = pk g n := by simp only [pk]; omega
      rw [this]
      exact ih hk'

/-! ## the board words -/

theorem getP_lt64 (b : Board) (n : Nat) (h : n < 64) : getP b n = b[n] := by
  simp [getP, Vector.getD, h]

theorem getP_toNat_lt (b : Board) (hp : ∀ i : Fin 64, b[i] < 16) (n : Nat) : (getP b n).toNat < 16 := by
  by_cases h : n < 64
  · have := hp ⟨n, h⟩
    rw [UInt8.lt_iff_toNat_lt] at this
    rw [getP_lt64 b n h]
    exact this
  · simp [getP, Vector.getD, h]

theorem packRow_eq (b : Board) (hp : ∀ i : Fin 64, b[i] < 16) (sq0 : Nat) :
    packRow b sq0 = pk (fun k => (getP b (sq0 + k)).toNat) 16 :=
  foldl_pk (fun k => (getP b (sq0 + k)).toNat) (fun k => getP_toNat_lt b hp (sq0 + k)) 16

theorem nibble_packRow (b : Board) (hp : ∀ i : Fin 64, b[i] < 16) (sq0 k : Nat) (hk : k < 16) :
    nibble (packRow b sq0) k = getP b (sq0 + k) := by
  have hd := pk_digit (fun k => (getP b (sq0 + k)).toNat) (fun k => getP_toNat_lt b hp (sq0 + k)) 16 k hk
  have e16 : (2 : Nat) ^ (4 * (15 - k)) = 16 ^ (16 - 1 - k) := by
    rw [Nat.pow_mul]
  unfold nibble
  rw [packRow_eq b hp, Nat.shiftRight_eq_div_pow, e16,
    show (0xf : Nat) = 2 ^ 4 - 1 from rfl, Nat.and_two_pow_sub_one_eq_mod]
  show (pk (fun k => (getP b (sq0 + k)).toNat) 16 / 16 ^ (16 - 1 - k) % 16).toUInt8 = _
  rw [hd]
  simp

theorem packRow_lt (b : Board) (hp : ∀ i : Fin 64, b[i] < 16) (sq0 : Nat) : packRow b sq0 < 2 ^ 64 := by
  rw [packRow_eq b hp]
  exact pk_lt _ (fun k => getP_toNat_lt b hp (sq0 + k)) 16

/-! ## the flags word -/

theorem epByte_lt (e : Option Sq) : epByte e < 256 := by
  cases e with
  | none => decide
  | some e => have := e.isLt; simp only [epByte]; omega

theorem ep_roundtrip (e : Option Sq) : (if epByte e = 255 then none else mkSqN? (epByte e)) = e := by
  cases e with
  | none => rfl
  | some e =>
    have h := e.isLt
    show (if e.val = 255 then none else mkSqN? e.val) = some e
    rw [if_neg (by omega)]
    simp [mkSqN?, h]

/-- the flags word in arithmetic form -/
theorem flags_eq (w c e h f : Nat) (hc : c < 16) :
    (((((w <<< 4 ||| c) <<< 8 ||| (e &&& 0xff)) <<< 8 ||| (h &&& 0xff)) <<< 16) ||| (f &&& 0xffff)) =
    (((w * 16 + c) * 256 + e % 256) * 256 + h % 256) * 65536 + f % 65536 := by
  have a1 : e &&& 0xff = e % 256 := Nat.and_two_pow_sub_one_eq_mod e 8
  have a2 : h &&& 0xff = h % 256 := Nat.and_two_pow_sub_one_eq_mod h 8
  have a3 : f &&& 0xffff = f % 65536 := Nat.and_two_pow_sub_one_eq_mod f 16
  rw [a1, a2, a3, shl_or w c 4 (by omega), shl_or _ (e % 256) 8 (by omega), shl_or _ (h % 256) 8 (by omega),
    shl_or _ (f % 65536) 16 (by omega)]

theorem flags_fields (w c e h f : Nat) (hw : w < 2) (hc : c < 16) (he : e < 256) (hh : h < 256) (hf : f < 65536) :
    ((((w * 16 + c) * 256 + e) * 256 + h) * 65536 + f) % 65536 = f ∧
    ((((w * 16 + c) * 256 + e) * 256 + h) * 65536 + f) / 2 ^ 16 % 256 = h ∧
    ((((w * 16 + c) * 256 + e) * 256 + h) * 65536 + f) / 2 ^ 24 % 256 = e ∧
    ((((w * 16 + c) * 256 + e) * 256 + h) * 65536 + f) / 2 ^ 32 % 16 = c ∧
    ((((w * 16 + c) * 256 + e) * 256 + h) * 65536 + f) / 2 ^ 36 % 2 = w := by
  refine ⟨?_, ?_, ?_, ?_, ?_⟩ <;> omega

theorem Pos_ext (p q : Pos) (h1 : p.b = q.b) (h2 : p.wtm = q.wtm) (h3 : p.castle = q.castle) (h4 : p.ep = q.ep)
    (h5 : p.hmc = q.hmc) (h6 : p.fmc = q.fmc) : p = q := by
  cases p; cases q; simp_all

/-! ## the round trip -/

theorem decode_serialize (s : PosImpl) (hp : ∀ i : Fin 64, s.squares[i] < 16) (hc : s.castleMask < 16)
    (hh : s.halfMoveClock < 256) (hf : s.fullMoveCounter < 65536) : decode (serialize s) = abs s := by
  have hc' : s.castleMask.toNat < 16 := UInt8.lt_iff_toNat_lt.mp hc
  have he := epByte_lt s.epSquare
  have hW : (if s.whiteMove = true then 1 else 0 : Nat) < 2 := by split <;> omega
  have hfl := flags_eq (if s.whiteMove then 1 else 0) s.castleMask.toNat (epByte s.epSquare)
    s.halfMoveClock s.fullMoveCounter hc'
  rw [Nat.mod_eq_of_lt he, Nat.mod_eq_of_lt hh, Nat.mod_eq_of_lt hf] at hfl
  have hw4 : (serialize s).getD 4 0 =
      ((((if s.whiteMove = true then 1 else 0) * 16 + s.castleMask.toNat) * 256 + epByte s.epSquare) * 256 +
          s.halfMoveClock) * 65536 + s.fullMoveCounter := by
    simp only [serialize, List.getD_cons_succ, List.getD_cons_zero]
    exact hfl
  obtain ⟨f1, f2, f3, f4, f5⟩ := flags_fields _ _ _ _ _ hW hc' he hh hf
  rw [← hw4] at f1 f2 f3 f4 f5
  have hw : ∀ q, q < 4 → (serialize s).getD q 0 = packRow s.squares (16 * q) := by
    intro q hq
    have : q = 0 ∨ q = 1 ∨ q = 2 ∨ q = 3 := by omega
    rcases this with h | h | h | h <;> subst h <;>
      simp only [serialize, List.getD_cons_succ, List.getD_cons_zero]
  have m16 : ∀ x : Nat, x &&& 65535 = x % 65536 := fun x => Nat.and_two_pow_sub_one_eq_mod x 16
  have m8 : ∀ x : Nat, x &&& 255 = x % 256 := fun x => Nat.and_two_pow_sub_one_eq_mod x 8
  have m4 : ∀ x : Nat, x &&& 15 = x % 16 := fun x => Nat.and_two_pow_sub_one_eq_mod x 4
  have m1 : ∀ x : Nat, x &&& 1 = x % 2 := fun x => Nat.and_two_pow_sub_one_eq_mod x 1
  have hfmc : (decode (serialize s)).fmc = s.fullMoveCounter := by
    show (serialize s).getD 4 0 &&& 65535 = _
    rw [m16, f1]
  have hhmc : (decode (serialize s)).hmc = s.halfMoveClock := by
    show (serialize s).getD 4 0 >>> 16 &&& 255 = _
    rw [m8, Nat.shiftRight_eq_div_pow, f2]
  have hcas : (decode (serialize s)).castle = s.castleMask := by
    show ((serialize s).getD 4 0 >>> 32 &&& 15).toUInt8 = _
    rw [m4, Nat.shiftRight_eq_div_pow, f4]; simp
  have hwtm : (decode (serialize s)).wtm = s.whiteMove := by
    show ((serialize s).getD 4 0 >>> 36 &&& 1 != 0) = _
    rw [m1, Nat.shiftRight_eq_div_pow, f5]
    cases s.whiteMove <;> rfl
  have hep : (decode (serialize s)).ep = s.epSquare := by
    show (if (serialize s).getD 4 0 >>> 24 &&& 255 = 255 then none
          else mkSqN? ((serialize s).getD 4 0 >>> 24 &&& 255)) = _
    rw [m8, Nat.shiftRight_eq_div_pow, f3]
    exact ep_roundtrip s.epSquare
  have hbd : (decode (serialize s)).b = s.squares := by
    show (Vector.ofFn fun (i : Fin 64) => nibble ((serialize s).getD (i.val / 16) 0) (i.val % 16)) = _
    apply Vector.ext
    intro i hi
    rw [Vector.getElem_ofFn]
    show nibble ((serialize s).getD (i / 16) 0) (i % 16) = _
    rw [hw (i / 16) (by omega), nibble_packRow s.squares hp _ _ (by omega),
      show 16 * (i / 16) + i % 16 = i by omega, getP_lt64 _ _ hi]
  exact Pos_ext _ _ hbd hwtm hcas hep hhmc hfmc

theorem deSerialize_serialize (T : Tables) (s : PosImpl) (hI : Inv T s) (hp : ∀ i : Fin 64, s.squares[i] < 16)
    (hc : s.castleMask < 16) (hh : s.halfMoveClock < 256) (hf : s.fullMoveCounter < 65536) :
    deSerialize T (serialize s) = s := by
  unfold deSerialize
  rw [decode_serialize s hp hc hh hf]
  exact hI.symm

/-- the words fit in 64 bits: each board word is 16 nibbles, the flags word uses 37 bits -/
theorem serialize_lt (s : PosImpl) (hp : ∀ i : Fin 64, s.squares[i] < 16) (hc : s.castleMask < 16)
    (hh : s.halfMoveClock < 256) (hf : s.fullMoveCounter < 65536) : ∀ w ∈ serialize s, w < 2 ^ 64 := by
  have hc' : s.castleMask.toNat < 16 := UInt8.lt_iff_toNat_lt.mp hc
  have he := epByte_lt s.epSquare
  have hW : (if s.whiteMove = true then 1 else 0 : Nat) < 2 := by split <;> omega
  have hfl := flags_eq (if s.whiteMove then 1 else 0) s.castleMask.toNat (epByte s.epSquare)
    s.halfMoveClock s.fullMoveCounter hc'
  rw [Nat.mod_eq_of_lt he, Nat.mod_eq_of_lt hh, Nat.mod_eq_of_lt hf] at hfl
  intro w hw
  simp only [serialize, List.mem_cons, List.not_mem_nil, or_false] at hw
  rcases hw with h | h | h | h | h
  · rw [h]; exact packRow_lt _ hp _
  · rw [h]; exact packRow_lt _ hp _
  · rw [h]; exact packRow_lt _ hp _
  · rw [h]; exact packRow_lt _ hp _
  · rw [h, hfl]
    have : ((((if s.whiteMove = true then 1 else 0) * 16 + s.castleMask.toNat) * 256 + epByte s.epSquare) * 256 +
        s.halfMoveClock) * 65536 + s.fullMoveCounter < 2 ^ 37 := by omega
    omega

/-! ## the width conditions are necessary -/

/-- the empty board, Black to move, everything else zero except the two counters -/
def witness (hmc fmc : Nat) : PosImpl :=
  { squares := Vector.replicate 64 0, bb := Vector.replicate 13 0, whiteBB := 0, blackBB := 0, whiteMove := false,
    castleMask := 0, epSquare := none, halfMoveClock := hmc, fullMoveCounter := fmc, hashKey := 0, pHashKey := 0,
    matId := 0, wMtrl := 0, bMtrl := 0, wMtrlPawns := 0, bMtrlPawns := 0 }

/-- a half-move clock of 256 does not survive the round trip (it is masked with `0xff`); every other hypothesis
    of `decode_serialize` holds -/
theorem serialize_hmc_witness :
    (∀ i : Fin 64, (witness 256 1).squares[i] < 16) ∧ (witness 256 1).castleMask < 16 ∧
    (witness 256 1).fullMoveCounter < 65536 ∧ (witness 256 1).halfMoveClock = 256 ∧
    (decode (serialize (witness 256 1))).hmc = 0 ∧ decode (serialize (witness 256 1)) ≠ abs (witness 256 1) := by
  refine ⟨?_, by decide, by decide, rfl, by decide, ?_⟩
  · intro i; simp [witness]
  · intro h
    have := congrArg Pos.hmc h
    revert this; decide

/-- a full-move counter of 65536 does not survive the round trip (it is masked with `0xffff`) -/
theorem serialize_fmc_witness :
    (∀ i : Fin 64, (witness 0 65536).squares[i] < 16) ∧ (witness 0 65536).castleMask < 16 ∧
    (witness 0 65536).halfMoveClock < 256 ∧ (witness 0 65536).fullMoveCounter = 65536 ∧
    (decode (serialize (witness 0 65536))).fmc = 0 ∧
    decode (serialize (witness 0 65536)) ≠ abs (witness 0 65536) := by
  refine ⟨?_, by decide, by decide, rfl, by decide, ?_⟩
  · intro i; simp [witness]
  · intro h
    have := congrArg Pos.fmc h
    revert this; decide

/-- the all-zero tables -/
def T0 : Tables :=
  { ps := fun _ _ => 0, white := 0, castle := fun _ => 0, ep := fun _ => 0, empty := 0, value := fun _ => 0, kV := 0,
    mat := fun _ => 0, ps0 := fun _ => rfl, mat0 := rfl }

theorem witness_inv_hmc : Inv T0 (witness 256 1) := by decide +kernel
theorem witness_inv_fmc : Inv T0 (witness 0 65536) := by decide +kernel

/-- so the round trip `deSerialize_serialize` fails on a state satisfying the invariant once a counter exceeds
    its bit field -/
theorem deSerialize_hmc_witness : deSerialize T0 (serialize (witness 256 1)) ≠ witness 256 1 := by
  intro h
  have := congrArg PosImpl.halfMoveClock h
  revert this
  show ¬ (decode (serialize (witness 256 1))).hmc = 256
  decide

theorem deSerialize_fmc_witness : deSerialize T0 (serialize (witness 0 65536)) ≠ witness 0 65536 := by
  intro h
  have := congrArg PosImpl.fullMoveCounter h
  revert this
  show ¬ (decode (serialize (witness 0 65536))).fmc = 65536
  decide

end PosImpl
