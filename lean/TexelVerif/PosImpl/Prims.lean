import TexelVerif.PosImpl.Model
/-!
Each primitive of `Position` maps "from-scratch state of `p` (with an arbitrary pending XOR `x` on the hash
key)" to "from-scratch state of the edited `p`" (with the same pending XOR).  The pending XOR is what lets
`makeMove` flip the side-to-move key at its start and the flag at its end.
-/
namespace PosImpl
open Chess

theorem getP_eq (b : Board) (k : Nat) (h : k < 64) : getP b k = b[k] := by
  unfold getP
  simp [Vector.getD, h]

theorem getP_oob (b : Board) (k : Nat) (h : ¬ k < 64) : getP b k = 0 := by
  unfold getP
  simp [Vector.getD, h]

theorem getP_setSq (b : Board) (n k : Nat) (v : Pc) (hn : n < 64) :
    getP (setSq b n v) k = if k = n then v else getP b k := by
  by_cases hk : k < 64
  · rw [getP_eq _ _ hk, getP_eq _ _ hk]
    unfold setSq
    rw [Vector.getElem_setIfInBounds]
    by_cases h : k = n
    · subst h; simp
    · have : ¬ n = k := fun e => h e.symm
      simp [h, this]
  · have : ¬ k = n := by omega
    rw [getP_oob _ _ hk, getP_oob _ _ hk]; simp [this]

theorem board_ext (a b : Board) (h : ∀ k, k < 64 → getP a k = getP b k) : a = b := by
  apply Vector.ext
  intro i hi
  have := h i hi
  rwa [getP_eq _ _ hi, getP_eq _ _ hi] at this

theorem PosImpl.ext' {a b : PosImpl} (h1 : a.squares = b.squares) (h2 : a.bb = b.bb) (h3 : a.whiteBB = b.whiteBB)
    (h4 : a.blackBB = b.blackBB) (h5 : a.whiteMove = b.whiteMove) (h6 : a.castleMask = b.castleMask)
    (h7 : a.epSquare = b.epSquare) (h8 : a.halfMoveClock = b.halfMoveClock) (h9 : a.fullMoveCounter = b.fullMoveCounter)
    (h10 : a.hashKey = b.hashKey) (h11 : a.pHashKey = b.pHashKey) (h12 : a.matId = b.matId)
    (h13 : a.wMtrl = b.wMtrl) (h14 : a.bMtrl = b.bMtrl) (h15 : a.wMtrlPawns = b.wMtrlPawns)
    (h16 : a.bMtrlPawns = b.bMtrlPawns) : a = b := by
  cases a; cases b; simp_all

theorem zero_ne_wpawn : ¬ (0 : Pc) = WPAWN := by decide
theorem zero_ne_bpawn : ¬ (0 : Pc) = BPAWN := by decide

/-- `clearPiece` is `setPiece … EMPTY` (uses `psHashKeys[EMPTY] = 0`, `materialId[EMPTY] = 0`) -/
theorem clearPiece_eq_setPiece (T : Tables) (s : PosImpl) (sq : Nat) : clearPiece T s sq = setPiece T s sq 0 := by
  apply PosImpl.ext' <;> simp [clearPiece, setPiece, updBB, T.ps0, T.mat0, pcWhite, zero_ne_wpawn, zero_ne_bpawn]

/-! ### bitboard vector -/

theorem updBB_get (v : Vector BB 13) (i : Pc) (f : BB → BB) (j : Nat) (hj : j < 13) :
    (updBB v i f)[j] = if i ≠ 0 ∧ i.toNat = j then f v[j] else v[j] := by
  unfold updBB
  by_cases h0 : i = 0
  · simp [h0]
  · rw [if_neg h0, Vector.getElem_setIfInBounds]
    by_cases hij : i.toNat = j
    · subst hij
      simp [h0, Vector.getD, hj]
    · simp [h0, hij]

theorem freshBB_get (b : Board) (j : Nat) (hj : j < 13) :
    (freshBB b)[j] = if j = 0 then 0 else bbOf fun s => (getP b s).toNat == j := by
  unfold freshBB
  rw [Vector.getElem_ofFn]

theorem toNat_eq_zero_iff (p : Pc) : p.toNat = 0 ↔ p = 0 := by
  constructor
  · intro h; exact UInt8.toNat_inj.1 (by simpa using h)
  · intro h; subst h; rfl

theorem setPiece_bb (b : Board) (sq : Nat) (pc : Pc) (hs : sq < 64) :
    updBB (updBB (freshBB b) (getP b sq) (· &&& ~~~(bit sq))) pc (· ||| bit sq) = freshBB (setSq b sq pc) := by
  apply Vector.ext
  intro j hj
  rw [updBB_get _ _ _ _ hj, updBB_get _ _ _ _ hj, freshBB_get _ _ hj, freshBB_get _ _ hj]
  by_cases hj0 : j = 0
  · subst hj0
    have h1 : ¬ (pc ≠ 0 ∧ pc.toNat = 0) := fun h => h.1 ((toNat_eq_zero_iff pc).1 h.2)
    have h2 : ¬ (getP b sq ≠ 0 ∧ (getP b sq).toNat = 0) := fun h => h.1 ((toNat_eq_zero_iff _).1 h.2)
    simp [h1, h2]
  · simp only [hj0, if_false]
    apply bb_ext
    intro i hi
    have hnew : ∀ s, getP (setSq b sq pc) s = if s = sq then pc else getP b s := fun s => getP_setSq b sq s pc hs
    have hr0 : ∀ q : Pc, q.toNat = j → q ≠ 0 := fun q hq h0 => hj0 (by rw [← hq, h0]; rfl)
    -- bit i of the intermediate board
    have hb1 : (if getP b sq ≠ 0 ∧ (getP b sq).toNat = j then (bbOf fun s => (getP b s).toNat == j) &&& ~~~(bit sq)
                else bbOf fun s => (getP b s).toNat == j).getLsbD i = (((getP b i).toNat == j) && !decide (i = sq)) := by
      by_cases hr : (getP b sq).toNat = j
      · rw [if_pos ⟨hr0 _ hr, hr⟩, clr_get _ _ _ hi hs, bbOf_get _ _ hi]
      · rw [if_neg (fun h => hr h.2), bbOf_get _ _ hi]
        by_cases his : i = sq
        · subst his; simp [hr]
        · simp [his]
    by_cases hp : pc.toNat = j
    · rw [if_pos ⟨hr0 _ hp, hp⟩, set_get _ _ _ hi hs, hb1, bbOf_get _ _ hi, hnew]
      by_cases his : i = sq
      · simp [his, hp]
      · simp [his]
    · rw [if_neg (fun h => hp h.2), hb1, bbOf_get _ _ hi, hnew]
      by_cases his : i = sq
      · simp [his, hp]
      · simp [his]

/-! ### colour bitboards -/

theorem colour_bb (b : Board) (sq : Nat) (pc : Pc) (hs : sq < 64) (col : Pc → Bool) :
    (let w1 := if (getP b sq != 0 && col (getP b sq)) then bbOf (fun s => getP b s != 0 && col (getP b s)) &&& ~~~(bit sq)
               else bbOf (fun s => getP b s != 0 && col (getP b s))
     if (pc != 0 && col pc) then w1 ||| bit sq else w1) =
    bbOf (fun s => getP (setSq b sq pc) s != 0 && col (getP (setSq b sq pc) s)) := by
  apply bb_ext
  intro i hi
  have hnew : ∀ s, getP (setSq b sq pc) s = if s = sq then pc else getP b s := fun s => getP_setSq b sq s pc hs
  have hb1 : (if (getP b sq != 0 && col (getP b sq)) = true then bbOf (fun s => getP b s != 0 && col (getP b s)) &&& ~~~(bit sq)
               else bbOf (fun s => getP b s != 0 && col (getP b s))).getLsbD i =
             ((getP b i != 0 && col (getP b i)) && !decide (i = sq)) := by
    by_cases hr : (getP b sq != 0 && col (getP b sq)) = true
    · rw [if_pos hr, clr_get _ _ _ hi hs, bbOf_get _ _ hi]
    · rw [if_neg hr, bbOf_get _ _ hi]
      by_cases his : i = sq
      · subst his
        have : (getP b i != 0 && col (getP b i)) = false := by simpa using hr
        simp [this]
      · simp [his]
  simp only []
  by_cases hp : (pc != 0 && col pc) = true
  · rw [if_pos hp, set_get _ _ _ hi hs, hb1, bbOf_get _ _ hi, hnew]
    by_cases his : i = sq
    · simp [his, hp]
    · simp [his]
  · rw [if_neg hp, hb1, bbOf_get _ _ hi, hnew]
    by_cases his : i = sq
    · have : (pc != 0 && col pc) = false := by simpa using hp
      simp [his, this]
    · simp [his]

/-! ### folds -/

theorem hash_upd (T : Tables) (b : Board) (sq : Nat) (pc : Pc) (hs : sq < 64) :
    xorAll (fun s => T.ps (getP (setSq b sq pc) s) s) =
    xorAll (fun s => T.ps (getP b s) s) ^^^ T.ps (getP b sq) sq ^^^ T.ps pc sq := by
  have h := xorAll_upd (fun s => T.ps (getP b s) s) (fun s => T.ps (getP (setSq b sq pc) s) s) sq hs
    (by intro x hx; simp only [getP_setSq b sq x pc hs, if_neg hx])
  rw [h]
  simp only [getP_setSq b sq sq pc hs, if_true]

theorem phash_upd (T : Tables) (b : Board) (sq : Nat) (pc : Pc) (hs : sq < 64) :
    xorAll (fun s => if isPawnPc (getP (setSq b sq pc) s) then T.ps (getP (setSq b sq pc) s) s else 0) =
    xorAll (fun s => if isPawnPc (getP b s) then T.ps (getP b s) s else 0) ^^^
      (if isPawnPc (getP b sq) then T.ps (getP b sq) sq else 0) ^^^ (if isPawnPc pc then T.ps pc sq else 0) := by
  have h := xorAll_upd (fun s => if isPawnPc (getP b s) then T.ps (getP b s) s else 0)
    (fun s => if isPawnPc (getP (setSq b sq pc) s) then T.ps (getP (setSq b sq pc) s) s else 0) sq hs
    (by intro x hx; simp only [getP_setSq b sq x pc hs, if_neg hx])
  rw [h]
  simp only [getP_setSq b sq sq pc hs, if_true]

theorem mat_upd (T : Tables) (b : Board) (sq : Nat) (pc : Pc) (hs : sq < 64) :
    sum32 (fun s => T.mat (getP (setSq b sq pc) s)) =
    sum32 (fun s => T.mat (getP b s)) - T.mat (getP b sq) + T.mat pc := by
  have h := sum32_upd (fun s => T.mat (getP b s)) (fun s => T.mat (getP (setSq b sq pc) s)) sq hs
    (by intro x hx; simp only [getP_setSq b sq x pc hs, if_neg hx])
  rw [h]
  simp only [getP_setSq b sq sq pc hs, if_true]

theorem sum_upd (T : Tables) (b : Board) (sq : Nat) (pc : Pc) (hs : sq < 64) (sel : Pc → Bool) :
    sumI (fun s => if sel (getP (setSq b sq pc) s) then T.value (getP (setSq b sq pc) s) else 0) =
    sumI (fun s => if sel (getP b s) then T.value (getP b s) else 0) -
      (if sel (getP b sq) then T.value (getP b sq) else 0) + (if sel pc then T.value pc else 0) := by
  have h := sumI_upd (fun s => if sel (getP b s) then T.value (getP b s) else 0)
    (fun s => if sel (getP (setSq b sq pc) s) then T.value (getP (setSq b sq pc) s) else 0) sq hs
    (by intro x hx; simp only [getP_setSq b sq x pc hs, if_neg hx])
  rw [h]
  simp only [getP_setSq b sq sq pc hs, if_true]

theorem mtrl_field (T : Tables) (b : Board) (sq : Nat) (pc : Pc) (hs : sq < 64) (sel : Pc → Bool) (k : Int) :
    (let w1 := if sel (getP b sq) then (k + sumI (fun s => if sel (getP b s) then T.value (getP b s) else 0)) - T.value (getP b sq)
               else (k + sumI (fun s => if sel (getP b s) then T.value (getP b s) else 0))
     if sel pc then w1 + T.value pc else w1) =
    k + sumI (fun s => if sel (getP (setSq b sq pc) s) then T.value (getP (setSq b sq pc) s) else 0) := by
  rw [sum_upd T b sq pc hs sel]
  cases h1 : sel (getP b sq) <;> cases h2 : sel pc <;> simp <;> omega

theorem mtrl_field0 (T : Tables) (b : Board) (sq : Nat) (pc : Pc) (hs : sq < 64) (sel : Pc → Bool) :
    (let w1 := if sel (getP b sq) then (sumI (fun s => if sel (getP b s) then T.value (getP b s) else 0)) - T.value (getP b sq)
               else (sumI (fun s => if sel (getP b s) then T.value (getP b s) else 0))
     if sel pc then w1 + T.value pc else w1) =
    sumI (fun s => if sel (getP (setSq b sq pc) s) then T.value (getP (setSq b sq pc) s) else 0) := by
  have := mtrl_field T b sq pc hs sel 0
  simpa using this

/-! ### the primitives on from-scratch states -/

def Pos.withB (p : Pos) (b : Board) : Pos := { p with b := b }

theorem setPiece_fresh (T : Tables) (p : Pos) (x : BB) (sq : Nat) (pc : Pc) (hs : sq < 64) :
    setPiece T (xorHash (fresh T p) x) sq pc = xorHash (fresh T (Pos.withB p (setSq p.b sq pc))) x := by
  apply PosImpl.ext'
  · rfl
  · exact setPiece_bb p.b sq pc hs
  · exact colour_bb p.b sq pc hs pcWhite
  · exact colour_bb p.b sq pc hs (fun q => !pcWhite q)
  · rfl
  · rfl
  · rfl
  · rfl
  · rfl
  · show ((freshHash T p ^^^ x) ^^^ T.ps (getP p.b sq) sq ^^^ T.ps pc sq) = freshHash T (Pos.withB p (setSq p.b sq pc)) ^^^ x
    unfold freshHash Pos.withB
    simp only [hash_upd T p.b sq pc hs]
    ac_rfl
  · show (let h1 := if (getP p.b sq == WPAWN || getP p.b sq == BPAWN) then freshPHash T p.b ^^^ T.ps (getP p.b sq) sq else freshPHash T p.b
          if (pc == WPAWN || pc == BPAWN) then h1 ^^^ T.ps pc sq else h1) = freshPHash T (setSq p.b sq pc)
    unfold freshPHash
    rw [phash_upd T p.b sq pc hs]
    unfold isPawnPc
    cases h1 : (getP p.b sq == WPAWN || getP p.b sq == BPAWN) <;>
    cases h2 : (pc == WPAWN || pc == BPAWN) <;> simp [BitVec.xor_assoc]
  · exact (mat_upd T p.b sq pc hs).symm
  · exact mtrl_field T p.b sq pc hs (fun q => q != 0 && pcWhite q) (-T.kV)
  · exact mtrl_field T p.b sq pc hs (fun q => q != 0 && !pcWhite q) (-T.kV)
  · exact mtrl_field0 T p.b sq pc hs (fun q => q == WPAWN)
  · exact mtrl_field0 T p.b sq pc hs (fun q => q == BPAWN)

theorem clearPiece_fresh (T : Tables) (p : Pos) (x : BB) (sq : Nat) (hs : sq < 64) :
    clearPiece T (xorHash (fresh T p) x) sq = xorHash (fresh T (Pos.withB p (setSq p.b sq 0))) x := by
  rw [clearPiece_eq_setPiece, setPiece_fresh T p x sq 0 hs]

/-- `movePieceNotPawn` is "clear `from`, put the piece on `to`" whenever its calling convention holds:
    a non-empty, non-pawn piece on `from` and an empty `to` -/
theorem movePieceNotPawn_eq (T : Tables) (s : PosImpl) (f t : Nat)
    (hne : s.getPiece f ≠ 0) (hnp : isPawnPc (s.getPiece f) = false) (hte : getP (setSq s.squares f 0) t = 0) :
    movePieceNotPawn T s f t = setPiece T (clearPiece T s f) t (s.getPiece f) := by
  have hw : s.getPiece f ≠ WPAWN := by
    intro h; rw [h] at hnp; exact absurd hnp (by decide)
  have hb : s.getPiece f ≠ BPAWN := by
    intro h; rw [h] at hnp; exact absurd hnp (by decide)
  have hrem : (clearPiece T s f).getPiece t = 0 := hte
  apply PosImpl.ext'
  · rfl
  · show updBB (updBB s.bb (s.getPiece f) (· &&& ~~~(bit f))) (s.getPiece f) (· ||| bit t) =
      updBB (updBB (updBB s.bb (s.getPiece f) (· &&& ~~~(bit f))) ((clearPiece T s f).getPiece t) (· &&& ~~~(bit t))) (s.getPiece f) (· ||| bit t)
    rw [hrem]; simp [updBB]
  · show (if pcWhite (s.getPiece f) then (s.whiteBB &&& ~~~(bit f)) ||| bit t else s.whiteBB) =
      (let w1 := if ((clearPiece T s f).getPiece t != 0 && pcWhite ((clearPiece T s f).getPiece t)) then (clearPiece T s f).whiteBB &&& ~~~(bit t) else (clearPiece T s f).whiteBB
       if (s.getPiece f != 0 && pcWhite (s.getPiece f)) then w1 ||| bit t else w1)
    rw [hrem]
    show _ = (if (s.getPiece f != 0 && pcWhite (s.getPiece f)) then (if (s.getPiece f != 0 && pcWhite (s.getPiece f)) then s.whiteBB &&& ~~~(bit f) else s.whiteBB) ||| bit t else (if (s.getPiece f != 0 && pcWhite (s.getPiece f)) then s.whiteBB &&& ~~~(bit f) else s.whiteBB))
    cases h : pcWhite (s.getPiece f) <;> simp [hne]
  · show (if pcWhite (s.getPiece f) then s.blackBB else (s.blackBB &&& ~~~(bit f)) ||| bit t) =
      (let w1 := if ((clearPiece T s f).getPiece t != 0 && !pcWhite ((clearPiece T s f).getPiece t)) then (clearPiece T s f).blackBB &&& ~~~(bit t) else (clearPiece T s f).blackBB
       if (s.getPiece f != 0 && !pcWhite (s.getPiece f)) then w1 ||| bit t else w1)
    rw [hrem]
    show _ = (if (s.getPiece f != 0 && !pcWhite (s.getPiece f)) then (if (s.getPiece f != 0 && !pcWhite (s.getPiece f)) then s.blackBB &&& ~~~(bit f) else s.blackBB) ||| bit t else (if (s.getPiece f != 0 && !pcWhite (s.getPiece f)) then s.blackBB &&& ~~~(bit f) else s.blackBB))
    cases h : pcWhite (s.getPiece f) <;> simp [hne]
  · rfl
  · rfl
  · rfl
  · rfl
  · rfl
  · show s.hashKey ^^^ T.ps (s.getPiece f) f ^^^ T.ps (s.getPiece f) t =
      (s.hashKey ^^^ T.ps (s.getPiece f) f) ^^^ T.ps ((clearPiece T s f).getPiece t) t ^^^ T.ps (s.getPiece f) t
    rw [hrem, T.ps0]; simp
  · show s.pHashKey = (let h1 := if ((clearPiece T s f).getPiece t == WPAWN || (clearPiece T s f).getPiece t == BPAWN) then (clearPiece T s f).pHashKey ^^^ T.ps ((clearPiece T s f).getPiece t) t else (clearPiece T s f).pHashKey
          if (s.getPiece f == WPAWN || s.getPiece f == BPAWN) then h1 ^^^ T.ps (s.getPiece f) t else h1)
    rw [hrem]
    show s.pHashKey = (if (s.getPiece f == WPAWN || s.getPiece f == BPAWN) then _ else (if ((0:Pc) == WPAWN || (0:Pc) == BPAWN) then _ else (if (s.getPiece f == WPAWN || s.getPiece f == BPAWN) then _ else s.pHashKey)))
    simp [hw, hb, zero_ne_wpawn, zero_ne_bpawn]
  · show s.matId = (s.matId - T.mat (s.getPiece f)) - T.mat ((clearPiece T s f).getPiece t) + T.mat (s.getPiece f)
    rw [hrem, T.mat0]
    have : ∀ a : BitVec 32, a - 0 = a := fun a => BitVec.sub_zero a
    rw [this, BitVec.sub_add_cancel]
  · show s.wMtrl = (let w1 := if ((clearPiece T s f).getPiece t != 0 && pcWhite ((clearPiece T s f).getPiece t)) then (clearPiece T s f).wMtrl - T.value ((clearPiece T s f).getPiece t) else (clearPiece T s f).wMtrl
          if (s.getPiece f != 0 && pcWhite (s.getPiece f)) then w1 + T.value (s.getPiece f) else w1)
    rw [hrem]
    show s.wMtrl = (if (s.getPiece f != 0 && pcWhite (s.getPiece f)) then (if ((0:Pc) != 0 && pcWhite 0) then _ else (if (s.getPiece f != 0 && pcWhite (s.getPiece f)) then s.wMtrl - T.value (s.getPiece f) else s.wMtrl)) + T.value (s.getPiece f) else (if ((0:Pc) != 0 && pcWhite 0) then _ else (if (s.getPiece f != 0 && pcWhite (s.getPiece f)) then s.wMtrl - T.value (s.getPiece f) else s.wMtrl)))
    cases h : pcWhite (s.getPiece f) <;> simp [hne]
  · show s.bMtrl = (let w1 := if ((clearPiece T s f).getPiece t != 0 && !pcWhite ((clearPiece T s f).getPiece t)) then (clearPiece T s f).bMtrl - T.value ((clearPiece T s f).getPiece t) else (clearPiece T s f).bMtrl
          if (s.getPiece f != 0 && !pcWhite (s.getPiece f)) then w1 + T.value (s.getPiece f) else w1)
    rw [hrem]
    show s.bMtrl = (if (s.getPiece f != 0 && !pcWhite (s.getPiece f)) then (if ((0:Pc) != 0 && !pcWhite 0) then _ else (if (s.getPiece f != 0 && !pcWhite (s.getPiece f)) then s.bMtrl - T.value (s.getPiece f) else s.bMtrl)) + T.value (s.getPiece f) else (if ((0:Pc) != 0 && !pcWhite 0) then _ else (if (s.getPiece f != 0 && !pcWhite (s.getPiece f)) then s.bMtrl - T.value (s.getPiece f) else s.bMtrl)))
    cases h : pcWhite (s.getPiece f) <;> simp [hne]
  · show s.wMtrlPawns = (let w1 := if ((clearPiece T s f).getPiece t == WPAWN) then (clearPiece T s f).wMtrlPawns - T.value ((clearPiece T s f).getPiece t) else (clearPiece T s f).wMtrlPawns
          if (s.getPiece f == WPAWN) then w1 + T.value (s.getPiece f) else w1)
    rw [hrem]
    show s.wMtrlPawns = (if (s.getPiece f == WPAWN) then _ else (if ((0:Pc) == WPAWN) then _ else (if (s.getPiece f == WPAWN) then _ else s.wMtrlPawns)))
    simp [hw, zero_ne_wpawn]
  · show s.bMtrlPawns = (let w1 := if ((clearPiece T s f).getPiece t == BPAWN) then (clearPiece T s f).bMtrlPawns - T.value ((clearPiece T s f).getPiece t) else (clearPiece T s f).bMtrlPawns
          if (s.getPiece f == BPAWN) then w1 + T.value (s.getPiece f) else w1)
    rw [hrem]
    show s.bMtrlPawns = (if (s.getPiece f == BPAWN) then _ else (if ((0:Pc) == BPAWN) then _ else (if (s.getPiece f == BPAWN) then _ else s.bMtrlPawns)))
    simp [hb, zero_ne_bpawn]

theorem movePieceNotPawn_fresh (T : Tables) (p : Pos) (x : BB) (f t : Nat) (hf : f < 64) (ht : t < 64)
    (hne : getP p.b f ≠ 0) (hnp : isPawnPc (getP p.b f) = false) (hte : getP p.b t = 0) (hft : f ≠ t) :
    movePieceNotPawn T (xorHash (fresh T p) x) f t =
      xorHash (fresh T (Pos.withB p (setSq (setSq p.b f 0) t (getP p.b f)))) x := by
  have h1 : getP (setSq p.b f 0) t = 0 := by
    rw [getP_setSq _ _ _ _ hf, if_neg (fun h => hft h.symm)]; exact hte
  rw [movePieceNotPawn_eq T (xorHash (fresh T p) x) f t hne hnp h1, clearPiece_fresh T p x f hf,
    setPiece_fresh T _ x t _ ht]
  rfl

theorem setEpSquare_fresh (T : Tables) (p : Pos) (x : BB) (e : Option Sq) :
    setEpSquare T (xorHash (fresh T p) x) e = xorHash (fresh T { p with ep := e }) x := by
  by_cases h : p.ep = e
  · subst h
    apply PosImpl.ext' <;> simp [setEpSquare, xorHash, fresh]
  · apply PosImpl.ext' <;> simp [setEpSquare, xorHash, fresh, h, freshHash]
    have : ∀ a b c d x e1 e2 : BB, a ^^^ b ^^^ c ^^^ d ^^^ e1 ^^^ x ^^^ e1 ^^^ e2 = a ^^^ b ^^^ c ^^^ d ^^^ e2 ^^^ x := by
      intro a b c d x e1 e2
      calc a ^^^ b ^^^ c ^^^ d ^^^ e1 ^^^ x ^^^ e1 ^^^ e2 = a ^^^ b ^^^ c ^^^ d ^^^ e2 ^^^ x ^^^ (e1 ^^^ e1) := by ac_rfl
        _ = _ := by rw [BitVec.xor_self, BitVec.xor_zero]
    exact this _ _ _ _ _ _ _

theorem setCastleMask_fresh (T : Tables) (p : Pos) (x : BB) (cm : UInt8) :
    setCastleMask T (xorHash (fresh T p) x) cm = xorHash (fresh T { p with castle := cm }) x := by
  by_cases h : cm = p.castle
  · subst h
    apply PosImpl.ext' <;> simp [setCastleMask, xorHash, fresh]
  · apply PosImpl.ext' <;> simp [setCastleMask, xorHash, fresh, h, freshHash]
    have : ∀ a b c d x e1 e2 : BB, a ^^^ b ^^^ c ^^^ e1 ^^^ d ^^^ x ^^^ e1 ^^^ e2 = a ^^^ b ^^^ c ^^^ e2 ^^^ d ^^^ x := by
      intro a b c d x e1 e2
      calc a ^^^ b ^^^ c ^^^ e1 ^^^ d ^^^ x ^^^ e1 ^^^ e2 = a ^^^ b ^^^ c ^^^ e2 ^^^ d ^^^ x ^^^ (e1 ^^^ e1) := by ac_rfl
        _ = _ := by rw [BitVec.xor_self, BitVec.xor_zero]
    exact this _ _ _ _ _ _ _

theorem xor_white_flip (T : Tables) (w : Bool) :
    (if w then T.white else 0) ^^^ T.white = (if !w then T.white else 0) := by
  cases w <;> simp

theorem flip_end (a w c d x : BB) (b : Bool) :
    (a ^^^ if b = true then w else 0#64) ^^^ c ^^^ d ^^^ x ^^^ w = (a ^^^ if b = false then w else 0#64) ^^^ c ^^^ d ^^^ x := by
  cases b
  · simp; ac_rfl
  · simp
    calc a ^^^ w ^^^ c ^^^ d ^^^ x ^^^ w = a ^^^ c ^^^ d ^^^ x ^^^ (w ^^^ w) := by ac_rfl
      _ = _ := by rw [BitVec.xor_self, BitVec.xor_zero]

/-- `hashKey ^= whiteHashKey; whiteMove = !whiteMove` -/
theorem toggleSide_fresh (T : Tables) (p : Pos) (x : BB) :
    toggleSide T (xorHash (fresh T p) x) = xorHash (fresh T { p with wtm := !p.wtm }) x := by
  apply PosImpl.ext' <;> simp [toggleSide, xorHash, fresh, freshHash]
  exact flip_end _ _ _ _ _ _

theorem setWhiteMove_fresh (T : Tables) (p : Pos) (x : BB) (w : Bool) :
    setWhiteMove T (xorHash (fresh T p) x) w = xorHash (fresh T { p with wtm := w }) x := by
  by_cases h : w = p.wtm
  · subst h
    apply PosImpl.ext' <;> simp [setWhiteMove, xorHash, fresh]
  · have hw : w = !p.wtm := by cases w <;> cases hp : p.wtm <;> simp_all
    subst hw
    rw [← toggleSide_fresh]
    apply PosImpl.ext' <;> simp [setWhiteMove, toggleSide, xorHash, fresh]

theorem setHalfMoveClock_fresh (T : Tables) (p : Pos) (x : BB) (h : Nat) :
    setHalfMoveClock (xorHash (fresh T p) x) h = xorHash (fresh T { p with hmc := h }) x := by
  apply PosImpl.ext' <;> rfl

theorem setFullMoveCounter_fresh (T : Tables) (p : Pos) (x : BB) (h : Nat) :
    setFullMoveCounter (xorHash (fresh T p) x) h = xorHash (fresh T { p with fmc := h }) x := by
  apply PosImpl.ext' <;> rfl

theorem xorHash_zero (s : PosImpl) : xorHash s 0 = s := by
  cases s; simp [xorHash]

theorem xorHash_xorHash (s : PosImpl) (x y : BB) : xorHash (xorHash s x) y = xorHash s (x ^^^ y) := by
  cases s; simp [xorHash, BitVec.xor_assoc]

/-- finishing `makeMove`: the pending side-to-move key is absorbed when the flag is flipped -/
theorem finish_fresh (T : Tables) (p : Pos) (w : Bool) (fm : Nat) (hw : p.wtm = w) :
    ({ xorHash (fresh T p) T.white with fullMoveCounter := fm, whiteMove := !w } : PosImpl) =
      fresh T { p with wtm := !w, fmc := fm } := by
  subst hw
  apply PosImpl.ext' <;> simp [xorHash, fresh, freshHash]
  have := flip_end (T.empty ^^^ xorAll fun s => T.ps (getP p.b s) s) T.white (T.castle p.castle.toNat) (T.ep (epIdx p.ep)) 0 p.wtm
  simpa using this

/-! ### reading a from-scratch state -/

@[simp] theorem getPiece_fresh (T : Tables) (p : Pos) (x : BB) (n : Nat) :
    (xorHash (fresh T p) x).getPiece n = getP p.b n := rfl

theorem pbb_fresh (T : Tables) (p : Pos) (x : BB) (j : Nat) (hj : j < 13) (hj0 : j ≠ 0) :
    (xorHash (fresh T p) x).pbb j = bbOf fun s => (getP p.b s).toNat == j := by
  show (freshBB p.b).getD j 0 = _
  have : (freshBB p.b).getD j 0 = (freshBB p.b)[j] := by simp [Vector.getD, hj]
  rw [this, freshBB_get _ _ hj, if_neg hj0]

theorem and_bit_ne_zero (a : BB) (n : Nat) (hn : n < 64) : (a &&& bit n ≠ 0) ↔ a.getLsbD n = true := by
  constructor
  · intro h
    by_cases hb : a.getLsbD n = true
    · exact hb
    · exfalso; apply h
      apply bb_ext
      intro i hi
      rw [BitVec.getLsbD_and, bit_get _ _ hi hn]
      by_cases hin : i = n
      · subst hin; simp at hb; simp [hb]
      · simp [hin]
  · intro h h0
    have : (a &&& bit n).getLsbD n = true := by
      rw [BitVec.getLsbD_and, bit_get _ _ hn hn, h]; simp
    rw [h0] at this; simp at this

theorem or_ne_zero (a b : BB) : (a ||| b ≠ 0) ↔ (a ≠ 0 ∨ b ≠ 0) := by
  constructor
  · intro h
    by_cases ha : a = 0
    · right; intro hb; apply h; rw [ha, hb]; simp
    · left; exact ha
  · intro h h0
    have h1 : a = 0 := by
      apply bb_ext; intro i _
      have : (a ||| b).getLsbD i = false := by rw [h0]; simp
      rw [BitVec.getLsbD_or] at this
      simp at this ⊢; exact this.1
    have h2 : b = 0 := by
      apply bb_ext; intro i _
      have : (a ||| b).getLsbD i = false := by rw [h0]; simp
      rw [BitVec.getLsbD_or] at this
      simp at this ⊢; exact this.2
    rcases h with h | h
    · exact h h1
    · exact h h2

/-- `(pieceTypeBB(a, b) & (1ULL << n)) != 0` on a from-scratch state -/
theorem bb2_test (T : Tables) (p : Pos) (x : BB) (a b : Nat) (ha : a < 13) (hb : b < 13) (ha0 : a ≠ 0) (hb0 : b ≠ 0)
    (n : Nat) (hn : n < 64) :
    (((xorHash (fresh T p) x).pbb a ||| (xorHash (fresh T p) x).pbb b) &&& bit n ≠ 0) ↔
      ((getP p.b n).toNat = a ∨ (getP p.b n).toNat = b) := by
  rw [and_bit_ne_zero _ _ hn, BitVec.getLsbD_or, pbb_fresh T p x a ha ha0, pbb_fresh T p x b hb hb0,
    bbOf_get _ _ hn, bbOf_get _ _ hn]
  simp

/-- `(mask & pieceTypeBB(a)) != 0` for a two-square mask -/
theorem mask_test (T : Tables) (p : Pos) (x : BB) (a : Nat) (ha : a < 13) (ha0 : a ≠ 0) (i j : Nat) (hi : i < 64) (hj : j < 64)
    (ci cj : Prop) [Decidable ci] [Decidable cj] :
    ((((if ci then bit i else 0) ||| (if cj then bit j else 0)) &&& (xorHash (fresh T p) x).pbb a) ≠ 0) ↔
      ((ci ∧ (getP p.b i).toNat = a) ∨ (cj ∧ (getP p.b j).toNat = a)) := by
  have hd : ∀ m1 m2 B : BB, (m1 ||| m2) &&& B = (B &&& m1) ||| (B &&& m2) := by
    intro m1 m2 B
    apply bb_ext; intro k _
    simp only [BitVec.getLsbD_and, BitVec.getLsbD_or]
    cases m1.getLsbD k <;> cases m2.getLsbD k <;> cases B.getLsbD k <;> rfl
  rw [hd, or_ne_zero, pbb_fresh T p x a ha ha0]
  have one : ∀ (c : Prop) [Decidable c] (k : Nat), k < 64 →
      (((bbOf fun s => (getP p.b s).toNat == a) &&& (if c then bit k else 0)) ≠ 0 ↔ (c ∧ (getP p.b k).toNat = a)) := by
    intro c _ k hk
    by_cases hc : c
    · rw [if_pos hc, and_bit_ne_zero _ _ hk, bbOf_get _ _ hk]; simp [hc]
    · rw [if_neg hc]; simp [hc]
  rw [one ci i hi, one cj j hj]
