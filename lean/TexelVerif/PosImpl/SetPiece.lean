/-! Prototype: Position::setPiece keeps the redundant representations consistent (C02). -/
namespace Ps

abbrev Pc := Nat          -- 0 empty, 1..6 white, 7..12 black (piece.hpp)
def isWhite (p : Pc) : Bool := p < 7
def WPAWN : Pc := 6
def BPAWN : Pc := 12

/-- abstract Zobrist table and values: theorems hold for any table with key 0 _ = 0 -/
structure Tables where
  key : Pc → Nat → BitVec 64
  key0 : ∀ s, key 0 s = 0
  matId : Pc → Int
  value : Pc → Int

structure Pos where
  sq : Nat → Pc                    -- squares[]
  bb : Pc → BitVec 64              -- pieceTypeBB_[]
  white : BitVec 64
  black : BitVec 64
  hash : BitVec 64                 -- piece part of hashKey (flags are separate xor terms)
  pHash : BitVec 64
  matId : Int
  wMtrl : Int

variable (T : Tables)

def xorL (l : List (BitVec 64)) : BitVec 64 := l.foldr (· ^^^ ·) 0
def xorAll (f : Nat → BitVec 64) : BitVec 64 := xorL ((List.range 64).map f)
def sumAll (f : Nat → Int) : Int := ((List.range 64).map f).sum

def bit (s : Nat) : BitVec 64 := 1#64 <<< s

/-- the invariant: every redundant field equals its from-scratch value -/
structure Inv (p : Pos) : Prop where
  bb : ∀ pc s, 1 ≤ pc → pc ≤ 12 → s < 64 → (p.bb pc).getLsbD s = decide (p.sq s = pc)
  white : ∀ s, s < 64 → p.white.getLsbD s = (decide (p.sq s ≠ 0) && isWhite (p.sq s))
  black : ∀ s, s < 64 → p.black.getLsbD s = (decide (p.sq s ≠ 0) && !isWhite (p.sq s))
  hash : p.hash = xorAll (fun s => T.key (p.sq s) s)
  pHash : p.pHash = xorAll (fun s => if p.sq s = WPAWN ∨ p.sq s = BPAWN then T.key (p.sq s) s else 0)
  matId : p.matId = sumAll (fun s => T.matId (p.sq s))
  wMtrl : p.wMtrl = sumAll (fun s => if p.sq s ≠ 0 ∧ isWhite (p.sq s) = true then T.value (p.sq s) else 0)
  range : ∀ s, p.sq s ≤ 12

/-- Position::setPiece (white-material part only; black is symmetric).  Written field by field so that every
    projection of the result reduces by `rfl`. -/
def setPiece (p : Pos) (s : Nat) (pc : Pc) : Pos :=
  let removed := p.sq s
  let m := bit s
  { sq := fun x => if x = s then pc else p.sq x
    hash := p.hash ^^^ T.key removed s ^^^ T.key pc s
    matId := p.matId - T.matId removed + T.matId pc
    bb := fun x =>
      let b1 := if x = removed then p.bb x &&& ~~~m else p.bb x
      if x = pc then b1 ||| m else b1
    white :=
      let w1 := if removed ≠ 0 ∧ isWhite removed = true then p.white &&& ~~~m else p.white
      if pc ≠ 0 ∧ isWhite pc = true then w1 ||| m else w1
    black :=
      let b1 := if removed ≠ 0 ∧ isWhite removed = false then p.black &&& ~~~m else p.black
      if pc ≠ 0 ∧ isWhite pc = false then b1 ||| m else b1
    pHash :=
      let h1 := if removed = WPAWN ∨ removed = BPAWN then p.pHash ^^^ T.key removed s else p.pHash
      if pc = WPAWN ∨ pc = BPAWN then h1 ^^^ T.key pc s else h1
    wMtrl :=
      let w1 := if removed ≠ 0 ∧ isWhite removed = true then p.wMtrl - T.value removed else p.wMtrl
      if pc ≠ 0 ∧ isWhite pc = true then w1 + T.value pc else w1 }

/-- changing f at one index changes the xor of all values by (old ^ new) -/
theorem xorL_map_upd (f g : Nat → BitVec 64) (l : List Nat) (s : Nat)
    (hnd : l.Nodup) (hmem : s ∈ l) (hfg : ∀ x, x ≠ s → f x = g x) :
    xorL (l.map f) = xorL (l.map g) ^^^ g s ^^^ f s := by
  induction l with
  | nil => cases hmem
  | cons x l ih =>
    rw [List.nodup_cons] at hnd
    simp only [List.map_cons, xorL, List.foldr_cons]
    by_cases hx : x = s
    · subst hx
      have : l.map f = l.map g := by
        apply List.map_congr_left
        intro y hy; exact hfg y (fun e => hnd.1 (e ▸ hy))
      rw [this]
      have hself : ∀ a : BitVec 64, a ^^^ a = 0 := fun a => BitVec.xor_self
      calc f x ^^^ List.foldr (· ^^^ ·) 0 (l.map g)
          = (g x ^^^ g x) ^^^ (f x ^^^ List.foldr (· ^^^ ·) 0 (l.map g)) := by rw [hself]; simp
        _ = g x ^^^ List.foldr (· ^^^ ·) 0 (l.map g) ^^^ g x ^^^ f x := by ac_rfl
    · have hm : s ∈ l := by
        rcases List.mem_cons.1 hmem with h | h
        · exact absurd h.symm hx
        · exact h
      have := ih hnd.2 hm
      simp only [xorL] at this
      rw [this, hfg x hx]
      ac_rfl

theorem xorAll_upd (f g : Nat → BitVec 64) (s : Nat) (hs : s < 64) (hfg : ∀ x, x ≠ s → f x = g x) :
    xorAll f = xorAll g ^^^ g s ^^^ f s :=
  xorL_map_upd f g (List.range 64) s List.nodup_range (by simp [hs]) hfg

/-- setPiece keeps the Zobrist hash equal to its from-scratch value -/
theorem setPiece_hash (p : Pos) (s : Nat) (pc : Pc) (hs : s < 64) (h : Inv T p) :
    (setPiece T p s pc).hash = xorAll (fun x => T.key ((setPiece T p s pc).sq x) x) := by
  have hh : (setPiece T p s pc).hash = p.hash ^^^ T.key (p.sq s) s ^^^ T.key pc s := rfl
  have hq : (setPiece T p s pc).sq = fun x => if x = s then pc else p.sq x := rfl
  rw [hh, hq, h.hash]
  have := xorAll_upd (fun x => T.key ((fun x => if x = s then pc else p.sq x) x) x) (fun x => T.key (p.sq x) x) s hs
    (by intro x hx; simp [hx])
  rw [this]; simp

theorem bit_get (s j : Nat) (hj : j < 64) (hs : s < 64) : (bit s).getLsbD j = decide (j = s) := by
  simp [bit, BitVec.getLsbD_shiftLeft, hj]
  by_cases h : j = s
  · subst h; simp
  · by_cases h2 : j < s
    · simp [h, h2]
    · simp [h, h2]
      have : j - s ≠ 0 := by omega
      intro h0; exact absurd h0 this

theorem clr_get (b : BitVec 64) (s j : Nat) (hj : j < 64) (hs : s < 64) :
    (b &&& ~~~(bit s)).getLsbD j = (b.getLsbD j && !decide (j = s)) := by
  simp only [BitVec.getLsbD_and, BitVec.getLsbD_not, hj, decide_true, Bool.true_and, bit_get s j hj hs]
theorem set_get (b : BitVec 64) (s j : Nat) (hj : j < 64) (hs : s < 64) :
    (b ||| bit s).getLsbD j = (b.getLsbD j || decide (j = s)) := by
  simp only [BitVec.getLsbD_or, bit_get s j hj hs]

/-- setPiece keeps every piece bitboard equal to "squares holding that piece" -/
theorem setPiece_bb (p : Pos) (s : Nat) (pc : Pc) (hs : s < 64) (h : Inv T p)
    (x : Pc) (j : Nat) (hx1 : 1 ≤ x) (hx2 : x ≤ 12) (hj : j < 64) :
    ((setPiece T p s pc).bb x).getLsbD j = decide ((setPiece T p s pc).sq j = x) := by
  have hb : (setPiece T p s pc).bb x =
      (if x = pc then (if x = p.sq s then p.bb x &&& ~~~(bit s) else p.bb x) ||| bit s
       else (if x = p.sq s then p.bb x &&& ~~~(bit s) else p.bb x)) := rfl
  have hq : (setPiece T p s pc).sq j = if j = s then pc else p.sq j := rfl
  rw [hb, hq]
  have hold := h.bb x j hx1 hx2 hj
  -- bit j of the intermediate board b1
  have hb1 : (if x = p.sq s then p.bb x &&& ~~~(bit s) else p.bb x).getLsbD j =
      (decide (p.sq j = x) && !decide (j = s)) := by
    by_cases hxr : x = p.sq s
    · rw [if_pos hxr, clr_get _ _ _ hj hs, hold]
    · rw [if_neg hxr, hold]
      by_cases hjs : j = s
      · subst hjs
        have : ¬ p.sq j = x := fun e => hxr e.symm
        simp [this]
      · simp [hjs]
  by_cases hxp : x = pc
  · rw [if_pos hxp, set_get _ _ _ hj hs, hb1]
    by_cases hjs : j = s
    · simp [hjs, hxp]
    · simp [hjs]
  · rw [if_neg hxp, hb1]
    by_cases hjs : j = s
    · have : ¬ pc = x := fun e => hxp e.symm
      simp [hjs, this]
    · simp [hjs]

end Ps
