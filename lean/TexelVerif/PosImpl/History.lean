import TexelVerif.PosImpl.UnMake
/-!
Histories of operations on a `Position` as the search and the game layer perform them: make a move, take back
the last pending operation, the null-move edit, copy.  `Good` is the invariant carried along a history:
the current state satisfies `Inv` (+ meaningful e.p. flag), and taking back the top pending operation yields
exactly the state that was current before it (the "saved copy"), which is again `Good` for the rest.
-/
namespace PosImpl
open Chess

/-- `Position::drawRuleEquals` -/
def drawRuleEq (p q : Pos) : Prop := p.b = q.b ∧ p.wtm = q.wtm ∧ p.castle = q.castle ∧ p.ep = q.ep

inductive Op where
  | mk (m : Mv)        -- makeMove
  | null               -- null-move edit (search.cpp:707-713)
  | undo               -- take back the last pending make / null edit
  | copy               -- copy-construct and assign back

inductive Frame where
  | move (m : Mv) (ui : UndoInfo)
  | null (saved : Option Sq × Nat)

def undoFrame (T : Tables) (s : PosImpl) : Frame → PosImpl
  | .move m ui => unMakeMove T s m ui
  | .null sv => nullUndo T s sv

/-- configuration: current position, pending operations, and (ghost) the states saved before each of them -/
structure Cfg where
  cur : PosImpl
  stack : List Frame
  saved : List PosImpl

def step (T : Tables) (c : Cfg) : Op → Option Cfg
  | .mk m =>
    if pseudo (abs c.cur) m then
      some { cur := (makeMove T c.cur m).1, stack := .move m (makeMove T c.cur m).2 :: c.stack, saved := c.cur :: c.saved }
    else none
  | .null => some { cur := (nullEdit T c.cur).1, stack := .null (nullEdit T c.cur).2 :: c.stack, saved := c.cur :: c.saved }
  | .undo =>
    match c.stack, c.saved with
    | f :: st, _ :: sv => some { cur := undoFrame T c.cur f, stack := st, saved := sv }
    | _, _ => none
  | .copy => some { c with cur := copy c.cur }

def run (T : Tables) (c : Cfg) : List Op → Option Cfg
  | [] => some c
  | op :: ops => (step T c op).bind fun c' => run T c' ops

/-- well-formed state: every redundant field is right and the e.p. flag is meaningful -/
def WFI (T : Tables) (s : PosImpl) : Prop := Inv T s ∧ EpOk (abs s)

inductive Good (T : Tables) : PosImpl → List Frame → List PosImpl → Prop where
  | nil (s) : WFI T s → Good T s [] []
  | cons (s f st s' sv) : WFI T s → undoFrame T s f = s' → Good T s' st sv → Good T s (f :: st) (s' :: sv)

theorem find?_range_congr (f g : Nat → Bool) (n : Nat) (h : ∀ i, i < n → f i = g i) :
    (List.range n).find? f = (List.range n).find? g := by
  have gen : ∀ (l : List Nat), (∀ i ∈ l, f i = g i) → l.find? f = l.find? g := by
    intro l
    induction l with
    | nil => intro _; rfl
    | cons a l ih =>
      intro hl
      simp only [List.find?_cons]
      rw [hl a (by simp), ih (fun i hi => hl i (by simp [hi]))]
  exact gen _ (fun i hi => h i (List.mem_range.1 hi))

/-- king squares are derived from the king bitboards; under the invariant they are the first square holding the king -/
theorem kingSq_spec (T : Tables) (s : PosImpl) (h : Inv T s) :
    s.wKingSq = (List.range 64).find? (fun i => getP s.squares i == WKING) ∧
    s.bKingSq = (List.range 64).find? (fun i => getP s.squares i == BKING) := by
  have e : s = xorHash (fresh T (abs s)) 0 := by rw [xorHash_zero]; exact h
  constructor
  · unfold PosImpl.wKingSq firstSquare
    rw [e, pbb_fresh T _ 0 1 (by decide) (by decide)]
    apply find?_range_congr
    intro i hi
    rw [bbOf_get _ _ hi]
    show ((getP s.squares i).toNat == 1) = (getP s.squares i == WKING)
    have := toNat_eq_iff (getP s.squares i) 1 (by decide)
    by_cases hh : getP s.squares i = WKING
    · rw [hh]; decide
    · have h2 : ¬ (getP s.squares i).toNat = 1 := fun h3 => hh (this.1 h3)
      have a1 : ((getP s.squares i).toNat == 1) = false := by simpa using h2
      have a2 : (getP s.squares i == WKING) = false := by simpa using hh
      rw [a1, a2]
  · unfold PosImpl.bKingSq firstSquare
    rw [e, pbb_fresh T _ 0 7 (by decide) (by decide)]
    apply find?_range_congr
    intro i hi
    rw [bbOf_get _ _ hi]
    show ((getP s.squares i).toNat == 7) = (getP s.squares i == BKING)
    have := toNat_eq_iff (getP s.squares i) 7 (by decide)
    by_cases hh : getP s.squares i = BKING
    · rw [hh]; decide
    · have h2 : ¬ (getP s.squares i).toNat = 7 := fun h3 => hh (this.1 h3)
      have a1 : ((getP s.squares i).toNat == 7) = false := by simpa using h2
      have a2 : (getP s.squares i == BKING) = false := by simpa using hh
      rw [a1, a2]

end PosImpl
