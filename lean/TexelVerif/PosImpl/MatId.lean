import TexelVerif.PosImpl.Model
/-!
# `MatId` (material.hpp / material.cpp) — the material identifier (property C02)

`MatId` keeps the sum, over all pieces on the board, of a per-piece weight: `WP = 1, WR = 9, WN = 91, WB = 767,
WQ = 5903` for White and the same numbers shifted left by 16 for Black; kings and empty squares weigh 0.

* **Original code** (`int hash; hash += materialId[pType]`): the mathematically exact identifier of a position
  with six black queens is `≥ 2^31` (`matId_overflow_witness`), so the signed 32-bit addition overflowed
  (undefined behaviour); promotion makes up to nine queens per side reachable.  `Evaluate::materialScore` computed
  `int key = (mId >> 16) * 40507 + mId`, whose exact value is `≥ 2^31` already with four black queens
  (`matKey_overflow_witness`).  `MatIdOld.addPiece` / `MatIdOld.key` model the signed operations with `none` for
  overflow; `matId_signed_iff` gives the exact overflow condition (Black's half `≥ 2^15`).
* **Repaired code** (`unsigned int hash`): for every promotion-consistent material configuration the exact
  identifier is `< 2^32` (`matId_lt`), so the unsigned sum never wraps (`matId_toNat`), both 16-bit halves hold
  their colour's sum exactly (`half_lt`), and the identifier determines the configuration (`matId_injective`; the
  stock unit test `PositionTest.testMaterialId` checks this by enumeration).  The weights are *not* a mixed-radix
  system (ten bishops outweigh a queen): uniqueness relies on the promotion constraint and is proved by a
  kernel-checked enumeration of the 8694 one-colour configurations against a four-candidate decoder.
* `sum32_matTable` connects the from-scratch value of the model (`fresh`, `Tables.mat := matTable`) with
  `matIdNat (countsOf b)`.
-/
namespace PosImpl
open Chess

/-! ## A. definitions -/

def MatId.WP : Nat := 1
def MatId.WR : Nat := 9
def MatId.WN : Nat := 91
def MatId.WB : Nat := 767
def MatId.WQ : Nat := 5903
def MatId.BP : Nat := 1 <<< 16
def MatId.BR : Nat := 9 <<< 16
def MatId.BN : Nat := 91 <<< 16
def MatId.BB : Nat := 767 <<< 16
def MatId.BQ : Nat := 5903 <<< 16

/-- `MatId::materialId[]` (material.cpp), in the table order of the C++: index = piece code (piece.hpp) -/
def matW (p : Pc) : Nat :=
  (#[0,
     0, MatId.WQ, MatId.WR, MatId.WB, MatId.WN, MatId.WP,
     0, MatId.BQ, MatId.BR, MatId.BB, MatId.BN, MatId.BP] : Array Nat).getD p.toNat 0

/-- number of pieces of each non-king kind -/
structure Counts where
  wq : Nat
  wr : Nat
  wb : Nat
  wn : Nat
  wp : Nat
  bq : Nat
  br : Nat
  bb : Nat
  bn : Nat
  bp : Nat
deriving DecidableEq, Repr

/-- one colour: pawns plus the pieces beyond the initial 1 queen, 2 rooks, 2 bishops, 2 knights number at most 8
    (every extra piece is a promoted pawn); `-` is truncated subtraction -/
def HalfOK (p r n b q : Nat) : Prop := p + (q - 1) + (r - 2) + (b - 2) + (n - 2) ≤ 8

instance (p r n b q : Nat) : Decidable (HalfOK p r n b q) := Nat.decLe _ _

/-- what legal play from the normal start position can produce -/
def PromoConsistent (c : Counts) : Prop :=
  HalfOK c.wp c.wr c.wn c.wb c.wq ∧ HalfOK c.bp c.br c.bn c.bb c.bq

instance (c : Counts) : Decidable (PromoConsistent c) := by unfold PromoConsistent; infer_instance

/-- one colour's sum with the unshifted weights -/
def halfId (p r n b q : Nat) : Nat := p + 9 * r + 91 * n + 767 * b + 5903 * q

def whiteHalf (c : Counts) : Nat := halfId c.wp c.wr c.wn c.wb c.wq
def blackHalf (c : Counts) : Nat := halfId c.bp c.br c.bn c.bb c.bq

/-- the exact (mathematical) sum of the weights of all pieces -/
def matIdNat (c : Counts) : Nat :=
  c.wq * matW WQUEEN + c.wr * matW WROOK + c.wb * matW WBISHOP + c.wn * matW WKNIGHT + c.wp * matW WPAWN +
  c.bq * matW BQUEEN + c.br * matW BROOK + c.bb * matW BBISHOP + c.bn * matW BKNIGHT + c.bp * matW BPAWN

/-- exact value of `(mId >> 16) * 40507 + mId` (evaluate.hpp, `Evaluate::materialScore`) for `mId ≥ 0` -/
def keyNat (id : Nat) : Nat := (id / 65536) * 40507 + id

theorem matW_values :
    matW EMPTY = 0 ∧ matW WKING = 0 ∧ matW BKING = 0 ∧
    matW WQUEEN = 5903 ∧ matW WROOK = 9 ∧ matW WBISHOP = 767 ∧ matW WKNIGHT = 91 ∧ matW WPAWN = 1 ∧
    matW BQUEEN = 5903 * 65536 ∧ matW BROOK = 9 * 65536 ∧ matW BBISHOP = 767 * 65536 ∧
    matW BKNIGHT = 91 * 65536 ∧ matW BPAWN = 65536 := by decide

theorem matW_ge13 (p : Pc) (h : 13 ≤ p.toNat) : matW p = 0 := by
  unfold matW Array.getD
  rw [dif_neg]
  simp only [List.size_toArray, List.length_cons, List.length_nil]
  omega

theorem matIdNat_eq (c : Counts) : matIdNat c = blackHalf c * 65536 + whiteHalf c := by
  obtain ⟨_, _, _, h1, h2, h3, h4, h5, h6, h7, h8, h9, h10⟩ := matW_values
  unfold matIdNat blackHalf whiteHalf halfId
  rw [h1, h2, h3, h4, h5, h6, h7, h8, h9, h10]
  omega

/-! ## B. the original signed arithmetic: defect witnesses -/

/-- six black queens: the exact identifier does not fit a signed 32-bit `int` -/
theorem matId_overflow_witness : ∃ c, PromoConsistent c ∧ matIdNat c ≥ 2 ^ 31 :=
  ⟨{ wq := 0, wr := 0, wb := 0, wn := 0, wp := 0, bq := 6, br := 0, bb := 0, bn := 0, bp := 0 }, by decide⟩

/-- four black queens: the identifier fits, the material-hash key expression does not -/
theorem matKey_overflow_witness : ∃ c, PromoConsistent c ∧ matIdNat c < 2 ^ 31 ∧ keyNat (matIdNat c) ≥ 2 ^ 31 :=
  ⟨{ wq := 0, wr := 0, wb := 0, wn := 0, wp := 0, bq := 4, br := 0, bb := 0, bn := 0, bp := 0 }, by decide⟩

/-! ## C. the repaired unsigned arithmetic -/

theorem halfId_lt (p r n b q : Nat) (h : HalfOK p r n b q) : halfId p r n b q ≤ 54861 := by
  unfold HalfOK at h; unfold halfId; omega

theorem half_lt (c : Counts) (h : PromoConsistent c) : whiteHalf c < 65536 ∧ blackHalf c < 65536 := by
  have h1 := halfId_lt _ _ _ _ _ h.1
  have h2 := halfId_lt _ _ _ _ _ h.2
  unfold whiteHalf blackHalf; omega

theorem matId_lt (c : Counts) (h : PromoConsistent c) : matIdNat c < 2 ^ 32 := by
  have := half_lt c h
  rw [matIdNat_eq]; omega

/-- the unsigned 32-bit sum never wraps -/
theorem matId_toNat (c : Counts) (h : PromoConsistent c) : (BitVec.ofNat 32 (matIdNat c)).toNat = matIdNat c := by
  rw [BitVec.toNat_ofNat]; exact Nat.mod_eq_of_lt (matId_lt c h)

/-- the two 16-bit halves of the identifier are the two colours' sums (no carry from White into Black) -/
theorem matId_halves (c : Counts) (h : PromoConsistent c) :
    matIdNat c / 65536 = blackHalf c ∧ matIdNat c % 65536 = whiteHalf c := by
  have := half_lt c h
  rw [matIdNat_eq]; omega

/-- for promotion-consistent counts the exact identifier fits a signed `int` iff Black's half is below 2^15 -/
theorem matId_signed_iff (c : Counts) (h : PromoConsistent c) : matIdNat c < 2 ^ 31 ↔ blackHalf c < 32768 := by
  have := half_lt c h
  rw [matIdNat_eq]; omega

/-- the original `int hash; hash += materialId[pType]`: `none` is signed overflow (undefined behaviour) -/
def MatIdOld.addPiece (hash : Int) (p : Pc) : Option Int :=
  let v := hash + matW p
  if v < 2 ^ 31 then some v else none

/-- the original `int key = (mId >> 16) * 40507 + mId` for `mId ≥ 0`: `none` is signed overflow -/
def MatIdOld.key (mId : Int) : Option Int :=
  let v := (mId / 65536) * 40507 + mId
  if v < 2 ^ 31 then some v else none

/-- adding the sixth black queen overflows the original signed identifier -/
theorem MatIdOld.six_black_queens :
    ((((((some 0 : Option Int).bind (addPiece · BQUEEN)).bind (addPiece · BQUEEN)).bind (addPiece · BQUEEN)).bind
      (addPiece · BQUEEN)).bind (addPiece · BQUEEN)) = some 1934295040 ∧
    addPiece 1934295040 BQUEEN = none := by decide

/-- with four black queens the original signed key computation overflows -/
theorem MatIdOld.key_four_black_queens :
    ((((some 0 : Option Int).bind (addPiece · BQUEEN)).bind (addPiece · BQUEEN)).bind (addPiece · BQUEEN)).bind
      (addPiece · BQUEEN) = some 1547436032 ∧
    key 1547436032 = none := by decide

/-! ### uniqueness -/

/-- candidate decoding with the given numbers of queens and bishops -/
def decAt (id q b : Nat) : Option (Nat × Nat × Nat × Nat × Nat) :=
  if 5903 * q + 767 * b ≤ id then
    let y := id - (5903 * q + 767 * b)
    let n := y / 91
    let x := y % 91
    let r := x / 9
    let p := x % 9
    if HalfOK p r n b q then some (p, r, n, b, q) else none
  else none

/-- decoder of a one-colour identifier: `p + 9 r < 91`, `p + 9 r + 91 n < 2 · 767` and
    `p + 9 r + 91 n + 767 b < 2 · 5903` leave four candidates `(q, b)` -/
def dec (id : Nat) : Option (Nat × Nat × Nat × Nat × Nat) :=
  let q0 := id / 5903
  let b0 := (id - 5903 * q0) / 767
  let q1 := q0 - 1
  let b1 := (id - 5903 * q1) / 767
  (decAt id q0 b0).or ((decAt id q0 (b0 - 1)).or ((decAt id q1 b1).or (decAt id q1 (b1 - 1))))

/-- `f k` for all `k < n` -/
def allB : Nat → (Nat → Bool) → Bool
  | 0, _ => true
  | n + 1, f => f n && allB n f

theorem allB_true {n : Nat} {f : Nat → Bool} (h : allB n f = true) : ∀ k, k < n → f k = true := by
  induction n with
  | zero => intro k hk; omega
  | succ n ih =>
    intro k hk
    simp only [allB, Bool.and_eq_true] at h
    by_cases e : k = n
    · subst e; exact h.1
    · exact ih h.2 k (by omega)

/-- `a ≤ 8 → x`, evaluated lazily by the kernel -/
def ifLe8 (a : Nat) (x : Bool) : Bool := !Nat.ble a 8 || x

theorem ifLe8_true {a : Nat} {x : Bool} (h : ifLe8 a x = true) (ha : a ≤ 8) : x = true := by
  have : Nat.ble a 8 = true := Nat.ble_eq.mpr ha
  simpa [ifLe8, this] using h

/-- `o = some (p, r, n, b, q)` as a Boolean (cheaper in the kernel than the derived `DecidableEq`) -/
def eq5 (o : Option (Nat × Nat × Nat × Nat × Nat)) (p r n b q : Nat) : Bool :=
  match o with
  | some (p', r', n', b', q') => Nat.beq p' p && Nat.beq r' r && Nat.beq n' n && Nat.beq b' b && Nat.beq q' q
  | none => false

theorem eq5_true {o : Option (Nat × Nat × Nat × Nat × Nat)} {p r n b q : Nat} (h : eq5 o p r n b q = true) :
    o = some (p, r, n, b, q) := by
  match o with
  | none => simp [eq5] at h
  | some (p', r', n', b', q') =>
    simp only [eq5, Bool.and_eq_true] at h
    obtain ⟨⟨⟨⟨h1, h2⟩, h3⟩, h4⟩, h5⟩ := h
    rw [Nat.eq_of_beq_eq_true h1, Nat.eq_of_beq_eq_true h2, Nat.eq_of_beq_eq_true h3,
      Nat.eq_of_beq_eq_true h4, Nat.eq_of_beq_eq_true h5]

/-- the enumeration of all one-colour configurations as a Boolean check; branches whose queens, bishops, knights
    and rooks already need more than eight promotions are pruned -/
def decCheck : Bool :=
  allB 10 fun q => allB 11 fun b => ifLe8 ((q - 1) + (b - 2)) <|
  allB 11 fun n => ifLe8 ((q - 1) + (b - 2) + (n - 2)) <|
  allB 11 fun r => ifLe8 ((q - 1) + (b - 2) + (n - 2) + (r - 2)) <|
  allB 9 fun p => ifLe8 (p + (q - 1) + (r - 2) + (b - 2) + (n - 2)) <|
    eq5 (dec (halfId p r n b q)) p r n b q

theorem decCheck_true : decCheck = true := by decide +kernel

/-- kernel-checked enumeration of all one-colour configurations -/
theorem dec_halfId_all :
    ∀ q, q < 10 → ∀ b, b < 11 → ∀ n, n < 11 → ∀ r, r < 11 → ∀ p, p < 9 →
      HalfOK p r n b q → dec (halfId p r n b q) = some (p, r, n, b, q) := by
  intro q hq b hb n hn r hr p hp hok
  unfold HalfOK at hok
  have h := allB_true (allB_true decCheck_true q hq) b hb
  have h := allB_true (ifLe8_true h (by omega)) n hn
  have h := allB_true (ifLe8_true h (by omega)) r hr
  have h := allB_true (ifLe8_true h (by omega)) p hp
  exact eq5_true (ifLe8_true h hok)

theorem dec_halfId (p r n b q : Nat) (h : HalfOK p r n b q) : dec (halfId p r n b q) = some (p, r, n, b, q) := by
  have h' := h
  unfold HalfOK at h'
  exact dec_halfId_all q (by omega) b (by omega) n (by omega) r (by omega) p (by omega) h

theorem half_injective (p₁ r₁ n₁ b₁ q₁ p₂ r₂ n₂ b₂ q₂ : Nat)
    (h₁ : HalfOK p₁ r₁ n₁ b₁ q₁) (h₂ : HalfOK p₂ r₂ n₂ b₂ q₂)
    (h : halfId p₁ r₁ n₁ b₁ q₁ = halfId p₂ r₂ n₂ b₂ q₂) :
    p₁ = p₂ ∧ r₁ = r₂ ∧ n₁ = n₂ ∧ b₁ = b₂ ∧ q₁ = q₂ := by
  have e₁ := dec_halfId _ _ _ _ _ h₁
  have e₂ := dec_halfId _ _ _ _ _ h₂
  rw [h, e₂] at e₁
  simpa [eq_comm] using e₁

/-- the identifier is unique per promotion-consistent material configuration -/
theorem matId_injective (c₁ c₂ : Counts) (h₁ : PromoConsistent c₁) (h₂ : PromoConsistent c₂)
    (h : matIdNat c₁ = matIdNat c₂) : c₁ = c₂ := by
  have a₁ := matId_halves c₁ h₁
  have a₂ := matId_halves c₂ h₂
  have hw : whiteHalf c₁ = whiteHalf c₂ := by rw [← a₁.2, ← a₂.2, h]
  have hb : blackHalf c₁ = blackHalf c₂ := by rw [← a₁.1, ← a₂.1, h]
  obtain ⟨w1, w2, w3, w4, w5⟩ := half_injective _ _ _ _ _ _ _ _ _ _ h₁.1 h₂.1 hw
  obtain ⟨b1, b2, b3, b4, b5⟩ := half_injective _ _ _ _ _ _ _ _ _ _ h₁.2 h₂.2 hb
  cases c₁; cases c₂
  simp_all

/-! ## connection with the model (`Tables.mat`, `fresh`) -/

/-- `MatId::materialId[]` as unsigned 32-bit values: the instance of `Tables.mat` -/
def matTable : Pc → BitVec 32 := fun p => BitVec.ofNat 32 (matW p)

theorem matTable_empty : matTable EMPTY = 0 := by decide

/-- number of squares `s < 64` holding the piece code `pc` -/
def cntPc (b : Board) (pc : Pc) : Nat := foldN (· + ·) 0 (fun s => if getP b s = pc then 1 else 0) 64

def countsOf (b : Board) : Counts :=
  { wq := cntPc b WQUEEN, wr := cntPc b WROOK, wb := cntPc b WBISHOP, wn := cntPc b WKNIGHT, wp := cntPc b WPAWN,
    bq := cntPc b BQUEEN, br := cntPc b BROOK, bb := cntPc b BBISHOP, bn := cntPc b BKNIGHT, bp := cntPc b BPAWN }

/-- weighted sum of per-code multiplicities -/
def wsum (k : Pc → Nat) : Nat :=
  k WQUEEN * matW WQUEEN + k WROOK * matW WROOK + k WBISHOP * matW WBISHOP + k WKNIGHT * matW WKNIGHT +
  k WPAWN * matW WPAWN +
  k BQUEEN * matW BQUEEN + k BROOK * matW BROOK + k BBISHOP * matW BBISHOP + k BKNIGHT * matW BKNIGHT +
  k BPAWN * matW BPAWN

theorem wsum_add (f g : Pc → Nat) : wsum (fun c => f c + g c) = wsum f + wsum g := by
  unfold wsum; simp only [Nat.add_mul]; omega

theorem matW_split_aux : ∀ n, n < 256 →
    matW (UInt8.ofNat n) = wsum (fun c => if UInt8.ofNat n = c then 1 else 0) := by decide +kernel

theorem matW_split (p : Pc) : matW p = wsum (fun c => if p = c then 1 else 0) := by
  have h := matW_split_aux p.toNat (UInt8.toNat_lt p)
  rwa [UInt8.ofNat_toNat] at h

theorem foldN_ofNat (g : Nat → Nat) (n : Nat) :
    foldN (· + ·) 0 (fun s => BitVec.ofNat 32 (g s)) n = BitVec.ofNat 32 (foldN (· + ·) 0 g n) := by
  induction n with
  | zero => rfl
  | succ n ih => simp only [foldN, ih, BitVec.ofNat_add]

theorem foldN_matW (h : Nat → Pc) (n : Nat) :
    foldN (· + ·) 0 (fun s => matW (h s)) n =
      wsum (fun c => foldN (· + ·) 0 (fun s => if h s = c then 1 else 0) n) := by
  induction n with
  | zero => simp [foldN, wsum]
  | succ n ih => simp only [foldN, ih, wsum_add]; rw [← matW_split]

/-- the from-scratch value of the model's `matId` field is the exact identifier of the board's piece counts,
    reduced mod 2^32 (by `matId_toNat` the reduction is vacuous for promotion-consistent counts) -/
theorem sum32_matTable (b : Board) :
    sum32 (fun s => matTable (getP b s)) = BitVec.ofNat 32 (matIdNat (countsOf b)) := by
  unfold sum32 matTable
  rw [foldN_ofNat, foldN_matW]
  rfl

theorem sum32_matTable_toNat (b : Board) (h : PromoConsistent (countsOf b)) :
    (sum32 (fun s => matTable (getP b s))).toNat = matIdNat (countsOf b) := by
  rw [sum32_matTable, matId_toNat _ h]

/-! ## D. the hypotheses are satisfiable -/

/-- the start position -/
example : PromoConsistent { wq := 1, wr := 2, wb := 2, wn := 2, wp := 8, bq := 1, br := 2, bb := 2, bn := 2, bp := 8 } := by
  decide

/-- all eight pawns of both sides promoted to queens -/
example : PromoConsistent { wq := 9, wr := 2, wb := 2, wn := 2, wp := 0, bq := 9, br := 2, bb := 2, bn := 2, bp := 0 } := by
  decide

/-- the bound of `halfId_lt` is attained -/
example : halfId 0 2 2 2 9 = 54861 := by decide

end PosImpl
