import TexelVerif.PosImpl.MakeSpec
/-!
Take-back at the level of the essential state: `unMakeC (makeC p m) m (uiOf p m) = p` for pseudo-legal `m`
(with a meaningful e.p. flag), together with the calling conventions inside `unMakeMove`; `makeC` re-establishes
the e.p. condition.
-/
namespace PosImpl
open Chess

/-! ### explicit form of `unMakeC` -/

def unB5 (q : Pos) (m : Mv) (ui : UndoInfo) : Board :=
  let b := setSq (setSq q.b m.t.val ui.capturedPiece) m.f.val (getP q.b m.t.val)
  if m.promo ≠ 0 then setSq b m.f.val (movedPc q m) else b

def unB6 (q : Pos) (m : Mv) (ui : UndoInfo) : Board :=
  if movedPc q m = (if !q.wtm then WKING else BKING) then
    if m.t.val = m.f.val + 2 then setSq (setSq (unB5 q m ui) (m.f.val + 1) 0) (m.f.val + 3) (getP (unB5 q m ui) (m.f.val + 1))
    else if m.t.val + 2 = m.f.val then setSq (setSq (unB5 q m ui) (m.f.val - 1) 0) (m.f.val - 4) (getP (unB5 q m ui) (m.f.val - 1))
    else unB5 q m ui
  else unB5 q m ui

def unB (q : Pos) (m : Mv) (ui : UndoInfo) : Board :=
  if ui.epSquare = some m.t then
    if movedPc q m = WPAWN then setSq (unB6 q m ui) (m.t.val - 8) BPAWN
    else if movedPc q m = BPAWN then setSq (unB6 q m ui) (m.t.val + 8) WPAWN
    else unB6 q m ui
  else unB6 q m ui

theorem unMakeC5_eq (q : Pos) (m : Mv) (ui : UndoInfo) :
    unMakeC5 q m ui = { b := unB5 q m ui, wtm := !q.wtm, castle := ui.castleMask, ep := ui.epSquare,
                        hmc := ui.halfMoveClock, fmc := if !q.wtm then q.fmc else q.fmc - 1 } := by
  unfold unMakeC5 unB5 Pos.withB
  simp only []
  split <;> split <;> rfl

theorem unMakeC6_eq (q : Pos) (m : Mv) (ui : UndoInfo) :
    unMakeC6 q m ui = { b := unB6 q m ui, wtm := !q.wtm, castle := ui.castleMask, ep := ui.epSquare,
                        hmc := ui.halfMoveClock, fmc := if !q.wtm then q.fmc else q.fmc - 1 } := by
  unfold unMakeC6 unB6 moveC Pos.withB
  rw [unMakeC5_eq]
  simp only []
  repeat' split
  all_goals rfl

theorem unMakeC_eq (q : Pos) (m : Mv) (ui : UndoInfo) :
    unMakeC q m ui = { b := unB q m ui, wtm := !q.wtm, castle := ui.castleMask, ep := ui.epSquare,
                       hmc := ui.halfMoveClock, fmc := if !q.wtm then q.fmc else q.fmc - 1 } := by
  unfold unMakeC unB Pos.withB
  rw [unMakeC6_eq]
  simp only []
  repeat' split
  all_goals rfl


theorem makeC_wtm (p : Pos) (m : Mv) : (makeC p m).wtm = !p.wtm := by
  by_cases hc : getP p.b m.t.val ≠ 0 ∨ isPawnAt p.b m.f.val
  · rw [makeC_cap p m hc]
  · rw [makeC_quiet p m hc]

theorem makeC_fmc (p : Pos) (m : Mv) : (makeC p m).fmc = if p.wtm then p.fmc else p.fmc + 1 := by
  by_cases hc : getP p.b m.t.val ≠ 0 ∨ isPawnAt p.b m.f.val
  · rw [makeC_cap p m hc]
  · rw [makeC_quiet p m hc]

/-- a promotion is a pawn move of the side to move -/
theorem promo_pawn (p : Pos) (m : Mv) (h : pseudo p m = true) (hp : m.promo ≠ 0) :
    getP p.b m.f.val = (if p.wtm then WPAWN else BPAWN) := by
  have hb := pseudo_basic p m h
  by_cases hk6 : kind (getP p.b m.f.val) = 6
  · cases hw : p.wtm
    · rw [hw] at hb; simpa using (own_black _ hb.1).2.2.1 hk6
    · rw [hw] at hb; simpa using (own_white _ hb.1).2.2.1 hk6
  · exact absurd (pseudo_other p m h hk6) hp

theorem bnot_bnot_if (w : Bool) (a b : Pc) : (if (!(!w)) = true then a else b) = (if w then a else b) := by
  cases w <;> rfl

theorem movedPc_make (p : Pos) (m : Mv) (h : pseudo p m = true) : movedPc (makeC p m) m = getP p.b m.f.val := by
  have hf := m.f.isLt
  have ht := m.t.isLt
  have hb := pseudo_basic p m h
  unfold movedPc
  rw [makeC_wtm, bnot_bnot_if]
  by_cases hp : m.promo ≠ 0
  · rw [if_pos hp]; exact (promo_pawn p m h hp).symm
  · rw [if_neg hp]
    by_cases hc : getP p.b m.t.val ≠ 0 ∨ isPawnAt p.b m.f.val
    · rw [makeC_cap p m hc]
      simp only [getP_setSq _ _ _ _ ht, if_true, if_neg hp]
    · rw [makeC_quiet p m hc]
      simp only []
      unfold quietB
      rw [getP_setSq _ _ _ _ ht, if_pos rfl]
      unfold rookB
      repeat' split
      · rw [getP_setSq _ _ _ _ (by omega), if_neg (by omega)]
        by_cases hlt : m.f.val + 3 < 64
        · rw [getP_setSq _ _ _ _ hlt, if_neg (by omega)]
        · unfold setSq; rw [Vector.setIfInBounds_eq_of_size_le (by omega)]
      · rw [getP_setSq _ _ _ _ (by omega), if_neg (by omega), getP_setSq _ _ _ _ (by omega), if_neg (by omega)]
      · rfl
      · rfl

theorem king_if (w : Bool) : (if (!(!w)) = true then WKING else BKING) = (if w then WKING else BKING) := by
  cases w <;> rfl

/-- in the capture-or-pawn branch the moved piece is not a castling king -/
theorem cap_no_castle (p : Pos) (m : Mv) (h : pseudo p m = true)
    (hc : getP p.b m.t.val ≠ 0 ∨ isPawnAt p.b m.f.val)
    (hk : getP p.b m.f.val = (if p.wtm then WKING else BKING)) :
    m.t.val ≠ m.f.val + 2 ∧ m.t.val + 2 ≠ m.f.val := by
  have hk1 : kind (getP p.b m.f.val) = 1 := by rw [hk]; cases p.wtm <;> decide
  have htg : getP p.b m.t.val ≠ 0 := by
    rcases hc with h1 | h1
    · exact h1
    · have := (pawnAt_iff _ _).1 h1; rw [hk1] at this; exact absurd this (by decide)
  rcases (pseudo_king p m h hk1).2 with h3 | ⟨h2, h4, h5⟩ | ⟨h2, h4, h5⟩
  · exact h3
  · exfalso
    have hcs := castleOk_short p h5
    rw [← h4, ← h2] at hcs; exact htg hcs.2.1
  · exfalso
    have hcl := castleOk_long p h5
    rw [← h4] at hcl
    have : m.f.val - 2 = m.t.val := by omega
    rw [this] at hcl; exact htg hcl.2.1

theorem unB5_cap (p : Pos) (m : Mv) (h : pseudo p m = true)
    (hc : getP p.b m.t.val ≠ 0 ∨ isPawnAt p.b m.f.val) (k : Nat) :
    getP (unB5 (makeC p m) m (uiOf p m)) k =
      if k = m.f.val then getP p.b m.f.val else if k = m.t.val then getP p.b m.t.val
      else getP (epClearedB p.b m (getP p.b m.f.val) p.ep) k := by
  have hf := m.f.isLt
  have ht := m.t.isLt
  have hb := pseudo_basic p m h
  have hmp := movedPc_make p m h
  unfold unB5
  rw [hmp]
  rw [makeC_cap p m hc]
  simp only [uiOf]
  by_cases hp : m.promo ≠ 0
  · simp only [if_pos hp, getP_setSq _ _ _ _ hf, getP_setSq _ _ _ _ ht]
    repeat' split
    all_goals first | rfl | omega | (exfalso; simp_all; done)
  · simp only [if_neg hp, getP_setSq _ _ _ _ hf, getP_setSq _ _ _ _ ht]
    repeat' split
    all_goals first | rfl | omega | (exfalso; simp_all; done)

theorem unmake_make_cap (p : Pos) (m : Mv) (h : pseudo p m = true) (he : EpOk p)
    (hc : getP p.b m.t.val ≠ 0 ∨ isPawnAt p.b m.f.val) :
    UnMakeOk (makeC p m) m (uiOf p m) ∧ unMakeC (makeC p m) m (uiOf p m) = p := by
  have hf := m.f.isLt
  have ht := m.t.isLt
  have hb := pseudo_basic p m h
  have hmp := movedPc_make p m h
  have hnc := cap_no_castle p m h hc
  constructor
  · refine ⟨?_, ?_, ?_⟩
    · intro h1 h2
      rw [hmp, makeC_wtm, king_if] at h1
      exact absurd h2 (hnc h1).1
    · intro h1 h2
      rw [hmp, makeC_wtm, king_if] at h1
      exact absurd h2 (hnc h1).2
    · intro h1 h2
      rw [hmp] at h2
      exact (makeOk_of_pseudo p m h he).epB h2 h1
  · rw [unMakeC_eq]
    apply pos_ext
    · -- board
      show unB (makeC p m) m (uiOf p m) = p.b
      have h6 : unB6 (makeC p m) m (uiOf p m) = unB5 (makeC p m) m (uiOf p m) := by
        unfold unB6
        rw [hmp, makeC_wtm, king_if]
        by_cases hk : getP p.b m.f.val = (if p.wtm then WKING else BKING)
        · simp only [if_pos hk, if_neg (hnc hk).1, if_neg (hnc hk).2]
        · simp only [if_neg hk]
      unfold unB
      rw [h6, hmp]
      show (if p.ep = some m.t then _ else _) = p.b
      apply board_ext
      intro k hk
      by_cases hep : p.ep = some m.t
      · simp only [if_pos hep]
        by_cases hw : getP p.b m.f.val = WPAWN
        · obtain ⟨e1, e2, e3⟩ := ep_white_facts p m h he hw hep
          have hwt := (pseudo_wpawn p m h hw).1
          have hgt : m.t.val + 1 = m.f.val + 8 ∨ m.t.val = m.f.val + 9 := by
            have := (pseudo_wpawn p m h hw).2.2; omega
          have hE := (he m.t hep).2
          rw [hwt] at hE; simp only [if_true] at hE
          simp only [if_pos hw, getP_setSq _ _ _ _ (by omega : m.t.val - 8 < 64), unB5_cap p m h hc]
          unfold epClearedB
          simp only [hw, if_true, if_neg e2, if_pos hep, getP_setSq _ _ _ _ (by omega : m.t.val - 8 < 64)]
          repeat' split
          all_goals first | rfl | omega | (subst_vars; first | exact hE.symm | exact hw.symm | exact e1.symm | rfl | omega) | (exfalso; simp_all; done)
        · by_cases hbp : getP p.b m.f.val = BPAWN
          · obtain ⟨e1, e2, e3⟩ := ep_black_facts p m h he hbp hep
            have hwt := (pseudo_bpawn p m h hbp).1
            have hgt : m.t.val + 9 = m.f.val ∨ m.t.val + 7 = m.f.val := by
              have := (pseudo_bpawn p m h hbp).2.2; omega
            have hE := (he m.t hep).2
            rw [hwt] at hE; simp only [Bool.false_eq_true, if_false] at hE
            have hlt := (makeOk_of_pseudo p m h he).epB hbp hep
            have hbw : ¬ BPAWN = WPAWN := by decide
            simp only [if_neg hw, if_pos hbp, getP_setSq _ _ _ _ hlt, unB5_cap p m h hc]
            unfold epClearedB
            simp only [hbp, if_neg hbw, if_true, if_neg e2, if_pos hep, getP_setSq _ _ _ _ hlt]
            repeat' split
            all_goals first | rfl | omega | (subst_vars; first | exact hE.symm | exact hbp.symm | exact e1.symm | rfl | omega) | (exfalso; simp_all; done)
          · simp only [if_neg hw, if_neg hbp, unB5_cap p m h hc]
            unfold epClearedB
            simp only [if_neg hw, if_neg hbp]
            repeat' split
            all_goals first | rfl | omega | (subst_vars; rfl) | (exfalso; simp_all; done)
      · simp only [if_neg hep, unB5_cap p m h hc]
        unfold epClearedB
        simp only [if_neg hep]
        repeat' split
        all_goals first | rfl | omega | (subst_vars; rfl) | (exfalso; simp_all; done)
    · show (!(makeC p m).wtm) = p.wtm
      rw [makeC_wtm]; cases p.wtm <;> rfl
    · rfl
    · rfl
    · rfl
    · show (if (!(makeC p m).wtm) = true then (makeC p m).fmc else (makeC p m).fmc - 1) = p.fmc
      rw [makeC_wtm, makeC_fmc]
      cases p.wtm <;> simp

theorem unmake_make_quiet (p : Pos) (m : Mv) (h : pseudo p m = true)
    (hc : ¬ (getP p.b m.t.val ≠ 0 ∨ isPawnAt p.b m.f.val)) :
    UnMakeOk (makeC p m) m (uiOf p m) ∧ unMakeC (makeC p m) m (uiOf p m) = p := by
  have hf := m.f.isLt
  have ht := m.t.isLt
  have hb := pseudo_basic p m h
  have hmp := movedPc_make p m h
  have htg : getP p.b m.t.val = 0 := by
    apply Classical.byContradiction; intro hh; exact hc (Or.inl hh)
  have hnpa : ¬ isPawnAt p.b m.f.val := fun hh => hc (Or.inr hh)
  have hk6 : kind (getP p.b m.f.val) ≠ 6 := fun hk => hnpa ((pawnAt_iff _ _).2 hk)
  have hpromo := pseudo_other p m h hk6
  have hnp := not_pawn_of_kind _ hk6
  have hp0 : ¬ m.promo ≠ 0 := fun hh => hh hpromo
  have hft : m.f.val ≠ m.t.val := hb.2.2
  -- the three shapes of a quiet move
  have shape : (isKingAt p.b m.f.val ∧ m.t.val = m.f.val + 2 ∧ m.f.val + 3 < 64 ∧ getP p.b (m.f.val + 1) = 0 ∧
                  getP p.b (m.f.val + 3) = (if p.wtm then WROOK else BROOK)) ∨
               (isKingAt p.b m.f.val ∧ m.t.val + 2 = m.f.val ∧ m.f.val ≥ 4 ∧ getP p.b (m.f.val - 1) = 0 ∧
                  getP p.b (m.f.val - 3) = 0 ∧ getP p.b (m.f.val - 4) = (if p.wtm then WROOK else BROOK)) ∨
               (¬ (isKingAt p.b m.f.val ∧ (m.t.val = m.f.val + 2 ∨ m.t.val + 2 = m.f.val))) := by
    by_cases hk : isKingAt p.b m.f.val
    · rcases (pseudo_king p m h ((kingAt_iff _ _).1 hk)).2 with h3 | ⟨h2, h4, h5⟩ | ⟨h2, h4, h5⟩
      · right; right; rintro ⟨_, h6 | h6⟩
        · exact h3.1 h6
        · exact h3.2 h6
      · left
        have hcs := castleOk_short p h5
        rw [← h4] at hcs
        exact ⟨hk, h2, by cases hw : p.wtm <;> simp [hw] at h4 <;> omega, hcs.1, hcs.2.2⟩
      · right; left
        have hcl := castleOk_long p h5
        rw [← h4] at hcl
        exact ⟨hk, h2, by cases hw : p.wtm <;> simp [hw] at h4 <;> omega, hcl.1, hcl.2.2.1, hcl.2.2.2⟩
    · right; right; exact fun hh => hk hh.1
  have hkingpc : isKingAt p.b m.f.val → getP p.b m.f.val = (if p.wtm then WKING else BKING) := by
    intro hk
    have hk1 := (kingAt_iff _ _).1 hk
    cases hw : p.wtm
    · rw [hw] at hb; simpa using (own_black _ hb.1).2.2.2 hk1
    · rw [hw] at hb; simpa using (own_white _ hb.1).2.2.2 hk1
  have hkingiff : getP p.b m.f.val = (if p.wtm then WKING else BKING) → isKingAt p.b m.f.val := by
    intro hh; unfold isKingAt; rw [hh]; cases p.wtm <;> decide
  have hR := rook_not_pawn p.wtm
  have hq : (makeC p m).b = quietB p.b m := by rw [makeC_quiet p m hc]
  have hu5 : unB5 (makeC p m) m (uiOf p m) =
      setSq (setSq (quietB p.b m) m.t.val 0) m.f.val (getP (quietB p.b m) m.t.val) := by
    unfold unB5; simp only [if_neg hp0, hq, uiOf, htg]
  generalize (if p.wtm = true then WROOK else BROOK) = R at shape hR
  rcases shape with ⟨hk, h2, hlt, e1, e3⟩ | ⟨hk, h2, hge, e1, e3, e4⟩ | hno
  · -- short castling
    have hrook : rookB p.b m = setSq (setSq p.b (m.f.val + 3) 0) (m.f.val + 1) R := by
      unfold rookB; simp only [if_pos hk, if_pos h2, e3]
    have hu5k : ∀ k, getP (unB5 (makeC p m) m (uiOf p m)) k =
        if k = m.f.val then getP p.b m.f.val else if k = m.t.val then 0
        else if k = m.f.val + 1 then R else if k = m.f.val + 3 then 0 else getP p.b k := by
      intro k
      rw [hu5]; unfold quietB; rw [hrook]
      simp only [getP_setSq _ _ _ _ hf, getP_setSq _ _ _ _ ht, getP_setSq _ _ _ _ hlt,
        getP_setSq _ _ _ _ (by omega : m.f.val + 1 < 64)]
      repeat' split
      all_goals first | rfl | omega | (exfalso; simp_all; done)
    constructor
    · refine ⟨?_, ?_, ?_⟩
      · intro _ _
        rw [unMakeC5_eq]
        refine ⟨by omega, hlt, ?_, ?_, ?_, by omega⟩
        · show getP (unB5 _ _ _) _ ≠ 0
          rw [hu5k, if_neg (by omega), if_neg (by omega), if_pos rfl]; exact hR.1
        · show isPawnPc (getP (unB5 _ _ _) _) = false
          rw [hu5k, if_neg (by omega), if_neg (by omega), if_pos rfl]; exact hR.2
        · show getP (unB5 _ _ _) _ = 0
          rw [hu5k, if_neg (by omega), if_neg (by omega), if_neg (by omega), if_pos rfl]
      · intro _ h3; omega
      · intro _ h3; rw [hmp] at h3; exact absurd h3 hnp.2
    · rw [unMakeC_eq]
      apply pos_ext
      · show unB (makeC p m) m (uiOf p m) = p.b
        unfold unB unB6
        rw [hmp, makeC_wtm, king_if]
        simp only [if_pos (hkingpc hk), if_pos h2, if_neg hnp.1, if_neg hnp.2]
        apply board_ext
        intro k hk
        have key : getP (setSq (setSq (unB5 (makeC p m) m (uiOf p m)) (m.f.val + 1) 0) (m.f.val + 3)
            (getP (unB5 (makeC p m) m (uiOf p m)) (m.f.val + 1))) k = getP p.b k := by
          simp only [getP_setSq _ _ _ _ hlt, getP_setSq _ _ _ _ (by omega : m.f.val + 1 < 64), hu5k]
          repeat' split
          all_goals first | rfl | omega | (subst_vars; first | exact e1.symm | exact e3.symm | exact htg.symm | rfl | omega) | (exfalso; simp_all; done)
        split <;> exact key
      · show (!(makeC p m).wtm) = p.wtm
        rw [makeC_wtm]; cases p.wtm <;> rfl
      · rfl
      · rfl
      · rfl
      · show (if (!(makeC p m).wtm) = true then (makeC p m).fmc else (makeC p m).fmc - 1) = p.fmc
        rw [makeC_wtm, makeC_fmc]
        cases p.wtm <;> simp
  · -- long castling
    have hrook : rookB p.b m = setSq (setSq p.b (m.f.val - 4) 0) (m.f.val - 1) R := by
      unfold rookB; simp only [if_pos hk, if_neg (by omega : ¬ m.t.val = m.f.val + 2), if_pos h2, e4]
    have hu5k : ∀ k, getP (unB5 (makeC p m) m (uiOf p m)) k =
        if k = m.f.val then getP p.b m.f.val else if k = m.t.val then 0
        else if k = m.f.val - 1 then R else if k = m.f.val - 4 then 0 else getP p.b k := by
      intro k
      rw [hu5]; unfold quietB; rw [hrook]
      simp only [getP_setSq _ _ _ _ hf, getP_setSq _ _ _ _ ht, getP_setSq _ _ _ _ (by omega : m.f.val - 4 < 64),
        getP_setSq _ _ _ _ (by omega : m.f.val - 1 < 64)]
      repeat' split
      all_goals first | rfl | omega | (exfalso; simp_all; done)
    constructor
    · refine ⟨?_, ?_, ?_⟩
      · intro _ h3; omega
      · intro _ _
        rw [unMakeC5_eq]
        refine ⟨by omega, by omega, ?_, ?_, ?_, by omega⟩
        · show getP (unB5 _ _ _) _ ≠ 0
          rw [hu5k, if_neg (by omega), if_neg (by omega), if_pos rfl]; exact hR.1
        · show isPawnPc (getP (unB5 _ _ _) _) = false
          rw [hu5k, if_neg (by omega), if_neg (by omega), if_pos rfl]; exact hR.2
        · show getP (unB5 _ _ _) _ = 0
          rw [hu5k, if_neg (by omega), if_neg (by omega), if_neg (by omega), if_pos rfl]
      · intro _ h3; rw [hmp] at h3; exact absurd h3 hnp.2
    · rw [unMakeC_eq]
      apply pos_ext
      · show unB (makeC p m) m (uiOf p m) = p.b
        unfold unB unB6
        rw [hmp, makeC_wtm, king_if]
        simp only [if_pos (hkingpc hk), if_neg (by omega : ¬ m.t.val = m.f.val + 2), if_pos h2, if_neg hnp.1, if_neg hnp.2]
        apply board_ext
        intro k hk
        have key : getP (setSq (setSq (unB5 (makeC p m) m (uiOf p m)) (m.f.val - 1) 0) (m.f.val - 4)
            (getP (unB5 (makeC p m) m (uiOf p m)) (m.f.val - 1))) k = getP p.b k := by
          simp only [getP_setSq _ _ _ _ (by omega : m.f.val - 4 < 64), getP_setSq _ _ _ _ (by omega : m.f.val - 1 < 64), hu5k]
          repeat' split
          all_goals first | rfl | omega | (subst_vars; first | exact e1.symm | exact e4.symm | exact htg.symm | rfl | omega) | (exfalso; simp_all; done)
        split <;> exact key
      · show (!(makeC p m).wtm) = p.wtm
        rw [makeC_wtm]; cases p.wtm <;> rfl
      · rfl
      · rfl
      · rfl
      · show (if (!(makeC p m).wtm) = true then (makeC p m).fmc else (makeC p m).fmc - 1) = p.fmc
        rw [makeC_wtm, makeC_fmc]
        cases p.wtm <;> simp
  · -- plain move of a piece
    have hrook : rookB p.b m = p.b := by
      unfold rookB
      by_cases hk : isKingAt p.b m.f.val
      · have n1 : ¬ m.t.val = m.f.val + 2 := fun hh => hno ⟨hk, Or.inl hh⟩
        have n2 : ¬ m.t.val + 2 = m.f.val := fun hh => hno ⟨hk, Or.inr hh⟩
        simp only [if_pos hk, if_neg n1, if_neg n2]
      · simp only [if_neg hk]
    have hu5k : ∀ k, getP (unB5 (makeC p m) m (uiOf p m)) k = getP p.b k := by
      intro k
      rw [hu5]; unfold quietB; rw [hrook]
      simp only [getP_setSq _ _ _ _ hf, getP_setSq _ _ _ _ ht]
      repeat' split
      all_goals first | rfl | omega | (subst_vars; first | exact htg.symm | rfl | omega) | (exfalso; simp_all; done)
    have hnoc : ¬ (getP p.b m.f.val = (if p.wtm then WKING else BKING) ∧ (m.t.val = m.f.val + 2 ∨ m.t.val + 2 = m.f.val)) :=
      fun hh => hno ⟨hkingiff hh.1, hh.2⟩
    constructor
    · refine ⟨?_, ?_, ?_⟩
      · intro h1 h3
        rw [hmp, makeC_wtm, king_if] at h1
        exact absurd ⟨h1, Or.inl h3⟩ hnoc
      · intro h1 h3
        rw [hmp, makeC_wtm, king_if] at h1
        exact absurd ⟨h1, Or.inr h3⟩ hnoc
      · intro _ h3; rw [hmp] at h3; exact absurd h3 hnp.2
    · rw [unMakeC_eq]
      apply pos_ext
      · show unB (makeC p m) m (uiOf p m) = p.b
        have h6 : unB6 (makeC p m) m (uiOf p m) = unB5 (makeC p m) m (uiOf p m) := by
          unfold unB6
          rw [hmp, makeC_wtm, king_if]
          by_cases hk : getP p.b m.f.val = (if p.wtm then WKING else BKING)
          · have n1 : ¬ m.t.val = m.f.val + 2 := fun hh => hnoc ⟨hk, Or.inl hh⟩
            have n2 : ¬ m.t.val + 2 = m.f.val := fun hh => hnoc ⟨hk, Or.inr hh⟩
            simp only [if_pos hk, if_neg n1, if_neg n2]
          · simp only [if_neg hk]
        unfold unB
        rw [h6, hmp]
        simp only [if_neg hnp.1, if_neg hnp.2]
        apply board_ext
        intro k hk
        split <;> exact hu5k k
      · show (!(makeC p m).wtm) = p.wtm
        rw [makeC_wtm]; cases p.wtm <;> rfl
      · rfl
      · rfl
      · rfl
      · show (if (!(makeC p m).wtm) = true then (makeC p m).fmc else (makeC p m).fmc - 1) = p.fmc
        rw [makeC_wtm, makeC_fmc]
        cases p.wtm <;> simp

/-- **take-back restores the essential state**, and the calling conventions inside `unMakeMove` hold -/
theorem unmake_make_C (p : Pos) (m : Mv) (h : pseudo p m = true) (he : EpOk p) :
    UnMakeOk (makeC p m) m (uiOf p m) ∧ unMakeC (makeC p m) m (uiOf p m) = p := by
  by_cases hc : getP p.b m.t.val ≠ 0 ∨ isPawnAt p.b m.f.val
  · exact unmake_make_cap p m h he hc
  · exact unmake_make_quiet p m h hc
theorem promoOk_zero (w : Bool) (m : Mv) (h : promoOk w m = true) (hy : m.t.val / 8 ≠ (if w then 7 else 0)) : m.promo = 0 := by
  unfold promoOk at h
  have : ¬ ((m.t.y == (if w then 7 else 0)) = true) := by
    unfold Sq.y; simp only [beq_iff_eq]; exact hy
  rw [if_neg this] at h
  simpa using h

theorem epOk_makeC (p : Pos) (m : Mv) (h : pseudo p m = true) : EpOk (makeC p m) := by
  have hf := m.f.isLt
  have ht := m.t.isLt
  intro e hee
  by_cases hc : getP p.b m.t.val ≠ 0 ∨ isPawnAt p.b m.f.val
  · rw [makeC_cap p m hc] at hee ⊢
    simp only [] at hee ⊢
    unfold epNewC at hee
    simp only [] at hee
    by_cases hw : getP p.b m.f.val = WPAWN
    · obtain ⟨hwt, hpr, hmv⟩ := pseudo_wpawn p m h hw
      simp only [hw, if_true] at hee
      by_cases h16 : m.t.val = m.f.val + 16
      · simp only [if_pos h16] at hee
        split at hee
        · unfold mkSqN? at hee
          rw [dif_pos (by omega : m.f.val + 8 < 64)] at hee
          have hev : e.val = m.f.val + 8 := by
            have := Option.some.inj hee; rw [← this]
          have hd : m.f.val / 8 = 1 ∧ getP p.b m.t.val = 0 ∧ getP p.b (m.f.val + 8) = 0 := by
            rcases hmv with h1 | h1 | h1
            · omega
            · exact ⟨h1.2.1, h1.2.2.1, h1.2.2.2⟩
            · omega
          have hp0 : m.promo = 0 := promoOk_zero true m hpr (by simp only [if_true]; omega)
          have hE : epClearedB p.b m WPAWN p.ep = p.b := by unfold epClearedB; simp only [if_true, if_pos h16]
          rw [hwt, hw, hE, hev]
          simp only [Bool.not_true, Bool.false_eq_true, if_false, hp0, ne_eq, not_true_eq_false]
          constructor
          · rw [getP_setSq _ _ _ _ ht, if_neg (by omega), getP_setSq _ _ _ _ hf, if_neg (by omega)]; exact hd.2.2
          · rw [getP_setSq _ _ _ _ ht, if_pos (by omega)]
        · cases hee
      · simp only [if_neg h16] at hee; cases hee
    · by_cases hb : getP p.b m.f.val = BPAWN
      · obtain ⟨hwt, hpr, hmv⟩ := pseudo_bpawn p m h hb
        have hbw : ¬ BPAWN = WPAWN := by decide
        simp only [hb, if_neg hbw, if_true] at hee
        by_cases h16 : m.t.val + 16 = m.f.val
        · simp only [if_pos h16] at hee
          split at hee
          · unfold mkSqN? at hee
            rw [dif_pos (by omega : m.f.val - 8 < 64)] at hee
            have hev : e.val = m.f.val - 8 := by
              have := Option.some.inj hee; rw [← this]
            have hd : m.f.val / 8 = 6 ∧ getP p.b m.t.val = 0 ∧ getP p.b (m.f.val - 8) = 0 := by
              rcases hmv with h1 | h1 | h1
              · omega
              · exact ⟨h1.2.1, h1.2.2.1, h1.2.2.2⟩
              · omega
            have hp0 : m.promo = 0 := promoOk_zero false m hpr (by simp only [Bool.false_eq_true, if_false]; omega)
            have hE : epClearedB p.b m BPAWN p.ep = p.b := by unfold epClearedB; simp only [if_neg hbw, if_true, if_pos h16]
            rw [hwt, hb, hE, hev]
            simp only [Bool.not_false, if_true, hp0, ne_eq, not_true_eq_false, if_false]
            constructor
            · rw [getP_setSq _ _ _ _ ht, if_neg (by omega), getP_setSq _ _ _ _ hf, if_neg (by omega)]; exact hd.2.2
            · rw [getP_setSq _ _ _ _ ht, if_pos (by omega)]
          · cases hee
        · simp only [if_neg h16] at hee; cases hee
      · simp only [if_neg hw, if_neg hb] at hee; cases hee
  · rw [makeC_quiet p m hc] at hee
    cases hee

end PosImpl
