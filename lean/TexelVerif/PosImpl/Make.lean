import TexelVerif.PosImpl.Prims
/-!
`makeMove` / `unMakeMove` on from-scratch states: symbolic execution of the C++ statement sequence with the
primitive lemmas of `Prims.lean`.  The result is again a from-scratch state, of the essential state
`makeC p m` / `unMakeC q m ui` — the board-and-flags effect of the same statement sequence.
-/
namespace PosImpl
open Chess

@[simp] theorem f_squares (T : Tables) (p : Pos) (x : BB) : (xorHash (fresh T p) x).squares = p.b := rfl
@[simp] theorem f_whiteMove (T : Tables) (p : Pos) (x : BB) : (xorHash (fresh T p) x).whiteMove = p.wtm := rfl
@[simp] theorem f_castleMask (T : Tables) (p : Pos) (x : BB) : (xorHash (fresh T p) x).castleMask = p.castle := rfl
@[simp] theorem f_epSquare (T : Tables) (p : Pos) (x : BB) : (xorHash (fresh T p) x).epSquare = p.ep := rfl
@[simp] theorem f_hmc (T : Tables) (p : Pos) (x : BB) : (xorHash (fresh T p) x).halfMoveClock = p.hmc := rfl
@[simp] theorem f_fmc (T : Tables) (p : Pos) (x : BB) : (xorHash (fresh T p) x).fullMoveCounter = p.fmc := rfl

/-- an enemy pawn (code `pawn`) stands beside file `to % 8` on the rank starting at square `base` -/
def adjPawn (b : Board) (base to pawn : Nat) : Prop :=
  (to % 8 > 0 ∧ (getP b (base + to % 8 - 1)).toNat = pawn) ∨ (to % 8 < 7 ∧ (getP b (base + to % 8 + 1)).toNat = pawn)

instance (b : Board) (base to pawn : Nat) : Decidable (adjPawn b base to pawn) := by unfold adjPawn; infer_instance

/-- essential-state effect of the capture-or-pawn branch of `makeMove` -/
def capOrPawnC (p : Pos) (m : Mv) (pc : Pc) (prevEp : Option Sq) : Pos :=
  let from_ := m.f.val
  let to := m.t.val
  let p :=
    if pc = WPAWN then
      if to = from_ + 16 then
        if adjPawn p.b 24 to 12 then { p with ep := mkSqN? (from_ + 8) } else p
      else if prevEp = some m.t then Pos.withB p (setSq p.b (to - 8) 0)
      else p
    else if pc = BPAWN then
      if to + 16 = from_ then
        if adjPawn p.b 32 to 6 then { p with ep := mkSqN? (from_ - 8) } else p
      else if prevEp = some m.t then Pos.withB p (setSq p.b (to + 8) 0)
      else p
    else p
  let p := Pos.withB p (setSq p.b from_ 0)
  Pos.withB p (setSq p.b to (if m.promo ≠ 0 then m.promo else pc))

theorem epMaskW_test (T : Tables) (p : Pos) (x : BB) (to : Nat) :
    ((epMaskW (to % 8) &&& (xorHash (fresh T p) x).pbb 12) ≠ 0) ↔ adjPawn p.b 24 to 12 := by
  unfold epMaskW adjPawn
  exact mask_test T p x 12 (by decide) (by decide) _ _ (by omega) (by omega) _ _

theorem epMaskB_test (T : Tables) (p : Pos) (x : BB) (to : Nat) :
    ((epMaskB (to % 8) &&& (xorHash (fresh T p) x).pbb 6) ≠ 0) ↔ adjPawn p.b 32 to 6 := by
  unfold epMaskB adjPawn
  exact mask_test T p x 6 (by decide) (by decide) _ _ (by omega) (by omega) _ _

theorem makeCapOrPawn_fresh (T : Tables) (p : Pos) (x : BB) (m : Mv) (pc : Pc) (prevEp : Option Sq)
    (hb : pc = BPAWN → prevEp = some m.t → m.t.val + 8 < 64) :
    makeCapOrPawn T (xorHash (fresh T p) x) m pc prevEp = xorHash (fresh T (capOrPawnC p m pc prevEp)) x := by
  unfold makeCapOrPawn capOrPawnC
  simp only [epMaskW_test, epMaskB_test]
  have hf := m.f.isLt
  have ht := m.t.isLt
  split
  · split
    · split
      · rw [setEpSquare_fresh, clearPiece_fresh _ _ _ _ hf, setPiece_fresh _ _ _ _ _ ht]
      · rw [clearPiece_fresh _ _ _ _ hf, setPiece_fresh _ _ _ _ _ ht]
    · split
      · rw [clearPiece_fresh _ _ _ _ (by omega), clearPiece_fresh _ _ _ _ hf, setPiece_fresh _ _ _ _ _ ht]
      · rw [clearPiece_fresh _ _ _ _ hf, setPiece_fresh _ _ _ _ _ ht]
  · split
    · split
      · split
        · rw [setEpSquare_fresh, clearPiece_fresh _ _ _ _ hf, setPiece_fresh _ _ _ _ _ ht]
        · rw [clearPiece_fresh _ _ _ _ hf, setPiece_fresh _ _ _ _ _ ht]
      · split
        · rename_i h1 _ h3
          rw [clearPiece_fresh _ _ _ _ (hb h1 h3), clearPiece_fresh _ _ _ _ hf, setPiece_fresh _ _ _ _ _ ht]
        · rw [clearPiece_fresh _ _ _ _ hf, setPiece_fresh _ _ _ _ _ ht]
    · rw [clearPiece_fresh _ _ _ _ hf, setPiece_fresh _ _ _ _ _ ht]

/-- the calling convention of `movePieceNotPawn` -/
structure MoveOkAt (b : Board) (f t : Nat) : Prop where
  hf : f < 64
  ht : t < 64
  hne : getP b f ≠ 0
  hnp : isPawnPc (getP b f) = false
  hte : getP b t = 0
  hft : f ≠ t

def moveC (p : Pos) (f t : Nat) : Pos := Pos.withB p (setSq (setSq p.b f 0) t (getP p.b f))

theorem move_fresh (T : Tables) (p : Pos) (x : BB) (f t : Nat) (h : MoveOkAt p.b f t) :
    movePieceNotPawn T (xorHash (fresh T p) x) f t = xorHash (fresh T (moveC p f t)) x :=
  movePieceNotPawn_fresh T p x f t h.hf h.ht h.hne h.hnp h.hte h.hft

def isKingAt (b : Board) (n : Nat) : Prop := (getP b n).toNat = 1 ∨ (getP b n).toNat = 7
instance (b : Board) (n : Nat) : Decidable (isKingAt b n) := by unfold isKingAt; infer_instance

/-- the rook part of castling in `makeMove` -/
def rookStepC (p : Pos) (m : Mv) : Pos :=
  if isKingAt p.b m.f.val then
    if m.t.val = m.f.val + 2 then moveC p (m.f.val + 3) (m.f.val + 1)
    else if m.t.val + 2 = m.f.val then moveC p (m.f.val - 4) (m.f.val - 1)
    else p
  else p

/-- essential-state effect of the quiet non-pawn branch of `makeMove` -/
def quietC (p : Pos) (m : Mv) : Pos := moveC (rookStepC p m) m.f.val m.t.val

structure QuietOk (p : Pos) (m : Mv) : Prop where
  short : isKingAt p.b m.f.val → m.t.val = m.f.val + 2 → MoveOkAt p.b (m.f.val + 3) (m.f.val + 1)
  long : isKingAt p.b m.f.val → m.t.val + 2 = m.f.val → MoveOkAt p.b (m.f.val - 4) (m.f.val - 1)
  main : MoveOkAt (rookStepC p m).b m.f.val m.t.val

theorem makeQuiet_fresh (T : Tables) (p : Pos) (x : BB) (m : Mv) (ok : QuietOk p m) :
    makeQuiet T (xorHash (fresh T p) x) m = xorHash (fresh T (quietC p m)) x := by
  unfold makeQuiet quietC
  have hk := bb2_test T p x 1 7 (by decide) (by decide) (by decide) (by decide) m.f.val m.f.isLt
  have main := ok.main
  unfold rookStepC at main ⊢
  simp only [hk]
  by_cases h1 : isKingAt p.b m.f.val
  · have h1' : (getP p.b m.f.val).toNat = 1 ∨ (getP p.b m.f.val).toNat = 7 := h1
    simp only [if_pos h1'] ; simp only [if_pos h1] at main ⊢
    by_cases h2 : m.t.val = m.f.val + 2
    · simp only [if_pos h2] at main ⊢
      rw [move_fresh T p x _ _ (ok.short h1 h2), move_fresh T _ x _ _ main]
    · simp only [if_neg h2] at main ⊢
      by_cases h3 : m.t.val + 2 = m.f.val
      · simp only [if_pos h3] at main ⊢
        rw [move_fresh T p x _ _ (ok.long h1 h3), move_fresh T _ x _ _ main]
      · simp only [if_neg h3] at main ⊢
        rw [move_fresh T _ x _ _ main]
  · have h1' : ¬ ((getP p.b m.f.val).toNat = 1 ∨ (getP p.b m.f.val).toNat = 7) := h1
    simp only [if_neg h1'] ; simp only [if_neg h1] at main ⊢
    rw [move_fresh T _ x _ _ main]

/-! ### `makeMove` -/

def isPawnAt (b : Board) (n : Nat) : Prop := (getP b n).toNat = 6 ∨ (getP b n).toNat = 12
instance (b : Board) (n : Nat) : Decidable (isPawnAt b n) := by unfold isPawnAt; infer_instance

/-- essential-state effect of `Position::makeMove` -/
def makeC (p : Pos) (m : Mv) : Pos :=
  let p1 : Pos := { p with ep := none }
  let p2 : Pos :=
    if getP p.b m.t.val ≠ 0 ∨ isPawnAt p.b m.f.val then
      capOrPawnC { p1 with hmc := 0 } m (getP p.b m.f.val) p.ep
    else
      quietC { p1 with hmc := p.hmc + 1 } m
  let p3 : Pos := { p2 with castle := p2.castle &&& castleKeep m.f &&& castleKeep m.t }
  { p3 with wtm := !p.wtm, fmc := if p.wtm then p3.fmc else p3.fmc + 1 }

def uiOf (p : Pos) (m : Mv) : UndoInfo :=
  { capturedPiece := getP p.b m.t.val, castleMask := p.castle, epSquare := p.ep, halfMoveClock := p.hmc }

structure MakeOk (p : Pos) (m : Mv) : Prop where
  epB : getP p.b m.f.val = BPAWN → p.ep = some m.t → m.t.val + 8 < 64
  quiet : getP p.b m.t.val = 0 → ¬ isPawnAt p.b m.f.val → QuietOk { p with ep := none, hmc := p.hmc + 1 } m

theorem makeMove_fresh_C (T : Tables) (p : Pos) (m : Mv) (ok : MakeOk p m) :
    makeMove T (fresh T p) m = (fresh T (makeC p m), uiOf p m) := by
  unfold makeMove makeC
  have hpawn := bb2_test T { p with ep := none } T.white 6 12 (by decide) (by decide) (by decide) (by decide) m.f.val m.f.isLt
  simp only [setEpSquare_fresh, setHalfMoveClock_fresh, f_squares, f_whiteMove, f_castleMask, f_epSquare, f_hmc, f_fmc,
    getPiece_fresh, hpawn]
  show (_, uiOf p m) = _
  congr 1
  by_cases hc : getP p.b m.t.val ≠ 0 ∨ isPawnAt p.b m.f.val
  · have hc' : getP p.b m.t.val ≠ 0 ∨ ((getP p.b m.f.val).toNat = 6 ∨ (getP p.b m.f.val).toNat = 12) := hc
    simp only [if_pos hc, if_pos hc']
    rw [makeCapOrPawn_fresh T _ _ m _ _ ok.epB]
    simp only [setCastleMask_fresh, f_castleMask, f_fmc]
    exact finish_fresh T _ p.wtm _ (by
      unfold capOrPawnC Pos.withB
      simp only []
      split <;> (try split) <;> (try split) <;> (try split) <;> rfl)
  · have hc' : ¬ (getP p.b m.t.val ≠ 0 ∨ ((getP p.b m.f.val).toNat = 6 ∨ (getP p.b m.f.val).toNat = 12)) := hc
    simp only [if_neg hc, if_neg hc']
    have hq := ok.quiet (by
      apply Classical.byContradiction; intro h; exact hc (Or.inl h)) (fun h => hc (Or.inr h))
    rw [makeQuiet_fresh T _ _ m hq]
    simp only [setCastleMask_fresh, f_castleMask, f_fmc]
    exact finish_fresh T _ p.wtm _ (by
      unfold quietC rookStepC moveC Pos.withB
      simp only []
      split <;> (try split) <;> (try split) <;> rfl)

/-! ### `unMakeMove` -/

/-- the piece that moved, as `unMakeMove` determines it -/
def movedPc (q : Pos) (m : Mv) : Pc :=
  if m.promo ≠ 0 then (if !q.wtm then WPAWN else BPAWN) else getP q.b m.t.val

/-- state of `unMakeMove` before the castling and en-passant fix-ups -/
def unMakeC5 (q : Pos) (m : Mv) (ui : UndoInfo) : Pos :=
  let q0 : Pos := { q with wtm := !q.wtm }
  let q1 := Pos.withB q0 (setSq q0.b m.t.val ui.capturedPiece)
  let q2 := Pos.withB q1 (setSq q1.b m.f.val (getP q.b m.t.val))
  let q3 : Pos := { q2 with castle := ui.castleMask, ep := ui.epSquare, hmc := ui.halfMoveClock }
  let q4 := if m.promo ≠ 0 then Pos.withB q3 (setSq q3.b m.f.val (movedPc q m)) else q3
  if !q.wtm then q4 else { q4 with fmc := q4.fmc - 1 }

def unMakeC6 (q : Pos) (m : Mv) (ui : UndoInfo) : Pos :=
  let q5 := unMakeC5 q m ui
  if movedPc q m = (if !q.wtm then WKING else BKING) then
    if m.t.val = m.f.val + 2 then moveC q5 (m.f.val + 1) (m.f.val + 3)
    else if m.t.val + 2 = m.f.val then moveC q5 (m.f.val - 1) (m.f.val - 4)
    else q5
  else q5

/-- essential-state effect of `Position::unMakeMove` -/
def unMakeC (q : Pos) (m : Mv) (ui : UndoInfo) : Pos :=
  let q6 := unMakeC6 q m ui
  if ui.epSquare = some m.t then
    if movedPc q m = WPAWN then Pos.withB q6 (setSq q6.b (m.t.val - 8) BPAWN)
    else if movedPc q m = BPAWN then Pos.withB q6 (setSq q6.b (m.t.val + 8) WPAWN)
    else q6
  else q6

structure UnMakeOk (q : Pos) (m : Mv) (ui : UndoInfo) : Prop where
  short : movedPc q m = (if !q.wtm then WKING else BKING) → m.t.val = m.f.val + 2 →
    MoveOkAt (unMakeC5 q m ui).b (m.f.val + 1) (m.f.val + 3)
  long : movedPc q m = (if !q.wtm then WKING else BKING) → m.t.val + 2 = m.f.val →
    MoveOkAt (unMakeC5 q m ui).b (m.f.val - 1) (m.f.val - 4)
  epB : ui.epSquare = some m.t → movedPc q m = BPAWN → m.t.val + 8 < 64

theorem unMakeC5_wtm (q : Pos) (m : Mv) (ui : UndoInfo) : (unMakeC5 q m ui).wtm = !q.wtm := by
  unfold unMakeC5 Pos.withB; simp only []; split <;> split <;> rfl

theorem unMakeC6_ep (q : Pos) (m : Mv) (ui : UndoInfo) : (unMakeC6 q m ui).ep = ui.epSquare := by
  unfold unMakeC6 unMakeC5 moveC Pos.withB; simp only []
  split <;> (try split) <;> (try split) <;> (try split) <;> (try split) <;> rfl

theorem unMakeMove_fresh_C (T : Tables) (q : Pos) (m : Mv) (ui : UndoInfo) (ok : UnMakeOk q m ui) :
    unMakeMove T (fresh T q) m ui = fresh T (unMakeC q m ui) := by
  have hf := m.f.isLt
  have ht := m.t.isLt
  -- the straight-line part
  have h5 : ∀ {α : Type} (k : Bool → Pc → PosImpl → α),
      (let s := toggleSide T (xorHash (fresh T q) 0)
       let p := s.getPiece m.t.val
       let s := setPiece T s m.t.val ui.capturedPiece
       let s := setPiece T s m.f.val p
       let s := setCastleMask T s ui.castleMask
       let s := setEpSquare T s ui.epSquare
       let s := setHalfMoveClock s ui.halfMoveClock
       let wtm := s.whiteMove
       let p2 : Pc := if m.promo ≠ 0 then (if wtm then WPAWN else BPAWN) else p
       let s := if m.promo ≠ 0 then setPiece T s m.f.val p2 else s
       let s := if wtm then s else setFullMoveCounter s (s.fullMoveCounter - 1)
       k wtm p2 s) = k (!q.wtm) (movedPc q m) (xorHash (fresh T (unMakeC5 q m ui)) 0) := by
    intro α k
    simp only [toggleSide_fresh, getPiece_fresh, setPiece_fresh _ _ _ _ _ ht, setPiece_fresh _ _ _ _ _ hf,
      setCastleMask_fresh, setEpSquare_fresh, setHalfMoveClock_fresh, f_whiteMove, f_fmc]
    unfold unMakeC5 movedPc
    simp only [Pos.withB]
    by_cases hp : m.promo ≠ 0
    · simp only [if_pos hp, setPiece_fresh _ _ _ _ _ hf, f_fmc, Pos.withB]
      cases hw : q.wtm <;> simp [setFullMoveCounter_fresh]
    · simp only [if_neg hp, f_fmc]
      cases hw : q.wtm <;> simp [setFullMoveCounter_fresh]
  rw [← xorHash_zero (fresh T q)]
  refine Eq.trans (h5 (fun wtm p2 s =>
      let king : Pc := if wtm then WKING else BKING
      let s :=
        if p2 = king then
          if m.t.val = m.f.val + 2 then movePieceNotPawn T s (m.f.val + 1) (m.f.val + 3)
          else if m.t.val + 2 = m.f.val then movePieceNotPawn T s (m.f.val - 1) (m.f.val - 4)
          else s
        else s
      if s.epSquare = some m.t then
        if p2 = WPAWN then setPiece T s (m.t.val - 8) BPAWN
        else if p2 = BPAWN then setPiece T s (m.t.val + 8) WPAWN
        else s
      else s)) ?_
  unfold unMakeC
  simp only []
  -- castling fix-up
  have h6 : (if movedPc q m = (if (!q.wtm) = true then WKING else BKING) then
        if m.t.val = m.f.val + 2 then movePieceNotPawn T (xorHash (fresh T (unMakeC5 q m ui)) 0) (m.f.val + 1) (m.f.val + 3)
        else if m.t.val + 2 = m.f.val then movePieceNotPawn T (xorHash (fresh T (unMakeC5 q m ui)) 0) (m.f.val - 1) (m.f.val - 4)
        else xorHash (fresh T (unMakeC5 q m ui)) 0
      else xorHash (fresh T (unMakeC5 q m ui)) 0) = xorHash (fresh T (unMakeC6 q m ui)) 0 := by
    unfold unMakeC6
    simp only []
    by_cases h1 : movedPc q m = (if (!q.wtm) = true then WKING else BKING)
    · simp only [if_pos h1]
      by_cases h2 : m.t.val = m.f.val + 2
      · simp only [if_pos h2]; rw [move_fresh T _ _ _ _ (ok.short h1 h2)]
      · simp only [if_neg h2]
        by_cases h3 : m.t.val + 2 = m.f.val
        · simp only [if_pos h3]; rw [move_fresh T _ _ _ _ (ok.long h1 h3)]
        · simp only [if_neg h3]
    · simp only [if_neg h1]
  simp only [h6, f_epSquare, unMakeC6_ep]
  by_cases h1 : ui.epSquare = some m.t
  · simp only [if_pos h1]
    by_cases h2 : movedPc q m = WPAWN
    · simp only [if_pos h2]; rw [setPiece_fresh _ _ _ _ _ (by omega), xorHash_zero]
    · simp only [if_neg h2]
      by_cases h3 : movedPc q m = BPAWN
      · simp only [if_pos h3]; rw [setPiece_fresh _ _ _ _ _ (ok.epB h1 h3), xorHash_zero]
      · simp only [if_neg h3]; rw [xorHash_zero]
  · simp only [if_neg h1]; rw [xorHash_zero]
