import TexelVerif.PosImpl.Make
/-!
What a pseudo-legal move looks like in square-index terms (consequences of `Chess.pseudo`), and from these:
the calling conventions inside `makeMove`/`unMakeMove` hold, `makeC = Chess.apply`, `unMakeC ∘ makeC = id`.
-/
namespace PosImpl
open Chess

theorem at_eq (p : Pos) (s : Sq) : p.at s = getP p.b s.val := by
  unfold Pos.at; rw [getP_eq _ _ s.isLt]; rfl

set_option maxRecDepth 100000 in
theorem own_true_cases : ∀ (w : Bool) (n : Fin 256), own w (UInt8.ofNat n.val) = true →
    (w = true ∧ 1 ≤ n.val ∧ n.val ≤ 6) ∨ (w = false ∧ 7 ≤ n.val ∧ n.val ≤ 12) := by decide +kernel

theorem pseudo_basic (p : Pos) (m : Mv) (h : pseudo p m = true) :
    own p.wtm (getP p.b m.f.val) = true ∧ own p.wtm (getP p.b m.t.val) = false ∧ m.f.val ≠ m.t.val := by
  unfold pseudo at h
  simp only [Bool.and_eq_true, at_eq] at h
  obtain ⟨⟨⟨h1, h2⟩, h3⟩, _⟩ := h
  refine ⟨h1, by simpa using h2, ?_⟩
  intro e
  have : m.f = m.t := Fin.ext e
  simp [this] at h3
theorem mkSq?_some (x y : Int) (q : Sq) (h : mkSq? x y = some q) :
    (q.val : Int) = y * 8 + x ∧ 0 ≤ x ∧ x < 8 ∧ 0 ≤ y ∧ y < 8 := by
  unfold mkSq? at h
  split at h
  · rename_i hc
    have := Option.some.inj h
    subst this
    refine ⟨?_, hc⟩
    simp only []
    omega
  · cases h

theorem mkSq?_none (x y : Int) (h : mkSq? x y = none) : ¬ (0 ≤ x ∧ x < 8 ∧ 0 ≤ y ∧ y < 8) := by
  unfold mkSq? at h
  split at h
  · cases h
  · assumption

theorem pseudo_wpawn (p : Pos) (m : Mv) (h : pseudo p m = true) (hpc : getP p.b m.f.val = WPAWN) :
    p.wtm = true ∧ promoOk true m = true ∧
    ((m.t.val = m.f.val + 8 ∧ getP p.b m.t.val = 0) ∨
     (m.t.val = m.f.val + 16 ∧ m.f.val / 8 = 1 ∧ getP p.b m.t.val = 0 ∧ getP p.b (m.f.val + 8) = 0) ∨
     (((m.t.val + 1 = m.f.val + 8 ∧ m.f.val % 8 ≠ 0) ∨ (m.t.val = m.f.val + 9 ∧ m.f.val % 8 ≠ 7)) ∧
        (getP p.b m.t.val ≠ 0 ∨ p.ep = some m.t))) := by
  have hb := pseudo_basic p m h
  have hw : p.wtm = true := by
    have := hb.1; rw [hpc] at this
    cases hh : p.wtm
    · rw [hh] at this; exact absurd this (by decide)
    · rfl
  unfold pseudo at h
  simp only [Bool.and_eq_true, at_eq, hpc, hw] at h
  obtain ⟨_, h4⟩ := h
  have hk : kind WPAWN = 6 := by decide
  simp only [hk, Bool.and_eq_true, Bool.or_eq_true, beq_iff_eq, bne_iff_ne, if_true, ne_eq] at h4
  obtain ⟨hpr, hmv⟩ := h4
  refine ⟨hw, hpr, ?_⟩
  have hf := m.f.isLt
  have ht := m.t.isLt
  unfold dxy Sq.x Sq.y at hmv
  simp only [] at hmv
  rcases hmv with (⟨⟨h1, h2⟩, h3⟩ | ⟨⟨⟨⟨h1, h2⟩, h3⟩, h4⟩, h5⟩) | ⟨⟨h1, h2⟩, h3⟩
  · left; exact ⟨by omega, h3⟩
  · right; left
    refine ⟨by omega, by omega, h4, ?_⟩
    cases hq : mkSq? ((m.f.val % 8 : Nat) : Int) (((m.f.val / 8 : Nat) : Int) + 1) with
    | none =>
      have := mkSq?_none _ _ hq
      omega
    | some q =>
      rw [hq] at h5
      simp only [beq_iff_eq] at h5
      have := (mkSq?_some _ _ q hq).1
      have : q.val = m.f.val + 8 := by omega
      rw [← this]; exact h5
  · right; right
    refine ⟨by omega, ?_⟩
    rcases h3 with h3 | h3
    · left; exact h3
    · right; exact h3

theorem pseudo_bpawn (p : Pos) (m : Mv) (h : pseudo p m = true) (hpc : getP p.b m.f.val = BPAWN) :
    p.wtm = false ∧ promoOk false m = true ∧
    ((m.t.val + 8 = m.f.val ∧ getP p.b m.t.val = 0) ∨
     (m.t.val + 16 = m.f.val ∧ m.f.val / 8 = 6 ∧ getP p.b m.t.val = 0 ∧ getP p.b (m.f.val - 8) = 0) ∨
     (((m.t.val + 9 = m.f.val ∧ m.f.val % 8 ≠ 0) ∨ (m.t.val + 7 = m.f.val ∧ m.f.val % 8 ≠ 7)) ∧
        (getP p.b m.t.val ≠ 0 ∨ p.ep = some m.t))) := by
  have hb := pseudo_basic p m h
  have hw : p.wtm = false := by
    have := hb.1; rw [hpc] at this
    cases hh : p.wtm
    · rfl
    · rw [hh] at this; exact absurd this (by decide)
  unfold pseudo at h
  simp only [Bool.and_eq_true, at_eq, hpc, hw] at h
  obtain ⟨_, h4⟩ := h
  have hk : kind BPAWN = 6 := by decide
  simp only [hk, Bool.and_eq_true, Bool.or_eq_true, beq_iff_eq, bne_iff_ne, ne_eq, Bool.false_eq_true, if_false] at h4
  obtain ⟨hpr, hmv⟩ := h4
  refine ⟨hw, hpr, ?_⟩
  have hf := m.f.isLt
  have ht := m.t.isLt
  unfold dxy Sq.x Sq.y at hmv
  simp only [] at hmv
  rcases hmv with (⟨⟨h1, h2⟩, h3⟩ | ⟨⟨⟨⟨h1, h2⟩, h3⟩, h4⟩, h5⟩) | ⟨⟨h1, h2⟩, h3⟩
  · left; exact ⟨by omega, h3⟩
  · right; left
    refine ⟨by omega, by omega, h4, ?_⟩
    cases hq : mkSq? ((m.f.val % 8 : Nat) : Int) (((m.f.val / 8 : Nat) : Int) + -1) with
    | none =>
      have := mkSq?_none _ _ hq
      omega
    | some q =>
      rw [hq] at h5
      simp only [beq_iff_eq] at h5
      have := (mkSq?_some _ _ q hq).1
      have : q.val = m.f.val - 8 := by omega
      rw [← this]; exact h5
  · right; right
    refine ⟨by omega, ?_⟩
    rcases h3 with h3 | h3
    · left; exact h3
    · right; exact h3

theorem pseudo_king (p : Pos) (m : Mv) (h : pseudo p m = true) (hk : kind (getP p.b m.f.val) = 1) :
    m.promo = 0 ∧
    ((m.t.val ≠ m.f.val + 2 ∧ m.t.val + 2 ≠ m.f.val) ∨
     (m.t.val = m.f.val + 2 ∧ m.f.val = (if p.wtm then 4 else 60) ∧ castleOk p true = true) ∨
     (m.t.val + 2 = m.f.val ∧ m.f.val = (if p.wtm then 4 else 60) ∧ castleOk p false = true)) := by
  unfold pseudo at h
  simp only [Bool.and_eq_true, at_eq] at h
  obtain ⟨_, h4⟩ := h
  simp only [hk, Bool.and_eq_true, Bool.or_eq_true, beq_iff_eq, decide_eq_true_eq] at h4
  obtain ⟨hpr, hmv⟩ := h4
  refine ⟨hpr, ?_⟩
  have hf := m.f.isLt
  have ht := m.t.isLt
  unfold dxy Sq.x Sq.y at hmv
  simp only [] at hmv
  rcases hmv with (⟨h1, h2⟩ | ⟨⟨⟨h1, h2⟩, h3⟩, h4⟩) | ⟨⟨⟨h1, h2⟩, h3⟩, h4⟩
  · left; omega
  · right; left; exact ⟨by omega, h3, h4⟩
  · right; right; exact ⟨by omega, h3, h4⟩

theorem pseudo_other (p : Pos) (m : Mv) (h : pseudo p m = true) (hk6 : kind (getP p.b m.f.val) ≠ 6) : m.promo = 0 := by
  unfold pseudo at h
  simp only [Bool.and_eq_true, at_eq] at h
  obtain ⟨_, h4⟩ := h
  split at h4
  · rename_i h6; exact absurd h6 hk6
  · simp only [Bool.and_eq_true, beq_iff_eq] at h4; exact h4.1
  · simp only [Bool.and_eq_true, beq_iff_eq] at h4; exact h4.1

/-! ### piece-code facts (finite checks over all 256 codes) -/

theorem forall_pc (P : Pc → Prop) (h : ∀ n : Fin 256, P (UInt8.ofNat n.val)) (pc : Pc) : P pc := by
  have := h ⟨pc.toNat, pc.toNat_lt⟩
  simpa using this

def PcFacts (pc : Pc) : Prop :=
    ((pc.toNat = 1 ∨ pc.toNat = 7) ↔ kind pc = 1) ∧
    ((pc.toNat = 6 ∨ pc.toNat = 12) ↔ kind pc = 6) ∧
    (isPawnPc pc = true ↔ kind pc = 6) ∧
    (own true pc = true → pc ≠ 0 ∧ pcWhite pc = true ∧ (kind pc = 6 → pc = WPAWN) ∧ (kind pc = 1 → pc = WKING)) ∧
    (own false pc = true → pc ≠ 0 ∧ pcWhite pc = false ∧ (kind pc = 6 → pc = BPAWN) ∧ (kind pc = 1 → pc = BKING)) ∧
    (own true pc = true → own false pc = false) ∧ (own false pc = true → own true pc = false)

instance (pc : Pc) : Decidable (PcFacts pc) := by unfold PcFacts; infer_instance

set_option maxRecDepth 100000 in
theorem pc_facts_all : ∀ n : Fin 256, PcFacts (UInt8.ofNat n.val) := by decide +kernel

theorem pcFacts (pc : Pc) : PcFacts pc := forall_pc PcFacts pc_facts_all pc

theorem kingAt_iff (b : Board) (n : Nat) : isKingAt b n ↔ kind (getP b n) = 1 := (pcFacts (getP b n)).1
theorem pawnAt_iff (b : Board) (n : Nat) : isPawnAt b n ↔ kind (getP b n) = 6 := (pcFacts (getP b n)).2.1
theorem isPawnPc_iff (pc : Pc) : isPawnPc pc = true ↔ kind pc = 6 := (pcFacts pc).2.2.1
theorem own_white (pc : Pc) (h : own true pc = true) :
    pc ≠ 0 ∧ pcWhite pc = true ∧ (kind pc = 6 → pc = WPAWN) ∧ (kind pc = 1 → pc = WKING) :=
  (pcFacts pc).2.2.2.1 h
theorem own_black (pc : Pc) (h : own false pc = true) :
    pc ≠ 0 ∧ pcWhite pc = false ∧ (kind pc = 6 → pc = BPAWN) ∧ (kind pc = 1 → pc = BKING) :=
  (pcFacts pc).2.2.2.2.1 h

theorem own_ne_zero (w : Bool) (pc : Pc) (h : own w pc = true) : pc ≠ 0 := by
  cases w
  · exact (own_black pc h).1
  · exact (own_white pc h).1

/-! ### castling conditions -/

theorem castleOk_short (p : Pos) (h : castleOk p true = true) :
    getP p.b ((if p.wtm then 4 else 60) + 1) = 0 ∧ getP p.b ((if p.wtm then 4 else 60) + 2) = 0 ∧
    getP p.b ((if p.wtm then 4 else 60) + 3) = (if p.wtm then WROOK else BROOK) := by
  unfold castleOk at h
  simp only [Bool.and_eq_true, beq_iff_eq, if_true] at h
  obtain ⟨_, ⟨⟨⟨h1, h2⟩, h3⟩, _⟩⟩ := h
  exact ⟨h1, h2, h3⟩

theorem castleOk_long (p : Pos) (h : castleOk p false = true) :
    getP p.b ((if p.wtm then 4 else 60) - 1) = 0 ∧ getP p.b ((if p.wtm then 4 else 60) - 2) = 0 ∧
    getP p.b ((if p.wtm then 4 else 60) - 3) = 0 ∧
    getP p.b ((if p.wtm then 4 else 60) - 4) = (if p.wtm then WROOK else BROOK) := by
  unfold castleOk at h
  simp only [Bool.and_eq_true, beq_iff_eq, Bool.false_eq_true, if_false] at h
  obtain ⟨_, ⟨⟨⟨⟨h1, h2⟩, h3⟩, h4⟩, _⟩⟩ := h
  exact ⟨h1, h2, h3, h4⟩

/-! ### the calling conventions hold for pseudo-legal moves -/

/-- the en-passant flag is meaningful: its square is empty and the pawn that made the double step stands behind it
    (what `readFEN` enforces and `makeMove` establishes) -/
def EpOk (p : Pos) : Prop :=
  ∀ e, p.ep = some e → getP p.b e.val = 0 ∧
    getP p.b (if p.wtm then e.val - 8 else e.val + 8) = (if p.wtm then BPAWN else WPAWN)

instance (p : Pos) : Decidable (EpOk p) := by
  unfold EpOk
  cases h : p.ep with
  | none => exact isTrue (by intro e he; cases he)
  | some e0 =>
    exact decidable_of_iff (getP p.b e0.val = 0 ∧ getP p.b (if p.wtm then e0.val - 8 else e0.val + 8) = (if p.wtm then BPAWN else WPAWN))
      ⟨fun hh e he => by cases he; exact hh, fun hh => hh e0 rfl⟩

theorem rook_not_pawn (w : Bool) : (if w then WROOK else BROOK) ≠ (0 : Pc) ∧ isPawnPc (if w then WROOK else BROOK) = false := by
  cases w <;> decide

theorem makeOk_of_pseudo (p : Pos) (m : Mv) (h : pseudo p m = true) (he : EpOk p) : MakeOk p m := by
  have hb := pseudo_basic p m h
  have hf := m.f.isLt
  have ht := m.t.isLt
  constructor
  · intro hpc hep
    have hw := (pseudo_bpawn p m h hpc).1
    have h2 := (he m.t hep).2
    rw [hw] at h2
    simp only [Bool.false_eq_true, if_false] at h2
    apply Classical.byContradiction
    intro hlt
    rw [getP_oob _ _ hlt] at h2
    exact absurd h2 (by decide)
  · intro htg hnp
    have hk6 : kind (getP p.b m.f.val) ≠ 6 := fun hk => hnp ((pawnAt_iff _ _).2 hk)
    have hne : getP p.b m.f.val ≠ 0 := own_ne_zero _ _ hb.1
    have hnpp : isPawnPc (getP p.b m.f.val) = false := by
      cases hh : isPawnPc (getP p.b m.f.val)
      · rfl
      · exact absurd ((isPawnPc_iff _).1 hh) hk6
    have short : isKingAt p.b m.f.val → m.t.val = m.f.val + 2 → MoveOkAt p.b (m.f.val + 3) (m.f.val + 1) := by
      intro hk h2
      rcases (pseudo_king p m h ((kingAt_iff _ _).1 hk)).2 with h3 | ⟨_, h4, h5⟩ | ⟨h3, _, _⟩
      · exact absurd h2 h3.1
      · have hc := castleOk_short p h5
        rw [← h4] at hc
        have hr := rook_not_pawn p.wtm
        exact ⟨by cases hw : p.wtm <;> simp [hw] at h4 <;> omega, by omega, by rw [hc.2.2]; exact hr.1,
          by rw [hc.2.2]; exact hr.2, hc.1, by omega⟩
      · omega
    have long : isKingAt p.b m.f.val → m.t.val + 2 = m.f.val → MoveOkAt p.b (m.f.val - 4) (m.f.val - 1) := by
      intro hk h2
      rcases (pseudo_king p m h ((kingAt_iff _ _).1 hk)).2 with h3 | ⟨h3, _, _⟩ | ⟨_, h4, h5⟩
      · exact absurd h2 h3.2
      · omega
      · have hc := castleOk_long p h5
        rw [← h4] at hc
        have hr := rook_not_pawn p.wtm
        have : m.f.val ≥ 4 := by cases hw : p.wtm <;> simp [hw] at h4 <;> omega
        exact ⟨by omega, by omega, by rw [hc.2.2.2]; exact hr.1, by rw [hc.2.2.2]; exact hr.2, hc.1, by omega⟩
    refine ⟨short, long, ?_⟩
    -- the king / piece move itself, on the board after the rook step
    unfold rookStepC
    simp only []
    by_cases hk : isKingAt p.b m.f.val
    · simp only [if_pos hk]
      by_cases h2 : m.t.val = m.f.val + 2
      · simp only [if_pos h2]
        have ok := short hk h2
        unfold moveC Pos.withB
        simp only []
        refine ⟨hf, ht, ?_, ?_, ?_, hb.2.2⟩
        · rw [getP_setSq _ _ _ _ ok.ht, if_neg (by omega), getP_setSq _ _ _ _ ok.hf, if_neg (by omega)]; exact hne
        · rw [getP_setSq _ _ _ _ ok.ht, if_neg (by omega), getP_setSq _ _ _ _ ok.hf, if_neg (by omega)]; exact hnpp
        · rw [getP_setSq _ _ _ _ ok.ht, if_neg (by omega), getP_setSq _ _ _ _ ok.hf, if_neg (by omega)]; exact htg
      · simp only [if_neg h2]
        by_cases h3 : m.t.val + 2 = m.f.val
        · simp only [if_pos h3]
          have ok := long hk h3
          have : m.f.val ≥ 4 := by
            rcases (pseudo_king p m h ((kingAt_iff _ _).1 hk)).2 with h4 | ⟨h4, _, _⟩ | ⟨_, h4, _⟩
            · exact absurd h3 h4.2
            · omega
            · cases hw : p.wtm <;> simp [hw] at h4 <;> omega
          unfold moveC Pos.withB
          simp only []
          refine ⟨hf, ht, ?_, ?_, ?_, hb.2.2⟩
          · rw [getP_setSq _ _ _ _ ok.ht, if_neg (by omega), getP_setSq _ _ _ _ ok.hf, if_neg (by omega)]; exact hne
          · rw [getP_setSq _ _ _ _ ok.ht, if_neg (by omega), getP_setSq _ _ _ _ ok.hf, if_neg (by omega)]; exact hnpp
          · rw [getP_setSq _ _ _ _ ok.ht, if_neg (by omega), getP_setSq _ _ _ _ ok.hf, if_neg (by omega)]; exact htg
        · simp only [if_neg h3]
          exact ⟨hf, ht, hne, hnpp, htg, hb.2.2⟩
    · simp only [if_neg hk]
      exact ⟨hf, ht, hne, hnpp, htg, hb.2.2⟩

/-! ### `makeC` is the specification's `apply` -/

theorem pos_ext {a b : Pos} (h1 : a.b = b.b) (h2 : a.wtm = b.wtm) (h3 : a.castle = b.castle) (h4 : a.ep = b.ep)
    (h5 : a.hmc = b.hmc) (h6 : a.fmc = b.fmc) : a = b := by
  cases a; cases b; simp_all

theorem toNat_eq_iff (pc : Pc) (n : Nat) (hn : n < 256) : pc.toNat = n ↔ pc = UInt8.ofNat n := by
  constructor
  · intro h; apply UInt8.toNat_inj.1; rw [h]; simp; omega
  · intro h; rw [h]; simp; omega

/-- fields of `apply` other than board and e.p. square -/
theorem apply_wtm (p : Pos) (m : Mv) : (Chess.apply p m).wtm = !p.wtm := rfl
theorem apply_castle (p : Pos) (m : Mv) : (Chess.apply p m).castle = p.castle &&& castleKeep m.f &&& castleKeep m.t := rfl
theorem apply_fmc (p : Pos) (m : Mv) : (Chess.apply p m).fmc = if p.wtm then p.fmc else p.fmc + 1 := rfl
theorem apply_hmc (p : Pos) (m : Mv) :
    (Chess.apply p m).hmc = if (kind (getP p.b m.f.val) == 6 || getP p.b m.t.val != 0) then 0 else p.hmc + 1 := by
  unfold Chess.apply; simp only [at_eq]

/-- board after the en-passant removal step of the capture-or-pawn branch -/
def epClearedB (b : Board) (m : Mv) (pc : Pc) (prevEp : Option Sq) : Board :=
  if pc = WPAWN then
    if m.t.val = m.f.val + 16 then b
    else if prevEp = some m.t then setSq b (m.t.val - 8) 0 else b
  else if pc = BPAWN then
    if m.t.val + 16 = m.f.val then b
    else if prevEp = some m.t then setSq b (m.t.val + 8) 0 else b
  else b

def epNewC (p : Pos) (m : Mv) (pc : Pc) : Option Sq :=
  if pc = WPAWN then
    if m.t.val = m.f.val + 16 then (if adjPawn p.b 24 m.t.val 12 then mkSqN? (m.f.val + 8) else p.ep) else p.ep
  else if pc = BPAWN then
    if m.t.val + 16 = m.f.val then (if adjPawn p.b 32 m.t.val 6 then mkSqN? (m.f.val - 8) else p.ep) else p.ep
  else p.ep

theorem capOrPawnC_b (p : Pos) (m : Mv) (pc : Pc) (prevEp : Option Sq) :
    (capOrPawnC p m pc prevEp).b =
      setSq (setSq (epClearedB p.b m pc prevEp) m.f.val 0) m.t.val (if m.promo ≠ 0 then m.promo else pc) := by
  unfold capOrPawnC epClearedB Pos.withB
  simp only []
  split <;> (try split) <;> (try split) <;> (try split) <;> rfl

theorem capOrPawnC_ep (p : Pos) (m : Mv) (pc : Pc) (prevEp : Option Sq) :
    (capOrPawnC p m pc prevEp).ep = epNewC p m pc := by
  unfold capOrPawnC epNewC Pos.withB
  simp only []
  split <;> (try split) <;> (try split) <;> (try split) <;> rfl

theorem capOrPawnC_rest (p : Pos) (m : Mv) (pc : Pc) (prevEp : Option Sq) :
    (capOrPawnC p m pc prevEp).wtm = p.wtm ∧ (capOrPawnC p m pc prevEp).castle = p.castle ∧
    (capOrPawnC p m pc prevEp).hmc = p.hmc ∧ (capOrPawnC p m pc prevEp).fmc = p.fmc := by
  unfold capOrPawnC Pos.withB
  simp only []
  split <;> (try split) <;> (try split) <;> (try split) <;> exact ⟨rfl, rfl, rfl, rfl⟩

theorem quietC_rest (p : Pos) (m : Mv) :
    (quietC p m).wtm = p.wtm ∧ (quietC p m).castle = p.castle ∧ (quietC p m).ep = p.ep ∧
    (quietC p m).hmc = p.hmc ∧ (quietC p m).fmc = p.fmc := by
  unfold quietC rookStepC moveC Pos.withB
  simp only []
  split <;> (try split) <;> (try split) <;> exact ⟨rfl, rfl, rfl, rfl, rfl⟩

end PosImpl
