import TexelVerif.PosImpl.Make
/-!
What a pseudo-legal move looks like in square-index terms (consequences of `Chess.pseudo`), and from these:
the calling conventions inside `makeMove`/`unMakeMove` hold, `makeC = Chess.apply`, `unMakeC ∘ makeC = id`.
-/
namespace PosImpl
open Chess

theorem at_eq (p : Pos) (s : Sq) : p.at s = getP p.b s.val := by
  unfold Pos.at; rw [getP_eq _ _ s.isLt]; rfl

set_option maxRecDepth 100000 in
theorem own_true_cases : ∀ (w : Bool) (n : Fin 256), own w (UInt8.ofNat n.val) = true →
    (w = true ∧ 1 ≤ n.val ∧ n.val ≤ 6) ∨ (w = false ∧ 7 ≤ n.val ∧ n.val ≤ 12) := by decide +kernel

theorem pseudo_basic (p : Pos) (m : Mv) (h : pseudo p m = true) :
    own p.wtm (getP p.b m.f.val) = true ∧ own p.wtm (getP p.b m.t.val) = false ∧ m.f.val ≠ m.t.val := by
  unfold pseudo at h
  simp only [Bool.and_eq_true, at_eq] at h
  obtain ⟨⟨⟨h1, h2⟩, h3⟩, _⟩ := h
  refine ⟨h1, by simpa using h2, ?_⟩
  intro e
  have : m.f = m.t := Fin.ext e
  simp [this] at h3
theorem mkSq?_some (x y : Int) (q : Sq) (h : mkSq? x y = some q) :
    (q.val : Int) = y * 8 + x ∧ 0 ≤ x ∧ x < 8 ∧ 0 ≤ y ∧ y < 8 := by
  unfold mkSq? at h
  split at h
  · rename_i hc
    have := Option.some.inj h
    subst this
    refine ⟨?_, hc⟩
    simp only []
    omega
  · cases h

theorem mkSq?_none (x y : Int) (h : mkSq? x y = none) : ¬ (0 ≤ x ∧ x < 8 ∧ 0 ≤ y ∧ y < 8) := by
  unfold mkSq? at h
  split at h
  · cases h
  · assumption

theorem pseudo_wpawn (p : Pos) (m : Mv) (h : pseudo p m = true) (hpc : getP p.b m.f.val = WPAWN) :
    p.wtm = true ∧ promoOk true m = true ∧
    ((m.t.val = m.f.val + 8 ∧ getP p.b m.t.val = 0) ∨
     (m.t.val = m.f.val + 16 ∧ m.f.val / 8 = 1 ∧ getP p.b m.t.val = 0 ∧ getP p.b (m.f.val + 8) = 0) ∨
     (((m.t.val + 1 = m.f.val + 8 ∧ m.f.val % 8 ≠ 0) ∨ (m.t.val = m.f.val + 9 ∧ m.f.val % 8 ≠ 7)) ∧
        (getP p.b m.t.val ≠ 0 ∨ p.ep = some m.t))) := by
  have hb := pseudo_basic p m h
  have hw : p.wtm = true := by
    have := hb.1; rw [hpc] at this
    cases hh : p.wtm
    · rw [hh] at this; exact absurd this (by decide)
    · rfl
  unfold pseudo at h
  simp only [Bool.and_eq_true, at_eq, hpc, hw] at h
  obtain ⟨_, h4⟩ := h
  have hk : kind WPAWN = 6 := by decide
  simp only [hk, Bool.and_eq_true, Bool.or_eq_true, beq_iff_eq, bne_iff_ne, if_true, ne_eq] at h4
  obtain ⟨hpr, hmv⟩ := h4
  refine ⟨hw, hpr, ?_⟩
  have hf := m.f.isLt
  have ht := m.t.isLt
  unfold dxy Sq.x Sq.y at hmv
  simp only [] at hmv
  rcases hmv with (⟨⟨h1, h2⟩, h3⟩ | ⟨⟨⟨⟨h1, h2⟩, h3⟩, h4⟩, h5⟩) | ⟨⟨h1, h2⟩, h3⟩
  · left; exact ⟨by omega, h3⟩
  · right; left
    refine ⟨by omega, by omega, h4, ?_⟩
    cases hq : mkSq? ((m.f.val % 8 : Nat) : Int) (((m.f.val / 8 : Nat) : Int) + 1) with
    | none =>
      have := mkSq?_none _ _ hq
      omega
    | some q =>
      rw [hq] at h5
      simp only [beq_iff_eq] at h5
      have := (mkSq?_some _ _ q hq).1
      have : q.val = m.f.val + 8 := by omega
      rw [← this]; exact h5
  · right; right
    refine ⟨by omega, ?_⟩
    rcases h3 with h3 | h3
    · left; exact h3
    · right; exact h3

theorem pseudo_bpawn (p : Pos) (m : Mv) (h : pseudo p m = true) (hpc : getP p.b m.f.val = BPAWN) :
    p.wtm = false ∧ promoOk false m = true ∧
    ((m.t.val + 8 = m.f.val ∧ getP p.b m.t.val = 0) ∨
     (m.t.val + 16 = m.f.val ∧ m.f.val / 8 = 6 ∧ getP p.b m.t.val = 0 ∧ getP p.b (m.f.val - 8) = 0) ∨
     (((m.t.val + 9 = m.f.val ∧ m.f.val % 8 ≠ 0) ∨ (m.t.val + 7 = m.f.val ∧ m.f.val % 8 ≠ 7)) ∧
        (getP p.b m.t.val ≠ 0 ∨ p.ep = some m.t))) := by
  have hb := pseudo_basic p m h
  have hw : p.wtm = false := by
    have := hb.1; rw [hpc] at this
    cases hh : p.wtm
    · rfl
    · rw [hh] at this; exact absurd this (by decide)
  unfold pseudo at h
  simp only [Bool.and_eq_true, at_eq, hpc, hw] at h
  obtain ⟨_, h4⟩ := h
  have hk : kind BPAWN = 6 := by decide
  simp only [hk, Bool.and_eq_true, Bool.or_eq_true, beq_iff_eq, bne_iff_ne, ne_eq, Bool.false_eq_true, if_false] at h4
  obtain ⟨hpr, hmv⟩ := h4
  refine ⟨hw, hpr, ?_⟩
  have hf := m.f.isLt
  have ht := m.t.isLt
  unfold dxy Sq.x Sq.y at hmv
  simp only [] at hmv
  rcases hmv with (⟨⟨h1, h2⟩, h3⟩ | ⟨⟨⟨⟨h1, h2⟩, h3⟩, h4⟩, h5⟩) | ⟨⟨h1, h2⟩, h3⟩
  · left; exact ⟨by omega, h3⟩
  · right; left
    refine ⟨by omega, by omega, h4, ?_⟩
    cases hq : mkSq? ((m.f.val % 8 : Nat) : Int) (((m.f.val / 8 : Nat) : Int) + -1) with
    | none =>
      have := mkSq?_none _ _ hq
      omega
    | some q =>
      rw [hq] at h5
      simp only [beq_iff_eq] at h5
      have := (mkSq?_some _ _ q hq).1
      have : q.val = m.f.val - 8 := by omega
      rw [← this]; exact h5
  · right; right
    refine ⟨by omega, ?_⟩
    rcases h3 with h3 | h3
    · left; exact h3
    · right; exact h3

theorem pseudo_king (p : Pos) (m : Mv) (h : pseudo p m = true) (hk : kind (getP p.b m.f.val) = 1) :
    m.promo = 0 ∧
    ((m.t.val ≠ m.f.val + 2 ∧ m.t.val + 2 ≠ m.f.val) ∨
     (m.t.val = m.f.val + 2 ∧ m.f.val = (if p.wtm then 4 else 60) ∧ castleOk p true = true) ∨
     (m.t.val + 2 = m.f.val ∧ m.f.val = (if p.wtm then 4 else 60) ∧ castleOk p false = true)) := by
  unfold pseudo at h
  simp only [Bool.and_eq_true, at_eq] at h
  obtain ⟨_, h4⟩ := h
  simp only [hk, Bool.and_eq_true, Bool.or_eq_true, beq_iff_eq, decide_eq_true_eq] at h4
  obtain ⟨hpr, hmv⟩ := h4
  refine ⟨hpr, ?_⟩
  have hf := m.f.isLt
  have ht := m.t.isLt
  unfold dxy Sq.x Sq.y at hmv
  simp only [] at hmv
  rcases hmv with (⟨h1, h2⟩ | ⟨⟨⟨h1, h2⟩, h3⟩, h4⟩) | ⟨⟨⟨h1, h2⟩, h3⟩, h4⟩
  · left; omega
  · right; left; exact ⟨by omega, h3, h4⟩
  · right; right; exact ⟨by omega, h3, h4⟩

theorem pseudo_other (p : Pos) (m : Mv) (h : pseudo p m = true) (hk6 : kind (getP p.b m.f.val) ≠ 6) : m.promo = 0 := by
  unfold pseudo at h
  simp only [Bool.and_eq_true, at_eq] at h
  obtain ⟨_, h4⟩ := h
  split at h4
  · rename_i h6; exact absurd h6 hk6
  · simp only [Bool.and_eq_true, beq_iff_eq] at h4; exact h4.1
  · simp only [Bool.and_eq_true, beq_iff_eq] at h4; exact h4.1

/-! ### piece-code facts (finite checks over all 256 codes) -/

theorem forall_pc (P : Pc → Prop) (h : ∀ n : Fin 256, P (UInt8.ofNat n.val)) (pc : Pc) : P pc := by
  have := h ⟨pc.toNat, pc.toNat_lt⟩
  simpa using this

def PcFacts (pc : Pc) : Prop :=
    ((pc.toNat = 1 ∨ pc.toNat = 7) ↔ kind pc = 1) ∧
    ((pc.toNat = 6 ∨ pc.toNat = 12) ↔ kind pc = 6) ∧
    (isPawnPc pc = true ↔ kind pc = 6) ∧
    (own true pc = true → pc ≠ 0 ∧ pcWhite pc = true ∧ (kind pc = 6 → pc = WPAWN) ∧ (kind pc = 1 → pc = WKING)) ∧
    (own false pc = true → pc ≠ 0 ∧ pcWhite pc = false ∧ (kind pc = 6 → pc = BPAWN) ∧ (kind pc = 1 → pc = BKING)) ∧
    (own true pc = true → own false pc = false) ∧ (own false pc = true → own true pc = false)

instance (pc : Pc) : Decidable (PcFacts pc) := by unfold PcFacts; infer_instance

set_option maxRecDepth 100000 in
theorem pc_facts_all : ∀ n : Fin 256, PcFacts (UInt8.ofNat n.val) := by decide +kernel

theorem pcFacts (pc : Pc) : PcFacts pc := forall_pc PcFacts pc_facts_all pc

theorem kingAt_iff (b : Board) (n : Nat) : isKingAt b n ↔ kind (getP b n) = 1 := (pcFacts (getP b n)).1
theorem pawnAt_iff (b : Board) (n : Nat) : isPawnAt b n ↔ kind (getP b n) = 6 := (pcFacts (getP b n)).2.1
theorem isPawnPc_iff (pc : Pc) : isPawnPc pc = true ↔ kind pc = 6 := (pcFacts pc).2.2.1
theorem own_white (pc : Pc) (h : own true pc = true) :
    pc ≠ 0 ∧ pcWhite pc = true ∧ (kind pc = 6 → pc = WPAWN) ∧ (kind pc = 1 → pc = WKING) :=
  (pcFacts pc).2.2.2.1 h
theorem own_black (pc : Pc) (h : own false pc = true) :
    pc ≠ 0 ∧ pcWhite pc = false ∧ (kind pc = 6 → pc = BPAWN) ∧ (kind pc = 1 → pc = BKING) :=
  (pcFacts pc).2.2.2.2.1 h

theorem own_ne_zero (w : Bool) (pc : Pc) (h : own w pc = true) : pc ≠ 0 := by
  cases w
  · exact (own_black pc h).1
  · exact (own_white pc h).1

/-! ### castling conditions -/

theorem castleOk_short (p : Pos) (h : castleOk p true = true) :
    getP p.b ((if p.wtm then 4 else 60) + 1) = 0 ∧ getP p.b ((if p.wtm then 4 else 60) + 2) = 0 ∧
    getP p.b ((if p.wtm then 4 else 60) + 3) = (if p.wtm then WROOK else BROOK) := by
  unfold castleOk at h
  simp only [Bool.and_eq_true, beq_iff_eq, if_true] at h
  obtain ⟨_, ⟨⟨⟨h1, h2⟩, h3⟩, _⟩⟩ := h
  exact ⟨h1, h2, h3⟩

theorem castleOk_long (p : Pos) (h : castleOk p false = true) :
    getP p.b ((if p.wtm then 4 else 60) - 1) = 0 ∧ getP p.b ((if p.wtm then 4 else 60) - 2) = 0 ∧
    getP p.b ((if p.wtm then 4 else 60) - 3) = 0 ∧
    getP p.b ((if p.wtm then 4 else 60) - 4) = (if p.wtm then WROOK else BROOK) := by
  unfold castleOk at h
  simp only [Bool.and_eq_true, beq_iff_eq, Bool.false_eq_true, if_false] at h
  obtain ⟨_, ⟨⟨⟨⟨h1, h2⟩, h3⟩, h4⟩, _⟩⟩ := h
  exact ⟨h1, h2, h3, h4⟩

/-! ### the calling conventions hold for pseudo-legal moves -/

/-- the en-passant flag is meaningful: its square is empty and the pawn that made the double step stands behind it
    (what `readFEN` enforces and `makeMove` establishes) -/
def EpOk (p : Pos) : Prop :=
  ∀ e, p.ep = some e → getP p.b e.val = 0 ∧
    getP p.b (if p.wtm then e.val - 8 else e.val + 8) = (if p.wtm then BPAWN else WPAWN)

instance (p : Pos) : Decidable (EpOk p) := by
  unfold EpOk
  cases h : p.ep with
  | none => exact isTrue (by intro e he; cases he)
  | some e0 =>
    exact decidable_of_iff (getP p.b e0.val = 0 ∧ getP p.b (if p.wtm then e0.val - 8 else e0.val + 8) = (if p.wtm then BPAWN else WPAWN))
      ⟨fun hh e he => by cases he; exact hh, fun hh => hh e0 rfl⟩

theorem rook_not_pawn (w : Bool) : (if w then WROOK else BROOK) ≠ (0 : Pc) ∧ isPawnPc (if w then WROOK else BROOK) = false := by
  cases w <;> decide

theorem makeOk_of_pseudo (p : Pos) (m : Mv) (h : pseudo p m = true) (he : EpOk p) : MakeOk p m := by
  have hb := pseudo_basic p m h
  have hf := m.f.isLt
  have ht := m.t.isLt
  constructor
  · intro hpc hep
    have hw := (pseudo_bpawn p m h hpc).1
    have h2 := (he m.t hep).2
    rw [hw] at h2
    simp only [Bool.false_eq_true, if_false] at h2
    apply Classical.byContradiction
    intro hlt
    rw [getP_oob _ _ hlt] at h2
    exact absurd h2 (by decide)
  · intro htg hnp
    have hk6 : kind (getP p.b m.f.val) ≠ 6 := fun hk => hnp ((pawnAt_iff _ _).2 hk)
    have hne : getP p.b m.f.val ≠ 0 := own_ne_zero _ _ hb.1
    have hnpp : isPawnPc (getP p.b m.f.val) = false := by
      cases hh : isPawnPc (getP p.b m.f.val)
      · rfl
      · exact absurd ((isPawnPc_iff _).1 hh) hk6
    have short : isKingAt p.b m.f.val → m.t.val = m.f.val + 2 → MoveOkAt p.b (m.f.val + 3) (m.f.val + 1) := by
      intro hk h2
      rcases (pseudo_king p m h ((kingAt_iff _ _).1 hk)).2 with h3 | ⟨_, h4, h5⟩ | ⟨h3, _, _⟩
      · exact absurd h2 h3.1
      · have hc := castleOk_short p h5
        rw [← h4] at hc
        have hr := rook_not_pawn p.wtm
        exact ⟨by cases hw : p.wtm <;> simp [hw] at h4 <;> omega, by omega, by rw [hc.2.2]; exact hr.1,
          by rw [hc.2.2]; exact hr.2, hc.1, by omega⟩
      · omega
    have long : isKingAt p.b m.f.val → m.t.val + 2 = m.f.val → MoveOkAt p.b (m.f.val - 4) (m.f.val - 1) := by
      intro hk h2
      rcases (pseudo_king p m h ((kingAt_iff _ _).1 hk)).2 with h3 | ⟨h3, _, _⟩ | ⟨_, h4, h5⟩
      · exact absurd h2 h3.2
      · omega
      · have hc := castleOk_long p h5
        rw [← h4] at hc
        have hr := rook_not_pawn p.wtm
        have : m.f.val ≥ 4 := by cases hw : p.wtm <;> simp [hw] at h4 <;> omega
        exact ⟨by omega, by omega, by rw [hc.2.2.2]; exact hr.1, by rw [hc.2.2.2]; exact hr.2, hc.1, by omega⟩
    refine ⟨short, long, ?_⟩
    -- the king / piece move itself, on the board after the rook step
    unfold rookStepC
    simp only []
    by_cases hk : isKingAt p.b m.f.val
    · simp only [if_pos hk]
      by_cases h2 : m.t.val = m.f.val + 2
      · simp only [if_pos h2]
        have ok := short hk h2
        unfold moveC Pos.withB
        simp only []
        refine ⟨hf, ht, ?_, ?_, ?_, hb.2.2⟩
        · rw [getP_setSq _ _ _ _ ok.ht, if_neg (by omega), getP_setSq _ _ _ _ ok.hf, if_neg (by omega)]; exact hne
        · rw [getP_setSq _ _ _ _ ok.ht, if_neg (by omega), getP_setSq _ _ _ _ ok.hf, if_neg (by omega)]; exact hnpp
        · rw [getP_setSq _ _ _ _ ok.ht, if_neg (by omega), getP_setSq _ _ _ _ ok.hf, if_neg (by omega)]; exact htg
      · simp only [if_neg h2]
        by_cases h3 : m.t.val + 2 = m.f.val
        · simp only [if_pos h3]
          have ok := long hk h3
          have : m.f.val ≥ 4 := by
            rcases (pseudo_king p m h ((kingAt_iff _ _).1 hk)).2 with h4 | ⟨h4, _, _⟩ | ⟨_, h4, _⟩
            · exact absurd h3 h4.2
            · omega
            · cases hw : p.wtm <;> simp [hw] at h4 <;> omega
          unfold moveC Pos.withB
          simp only []
          refine ⟨hf, ht, ?_, ?_, ?_, hb.2.2⟩
          · rw [getP_setSq _ _ _ _ ok.ht, if_neg (by omega), getP_setSq _ _ _ _ ok.hf, if_neg (by omega)]; exact hne
          · rw [getP_setSq _ _ _ _ ok.ht, if_neg (by omega), getP_setSq _ _ _ _ ok.hf, if_neg (by omega)]; exact hnpp
          · rw [getP_setSq _ _ _ _ ok.ht, if_neg (by omega), getP_setSq _ _ _ _ ok.hf, if_neg (by omega)]; exact htg
        · simp only [if_neg h3]
          exact ⟨hf, ht, hne, hnpp, htg, hb.2.2⟩
    · simp only [if_neg hk]
      exact ⟨hf, ht, hne, hnpp, htg, hb.2.2⟩

/-! ### `makeC` is the specification's `apply` -/

theorem pos_ext {a b : Pos} (h1 : a.b = b.b) (h2 : a.wtm = b.wtm) (h3 : a.castle = b.castle) (h4 : a.ep = b.ep)
    (h5 : a.hmc = b.hmc) (h6 : a.fmc = b.fmc) : a = b := by
  cases a; cases b; simp_all

theorem toNat_eq_iff (pc : Pc) (n : Nat) (hn : n < 256) : pc.toNat = n ↔ pc = UInt8.ofNat n := by
  constructor
  · intro h; apply UInt8.toNat_inj.1; rw [h]; simp; omega
  · intro h; rw [h]; simp; omega

/-- fields of `apply` other than board and e.p. square -/
theorem apply_wtm (p : Pos) (m : Mv) : (Chess.apply p m).wtm = !p.wtm := rfl
theorem apply_castle (p : Pos) (m : Mv) : (Chess.apply p m).castle = p.castle &&& castleKeep m.f &&& castleKeep m.t := rfl
theorem apply_fmc (p : Pos) (m : Mv) : (Chess.apply p m).fmc = if p.wtm then p.fmc else p.fmc + 1 := rfl
theorem apply_hmc (p : Pos) (m : Mv) :
    (Chess.apply p m).hmc = if (kind (getP p.b m.f.val) == 6 || getP p.b m.t.val != 0) then 0 else p.hmc + 1 := by
  unfold Chess.apply; simp only [at_eq]

/-- board after the en-passant removal step of the capture-or-pawn branch -/
def epClearedB (b : Board) (m : Mv) (pc : Pc) (prevEp : Option Sq) : Board :=
  if pc = WPAWN then
    if m.t.val = m.f.val + 16 then b
    else if prevEp = some m.t then setSq b (m.t.val - 8) 0 else b
  else if pc = BPAWN then
    if m.t.val + 16 = m.f.val then b
    else if prevEp = some m.t then setSq b (m.t.val + 8) 0 else b
  else b

def epNewC (p : Pos) (m : Mv) (pc : Pc) : Option Sq :=
  if pc = WPAWN then
    if m.t.val = m.f.val + 16 then (if adjPawn p.b 24 m.t.val 12 then mkSqN? (m.f.val + 8) else p.ep) else p.ep
  else if pc = BPAWN then
    if m.t.val + 16 = m.f.val then (if adjPawn p.b 32 m.t.val 6 then mkSqN? (m.f.val - 8) else p.ep) else p.ep
  else p.ep

theorem capOrPawnC_b (p : Pos) (m : Mv) (pc : Pc) (prevEp : Option Sq) :
    (capOrPawnC p m pc prevEp).b =
      setSq (setSq (epClearedB p.b m pc prevEp) m.f.val 0) m.t.val (if m.promo ≠ 0 then m.promo else pc) := by
  unfold capOrPawnC epClearedB Pos.withB
  simp only []
  split <;> (try split) <;> (try split) <;> (try split) <;> rfl

theorem capOrPawnC_ep (p : Pos) (m : Mv) (pc : Pc) (prevEp : Option Sq) :
    (capOrPawnC p m pc prevEp).ep = epNewC p m pc := by
  unfold capOrPawnC epNewC Pos.withB
  simp only []
  split <;> (try split) <;> (try split) <;> (try split) <;> rfl

theorem capOrPawnC_rest (p : Pos) (m : Mv) (pc : Pc) (prevEp : Option Sq) :
    (capOrPawnC p m pc prevEp).wtm = p.wtm ∧ (capOrPawnC p m pc prevEp).castle = p.castle ∧
    (capOrPawnC p m pc prevEp).hmc = p.hmc ∧ (capOrPawnC p m pc prevEp).fmc = p.fmc := by
  unfold capOrPawnC Pos.withB
  simp only []
  split <;> (try split) <;> (try split) <;> (try split) <;> exact ⟨rfl, rfl, rfl, rfl⟩

theorem quietC_rest (p : Pos) (m : Mv) :
    (quietC p m).wtm = p.wtm ∧ (quietC p m).castle = p.castle ∧ (quietC p m).ep = p.ep ∧
    (quietC p m).hmc = p.hmc ∧ (quietC p m).fmc = p.fmc := by
  unfold quietC rookStepC moveC Pos.withB
  simp only []
  split <;> (try split) <;> (try split) <;> exact ⟨rfl, rfl, rfl, rfl, rfl⟩

theorem kind_wpawn : kind WPAWN = 6 := by decide
theorem kind_bpawn : kind BPAWN = 6 := by decide

/-- fields of `makeC` in the capture-or-pawn branch -/
theorem makeC_cap (p : Pos) (m : Mv) (hc : getP p.b m.t.val ≠ 0 ∨ isPawnAt p.b m.f.val) :
    makeC p m =
      { b := setSq (setSq (epClearedB p.b m (getP p.b m.f.val) p.ep) m.f.val 0) m.t.val
               (if m.promo ≠ 0 then m.promo else getP p.b m.f.val)
        wtm := !p.wtm
        castle := p.castle &&& castleKeep m.f &&& castleKeep m.t
        ep := epNewC { p with ep := none, hmc := 0 } m (getP p.b m.f.val)
        hmc := 0
        fmc := if p.wtm then p.fmc else p.fmc + 1 } := by
  unfold makeC
  simp only [if_pos hc]
  have hr := capOrPawnC_rest { p with ep := none, hmc := 0 } m (getP p.b m.f.val) p.ep
  apply pos_ext
  · exact capOrPawnC_b _ _ _ _
  · rfl
  · show (capOrPawnC _ m _ _).castle &&& _ &&& _ = _; rw [hr.2.1]
  · exact capOrPawnC_ep _ _ _ _
  · exact hr.2.2.1
  · show (if p.wtm then (capOrPawnC _ m _ _).fmc else (capOrPawnC _ m _ _).fmc + 1) = _; rw [hr.2.2.2]

/-- board effect of the quiet branch -/
def rookB (b : Board) (m : Mv) : Board :=
  if isKingAt b m.f.val then
    if m.t.val = m.f.val + 2 then setSq (setSq b (m.f.val + 3) 0) (m.f.val + 1) (getP b (m.f.val + 3))
    else if m.t.val + 2 = m.f.val then setSq (setSq b (m.f.val - 4) 0) (m.f.val - 1) (getP b (m.f.val - 4))
    else b
  else b

def quietB (b : Board) (m : Mv) : Board := setSq (setSq (rookB b m) m.f.val 0) m.t.val (getP (rookB b m) m.f.val)

theorem quietC_b (p : Pos) (m : Mv) : (quietC p m).b = quietB p.b m := by
  unfold quietC rookStepC moveC Pos.withB quietB rookB
  simp only []
  split <;> (try split) <;> (try split) <;> rfl

theorem makeC_quiet (p : Pos) (m : Mv) (hc : ¬ (getP p.b m.t.val ≠ 0 ∨ isPawnAt p.b m.f.val)) :
    makeC p m =
      { b := quietB p.b m
        wtm := !p.wtm
        castle := p.castle &&& castleKeep m.f &&& castleKeep m.t
        ep := none
        hmc := p.hmc + 1
        fmc := if p.wtm then p.fmc else p.fmc + 1 } := by
  unfold makeC
  simp only [if_neg hc]
  have hr := quietC_rest { p with ep := none, hmc := p.hmc + 1 } m
  apply pos_ext
  · exact quietC_b _ m
  · rfl
  · show (quietC _ m).castle &&& _ &&& _ = _; rw [hr.2.1]
  · exact hr.2.2.1
  · exact hr.2.2.2.1
  · show (if p.wtm then (quietC _ m).fmc else (quietC _ m).fmc + 1) = _; rw [hr.2.2.2.2]

/-! explicit form of the specification's `apply` -/
def isEpS (p : Pos) (m : Mv) : Bool :=
  kind (getP p.b m.f.val) == 6 && p.ep == some m.t && !(getP p.b m.t.val != 0) && m.f.x != m.t.x

def b3S (p : Pos) (m : Mv) : Board :=
  setSq (setSq (if isEpS p m then setSq p.b (if p.wtm then m.t.val - 8 else m.t.val + 8) 0 else p.b) m.f.val 0) m.t.val
    (if m.promo != 0 then m.promo else getP p.b m.f.val)

def b4S (p : Pos) (m : Mv) : Board :=
  if kind (getP p.b m.f.val) == 1 && m.t.val == m.f.val + 2 then
    setSq (setSq (b3S p m) (m.f.val + 3) 0) (m.f.val + 1) (if p.wtm then WROOK else BROOK)
  else if kind (getP p.b m.f.val) == 1 && m.t.val + 2 == m.f.val then
    setSq (setSq (b3S p m) (m.f.val - 4) 0) (m.f.val - 1) (if p.wtm then WROOK else BROOK)
  else b3S p m

def epS (p : Pos) (m : Mv) : Option Sq :=
  if kind (getP p.b m.f.val) == 6 && (m.t.val == m.f.val + 16 || m.f.val == m.t.val + 16) then
    let enemyPawn : Pc := if p.wtm then BPAWN else WPAWN
    let adj := (m.t.x > 0 && (b4S p m).getD (m.t.val - 1) 0 == enemyPawn) || (m.t.x < 7 && (b4S p m).getD (m.t.val + 1) 0 == enemyPawn)
    if adj then some ⟨((m.f.val + m.t.val) / 2) % 64, Nat.mod_lt _ (by decide)⟩ else none
  else none

theorem apply_eq (p : Pos) (m : Mv) :
    Chess.apply p m =
      { b := b4S p m, wtm := !p.wtm, castle := p.castle &&& castleKeep m.f &&& castleKeep m.t, ep := epS p m,
        hmc := if (kind (getP p.b m.f.val) == 6 || getP p.b m.t.val != 0) then 0 else p.hmc + 1,
        fmc := if p.wtm then p.fmc else p.fmc + 1 } := by
  unfold Chess.apply
  simp only [at_eq]
  rfl

theorem ep_white_facts (p : Pos) (m : Mv) (h : pseudo p m = true) (he : EpOk p) (hpc : getP p.b m.f.val = WPAWN)
    (hep : p.ep = some m.t) : getP p.b m.t.val = 0 ∧ m.t.val ≠ m.f.val + 16 ∧ m.f.val % 8 ≠ m.t.val % 8 := by
  obtain ⟨hw, _, hmv⟩ := pseudo_wpawn p m h hpc
  have h2 := he m.t hep
  rw [hw] at h2
  simp only [if_true] at h2
  have hbw : ¬ WPAWN = BPAWN := by decide
  have hb0 : ¬ (0 : Pc) = BPAWN := by decide
  rcases hmv with h1 | h1 | h1
  · exfalso
    have : m.t.val - 8 = m.f.val := by omega
    rw [this, hpc] at h2; exact hbw h2.2
  · exfalso
    have : m.t.val - 8 = m.f.val + 8 := by omega
    rw [this, h1.2.2.2] at h2; exact hb0 h2.2
  · refine ⟨h2.1, by omega, by omega⟩

theorem isEpS_white (p : Pos) (m : Mv) (h : pseudo p m = true) (he : EpOk p) (hpc : getP p.b m.f.val = WPAWN) :
    isEpS p m = decide (p.ep = some m.t) := by
  unfold isEpS
  rw [hpc, kind_wpawn]
  by_cases hep : p.ep = some m.t
  · obtain ⟨h1, _, h3⟩ := ep_white_facts p m h he hpc hep
    have hx : (m.f.x != m.t.x) = true := by
      unfold Sq.x; simp only [bne_iff_ne, ne_eq]; exact h3
    simp [hep, h1, hx]
  · simp [hep]

theorem getD_eq_getP (b : Board) (n : Nat) : b.getD n 0 = getP b n := rfl

theorem toNat_12 (pc : Pc) : pc.toNat = 12 ↔ pc = BPAWN := toNat_eq_iff pc 12 (by decide)
theorem toNat_6 (pc : Pc) : pc.toNat = 6 ↔ pc = WPAWN := toNat_eq_iff pc 6 (by decide)

theorem makeC_apply_wpawn (p : Pos) (m : Mv) (h : pseudo p m = true) (he : EpOk p)
    (hpc : getP p.b m.f.val = WPAWN) : makeC p m = Chess.apply p m := by
  obtain ⟨hw, hpr, hmv⟩ := pseudo_wpawn p m h hpc
  have hf := m.f.isLt
  have ht := m.t.isLt
  have hpawn : isPawnAt p.b m.f.val := by unfold isPawnAt; rw [hpc]; decide
  have hgt : m.t.val > m.f.val := by omega
  rw [makeC_cap p m (Or.inr hpawn), apply_eq]
  have hk1 : (kind WPAWN == 1) = false := by decide
  have hb4 : b4S p m = b3S p m := by unfold b4S; rw [hpc]; simp [hk1]
  have hisEp := isEpS_white p m h he hpc
  apply pos_ext
  · -- board
    show _ = b4S p m
    rw [hb4]
    unfold b3S epClearedB
    rw [hisEp, hpc, hw]
    simp only [if_true, bne_iff_ne, ne_eq, decide_eq_true_eq]
    by_cases hep : p.ep = some m.t
    · have := (ep_white_facts p m h he hpc hep).2.1
      simp only [if_neg this, if_pos hep]
    · by_cases h16 : m.t.val = m.f.val + 16
      · simp only [if_pos h16, if_neg hep]
      · simp only [if_neg h16, if_neg hep]
  · rfl
  · rfl
  · -- e.p. square
    show epNewC _ m _ = epS p m
    unfold epNewC epS
    rw [hpc, kind_wpawn, hw]
    simp only [if_true, beq_self_eq_true, Bool.true_and]
    have hno : (m.f.val == m.t.val + 16) = false := by simp; omega
    by_cases h16 : m.t.val = m.f.val + 16
    · have hrank : m.f.val / 8 = 1 := by
        rcases hmv with h1 | h1 | h1 <;> omega
      have hbeq : (m.t.val == m.f.val + 16) = true := by simpa using h16
      simp only [if_pos h16, hbeq, Bool.true_or, if_true, hb4, getD_eq_getP]
      have hne : ¬ p.ep = some m.t := fun hep => (ep_white_facts p m h he hpc hep).2.1 h16
      have hb3 : ∀ k, k ≠ m.f.val → k ≠ m.t.val → getP (b3S p m) k = getP p.b k := by
        intro k hkf hkt
        unfold b3S
        rw [hisEp]
        simp only [hne, decide_false, Bool.false_eq_true, if_false]
        rw [getP_setSq _ _ _ _ ht, if_neg hkt, getP_setSq _ _ _ _ hf, if_neg hkf]
      have e1 : m.t.x > 0 → getP (b3S p m) (m.t.val - 1) = getP p.b (24 + m.t.val % 8 - 1) := by
        intro hx; unfold Sq.x at hx
        rw [hb3 _ (by omega) (by omega)]; congr 1; omega
      have e2 : m.t.x < 7 → getP (b3S p m) (m.t.val + 1) = getP p.b (24 + m.t.val % 8 + 1) := by
        intro hx; unfold Sq.x at hx
        rw [hb3 _ (by omega) (by omega)]; congr 1; omega
      have hadj : adjPawn p.b 24 m.t.val 12 ↔
          ((decide (m.t.x > 0) && getP (b3S p m) (m.t.val - 1) == BPAWN) ||
           (decide (m.t.x < 7) && getP (b3S p m) (m.t.val + 1) == BPAWN)) = true := by
        unfold adjPawn
        simp only [Bool.or_eq_true, Bool.and_eq_true, decide_eq_true_eq, beq_iff_eq, toNat_12]
        constructor
        · rintro (⟨a, b⟩ | ⟨a, b⟩)
          · left; have a' : m.t.x > 0 := a; exact ⟨a', by rw [e1 a']; exact b⟩
          · right; have a' : m.t.x < 7 := a; exact ⟨a', by rw [e2 a']; exact b⟩
        · rintro (⟨a, b⟩ | ⟨a, b⟩)
          · left; exact ⟨a, by rw [← e1 a]; exact b⟩
          · right; exact ⟨a, by rw [← e2 a]; exact b⟩
      by_cases ha : adjPawn p.b 24 m.t.val 12
      · rw [if_pos ha, if_pos (hadj.1 ha)]
        unfold mkSqN?
        rw [dif_pos (by omega : m.f.val + 8 < 64)]
        congr 1; apply Fin.ext; simp only []; omega
      · rw [if_neg ha, if_neg (fun hh => ha (hadj.2 hh))]
    · have hbeq : (m.t.val == m.f.val + 16) = false := by simpa using h16
      simp only [if_neg h16, hbeq, hno, Bool.or_self, Bool.false_eq_true, if_false]
  · -- half-move clock
    show 0 = if (kind (getP p.b m.f.val) == 6 || getP p.b m.t.val != 0) then 0 else p.hmc + 1
    rw [hpc, kind_wpawn]; simp
  · rfl

theorem ep_black_facts (p : Pos) (m : Mv) (h : pseudo p m = true) (he : EpOk p) (hpc : getP p.b m.f.val = BPAWN)
    (hep : p.ep = some m.t) : getP p.b m.t.val = 0 ∧ m.t.val + 16 ≠ m.f.val ∧ m.f.val % 8 ≠ m.t.val % 8 := by
  obtain ⟨hw, _, hmv⟩ := pseudo_bpawn p m h hpc
  have h2 := he m.t hep
  rw [hw] at h2
  simp only [Bool.false_eq_true, if_false] at h2
  have hbw : ¬ BPAWN = WPAWN := by decide
  have hb0 : ¬ (0 : Pc) = WPAWN := by decide
  rcases hmv with h1 | h1 | h1
  · exfalso
    have : m.t.val + 8 = m.f.val := by omega
    rw [this, hpc] at h2; exact hbw h2.2
  · exfalso
    have : m.t.val + 8 = m.f.val - 8 := by omega
    rw [this, h1.2.2.2] at h2; exact hb0 h2.2
  · refine ⟨h2.1, by omega, by omega⟩

theorem isEpS_black (p : Pos) (m : Mv) (h : pseudo p m = true) (he : EpOk p) (hpc : getP p.b m.f.val = BPAWN) :
    isEpS p m = decide (p.ep = some m.t) := by
  unfold isEpS
  rw [hpc, kind_bpawn]
  by_cases hep : p.ep = some m.t
  · obtain ⟨h1, _, h3⟩ := ep_black_facts p m h he hpc hep
    have hx : (m.f.x != m.t.x) = true := by
      unfold Sq.x; simp only [bne_iff_ne, ne_eq]; exact h3
    simp [hep, h1, hx]
  · simp [hep]

theorem makeC_apply_bpawn (p : Pos) (m : Mv) (h : pseudo p m = true) (he : EpOk p)
    (hpc : getP p.b m.f.val = BPAWN) : makeC p m = Chess.apply p m := by
  obtain ⟨hw, hpr, hmv⟩ := pseudo_bpawn p m h hpc
  have hf := m.f.isLt
  have ht := m.t.isLt
  have hpawn : isPawnAt p.b m.f.val := by unfold isPawnAt; rw [hpc]; decide
  have hgt : m.t.val < m.f.val := by omega
  rw [makeC_cap p m (Or.inr hpawn), apply_eq]
  have hk1 : (kind BPAWN == 1) = false := by decide
  have hbw : ¬ BPAWN = WPAWN := by decide
  have hb4 : b4S p m = b3S p m := by unfold b4S; rw [hpc]; simp [hk1]
  have hisEp := isEpS_black p m h he hpc
  apply pos_ext
  · -- board
    show _ = b4S p m
    rw [hb4]
    unfold b3S epClearedB
    rw [hisEp, hpc, hw]
    simp only [if_neg hbw, if_true, Bool.false_eq_true, if_false, bne_iff_ne, ne_eq, decide_eq_true_eq]
    by_cases hep : p.ep = some m.t
    · have := (ep_black_facts p m h he hpc hep).2.1
      simp only [if_neg this, if_pos hep]
    · by_cases h16 : m.t.val + 16 = m.f.val
      · simp only [if_pos h16, if_neg hep]
      · simp only [if_neg h16, if_neg hep]
  · rfl
  · rfl
  · -- e.p. square
    show epNewC _ m _ = epS p m
    unfold epNewC epS
    rw [hpc, kind_bpawn, hw]
    simp only [if_neg hbw, if_true, Bool.false_eq_true, if_false, beq_self_eq_true, Bool.true_and]
    have hno : (m.t.val == m.f.val + 16) = false := by simp; omega
    by_cases h16 : m.t.val + 16 = m.f.val
    · have hrank : m.f.val / 8 = 6 := by
        rcases hmv with h1 | h1 | h1 <;> omega
      have hbeq : (m.f.val == m.t.val + 16) = true := by simp; omega
      simp only [if_pos h16, hbeq, Bool.or_true, if_true, hb4, getD_eq_getP]
      have hne : ¬ p.ep = some m.t := fun hep => (ep_black_facts p m h he hpc hep).2.1 h16
      have hb3 : ∀ k, k ≠ m.f.val → k ≠ m.t.val → getP (b3S p m) k = getP p.b k := by
        intro k hkf hkt
        unfold b3S
        rw [hisEp]
        simp only [hne, decide_false, Bool.false_eq_true, if_false]
        rw [getP_setSq _ _ _ _ ht, if_neg hkt, getP_setSq _ _ _ _ hf, if_neg hkf]
      have e1 : m.t.x > 0 → getP (b3S p m) (m.t.val - 1) = getP p.b (32 + m.t.val % 8 - 1) := by
        intro hx; unfold Sq.x at hx
        rw [hb3 _ (by omega) (by omega)]; congr 1; omega
      have e2 : m.t.x < 7 → getP (b3S p m) (m.t.val + 1) = getP p.b (32 + m.t.val % 8 + 1) := by
        intro hx; unfold Sq.x at hx
        rw [hb3 _ (by omega) (by omega)]; congr 1; omega
      have hadj : adjPawn p.b 32 m.t.val 6 ↔
          ((decide (m.t.x > 0) && getP (b3S p m) (m.t.val - 1) == WPAWN) ||
           (decide (m.t.x < 7) && getP (b3S p m) (m.t.val + 1) == WPAWN)) = true := by
        unfold adjPawn
        simp only [Bool.or_eq_true, Bool.and_eq_true, decide_eq_true_eq, beq_iff_eq, toNat_6]
        constructor
        · rintro (⟨a, b⟩ | ⟨a, b⟩)
          · left; have a' : m.t.x > 0 := a; exact ⟨a', by rw [e1 a']; exact b⟩
          · right; have a' : m.t.x < 7 := a; exact ⟨a', by rw [e2 a']; exact b⟩
        · rintro (⟨a, b⟩ | ⟨a, b⟩)
          · left; exact ⟨a, by rw [← e1 a]; exact b⟩
          · right; exact ⟨a, by rw [← e2 a]; exact b⟩
      by_cases ha : adjPawn p.b 32 m.t.val 6
      · rw [if_pos ha, if_pos (hadj.1 ha)]
        unfold mkSqN?
        rw [dif_pos (by omega : m.f.val - 8 < 64)]
        congr 1; apply Fin.ext; simp only []; omega
      · rw [if_neg ha, if_neg (fun hh => ha (hadj.2 hh))]
    · have hbeq : (m.f.val == m.t.val + 16) = false := by simp; omega
      simp only [if_neg h16, hbeq, hno, Bool.or_self, Bool.false_eq_true, if_false]
  · -- half-move clock
    show 0 = if (kind (getP p.b m.f.val) == 6 || getP p.b m.t.val != 0) then 0 else p.hmc + 1
    rw [hpc, kind_bpawn]; simp
  · rfl

theorem not_pawn_of_kind (pc : Pc) (hk : kind pc ≠ 6) : pc ≠ WPAWN ∧ pc ≠ BPAWN := by
  constructor
  · intro h; rw [h] at hk; exact hk kind_wpawn
  · intro h; rw [h] at hk; exact hk kind_bpawn

theorem makeC_apply_other (p : Pos) (m : Mv) (h : pseudo p m = true)
    (hk6 : kind (getP p.b m.f.val) ≠ 6) : makeC p m = Chess.apply p m := by
  have hb := pseudo_basic p m h
  have hf := m.f.isLt
  have ht := m.t.isLt
  have hpromo := pseudo_other p m h hk6
  have hnp := not_pawn_of_kind _ hk6
  have hk6b : (kind (getP p.b m.f.val) == 6) = false := by simpa using hk6
  have hnpa : ¬ isPawnAt p.b m.f.val := fun hh => hk6 ((pawnAt_iff _ _).1 hh)
  have hisEp : isEpS p m = false := by unfold isEpS; rw [hk6b]; rfl
  have hb3 : b3S p m = setSq (setSq p.b m.f.val 0) m.t.val (getP p.b m.f.val) := by
    unfold b3S; rw [hisEp, hpromo]; simp
  have hepS : epS p m = none := by unfold epS; rw [hk6b]; rfl
  by_cases htg : getP p.b m.t.val = 0
  · -- quiet move
    have hc : ¬ (getP p.b m.t.val ≠ 0 ∨ isPawnAt p.b m.f.val) := by
      rintro (h1 | h1)
      · exact h1 htg
      · exact hnpa h1
    rw [makeC_quiet p m hc, apply_eq]
    apply pos_ext
    · show quietB p.b m = b4S p m
      unfold quietB rookB b4S
      rw [hb3]
      by_cases hk : kind (getP p.b m.f.val) = 1
      · have hka : isKingAt p.b m.f.val := (kingAt_iff _ _).2 hk
        have hkb : (kind (getP p.b m.f.val) == 1) = true := by simpa using hk
        simp only [if_pos hka, hkb, Bool.true_and, beq_iff_eq]
        have hpk := (pseudo_king p m h hk).2
        by_cases h2 : m.t.val = m.f.val + 2
        · simp only [if_pos h2]
          rcases hpk with h3 | ⟨_, h4, h5⟩ | ⟨h3, _, _⟩
          · exact absurd h2 h3.1
          · have hcs := castleOk_short p h5
            rw [← h4] at hcs
            have hlt : m.f.val + 3 < 64 := by cases hw : p.wtm <;> simp [hw] at h4 <;> omega
            apply board_ext
            intro k hk
            rw [hcs.2.2]
            simp only [getP_setSq _ _ _ _ hf, getP_setSq _ _ _ _ ht, getP_setSq _ _ _ _ hlt,
              getP_setSq _ _ _ _ (by omega : m.f.val + 1 < 64)]
            repeat' split
            all_goals first | rfl | omega
          · omega
        · simp only [if_neg h2]
          by_cases h3 : m.t.val + 2 = m.f.val
          · simp only [if_pos h3]
            rcases hpk with h4 | ⟨h4, _, _⟩ | ⟨_, h4, h5⟩
            · exact absurd h3 h4.2
            · omega
            · have hcl := castleOk_long p h5
              rw [← h4] at hcl
              have hge : m.f.val ≥ 4 := by cases hw : p.wtm <;> simp [hw] at h4 <;> omega
              apply board_ext
              intro k hk
              rw [hcl.2.2.2]
              simp only [getP_setSq _ _ _ _ hf, getP_setSq _ _ _ _ ht, getP_setSq _ _ _ _ (by omega : m.f.val - 4 < 64),
                getP_setSq _ _ _ _ (by omega : m.f.val - 1 < 64)]
              repeat' split
              all_goals first | rfl | omega
          · simp only [if_neg h3]
      · have hka : ¬ isKingAt p.b m.f.val := fun hh => hk ((kingAt_iff _ _).1 hh)
        have hkb : (kind (getP p.b m.f.val) == 1) = false := by simpa using hk
        simp only [if_neg hka, hkb, Bool.false_and, Bool.false_eq_true, if_false]
    · rfl
    · rfl
    · exact hepS.symm
    · show p.hmc + 1 = if (kind (getP p.b m.f.val) == 6 || getP p.b m.t.val != 0) then 0 else p.hmc + 1
      rw [hk6b, htg]; simp
    · rfl
  · -- capture by a piece
    rw [makeC_cap p m (Or.inl htg), apply_eq]
    apply pos_ext
    · show _ = b4S p m
      have hb4 : b4S p m = b3S p m := by
        unfold b4S
        by_cases hk : kind (getP p.b m.f.val) = 1
        · have hpk := (pseudo_king p m h hk).2
          have n1 : ¬ m.t.val = m.f.val + 2 := by
            intro h2
            rcases hpk with h3 | ⟨_, h4, h5⟩ | ⟨h3, _, _⟩
            · exact h3.1 h2
            · have hcs := castleOk_short p h5
              rw [← h4, ← h2] at hcs; exact htg hcs.2.1
            · omega
          have n2 : ¬ m.t.val + 2 = m.f.val := by
            intro h2
            rcases hpk with h3 | ⟨h3, _, _⟩ | ⟨_, h4, h5⟩
            · exact h3.2 h2
            · omega
            · have hcl := castleOk_long p h5
              rw [← h4] at hcl
              have : m.f.val - 2 = m.t.val := by omega
              rw [this] at hcl; exact htg hcl.2.1
          simp [n1, n2]
        · have hkb : (kind (getP p.b m.f.val) == 1) = false := by simpa using hk
          simp [hkb]
      rw [hb4, hb3]
      unfold epClearedB
      simp only [if_neg hnp.1, if_neg hnp.2, hpromo]
      simp
    · rfl
    · rfl
    · show epNewC _ m _ = epS p m
      rw [hepS]; unfold epNewC
      simp only [if_neg hnp.1, if_neg hnp.2]
    · show 0 = if (kind (getP p.b m.f.val) == 6 || getP p.b m.t.val != 0) then 0 else p.hmc + 1
      simp [htg]
    · rfl

/-- **`makeMove` computes the specification's `apply`** (essential state) -/
theorem makeC_eq_apply (p : Pos) (m : Mv) (h : pseudo p m = true) (he : EpOk p) : makeC p m = Chess.apply p m := by
  by_cases hk6 : kind (getP p.b m.f.val) = 6
  · have hb := pseudo_basic p m h
    cases hw : p.wtm
    · rw [hw] at hb; exact makeC_apply_bpawn p m h he ((own_black _ hb.1).2.2.1 hk6)
    · rw [hw] at hb; exact makeC_apply_wpawn p m h he ((own_white _ hb.1).2.2.1 hk6)
  · exact makeC_apply_other p m h hk6


end PosImpl
