/-!
Bitboard and fold helpers of the `Position` model (C02): single-square masks, the bitboard of a predicate
(`bbOf`), and the from-scratch fold of a value over the 64 squares (`foldN`), each with the lemma that is
needed to show that an incremental update equals the from-scratch recomputation.
-/
namespace PosImpl

abbrev BB := BitVec 64

/-- `1ULL << s` -/
def bit (s : Nat) : BB := 1#64 <<< s

theorem bit_get (s j : Nat) (hj : j < 64) (hs : s < 64) : (bit s).getLsbD j = decide (j = s) := by
  simp [bit, hj]
  by_cases h : j = s
  · subst h; simp
  · by_cases h2 : j < s
    · simp [h, h2]
    · simp [h, h2]
      have : j - s ≠ 0 := by omega
      intro h0; exact absurd h0 this

theorem clr_get (b : BB) (s j : Nat) (hj : j < 64) (hs : s < 64) :
    (b &&& ~~~(bit s)).getLsbD j = (b.getLsbD j && !decide (j = s)) := by
  simp only [BitVec.getLsbD_and, BitVec.getLsbD_not, hj, decide_true, Bool.true_and, bit_get s j hj hs]

theorem set_get (b : BB) (s j : Nat) (hj : j < 64) (hs : s < 64) :
    (b ||| bit s).getLsbD j = (b.getLsbD j || decide (j = s)) := by
  simp only [BitVec.getLsbD_or, bit_get s j hj hs]

/-- bitboard of the squares `s < n` with `f s` -/
def bbOfAux (f : Nat → Bool) : Nat → BB
  | 0 => 0
  | n + 1 => if f n then bbOfAux f n ||| bit n else bbOfAux f n

/-- bitboard of the squares satisfying `f` -/
def bbOf (f : Nat → Bool) : BB := bbOfAux f 64

theorem bbOfAux_get (f : Nat → Bool) (n : Nat) (hn : n ≤ 64) (i : Nat) (hi : i < 64) :
    (bbOfAux f n).getLsbD i = (decide (i < n) && f i) := by
  induction n with
  | zero => simp [bbOfAux]
  | succ n ih =>
    have ih := ih (by omega)
    unfold bbOfAux
    by_cases hf : f n = true
    · rw [if_pos hf, set_get _ _ _ hi (by omega), ih]
      by_cases hin : i = n
      · subst hin; simp [hf]
      · have : (i < n + 1) = (i < n) := by apply propext; omega
        simp [hin, this]
    · rw [if_neg hf, ih]
      by_cases hin : i = n
      · subst hin
        have : f i = false := by simpa using hf
        simp [this]
      · have : (i < n + 1) = (i < n) := by apply propext; omega
        simp [this]

theorem bbOf_get (f : Nat → Bool) (i : Nat) (hi : i < 64) : (bbOf f).getLsbD i = f i := by
  unfold bbOf; rw [bbOfAux_get f 64 (Nat.le_refl _) i hi]; simp [hi]

theorem bb_ext (a b : BB) (h : ∀ i, i < 64 → a.getLsbD i = b.getLsbD i) : a = b :=
  BitVec.eq_of_getLsbD_eq (fun i hi => h i hi)

/-- from-scratch fold of `f 0 … f (n-1)` with an associative-commutative operation -/
def foldN {α : Type} (op : α → α → α) (e : α) (f : Nat → α) : Nat → α
  | 0 => e
  | n + 1 => op (foldN op e f n) (f n)

theorem foldN_congr {α : Type} (op : α → α → α) (e : α) (f g : Nat → α) (n : Nat)
    (h : ∀ x, x < n → f x = g x) : foldN op e f n = foldN op e g n := by
  induction n with
  | zero => rfl
  | succ n ih =>
    simp only [foldN]
    rw [ih (fun x hx => h x (by omega)), h n (by omega)]

/-- changing `f` at one index `s`: (new fold) ∘ (old value) = (old fold) ∘ (new value) -/
theorem foldN_upd {α : Type} (op : α → α → α) (hA : ∀ a b c, op (op a b) c = op a (op b c))
    (hC : ∀ a b, op a b = op b a) (e : α)
    (f g : Nat → α) (n s : Nat) (hs : s < n) (hfg : ∀ x, x ≠ s → f x = g x) :
    op (foldN op e g n) (f s) = op (foldN op e f n) (g s) := by
  have swap : ∀ a b c, op (op a b) c = op (op a c) b := by
    intro a b c; rw [hA, hC b c, ← hA]
  induction n with
  | zero => omega
  | succ n ih =>
    simp only [foldN]
    by_cases hsn : s = n
    · subst hsn
      have : foldN op e f s = foldN op e g s := foldN_congr op e f g s (fun x hx => hfg x (by omega))
      rw [this]
      exact swap _ _ _
    · have ih := ih (by omega)
      have hn : f n = g n := hfg n (fun h => hsn h.symm)
      rw [hn, swap, ih, swap]

def xorAll (f : Nat → BB) : BB := foldN (· ^^^ ·) 0 f 64
def sumI (f : Nat → Int) : Int := foldN (· + ·) 0 f 64
def sum32 (f : Nat → BitVec 32) : BitVec 32 := foldN (· + ·) 0 f 64

theorem xorAll_upd (f g : Nat → BB) (s : Nat) (hs : s < 64) (hfg : ∀ x, x ≠ s → f x = g x) :
    xorAll g = xorAll f ^^^ f s ^^^ g s := by
  have h := foldN_upd (fun (a b : BB) => a ^^^ b) (fun a b c => BitVec.xor_assoc a b c) (fun a b => BitVec.xor_comm a b)
    (0 : BB) f g 64 s hs hfg
  unfold xorAll
  calc foldN (· ^^^ ·) 0 g 64 = (foldN (· ^^^ ·) 0 g 64 ^^^ f s) ^^^ f s := by
        rw [BitVec.xor_assoc, BitVec.xor_self, BitVec.xor_zero]
    _ = (foldN (· ^^^ ·) 0 f 64 ^^^ g s) ^^^ f s := by rw [h]
    _ = foldN (· ^^^ ·) 0 f 64 ^^^ f s ^^^ g s := by
        rw [BitVec.xor_assoc, BitVec.xor_comm (g s), ← BitVec.xor_assoc]

theorem sumI_upd (f g : Nat → Int) (s : Nat) (hs : s < 64) (hfg : ∀ x, x ≠ s → f x = g x) :
    sumI g = sumI f - f s + g s := by
  have h := foldN_upd (fun (a b : Int) => a + b) (fun a b c => Int.add_assoc a b c) (fun a b => Int.add_comm a b)
    (0 : Int) f g 64 s hs hfg
  unfold sumI
  omega

theorem sum32_upd (f g : Nat → BitVec 32) (s : Nat) (hs : s < 64) (hfg : ∀ x, x ≠ s → f x = g x) :
    sum32 g = sum32 f - f s + g s := by
  have h := foldN_upd (fun (a b : BitVec 32) => a + b) (fun a b c => BitVec.add_assoc a b c) (fun a b => BitVec.add_comm a b)
    (0 : BitVec 32) f g 64 s hs hfg
  unfold sum32
  have e1 : foldN (· + ·) 0 g 64 = foldN (· + ·) 0 f 64 + g s - f s := by
    rw [← h]; exact (BitVec.add_sub_cancel _ _).symm
  rw [e1, BitVec.sub_eq_add_neg, BitVec.sub_eq_add_neg, BitVec.add_assoc, BitVec.add_comm (g s), ← BitVec.add_assoc]

end PosImpl
