import TexelVerif.Csp.RunLemmas
/-!
# C20 — the rank-constraint solver decides satisfiability exactly

Property theorems only; the model and the helper lemmas live in `TexelVerif/Csp/*`.

* `Csp.Cmd` / `Csp.solveCmds`: the whole life of one `CspSolver` object — the building calls (`addVariable`,
  `makeEven`, `makeOdd`, `addMinVal`, `addMaxVal`, `addIneq` LE/GE, `addEq`) followed by `solve` — as a *total*
  executable function of the call sequence (this is what the differential test runs against the C++).
* `Csp.Satisfies cmds σ`: what the calls mean, stated on integers only (no bit sets).
* `Csp.Supported cmds`: the supported limits as a decidable predicate (values in [-16,47], existing variables,
  offsets within ±(2^31-48) so that no `int` overflows, at most 192 constraint records).
-/
namespace Props.C20
open Csp

/-! ## Bit-set primitives (`BitSet<64,-16>`), at the level of membership -/

/-- `setRange(lo,hi)` inside the window: exactly the interval. -/
theorem bitset_setRange_spec (lo hi : Int) (h1 : -16 ≤ lo) (h2 : lo ≤ 47) (h3 : -16 ≤ hi) (h4 : hi ≤ 47) :
    ∃ d, setRange lo hi = some d ∧ ∀ x, d.has x = (decide (lo ≤ x) && decide (x ≤ hi)) :=
  setRange_spec lo hi (by unfold offs; omega) (by unfold offs; omega) (by unfold offs; omega) (by unfold offs; omega)

/-- `removeOdd` keeps the even members, `removeEven` the odd ones (negative values included). -/
theorem bitset_parity_spec (d : Dom) (x : Int) :
    (removeOdd d).has x = (d.has x && decide (x % 2 = 0)) ∧ (removeEven d).has x = (d.has x && decide (x % 2 = 1)) :=
  ⟨removeOdd_has d x, removeEven_has d x⟩

/-- `removeSmaller(m)` is defined exactly for `m ≤ 47` (beyond that the C++ indexes `data[1]`) and keeps the members ≥ m;
    `removeLarger(m)` is defined exactly for `m ≥ -17` (below that the C++ indexes `data[-1]`) and keeps the members ≤ m. -/
theorem bitset_remove_spec (d : Dom) (m : Int) :
    ((removeSmaller d m).isSome = decide (m ≤ 47)) ∧ (∀ d', removeSmaller d m = some d' → ∀ x, d'.has x = (d.has x && decide (m ≤ x))) ∧
    ((removeLarger d m).isSome = decide (-17 ≤ m)) ∧ (∀ d', removeLarger d m = some d' → ∀ x, d'.has x = (d.has x && decide (x ≤ m))) :=
  ⟨removeSmaller_isSome d m, fun d' h x => removeSmaller_has d d' m x h, removeLarger_isSome d m, fun d' h x => removeLarger_has d d' m x h⟩

/-- `getMinBit` / `getMaxBit` of a non-empty set: a member, and a lower / upper bound of all members. -/
theorem bitset_minmax_spec (d : Dom) (v : Int) (hv : d.has v = true) :
    d.has (minBit d) = true ∧ minBit d ≤ v ∧ d.has (maxBit d) = true ∧ v ≤ maxBit d :=
  ⟨(minBit_le d v hv).1, (minBit_le d v hv).2, (le_maxBit d v hv).1, (le_maxBit d v hv).2⟩

/-- The empty-set convention: `getMinBit` and `getMaxBit` return −1 — which is a *legal value* of the window, so callers
    must not take it for a member (the arc-consistency proof does not). -/
theorem bitset_empty_convention :
    minBit (0 : Dom) = -1 ∧ maxBit (0 : Dom) = -1 ∧ (0 : Dom).isEmpty = true ∧ (∀ x, (0 : Dom).has x = false) ∧
    (∀ d : Dom, d.isEmpty = false → ∃ x, d.has x = true) := by
  refine ⟨by decide, by decide, by decide, empty_has, fun d hd => exists_has_of_ne_zero d ?_⟩
  intro h; subst h; simp [Dom.isEmpty] at hd

/-- `clearBit(v)` removes exactly `v`, and the number of members drops by one if it was there. -/
theorem bitset_clearBit_spec (d : Dom) (v x : Int) (h1 : -16 ≤ v) (h2 : v ≤ 47) :
    (clearBit d v).has x = (d.has x && !decide (x = v)) ∧ (d.has v = true → bitCount (clearBit d v) + 1 = bitCount d) :=
  ⟨clearBit_has d v x ⟨by unfold offs; omega, by unfold offs; omega⟩, fun hv => card_clearBit d v hv⟩

/-- `getBitVal` returns a member of a non-empty set, for each of the four preferences; and the
    `while (!d.empty()) { v = getBitVal(d); d.clearBit(v); … }` loop of `solveRecursive` tries exactly the members. -/
theorem getBitVal_spec (d : Dom) (p : Pref) :
    (d ≠ 0 → d.has (getBitVal d p) = true) ∧ (∀ x, x ∈ ordLoop p 64 d ↔ d.has x = true) :=
  ⟨getBitVal_has d p, fun x => ordLoop_mem p 64 d (card_le d) x⟩

/-! ## The building API means what its documentation says -/

/-- A successfully built solver state has exactly the solutions the calls describe (`Satisfies`). -/
theorem build_meaning (cmds : List Cmd) (s : Sys) (h : build cmds = .ok s) (σ : Asg) :
    Sol s.doms s.cons σ ↔ Satisfies cmds σ :=
  (build_spec cmds s h).1 σ

/-- The supported limits, as a decidable predicate on the calls, are exactly "no call trips the contract and `solve`'s
    assert on the number of constraints holds". -/
theorem supported_iff_builds (cmds : List Cmd) :
    Supported cmds = true ↔ ∃ s, build cmds = .ok s ∧ s.cons.length ≤ 192 :=
  supported_iff cmds

/-! ## Termination: the fuel of the work-list loop provably suffices -/

/-- `makeArcConsistent` (work-list loop) started with all constraints pending never needs more than
    `(64·n+1)·(m+1)` iterations for n variables and m constraints. -/
theorem arc_fuel_suffices (ds : Doms) (cs : List Con) (hwf : WFc ds cs) :
    arcLoop cs ((64 * ds.length + 1) * (cs.length + 1)) ds (List.replicate cs.length true) ≠ .outOfFuel :=
  arcLoop_arcFuel ds cs hwf

theorem solve_state_ok (cmds : List Cmd) (s : Sys) (h : build cmds = .ok s) : s.WF := (build_spec cmds s h).2

/-- The model of `solve` is total: it is never stuck (out of fuel / outside the bit-set contract), for *every* call
    sequence.  Outside the supported limits it reports which call is outside the contract. -/
theorem solve_total (cmds : List Cmd) : solveCmds cmds ≠ .stuck := by
  unfold solveCmds
  cases hb : build cmds with
  | error e => obtain ⟨e, i⟩ := e; simp
  | ok s =>
    simp only
    have wf := solve_state_ok cmds s hb
    by_cases hm : s.cons.length ≤ maxCons
    · have := Sys.solve_spec s wf hm
      intro h; rw [h] at this; exact this
    · rw [Sys.solve_tooMany s wf hm]; simp

/-- **Soundness**: whatever `solve` returns as a solution satisfies every range, parity restriction, tightening and
    constraint — for every call sequence and every preference assignment. -/
theorem solve_sound (cmds : List Cmd) (τ : Asg) (n : Nat) (ds : Doms) (h : solveCmds cmds = .sat τ n ds) :
    Satisfies cmds τ := by
  unfold solveCmds at h
  cases hb : build cmds with
  | error e => obtain ⟨e, i⟩ := e; rw [hb] at h; cases h
  | ok s =>
    rw [hb] at h; simp only at h
    have wf := solve_state_ok cmds s hb
    by_cases hm : s.cons.length ≤ maxCons
    · have := Sys.solve_spec s wf hm
      rw [h] at this
      exact (build_meaning cmds s hb τ).1 this.1
    · rw [Sys.solve_tooMany s wf hm] at h; cases h

/-- An "unsolvable" verdict (from arc consistency or from the exhausted search) is correct: no assignment satisfies
    the calls. -/
theorem solve_unsat_correct (cmds : List Cmd) (h : (solveCmds cmds).isUnsat = true) : ∀ σ, ¬ Satisfies cmds σ := by
  unfold solveCmds at h
  cases hb : build cmds with
  | error e => obtain ⟨e, i⟩ := e; rw [hb] at h; cases h
  | ok s =>
    rw [hb] at h; simp only at h
    have wf := solve_state_ok cmds s hb
    intro σ hσ
    have hsol := (build_meaning cmds s hb σ).2 hσ
    by_cases hm : s.cons.length ≤ maxCons
    · have := Sys.solve_spec s wf hm
      cases hr : s.solve with
      | unsatArc => rw [hr] at this; exact this σ hsol
      | unsatSearch n ds => rw [hr] at this; exact this.1 σ hsol
      | sat _ _ _ => rw [hr] at h; cases h
      | err _ _ => rw [hr] at h; cases h
      | tooMany => rw [hr] at h; cases h
      | stuck => rw [hr] at h; cases h
    · rw [Sys.solve_tooMany s wf hm] at h; cases h

/-- Inside the supported limits the solver always answers "solvable" or "unsolvable" (never an error). -/
theorem solve_decides (cmds : List Cmd) (hs : Supported cmds = true) :
    (solveCmds cmds).isSat = true ∨ (solveCmds cmds).isUnsat = true := by
  obtain ⟨s, hb, hm⟩ := (supported_iff cmds).1 hs
  unfold solveCmds; rw [hb]; simp only
  have := Sys.solve_spec s (solve_state_ok cmds s hb) hm
  cases hr : s.solve <;> rw [hr] at this <;> simp [Out.isSat, Out.isUnsat] <;> exact this

/-- **Completeness**: inside the supported limits, if some assignment satisfies the calls the solver says "solvable". -/
theorem solve_complete (cmds : List Cmd) (hs : Supported cmds = true) (hex : ∃ σ, Satisfies cmds σ) :
    (solveCmds cmds).isSat = true := by
  rcases solve_decides cmds hs with h | h
  · exact h
  · obtain ⟨σ, hσ⟩ := hex; exact absurd hσ (solve_unsat_correct cmds h σ)

/-- **Exactness**: inside the supported limits, "solvable" is reported exactly when a satisfying integer assignment
    exists.  `cmds` carries an arbitrary `PrefVal` per variable; the right-hand side does not mention it. -/
theorem solve_iff (cmds : List Cmd) (hs : Supported cmds = true) :
    (solveCmds cmds).isSat = true ↔ ∃ σ, Satisfies cmds σ := by
  constructor
  · intro h
    cases hr : solveCmds cmds with
    | sat τ n ds => exact ⟨τ, solve_sound cmds τ n ds hr⟩
    | _ => rw [hr] at h; cases h
  · exact solve_complete cmds hs

/-- **The value-preference order never affects the verdict**: two call sequences that differ only in the `PrefVal`
    arguments are both inside (or both outside) the limits and get the same solvable / unsolvable answer. -/
theorem pref_irrelevant (cmds cmds' : List Cmd) (h : cmds.map erasePref = cmds'.map erasePref) (hs : Supported cmds = true) :
    Supported cmds' = true ∧ (solveCmds cmds').isSat = (solveCmds cmds).isSat := by
  have e1 := fun σ => erase_list cmds 0 σ
  have e2 := fun σ => erase_list cmds' 0 σ
  have hs' : Supported cmds' = true := by
    unfold Supported at hs ⊢
    rw [← (e2 []).1, ← (e2 []).2.1, ← h, (e1 []).1, (e1 []).2.1]; exact hs
  have hsat : ∀ σ, Satisfies cmds' σ ↔ Satisfies cmds σ := by
    intro σ; unfold Satisfies
    rw [← (e2 σ).2.2.1, ← (e2 σ).2.2.2, ← h, (e1 σ).2.2.1, (e1 σ).2.2.2]
  refine ⟨hs', ?_⟩
  have a := solve_iff cmds hs
  have b := solve_iff cmds' hs'
  have : (solveCmds cmds').isSat = true ↔ (solveCmds cmds).isSat = true := by
    rw [a, b]; exact ⟨fun ⟨σ, h⟩ => ⟨σ, (hsat σ).1 h⟩, fun ⟨σ, h⟩ => ⟨σ, (hsat σ).2 h⟩⟩
  cases h1 : (solveCmds cmds').isSat <;> cases h2 : (solveCmds cmds).isSat <;> simp_all

/-- Arc consistency is sound: the domains `solve` searches over (reported next to the verdict) have exactly the
    solutions of the original problem — no value occurring in a solution is removed, nothing is added. -/
theorem arc_sound (cmds : List Cmd) (s : Sys) (hb : build cmds = .ok s) (hn : s.doms.length ≠ 0) (τ : Asg) (n : Nat) (ds : Doms)
    (h : s.solve = .sat τ n ds ∨ s.solve = .unsatSearch n ds) (σ : Asg) :
    Sol ds s.cons σ ↔ Satisfies cmds σ := by
  have wf := solve_state_ok cmds s hb
  rw [← build_meaning cmds s hb σ]
  by_cases hm : s.cons.length ≤ maxCons
  · have := Sys.solve_spec s wf hm
    rcases h with h | h
    · rw [h] at this; exact (this.2 hn).2 σ
    · rw [h] at this; exact this.2.2 σ
  · rw [Sys.solve_tooMany s wf hm] at h; rcases h with h | h <;> cases h

/-- Inside the limits no `int` expression the C++ evaluates can overflow: every stored offset `c` satisfies
    |c| ≤ 2^31−48 (so `-offs` in `addIneq` is fine), and `getMaxBit()+c`, `getMinBit()-c`, `values[v2]+c` stay in range. -/
theorem no_int_overflow (cmds : List Cmd) (s : Sys) (hb : build cmds = .ok s) (c : Con) (hc : c ∈ s.cons) (d : Dom) (v : Int)
    (hv : -16 ≤ v ∧ v ≤ 47) :
    (intMin ≤ -c.c ∧ -c.c ≤ intMax) ∧ (intMin ≤ maxBit d + c.c ∧ maxBit d + c.c ≤ intMax) ∧
    (intMin ≤ minBit d - c.c ∧ minBit d - c.c ≤ intMax) ∧ (intMin ≤ v + c.c ∧ v + c.c ≤ intMax) := by
  have := (solve_state_ok cmds s hb).cons c hc
  have h1 := minBit_range d
  have h2 := maxBit_range d
  unfold cMax at this; unfold intMin intMax
  omega

/-! ## Non-vacuity: the hypotheses are satisfiable, both verdicts occur, errors are reported -/

example : Supported [.addVar .small 1 6, .addVar .large 1 6, .le 0 1 (-1), .even 0, .maxVal 1 4] = true := by decide
example : Supported [.addVar .small 1 6, .minVal 0 48] = false := by decide
example : Supported [.addVar .small 1 6, .le 0 0 2147483601] = false := by decide
example : Satisfies [.addVar .small 1 6, .addVar .large 1 6, .le 0 1 (-1)] [1, 6] := by
  simp [Satisfies, SatFrom, nVarsOf, Cmd.nv, Cmd.holds, valOf]
example : (solveCmds [.addVar .midSmall 1 6, .addVar .large 1 6, .le 0 1 (-1)]).vals = some [3, 6] := by decide
example : (solveCmds [.addVar .small 1 6, .addVar .small 1 6, .le 0 1 (-1), .ge 0 1 0]).isUnsat = true := by decide
example : (solveCmds [.addVar .small 0 7, .addVar .small 0 7, .eq 0 1 3, .even 0, .even 1]).isUnsat = true := by decide

end Props.C20
