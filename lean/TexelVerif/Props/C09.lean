import TexelVerif.Props.C10
/-! C09 property theorems (placeholder while the access table is being written). -/
namespace Conc
theorem c09_placeholder {n : Nat} (r : Fin n) : G1 r (init r) := init_G1 r
end Conc
