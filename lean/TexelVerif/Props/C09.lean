import TexelVerif.Conc.Access
import TexelVerif.Props.C10
/-! # C09 — multi-threaded operation is free of data races (model level, **partial**)

On top of the protocol model of C10, `Conc/Access.lean` lists the shared locations of the thread
communication layer with their protection discipline and the accesses of every model step.
`drf_partial`: in every reachable state, two enabled steps of different threads never perform conflicting
accesses (same location, one a write, not atomic, no common lock).

**What is missing for the full property (hence `_partial`):** the access table is read off the source by
hand; that it lists every shared location and every access is *not* proved — it is validated dynamically by
ThreadSanitizer runs of the real binaries (tools/checks/c09.py).  The theorem also assumes, per `exit` event,
that the parent's thread is not running (`exitQuiet`); the acceptor checks this on every recorded destruction
(strict mode).  The original C++ code violated it occasionally (`worker-destroy-vs-poll`, found by the TSan run,
repaired in the hooked tree by reordering `~WorkerThread`). -/
namespace Conc

variable {n : Nat}

/-! ### which events touch which location, and how -/

/-- events of the thread of `v` that read `Communicator::children` of `v` without the lock -/
def childReader (r v : Fin n) : Ev n → Prop
  | .deq w => w = v
  | .pollEmpty w => w = v
  | .eInit => v = r
  | .eJobNext => v = r
  | .eStopSend => v = r
  | .eQuitSend => v = r
  | _ => False

/-- events that add or remove a child of `v` (under `v`'s queue mutex) -/
def childWriter (s : St n) (v : Fin n) : Ev n → Prop
  | .spawn _ p => p = v
  | .exit w => s.parent w = some v
  | _ => False

/-- engine-thread events that read the start-search parameters -/
def paramReader : Ev n → Prop
  | .eBegin => True
  | .eInit => True
  | .eSearchDone => True
  | .eHoldDone => True
  | .eBest => True
  | _ => False

/-- events performed by a thread that is inside a search -/
def searchReader (s : St n) : Ev n → Prop
  | .deq v => (isSearch (s.pc v) || s.pc v == .esearch) = true
  | .pollEmpty v => (isSearch (s.pc v) || s.pc v == .esearch) = true
  | .searchResult _ => True
  | .searchLeave _ _ => True
  | .eInit => True
  | .eJobNext => True
  | .eSearchDone => True
  | _ => False

theorem acc_queue (r : Fin n) (s : St n) (e : Ev n) (v : Fin n) :
    ∀ a ∈ acc r s e, a.loc = .queue v → a.lock = some (.qmutex v) := by
  cases e with
  | send w o => cases o <;> simp [acc, wr, rd, thr]
  | exit w => simp only [acc]; split <;> simp_all [wr, rd, thr]
  | _ => simp only [acc] <;> (try split) <;> simp_all [wr, rd, searchReads, thr, List.forall_mem_cons, List.forall_mem_append]

theorem acc_flag (r : Fin n) (s : St n) (e : Ev n) (v : Fin n) :
    ∀ a ∈ acc r s e, a.loc = .flag v → a.lock = some (.nmutex v) := by
  cases e with
  | send w o => cases o <;> simp [acc, wr, rd, thr]
  | exit w => simp only [acc]; split <;> simp_all [wr, rd, thr]
  | _ => simp only [acc] <;> (try split) <;> simp_all [wr, rd, searchReads, thr, List.forall_mem_cons, List.forall_mem_append]

theorem acc_pending (r : Fin n) (s : St n) (e : Ev n) :
    ∀ a ∈ acc r s e, a.loc = .pending → a.lock = some .emutex := by
  cases e with
  | send w o => cases o <;> simp [acc, wr, rd, thr]
  | exit w => simp only [acc]; split <;> simp_all [wr, rd, thr]
  | _ => simp only [acc] <;> (try split) <;> simp_all [wr, rd, searchReads, thr, List.forall_mem_cons, List.forall_mem_append]

theorem acc_counters (r : Fin n) (s : St n) (e : Ev n) (v : Fin n) :
    ∀ a ∈ acc r s e, a.loc = .counters v → thr r e = .T v := by
  cases e with
  | send w o => cases o <;> simp [acc, wr, rd, thr]
  | exit w => simp only [acc]; split <;> simp_all [wr, rd, thr]
  | _ => simp only [acc] <;> (try split) <;> simp_all [wr, rd, searchReads, thr, List.forall_mem_cons, List.forall_mem_append]

theorem acc_job (r : Fin n) (s : St n) (e : Ev n) (v : Fin n) :
    ∀ a ∈ acc r s e, a.loc = .job v → thr r e = .T v := by
  cases e with
  | send w o => cases o <;> simp [acc, wr, rd, thr]
  | exit w => simp only [acc]; split <;> simp_all [wr, rd, thr]
  | _ => simp only [acc] <;> (try split) <;> simp_all [wr, rd, searchReads, thr, List.forall_mem_cons, List.forall_mem_append]

theorem acc_children (r : Fin n) (s : St n) (e : Ev n) (v : Fin n) :
    ∀ a ∈ acc r s e, a.loc = .children v →
      (a.write = false ∧ thr r e = .T v ∧ childReader r v e) ∨ (a.lock = some (.qmutex v) ∧ childWriter s v e) := by
  cases e with
  | send w o => cases o <;> simp [acc, wr, rd, thr, childReader, childWriter]
  | exit w => simp only [acc]; split <;> simp_all [wr, rd, thr, childReader, childWriter]
  | _ => simp only [acc] <;> (try split) <;> simp_all [wr, rd, searchReads, thr, childReader, childWriter, List.forall_mem_cons, List.forall_mem_append]

theorem acc_params (r : Fin n) (s : St n) (e : Ev n) :
    ∀ a ∈ acc r s e, a.loc = .params →
      (a.lock = some .emutex ∧ thr r e = .P ∧ ((∃ b, e = .pWr .search b) ∨ e = .pWaitStop)) ∨ (a.write = false ∧ thr r e = .T r ∧ paramReader e) := by
  cases e with
  | send w o => cases o <;> simp [acc, wr, rd, thr, paramReader]
  | exit w => simp only [acc]; split <;> simp_all [wr, rd, thr, paramReader]
  | _ => simp only [acc] <;> (try split) <;> simp_all [wr, rd, searchReads, thr, paramReader, List.forall_mem_cons, List.forall_mem_append]

theorem acc_options (r : Fin n) (s : St n) (e : Ev n) :
    ∀ a ∈ acc r s e, a.loc = .options →
      (thr r e = .T r ∧ ∃ k, e = .eOpts k ∧ (k = true ∨ s.optsFin = false)) ∨
      (a.write = false ∧ (searchReader s e ∨ thr r e = .T r ∨ ∃ b, e = .pWr .search b)) := by
  cases e with
  | send w o => cases o <;> simp [acc, wr, rd, thr, searchReader]
  | exit w => simp only [acc]; split <;> simp_all [wr, rd, thr, searchReader]
  | _ => simp only [acc] <;> (try split) <;> simp_all [wr, rd, searchReads, thr, searchReader, List.forall_mem_cons, List.forall_mem_append]

theorem acc_ttGen (r : Fin n) (s : St n) (e : Ev n) :
    ∀ a ∈ acc r s e, a.loc = .ttGen →
      (∃ b, e = .pWr .search b) ∨ (a.write = false ∧ searchReader s e) := by
  cases e with
  | send w o => cases o <;> simp [acc, wr, rd, thr, searchReader]
  | exit w => simp only [acc]; split <;> simp_all [wr, rd, thr, searchReader]
  | _ => simp only [acc] <;> (try split) <;> simp_all [wr, rd, searchReads, thr, searchReader, List.forall_mem_cons, List.forall_mem_append]

/-! ### what being enabled implies -/

def pollPc : Pc → Bool
  | .poll | .search _ | .esearch | .ecollect | .equit => true
  | _ => false

theorem en_deq {r : Fin n} {s : St n} {v : Fin n} (h : (step r s (.deq v)).isSome = true) :
    s.q v ≠ [] ∧ pollPc (s.pc v) = true := by
  simp only [step, stepDeq] at h
  split at h
  · cases hq : s.q v with
    | nil => simp [hq] at h
    | cons c rest =>
      refine ⟨by simp, ?_⟩
      simp only [hq] at h
      cases hp : s.pc v <;> simp [hp] at h <;> rfl
  · cases h

theorem en_pollEmpty {r : Fin n} {s : St n} {v : Fin n} (h : (step r s (.pollEmpty v)).isSome = true) :
    pollPc (s.pc v) = true := by
  simp only [step, stepPollEmpty] at h
  split at h
  · cases hp : s.pc v <;> simp [hp] at h <;> rfl
  · cases h

theorem en_search {r : Fin n} {s : St n} {v : Fin n} :
    ((step r s (.searchResult v)).isSome = true → isSearch (s.pc v) = true) ∧
    (∀ m, (step r s (.searchLeave v m)).isSome = true → isSearch (s.pc v) = true) := by
  constructor
  · intro h
    simp only [step, stepSearchResult] at h
    split at h
    · cases hp : s.pc v <;> simp [hp] at h <;> rfl
    · cases h
  · intro m h
    simp only [step, stepSearchLeave] at h
    split at h
    · cases hp : s.pc v <;> simp [hp] at h <;> rfl
    · cases h

theorem en_spawn {r : Fin n} {s : St n} {w p : Fin n} (h : (step r s (.spawn w p)).isSome = true) :
    mainLoopPc (s.pc r) = true ∧ s.q p = [] ∧ (p = r ∨ s.pc p = .wait) := by
  simp only [step, stepSpawn] at h
  split at h
  · rename_i hg
    obtain ⟨_, _, _, _, _, _, hm, hq, _, hp, _⟩ := hg
    refine ⟨hm, hq, ?_⟩
    rcases hp with e | e
    · exact Or.inl e
    · exact Or.inr e.1
  · cases h

theorem en_exit {r : Fin n} {s : St n} {w : Fin n} (h : (step r s (.exit w)).isSome = true) : mainLoopPc (s.pc r) = true := by
  simp only [step, stepExit] at h
  split at h
  · rename_i hg; exact hg.2.2.2.2.2.1
  · cases h

theorem en_eOpts {r : Fin n} {s : St n} {k : Bool} (h : (step r s (.eOpts k)).isSome = true) :
    (s.pc r = .eOpts1 ∨ s.pc r = .epost) ∧ k = s.pend := by
  simp only [step, stepEOpts] at h
  split at h
  · rename_i hg
    refine ⟨?_, hg.2.1⟩
    cases hp : s.pc r <;> simp [hp] at h <;> simp
  · cases h

theorem en_pWrSearch {r : Fin n} {s : St n} {b : Bool} (h : (step r s (.pWr .search b)).isSome = true) :
    s.search.cur = false ∧ s.search.nxt = none ∧ s.optsFin = true := by
  simp only [step, stepP, stepPWr] at h
  split at h
  · rename_i hg; exact ⟨hg.2.2.2.1, hg.2.1, hg.2.2.2.2.2.2.1⟩
  · cases h

theorem en_pWaitStop {r : Fin n} {s : St n} (h : (step r s .pWaitStop).isSome = true) :
    s.search.cur = false ∧ s.search.nxt = none := by
  simp only [step, stepP] at h
  split at h
  · rename_i hg; exact hg
  · cases h

/-- the engine-thread events that read the parameters, `children` or run inside the search are enabled only
    inside `doSearch` (or, for `eQuitSend`, after the main loop) -/
theorem en_engine {r : Fin n} {s : St n} {e : Ev n} (h : (step r s e).isSome = true)
    (he : e = .eBegin ∨ e = .eInit ∨ e = .eJobNext ∨ e = .eSearchDone ∨ e = .eHoldDone ∨ e = .eBest ∨ e = .eStopSend ∨ e = .eQuitSend) :
    mainLoopPc (s.pc r) = false ∧ (e ≠ .eQuitSend → searchPc (s.pc r) = true) := by
  rcases he with e' | e' | e' | e' | e' | e' | e' | e' <;> subst e' <;> simp only [step, stepE] at h
  all_goals (split at h <;> try (cases h))
  all_goals (try (rename_i hg; first
    | (rw [hg.2]; exact ⟨rfl, fun _ => rfl⟩)
    | (rw [hg.2]; exact ⟨rfl, fun hh => absurd rfl hh⟩)))
  all_goals (cases hp : s.pc r <;> simp [hp] at h <;> exact ⟨rfl, fun _ => rfl⟩)

theorem en_alive {r : Fin n} {s : St n} {v : Fin n} {e : Ev n} (h : (step r s e).isSome = true)
    (he : e = .deq v ∨ e = .pollEmpty v ∨ e = .searchResult v ∨ ∃ m, e = .searchLeave v m) : s.alive v = true := by
  rcases he with e' | e' | e' | ⟨m, e'⟩ <;> subst e'
  · simp only [step, stepDeq] at h; split at h
    · rename_i hg; exact hg.1
    · cases h
  · simp only [step, stepPollEmpty] at h; split at h
    · rename_i hg; exact hg.1
    · cases h
  · simp only [step, stepSearchResult] at h; split at h
    · rename_i hg; exact hg.1
    · cases h
  · simp only [step, stepSearchLeave] at h; split at h
    · rename_i hg; exact hg.1
    · cases h

theorem roundPc_searchPc {p : Pc} (h : roundPc p = true) : searchPc p = true := by cases p <;> simp [roundPc] at h <;> rfl
theorem actPc_searchPc {p : Pc} (h : actPc p = true) : searchPc p = true := by
  cases p <;> simp [actPc] at h <;> first | rfl | (subst h; rfl)

/-- outside `doSearch` (and not in a collection loop) no helper is searching -/
theorem no_helper_searching {r : Fin n} {s : St n} (h : Reach r s) (hs : searchPc (s.pc r) = false ∨ s.pc r = .epost)
    (v : Fin n) (hv : s.alive v = true) (hvr : v ≠ r) : isSearch (s.pc v) = false := by
  have h1 := reach_G1 h
  have hnr : inRound s r = false := by
    apply h1.root_not_inRound
    rcases hs with e | e
    · cases hh : roundPc (s.pc r)
      · rfl
      · rw [roundPc_searchPc hh] at e; cases e
    · rw [e]; rfl
  have hna : actR s r = false := by
    unfold actR
    rcases hs with e | e
    · cases hh : actPc (s.pc r)
      · rfl
      · rw [actPc_searchPc hh] at e; cases e
    · rw [e]; rfl
  exact ((quiescent_at_ack h hnr hna).2.2.1 v hv hvr).2.1

/-- a search-time read by a thread other than the engine thread comes from a helper inside `doSearch` -/
theorem searchReader_helper {r : Fin n} {s : St n} (h : Reach r s) {e : Ev n} (hen : (step r s e).isSome = true)
    (hsr : searchReader s e) (hthr : thr r e ≠ .T r) : ∃ v, s.alive v = true ∧ v ≠ r ∧ isSearch (s.pc v) = true := by
  have h1 := reach_G1 h
  cases e <;> simp only [searchReader] at hsr <;> simp only [thr] at hthr <;> try (exact absurd rfl hthr)
  case deq v =>
    have hv := en_alive hen (Or.inl rfl)
    have hvr : v ≠ r := fun e => hthr (by rw [e])
    refine ⟨v, hv, hvr, ?_⟩
    simp only [Bool.or_eq_true] at hsr
    rcases hsr with e | e
    · exact e
    · have : s.pc v = .esearch := by simpa using e
      exact absurd (h1.root_pc hv (by rw [this]; rfl)) hvr
  case pollEmpty v =>
    have hv := en_alive hen (Or.inr (Or.inl rfl))
    have hvr : v ≠ r := fun e => hthr (by rw [e])
    refine ⟨v, hv, hvr, ?_⟩
    simp only [Bool.or_eq_true] at hsr
    rcases hsr with e | e
    · exact e
    · have : s.pc v = .esearch := by simpa using e
      exact absurd (h1.root_pc hv (by rw [this]; rfl)) hvr
  case searchResult v =>
    exact ⟨v, en_alive hen (Or.inr (Or.inr (Or.inl rfl))), fun e => hthr (by rw [e]), en_search.1 hen⟩
  case searchLeave v m =>
    exact ⟨v, en_alive hen (Or.inr (Or.inr (Or.inr ⟨m, rfl⟩))), fun e => hthr (by rw [e]), en_search.2 m hen⟩

/-- one direction: `a` (of `e1`) is the writer -/
theorem drf_core {r : Fin n} {s : St n} (h : Reach r s) (e1 e2 : Ev n)
    (h1 : (step r s e1).isSome = true) (h2 : (step r s e2).isSome = true)
    (ht : thr r e1 ≠ thr r e2) (hq1 : exitQuiet r s e1)
    (a : Acc n) (ha : a ∈ acc r s e1) (b : Acc n) (hb : b ∈ acc r s e2)
    (hloc : a.loc = b.loc) (hw : a.write = true) (hat : a.loc.atomic = false)
    (hnl : ¬ ∃ k, a.lock = some k ∧ b.lock = some k) : False := by
  have g1 := reach_G1 h
  have g3 := reach_G3 h
  cases hl : a.loc with
  | queue v =>
    exact hnl ⟨_, acc_queue r s e1 v a ha hl, acc_queue r s e2 v b hb (by rw [← hloc, hl])⟩
  | flag v =>
    exact hnl ⟨_, acc_flag r s e1 v a ha hl, acc_flag r s e2 v b hb (by rw [← hloc, hl])⟩
  | pending =>
    exact hnl ⟨_, acc_pending r s e1 a ha hl, acc_pending r s e2 b hb (by rw [← hloc, hl])⟩
  | counters v =>
    exact ht (by rw [acc_counters r s e1 v a ha hl, acc_counters r s e2 v b hb (by rw [← hloc, hl])])
  | job v =>
    exact ht (by rw [acc_job r s e1 v a ha hl, acc_job r s e2 v b hb (by rw [← hloc, hl])])
  | regs => rw [hl] at hat; cases hat
  | ttData => rw [hl] at hat; cases hat
  | children v =>
    rcases acc_children r s e1 v a ha hl with ⟨hwf, _, _⟩ | ⟨hla, hwr⟩
    · rw [hw] at hwf; cases hwf
    · rcases acc_children r s e2 v b hb (by rw [← hloc, hl]) with ⟨_, hthr2, hrd⟩ | ⟨hlb, _⟩
      · -- e1 adds / removes a child of v while the thread of v reads the list
        have hquiet : mainLoopPc (s.pc r) = true ∧ (v = r ∨ s.pc v = .wait ∨ s.pc v = .done ∨ s.pc v = .gone) := by
          cases e1 <;> simp only [childWriter] at hwr
          case spawn w p =>
            subst hwr
            have := en_spawn h1
            exact ⟨this.1, by rcases this.2.2 with e | e; exact Or.inl e; exact Or.inr (Or.inl e)⟩
          case exit w =>
            refine ⟨en_exit h1, ?_⟩
            simp only [exitQuiet, hwr] at hq1
            exact hq1
        have hnopoll : pollPc (s.pc v) = false := by
          rcases hquiet.2 with e | e | e | e
          · subst e
            cases hp : s.pc v <;> simp [hp, mainLoopPc] at hquiet <;> rfl
          · rw [e]; rfl
          · rw [e]; rfl
          · rw [e]; rfl
        cases e2 <;> simp only [childReader] at hrd
        case deq w => subst hrd; rw [(en_deq h2).2] at hnopoll; cases hnopoll
        case pollEmpty w => subst hrd; rw [en_pollEmpty h2] at hnopoll; cases hnopoll
        case eInit => have := (en_engine h2 (by simp)).1; rw [hquiet.1] at this; cases this
        case eJobNext => have := (en_engine h2 (by simp)).1; rw [hquiet.1] at this; cases this
        case eStopSend => have := (en_engine h2 (by simp)).1; rw [hquiet.1] at this; cases this
        case eQuitSend => have := (en_engine h2 (by simp)).1; rw [hquiet.1] at this; cases this
      · exact hnl ⟨_, hla, hlb⟩
  | params =>
    rcases acc_params r s e1 a ha hl with ⟨hla, _, hev⟩ | ⟨hwf, _, _⟩
    · rcases acc_params r s e2 b hb (by rw [← hloc, hl]) with ⟨hlb, _, _⟩ | ⟨_, _, hrd⟩
      · exact hnl ⟨_, hla, hlb⟩
      · -- P writes the parameters only while the engine thread is outside doSearch
        have hinact : s.search.cur = false ∧ s.search.nxt = none := by
          rcases hev with ⟨b', e⟩ | e
          · subst e; have := en_pWrSearch h1; exact ⟨this.1, this.2.1⟩
          · subst e; exact en_pWaitStop h1
        have hns : searchPc (s.pc r) = false := by
          cases hh : searchPc (s.pc r)
          · rfl
          · have := g3.s1 hh; simp [Reg.active, hinact.1, hinact.2] at this
        have : searchPc (s.pc r) = true := by
          cases e2 <;> simp only [paramReader] at hrd
          all_goals (exact (en_engine h2 (by simp)).2 (by simp))
        rw [hns] at this; cases this
    · rw [hw] at hwf; cases hwf
  | options =>
    rcases acc_options r s e1 a ha hl with ⟨hthr1, k, hek, hk⟩ | ⟨hwf, _⟩
    · subst hek
      have hen := en_eOpts h1
      rcases acc_options r s e2 b hb (by rw [← hloc, hl]) with ⟨hthr2, _⟩ | ⟨_, hrd⟩
      · exact ht (by rw [hthr1, hthr2])
      · rcases hrd with hsr | hthr2 | ⟨b', he2⟩
        · obtain ⟨v, hv, hvr, hsv⟩ := searchReader_helper h h2 hsr (by intro e; exact ht (by rw [hthr1, e]))
          have : isSearch (s.pc v) = false := by
            apply no_helper_searching h _ v hv hvr
            rcases hen.1 with e | e
            · left; rw [e]; rfl
            · right; exact e
          rw [this] at hsv; cases hsv
        · exact ht (by rw [hthr1, hthr2])
        · subst he2
          have hof := (en_pWrSearch h2).2.2
          rcases hk with e | e
          · have := pend_optsFin h (by rw [← hen.2]; exact e)
            rw [hof] at this; cases this
          · rw [hof] at e; cases e
    · rw [hw] at hwf; cases hwf
  | ttGen =>
    rcases acc_ttGen r s e1 a ha hl with ⟨b', he1⟩ | ⟨hwf, _⟩
    · subst he1
      have hen := en_pWrSearch h1
      have hns : searchPc (s.pc r) = false := by
        cases hh : searchPc (s.pc r)
        · rfl
        · have := g3.s1 hh; simp [Reg.active, hen.1, hen.2.1] at this
      rcases acc_ttGen r s e2 b hb (by rw [← hloc, hl]) with ⟨b'', he2⟩ | ⟨_, hsr⟩
      · subst he2; exact ht rfl
      · by_cases hthr2 : thr r e2 = .T r
        · -- the engine thread reads the generation only inside doSearch
          have : searchPc (s.pc r) = true := by
            cases e2 <;> simp only [searchReader] at hsr <;> simp only [thr] at hthr2
            case deq v =>
              have hv : v = r := by injection hthr2
              subst hv
              have hp := (en_deq h2).2
              simp only [Bool.or_eq_true] at hsr
              rcases hsr with e | e
              · have := g1.worker_ne_root (en_alive h2 (Or.inl rfl)) (by cases hq : s.pc v <;> simp [hq, isSearch] at e <;> rfl)
                exact absurd rfl this
              · have : s.pc v = .esearch := by simpa using e
                rw [this]; rfl
            case pollEmpty v =>
              have hv : v = r := by injection hthr2
              subst hv
              simp only [Bool.or_eq_true] at hsr
              rcases hsr with e | e
              · have := g1.worker_ne_root (en_alive h2 (Or.inr (Or.inl rfl))) (by cases hq : s.pc v <;> simp [hq, isSearch] at e <;> rfl)
                exact absurd rfl this
              · have : s.pc v = .esearch := by simpa using e
                rw [this]; rfl
            case searchResult v =>
              have hv : v = r := by injection hthr2
              subst hv
              have e := en_search.1 h2
              have := g1.worker_ne_root (en_alive h2 (Or.inr (Or.inr (Or.inl rfl)))) (by cases hq : s.pc v <;> simp [hq, isSearch] at e <;> rfl)
              exact absurd rfl this
            case searchLeave v m =>
              have hv : v = r := by injection hthr2
              subst hv
              have e := en_search.2 m h2
              have := g1.worker_ne_root (en_alive h2 (Or.inr (Or.inr (Or.inr ⟨m, rfl⟩)))) (by cases hq : s.pc v <;> simp [hq, isSearch] at e <;> rfl)
              exact absurd rfl this
            case eInit => exact (en_engine h2 (by simp)).2 (by simp)
            case eJobNext => exact (en_engine h2 (by simp)).2 (by simp)
            case eSearchDone => exact (en_engine h2 (by simp)).2 (by simp)
          rw [hns] at this; cases this
        · obtain ⟨v, hv, hvr, hsv⟩ := searchReader_helper h h2 hsr hthr2
          have := no_helper_searching h (Or.inl hns) v hv hvr
          rw [this] at hsv; cases hsv
    · rw [hw] at hwf; cases hwf

/-- **data-race freedom of the model (partial: the access table is validated by ThreadSanitizer, not proved complete).**
    In every reachable state, two enabled steps of different threads have no conflicting accesses, provided each
    `exit` among them satisfies `exitQuiet` (its parent's thread is not running). -/
theorem drf_partial {r : Fin n} {s : St n} (h : Reach r s) (e1 e2 : Ev n)
    (h1 : (step r s e1).isSome = true) (h2 : (step r s e2).isSome = true)
    (ht : thr r e1 ≠ thr r e2) (hq1 : exitQuiet r s e1) (hq2 : exitQuiet r s e2) :
    ∀ a ∈ acc r s e1, ∀ b ∈ acc r s e2, ¬ conflict a b := by
  intro a ha b hb hc
  obtain ⟨hloc, hw, hat, hnl⟩ := hc
  rcases hw with hw | hw
  · exact drf_core h e1 e2 h1 h2 ht hq1 a ha b hb hloc hw hat hnl
  · refine drf_core h e2 e1 h2 h1 (fun e => ht e.symm) hq2 b hb a ha hloc.symm hw (by rw [← hloc]; exact hat) ?_
    rintro ⟨k, hk1, hk2⟩; exact hnl ⟨k, hk2, hk1⟩

/-- the same restricted to the current code's guaranteed situations: no `exit` event involved -/
theorem drf_no_exit {r : Fin n} {s : St n} (h : Reach r s) (e1 e2 : Ev n)
    (h1 : (step r s e1).isSome = true) (h2 : (step r s e2).isSome = true)
    (ht : thr r e1 ≠ thr r e2) (hx1 : ∀ v, e1 ≠ .exit v) (hx2 : ∀ v, e2 ≠ .exit v) :
    ∀ a ∈ acc r s e1, ∀ b ∈ acc r s e2, ¬ conflict a b := by
  apply drf_partial h e1 e2 h1 h2 ht
  · cases e1 <;> simp only [exitQuiet]
    case exit v => exact absurd rfl (hx1 v)
  · cases e2 <;> simp only [exitQuiet]
    case exit v => exact absurd rfl (hx2 v)

end Conc
