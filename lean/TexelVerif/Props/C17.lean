import TexelVerif.Chess.SAN
import TexelVerif.Chess.TextIdx
import TexelVerif.Chess.Pgn
/-! # C17 — text formats round-trip and reject garbage safely (work in progress) -/
namespace Props.C17
open Chess

theorem placeholder : (1 : Nat) = 1 := rfl

end Props.C17
