import TexelVerif.Chess.SANRoundtrip
import TexelVerif.Chess.UCILemmas
import TexelVerif.Chess.TextIdxLemmas
import TexelVerif.Chess.FenCounters
import TexelVerif.Chess.PgnLemmas
import TexelVerif.Chess.PgnTreeLemmas
import TexelVerif.Chess.PgnParseLemmas
/-!
# C17 — move, position and game text formats round-trip and reject garbage safely

Models (mirrors of the C++; tied to it by `tools/checks/c17.py`):
`Chess/SAN.lean` (`moveToString`, `stringToMove`, `moveToUCIString`, `uciStringToMove` of textio.cpp),
`Chess/Fen.lean` (`readFEN`, `toFEN`), `Chess/TextIdx.lean` (the same parsers with every string index an explicit
checked access, plus `trim` and the UCI tokenizer), `Chess/Pgn.lean` (PGN scanner, parser, reader, writer),
`Chess/HashIdx.lean` (the `moveCntKeys` index of `historyHash` / `bookHash`).

`legalB p m` is the specification's legality predicate (`Chess/Spec.lean`); `none` stands for the empty `Move()`.
None of the round-trip theorems needs a well-formedness hypothesis on the position.
-/
namespace Props.C17
open Chess

/-! ## move text -/

/-- **SAN round trip.**  For every position and legal move, the short (`long = false`) and the long form written by
    `moveToString` are parsed back to that move by `stringToMove` in the same position. -/
theorem san_roundtrip (p : Pos) (m : Mv) (hm : legalB p m = true) (long : Bool) :
    stringToMove p (moveToString p m long) = some m :=
  roundtrip_L p (genLegal p) m long (genLegal_legalList p) hm

/-- the same with the legal-move list as a parameter, as in the static C++ `moveToString(pos, move, longForm, moves)`:
    any duplicate-free list that holds exactly the legal moves will do (in particular the one `MoveGen` produces,
    which C01 ties to the specification) -/
theorem san_roundtrip_list (p : Pos) (L : List Mv) (hL : ∀ m, m ∈ L ↔ legalB p m = true) (hnd : L.Nodup)
    (m : Mv) (hm : legalB p m = true) (long : Bool) :
    stringToMoveL L p (moveToStringL L p m long) = some m :=
  roundtrip_L p L m long ⟨hL, hnd⟩ hm

/-- the hypotheses of `san_roundtrip_list` are satisfiable: the specification's own list -/
example (p : Pos) : (∀ m, m ∈ genLegal p ↔ legalB p m = true) ∧ (genLegal p).Nodup :=
  ⟨(genLegal_legalList p).mem, (genLegal_legalList p).nodup⟩

/-- **No two legal moves share a text form** (short or long). -/
theorem san_injective (p : Pos) (m₁ m₂ : Mv) (h₁ : legalB p m₁ = true) (h₂ : legalB p m₂ = true) (long : Bool)
    (h : moveToString p m₁ long = moveToString p m₂ long) : m₁ = m₂ := by
  have e₁ := san_roundtrip p m₁ h₁ long
  have e₂ := san_roundtrip p m₂ h₂ long
  rw [h, e₂] at e₁
  exact (Option.some.inj e₁).symm

/-- **The matching core**: the constraint record parsed from a move's own text (`shapeOf … |>.info`) is satisfied
    by that move and by no other legal move — the disambiguation (file, else rank, else both) is sufficient. -/
theorem match_unique (p : Pos) (m : Mv) (hm : legalB p m = true) (long : Bool) :
    (genLegal p).filter (infoMatches p ((shapeOf (genLegal p) p m long).info p.wtm)) = [m] :=
  filter_matches p (genLegal p) m long (genLegal_legalList p) hm

/-- **UCI round trip** for every legal move. -/
theorem uci_roundtrip (p : Pos) (m : Mv) (hm : legalB p m = true) : uciStringToMove (moveToUCI m) = some m :=
  uci_roundtrip_of m (legal_not_empty p m hm) (legal_promoConsistent p m hm)

/-- …and for any non-empty move whose promotion piece fits its target rank (hypothesis shown satisfiable below) -/
theorem uci_roundtrip_general (m : Mv) (hne : m.isEmpty = false) (hp : PromoConsistent m) :
    uciStringToMove (moveToUCI m) = some m := uci_roundtrip_of m hne hp

example : PromoConsistent { f := sq 52, t := sq 60, promo := WQUEEN } := by
  unfold PromoConsistent; right; left; exact ⟨by decide, Or.inl rfl⟩
/-- `legalB` is satisfiable: 1.e4 in the initial position -/
example : ((readFEN startFEN).toOption.map fun p => legalB p { f := sq 12, t := sq 28, promo := 0 }) = some true := by
  decide +kernel

/-! ## the parsers never index outside their input

`Chess.Idx` holds the index-level models: every `s[i]` and `s.substr(pos, n)` of the C++ is a checked access whose
failure is the outcome `.error .oob`.  These theorems say that outcome is unreachable, for every input. -/

/-- `TextIO::readFEN` (incl. `getSquare` on the two-character en-passant field, `fen[i++]` after the blank skip,
    the counter substrings) never reads outside the string -/
theorem readFEN_total (s : Array Char) : Idx.readFENIdx s ≠ .error .oob := Idx.readFENIdx_noOob s

/-- `TextIO::stringToMove`: no access fails, and the index-level loops compute exactly the list-level function the
    round-trip theorems are about -/
theorem stringToMove_total (legal : List Mv) (p : Pos) (s : Array Char) :
    Idx.stringToMoveIdx legal p s = .ok (stringToMoveL legal p s.toList) := Idx.stringToMoveIdx_eq legal p s

/-- `TextIO::uciStringToMove` (`substr(0,2)`, `substr(2,2)`, `move[4]`, `getSquare`): likewise -/
theorem uciStringToMove_total (s : Array Char) :
    Idx.uciStringToMoveIdx s = .ok (uciStringToMove s.toList) := Idx.uciStringToMoveIdx_eq s

/-- `trim` + `UCIProtocol::tokenize` never read outside the command line -/
theorem tokenize_total (line : Array Char) : Idx.tokenize line ≠ .error .oob := Idx.tokenize_noOob line

/-- **parsers_total**: the four statements together -/
theorem parsers_total (s : Array Char) (legal : List Mv) (p : Pos) :
    Idx.readFENIdx s ≠ .error .oob ∧
    Idx.stringToMoveIdx legal p s ≠ .error .oob ∧
    Idx.uciStringToMoveIdx s ≠ .error .oob ∧
    Idx.tokenize s ≠ .error .oob := by
  refine ⟨readFEN_total s, ?_, ?_, tokenize_total s⟩
  · rw [stringToMove_total]; intro h; cases h
  · rw [uciStringToMove_total]; intro h; cases h

/-! ## the FEN counters (the genuine defect found by this check, and its repair) -/

/-- **witness for the reader before the repair**: the half-move clock of `… w - - -5 1` was stored as read, and
    `bookHash()` / `historyHash()` then index `moveCntKeys[101]` at -5 -/
theorem negative_clock_witness :
    counterOfWordOld "-5".toList 0 = -5 ∧ bookIdx (counterOfWordOld "-5".toList 0) = -5 ∧
    histIdx true (counterOfWordOld "-5".toList 0) = some (-5) := by decide

/-- a clock near `INT_MAX` was accepted too; the next quiet move's `halfMoveClock++` overflows `int` -/
theorem huge_clock_witness : counterOfWordOld "2147483647".toList 0 + 1 > 2147483647 := by decide

/-- **the repaired reader**: both counters of every accepted FEN are in `0 … 65535` -/
theorem readFEN_counters_in_range (s : String) (r : RawPos) (h : readFENRaw s = .ok r) :
    0 ≤ r.hmc ∧ r.hmc ≤ 65535 ∧ 0 ≤ r.fmc ∧ r.fmc ≤ 65535 := readFENRaw_counters s r h

/-- the hypothesis is satisfiable: the initial position is accepted -/
example : (readFENRaw startFEN).toOption.isSome = true := by decide +kernel

/-- hence the table index used by `bookHash` and `historyHash` is within `moveCntKeys[0 … 100]` for the position read,
    and stays so (and below `INT_MAX`) after any `k ≤ 2·10⁹` further increments of the clock -/
theorem hash_index_in_range (s : String) (r : RawPos) (h : readFENRaw s = .ok r) (k : Nat) (hk : k ≤ 2000000000) (tb : Bool) :
    0 ≤ bookIdx (r.hmc + k) ∧ bookIdx (r.hmc + k) ≤ 100 ∧
    (∀ i, histIdx tb (r.hmc + k) = some i → 0 ≤ i ∧ i ≤ 100) ∧ r.hmc + k < 2147483648 := by
  obtain ⟨h1, h2, _, _⟩ := readFENRaw_counters s r h
  refine ⟨by unfold bookIdx; omega, by unfold bookIdx; omega, ?_, by omega⟩
  intro i hi
  unfold histIdx at hi
  repeat' split at hi
  all_goals first | (cases hi; omega) | cases hi

/-! ## PGN scanner -/

/-- the stream the scanner reads is the input without `%`-escape lines plus one synthetic line end; every token
    function is structurally recursive on it, so **the scanner terminates on every input**, and each call consumes
    at least one character unless it reports END with nothing left (also inside an unterminated comment or string) -/
theorem pgn_scanner_progress (cs : List Char) :
    ((Pgn.nextTok cs).1.ty = .eof ∧ (Pgn.nextTok cs).2 = []) ∨ (Pgn.nextTok cs).2.length < cs.length :=
  Pgn.nextTok_progress cs

/-- a SYMBOL token is never empty: `tok.token[tok.token.length() - 1]` in `Node::parsePgn` is in range -/
theorem pgn_symbol_nonempty (cs : List Char) (h : (Pgn.nextTok cs).1.ty = .symbol) : (Pgn.nextTok cs).1.s ≠ [] :=
  Pgn.nextTok_symbol_nonempty cs h

/-- **the PGN reader never fails a checked access**: for every byte string, reading all its games (scanner, tag
    section, `Node::parsePgn` with its recursion into variations, the `!`/`?` suffix handling) never produces `.oob` —
    `st.arena[node]` (the `shared_ptr` dereferences), `tok.token[tok.token.length()-1]` and `tok.token[movLen-1]` are
    always in range.  Invariants carried through the recursion: parent indices point into the arena, and no empty SYMBOL
    is ever on the put-back stack.  (The explicit recursion fuel of the parser model is *not* proved sufficient.) -/
theorem pgn_reader_total (s : List Char) (n : Nat) :
    (Pgn.readAll n { cs := Pgn.tokenChars s } []).2 ≠ some .oob :=
  Pgn.readAll_noOob n _ [] (fun t ht => by cases ht)

/-- **PGN round trip on the token level** (`Chess/PgnTree.lean`: the writer `getGameTreeString` with each move text as
    one SYMBOL token, and the recursion of `Node::parsePgn` on SYMBOL / `(` / `)` streams): parsing what the writer
    writes for any forest of variations returns exactly that forest and consumes everything.  Together with
    `san_roundtrip` (each symbol is read back as the move it was written for) this is the tree round trip up to the
    character-level scanning of the written text and the correspondence of `parseLine` with the arena parser of
    `Chess/Pgn.lean`, both of which are covered by the differential (and the driver's run-time cross-check) only. -/
theorem pgn_roundtrip_tokens {α : Type} (ks : List (PgnTree.Tree α)) (f : Nat) (hf : (PgnTree.writeKids ks).length < f) :
    PgnTree.parseLine f (PgnTree.writeKids ks) = (ks, []) := PgnTree.parse_write ks f hf

end Props.C17
