import TexelVerif.PG.Lemmas
import TexelVerif.PG.DeadlockMen
/-!
# C16 — reachable positions are never declared illegal; proof games are valid

What is *proved* here (all statements are unbounded: every legal game of the specification `Chess.legalB` /
`Chess.apply` / `Chess.fixupEP`, any length, `Chess.Playable p ms q` = "`ms` is a sequence of legal moves from `p` to `q`"):

* the two *count rules* of the proof-game tool never reject a reachable position:
  `counts_invariant` (`ProofGame::validatePieceCounts` = `pieceCountsValid` of revmovegen.cpp accepts every position
  of every legal game from the initial position) and `enough_remaining_necessary`
  (`ProofGame::enoughRemainingPieces` holds for every pair (position, later position of the same game));
* the *arithmetic tail* of `ProofGame::distLowerBound` is admissible: `plies_from_moves` (per-side move counts and
  the two side-to-move corrections give a lower bound on the number of plies) and `captures_need_moves` (each side
  must make at least as many moves as the other side has men to lose), combined in
  `dist_lower_bound_captures_partial`;
* the certificate checker applied to every proof game the tool prints is sound: `proofgame_checker_sound`,
  `proofgame_san_checker_sound`.

What is **not** proved (see `soundness_partial` at the end): the geometric pruning rules.  They are only monitored on
reachable positions by `tools/checks/c16.py`.
-/
namespace Props.C16
open Chess PG

/-- **the count transition of a move** (basis of everything below): for every piece code `a ≠ 0`,
    #a after + [a captured] + [a is the moving piece] = #a before + [a is the piece put on the target square] -/
theorem count_transition (p : Pos) (m : Mv) (h : pseudo p m = true) (a : Pc) (ha : a ≠ 0) :
    cnt (apply p m).b a + ind (capturedPc p m) a + ind (p.at m.f) a = cnt p.b a + ind (newPc p m) a :=
  apply_counts p m h a ha

/-- the piece-count rule is an invariant of legal play (from any position that satisfies it) -/
theorem counts_invariant_step (p q : Pos) (ms : List Mv) (h : Playable p ms q)
    (hv : validatePieceCounts (countsOf p.b) = .ok) : validatePieceCounts (countsOf q.b) = .ok :=
  playable_valid p q ms h hv

/-- **`validatePieceCounts` never rejects a position reached by a legal game from the initial position** -/
theorem counts_invariant (q : Pos) (ms : List Mv) (h : Playable startPos ms q) :
    validatePieceCounts (countsOf q.b) = .ok :=
  playable_valid startPos q ms h (by decide +kernel)

/-- **`enoughRemainingPieces` is necessary for reachability**: if `g` is reached from `p` by legal moves, the test
    `enoughRemainingPieces(pieceCnt of p)` with `goalPieceCnt` of `g` succeeds -/
theorem enough_remaining_necessary (p g : Pos) (ms : List Mv) (h : Playable p ms g) :
    enoughRemainingPieces (countsOf p.b) (countsOf g.b) = true :=
  playable_enough p g ms h

/-- sides alternate along a legal game -/
theorem side_to_move_alternates (p g : Pos) (ms : List Mv) (h : Playable p ms g) :
    g.wtm = (if ms.length % 2 = 0 then p.wtm else !p.wtm) := playable_wtm p g ms h

/-- **plies from moves**: if along a legal game from `p` to `g` white makes at least `a` moves and black at least `b`
    (`nWhite`/`nBlack` = the numbers of white/black moves of an alternating sequence), then the game has at least
    `pliesFromMoves a b` plies — the value `distLowerBound` returns for `neededMoves = {a, b}` -/
theorem plies_from_moves (p g : Pos) (ms : List Mv) (h : Playable p ms g) (a b : Int)
    (ha : a ≤ nWhite p.wtm ms.length) (hb : b ≤ nBlack p.wtm ms.length) :
    pliesFromMoves a b p.wtm g.wtm ≤ ms.length := by
  rw [playable_wtm p g ms h]
  exact plies_arith a b p.wtm ms.length ha hb

/-- **captures need moves**: along a legal game the black men that disappear are at most the white moves, and vice
    versa (`EpOK p`: an en-passant square of `p`, if any, has no man of the side to move behind it — true for the
    initial position and after every move, `epOK_after_move`) -/
theorem captures_need_moves (p g : Pos) (ms : List Mv) (h : Playable p ms g) (hep : EpOK p) :
    men false p.b ≤ men false g.b + nWhite p.wtm ms.length ∧ men true p.b ≤ men true g.b + nBlack p.wtm ms.length :=
  playable_men p g ms h hep

theorem epOK_after_move (p : Pos) (m : Mv) (h : legalB p m = true) : EpOK (fixupEP (apply p m)) :=
  fixupEP_epOK _ (apply_epOK p m (legalB_pseudo p m h))

theorem epOK_start : EpOK startPos := by intro e he; cases he

/-- **the arithmetic tail of `distLowerBound` is admissible** (partial): with the geometric part `computeNeededMoves`
    replaced by its trivial value {0,0}, the returned bound (captures per side, then plies) never exceeds the length
    of any legal game from `p` to `g`.
    PARTIAL: the full statement is `distLowerBound p g ≤ ms.length` for the real `neededMoves` (shortest-path /
    assignment / cut-set analysis, proofgame.cpp:744-1400) and "`distLowerBound` ≠ INT_MAX"; by `plies_from_moves` it
    would follow from "white makes ≥ neededMoves[0] and black ≥ neededMoves[1] moves", which has no theorem. -/
theorem dist_lower_bound_captures_partial (p g : Pos) (ms : List Mv) (h : Playable p ms g) (hep : EpOK p) :
    distCombine 0 0 ((men false p.b : Int) - men false g.b) ((men true p.b : Int) - men true g.b) p.wtm g.wtm ≤ ms.length := by
  unfold distCombine
  obtain ⟨h1, h2⟩ := playable_men p g ms h hep
  exact plies_from_moves p g ms h _ _ (by omega) (by omega)

/-- **the proof-game certificate checker is sound**: an accepted move list is a legal game from the initial position
    whose final position equals the target in placement, side to move, castling rights and en-passant square -/
theorem proofgame_checker_sound (ms : List Mv) (target : Pos) (h : checkProofGame ms target = true) :
    ∃ q, Playable startPos ms q ∧ q.b = target.b ∧ q.wtm = target.wtm ∧ q.castle = target.castle ∧ q.ep = target.ep := by
  unfold checkProofGame at h
  split at h
  · next q hq => exact ⟨q, (playLine_iff _ _ _).1 hq, (sameDraw_iff q target).1 h⟩
  · cases h

/-- the same for the SAN front end used on `texelutil`'s `proof:` lines; the SAN resolver is not trusted: whatever it
    proposes is re-tested with `legalB`, and the statement only claims that *some* legal game of that length exists -/
theorem proofgame_san_checker_sound (sans : List String) (target : Pos) (h : checkSanGame sans target = true) :
    ∃ ms q, ms.length = sans.length ∧ Playable startPos ms q ∧
      q.b = target.b ∧ q.wtm = target.wtm ∧ q.castle = target.castle ∧ q.ep = target.ep := by
  unfold checkSanGame at h
  split at h
  · next q hq =>
    obtain ⟨ms, hl, hp⟩ := playSan_sound _ _ _ hq
    exact ⟨ms, q, hl, hp, (sameDraw_iff q target).1 h⟩
  · cases h

/-- the initial position of the model is the one the FEN reader produces from `startPosFEN` -/
theorem startPos_is_startFEN : (readFEN startFEN).toOption = some startPos := by decide +kernel

/-- **what C16 as a whole still lacks** (partial).  Proved: a reachable position passes the count rules and the
    capture/ply arithmetic, i.e. the *conjunction below*.  The full property "no stage of the tool declares a
    reachable position illegal and `distLowerBound ≤` remaining plies" additionally needs the soundness of
    `computeBlocked` / `computeDeadlockedPieces`, `capturesFeasible` (assignment lower bound on pawn file changes),
    `computeNeededMoves` (shortest paths, pawn cones `wPawnReachable`, cut sets, trapped bishops),
    `computeLastMoves` (retro-analysis with `RevMoveGen`), the proof-kernel search (`ProofKernel::goalPossible`,
    `minMovesToGoal`, pawn-column promotion tables, failed-state cache) and the extended-kernel construction
    (`ExtProofKernel` + the CSP solver, the latter is C20).  None of these has a theorem; they are monitored on
    reachable positions only. -/
theorem soundness_partial (p g : Pos) (ms ms' : List Mv) (h0 : Playable startPos ms' p) (h : Playable p ms g) (hep : EpOK p) :
    validatePieceCounts (countsOf p.b) = .ok ∧ validatePieceCounts (countsOf g.b) = .ok ∧
    enoughRemainingPieces (countsOf p.b) (countsOf g.b) = true ∧
    distCombine 0 0 ((men false p.b : Int) - men false g.b) ((men true p.b : Int) - men true g.b) p.wtm g.wtm ≤ ms.length :=
  ⟨counts_invariant p ms' h0, counts_invariant_step p g ms h (counts_invariant p ms' h0),
   enough_remaining_necessary p g ms h, dist_lower_bound_captures_partial p g ms h hep⟩

/-! ## defects found by the monitor (both repaired in /repo; the check keeps the replays in known_findings.json) -/

/-- position from a placement string (no normalisation; counters irrelevant) -/
def mkPos (placement : String) (wtm : Bool) (castle : UInt8) (ep : Option Sq) : Pos :=
  match parsePlacement placement.toList (Vector.replicate 64 0) 7 0 with
  | .ok (b, _) => { b := b, wtm := wtm, castle := castle, ep := ep, hmc := 0, fmc := 1 }
  | .error _ => { b := Vector.replicate 64 0, wtm := wtm, castle := castle, ep := ep, hmc := 0, fmc := 1 }

def mv (f t : Nat) : Mv := { f := ⟨f % 64, Nat.mod_lt _ (by decide)⟩, t := ⟨t % 64, Nat.mod_lt _ (by decide)⟩, promo := 0 }

/-- white may castle: `rnbqkbnr/pppppppp/8/8/8/5NP1/PPPPPPBP/RNBQK2R w KQkq -` -/
def castleA : Pos := mkPos "rnbqkbnr/pppppppp/8/8/8/5NP1/PPPPPPBP/RNBQK2R" true 15 none


/-! ## `ProofGame::computeDeadlockedPieces` (the deadlocked-piece rule of `computeBlocked`) -/

/-- the two nested loops of `computeDeadlockedPieces` end in a set of occupied squares none of whose pieces "can move"
    (`PG.canMove` = the lambda `pieceCanMove`) when the blocked squares and the set itself are obstacles -/
theorem deadlock_loops_fixed_point (b : Board) (B D : Sq → Bool) (h : deadlocked b B = some D) :
    FixPt b B D ∧ ∀ q, D q = true → b[q] ≠ 0 := deadlocked_spec b B D h

/-- **the deadlocked-piece rule is sound** — partial: relative to the `blocked` set handed in by `computeBlocked`
    (hypothesis inside `QuietLine`: those squares keep their contents; the pawn-cone / castling rules that produce
    them have no theorem) and for capture-free lines (the C++ function returns at once when the position has more men
    than the goal).  Along every such legal line, of any length, from `p`, every blocked or deadlocked square still
    holds the piece it holds in `p`: kings hemmed in by obstacle pieces and by squares that obstacle pawns attack,
    sliders and knights without a free first square, pawns with an obstacle in front, castling included. -/
theorem deadlocked_pieces_sound_partial (p q : Pos) (B D : Sq → Bool) (ms : List Mv) (hB : ∀ s, B s = true → p.b[s] ≠ 0)
    (hD : deadlocked p.b B = some D) (h : QuietLine B p ms q) : ∀ s, (B s || D s) = true → q.b[s] = p.b[s] :=
  deadlock_sound p q B D ms hB hD h

/-- hence the `false` verdict of `computeDeadlockedPieces` ("a deadlocked piece differs from the goal") is never given
    for a goal that such a line reaches — the rule never declares a reachable continuation impossible -/
theorem deadlocked_reject_sound_partial (p g : Pos) (B D : Sq → Bool) (ms : List Mv) (hB : ∀ s, B s = true → p.b[s] ≠ 0)
    (hD : deadlocked p.b B = some D) (h : QuietLine B p ms g) : verdict p.b g.b D = true :=
  deadlock_reject_sound p g B D ms hB hD h

/-- a move never adds a man and a capture removes exactly one: with equally many men at both ends **no legal line
    contains a capture** — this is the situation in which `computeDeadlockedPieces` does not return early -/
theorem no_capture_between_equal_men (B : Sq → Bool) (p g : Pos) (ms : List Mv) (h : BlockedLine B p ms g)
    (hv : Chess.Texel.ValidB p.b) (hep : EpPawn p) (hmen : total p.b ≤ total g.b) : QuietLine B p ms g :=
  quiet_of_equal_men B p g ms h hv hep hmen

/-- the hypotheses `ValidB` / `EpPawn` hold in every position of every legal game from the initial position -/
theorem reachable_wellformed (p : Pos) (ms : List Mv) (h : Playable startPos ms p) : Chess.Texel.ValidB p.b ∧ EpPawn p :=
  playable_wf startPos p ms h startPos_wf.1 startPos_wf.2

/-- **the deadlocked-piece rule under the C++ precondition**: `p` is reached by a legal game, the goal `g` has at least
    as many men as `p` (else the function returns early), the loops return `D`; then along every legal line from `p`
    to `g` that leaves the blocked squares alone every deadlocked square keeps its piece, and the verdict is `true`.
    Partial only in the hypothesis about the `blocked` squares (inside `BlockedLine`). -/
theorem deadlocked_rule_reachable_partial (p g : Pos) (ms0 ms : List Mv) (B D : Sq → Bool) (h0 : Playable startPos ms0 p)
    (hB : ∀ s, B s = true → p.b[s] ≠ 0) (hD : deadlocked p.b B = some D) (h : BlockedLine B p ms g)
    (hmen : total p.b ≤ total g.b) :
    (∀ s, (B s || D s) = true → g.b[s] = p.b[s]) ∧ verdict p.b g.b D = true := by
  obtain ⟨hv, hep⟩ := reachable_wellformed p ms0 h0
  have hq := quiet_of_equal_men B p g ms h hv hep hmen
  exact ⟨deadlock_sound p g B D ms hB hD hq, deadlock_reject_sound p g B D ms hB hD hq⟩

/-- non-vacuity of `deadlocked_rule_reachable_partial`: in the initial position with the sixteen pawns blocked the loops
    freeze c1–f1 and c8–f8 (kernel-evaluated), 1.Nc3 is a `BlockedLine` to a position with as many men -/
def nvBlocked : Sq → Bool := fun q => (8 ≤ q.val && q.val < 16) || (48 ≤ q.val && q.val < 56)
def nvMove : Mv := { f := ⟨1, by decide⟩, t := ⟨18, by decide⟩, promo := 0 }
set_option maxRecDepth 1000000 in
example : ∃ D g, deadlocked startPos.b nvBlocked = some D ∧ D ⟨4, by decide⟩ = true ∧ BlockedLine nvBlocked startPos [nvMove] g ∧
    total startPos.b ≤ total g.b ∧ (∀ s, nvBlocked s = true → startPos.b[s] ≠ 0) ∧
    (deadlocked startPos.b nvBlocked).map (fun D => (allSq.filter D).map (·.val)) = some [2, 3, 4, 5, 58, 59, 60, 61] := by
  have hD : (deadlocked startPos.b nvBlocked).isSome = true := by decide +kernel
  obtain ⟨D, hD'⟩ := Option.isSome_iff_exists.1 hD
  refine ⟨D, fixupEP (apply startPos nvMove), hD', ?_, ?_, ?_, ?_, ?_⟩
  · have : (deadlocked startPos.b nvBlocked).map (fun D => D ⟨4, by decide⟩) = some true := by decide +kernel
    rw [hD'] at this; simpa using this
  · refine .cons _ _ _ _ (by decide +kernel) ⟨⟨4, by decide⟩, ?_⟩ (by decide +kernel) (.nil _)
    unfold Chess.Texel.KingAt; decide +kernel
  · decide +kernel
  · decide +kernel
  · decide +kernel

/-- **castling rights are never regained**: a right (any set of bits of the castle mask) absent in `p` is absent in every
    position reachable from `p` — so `computeBlocked`'s early `return false` for a goal that has a castling right the current
    position lacks never rejects a reachable goal -/
theorem castling_rights_never_regained (p g : Pos) (ms : List Mv) (h : Playable p ms g) (bit : UInt8)
    (hb : p.castle &&& bit = 0) : g.castle &&& bit = 0 :=
  castle_monotone p g ms h bit hb

/-- **the castling part of `computeBlocked`'s blocked set**: while a castling right survives to the goal, no move of the
    line starts from or ends on the king's or the rook's home square of that right (`castleKeep s &&& bit = 0` holds for
    exactly those squares) — which is why `computeBlocked` may add E1/H1, E1/A1, E8/H8, E8/A8 to `blocked` -/
theorem castling_squares_untouched (p g : Pos) (ms : List Mv) (h : Playable p ms g) (bit : UInt8) (s : Sq)
    (hs : castleKeep s &&& bit = 0) (hg : g.castle &&& bit ≠ 0) : ∀ m ∈ ms, m.f ≠ s ∧ m.t ≠ s :=
  castle_squares_untouched p g ms h bit s hs hg

example : castleKeep (sq 4) &&& 2 = 0 ∧ castleKeep (sq 7) &&& 2 = 0 ∧ castleKeep (sq 0) &&& 1 = 0 ∧
    castleKeep (sq 60) &&& 8 = 0 ∧ castleKeep (sq 63) &&& 8 = 0 ∧ castleKeep (sq 56) &&& 4 = 0 := by decide

/-- a `QuietLine` is in particular a legal line of the specification -/
theorem quiet_line_playable (B : Sq → Bool) (p q : Pos) (ms : List Mv) (h : QuietLine B p ms q) : Playable p ms q :=
  h.playable


/-- WITNESS (castling; repaired by `fix: ProofGame::distLowerBound over-estimated the distance when a side can still
    castle`).  From `castleA` the position after O-O is one ply away, but the unrepaired `computeNeededMoves` charged
    white two king moves and one rook move (`neededMoves = {3, 0}`, observed through the hook), so `distLowerBound`
    returned `pliesFromMoves 3 0 = 5 > 1`: the hypothesis `a ≤ nWhite` of `plies_from_moves` fails for `a = 3`.
    With the repair's discount (`min 2 (dist(e1,goal) − dist(g1,goal)) = 2`) the value is `pliesFromMoves 1 0 = 1`.
    That the discounted assignment cost is a lower bound in general is geometry and has NO theorem (monitored). -/
theorem castling_bound_witness :
    Playable castleA [mv 4 6] (fixupEP (apply castleA (mv 4 6))) ∧
    ¬ ((3 : Int) ≤ nWhite castleA.wtm [mv 4 6].length) ∧
    pliesFromMoves 3 0 castleA.wtm (fixupEP (apply castleA (mv 4 6))).wtm = 5 ∧
    pliesFromMoves (3 - 2) 0 castleA.wtm (fixupEP (apply castleA (mv 4 6))).wtm = 1 := by
  refine ⟨.cons _ _ _ _ (by decide +kernel) (.nil _), by decide, by decide +kernel, by decide +kernel⟩

/-- `r1bqkb1r/1pp2p1p/2np4/p2NpPp1/1P4n1/5N2/PBPPP1PP/R2QKB1R w KQkq e6` (black has just played e7-e5) -/
def epA : Pos := mkPos "r1bqkb1r/1pp2p1p/2np4/p2NpPp1/1P4n1/5N2/PBPPP1PP/R2QKB1R" true 15 (some ⟨44, by decide⟩)
def epLine : List Mv := [mv 37 44, mv 42 25, mv 35 18, mv 61 54, mv 8 16, mv 60 62, mv 0 1]
/-- `r1bq1rk1/1pp2pbp/3pP3/p5p1/1n4n1/P1N2N2/1BPPP1PP/1R1QKB1R b K -` -/
def epB : Pos := mkPos "r1bq1rk1/1pp2pbp/3pP3/p5p1/1n4n1/P1N2N2/1BPPP1PP/1R1QKB1R" false 2 none

/-- WITNESS (en passant; repaired by `fix: ProofGame::distLowerBound declared positions unreachable that need an en
    passant capture`).  `epB` is reached from `epA` by the seven legal moves fxe6 e.p. Nb4 Nc3 Bg7 a3 O-O Rb1, while the
    unrepaired `distLowerBound(epA → epB)` returned INT_MAX ("goal cannot be reached"): its capture analysis assumes
    that a captured man stands on the capture square.  The repair tries the (at most two) en-passant captures
    explicitly: `min(bound without e.p., 1 + bound after the capture)`; sound because a game from the position either
    starts with an e.p. capture or never uses the e.p. square.  (No theorem for the repaired function as a whole.) -/
theorem en_passant_unreachable_witness :
    ∃ q, Playable epA epLine q ∧ epLine.length = 7 ∧ sameDraw q epB = true := by
  have h : (match playLine epA epLine with | some q => sameDraw q epB | none => false) = true := by decide +kernel
  split at h
  · next q hq => exact ⟨q, (playLine_iff _ _ _).1 hq, rfl, h⟩
  · cases h

-- non-vacuity: 1. e4 e5 2. Nf3 is a legal game from the initial position, the checker accepts it, and the hypotheses
-- `Playable startPos ms q` of the theorems above are satisfiable
def e4e5Nf3 : List Mv := [{ f := 12, t := 28, promo := 0 }, { f := 52, t := 36, promo := 0 }, { f := 6, t := 21, promo := 0 }]
example : ∃ q, checkProofGame e4e5Nf3 q = true ∧ Playable startPos e4e5Nf3 q := by
  have h : (playLine startPos e4e5Nf3).isSome = true := by decide +kernel
  obtain ⟨q, hq⟩ := Option.isSome_iff_exists.1 h
  refine ⟨q, ?_, (playLine_iff _ _ _).1 hq⟩
  unfold checkProofGame
  rw [hq]
  exact (sameDraw_iff q q).2 ⟨rfl, rfl, rfl, rfl⟩

end Props.C16
