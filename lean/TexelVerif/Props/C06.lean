import TexelVerif.Time.StopRule
/-!
# C06 — time limits are honoured

Property theorems only; the model is `Time/Alloc.lean` (`EngineControl::computeTimeLimit`, single-move clamp, `ponderHit`,
`stopThread`) and `Time/StopRule.lean` (`Search::shouldStop`, thread model).  All times are integers (ms of the clock
`currentTimeMillis()` returns).  Floating point enters only through `FP.ScaleOk` and `0 ≤ x` in the polling discipline.
-/
namespace Props.C06
open Tm

/-! ## Limits computed from the clock -/

/-- For EVERY clock input with a mover's clock of at least 1 ms (any increments, any moves-to-go, any opponent clock,
    Ponder on or off, any parameters with `maxTimeUsage ≥ 100`): `1 ≤ soft ≤ hard ≤ time − min(BufferTime, time·9/10)`. -/
theorem limits_ok (fp : FP) (p : Params) (white ponderOpt : Bool) (g : Go)
    (hs : fp.ScaleOk) (hmu : 100 ≤ p.maxUsage)
    (hinf : g.infinite = false) (hmt : g.moveTime ≤ 0) (ht : 1 ≤ moverTime white g) :
    let a := compute fp p white ponderOpt g
    let time := moverTime white g
    1 ≤ a.minT ∧ a.minT ≤ a.maxT ∧ a.maxT ≤ time - min p.buffer (time * 9 / 10) := by
  have hm : mode g = .clock := by
    have : g.wTime ≠ 0 ∨ g.bTime ≠ 0 := by
      unfold moverTime at ht; cases white <;> simp at ht <;> omega
    simp [mode, hinf, this]; omega
  simp only [compute, hm]
  rw [← margin_eq p.buffer _ ht]
  exact clock_ok fp p _ _ _ _ _ ponderOpt ht hmu hs

/-- When the clock is large enough for the configured buffer (`BufferTime ≤ 90 %` of the clock) the whole buffer is kept. -/
theorem limits_ok_full_buffer (fp : FP) (p : Params) (white ponderOpt : Bool) (g : Go)
    (hs : fp.ScaleOk) (hmu : 100 ≤ p.maxUsage)
    (hinf : g.infinite = false) (hmt : g.moveTime ≤ 0) (ht : 1 ≤ moverTime white g)
    (hbig : p.buffer ≤ moverTime white g * 9 / 10) :
    (compute fp p white ponderOpt g).maxT ≤ moverTime white g - p.buffer := by
  have := (limits_ok fp p white ponderOpt g hs hmu hinf hmt ht).2.2
  omega

/-- Corner "clock smaller than 10/9 of the buffer": the code keeps 90 % of the clock instead of the buffer; the hard limit
    is then at most a tenth of the clock (rounded up), and still at least 1 ms. -/
theorem limits_small_clock (fp : FP) (p : Params) (white ponderOpt : Bool) (g : Go)
    (hs : fp.ScaleOk) (hmu : 100 ≤ p.maxUsage)
    (hinf : g.infinite = false) (hmt : g.moveTime ≤ 0) (ht : 1 ≤ moverTime white g)
    (hsmall : moverTime white g * 9 / 10 < p.buffer) :
    (compute fp p white ponderOpt g).maxT ≤ moverTime white g - moverTime white g * 9 / 10 ∧
    (compute fp p white ponderOpt g).maxT ≤ (moverTime white g + 9) / 10 := by
  have := (limits_ok fp p white ponderOpt g hs hmu hinf hmt ht).2.2
  omega

/-- The literal reading "hard ≤ clock − BufferTime" cannot be met by any positive limit once the clock is not larger than
    the buffer, so `limits_ok` (budget = clock − min(buffer, 90 % of the clock)) is the strongest uniform statement. -/
theorem literal_budget_unsatisfiable (time buffer hard : Int) (h : time ≤ buffer) (h1 : 1 ≤ hard) : ¬ hard ≤ time - buffer := by
  omega

/-- `go movetime m`: soft = hard = m and no early stop. -/
theorem movetime_ok (fp : FP) (p : Params) (white ponderOpt : Bool) (g : Go) (hinf : g.infinite = false) (hmt : 0 < g.moveTime) :
    let a := compute fp p white ponderOpt g
    a.minT = g.moveTime ∧ a.maxT = g.moveTime ∧ a.early = 10000 := by
  have hm : mode g = .moveTime := by simp [mode, hinf, hmt]
  simp [compute, hm]

/-- `go infinite`, or no time control at all: no time limit (−1). -/
theorem no_time_control (fp : FP) (p : Params) (white ponderOpt : Bool) (g : Go)
    (h : g.infinite = true ∨ (g.moveTime ≤ 0 ∧ g.wTime = 0 ∧ g.bTime = 0)) :
    (compute fp p white ponderOpt g).minT = -1 ∧ (compute fp p white ponderOpt g).maxT = -1 := by
  rcases h with h | ⟨h1, h2, h3⟩
  · simp [compute, mode, h]
  · cases hi : g.infinite
    · have : ¬ g.moveTime > 0 := by omega
      simp [compute, mode, hi, this, h2, h3]
    · simp [compute, mode, hi]

/-- Every timed `go` in the domain: `1 ≤ soft ≤ hard ≤ budget`, budget = move time resp. clock minus margin. -/
theorem timed_limits_ok (fp : FP) (p : Params) (white ponderOpt : Bool) (g : Go)
    (hs : fp.ScaleOk) (hmu : 100 ≤ p.maxUsage) (hg : g.Timed white) :
    let a := compute fp p white ponderOpt g
    1 ≤ a.minT ∧ a.minT ≤ a.maxT ∧ a.maxT ≤ goBudget p white g := by
  obtain ⟨hinf, hc⟩ := hg
  by_cases hmt : 0 < g.moveTime
  · have := movetime_ok fp p white ponderOpt g hinf hmt
    simp only at this
    simp only [goBudget, if_pos hmt, this.1, this.2.1]; omega
  · have ht : 1 ≤ moverTime white g := by omega
    have := limits_ok fp p white ponderOpt g hs hmu hinf (by omega) ht
    simp only at this
    simp only [goBudget, if_neg hmt, budget, margin_eq p.buffer _ ht]; exact this

/-- The round-0 function `Tm.alloc` (to which the integer slices regenerated from enginecontrol.cpp are proved equal in
    `Bridge/Time.lean`) is the clock branch of this model on the property's domain. -/
theorem translated_alloc_is_model (fp : FP) (p : Params) (time inc oTime oInc mtg : Int) (ponderOpt : Bool)
    (ht : 0 ≤ time) (hi : 0 ≤ inc) (hm : 0 ≤ mtg) (hr : 1 ≤ p.maxRem) :
    let L := alloc time inc mtg p.maxRem p.buffer (ponderBonus fp p time inc oTime oInc mtg ponderOpt)
               (fun m => fp.scale m (movesEff mtg p.maxRem) p.maxUsage)
    L.soft = clockSoft fp p time inc oTime oInc mtg ponderOpt ∧ L.hard = clockHard fp p time inc oTime oInc mtg ponderOpt :=
  alloc_eq_clock fp p time inc oTime oInc mtg ponderOpt ht hi hm hr

/-! ## Single legal move, ponderhit, stop -/

/-- The single-legal-move clamp keeps `1 ≤ soft ≤ hard ≤ B` (and caps both at 100 ms). -/
theorem single_move_clamp_ok (minT maxT B : Int) (h : 1 ≤ minT ∧ minT ≤ maxT ∧ maxT ≤ B) :
    1 ≤ singleMin minT maxT ∧ singleMin minT maxT ≤ singleMax maxT ∧ singleMax maxT ≤ B ∧ singleMax maxT ≤ 100 :=
  single_ok minT maxT B h

/-- What `startSearch` hands to `Search::timeLimit`, for any number of legal moves: `1 ≤ soft ≤ hard ≤ budget`. -/
theorem start_limits_ok (fp : FP) (p : Params) (white ponderOpt : Bool) (g : Go) (nMoves : Int)
    (hs : fp.ScaleOk) (hmu : 100 ≤ p.maxUsage) (hg : g.Timed white) :
    let l := startLim p (compute fp p white ponderOpt g) nMoves
    1 ≤ l.minT ∧ l.minT ≤ l.maxT ∧ l.maxT ≤ goBudget p white g := by
  have h := timed_limits_ok fp p white ponderOpt g hs hmu hg
  simp only at h
  simp only [startLim]
  split
  · have := single_ok _ _ _ h
    simp only [storeLim]; omega
  · simpa only [storeLim] using h

/-- What `ponderHit` hands to `Search::timeLimit`: `1 ≤ soft ≤ hard ≤ budget`; with a single legal move both are 1 ms. -/
theorem ponderhit_limits_ok (fp : FP) (p : Params) (white ponderOpt : Bool) (g : Go) (nMoves : Int)
    (hs : fp.ScaleOk) (hmu : 100 ≤ p.maxUsage) (hg : g.Timed white) :
    let l := ponderHitLim p (compute fp p white ponderOpt g) nMoves
    1 ≤ l.minT ∧ l.minT ≤ l.maxT ∧ l.maxT ≤ goBudget p white g ∧ (nMoves < 2 → l.maxT = 1) := by
  have h := timed_limits_ok fp p white ponderOpt g hs hmu hg
  simp only at h
  have := hit_ok _ _ _ (onePossible nMoves false) h
  refine ⟨this.1, this.2.1, this.2.2, ?_⟩
  intro hn
  have ho : onePossible nMoves false = true := by simp [onePossible, hn]
  show hitMax (compute fp p white ponderOpt g).maxT (onePossible nMoves false) = 1
  rw [ho]
  by_cases hgt : (compute fp p white ponderOpt g).maxT > 1
  · simp [hitMax, hgt]
  · simp only [hitMax, hgt, and_false, if_false]; omega

/-- While pondering the search has no time limit, and `stop` installs `(0, 0)`. -/
theorem ponder_and_stop_limits (p : Params) :
    (ponderLim p).minT = -1 ∧ (ponderLim p).maxT = -1 ∧ (stopLim p).minT = 0 ∧ (stopLim p).maxT = 0 := by
  simp [ponderLim, stopLim, storeLim]

/-! ## The stop rule -/

/-- Whatever `searchNeedMoreTime` and `hardFactor` say, `shouldStop` compares the elapsed time with a limit in `[0, hard]`. -/
theorem stop_rule_limit_ok (l : Lim) (need : Bool) (x : Int) (hl : 0 ≤ l.minT ∧ l.minT ≤ l.maxT) (hx : 0 ≤ x) :
    0 ≤ effLimit l need x ∧ effLimit l need x ≤ l.maxT := effLimit_ok l need x hl hx

/-- A `shouldStop` evaluated at or after `tStart + hard` stops the search. -/
theorem stop_rule_fires (tStart : Int) (l : Lim) (s : Th) (pre suf : List Ev) (need : Bool) (x slp : Int)
    (hl : 0 ≤ l.minT ∧ l.minT ≤ l.maxT) (hx : 0 ≤ x) (hlate : tStart + l.maxT ≤ (run tStart l s pre).now) :
    (run tStart l s (pre ++ .poll need x slp :: suf)).stopped = true :=
  late_poll_stops tStart l s pre suf need x slp hl hx hlate

/-- Without limits (pondering, `go infinite`) the time test never fires. -/
theorem stop_rule_unlimited (elapsed : Int) (l : Lim) (need : Bool) (x : Int) (h1 : l.minT = -1) (h2 : l.maxT = -1) :
    timeStop elapsed l need x = false := timeStop_unlimited elapsed l need x h1 h2

/-- **Stop within one polling interval.**  Limits `0 ≤ soft ≤ hard` are in force from time `t0` on; the thread searches
    nodes costing at most `τ` each, evaluates `shouldStop` at least every `N` nodes, and the MaxNPS throttle sleeps at most
    `S` after a test.  Then the search is stopped no later than `max t0 (tStart + hard) + S + N·τ`, for every event sequence. -/
theorem stop_within_poll (tStart t0 : Int) (l : Lim) (N : Nat) (τ S : Int) (evs : List Ev)
    (hτ : 0 ≤ τ) (hS : 0 ≤ S) (hl : 0 ≤ l.minT ∧ l.minT ≤ l.maxT) (hd : Disc N τ S 0 evs) :
    (run tStart l ⟨t0, false⟩ evs).now ≤ max t0 (tStart + l.maxT) + S + N * τ := by
  apply run_bound tStart l N τ S (max t0 (tStart + l.maxT)) hτ hl (by omega) evs ⟨t0, false⟩ 0 hd (by omega)
  · intro h; simp at h
  · intro _; simp only; omega

/-- `go` with a time control, not pondering: stopped by `tStart + budget + S + N·τ` (limits are installed before the search starts). -/
theorem go_deadline (fp : FP) (p : Params) (white ponderOpt : Bool) (g : Go) (nMoves tStart : Int) (N : Nat) (τ S : Int)
    (evs : List Ev) (hs : fp.ScaleOk) (hmu : 100 ≤ p.maxUsage) (hg : g.Timed white)
    (hτ : 0 ≤ τ) (hS : 0 ≤ S) (hd : Disc N τ S 0 evs) :
    (run tStart (startLim p (compute fp p white ponderOpt g) nMoves) ⟨tStart, false⟩ evs).now
      ≤ tStart + goBudget p white g + S + N * τ := by
  have h := start_limits_ok fp p white ponderOpt g nMoves hs hmu hg
  simp only at h
  have := stop_within_poll tStart tStart (startLim p (compute fp p white ponderOpt g) nMoves) N τ S evs hτ hS (by omega) hd
  omega

/-- `ponderhit` at time `t0 ≥ tStart`: stopped by `max t0 (tStart + budget) + S + N·τ`. -/
theorem ponderhit_deadline (fp : FP) (p : Params) (white ponderOpt : Bool) (g : Go) (nMoves tStart t0 : Int) (N : Nat) (τ S : Int)
    (evs : List Ev) (hs : fp.ScaleOk) (hmu : 100 ≤ p.maxUsage) (hg : g.Timed white)
    (hτ : 0 ≤ τ) (hS : 0 ≤ S) (hd : Disc N τ S 0 evs) :
    (run tStart (ponderHitLim p (compute fp p white ponderOpt g) nMoves) ⟨t0, false⟩ evs).now
      ≤ max t0 (tStart + goBudget p white g) + S + N * τ := by
  have h := ponderhit_limits_ok fp p white ponderOpt g nMoves hs hmu hg
  simp only at h
  have := stop_within_poll tStart t0 (ponderHitLim p (compute fp p white ponderOpt g) nMoves) N τ S evs hτ hS (by omega) hd
  omega

/-- `stop` at time `t0 ≥ tStart` (limits set to zero): stopped within one polling interval, by `t0 + S + N·τ`. -/
theorem stop_after_zero (p : Params) (tStart t0 : Int) (N : Nat) (τ S : Int) (evs : List Ev)
    (h0 : tStart ≤ t0) (hτ : 0 ≤ τ) (hS : 0 ≤ S) (hd : Disc N τ S 0 evs) :
    (run tStart (stopLim p) ⟨t0, false⟩ evs).now ≤ t0 + S + N * τ := by
  have := stop_within_poll tStart t0 (stopLim p) N τ S evs hτ hS (by simp [stopLim, storeLim]) hd
  have hm : (stopLim p).maxT = 0 := by simp [stopLim, storeLim]
  rw [hm] at this; omega

/-- The wait loop that holds back the best move while `ponder`/`infinite` is set leaves at most 9 ms after the flag was
    cleared (10 ms sleep quantum), and never before the search stopped. -/
theorem wait_loop_bound (ts tf : Int) :
    ts ≤ waitLoopExit ts tf 10 ∧ tf ≤ waitLoopExit ts tf 10 ∧ waitLoopExit ts tf 10 ≤ max ts (tf + 9) := by
  have h1 := waitLoopExit_ge ts tf 10 (by omega)
  have h2 := waitLoopExit_le ts tf 10 (by omega)
  omega

/-- The nominal polling period `nodesBetweenTimeCheck` is between 1 and 1000 nodes for every MaxNPS. -/
theorem poll_period_ok (maxNPS : Int) : 1 ≤ nodesBetweenTimeCheck maxNPS ∧ nodesBetweenTimeCheck maxNPS ≤ 1000 := by
  unfold nodesBetweenTimeCheck clamp; split <;> omega

/-! ## The hypotheses are satisfiable -/

example : Params.default.Ok := by simp [Params.Ok, Params.default]
example : fpExact.ScaleOk := fpExact_scaleOk
example : ({ wTime := 60000, bTime := 60000, wInc := 1000, bInc := 1000 } : Go).Timed true := by simp [Go.Timed, moverTime]
example : ({ moveTime := 5000 } : Go).Timed false := by simp [Go.Timed]
example : Disc 2 10 5 0 [.tick 10, .tick 3, .poll false 7 5, .root true, .tick 0, .poll true 0 0, .finish] := by
  simp [Disc]
/-- the default parameters on a 60 s + 1 s clock with the exact rational floating-point instance: soft 2 657 ms, hard 10 628 ms, budget 59 000 ms. -/
example : let a := compute fpExact Params.default true false { wTime := 60000, bTime := 60000, wInc := 1000, bInc := 1000 }
    (a.minT, a.maxT, goBudget Params.default true { wTime := 60000, bTime := 60000, wInc := 1000, bInc := 1000 }) = (2657, 10628, 59000) := by
  decide

end Props.C06
