import TexelVerif.Book.ProbeLemmas
/-!
# C18 — the opening book never yields an illegal move

Model: `Book/Polyglot.lean` (record and move codecs, hash key) and `Book/Probe.lean` (`getBookEntries`,
`getBookMove`), following `lib/texellib/book/{polyglot,book}.cpp` after the repair
`fix: 64-bit arithmetic in the polyglot book probe`.  A book file is an *arbitrary* `List UInt8`; a missing file
behaves as the empty list.  "Legal" is `Chess.legalB` of the shared specification; the model's legal list is
`Chess.genLegal` (its agreement with `MoveGen` is property C01).  The polyglot hash key is a definition
(`Book.getHashKey`, table `Book.hashRandoms` regenerated from the C++ source); nothing below depends on its
value, so it is tied to the code by the differential check only.
-/
namespace Props.C18
open Chess Book

/-- **No illegal move, for arbitrary bytes.**  Whatever the file contains (truncated, unsorted, corrupted,
    empty) and whatever the random draw, the probe returns no move or a move that is legal in the position. -/
theorem probe_safe (file : List UInt8) (p : Pos) (rnd : Nat) :
    getBookMove file p rnd = none ∨ ∃ m, getBookMove file p rnd = some m ∧ legalB p m = true := by
  rcases selectMove_safe p (getBookEntries file p) rnd with h | ⟨m, h, hl, _⟩
  · exact Or.inl h
  · exact Or.inr ⟨m, h, hl⟩

/-- The same for the selection step alone, with *any* candidate list and any (even negative) weights: this is
    the code path shared by the polyglot file and the built-in book (`Book::bookMap`).  The returned move is
    moreover one of the candidates. -/
theorem select_safe (p : Pos) (cands : List (Mv × Int)) (rnd : Nat) :
    selectMove p cands rnd = none ∨
    ∃ m, selectMove p cands rnd = some m ∧ legalB p m = true ∧ ∃ c ∈ cands, c.1 = m :=
  selectMove_safe p cands rnd

/-- If any candidate stored under the position's key is illegal the probe returns nothing (the
    hash-collision guard), whatever the other candidates are. -/
theorem illegal_candidate_blocks (p : Pos) (cands : List (Mv × Int)) (rnd : Nat) (c : Mv × Int)
    (hc : c ∈ cands) (hill : legalB p c.1 = false) : selectMove p cands rnd = none := by
  rcases h : sumIfLegal (genLegal p) cands 0 with _ | s
  · unfold selectMove; rw [h]; split <;> rfl
  · have := sumIfLegal_legal _ _ _ _ h c hc
    rw [mem_genLegal, hill] at this
    cases this

/-- **Only the probe key, for any file.**  Every record the probe turns into a candidate lies inside the file
    and carries exactly the probe key — sorted or not. -/
theorem only_own_key (file : List UInt8) (key : Nat) :
    ∀ i ∈ candidateIdx file key, i < numEntries file ∧ keyAt file i = key :=
  candidateIdx_own_key file key

/-- …hence a returned move is the decoding of a record stored under the position's key. -/
theorem probe_move_from_own_key (file : List UInt8) (p : Pos) (rnd : Nat) (m : Mv)
    (h : getBookMove file p rnd = some m) :
    ∃ i, i < numEntries file ∧ keyAt file i = (getHashKey p).toNat ∧ m = getMove p (readEntry file (i : Int)).move := by
  rcases selectMove_safe p (getBookEntries file p) rnd with h' | ⟨m', h', _, c, hc, e⟩
  · unfold getBookMove at h; rw [h'] at h; cases h
  · unfold getBookMove at h; rw [h'] at h
    have hm : m' = m := by injection h
    unfold getBookEntries entriesForKey at hc
    obtain ⟨i, hi, rfl⟩ := List.mem_map.mp hc
    have := candidateIdx_own_key file _ i hi
    exact ⟨i, this.1, this.2, by rw [← hm, ← e]⟩

/-- **Completeness on a well-formed (sorted) book**: the candidates are *all* records with the key, in file order. -/
theorem bsearch_complete (file : List UInt8) (key : Nat) (hs : SortedBook file) :
    candidateIdx file key = (List.range (numEntries file)).filter (fun i => keyAt file i = key) :=
  candidateIdx_sorted file key hs

/-- **Every stored move of positive weight is returned with positive probability** (well-formed book: sorted,
    and the moves stored under the position's key are legal): some 64-bit draw selects it. -/
theorem positive_weight_reachable (file : List UInt8) (p : Pos) (hs : SortedBook file) (hlen : file.length < 2 ^ 52)
    (i : Nat) (hi : i < numEntries file) (hk : keyAt file i = (getHashKey p).toNat)
    (hw : 0 < (readEntry file (i : Int)).weight)
    (hlegal : ∀ j, j < numEntries file → keyAt file j = (getHashKey p).toNat →
      legalB p (getMove p (readEntry file (j : Int)).move) = true) :
    ∃ r, r < 2 ^ 64 ∧ getBookMove file p r = some (getMove p (readEntry file (i : Int)).move) := by
  let key := (getHashKey p).toNat
  let f : Nat → Mv × Int := fun j => (getMove p (readEntry file (j : Int)).move, ((readEntry file (j : Int)).weight : Int))
  have hidx : i ∈ candidateIdx file key := by
    rw [candidateIdx_sorted file key hs, List.mem_filter, List.mem_range]
    exact ⟨hi, by simpa using hk⟩
  obtain ⟨pre, post, hsplit⟩ := List.append_of_mem hidx
  have hcands : getBookEntries file p = pre.map f ++ f i :: post.map f := by
    show (candidateIdx file key).map f = _
    rw [hsplit, List.map_append, List.map_cons]
  have hall : ∀ c ∈ getBookEntries file p, c.1 ∈ genLegal p := by
    intro c hc
    obtain ⟨j, hj, rfl⟩ := List.mem_map.mp (show c ∈ (candidateIdx file key).map f from hc)
    have := candidateIdx_own_key file key j hj
    exact (mem_genLegal p _).mpr (hlegal j this.1 this.2)
  have hsum := sumIfLegal_value (genLegal p) (getBookEntries file p) 0 hall
  obtain ⟨hwb, _⟩ := entriesForKey_weights file p key
  have hpre0 : ∀ d : Mv × Int, d ∈ pre.map f → 0 ≤ d.2 := by
    intro d hd
    apply (hwb d _).1
    show d ∈ (candidateIdx file key).map f
    rw [hsplit, List.map_append]
    exact List.mem_append_left _ hd
  have hpost0 : 0 ≤ ((post.map f).map (fun c : Mv × Int => c.2)).sum := by
    apply sum_nonneg_of
    intro x hx
    obtain ⟨d, hd, rfl⟩ := List.mem_map.mp hx
    apply (hwb d _).1
    show d ∈ (candidateIdx file key).map f
    rw [hsplit, List.map_append, List.map_cons]
    exact List.mem_append_right _ (List.mem_cons_of_mem _ hd)
  have hpresum : 0 ≤ ((pre.map f).map (fun c : Mv × Int => c.2)).sum := by
    apply sum_nonneg_of
    intro x hx
    obtain ⟨d, hd, rfl⟩ := List.mem_map.mp hx
    exact hpre0 d hd
  have hwi : 0 < (f i).2 := by show (0 : Int) < ((readEntry file (i : Int)).weight : Int); omega
  have htot : ((getBookEntries file p).map (fun c : Mv × Int => c.2)).sum
      = ((pre.map f).map (fun c : Mv × Int => c.2)).sum + ((f i).2 + ((post.map f).map (fun c : Mv × Int => c.2)).sum) := by
    rw [hcands, List.map_append, List.map_cons, List.sum_append, List.sum_cons]
  have hbound := (weight_sum_bound file p key).2
  have hne : (getBookEntries file p).isEmpty = false := by rw [hcands]; simp
  refine ⟨(((pre.map f).map (fun c : Mv × Int => c.2)).sum).toNat, ?_, ?_⟩
  · have : ((getBookEntries file p).map (fun c : Mv × Int => c.2)).sum ≤ (numEntries file : Int) * 65535 := hbound
    unfold numEntries at this
    omega
  · unfold getBookMove selectMove
    rw [hne, hsum]
    simp only [Bool.false_eq_true, if_false, Int.zero_add]
    rw [if_neg (by omega)]
    have hmod : ((((pre.map f).map (fun c : Mv × Int => c.2)).sum).toNat % (((getBookEntries file p).map (fun c : Mv × Int => c.2)).sum).toNat : Nat)
        = (((pre.map f).map (fun c : Mv × Int => c.2)).sum).toNat := Nat.mod_eq_of_lt (by omega)
    rw [hmod, hcands]
    have := pick_at (pre.map f) (f i) (post.map f) 0 hpre0 hwi
    rw [Int.zero_add] at this
    rw [Int.toNat_of_nonneg hpresum]
    exact this

/-- **Move codec round trip**, castling included: encoding a legal move in the polyglot format and decoding it
    in the same position gives the move back. -/
theorem pg_codec (p : Pos) (m : Mv) (h : legalB p m = true) : getMove p (getPGMove p m) = m :=
  Book.pg_codec p m h

/-- **Record codec round trip** (`serialize` / `deSerialize`). -/
theorem record_codec (hash move weight : Nat) (hh : hash < 2 ^ 64) (hm : move < 2 ^ 16) (hw : weight < 2 ^ 16) :
    (serialize hash move weight).length = 16 ∧
    deSerialize (serialize hash move weight) = { key := hash, move := move, weight := weight } :=
  ⟨rfl, deSerialize_serialize hash move weight hh hm hw⟩

/-- **The binary search terminates for every file length** (the model function is total by a well-founded
    measure `hi - lo`); explicitly, the loop body runs at most `k` times when `numEntries + 1 ≤ 2^k`, sorted or not. -/
theorem bsearch_terminates (file : List UInt8) (key : Nat) (k : Nat) (h : numEntries file + 1 ≤ 2 ^ k) :
    bsearchIters file key (-1) (numEntries file) ≤ k :=
  bsearchIters_le file key k (-1) (numEntries file) (by omega)

/-- **No read outside the file**: every midpoint of the search started at `lo = -1, hi = numEntries` is a valid
    entry number, and a valid entry number is read in full (the zero-fill branch of `readEntry` is dead for a
    file that does not shrink while it is being probed). -/
theorem reads_in_range (file : List UInt8) :
    (∀ lo hi : Int, -1 ≤ lo → hi ≤ (numEntries file : Int) → hi - lo > 1 →
        0 ≤ midpoint lo hi ∧ midpoint lo hi < (numEntries file : Int) ∧ lo < midpoint lo hi ∧ midpoint lo hi < hi) ∧
    (∀ key, 0 ≤ bsearch file key (-1) (numEntries file) ∧ bsearch file key (-1) (numEntries file) ≤ (numEntries file : Int)) ∧
    (∀ i : Nat, i < numEntries file → ((file.drop (16 * i)).take 16).length = 16 ∧
        readEntry file (i : Int) = deSerialize ((file.drop (16 * i)).take 16)) := by
  refine ⟨?_, ?_, fun i hi => readEntry_in_range file i hi⟩
  · intro lo hi hlo hhi h
    have h1 := bsearch_mid_in_range (numEntries file) lo hi hlo hhi h
    have h2 := midpoint_between lo hi h
    exact ⟨h1.1, h1.2, h2.1, h2.2⟩
  · intro key
    have := bsearch_range file key (-1) (numEntries file) (by omega)
    omega

/-- **Weight sum after the repair**: at most `65535 · numEntries`, which a signed 64-bit integer holds for every
    file shorter than 2^50 bytes — the hypothesis `Σ weights < 2^31` the `int` version needed is gone.  (All other
    integers of the probe — entry numbers, `lo + hi`, byte offsets `16·entNo` — are bounded by the file length.) -/
theorem weight_sum_fits_s64 (file : List UInt8) (p : Pos) (hlen : file.length < 2 ^ 50) :
    0 ≤ ((getBookEntries file p).map (fun c : Mv × Int => c.2)).sum ∧ ((getBookEntries file p).map (fun c : Mv × Int => c.2)).sum < 2 ^ 63 := by
  have := weight_sum_bound file p (getHashKey p).toNat
  unfold numEntries at this
  refine ⟨this.1, ?_⟩
  show ((entriesForKey file p (getHashKey p).toNat).map (fun c : Mv × Int => c.2)).sum < 2 ^ 63
  omega

/-! ## The defects of the code before the repair (witnesses)

`int sum` + `rndGen.nextInt(sum)` in `getBookMove`, `int` entry numbers / offsets in `getBookEntries`.  The inputs
are realised as files by the check (`pgbook run 16385 …`, `pgbook run 40000 …`, `pgbook sparse 2147483664`). -/

/-- `Random::nextInt(modulo)` accepts a 30-bit draw `r` only if `r < (2^30 / modulo) * modulo` -/
def oldNextIntAccepts (modulo r : Nat) : Bool := r < (2 ^ 30 / modulo) * modulo

/-- 16385 equal-key records of weight 65535 (a 262 160-byte file) give a weight sum above 2^30 that still fits
    an `int`; for such a modulus the rejection loop of `nextInt` accepts no draw at all: the probe never returned. -/
theorem old_nextInt_hang_witness :
    (List.replicate 16385 (65535 : Int)).sum = 1073790975 ∧ (1073790975 : Int) < 2 ^ 31 ∧
    ∀ r, r < 2 ^ 30 → oldNextIntAccepts 1073790975 r = false := by
  refine ⟨by rw [sum_replicate_int]; decide, by decide, ?_⟩
  intro r _
  have h0 : 2 ^ 30 / 1073790975 = 0 := by decide
  simp [oldNextIntAccepts, h0]

/-- 32769 such records (524 304 bytes; the check uses 40 000) make the true sum exceed `INT_MAX`: signed overflow -/
theorem old_int_sum_overflow_witness : (List.replicate 32769 (65535 : Int)).sum > 2 ^ 31 - 1 := by
  rw [sum_replicate_int]; decide

/-- a file of 2 GiB + 16 bytes has entry number 2^27, whose byte offset `entNo * entSize` exceeds `INT_MAX` -/
theorem old_offset_overflow_witness :
    (List.range (numEntries (List.replicate (2 ^ 4) (0 : UInt8)))).length = 1 ∧
    ((2147483664 / 16 - 1 : Nat) : Int) * 16 > 2 ^ 31 - 1 := by
  refine ⟨by decide, by decide⟩

/-! ## non-vacuity of the hypotheses -/

/-- a two-record book with equal keys is sorted, and the start position's e2e4 is legal -/
def demoFile : List UInt8 := serialize 5 796 1 ++ serialize 5 796 2

theorem demoFile_sorted : SortedBook demoFile := by
  intro i j hij hj
  have h2 : numEntries demoFile = 2 := by decide
  rw [h2] at hj
  have h0 : keyAt demoFile 0 = 5 := by decide
  have h1 : keyAt demoFile 1 = 5 := by decide
  have : (i = 0 ∨ i = 1) ∧ (j = 0 ∨ j = 1) := by omega
  rcases this with ⟨rfl | rfl, rfl | rfl⟩ <;> simp [h0, h1]
example : numEntries demoFile = 2 ∧ keyAt demoFile 0 = 5 ∧ keyAt demoFile 1 = 5 := by decide
example : candidateIdx demoFile 5 = [0, 1] := by rw [bsearch_complete _ _ demoFile_sorted]; decide
example : (demoFile.length < 2 ^ 50) := by decide

end Props.C18
