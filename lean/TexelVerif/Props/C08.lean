import TexelVerif.TT.TableLemmas
import TexelVerif.TT.History
/-!
# C08 — transposition table never returns mixed or out-of-range data

Property theorems only; helper lemmas live in `TexelVerif/TT/*`.
-/
namespace Props.C08
open TT

/-- Every index the table computes is 4-aligned and the whole 4-slot bucket lies inside the used part,
    for every size ≥ 512 and every 64-bit key. -/
theorem index_ok (n : Nat) (hn : 512 ≤ n) (hmax : n < 2^72) (key : BitVec 64) :
    getIndex (setUsedSize n) key.toNat % 4 = 0 ∧ getIndex (setUsedSize n) key.toNat + 3 < n :=
  TT.index_ok n key.toNat hn hmax key.isLt

/-- The domain really starts at 512: a table of 508 entries computes a bucket that sticks out. -/
theorem index_small_fails : ∃ n key, n < 512 ∧ n % 4 = 0 ∧ key < 2^64 ∧ ¬ (getIndex (setUsedSize n) key + 3 < n) :=
  ⟨260, 0xffff000000000003, by decide, by decide, by decide, by decide⟩

/-- In a freshly sized (or cleared) table of at least 512 entries every probe / insert bucket is in range. -/
theorem new_table_bucket_in_range (numEntries : Nat) (h : 512 ≤ numEntries) (hmax : numEntries < 2^72) (key : W) :
    let t := Table.new numEntries
    t.index key % 4 = 0 ∧ t.index key + 3 < t.size ∧ t.slots.size = t.size := by
  have hn : 512 ≤ normSize numEntries := by unfold normSize; split <;> omega
  have hm : normSize numEntries < 2^72 := by unfold normSize; split <;> omega
  have := TT.index_ok (normSize numEntries) key.toNat hn hm key.isLt
  simp only [Table.new, Table.index, Array.size_replicate]
  exact ⟨this.1, this.2, trivial⟩

/-- The declared field layout: pairwise disjoint bit ranges inside the 64-bit data word. -/
def fields : List (Nat × Nat) := [(0,16), (16,16), (32,9), (41,1), (42,4), (46,2), (48,16)]

theorem fields_layout_ok :
    (∀ f ∈ fields, f.1 + f.2 ≤ 64 ∧ f.2 ≤ 32) ∧
    (∀ f ∈ fields, ∀ g ∈ fields, f ≠ g → f.1 + f.2 ≤ g.1 ∨ g.1 + g.2 ≤ f.1) := by decide

/-- Writing a field and reading it back gives the written value (truncated to the field width). -/
theorem field_write_read (d : W) (f : Nat × Nat) (hf : f ∈ fields) (v : BitVec 32) :
    getBits (setBits d f.1 f.2 v) f.1 f.2 = v &&& BitVec.ofNat 32 (2^f.2 - 1) := by
  have := fields_layout_ok.1 f hf
  exact getBits_setBits_same d f.1 f.2 v this.2 this.1

/-- Writing one field leaves every other field untouched. -/
theorem field_write_other (d : W) (f g : Nat × Nat) (hf : f ∈ fields) (hg : g ∈ fields) (hne : f ≠ g) (v : BitVec 32) :
    getBits (setBits d f.1 f.2 v) g.1 g.2 = getBits d g.1 g.2 := by
  have h1 := fields_layout_ok.1 f hf
  have h2 := fields_layout_ok.1 g hg
  exact getBits_setBits_other d f.1 f.2 g.1 g.2 v (by omega) (by omega) (fields_layout_ok.2 f hf g hg hne)

/-- xor validation: any two words (each possibly from a different writer) that validate for key `k`
    are bit-identical to the unit record a single store of `(k, w1)` writes. -/
theorem xor_hit_is_unit (w0 w1 k : W) (h : decodeKey w0 w1 = k) : (w0, w1) = encode k w1 :=
  TT.xor_hit_is_unit w0 w1 k h

/-- Relaxed-atomic over-approximation: each word load returns *some* value stored to that word.  If the
    slot's store history has no xor-coincidence for `k`, a validating probe returns a record stored as one unit. -/
theorem hit_was_stored (stores : List (W × W)) (w0 w1 k : W)
    (h0 : ∃ r ∈ stores, w0 = (encode r.1 r.2).1) (h1 : ∃ r ∈ stores, w1 = (encode r.1 r.2).2)
    (hk : decodeKey w0 w1 = k)
    (hfree : ∀ a ∈ stores, ∀ b ∈ stores, a.1 ^^^ a.2 ^^^ b.2 = k → a = b) :
    (k, w1) ∈ stores :=
  TT.hit_was_stored stores w0 w1 k h0 h1 hk hfree

/-- While an on-demand tablebase (5 MiB at the top of the table memory) is resident, every byte of every
    hash bucket lies strictly below the tablebase bytes. -/
theorem tb_region_disjoint (tableSize : Nat) (key : W) (hsz : 7 * 2^20 ≤ tableSize * 16) (hmax : tableSize < 2^72) :
    (getIndex (setUsedSize (tableSize - 327680)) key.toNat + 3) * 16 + 15 < tableSize * 16 - 5 * 2^20 :=
  TT.tb_region_disjoint tableSize key.toNat hsz hmax key.isLt

/-- Ply-relative mate scores: a score stored at ply `p1` and read at ply `p2` comes back shifted by exactly
    the ply difference (win scores down, lose scores up), as long as the stored value fits the 16-bit field. -/
theorem ply_shift_exact (d : W) (s p1 p2 : Int) (h1 : -32768 ≤ toStored s p1) (h2 : toStored s p1 ≤ 32767) :
    getScore (setScore d s p1) p2 = fromStored (toStored s p1) p2 := by
  unfold getScore; rw [rawScore_setScore d s p1 h1 h2]

theorem ply_shift_win (d : W) (s p1 p2 : Int) (hw : s > 16000) (hp : 0 ≤ p1) (hfit : s + p1 ≤ 32767) :
    getScore (setScore d s p1) p2 = s + p1 - p2 := by
  have e : toStored s p1 = s + p1 := by rw [toStored_def]; split <;> omega
  rw [ply_shift_exact d s p1 p2 (by omega) (by omega), e, fromStored_def]
  split <;> omega

theorem ply_shift_lose (d : W) (s p1 p2 : Int) (hl : s < -16000) (hp : 0 ≤ p1) (hfit : -32768 ≤ s - p1) :
    getScore (setScore d s p1) p2 = s - p1 + p2 := by
  have e : toStored s p1 = s - p1 := by rw [toStored_def]; split <;> (try split) <;> omega
  rw [ply_shift_exact d s p1 p2 (by omega) (by omega), e, fromStored_def]
  split <;> (try split) <;> omega

theorem ply_shift_normal (d : W) (s p1 p2 : Int) (h1 : -16000 ≤ s) (h2 : s ≤ 16000) :
    getScore (setScore d s p1) p2 = s := by
  have e : toStored s p1 = s := by rw [toStored_def]; split <;> (try split) <;> omega
  rw [ply_shift_exact d s p1 p2 (by omega) (by omega), e, fromStored_def]
  split <;> (try split) <;> omega

/-- An insert writes at most one slot and only inside the four-slot bucket of its key; table geometry,
    generation and contempt hash are untouched. -/
theorem insert_stays_in_bucket (t : Table) (a : InsArgs) (i : Nat)
    (h : i < t.index (a.key ^^^ t.contempt) ∨ t.index (a.key ^^^ t.contempt) + 4 ≤ i) :
    (t.insert a).slot i = t.slot i ∧ (t.insert a).size = t.size ∧ (t.insert a).used = t.used :=
  ⟨insert_local t a i h, (insert_meta t a).1, (insert_meta t a).2.1⟩

/-- **Whatever a probe returns was stored as one unit for exactly that key** (single-threaded refinement):
    after any history of inserts, probes, generation changes, clears and contempt changes on a fresh table, a probe
    that returns `(k, d)` returns the contempt-adjusted probe key and a data word that some earlier `insert` wrote for
    that very key as one unit, up to the generation field (which probes refresh) — or the all-zero word of an empty slot,
    whose type field is `T_EMPTY` and which every caller treats as a miss. -/
theorem probe_hit_was_inserted (n : Nat) (ops : List Op) (key : W) (k d : W)
    (h : ((runOps (Table.new n) ops).probe key).2 = some (k, d)) :
    k = key ^^^ (runOps (Table.new n) ops).contempt ∧
    ((k = 0 ∧ clearGen d = clearGen 0) ∨ ∃ u ∈ unitsOf (Table.new n) ops, u.1 = k ∧ clearGen d = clearGen u.2) := by
  have hinv := inv_runOps (Table.new n) ops [(0, 0)] (inv_new n) (by simp)
  have hp := (probe_go_spec (runOps (Table.new n) ops) (key ^^^ (runOps (Table.new n) ops).contempt)
    ((runOps (Table.new n) ops).index (key ^^^ (runOps (Table.new n) ops).contempt)) _ hinv (by simp) 4 0).2 k d h
  obtain ⟨hk, u, hu, hu1, hu2⟩ := hp
  refine ⟨hk, ?_⟩
  rcases List.mem_append.1 hu with h0 | h1
  · left
    have : u = (0, 0) := by simpa using h0
    subst this
    exact ⟨by rw [hk, ← hu1], hu2⟩
  · exact Or.inr ⟨u, h1, by rw [hu1, hk], hu2⟩

-- non-vacuity: concrete instances of the hypotheses
example : (512 : Nat) ≤ 65536 ∧ (65536 : Nat) < 2^72 := by decide
example : toStored 31990 3 = 31993 ∧ (-32768 : Int) ≤ 31993 ∧ (31993 : Int) ≤ 32767 := by decide
example : (7 * 2^20 : Nat) ≤ 1048576 * 16 := by decide

/-- the ply adjustment of `getScore` followed by that of `setScore` at the same ply gives the stored value back, provided
    the mate score does not leave the mate range when it is made relative (always the case for real mate scores:
    |stored| ≥ 31000 and ply ≤ 200) -/
theorem toStored_fromStored (r p : Int) (hw : r > 16000 → r - p > 16000) (hl : r < -16000 → r + p < -16000) :
    toStored (fromStored r p) p = r := by
  rw [fromStored_def]
  by_cases h1 : r > 16000
  · rw [if_pos h1, toStored_def, if_pos (hw h1)]; omega
  · rw [if_neg h1]
    by_cases h2 : r < -16000
    · rw [if_pos h2, toStored_def, if_neg (by have := hl h2; omega), if_pos (hl h2)]; omega
    · rw [if_neg h2, toStored_def, if_neg h1, if_neg h2]

/-- **`TranspositionTable::setBusy` does not move the score**: re-storing, at ply `p`, the score an entry shows at ply
    `p` leaves the value every later reader sees (at any ply `q`) unchanged — marking an entry as "being searched"
    deep in the tree must not shift a mate distance. -/
theorem setBusy_keeps_score (d : W) (p q : Int) (hw : rawScore d > 16000 → rawScore d - p > 16000)
    (hl : rawScore d < -16000 → rawScore d + p < -16000) (h1 : -32768 ≤ rawScore d) (h2 : rawScore d ≤ 32767) :
    getScore (setScore d (getScore d p) p) q = getScore d q := by
  have e : toStored (getScore d p) p = rawScore d := toStored_fromStored _ _ hw hl
  rw [ply_shift_exact d (getScore d p) p q (by rw [e]; exact h1) (by rw [e]; exact h2), e]
  rfl

/-- the repaired `setBusy` is an `insert` whose stored key (argument key ^ contempt hash) is exactly the key field of the
    probed entry, with the busy mark set and the shown score stored back at the same ply -/
theorem setBusy_reinserts_under_probed_key (t : Table) (k d : W) (ply : Int) :
    ∃ a : InsArgs, t.setBusy k d ply = t.insert a ∧ a.key ^^^ t.contempt = k ∧ a.busy = true ∧ a.ply = ply ∧
      a.score = getScore d ply := by
  refine ⟨{ key := k ^^^ t.contempt, from_ := (getMove d).toNat % 64, to := (getMove d).toNat / 64 % 64,
            promote := (getMove d).toNat / 4096, score := getScore d ply, type := (getType d : Int), ply := ply,
            depth := (getDepth d : Int), eval := getEvalScore d, busy := true }, rfl, ?_, rfl, rfl, rfl⟩
  show (k ^^^ t.contempt) ^^^ t.contempt = k
  rw [BitVec.xor_assoc, BitVec.xor_self, BitVec.xor_zero]

/-- witness for the pinned code, which handed `k` itself to `insert`: with a non-zero contempt hash the stored key
    `k ^ contempt` is another key than the one the entry was found under -/
theorem pinned_setBusy_other_key (k c : W) (hc : c ≠ 0) : k ^^^ c ≠ k := by
  intro h
  apply hc
  have : k ^^^ (k ^^^ c) = k ^^^ k := by rw [h]
  simpa [← BitVec.xor_assoc] using this

end Props.C08
