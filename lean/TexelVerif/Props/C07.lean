import TexelVerif.NN.History
import TexelVerif.NN.Index
import TexelVerif.NN.Lanes
import TexelVerif.NN.Cache
/-!
# C07 — static evaluation is a pure, symmetric function of the position

Property theorems only; models and helper lemmas live in `TexelVerif/NN/*`.

* model of `NNEvaluator`'s incremental first layer: `NN/Model.lean` (generic in the accumulator type);
* `Lanes = Nat → BitVec 16` is the accumulator arithmetic of the code (wrapping `S16` lanes, any lane count);
* weights, bias are arbitrary; the index function is arbitrary in the refinement theorems and the real
  `getIndex` in the symmetry theorems.

What is NOT covered by a theorem (see notes/C07.md): `endGameEval.cpp` (hand-mirrored rules), the material
correction, and the layers after the accumulator, which appear here only as an uninterpreted function `F` of the
two accumulators and the piece count, plus the lane lemmas about their SIMD kernels.
-/
namespace Props.C07
open NN

/-! ## 1. the incremental state refines from-scratch evaluation -/

/-- **incremental_refines** (call level).  For every history of evaluator calls (`setPiece`, `pushState`,
    `popState` including pops of an empty stack, `forceFullEval`, `eval`) that is truthful about the connected
    position (`WF`), for arbitrary 16-bit weights, bias and index function, and arbitrary stale contents `x` of the
    accumulator arrays: unless the `stackTop < maxStackSize` assertion fired, the accumulator that the next `eval()`
    uses for either perspective is exactly the from-scratch accumulator of the current position. -/
theorem incremental_refines (N : Net Lanes) (tr : Trace) (b0 : Board) (x : Lanes) (hwf : WF b0 [] tr)
    (hna : (runTr N (St.init x) b0 tr).1.aborted = false) (white : Bool) :
    evalAcc N (runTr N (St.init x) b0 tr).1 (runTr N (St.init x) b0 tr).2 white
      = fresh N white (kingSq white (runTr N (St.init x) b0 tr).2) (runTr N (St.init x) b0 tr).2 :=
  refines_lanes N tr b0 x hwf hna white

/-- The assertion in `pushState` cannot fire while fewer than `maxStackSize - 1` pushes are open. -/
theorem stack_assert_never_fires (N : Net Lanes) (tr : Trace) (b0 : Board) (x : Lanes) (hd : DepthOK [] b0 tr) :
    (runTr N (St.init x) b0 tr).1.aborted = false :=
  run_not_aborted N tr (St.init x) b0 [] rfl rfl hd

/-- **incremental_refines** (Position level).  For every history of moves made (whatever squares they rewrite),
    moves taken back, direct `setPiece` calls, position copies/assignments (after which take-backs pop an empty
    evaluator stack), null moves and evaluations, starting from any position `g0.b`: the accumulators used by an
    evaluation after the history are the from-scratch accumulators of the position reached. -/
theorem incremental_refines_history (N : Net Lanes) (hs : List HOp) (g0 : Game) (x : Lanes)
    (hok : ∀ h ∈ hs, HOK h)
    (hna : (runTr N (St.init x) g0.b (htrace g0 hs)).1.aborted = false) (white : Bool) :
    evalAcc N (runTr N (St.init x) g0.b (htrace g0 hs)).1 (hfinal g0 hs).b white
      = fresh N white (kingSq white (hfinal g0 hs).b) (hfinal g0 hs).b := by
  have hw := htrace_wf hs g0 [] hok ⟨g0.undo, rfl⟩
  have hb := runTr_board N (htrace g0 hs) (St.init x) g0.b []
  rw [hw.2] at hb
  have := refines_lanes N (htrace g0 hs) g0.b x hw.1 hna white
  rw [hb] at this
  exact this

/-- Real moves produce on-board rewrites, so `HOK` holds for `HOp.make (moveChanges b from to promo)`. -/
theorem real_moves_are_ok (b : Board) (frm to : Sq) (promo : Pc) (hf : frm < 64) (ht : to < 64)
    (hep : to + 8 < 64 ∨ ¬ (b to = 0 ∧ frm % 8 ≠ to % 8 ∧ b frm = 12))
    (hc : frm + 3 < 64 ∨ ¬ (to = frm + 2)) :
    HOK (HOp.make (moveChanges b frm to promo)) :=
  moveChanges_ok b frm to promo hf ht hep hc

/-- what `computeL1Out` hands to the output heads: the accumulator of the side to move first -/
def headInput (N : Net Lanes) (b : Board) (wtm : Bool) : Lanes × Lanes :=
  (fresh N wtm (kingSq wtm b) b, fresh N (!wtm) (kingSq (!wtm) b) b)

/-- `Position::nPieces()` -/
def nPieces (b : Board) : Nat := (List.range 64).countP (fun s => b s != 0)

/-- the network output with the layers after the accumulator as an uninterpreted function -/
def nnScore (F : Lanes × Lanes → Nat → Int) (N : Net Lanes) (b : Board) (wtm : Bool) : Int :=
  F (headInput N b wtm) (nPieces b)

/-- **purity**: the value `NNEvaluator::eval()` returns after any history depends only on the position reached
    (board, side to move), not on the history, the stack contents or stale accumulator data. -/
theorem eval_is_function_of_position (F : Lanes × Lanes → Nat → Int) (N : Net Lanes) (hs : List HOp) (g0 : Game)
    (x : Lanes) (wtm : Bool) (hok : ∀ h ∈ hs, HOK h)
    (hna : (runTr N (St.init x) g0.b (htrace g0 hs)).1.aborted = false) :
    F (evalAcc N (runTr N (St.init x) g0.b (htrace g0 hs)).1 (hfinal g0 hs).b wtm,
       evalAcc N (runTr N (St.init x) g0.b (htrace g0 hs)).1 (hfinal g0 hs).b (!wtm)) (nPieces (hfinal g0 hs).b)
      = nnScore F N (hfinal g0 hs).b wtm := by
  unfold nnScore headInput
  rw [incremental_refines_history N hs g0 x hok hna wtm, incremental_refines_history N hs g0 x hok hna (!wtm)]

/-! ## 2. symmetry of the feature index -/

/-- `getIndex`: swapping perspective, piece colour (`pt ± 5`) and ranks (`^ 0x38`) gives the same row. -/
theorem idx_colour_flip (k : Sq) (pt : Nat) (sq : Sq) (white : Bool) (hk : k < 64) (hsq : sq < 64) (hpt : pt < 10) :
    getIndex (k ^^^ 56) (swapPt pt) (sq ^^^ 56) (!white) = getIndex k pt sq white :=
  getIndex_flip k pt sq white hk hsq hpt

/-- `getIndex`: mirroring king square and piece square left-right (`^ 7`) gives the same row. -/
theorem idx_mirror (k : Sq) (pt : Nat) (sq : Sq) (white : Bool) (hk : k < 64) (hsq : sq < 64) :
    getIndex (k ^^^ 7) pt (sq ^^^ 7) white = getIndex k pt sq white :=
  getIndex_mirror k pt sq white hk hsq

/-- every row index lies inside `weight1` (`inFeatures = 32 * 10 * 64` rows) -/
theorem idx_in_range (k : Sq) (pt : Nat) (sq : Sq) (white : Bool) (hk : k < 64) (hsq : sq < 64) (hpt : pt < 10) :
    getIndex k pt sq white < 32 * 10 * 64 :=
  getIndex_lt k pt sq white hk hsq hpt

/-- feature multiset of the colour-flipped position from perspective `!c` = original from `c` -/
theorem features_colour_flip {V : Type} (N : Net V) (hN : RealIdx N) (c : Bool) (k : Sq) (b : Board)
    (hk : k < 64) (hb : ∀ s, s < 64 → b s ≤ 12) :
    (activeFeatures N (!c) (k ^^^ 56) (flipBoard b)).Perm (activeFeatures N c k b) :=
  features_flip N hN c k b hk hb

/-- feature multiset of the left-right mirrored position from perspective `c` = original from `c` -/
theorem features_mirror {V : Type} (N : Net V) (hN : RealIdx N) (c : Bool) (k : Sq) (b : Board) (hk : k < 64) :
    (activeFeatures N c (k ^^^ 7) (mirrorBoard b)).Perm (activeFeatures N c k b) :=
  NN.features_mirror N hN c k b hk

/-- accumulators: colour flip exchanges the two perspectives -/
theorem acc_colour_flip (N : Net Lanes) (hN : RealIdx N) (c : Bool) (k : Sq) (b : Board)
    (hk : KingAt c b k) (hb : ∀ s, s < 64 → b s ≤ 12) :
    fresh N (!c) (kingSq (!c) (flipBoard b)) (flipBoard b) = fresh N c (kingSq c b) b := by
  rw [kingSq_of_kingAt c b k hk, kingSq_of_kingAt (!c) (flipBoard b) (k ^^^ 56) (kingAt_flip c b k hk hb)]
  unfold fresh
  exact addRows_perm_lanes N N.bias _ _ (features_flip N hN c k b hk.1 hb)

/-- accumulators: a left-right mirror leaves both perspectives unchanged -/
theorem acc_mirror (N : Net Lanes) (hN : RealIdx N) (c : Bool) (k : Sq) (b : Board) (hk : KingAt c b k) :
    fresh N c (kingSq c (mirrorBoard b)) (mirrorBoard b) = fresh N c (kingSq c b) b := by
  rw [kingSq_of_kingAt c b k hk, kingSq_of_kingAt c (mirrorBoard b) (k ^^^ 7) (kingAt_mirror c b k hk)]
  unfold fresh
  exact addRows_perm_lanes N N.bias _ _ (NN.features_mirror N hN c k b hk.1)

theorem flipPc_ne_zero (p : Nat) : (flipPc p != 0) = (p != 0) := by
  unfold flipPc
  by_cases h0 : p = 0
  · simp [h0]
  · by_cases h6 : p ≤ 6
    · have h1 : p + 6 ≠ 0 := by omega
      simp only [h0, h6, if_false, if_true]
      rw [show (p + 6 != 0) = true from bne_iff_ne.2 h1, show (p != 0) = true from bne_iff_ne.2 h0]
    · have h1 : p - 6 ≠ 0 := by omega
      simp only [h0, h6, if_false]
      rw [show (p - 6 != 0) = true from bne_iff_ne.2 h1, show (p != 0) = true from bne_iff_ne.2 h0]

theorem nPieces_flip (b : Board) : nPieces (flipBoard b) = nPieces b := by
  unfold nPieces
  have : (fun s => flipBoard b s != 0) = (fun s => b s != 0) ∘ (· ^^^ 56) := by
    funext s; simp only [flipBoard, Function.comp, flipPc_ne_zero]
  rw [this, ← List.countP_map]
  exact perm56.countP_eq _

theorem nPieces_mirror (b : Board) : nPieces (mirrorBoard b) = nPieces b := by
  unfold nPieces
  have : (fun s => mirrorBoard b s != 0) = (fun s => b s != 0) ∘ (· ^^^ 7) := rfl
  rw [this, ← List.countP_map]
  exact perm7.countP_eq _

/-- **colour symmetry of the network value**: for any output layers `F`, the flipped position with the other side
    to move gets the same value (`eval()` is relative to the side to move). -/
theorem nn_colour_flip (F : Lanes × Lanes → Nat → Int) (N : Net Lanes) (hN : RealIdx N) (b : Board) (wtm : Bool)
    (kw kb : Sq) (hw : KingAt true b kw) (hbk : KingAt false b kb) (hb : ∀ s, s < 64 → b s ≤ 12) :
    nnScore F N (flipBoard b) (!wtm) = nnScore F N b wtm := by
  unfold nnScore headInput
  rw [nPieces_flip]
  cases wtm
  · have h1 := acc_colour_flip N hN false kb b hbk hb
    have h2 := acc_colour_flip N hN true kw b hw hb
    simp only [Bool.not_false, Bool.not_true] at h1 h2 ⊢
    rw [h1, h2]
  · have h1 := acc_colour_flip N hN true kw b hw hb
    have h2 := acc_colour_flip N hN false kb b hbk hb
    simp only [Bool.not_false, Bool.not_true] at h1 h2 ⊢
    rw [h1, h2]

/-- **left-right symmetry of the network value** -/
theorem nn_mirror (F : Lanes × Lanes → Nat → Int) (N : Net Lanes) (hN : RealIdx N) (b : Board) (wtm : Bool)
    (kw kb : Sq) (hw : KingAt true b kw) (hbk : KingAt false b kb) :
    nnScore F N (mirrorBoard b) wtm = nnScore F N b wtm := by
  unfold nnScore headInput
  rw [nPieces_mirror]
  cases wtm
  · have h1 := acc_mirror N hN false kb b hbk
    have h2 := acc_mirror N hN true kw b hw
    simp only [Bool.not_false] at h1 h2 ⊢
    rw [h1, h2]
  · have h1 := acc_mirror N hN true kw b hw
    have h2 := acc_mirror N hN false kb b hbk
    simp only [Bool.not_true] at h1 h2 ⊢
    rw [h1, h2]

/-! ## 3. SIMD lane kernels = generic kernels -/
open NN.Lanes in
/-- `maddubs` never saturates for activations in [0,127] and int8 weights -/
theorem lanes_maddubs (a0 a1 w0 w1 : Int) (h0 : 0 ≤ a0 ∧ a0 ≤ 127) (h1 : 0 ≤ a1 ∧ a1 ≤ 127)
    (g0 : -128 ≤ w0 ∧ w0 ≤ 127) (g1 : -128 ≤ w1 ∧ w1 ≤ 127) :
    sat16 (a0 * w0 + a1 * w1) = a0 * w0 + a1 * w1 :=
  maddubs_exact a0 a1 w0 w1 h0 h1 g0 g1

open NN.Lanes in
/-- the range hypothesis is needed -/
theorem lanes_maddubs_range_witness : sat16 (255 * 127 + 255 * 127) ≠ 255 * 127 + 255 * 127 :=
  maddubs_needs_range

open NN.Lanes in
/-- `maddubs` + `madd(ones)` of a 4-byte block = exact 4-term dot product (= `vpdpbusd` = generic loop) -/
theorem lanes_madd4 (a0 a1 a2 a3 w0 w1 w2 w3 : Int)
    (h0 : 0 ≤ a0 ∧ a0 ≤ 127) (h1 : 0 ≤ a1 ∧ a1 ≤ 127) (h2 : 0 ≤ a2 ∧ a2 ≤ 127) (h3 : 0 ≤ a3 ∧ a3 ≤ 127)
    (g0 : -128 ≤ w0 ∧ w0 ≤ 127) (g1 : -128 ≤ w1 ∧ w1 ≤ 127) (g2 : -128 ≤ w2 ∧ w2 ≤ 127) (g3 : -128 ≤ w3 ∧ w3 ≤ 127) :
    sat16 (a0 * w0 + a1 * w1) * 1 + sat16 (a2 * w2 + a3 * w3) * 1 = a0 * w0 + a1 * w1 + a2 * w2 + a3 * w3 :=
  (madd4_exact a0 a1 a2 a3 w0 w1 w2 w3 h0 h1 h2 h3 g0 g1 g2 g3).1

open NN.Lanes in
/-- a row of n ≤ 512 inputs contributes less than 2^23 in absolute value: with |bias| < 2^31 − 2^23 no 32-bit
    accumulator wraps, in any summation order (sparse, blocked, horizontal adds) -/
theorem lanes_dot_no_overflow (as ws : List Int) (ha : ∀ a ∈ as, 0 ≤ a ∧ a ≤ 127) (hw : ∀ w ∈ ws, -128 ≤ w ∧ w ≤ 127)
    (hn : as.length ≤ 512) : -8388608 < dot as ws ∧ dot as ws < 8388608 := by
  have := dot_bound as ws ha hw
  omega

open NN.Lanes in
/-- clip/pack: all SIMD orders = `clamp(x >> shift, 0, 127)`, and the result is a valid activation -/
theorem lanes_pack (x : Int) (s : Nat) :
    max (sat8 (x >>> s)) 0 = clamp (x >>> s) 0 127 ∧ sat8 (max (x >>> s) 0) = clamp (x >>> s) 0 127 ∧
    0 ≤ clamp (x >>> s) 0 127 ∧ clamp (x >>> s) 0 127 ≤ 127 :=
  pack_shift x s

open NN.Lanes in
/-- AVX2 pack + permute stores the elements in source order -/
theorem lanes_pack_order_avx2 : ∀ j, j < 32 → packsElem (permIdx.getD (j / 4) 0 * 4 + j % 4) = j :=
  avx2_pack_order

open NN.Lanes in
/-- sparse matMul: signed `> 0` test of a 4-byte block = `!= 0` test, for activations in [0,127] -/
theorem lanes_nonzero_block (b0 b1 b2 b3 : Int) (h0 : 0 ≤ b0 ∧ b0 ≤ 127) (h1 : 0 ≤ b1 ∧ b1 ≤ 127)
    (h2 : 0 ≤ b2 ∧ b2 ≤ 127) (h3 : 0 ≤ b3 ∧ b3 ≤ 127) :
    (b0 + 256 * b1 + 65536 * b2 + 16777216 * b3 > 0 ↔ b0 + 256 * b1 + 65536 * b2 + 16777216 * b3 ≠ 0) ∧
    b0 + 256 * b1 + 65536 * b2 + 16777216 * b3 < 2147483648 := by
  have := nonzero_block b0 b1 b2 b3 h0 h1 h2 h3
  exact ⟨this.2.2.1, this.2.1⟩

/-! ## 4. the evaluation cache -/
open NN.Cache

/-- **cache_transparent**: whatever 64-bit key the code uses, if equal keys imply equal uncached values
    (no-collision hypothesis), scores fit the 16-bit field and no key has the never-written pattern, then every
    `evalPos()` in every sequence of evaluations sharing one table returns the uncached value. -/
theorem cache_transparent {P : Type} (S : Sys P) (H : Hyp S) (qs : List (P × Int)) :
    (runQ S Tbl.empty qs).2 = qs.map (fun q => S.raw q.1 q.2) :=
  runQ_ok S H qs Tbl.empty (ok_empty S)

/-- The code before the repair keyed the cache by `historyHash()` alone although the value contains the contempt
    term: even with an injective position hash the second evaluation below returns the value cached under the
    other contempt.  (`raw p c = 10 + c`, one position, contempt 50 then −50: the model returns 60 twice.) -/
theorem cache_key_without_contempt_witness :
    let S : Sys Unit := sysOld (fun _ c => 10 + c) (fun _ => 0x123456789abc0000)
    (∀ p c, S.key p c < 2^64) ∧ (∀ p c p' c', S.key p c = S.key p' c' → p = p') ∧
    (runQ S Tbl.empty [((), 50), ((), -50)]).2 = [60, 60] ∧
    [((), (50 : Int)), ((), -50)].map (fun q => S.raw q.1 q.2) = [60, -40] := by
  refine ⟨by intro _ _; simp [sysOld], by intro _ _ _ _ _; rfl, by decide, by decide⟩

/-- After the repair (key = historyHash ^ contemptHash) the transparency theorem applies with the plain
    no-collision hypothesis on the combined key. -/
theorem cache_transparent_fixed {P : Type} (raw : P → Int → Int) (hist : P → Nat)
    (H : Hyp (sysFixed raw hist)) (qs : List (P × Int)) :
    (runQ (sysFixed raw hist) Tbl.empty qs).2 = qs.map (fun q => raw q.1 q.2) :=
  cache_transparent (sysFixed raw hist) H qs

/-- the repaired key separates the witness: contempt 50 and −50 give different keys for the same position -/
theorem contempt_hash_separates : contemptHash 50 ≠ contemptHash (-50) ∧ contemptHash 0 = 0 ∧
    (0x123456789abc0000 ^^^ contemptHash 50) ≠ (0x123456789abc0000 ^^^ contemptHash (-50)) := by decide

/-! ## hypotheses are satisfiable -/

/-- the start position has exactly one king of each colour where expected -/
def startBoard : Board := fun s =>
  [3,5,4,2,1,4,5,3, 6,6,6,6,6,6,6,6, 0,0,0,0,0,0,0,0, 0,0,0,0,0,0,0,0, 0,0,0,0,0,0,0,0, 0,0,0,0,0,0,0,0,
   12,12,12,12,12,12,12,12, 9,11,10,8,7,10,11,9].getD s 0

example : KingAt true startBoard 4 ∧ KingAt false startBoard 60 ∧ ∀ s, s < 64 → startBoard s ≤ 12 := by
  refine ⟨⟨by decide, ?_⟩, ⟨by decide, ?_⟩, ?_⟩ <;> decide

/-- a well-formed trace with a move, a take-back, a reset and a take-back on the empty stack -/
example : WF startBoard [] [(Op.eval, startBoard), (Op.push, startBoard), (Op.setPiece 12 6 0, upd startBoard 12 0),
    (Op.setPiece 28 0 6, upd (upd startBoard 12 0) 28 6), (Op.eval, upd (upd startBoard 12 0) 28 6), (Op.pop, startBoard),
    (Op.reset, startBoard), (Op.pop, startBoard)] := by
  exact ⟨rfl, rfl, ⟨by decide, by decide, rfl⟩, ⟨by decide, by decide, rfl⟩, rfl, rfl, trivial, trivial, trivial⟩

/-- `Hyp` is satisfiable: two positions with different keys -/
example : Hyp ({ raw := fun p _ => if p then 100 else -100, key := fun p _ => if p then 65536 else 131072 } : Sys Bool) where
  key64 := by intro p c; cases p <;> simp
  range := by intro p c; cases p <;> simp
  nocoll := by intro p c p' c' h; cases p <;> cases p' <;> simp_all
  notEmpty := by intro p c; cases p <;> simp

end Props.C07
