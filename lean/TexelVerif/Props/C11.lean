import TexelVerif.Draw.ScanSpec
import TexelVerif.Draw.HistoryLemmas
import TexelVerif.Draw.Claim
/-!
# C11 — draws by repetition and the 50-move rule are recognised
-/
namespace C11

/-- **`rep_scan_spec`** — `Search::canClaimDrawRep` (hand model `Rep.canClaimDrawRep`, proved equal to the definition
    regenerated from search.hpp in `Bridge/Draw.lean`) is true iff some index of the window
    `{i | max 0 (size − hmc) ≤ i ≤ size − 4 ∧ i ≡ size (mod 2)}` holds the current hash and either lies at or above
    `posHashFirstNew` or a second index of the window holds it too. -/
theorem rep_scan_spec (hs : Nat → Nat) (size hmc firstNew : Int) (h : Nat) :
    Rep.canClaimDrawRep hs size hmc firstNew h = true ↔
      ∃ i, Rep.InWindow size hmc i ∧ hs i.toNat = h ∧
        (firstNew ≤ i ∨ ∃ j, Rep.InWindow size hmc j ∧ j ≠ i ∧ hs j.toNat = h) :=
  Rep.canClaimDrawRep_iff hs size hmc firstNew h

end C11
