import TexelVerif.Draw.ScanSpec
import TexelVerif.Draw.HistoryLemmas
import TexelVerif.Draw.Third
import TexelVerif.Draw.WitnessProofs
import TexelVerif.Draw.Prologue
import TexelVerif.Draw.GameLemmas
import TexelVerif.Draw.GameInv
/-!
# C11 — draws by repetition and the 50-move rule are recognised

Code under the theorems (hand models; the scan and `canClaimDraw50` are also regenerated from the C++ on every run and
proved equal to the hand models in `Bridge/Draw.lean`):

* `Rep.canClaimDrawRep`      — `Search::canClaimDrawRep` (search.hpp:329-341)
* `Hist.setupPosition`       — `EngineControl::setupPosition` (history list from `position … moves`)
* `Hist.scanPly1`            — the scan as `negaScout` runs it at ply 1 after the root loop of `iterativeDeepening`
                               pushed the root hash and set `posHashFirstNew`
* `Prologue.drawTests`       — the draw tests at the top of `negaScout` (search.cpp:519-533)
* `GameM.processString` …    — the console `Game` (game.cpp), `GameM.canClaimDraw` — `ComputerPlayer::canClaimDraw`

Chess facts come from the shared specification `Chess/Spec.lean` (`apply`, `legalB`, `fixupEP`, `genLegal`).
-/
namespace Props.C11
open Chess Hist GameM

/-! ## the repetition scan -/

/-- **`rep_scan_spec`** — the scan is true iff some index of the window
    `{i | max 0 (size − hmc) ≤ i ≤ size − 4 ∧ i ≡ size (mod 2)}` holds the current hash and either lies at or above
    `posHashFirstNew` (reached inside the search tree) or a second index of the window holds it too. -/
theorem rep_scan_spec (hs : Nat → Nat) (size hmc firstNew : Int) (h : Nat) :
    Rep.canClaimDrawRep hs size hmc firstNew h = true ↔
      ∃ i, Rep.InWindow size hmc i ∧ hs i.toNat = h ∧
        (firstNew ≤ i ∨ ∃ j, Rep.InWindow size hmc j ∧ j ≠ i ∧ hs j.toNat = h) :=
  Rep.canClaimDrawRep_iff hs size hmc firstNew h

/-- the scan never reads outside `0 ≤ i < size`: its result depends only on those entries -/
theorem rep_scan_in_bounds (hs hs' : Nat → Nat) (size hmc firstNew : Int) (h : Nat)
    (heq : ∀ i : Nat, (i : Int) < size → hs i = hs' i) :
    Rep.canClaimDrawRep hs size hmc firstNew h = Rep.canClaimDrawRep hs' size hmc firstNew h := by
  rw [Bool.eq_iff_iff, rep_scan_spec, rep_scan_spec]
  have key : ∀ i : Int, Rep.InWindow size hmc i → hs i.toNat = hs' i.toNat := by
    intro i hi; unfold Rep.InWindow at hi; exact heq _ (by omega)
  constructor
  · rintro ⟨i, hw, he, hr⟩
    refine ⟨i, hw, by rw [← key i hw]; exact he, ?_⟩
    rcases hr with hf | ⟨j, hwj, hne, hej⟩
    · exact Or.inl hf
    · exact Or.inr ⟨j, hwj, hne, by rw [← key j hwj]; exact hej⟩
  · rintro ⟨i, hw, he, hr⟩
    refine ⟨i, hw, by rw [key i hw]; exact he, ?_⟩
    rcases hr with hf | ⟨j, hwj, hne, hej⟩
    · exact Or.inl hf
    · exact Or.inr ⟨j, hwj, hne, by rw [key j hwj]; exact hej⟩

/-- **clearing loses nothing** — dropping `n` leading entries that lie below `size − hmc` (everything before the last
    zeroing move; everything when more than 100 reversible plies were played and the clock is reset later) does not change
    the scan -/
theorem clear_loses_nothing (hs : Nat → Nat) (size hmc firstNew : Int) (h : Nat) (n : Nat) (hn : (n : Int) ≤ size - hmc) :
    Rep.canClaimDrawRep hs size hmc firstNew h =
      Rep.canClaimDrawRep (fun i => hs (i + n)) (size - n) hmc (firstNew - n) h :=
  Rep.canClaimDrawRep_shift hs size hmc firstNew h n hn

/-! ## the history builder -/

/-- **`history_builder`** — for any make-move function, clock and hash: `setupPosition` yields the hashes of the positions
    `p_k … p_{n-1}` in order, where `p_k` is the last position reached by a zeroing move (`k = 0` if there is none), or
    nothing if these are more than 100; and the final position. -/
theorem history_builder {P M H : Type} (step : P → M → P) (hmc : P → Nat) (hash : P → H) (p : P) (ms : List M) :
    ∃ k, k ≤ ms.length ∧
      (k = 0 ∨ ∃ q, (states step p ms)[k]? = some q ∧ hmc q = 0) ∧
      (∀ j q, k < j → (states step p ms)[j]? = some q → hmc q ≠ 0) ∧
      setupPosition step hmc hash p ms =
        (if (((states step p ms).take ms.length).drop k).length > 100 then []
         else (((states step p ms).take ms.length).drop k).map hash,
         ms.foldl step p) := by
  obtain ⟨k, hk, hnz, hres⟩ := buildLoop_spec step hmc hash p ms []
  have hL : (buildLoop step hmc hash p ms []).1 = (((states step p ms).take ms.length).drop k).map hash := by
    rcases hres with ⟨rfl, h⟩ | ⟨_, _, h⟩
    · simpa using h
    · exact h
  refine ⟨k, hk, ?_, hnz, ?_⟩
  · rcases hres with ⟨h0, _⟩ | ⟨_, hz, _⟩
    · exact Or.inl h0
    · exact Or.inr hz
  · unfold setupPosition
    simp only [hL, List.length_map, buildLoop_snd]

/-- **`history_clock`** — when every move resets the clock or adds one to it, the list is never longer than the clock of
    the final position: the scan's lower bound `size − hmc` is ≤ 0 for reversible moves from the root, and a list that was
    cleared because it exceeded 100 entries belongs to a position where the 50-move test fires anyway -/
theorem history_clock {P M H : Type} (step : P → M → P) (hmc : P → Nat) (hash : P → H)
    (hstep : ∀ p m, hmc (step p m) = 0 ∨ hmc (step p m) = hmc p + 1) (p : P) (ms : List M) :
    (setupPosition step hmc hash p ms).1.length ≤ hmc (setupPosition step hmc hash p ms).2 ∧
    ((buildLoop step hmc hash p ms []).1.length > 100 → 100 < hmc (setupPosition step hmc hash p ms).2) := by
  have h := buildLoop_clock step hmc hash hstep p ms [] (by simp)
  unfold setupPosition
  simp only []
  constructor
  · split
    · simp
    · exact h
  · intro hbig; omega

/-! ## legal games: the window loses nothing -/

/-- **`window_loses_nothing`** — in a legal game (positions `p₀ … pₙ` of the specification, e.p.-normalised) two positions
    with the same board and side to move are an even number of plies apart and at least four: the side to move alternates,
    and two plies earlier the mover's from-square held its piece whereas now it is empty or holds an enemy piece.  Hence
    starting the scan at `size − 4` and stepping by 2 skips no candidate. -/
theorem window_loses_nothing (p : Pos) (ms : List Mv) (hl : LegalLine p ms) (i j : Nat) (a b : Pos) (hij : i < j)
    (ha : (states nextPos p ms)[i]? = some a) (hb : (states nextPos p ms)[j]? = some b)
    (hbb : b.b = a.b) (hw : b.wtm = a.wtm) : 4 ≤ j - i ∧ (j - i) % 2 = 0 :=
  Chess.window_loses_nothing p ms hl i j a b hij ha hb hbb hw

/-! ## the third occurrence at ply 1 -/

/-- **`third_occurrence`** (abstract hashes) — `qs`: the positions whose hashes were handed to the search, `root` the
    position searched, `new` the position after the root move with clock `newHmc`; `key`: identity under the rules.
    If the hash separates exactly the `key`-classes on these positions (`hinj`: no 64-bit collisions; `hwf`: positions
    equal under the rules have equal hashes, in particular equal e.p. flags — what the repair of `setupPosition`
    establishes), an earlier occurrence lies at even distance ≥ 4 (`hwin`, discharged on the chess specification by
    `window_loses_nothing`) and the clock covers the list unless nothing matches (`hclk`), then at ply 1 — with
    `posHashFirstNew` as the root loop sets it for MultiPV = 1 and > 1 — the scan is true iff the new position occurred at
    least twice among the given positions and the root. -/
theorem third_occurrence {P K : Type} [DecidableEq K] (key : P → K) (hash : P → Nat)
    (qs : List P) (root new : P) (newHmc : Int) (multiPV : Bool)
    (hinj : ∀ q ∈ qs ++ [root], hash q = hash new → key q = key new)
    (hwf : ∀ q ∈ qs ++ [root], key q = key new → hash q = hash new)
    (hwin : ∀ (i : Nat) q, (qs ++ [root])[i]? = some q → key q = key new →
              i + 4 ≤ (qs ++ [root]).length ∧ ((qs ++ [root]).length - i) % 2 = 0)
    (hclk : (((qs ++ [root]).length : Int) ≤ newHmc) ∨ ∀ q ∈ qs ++ [root], key q ≠ key new) :
    scanPly1 (qs.map hash) (hash root) (hash new) newHmc multiPV = true ↔
      2 ≤ (qs ++ [root]).countP (fun q => decide (key q = key new)) := by
  rw [scanPly1_eq]
  exact scanOld_iff key hash (qs ++ [root]) new newHmc _
    (by simp only [List.length_append, List.length_singleton]; split <;> omega) hinj hwf hwin hclk

/-- **`third_occurrence_chess`** — the same on the chess specification with the repaired history builder: `p0` from the
    FEN reader, `ms` legal, `m` a legal root move.  Remaining hypotheses: the Zobrist key is a function of board, side,
    castling mask and e.p. square (`hzob`, property C02); no collisions among the positions involved (`hcoll`); zeroing
    moves are irreversible (`hirr`, a chess fact not proved here).  The count is over the positions since the last zeroing
    move (root included) that equal the position after the move under the repetition rule. -/
theorem third_occurrence_chess (hash : Pos → Nat) (p0 : Pos) (ms : List Mv) (m : Mv) (multiPV : Bool)
    (hl : LegalLine p0 ms) (hm : legalB (givenHistory p0 ms).2 m = true)
    (hzob : ∀ a b : Pos, drawKey a = drawKey b → hash a = hash b)
    (hcoll : ∀ q ∈ (givenHistory p0 ms).1 ++ [(givenHistory p0 ms).2],
        hash q = hash (apply (givenHistory p0 ms).2 m) → drawKey q = drawKey (apply (givenHistory p0 ms).2 m))
    (hirr : (apply (givenHistory p0 ms).2 m).hmc = 0 →
        ∀ q ∈ (givenHistory p0 ms).1 ++ [(givenHistory p0 ms).2], q.b ≠ (apply (givenHistory p0 ms).2 m).b) :
    scanPly1 ((givenHistory p0 ms).1.map hash) (hash (givenHistory p0 ms).2) (hash (apply (givenHistory p0 ms).2 m))
        (apply (givenHistory p0 ms).2 m).hmc multiPV = true ↔
      2 ≤ ((givenHistory p0 ms).1 ++ [(givenHistory p0 ms).2]).countP
            (fun q => decide (drawKey q = drawKey (nextPos (givenHistory p0 ms).2 m))) :=
  Chess.third_occurrence_chess hash p0 ms m multiPV hl hm hzob hcoll hirr

/-- on normalised positions — all positions of a game from a normalised start — `drawKey` equality *is* equality under
    the repetition rule (same board, side, castling rights, e.p. capturability) -/
theorem drawKey_is_rule_identity (p0 : Pos) (ms : List Mv) (hn : Norm p0) (a b : Pos)
    (ha : a ∈ states nextPos p0 ms) (hb : b ∈ states nextPos p0 ms) : sameRules a b ↔ drawKey a = drawKey b :=
  sameRules_of_norm (states_norm p0 ms hn a ha) (states_norm p0 ms hn b hb)

/-- **`third_occurrence_witness`** — the builder before the repair (raw `makeMove`) violates the property:
    `position fen 3k4/8/8/8/3p4/8/4P3/3R2K1 w - - 0 1 moves e2e4 d8d7 g1g2 d7d8 g2g1 d8e8 g1g2 e8d8`, root move `g2g1`.
    The game is legal; under the rules the position after `g2g1` occurred twice before (the repaired list shows it); the
    unrepaired list carries the e.p. square e3 in its first entry, so only one entry has the key of the new position. -/
theorem third_occurrence_witness :
    LegalLine wP0 wMoves ∧ legalB (givenHistory wP0 wMoves).2 wM = true ∧
    ((givenHistory wP0 wMoves).1 ++ [(givenHistory wP0 wMoves).2]).countP
        (fun q => decide (drawKey q = drawKey (nextPos (givenHistory wP0 wMoves).2 wM))) = 2 ∧
    (rawHistory wP0 wMoves).1.map (·.ep) = [some ⟨20, by decide⟩, none, none, none, none, none, none] ∧
    ((rawHistory wP0 wMoves).1 ++ [(rawHistory wP0 wMoves).2]).countP
        (fun q => decide (drawKey q = drawKey (apply (rawHistory wP0 wMoves).2 wM))) = 1 :=
  Chess.witness_facts

/-- …hence for *every* hash function that does not identify different keys the scan over the unrepaired list is false,
    although the move completes a three-fold repetition -/
theorem third_occurrence_witness_scan (hash : Pos → Nat) (multiPV : Bool)
    (hinj : ∀ q ∈ (rawHistory wP0 wMoves).1 ++ [(rawHistory wP0 wMoves).2],
        hash q = hash (apply (rawHistory wP0 wMoves).2 wM) → drawKey q = drawKey (apply (rawHistory wP0 wMoves).2 wM)) :
    scanPly1 ((rawHistory wP0 wMoves).1.map hash) (hash (rawHistory wP0 wMoves).2) (hash (apply (rawHistory wP0 wMoves).2 wM))
      (apply (rawHistory wP0 wMoves).2 wM).hmc multiPV = false := by
  rw [Bool.eq_false_iff]
  intro h
  rw [scanPly1_eq] at h
  have := scanOld_imp drawKey hash _ _ _ _
    (by simp only [List.length_append, List.length_singleton]; split <;> omega) hinj h
  rw [third_occurrence_witness.2.2.2.2] at this
  omega

/-! ## the 50-move test -/

/-- **`fifty_with_mate_first`** — whenever the clock has reached 100 the node returns at once: the mate score
    `-(MATE0 − (ply+1))` if the side to move is checkmated, otherwise 0 (whatever the repetition scan says) -/
theorem fifty_with_mate_first (p : Pos) (ply : Int) (repScan : Bool) (h : 100 ≤ p.hmc) :
    Prologue.drawTests p.hmc (inCheck p.b p.wtm) (genLegal p).isEmpty repScan ply =
      some (if isMated p then -(Prologue.MATE0 - (ply + 1)) else 0) := by
  have h' : (100 : Int) ≤ (p.hmc : Int) := by omega
  unfold Prologue.drawTests Prologue.canClaimDraw50 isMated
  simp only [h', decide_true, if_true]
  cases inCheck p.b p.wtm <;> cases (genLegal p).isEmpty <;> simp

/-- below 100 the prologue returns 0 exactly when the scan fires, and otherwise lets the search continue -/
theorem below_fifty (hmc : Int) (inChk noLegal repScan : Bool) (ply : Int) (h : hmc < 100) :
    Prologue.drawTests hmc inChk noLegal repScan ply = if repScan then some 0 else none := by
  have h' : ¬ (100 : Int) ≤ hmc := by omega
  unfold Prologue.drawTests Prologue.canClaimDraw50
  simp [h']

/-- the score returned for a mate at ply 1 is the root's `mate 1` (31998) -/
theorem mate_at_ply1 : Prologue.mateInOneAtRoot = 31998 := by decide

/-! ## the console game -/

/-- **dead material** — `Game::insufficientMaterial` is exactly: no queen, rook or pawn, and at most one minor piece in
    total or bishops only, all on squares of one colour -/
theorem dead_material_spec (b : Board) : insufficientMaterial b = true ↔ DeadMaterial b := insufficientMaterial_iff b

/-- **`game_state_spec`** — `getGameState` reports, in this order: mate (for the side that delivered it), stalemate, dead
    material, resignation, and otherwise the state set by an accepted claim or agreement (`drawRep`, `draw50`,
    `drawAgree`) or `alive` -/
theorem game_state_spec (g : Game) :
    getGameState g =
      if isMated g.pos then (if g.pos.wtm then .blackMate else .whiteMate)
      else if isStalemate g.pos then (if g.pos.wtm then .whiteStalemate else .blackStalemate)
      else if insufficientMaterial g.pos.b then .drawNoMate
      else if g.resignState ≠ .alive then g.resignState
      else g.drawState := getGameState_eq g

/-- **`draw_claim_spec`, repetition** — in a live game `draw rep [m]` ends the game as a repetition draw exactly when
    the claimed position (after the legal move `m`, or the current one; text naming no legal move counts as no move) occurs
    at least three times among the positions of the game from its start plus itself, compared by `drawRuleEquals` -/
theorem draw_claim_spec_rep (fixRedo : Bool) (g : Game) (m : Option Mv) (hal : getGameState g = .alive) :
    (processString fixRedo g (.drawRep m)).1.drawState = .drawRep ↔
      3 ≤ (claimLine g m).countP (fun q => decide (drawKey q = drawKey (claimed g m))) := by
  have : (processString fixRedo g (.drawRep m)).1 = claim g true m := by
    simp [processString, hal]
  rw [this]; exact claim_rep_iff g m hal

/-- **`draw_claim_spec`, 50 moves** — `draw 50 [m]` is accepted exactly when the clock of the claimed position is ≥ 100 -/
theorem draw_claim_spec_50 (fixRedo : Bool) (g : Game) (m : Option Mv) (hal : getGameState g = .alive) :
    (processString fixRedo g (.draw50 m)).1.drawState = .draw50 ↔ 100 ≤ (claimed g m).hmc := by
  have : (processString fixRedo g (.draw50 m)).1 = claim g false m := by
    simp [processString, hal]
  rw [this]; exact claim_50_iff g m hal

/-- a rejected claim is a draw offer, and the named move is played -/
theorem rejected_claim_plays (g : Game) (rep : Bool) (m : Mv) (hal : getGameState g = .alive) (hm : legalB g.pos m = true)
    (hrej : (if rep then repValid g (some m) else fiftyValid g (some m)) = false) :
    claim g rep (some m) = playMove { g with pending := true } m := by
  have hal' : getGameState { g with pending := true } = .alive := hal
  unfold claim
  simp only [legalOnly, hm, if_true, hrej, Bool.false_eq_true, if_false]
  unfold processMove
  simp [hal', hm]

/-- agreement: `draw accept` ends the game iff the opponent's last move carried an offer; resignation is recorded for the
    side to move -/
theorem agreement_and_resignation (fixRedo : Bool) (g : Game) (hal : getGameState g = .alive) :
    ((processString fixRedo g .drawAccept).1.drawState = .drawAgree ↔ haveDrawOffer g = true) ∧
    (processString fixRedo g .resign).1.resignState = (if g.pos.wtm then .resignWhite else .resignBlack) := by
  have ha := (alive_fields g hal).1
  constructor
  · simp only [processString, hal, beq_self_eq_true, if_true]
    by_cases h : haveDrawOffer g = true
    · simp [h]
    · simp [h, ha]
  · simp [processString, hal]

/-- once the game is over no move is accepted and claims, offers and resignation change nothing -/
theorem finished_game_is_frozen (fixRedo : Bool) (g : Game) (hover : getGameState g ≠ .alive) (m : Option Mv) :
    processString fixRedo g (.move m) = (g, false) ∧ (processString fixRedo g (.drawRep m)).1 = g ∧
    (processString fixRedo g (.draw50 m)).1 = g ∧ (processString fixRedo g (.drawOffer m)).1 = g ∧
    (processString fixRedo g .drawAccept).1 = g ∧ (processString fixRedo g .resign).1 = g := by
  have h1 : (getGameState g != .alive) = true := by simpa using hover
  have h2 : (getGameState g == .alive) = false := by simpa using hover
  simp [processString, processMove, h1, h2]

/-- **for every game history** — every state reachable by console commands (repaired `redo`) from a start position as
    the FEN reader gives it records a legal game: the positions compared by claims are exactly the positions
    `p₀ … p_cur` of the specification played with the first `currentMove` moves of the move list, all normalised -/
theorem console_record_spec (g : Game) (h : Reach g) :
    ∃ p0, (gamePositions g).head? = some p0 ∧ gamePositions g = states nextPos p0 (g.moves.take g.cur) ∧
      LegalLine p0 (g.moves.take g.cur) ∧ ∀ q ∈ gamePositions g, Norm q := by
  obtain ⟨hi, hn⟩ := reach_inv g h
  obtain ⟨p0, h1, h2, h3⟩ := inv_gamePositions g hi
  exact ⟨p0, h1, h2, h3, gamePositions_norm g hn⟩

/-- the FEN reader's output is normalised (so `Reach.start` applies to every `new` / `setpos`) -/
theorem start_positions_normalised (fen : String) (p : Pos) (h : readFEN fen = .ok p) : Norm p := readFEN_norm fen p h

/-- **`draw_claim_spec` at rule level** — in a reachable live game, `draw rep [m]` is accepted exactly when the claimed
    position occurs at least three times in the game (itself included), positions compared under the repetition rule
    (`sameRules`: board, side to move, castling rights, e.p. capturability).  `hep`: the claimed move is not a double pawn
    push beside an enemy pawn (after such a move the position cannot have occurred before). -/
theorem draw_claim_rule_level (g : Game) (h : Reach g) (m : Option Mv) (hal : getGameState g = .alive)
    (hep : ∀ mv, legalOnly g m = some mv → (apply g.pos mv).ep = none) :
    (processString true g (.drawRep m)).1.drawState = .drawRep ↔
      3 ≤ (claimLine g m).countP (fun q => decide (sameRules q (claimed g m))) := by
  rw [draw_claim_spec_rep true g m hal]
  obtain ⟨_, hn⟩ := reach_inv g h
  have hgp := gamePositions_norm g hn
  have hcl : Norm (claimed g m) := by
    unfold claimed
    cases hm : legalOnly g m with
    | none => exact hn.1
    | some mv => exact fixupEP_of_ep_none _ (hep mv hm)
  have hline : ∀ q ∈ claimLine g m, Norm q := by
    intro q hq
    unfold claimLine at hq
    rcases List.mem_append.1 hq with hq | hq
    · exact hgp q hq
    · cases hm : legalOnly g m with
      | none => rw [hm] at hq; cases hq
      | some mv =>
        rw [hm] at hq
        simp only [List.mem_singleton] at hq
        rw [hq]; exact fixupEP_of_ep_none _ (hep mv hm)
  have : (claimLine g m).countP (fun q => decide (drawKey q = drawKey (claimed g m))) =
      (claimLine g m).countP (fun q => decide (sameRules q (claimed g m))) := by
    apply List.countP_congr
    intro q hq
    simp only [decide_eq_true_eq]
    exact (sameRules_of_norm (hline q hq) hcl).symm
  rw [this]

/-- **`redo_witness`** — `redo` before the repair replays the raw `makeMove`: after `e2e4; undo; redo` in the witness game
    the position keeps the e.p. square e3, and the claim `draw rep g2g1` for the third occurrence is rejected (the move is
    played instead); with the repaired `redo` the claim is accepted -/
theorem redo_witness :
    (runCmds false (newGame wP0) redoScript).drawState = .alive ∧ (runCmds false (newGame wP0) redoScript).cur = 9 ∧
    (runCmds true (newGame wP0) redoScript).drawState = .drawRep ∧ (runCmds true (newGame wP0) redoScript).cur = 8 :=
  Chess.redo_witness_facts

/-- **`cp_claim_spec`** — under the hypotheses of `third_occurrence` for the two scans it makes, `ComputerPlayer::canClaimDraw`
    claims `draw 50` / `draw rep` for the current position, else `draw 50 m` / `draw rep m` for the position after its
    move, exactly when the clock is ≥ 100 resp. the position occurred at least twice before since the last zeroing move -/
theorem cp_claim_spec (hash : Pos → Nat) (hist : List Pos) (p : Pos) (m : Mv)
    (h1 : ScanHyp hash hist p) (h2 : ScanHyp hash (hist ++ [p]) (apply p m)) :
    canClaimDraw hash hist p m =
      if 100 ≤ p.hmc then .d50
      else if 2 ≤ hist.countP (fun q => decide (drawKey q = drawKey p)) then .rep
      else if 100 ≤ (apply p m).hmc then .d50m
      else if 2 ≤ (hist ++ [p]).countP (fun q => decide (drawKey q = drawKey (apply p m))) then .repm
      else .none := canClaimDraw_eq hash hist p m h1 h2

/-! ## the hypotheses are satisfiable -/

/-- `third_occurrence`: a history in which the new position (hash 2) stands at distances 4 and 8 -/
example : scanPly1 ([0, 2, 5, 6, 7, 2, 8, 9].map id) 1 2 9 false = true := by decide
example : scanPly1 ([0, 2, 5, 6, 7, 3, 8, 9].map id) 1 2 9 true = false := by decide
example : (2 : Nat) ≤ ([0, 2, 5, 6, 7, 2, 8, 9] ++ [1]).countP (fun q => decide (id q = id 2)) := by decide
/-- the start position is normalised, the witness game satisfies `LegalLine` (see `third_occurrence_witness`) -/
example : Norm wP0 := fixupEP_of_ep_none _ rfl

end Props.C11
