import TexelVerif.Search.RootLemmas
import TexelVerif.Chess.Line
/-!
# C03 — every search result is a legal, well-formed answer

The search itself is not modelled; its root bookkeeping is, with arbitrary sub-search scores and a stop after
any step.  The engine-level tie is the audit of the real binary's UCI output by the proven chess model
(`Chess.playLine`), see tools/checks/c03.py.
-/
namespace Props.C03
open Search Chess

/-- at reduced strength at least one root move is always kept, and only root moves are kept -/
theorem rootMoves_nonempty {α} (moves : List α) (pin : Nat) (incl : Nat → Bool) (h : moves ≠ []) :
    rootSubset moves pin incl ≠ [] ∧ ∀ m ∈ rootSubset moves pin incl, m ∈ moves := by
  have hl : 0 < moves.length := List.length_pos_iff.2 h
  constructor
  · intro he
    have hp : pin % moves.length ∈ includedIdx moves.length pin incl := by
      unfold includedIdx; rw [List.mem_filter]
      exact ⟨List.mem_range.2 (Nat.mod_lt _ hl), by simp⟩
    have : moves[pin % moves.length]'(Nat.mod_lt _ hl) ∈ rootSubset moves pin incl := by
      unfold rootSubset; rw [List.mem_filterMap]
      exact ⟨_, hp, List.getElem?_eq_getElem _⟩
    rw [he] at this; cases this
  · intro m hm
    unfold rootSubset at hm
    obtain ⟨i, _, hi⟩ := List.mem_filterMap.1 hm
    exact List.mem_of_getElem? hi

/-- `searchmoves` filtering keeps only moves that are both legal root moves and requested -/
theorem filter_subset {α} [DecidableEq α] (moves searchMoves : List α) (m : α) :
    m ∈ filterMoves moves searchMoves ↔ m ∈ moves ∧ m ∈ searchMoves := by
  simp [filterMoves]

/-- **the best move is always a root move**: for every run of the root loop (any scores, any stop point)
    `bestMove` and `bestExactMove` are members of the initial root move list -/
theorem best_in_root {α} (m0 : List α) (b0 : α) (hb : b0 ∈ m0) (s : RootSt α)
    (hr : Reach { moves := m0, best := b0, bestExact := b0 } s) :
    s.moves.Perm m0 ∧ s.best ∈ m0 ∧ s.bestExact ∈ m0 := by
  induction hr with
  | init => exact ⟨List.Perm.refl _, hb, hb⟩
  | step s t _ hst ih =>
    obtain ⟨hp, h1, h2⟩ := ih
    cases hst with
    | failHigh mi h => exact ⟨hp, hp.subset (List.getElem_mem h), h2⟩
    | resort ms m hp' hh =>
      have hm : m ∈ ms := List.mem_of_mem_head? hh
      have : m ∈ m0 := hp.subset (hp'.subset hm)
      exact ⟨hp'.trans hp, this, this⟩
    | sortTail ms hp' => exact ⟨hp'.trans hp, h1, h2⟩

/-- the lines of one multi-PV report are about pairwise distinct root-move indices; hence, the root move list
    having no duplicates (C01), they start with pairwise distinct moves -/
theorem multipv_distinct (score alpha : Nat → Int) (mi maxPV fuel : Nat) :
    (notifyLoop score alpha mi maxPV fuel 0 0 false).Nodup :=
  (notifyLoop_spec score alpha mi maxPV fuel 0 0 false).2

/-- `mate N` encoding: with `k` = plies until the mate is on the board (`k = MATE0 − score − 1` for a win,
    `k = MATE0 + score − 1` for a loss) the engine prints `(k+1)/2` for wins and `−(k/2)` for losses, and never
    prints a mate for a score of magnitude ≤ MATE0/2 -/
theorem mate_format (score : Int) :
    (score > 16000 → mateN score = some ((32000 - score - 1 + 1) / 2)) ∧
    (score < -16000 → mateN score = some (-((32000 + score - 1) / 2))) ∧
    (-16000 ≤ score ∧ score ≤ 16000 → mateN score = none) := by
  unfold mateN
  refine ⟨fun h => ?_, fun h => ?_, fun h => ?_⟩
  · rw [if_pos h]; congr 2; omega
  · rw [if_neg (by omega), if_pos h]
  · rw [if_neg (by omega), if_neg (by omega)]

/-- the audit's acceptor is exact: it accepts a move sequence iff it is a sequence of legal moves -/
theorem pv_audit_exact (p : Pos) (ms : List Mv) (q : Pos) : playLine p ms = some q ↔ Playable p ms q :=
  playLine_iff p ms q

-- non-vacuity
example : rootSubset [10, 20, 30] 7 (fun _ => false) = [20] := by decide
example : notifyLoop (fun i => [30, 10, 50].getD i 0) (fun _ => 0) 2 2 10 0 0 false = [2, 0] := by decide

end Props.C03
