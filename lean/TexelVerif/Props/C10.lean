import TexelVerif.Conc.QuitProgress
/-! # C10 — search control always terminates with exactly one result

Model: `Conc/Model.lean` (`step`), threads = protocol thread, engine thread (root communicator `r`)
and one helper thread per communicator of an arbitrary, dynamically changing finite tree
(`spawn` / `exit`), steps at the synchronisation points of `parallel.cpp` / `enginecontrol.cpp`.
All theorems quantify over every `n`, every root `r` and every reachable state, i.e. over all
interleavings (`Reach` = closure of `init` under all enabled events).

The inductive invariants are `G1` (tree + per-edge stop/ack debts, `StepG1*.lean`), `G2` (sticky
notifier flag, `StepG2.lean`), `G3` (engine main loop / protocol thread requests, best-move count,
`StepG3.lean`) and `G5` (`InvAux.lean`); each is proven preserved by every step. -/
namespace Conc

variable {n : Nat}

/-! ## no lost wake-up -/

/-- A helper blocked in `Notifier::wait` (flag clear) has nothing to do: its command queue is empty,
    it has no search job and owes no self-acknowledgement.  (`pc = wait` is the state in which
    `threadNotifier.wait()` has been or is about to be called; `waitRet` needs the flag.) -/
theorem no_lost_wakeup {r : Fin n} {s : St n} (h : Reach r s) (v : Fin n) (hv : s.alive v = true)
    (hpc : s.pc v = .wait) (hf : s.flag v = false) :
    s.q v = [] ∧ s.jobId v = none ∧ s.selfWait v = false := by
  have h2 := reach_G2 h
  refine ⟨h2.nq v hv (by rw [hpc]; rfl) hf, (h2.nj v hv hf).2 (Or.inr hpc), ?_⟩
  cases hsw : s.selfWait v
  · rfl
  · have := h2.ns v hv hsw; rw [hpc] at this; cases this

/-- The engine thread blocked inside the stop-ack or quit-ack collection loop has an empty queue. -/
theorem no_lost_wakeup_collect {r : Fin n} {s : St n} (h : Reach r s)
    (hpc : s.pc r = .ecwait ∨ s.pc r = .eqwait) (hf : s.flag r = false) : s.q r = [] := by
  have h2 := reach_G2 h
  apply h2.nq r (reach_G1 h).rootAlive _ hf
  rcases hpc with e | e <;> rw [e] <;> rfl

/-- The engine thread blocked in its main loop (`notifierWait()` in `EngineMainThread::mainLoop`) while the
    protocol thread is not in the middle of a request (no pending notify, no store in progress) has missed
    nothing: no quit, no search start, no pending option, and `optionsSetFinished` is set. -/
theorem no_lost_wakeup_mainloop {r : Fin n} {s : St n} (h : Reach r s) (hpc : s.pc r = .ewait) (hf : s.flag r = false)
    (hp : Out.notify r ∉ s.pOut) (hq : s.quitF.nxt = none) (hs : s.search.nxt = none) :
    s.quitF.cur = false ∧ s.search.cur = false ∧ s.pend = false ∧ s.optsFin = true := by
  have := (reach_G3 h).ne hf (by
    intro hh; rcases hh with hh | hh | hh
    · exact hp hh
    · exact hh hq
    · exact hh hs)
  rw [hpc] at this; exact this

/-! ## acknowledgement counting -/

/-- `stopAckWaitChildren` of every communicator is exactly the sum of its children's debts, and every
    child owes at most one acknowledgement.  `debt s p c` = STOP queued at or about to be sent to `c`
    + [`c` inside its round] + STOP_ACK from `c` queued at `p` or about to be sent. -/
theorem ack_counting {r : Fin n} {s : St n} (h : Reach r s) (p : Fin n) (hp : s.alive p = true) :
    s.childWait p = sumCh s p (debt s p) ∧ ∀ c, isChild s p c = true → debt s p c ≤ 1 :=
  ⟨(reach_G1 h).sum p hp, fun c hc => (reach_G1 h).le1 p c hc⟩

/-- A STOP_ACK at the head of a queue finds a positive counter (`stopAckWaitChildren--` never underflows). -/
theorem ack_no_underflow {r : Fin n} {s : St n} (h : Reach r s) (v src : Fin n) (rest : List (Cmd n))
    (hv : s.alive v = true) (hq : s.q v = Cmd.ack src :: rest) (ho : s.out v = []) : 1 ≤ s.childWait v :=
  ((reach_G1 h).ack_local rest [] hv hq ho (by intro c; simp [pStop])).1

/-- While the engine thread is outside a stop round (in particular while it searches, where the
    `Search::shouldStop` handler would silently drop it) no STOP_ACK is in its queue. -/
theorem ack_never_dropped {r : Fin n} {s : St n} (h : Reach r s) (hr : inRound s r = false) (src : Fin n) :
    Cmd.ack src ∉ s.q r := by
  intro hm
  have h1 := reach_G1 h
  have hc : isChild s r src = true := h1.qOk r _ h1.rootAlive hm
  have := (h1.idle_children hr hc).2.2.2.1
  unfold cAck at this
  rw [List.count_eq_zero] at this
  exact this hm

/-! ## quiescence when the root has all acknowledgements -/

/-- **Quiescence.** When the root communicator has all acknowledgements (`hasStopAck()`) and the engine thread is
    not inside a search (`actR`: between `sendInitSearch` and `sendStopSearch`), then
    (1) nobody in the tree is inside a stop round;
    (2) on every edge no STOP is queued or about to be sent and no STOP_ACK is queued or about to be sent;
    (3) every helper is idle: `jobId = -1`, not inside `doSearch`, no START_SEARCH queued or about to be forwarded;
    (4) no REPORT_RESULT is queued or about to be sent anywhere.
    (INIT_SEARCH, which carries no job, is not covered: see `notes/C10.md`.) -/
theorem quiescent_at_ack {r : Fin n} {s : St n} (h : Reach r s) (hr : inRound s r = false) (ha : actR s r = false) :
    (∀ v, s.alive v = true → inRound s v = false) ∧
    (∀ p c, isChild s p c = true →
      cStop (s.q c) = 0 ∧ pStop (s.out p) c = 0 ∧ cAck (s.q p) c = 0 ∧ pAck (s.out c) p c = 0) ∧
    (∀ v, s.alive v = true → v ≠ r →
      s.jobId v = none ∧ isSearch (s.pc v) = false ∧ hasStart (s.q v) = false ∧ hasPStart (s.out v) = false) ∧
    (∀ v src e j, s.alive v = true → Cmd.report src e j ∉ s.q v) ∧
    (∀ v t src e j, s.alive v = true → Out.enq t (Cmd.report src e j) ∉ s.out v) := by
  have h1 := reach_G1 h
  have hc := (reach_G6 h).idle_clean h1 (reach_G4 h) hr ha
  refine ⟨h1.quiescent hr, fun p c hc' => ?_, fun v hv hvr => ?_, hc.2.2.1, hc.2.2.2.1⟩
  · have := h1.quiescent_edge hr hc'
    exact ⟨this.1, this.2.1, this.2.2.2.1, this.2.2.2.2⟩
  · have := (reach_G4 h).idle h1 hr ha v hv hvr
    unfold act at this
    simp only [Bool.or_eq_false_iff] at this
    refine ⟨?_, this.1.1.2, this.1.2, this.2⟩
    cases hj : s.jobId v
    · rfl
    · rw [hj] at this; simp at this

/-- The engine thread in its main loop (where options are applied and from where threads are created and
    destroyed) is neither in a round nor searching, so all helpers are idle there. -/
theorem helpers_idle_in_main_loop {r : Fin n} {s : St n} (h : Reach r s) (hm : mainLoopPc (s.pc r) = true ∨ s.pc r = .epost ∨ s.pc r = .eend)
    (v : Fin n) (hv : s.alive v = true) (hvr : v ≠ r) :
    s.jobId v = none ∧ isSearch (s.pc v) = false ∧ hasStart (s.q v) = false ∧ hasPStart (s.out v) = false := by
  have h1 := reach_G1 h
  have hnr : inRound s r = false := by
    apply h1.root_not_inRound
    rcases hm with e | e | e
    · cases hp : s.pc r <;> simp [hp, mainLoopPc] at e <;> rfl
    · rw [e]; rfl
    · rw [e]; rfl
  have hna : actR s r = false := by
    unfold actR
    rcases hm with e | e | e
    · cases hp : s.pc r <;> simp [hp, mainLoopPc] at e <;> rfl
    · rw [e]; rfl
    · rw [e]; rfl
  exact (quiescent_at_ack h hnr hna).2.2.1 v hv hvr

/-- A new START reaches a helper only outside a stop round, so the purge in `doSendStartSearch` never removes
    a STOP that somebody is counting on. -/
theorem start_outside_round {r : Fin n} {s : St n} (h : Reach r s) (v : Fin n) (hv : s.alive v = true) (hvr : v ≠ r)
    (hst : hasStart (s.q v) = true ∨ hasPStart (s.out v) = true) : inRound s v = false :=
  (reach_G1 h).startRound v hv hvr hst

/-! ## results -/

/-- **Stale results are ignored / cannot exist.**  Every START_SEARCH and every REPORT_RESULT that is queued or about to be
    sent anywhere, and every job a helper is working on, carries the epoch of the current search (the epoch is incremented
    by every `go`; when it is incremented nothing tagged exists, by `quiescent_at_ack`).  In particular a REPORT_RESULT the
    engine thread finds in its queue while searching belongs to the current search, so comparing the job id (which restarts
    at 1 in every search) is enough to attribute it to the right job. -/
theorem stale_results_ignored {r : Fin n} {s : St n} (h : Reach r s) :
    (∀ v src e j, s.alive v = true → Cmd.report src e j ∈ s.q v → e = s.epoch) ∧
    (∀ v t src e j, s.alive v = true → Out.enq t (Cmd.report src e j) ∈ s.out v → e = s.epoch) ∧
    (∀ v e j, s.alive v = true → Cmd.start e j ∈ s.q v → e = s.epoch) ∧
    (∀ v t e j, s.alive v = true → Out.enq t (Cmd.start e j) ∈ s.out v → e = s.epoch) ∧
    (∀ v, s.alive v = true → v ≠ r → s.jobId v ≠ none → s.jobEp v = s.epoch) :=
  ⟨(reach_G6 h).e3, (reach_G6 h).e4, (reach_G6 h).e1, (reach_G6 h).e2, (reach_G6 h).e5⟩

/-- a helper forwards a REPORT_RESULT to its parent only if it has not reported for its current job yet and the job id
    is its current one (handler guard; the acceptor checks every `RESULT_FWD / RESULT_DROP / RESULT_USED` against it) -/
theorem report_forward_guard (s : St n) (v src : Fin n) (e j : Nat) :
    (handleW s v (.report src e j)).out v ≠ s.out v → s.hasResult v = false ∧ s.jobId v = some j := by
  intro hne
  simp only [handleW] at hne
  split at hne
  · rename_i hg; exact hg
  · exact absurd rfl hne

/-- in a queue no REPORT_RESULT of a child follows a STOP_ACK of the same child (FIFO per sender) -/
theorem report_before_ack {r : Fin n} {s : St n} (h : Reach r s) (p : Fin n) (hp : s.alive p = true) : okOrder (s.q p) = true :=
  (reach_G6 h).ord p hp

/-! ## exactly one best move per `go` -/

/-- Best moves are counted one per `go`: `goCount` (incremented when the protocol thread sets `search`)
    equals `bmCount` (incremented by `finishSearch`) plus one exactly while a search has been requested
    and `finishSearch` has not run yet. -/
theorem one_bestmove {r : Fin n} {s : St n} (h : Reach r s) :
    s.goCount = s.bmCount + (if s.search.active && !postBest (s.pc r) then 1 else 0) :=
  (reach_G3 h).b1

/-- When the engine thread executes `search = false` every `go` so far has got its best move. -/
theorem all_answered_at_search_end {r : Fin n} {s : St n} (h : Reach r s) (hpc : s.pc r = .eend) : s.goCount = s.bmCount := by
  have := one_bestmove h
  rw [hpc] at this
  simpa [postBest] using this

/-- `finishSearch` runs only for a requested search: at the `bestmove` point the search flag is (being) set. -/
theorem bestmove_only_for_go {r : Fin n} {s : St n} (h : Reach r s) (ws : Bool) (hpc : s.pc r = .ebest ws) :
    s.search.active = true :=
  (reach_G3 h).s1 (by rw [hpc]; rfl)

/-- The engine thread idle in its main loop with no request in progress: every `go` is answered. -/
theorem idle_all_answered {r : Fin n} {s : St n} (h : Reach r s) (hpc : s.pc r = .ewait) (hf : s.flag r = false)
    (hp : Out.notify r ∉ s.pOut) (hq : s.quitF.nxt = none) (hs : s.search.nxt = none) : s.goCount = s.bmCount := by
  have hi := no_lost_wakeup_mainloop h hpc hf hp hq hs
  have := one_bestmove h
  simpa [Reg.active, hi.2.1, hs] using this

/-! ## progress -/

/-- If every thread is blocked (inside `Notifier::wait` with the flag clear, or terminated, nothing pending),
    the engine thread is not inside the stop-ack collection loop: a stop round cannot get stuck. -/
theorem no_deadlock_stop {r : Fin n} {s : St n} (h : Reach r s) (hall : ∀ v, s.alive v = true → Blocked s v) :
    s.pc r ≠ .ecwait :=
  collect_not_stuck h hall

/-- A thread that is not blocked has an enabled step of its own. -/
theorem no_deadlock_enabled {r : Fin n} {s : St n} (h : Reach r s) (v : Fin n) (hv : s.alive v = true)
    (hnb : ¬ Blocked s v) (hwin : s.search.nxt = none ∧ s.quitF.nxt = none) :
    ∃ e, Own r v e ∧ (step r s e).isSome = true :=
  thread_enabled (reach_G1 h) (reach_G5 h) v hv hnb hwin

/-- If every thread is blocked, the engine thread is not inside the quit-ack collection loop either
    (`quitAckWaitChildren` = number of outstanding QUIT_ACKs, invariant `G8`). -/
theorem no_deadlock_quit {r : Fin n} {s : St n} (h : Reach r s) (hall : ∀ v, s.alive v = true → Blocked s v) :
    s.pc r ≠ .eqwait :=
  quit_not_stuck h hall

/-- **No deadlock.**  In a reachable state in which no thread can move (every thread blocked in `Notifier::wait` with
    its flag clear, or terminated, nothing pending) and the protocol thread is not in the middle of a request, the engine
    thread is idle in its main loop with every `go` answered and no request pending, or it has terminated after `quit`.
    Together with `no_deadlock_enabled` (a thread that is not blocked has an enabled step of its own): every reachable
    non-final state has an enabled step of a non-waiting thread. -/
theorem no_deadlock {r : Fin n} {s : St n} (h : Reach r s) (hall : ∀ v, s.alive v = true → Blocked s v)
    (hp : Out.notify r ∉ s.pOut) (hq : s.quitF.nxt = none) (hs : s.search.nxt = none) :
    (s.pc r = .ewait ∧ s.quitF.cur = false ∧ s.search.cur = false ∧ s.pend = false ∧ s.optsFin = true ∧ s.goCount = s.bmCount)
    ∨ s.pc r = .edone := by
  have h1 := reach_G1 h
  have hb := hall r h1.rootAlive
  have hne := collect_not_stuck h hall
  have hnq := quit_not_stuck h hall
  rcases hb.2 with ⟨hw, hf⟩ | hd | hd | hd
  · cases hpc : s.pc r <;> simp [hpc, isWaitPc] at hw
    · have := (h1.pcKind r h1.rootAlive).2 rfl; rw [hpc] at this; cases this
    · left
      have hi := no_lost_wakeup_mainloop h hpc hf hp hq hs
      exact ⟨rfl, hi.1, hi.2.1, hi.2.2.1, hi.2.2.2, idle_all_answered h hpc hf hp hq hs⟩
    · exact absurd hpc hne
    · exact absurd hpc hnq
  · have := (h1.pcKind r h1.rootAlive).2 rfl; rw [hd] at this; cases this
  · right; exact hd
  · have := (h1.pcKind r h1.rootAlive).2 rfl; rw [hd] at this; cases this

/-! ## the hypotheses are satisfiable: a concrete run -/

/-- engine + two helpers in a chain; a search is started, stopped and fully acknowledged -/
def demoRun : List (Ev 3) :=
  [ .spawn 1 0, .spawn 2 1,
    .pWr .search true, .pWd .search, .pNotify 0,
    .waitRet 0, .eRdPre .quit, .eRd .quit false, .eOpts false, .eRdPre .search, .eRd .search true,
    .eBegin, .eInit, .send 0 (.enq 1 .init), .eJobNext, .send 0 (.enq 1 (.start 1 1)),
    .waitRet 1, .deq 1, .send 1 (.enq 2 .init), .deq 1, .send 1 (.enq 2 (.start 1 1)), .pollEmpty 1,
    .eSearchDone, .eRdPre .hold, .eHoldDone, .eBest, .eStopSend, .send 0 (.notify 0), .send 0 (.enq 1 .stop), .ackSelf 0,
    .deq 1, .send 1 (.notify 1), .send 1 (.enq 2 .stop), .searchLeave 1 false, .ackSelf 1,
    .waitRet 2, .deq 2, .deq 2, .send 2 (.notify 2), .pollEmpty 2, .ackSelf 2, .send 2 (.enq 1 (.ack 2)),
    .waitRet 1, .deq 1, .send 1 (.enq 0 (.ack 1)),
    .deq 0, .pollEmpty 0, .send 0 (.notify 0), .eOpts false, .eSearchEnd ]

example : (match run (0 : Fin 3) (init 0) demoRun with
           | .ok s => s.goCount == 1 && s.bmCount == 1 && s.pc 0 == .ewait && !inRound s 0 && s.q 1 == [] && s.q 2 == []
           | .error _ => false) = true := by decide

end Conc
