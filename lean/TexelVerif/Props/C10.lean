import TexelVerif.Conc.Model
/-! C10 property theorems (placeholder while the proofs are being written). -/
namespace Conc
theorem init_reach {n : Nat} (r : Fin n) : Reach r (init r) := Reach.init
end Conc
