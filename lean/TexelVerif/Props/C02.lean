import TexelVerif.PosImpl.History
import TexelVerif.PosImpl.Serial
import TexelVerif.PosImpl.MatId
import TexelVerif.Chess.FenRT
import TexelVerif.Drv.Pos
/-!
# C02 — position state survives any make/unmake history intact

Model: `PosImpl/Model.lean` (every field of `PositionBase` except `pieceTypeBB_[EMPTY]`; Zobrist tables, piece
values and MatId weights are parameters).  `Inv T s` says that every redundant field of `s` equals its
from-scratch recomputation `fresh T (abs s)`; `abs s : Chess.Pos` is the essential state.  `EpOk p` says that the
e.p. flag is meaningful (square empty, the double-stepped pawn behind it) — `readFEN` enforces it, `makeMove`
re-establishes it.  Moves are quantified over *pseudo-legal* moves of the specification (`Chess.pseudo`), a
superset of the legal ones.
-/
namespace Props.C02
open Chess PosImpl

private theorem eq_x0 (T : Tables) (s : PosImpl) (h : PosImpl.Inv T s) : s = xorHash (fresh T (abs s)) 0 := by
  rw [xorHash_zero]; exact h

theorem fresh_inv (T : Tables) (p : Pos) : PosImpl.Inv T (fresh T p) := by
  unfold PosImpl.Inv; rfl

private theorem inv_x0 (T : Tables) (p : Pos) : PosImpl.Inv T (xorHash (fresh T p) 0) ∧ abs (xorHash (fresh T p) 0) = p := by
  rw [xorHash_zero]; exact ⟨fresh_inv T p, rfl⟩

/-! ## the primitives keep the invariant and do to the essential state what their name says -/

theorem setPiece_inv (T : Tables) (s : PosImpl) (sq : Nat) (pc : Pc) (h : PosImpl.Inv T s) (hs : sq < 64) :
    PosImpl.Inv T (setPiece T s sq pc) ∧ abs (setPiece T s sq pc) = { abs s with b := setSq (abs s).b sq pc } := by
  rw [eq_x0 T s h, setPiece_fresh T _ 0 sq pc hs]
  exact inv_x0 T _

theorem clearPiece_inv (T : Tables) (s : PosImpl) (sq : Nat) (h : PosImpl.Inv T s) (hs : sq < 64) :
    PosImpl.Inv T (clearPiece T s sq) ∧ abs (clearPiece T s sq) = { abs s with b := setSq (abs s).b sq 0 } := by
  rw [eq_x0 T s h, clearPiece_fresh T _ 0 sq hs]
  exact inv_x0 T _

/-- `movePieceNotPawn` under its calling convention: a non-empty non-pawn piece on `f`, `t` empty -/
theorem movePieceNotPawn_inv (T : Tables) (s : PosImpl) (f t : Nat) (h : PosImpl.Inv T s) (ok : MoveOkAt s.squares f t) :
    PosImpl.Inv T (movePieceNotPawn T s f t) ∧
    abs (movePieceNotPawn T s f t) = { abs s with b := setSq (setSq (abs s).b f 0) t (getP (abs s).b f) } := by
  rw [eq_x0 T s h, move_fresh T _ 0 f t ok]
  exact inv_x0 T _

theorem setEpSquare_inv (T : Tables) (s : PosImpl) (e : Option Sq) (h : PosImpl.Inv T s) :
    PosImpl.Inv T (setEpSquare T s e) ∧ abs (setEpSquare T s e) = { abs s with ep := e } := by
  rw [eq_x0 T s h, setEpSquare_fresh]
  exact inv_x0 T _

theorem setCastleMask_inv (T : Tables) (s : PosImpl) (cm : UInt8) (h : PosImpl.Inv T s) :
    PosImpl.Inv T (setCastleMask T s cm) ∧ abs (setCastleMask T s cm) = { abs s with castle := cm } := by
  rw [eq_x0 T s h, setCastleMask_fresh]
  exact inv_x0 T _

theorem setWhiteMove_inv (T : Tables) (s : PosImpl) (w : Bool) (h : PosImpl.Inv T s) :
    PosImpl.Inv T (setWhiteMove T s w) ∧ abs (setWhiteMove T s w) = { abs s with wtm := w } := by
  rw [eq_x0 T s h, setWhiteMove_fresh]
  exact inv_x0 T _

/-! ## makeMove / unMakeMove -/

private theorem make_eq (T : Tables) (s : PosImpl) (h : PosImpl.Inv T s) (he : EpOk (abs s)) (m : Mv)
    (hm : pseudo (abs s) m = true) :
    makeMove T s m = (fresh T (Chess.apply (abs s) m), uiOf (abs s) m) := by
  have e : makeMove T s m = makeMove T (fresh T (abs s)) m := by rw [← h]
  rw [e, makeMove_fresh_C T (abs s) m (makeOk_of_pseudo _ m hm he), makeC_eq_apply _ m hm he]

/-- `makeMove` keeps every redundant field right (and the e.p. flag meaningful) -/
theorem makeMove_inv (T : Tables) (s : PosImpl) (h : PosImpl.Inv T s) (he : EpOk (abs s)) (m : Mv)
    (hm : pseudo (abs s) m = true) : PosImpl.Inv T (makeMove T s m).1 ∧ EpOk (abs (makeMove T s m).1) := by
  rw [make_eq T s h he m hm]
  refine ⟨fresh_inv T _, ?_⟩
  show EpOk (Chess.apply (abs s) m)
  rw [← makeC_eq_apply _ m hm he]
  exact epOk_makeC _ m hm

/-- `makeMove` plays the move of the rules of chess on the essential state — board, side, castling rights,
    e.p. square (Texel's convention: set only when an enemy pawn stands beside the pawn), both counters -/
theorem makeMove_refines (T : Tables) (s : PosImpl) (h : PosImpl.Inv T s) (he : EpOk (abs s)) (m : Mv)
    (hm : pseudo (abs s) m = true) : abs (makeMove T s m).1 = Chess.apply (abs s) m := by
  rw [make_eq T s h he m hm]; rfl

/-- `unMakeMove` after `makeMove` restores the position **bit for bit** (every field) -/
theorem unMake_make (T : Tables) (s : PosImpl) (h : PosImpl.Inv T s) (he : EpOk (abs s)) (m : Mv)
    (hm : pseudo (abs s) m = true) : unMakeMove T (makeMove T s m).1 m (makeMove T s m).2 = s := by
  rw [make_eq T s h he m hm]
  show unMakeMove T (fresh T (Chess.apply (abs s) m)) m (uiOf (abs s) m) = s
  rw [← makeC_eq_apply _ m hm he]
  obtain ⟨ok, hr⟩ := unmake_make_C (abs s) m hm he
  rw [unMakeMove_fresh_C T _ m _ ok, hr]
  exact h.symm

/-! ## null-move edit -/

private theorem null_eq (T : Tables) (s : PosImpl) (h : PosImpl.Inv T s) :
    nullEdit T s = (fresh T { abs s with wtm := !(abs s).wtm, ep := none, hmc := 0 }, ((abs s).ep, (abs s).hmc)) := by
  have e : nullEdit T s = nullEdit T (xorHash (fresh T (abs s)) 0) := by rw [← eq_x0 T s h]
  rw [e]
  unfold nullEdit
  simp only [f_whiteMove, setWhiteMove_fresh, f_epSquare, setEpSquare_fresh, f_hmc, setHalfMoveClock_fresh]
  rw [xorHash_zero]

theorem nullEdit_inv (T : Tables) (s : PosImpl) (h : PosImpl.Inv T s) :
    PosImpl.Inv T (nullEdit T s).1 ∧ EpOk (abs (nullEdit T s).1) ∧
    abs (nullEdit T s).1 = { abs s with wtm := !(abs s).wtm, ep := none, hmc := 0 } := by
  rw [null_eq T s h]
  refine ⟨fresh_inv T _, ?_, rfl⟩
  intro e he; cases he

theorem nullUndo_nullEdit (T : Tables) (s : PosImpl) (h : PosImpl.Inv T s) : nullUndo T (nullEdit T s).1 (nullEdit T s).2 = s := by
  rw [null_eq T s h]
  simp only []
  rw [← xorHash_zero (fresh T _)]
  unfold nullUndo
  simp only [setEpSquare_fresh, f_whiteMove, setWhiteMove_fresh, setHalfMoveClock_fresh]
  rw [xorHash_zero]
  have : ({ b := (abs s).b, wtm := !(!(abs s).wtm), castle := (abs s).castle, ep := (abs s).ep, hmc := (abs s).hmc,
            fmc := (abs s).fmc } : Pos) = abs s := by
    cases hw : (abs s).wtm <;> (apply pos_ext <;> simp [hw])
  rw [this]; exact h.symm

/-! ## histories -/

theorem step_good (T : Tables) (c c' : Cfg) (op : Op) (hg : Good T c.cur c.stack c.saved) (hs : step T c op = some c') :
    Good T c'.cur c'.stack c'.saved := by
  obtain ⟨cur, stack, saved⟩ := c
  simp only [] at hg
  have hw : WFI T cur := by cases hg <;> assumption
  cases op with
  | mk m =>
    simp only [step] at hs
    split at hs
    · rename_i hm
      cases hs
      have hi := makeMove_inv T cur hw.1 hw.2 m hm
      exact Good.cons _ _ _ _ _ ⟨hi.1, hi.2⟩ (unMake_make T cur hw.1 hw.2 m hm) hg
    · cases hs
  | null =>
    simp only [step] at hs
    cases hs
    have hi := nullEdit_inv T cur hw.1
    exact Good.cons _ _ _ _ _ ⟨hi.1, hi.2.1⟩ (nullUndo_nullEdit T cur hw.1) hg
  | undo =>
    simp only [step] at hs
    cases hg with
    | nil s h0 => simp at hs
    | cons s f st s' sv h0 hu hr =>
      simp only [] at hs
      cases hs
      simp only []
      rw [hu]; exact hr
  | copy =>
    simp only [step] at hs
    cases hs
    exact hg

/-- **any history**: along every valid sequence of make / take-back / null-move edit / copy operations from a
    well-formed state the invariant holds, and every pending operation, when taken back, yields exactly the
    state saved before it -/
theorem history_inv (T : Tables) (ops : List Op) (c c' : Cfg) (hg : Good T c.cur c.stack c.saved)
    (hr : run T c ops = some c') : Good T c'.cur c'.stack c'.saved := by
  induction ops generalizing c with
  | nil => simp only [run] at hr; cases hr; exact hg
  | cons op ops ih =>
    simp only [run] at hr
    cases hs : step T c op with
    | none => rw [hs] at hr; cases hr
    | some c1 =>
      rw [hs] at hr
      exact ih c1 (step_good T c c1 op hg hs) hr

/-- in particular every redundant field is right after any history from a well-formed start -/
theorem history_state_inv (T : Tables) (s₀ : PosImpl) (h0 : PosImpl.Inv T s₀) (he : EpOk (abs s₀)) (ops : List Op) (c' : Cfg)
    (hr : run T { cur := s₀, stack := [], saved := [] } ops = some c') : PosImpl.Inv T c'.cur ∧ EpOk (abs c'.cur) := by
  have := history_inv T ops _ c' (Good.nil s₀ ⟨h0, he⟩) hr
  obtain ⟨cur, stack, saved⟩ := c'
  simp only [] at this ⊢
  have hw : WFI T cur := by cases this <;> assumption
  exact hw

/-- …and a take-back returns the saved copy, bit for bit -/
theorem history_takeback (T : Tables) (s : PosImpl) (f : Frame) (st : List Frame) (s' : PosImpl) (sv : List PosImpl)
    (hg : Good T s (f :: st) (s' :: sv)) :
    step T { cur := s, stack := f :: st, saved := s' :: sv } .undo = some { cur := s', stack := st, saved := sv } := by
  cases hg with
  | cons _ _ _ _ _ _ hu _ => simp only [step]; rw [hu]

/-- king squares (derived from the king bitboards) are the first square holding the king -/
theorem kingSq_inv (T : Tables) (s : PosImpl) (h : PosImpl.Inv T s) :
    s.wKingSq = (List.range 64).find? (fun i => getP s.squares i == WKING) ∧
    s.bKingSq = (List.range 64).find? (fun i => getP s.squares i == BKING) := kingSq_spec T s h

/-- every position the FEN reader accepts is a well-formed start of a history: the state built from it satisfies
    the invariant and its e.p. flag is meaningful -/
theorem accepted_start_good (T : Tables) (fen : String) (p : Pos) (h : readFEN fen = .ok p) :
    Good T (fresh T p) [] [] := by
  refine Good.nil _ ⟨fresh_inv T p, ?_⟩
  show EpOk p
  intro e he
  have hp := readFEN_epPlausible fen p h e he
  unfold epPlausible at hp
  cases hw : p.wtm
  · rw [hw] at hp
    simp only [Bool.false_eq_true, if_false] at hp ⊢
    refine ⟨?_, hp.2.2⟩
    rw [getP_eq _ _ e.isLt]; exact hp.2.1
  · rw [hw] at hp
    simp only [if_true] at hp ⊢
    refine ⟨?_, hp.2.2⟩
    rw [getP_eq _ _ e.isLt]; exact hp.2.1

/-! ## equal positions have equal keys -/

/-- positions that are equal under the repetition rule (`drawRuleEquals`) have the same hash key, pawn hash key,
    material id, bitboards and material sums -/
theorem hash_congr (T : Tables) (s t : PosImpl) (hs : PosImpl.Inv T s) (ht : PosImpl.Inv T t) (h : drawRuleEq (abs s) (abs t)) :
    s.hashKey = t.hashKey ∧ s.pHashKey = t.pHashKey ∧ s.matId = t.matId ∧ s.bb = t.bb ∧
    s.whiteBB = t.whiteBB ∧ s.blackBB = t.blackBB ∧ s.wMtrl = t.wMtrl ∧ s.bMtrl = t.bMtrl := by
  obtain ⟨h1, h2, h3, h4⟩ := h
  rw [hs, ht]
  simp only [fresh, freshHash, h1, h2, h3, h4, true_and]

/-! ## compact serialisation (position.cpp:420-499)

The field widths are the side conditions: piece codes < 16, castle mask < 16, `halfMoveClock < 256`,
`fullMoveCounter < 65536`; the e.p. square needs none (-1 ↦ 0xff ↦ -1). -/

theorem decode_serialize (s : PosImpl) (hp : ∀ i : Fin 64, s.squares[i] < 16) (hc : s.castleMask < 16)
    (hh : s.halfMoveClock < 256) (hf : s.fullMoveCounter < 65536) : decode (serialize s) = abs s :=
  PosImpl.decode_serialize s hp hc hh hf

/-- a serialised position read back is identical (every field) -/
theorem deSerialize_serialize (T : Tables) (s : PosImpl) (hI : PosImpl.Inv T s) (hp : ∀ i : Fin 64, s.squares[i] < 16)
    (hc : s.castleMask < 16) (hh : s.halfMoveClock < 256) (hf : s.fullMoveCounter < 65536) :
    deSerialize T (serialize s) = s :=
  PosImpl.deSerialize_serialize T s hI hp hc hh hf

/-- the five words fit 64 bits (so the `Nat` model of the `U64` words loses nothing) -/
theorem serialize_words_lt (s : PosImpl) (hp : ∀ i : Fin 64, s.squares[i] < 16) (hc : s.castleMask < 16)
    (hh : s.halfMoveClock < 256) (hf : s.fullMoveCounter < 65536) : ∀ w ∈ serialize s, w < 2 ^ 64 :=
  PosImpl.serialize_lt s hp hc hh hf

/-- the width conditions are necessary: `halfMoveClock = 256` is read back as 0 … -/
theorem serialize_hmc_witness :
    PosImpl.Inv T0 (witness 256 1) ∧ (witness 256 1).halfMoveClock = 256 ∧
    deSerialize T0 (serialize (witness 256 1)) ≠ witness 256 1 :=
  ⟨witness_inv_hmc, rfl, deSerialize_hmc_witness⟩

/-- … and `fullMoveCounter = 65536` is read back as 0 -/
theorem serialize_fmc_witness :
    PosImpl.Inv T0 (witness 0 65536) ∧ (witness 0 65536).fullMoveCounter = 65536 ∧
    deSerialize T0 (serialize (witness 0 65536)) ≠ witness 0 65536 :=
  ⟨witness_inv_fmc, rfl, deSerialize_fmc_witness⟩

/-! ## FEN (textio.cpp:34-266) -/

/-- a position that the reader accepts and normalises to, written as FEN and read back, is identical -/
theorem readFEN_toFEN (p : Pos) (h : WFfen p) : readFEN (toFEN p) = .ok p := Chess.readFEN_toFEN p h

/-- without the e.p. normalisation (positions produced by raw `makeMove`): identical up to the reader's
    e.p. fix-up `fixupEP` (an e.p. square is kept only if an e.p. capture is legal) -/
theorem readFEN_toFEN_general (p : Pos) (h : WFfenPre p) : readFEN (toFEN p) = .ok (fixupEP p) :=
  Chess.readFEN_toFEN_fixup p h

/-! ## material identifier

`matIdNat c` is the mathematically exact sum of the `MatId` weights for piece counts `c`; `PromoConsistent c`
= counts that legal play can produce (extra pieces come from promoted pawns; up to 9 queens per side). -/

/-- **defect of the original code**: with six black queens the exact identifier does not fit a signed 32-bit
    `int`, so `MatId::hash += …` overflowed (undefined behaviour) -/
theorem matId_overflow_witness : ∃ c, PromoConsistent c ∧ matIdNat c ≥ 2 ^ 31 := PosImpl.matId_overflow_witness

/-- the original signed arithmetic step by step: the sixth black queen overflows -/
theorem matId_old_six_black_queens :
    ((((((some 0 : Option Int).bind (MatIdOld.addPiece · BQUEEN)).bind (MatIdOld.addPiece · BQUEEN)).bind
      (MatIdOld.addPiece · BQUEEN)).bind (MatIdOld.addPiece · BQUEEN)).bind (MatIdOld.addPiece · BQUEEN)) = some 1934295040 ∧
    MatIdOld.addPiece 1934295040 BQUEEN = none := MatIdOld.six_black_queens

/-- **second defect**: `Evaluate::materialScore` computed `(id >> 16) * 40507 + id` in signed `int`; four black
    queens already overflow it -/
theorem matKey_overflow_witness : ∃ c, PromoConsistent c ∧ matIdNat c < 2 ^ 31 ∧ keyNat (matIdNat c) ≥ 2 ^ 31 :=
  PosImpl.matKey_overflow_witness

/-- repaired (unsigned) arithmetic: both 16-bit halves stay in range, so the 32-bit sum never wraps … -/
theorem matId_in_uint32 (c : Counts) (h : PromoConsistent c) :
    whiteHalf c < 65536 ∧ blackHalf c < 65536 ∧ matIdNat c < 2 ^ 32 ∧ (BitVec.ofNat 32 (matIdNat c)).toNat = matIdNat c :=
  ⟨(half_lt c h).1, (half_lt c h).2, matId_lt c h, matId_toNat c h⟩

/-- … and the identifier is unique per material configuration that legal play can produce -/
theorem matId_injective (c₁ c₂ : Counts) (h₁ : PromoConsistent c₁) (h₂ : PromoConsistent c₂)
    (h : matIdNat c₁ = matIdNat c₂) : c₁ = c₂ := PosImpl.matId_injective c₁ c₂ h₁ h₂ h

/-- the weight table checked against `MatId::materialId[]` by the tie (`pos matw`) is the one of these theorems -/
theorem matWeights_eq : Drv.Pos.matWeights = (List.range 13).map (fun i => matW i.toUInt8) := by decide

/-- the model's `matId` field with the real weight table is that identifier (as a 32-bit value) -/
theorem matId_model (T : Tables) (hT : T.mat = matTable) (s : PosImpl) (h : PosImpl.Inv T s) :
    s.matId = BitVec.ofNat 32 (matIdNat (countsOf s.squares)) := by
  rw [h]
  show sum32 (fun sq => T.mat (getP s.squares sq)) = _
  rw [hT]; exact sum32_matTable s.squares

/-! ## the hypotheses are satisfiable -/

/-- a tiny position: bare kings, white to move; the king move a1-a2 is pseudo-legal, the e.p. condition holds -/
example : let p : Pos := { b := (Vector.replicate 64 0 |>.set 0 WKING |>.set 63 BKING), wtm := true, castle := 0, ep := none, hmc := 0, fmc := 1 }
    pseudo p ⟨0, 8, 0⟩ = true ∧ EpOk p := by decide
example (T : Tables) (p : Pos) : PosImpl.Inv T (fresh T p) := fresh_inv T p
example : PromoConsistent { wq := 9, wr := 2, wb := 2, wn := 2, wp := 0, bq := 9, br := 2, bb := 2, bn := 2, bp := 0 } := by decide
example : WFfen fenStartPos := WFfen_start

end Props.C02
