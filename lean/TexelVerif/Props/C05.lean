import TexelVerif.Uci.Impl
/-!
# C05 — UCI session contract

`Uci.accepts` is the executable contract; the theorems say what acceptance means in the property's own words.
The tie is the acceptance of the real (ASan/UBSan) binary's timelines for generated command scripts
(tools/checks/c05.py).  The protocol/engine thread interplay that produces the timelines is modelled in `Conc/`
(property C10); here only the command dispatch is (partial).
-/
namespace Props.C05
open Uci

private theorem run_append (s : St) (a b : List Ev) : run s (a ++ b) = (run s a).bind fun s' => run s' b := by
  induction a generalizing s with
  | nil => simp [run]
  | cons e es ih =>
    simp only [List.cons_append, run]
    cases step s e with
    | none => simp
    | some s' => simpa using ih s'

/-- bookkeeping invariant: what is owed equals what was asked minus what was delivered, at every prefix -/
theorem owed_counts (tr : List Ev) (s : St) (h : run {} tr = some s) :
    s.goOwed + countOut .bestmove tr = countIn isGo tr ∧
    s.readyOwed + countOut .readyok tr = countIn (· == .isready) tr ∧
    s.uciOwed + countOut .uciok tr = countIn (· == .uci) tr := by
  suffices H : ∀ (tr : List Ev) (s0 s : St), run s0 tr = some s →
      s.goOwed + countOut .bestmove tr = s0.goOwed + countIn isGo tr ∧
      s.readyOwed + countOut .readyok tr = s0.readyOwed + countIn (· == .isready) tr ∧
      s.uciOwed + countOut .uciok tr = s0.uciOwed + countIn (· == .uci) tr by
    simpa using H tr {} s h
  intro tr
  induction tr with
  | nil => intro s0 s h; simp only [run, Option.some.injEq] at h; subst h; simp [countOut, countIn]
  | cons e es ih =>
    intro s0 s h
    simp only [run] at h
    cases hs : step s0 e with
    | none => rw [hs] at h; cases h
    | some s1 =>
      rw [hs] at h
      obtain ⟨i1, i2, i3⟩ := ih s1 s h
      cases e with
      | inp c =>
        cases c <;> simp only [step, Option.some.injEq] at hs <;> subst hs <;>
          simp [countOut, countIn, isGo] at i1 i2 i3 ⊢ <;> omega
      | out o =>
        cases o <;> simp only [step] at hs <;> (try split at hs) <;> (try split at hs) <;> (try split at hs) <;>
          simp only [Option.some.injEq, reduceCtorEq] at hs <;> (try subst hs) <;>
          simp [countOut, countIn, isGo] at i1 i2 i3 ⊢ <;> omega

/-- **exactly one `bestmove` per `go`, one `readyok` per `isready`, one `uciok` per `uci`** in every accepted complete session -/
theorem accepted_counts (tr : List Ev) (h : accepts tr = true) :
    countOut .bestmove tr = countIn isGo tr ∧ countOut .readyok tr = countIn (· == .isready) tr ∧
    countOut .uciok tr = countIn (· == .uci) tr := by
  unfold accepts at h
  cases hr : run {} tr with
  | none => rw [hr] at h; cases h
  | some s =>
    rw [hr] at h
    simp only [Bool.and_eq_true, beq_iff_eq] at h
    obtain ⟨⟨h1, h2⟩, h3⟩ := h
    have := owed_counts tr s hr
    omega

/-- **no search output after a `bestmove` until the next `go`**: at every `info` line of an accepted session strictly
    more searches have been started than best moves delivered -/
theorem info_only_during_search (pre post : List Ev) (h : (run {} (pre ++ Ev.out .info :: post)).isSome = true) :
    countOut .bestmove pre < countIn isGo pre := by
  rw [run_append] at h
  cases hp : run {} pre with
  | none => rw [hp] at h; simp at h
  | some s =>
    rw [hp] at h
    have := (owed_counts pre s hp).1
    by_cases hg : s.goOwed > 0
    · omega
    · simp [run, step, hg] at h

/-- **a held search is not answered early**: when a `bestmove` arrives and only one search is outstanding, that search is
    neither an unreleased ponder search nor an unreleased infinite search -/
theorem held_not_answered (pre post : List Ev) (s : St) (hp : run {} pre = some s)
    (h : (run {} (pre ++ Ev.out .bestmove :: post)).isSome = true) :
    s.goOwed ≥ 1 ∧ (s.goOwed = 1 → s.held = false) := by
  rw [run_append, hp] at h
  by_cases h0 : s.goOwed = 0
  · simp [run, step, h0] at h
  · by_cases h1 : s.goOwed = 1 ∧ s.held = true
    · simp [run, step, h0, h1] at h
    · refine ⟨by omega, fun h1' => ?_⟩
      cases hh : s.held with
      | false => rfl
      | true => exact absurd ⟨h1', hh⟩ h1

/-- the repaired command dispatch never dereferences a null engine object, for every command sequence -/
theorem impl_no_crash (cs : List Cmd) (e : Bool) : ∃ e', runCmds true e cs = .ok e' := by
  induction cs generalizing e with
  | nil => exact ⟨e, rfl⟩
  | cons c cs ih =>
    cases c <;> simp only [runCmds, dispatch, Bool.or_true, if_true] <;> exact ih _

/-- the pinned commit crashes on the one-command session `ponderhit` -/
theorem ponderhit_crash_witness : runCmds false false [.ponderhit] = .crash := by decide

-- non-vacuity: a typical session is accepted
example : accepts [.inp .uci, .out .idOrOption, .out .uciok, .inp .isready, .out .readyok, .inp .other,
                   .inp (.go false true), .out .info, .inp .stop, .out .info, .out .bestmove, .inp .quit] = true := by decide
example : accepts [.inp (.go false true), .out .bestmove] = false := by decide

end Props.C05
