import TexelVerif.Chess.SpecLemmas
import TexelVerif.Chess.KingRay
import TexelVerif.Chess.TexelGenEvade
import TexelVerif.Chess.TexelGenGivesCastle
import TexelVerif.Chess.TexelGenCC4
/-!
# C01 — generated legal moves are exactly the legal moves of chess

The specification (`Chess/Spec.lean`) is the trusted text.  The theorems here say (1) the legal-move oracle
is exactly the legality predicate, and (2) the acceptor that is run over the real generator's output on every
position (`Chess.genCheck`) is sound: whenever it accepts, the implementation's lists and verdicts for that
position have every property C01 asks for.  What ties this to the C++ is the per-position run of the acceptor
(tools/checks/c01.py) plus the exhaustive comparison of the attack tables with the ray-walk definition.
-/
namespace Props.C01
open Chess

/-- the oracle lists exactly the moves satisfying the legality predicate -/
theorem genLegal_iff (p : Pos) (m : Mv) : m ∈ genLegal p ↔ legalB p m = true := mem_genLegal p m

/-- …and the pseudo-legal oracle exactly the moves satisfying the movement rules -/
theorem genPseudo_iff (p : Pos) (m : Mv) : m ∈ genPseudo p ↔ pseudo p m = true := mem_genPseudo p m

/-- a legal move never leaves the mover's king attacked, and obeys the movement rules -/
theorem legal_safe (p : Pos) (m : Mv) (h : legalB p m = true) :
    pseudo p m = true ∧ inCheck (apply p m).b p.wtm = false := by
  unfold legalB at h; simpa using h

private theorem all_of_genCheck_none (p : Pos) (d : GenData) (h : genCheck p d = none) :
    chkInCheck p d = true ∧ chkLengths d = true ∧ chkNodup d = true ∧ chkPseudoSound p d = true ∧
    chkPseudoComplete p d = true ∧ chkLegalSound p d = true ∧ chkLegalComplete (genLegal p) d = true ∧
    chkGives p d = true ∧ chkEvasions (genLegal p) d = true ∧ chkCaps p (genLegal p) d = true ∧
    chkCC p (genLegal p) d = true := by
  unfold genCheck at h
  simp only at h
  repeat' (split at h; · simp at h)
  simp_all

/-- **Soundness of the acceptor.**  If `genCheck` accepts the implementation's data for position `p` then:
    the in-check verdict is right; the pseudo-legal list and the list after `removeIllegal` have no duplicates;
    the pseudo-legal list is exactly the set of pseudo-legal moves; the moves accepted by `isLegal`, and the
    list after `removeIllegal`, are exactly the legal moves; `givesCheck` agrees with playing the move for every
    legal move; when in check the evasion list omits no legal move; the capture list omits no legal capture
    and (when not in check) the captures-and-checks list omits no legal capture or checking move
    (promotions to queen or knight — rook/bishop under-promotions are deliberately outside these two classes). -/
theorem accepts_sound (p : Pos) (d : GenData) (h : genCheck p d = none) :
    d.inChk = inCheck p.b p.wtm ∧
    d.pseudo.Nodup ∧ d.removed.Nodup ∧
    (∀ m, m ∈ d.pseudo ↔ pseudo p m = true) ∧
    (∀ m, m ∈ d.implLegal ↔ legalB p m = true) ∧
    (∀ m, m ∈ d.removed ↔ legalB p m = true) ∧
    (∀ x ∈ (d.pseudo.zip d.legalV).zip d.givesV, x.1.2 = true → x.2 = givesCheckSpec p x.1.1) ∧
    (d.inChk = true → ∀ m, legalB p m = true → m ∈ d.ev) ∧
    (∀ m, legalB p m = true → capClass p m = true → m ∈ d.caps) ∧
    (d.inChk = false → ∀ m, legalB p m = true → ccClass p m = true → m ∈ d.cc) := by
  obtain ⟨h1, _, h3, h4, h5, h6, h7, h8, h9, h10, h11⟩ := all_of_genCheck_none p d h
  simp only [chkInCheck, beq_iff_eq] at h1
  simp only [chkNodup, Bool.and_eq_true, nodupB_iff] at h3
  simp only [chkPseudoSound, List.all_eq_true] at h4
  simp only [chkPseudoComplete, List.all_eq_true, List.contains_iff_mem, mem_genPseudo] at h5
  simp only [chkLegalSound, Bool.and_eq_true, List.all_eq_true] at h6
  simp only [chkLegalComplete, Bool.and_eq_true, List.all_eq_true, List.contains_iff_mem, mem_genLegal] at h7
  simp only [chkGives, List.all_eq_true, Bool.or_eq_true, Bool.not_eq_true', beq_iff_eq] at h8
  simp only [chkEvasions, Bool.or_eq_true, Bool.not_eq_true', List.all_eq_true, List.contains_iff_mem, mem_genLegal] at h9
  simp only [chkCaps, List.all_eq_true, List.mem_filter, List.contains_iff_mem, mem_genLegal, and_imp] at h10
  simp only [chkCC, Bool.or_eq_true, List.all_eq_true, List.mem_filter, List.contains_iff_mem, mem_genLegal, and_imp] at h11
  refine ⟨h1, h3.1, h3.2, fun m => ⟨h4 m, h5 m⟩, fun m => ⟨h6.1 m, h7.1 m⟩, fun m => ⟨h6.2 m, h7.2 m⟩, ?_, ?_, h10, ?_⟩
  · intro x hx hl
    rcases h8 x hx with h | h
    · rw [hl] at h; cases h
    · exact h
  · intro hc m hm
    rcases h9 with h | h
    · rw [hc] at h; cases h
    · exact h m hm
  · intro hc m hm hcl
    rcases h11 with h | h
    · rw [hc] at h; cases h
    · exact h m hm hcl

/-- geometric core of the king-ray shortcut in `removeIllegal` / `isLegal` (see `Chess/KingRay.lean`) -/
theorem king_ray_core (occ : Ray.Pt → Bool) (k d f t : Ray.Pt) (hd : d ≠ (0,0)) (n : Nat)
    (hnv : ¬ Ray.visible occ k d f) (hc : Ray.clear (Ray.occAfter occ f t) k d n) : Ray.clear occ k d n :=
  Ray.clear_before_of_clear_after occ k d f t hd n hnv hc

/-! ## The algorithms of moveGen.cpp themselves (model: `Chess/TexelGen.lean`, namespace `Chess.Texel`)

The model follows the C++ statement by statement on bitboards (`BitVec 64`) derived from the board; it is tied to
the real `MoveGen` by a differential run on every generated position (same move order, same verdicts).  The
hypotheses: `ValidB` (piece codes 0..12), `KingAt` (the mover's king on `k` and nowhere else — `k` is
`pos.getKingSq(wtm)`), `EpEmpty` (the en-passant square is empty); all three are enforced by `readFEN`, preserved by
`makeMove` (C02) and re-checked by the driver on every tested position (`Texel.genWFb`). -/

/-- `MoveGen::sqAttacked(pos, sq)`: `sq` is attacked by the side not to move, per the specification -/
theorem texel_sqAttacked_eq (b : Board) (hv : Texel.ValidB b) (w : Bool) (t : Sq) :
    Texel.sqAttacked b w t (Texel.occBB b) = attackedBy b (!w) t := Texel.sqAttacked_spec b hv w t

/-- general form used inside `isLegal`: piece bitboards of `b`, any occupancy `occ`, against any board `b'` that has
    this occupancy and these enemy pieces away from the target square -/
theorem texel_sqAttacked_general (b b' : Board) (w : Bool) (t : Sq) (occ : PosImpl.BB)
    (H1 : ∀ q, q ≠ t → Texel.tst occ q = (b'[q] != 0))
    (H2 : ∀ s, s ≠ t → (own (!w) b[s] = true ∨ own (!w) b'[s] = true) → b'[s] = b[s]) :
    Texel.sqAttacked b w t occ = attackedBy b' (!w) t := Texel.sqAttacked_eq b b' w t occ H1 H2

/-- `MoveGen::inCheck` is the specification's `inCheck` -/
theorem texel_inCheck_eq (b : Board) (hv : Texel.ValidB b) (w : Bool) : Texel.inCheck b w = inCheck b w :=
  Texel.inCheck_eq b hv w

/-- the sliding attack set of a rook depends on the occupancy only through the relevant-occupancy mask
    (`rMasks[sq]`: ray squares without the last square of each ray) -/
theorem rook_ray_depends_on_inner_mask (s : Sq) (occ : PosImpl.BB) :
    Texel.rookAttacks s occ = Texel.rookAttacks s (occ &&& Texel.rookInner s) := Texel.rookAttacks_inner s occ

theorem bishop_ray_depends_on_inner_mask (s : Sq) (occ : PosImpl.BB) :
    Texel.bishopAttacks s occ = Texel.bishopAttacks s (occ &&& Texel.bishopInner s) := Texel.bishopAttacks_inner s occ

/-- **Lifting the table comparison to all 2^64 occupancies.**  `BitBoard::rookAttacks(sq, occ)` is
    `rTables[sq][f(occ & rMasks[sq])]` (bitBoard.hpp:311-316); if the table agrees with the ray walk on every subset of
    the mask (what the check enumerates: all 102 400 + 5 248 subsets in the thorough tier) it agrees on every occupancy. -/
theorem rook_table_lift (impl tbl : Sq → PosImpl.BB → PosImpl.BB)
    (hshape : ∀ s occ, impl s occ = tbl s (occ &&& Texel.rookInner s))
    (htbl : ∀ s sub, sub &&& Texel.rookInner s = sub → tbl s sub = Texel.rookAttacks s sub) :
    ∀ s occ, impl s occ = Texel.rookAttacks s occ := by
  intro s occ
  rw [hshape, htbl s _ (by rw [BitVec.and_assoc, BitVec.and_self]), ← Texel.rookAttacks_inner]

theorem bishop_table_lift (impl tbl : Sq → PosImpl.BB → PosImpl.BB)
    (hshape : ∀ s occ, impl s occ = tbl s (occ &&& Texel.bishopInner s))
    (htbl : ∀ s sub, sub &&& Texel.bishopInner s = sub → tbl s sub = Texel.bishopAttacks s sub) :
    ∀ s occ, impl s occ = Texel.bishopAttacks s occ := by
  intro s occ
  rw [hshape, htbl s _ (by rw [BitVec.and_assoc, BitVec.and_self]), ← Texel.bishopAttacks_inner]

/-- the generator's sliding attack sets over the board's occupancy are the specification's ray walk -/
theorem texel_rookAttacks_spec (b : Board) (hv : Texel.ValidB b) (s t : Sq) :
    Texel.tst (Texel.rookAttacks s (Texel.occBB b)) t = rookDirs.any fun dd => rayReach b s t dd.1 dd.2 := by
  simp only [rookDirs, List.any_cons, List.any_nil, Bool.or_false, Texel.rookAttacks, Texel.tst_or,
    Texel.ray_eq_rayReach (Texel.occBB b) b (Texel.tst_occBB b hv), Bool.or_assoc]

theorem texel_bishopAttacks_spec (b : Board) (hv : Texel.ValidB b) (s t : Sq) :
    Texel.tst (Texel.bishopAttacks s (Texel.occBB b)) t = bishDirs.any fun dd => rayReach b s t dd.1 dd.2 := by
  simp only [bishDirs, List.any_cons, List.any_nil, Bool.or_false, Texel.bishopAttacks, Texel.tst_or,
    Texel.ray_eq_rayReach (Texel.occBB b) b (Texel.tst_occBB b hv), Bool.or_assoc]

/-- **`MoveGen::isLegal`** (all five paths of moveGen.cpp:621-659: in-check reject, slow path, king step and castling with
    the king lifted off, king-ray shortcut, same-ray shortcut): for a pseudo-legal move, called with the correct
    in-check flag, it returns "the mover's king is not attacked after the move" -/
theorem texel_isLegal_eq (p : Pos) (k : Sq) (hv : Texel.ValidB p.b) (hk : Texel.KingAt p.b p.wtm k) (m : Mv)
    (hp : pseudo p m = true) :
    Texel.isLegal p k m (inCheck p.b p.wtm) = !inCheck (apply p m).b p.wtm := Texel.isLegal_eq p k hv hk m hp

/-- …so `pseudo ∧ isLegal` is the specification's legality predicate -/
theorem texel_isLegal_legalB (p : Pos) (k : Sq) (hv : Texel.ValidB p.b) (hk : Texel.KingAt p.b p.wtm k) (m : Mv) :
    (pseudo p m && Texel.isLegal p k m (inCheck p.b p.wtm)) = legalB p m := Texel.isLegal_legalB p k hv hk m

/-- **`MoveGen::removeIllegal`** on a list of pseudo-legal moves keeps, in order, exactly those after which the mover's
    king is not attacked (king-ray shortcut of moveGen.cpp:574-618 included) -/
theorem texel_removeIllegal_eq (p : Pos) (k : Sq) (hv : Texel.ValidB p.b) (hk : Texel.KingAt p.b p.wtm k) (l : List Mv)
    (hl : ∀ m ∈ l, pseudo p m = true) :
    Texel.removeIllegal p k l = l.filter fun m => !inCheck (apply p m).b p.wtm := Texel.removeIllegal_eq p k hv hk l hl

/-- **`MoveGen::pseudoLegalMoves`** (moveGen.cpp:48-141) generates exactly the moves obeying the movement rules:
    sliders/knights/king by attack masks, castling condition by condition, pawns by shifts and file/row masks -/
theorem texel_pseudoLegal_iff (p : Pos) (k : Sq) (h : Texel.GenWF p k) (m : Mv) :
    m ∈ Texel.pseudoLegalMoves p k ↔ pseudo p m = true := Texel.mem_pseudoLegalMoves p k h m

/-- …and never emits a move twice -/
theorem texel_pseudoLegal_nodup (p : Pos) (k : Sq) (h : Texel.GenWF p k) : (Texel.pseudoLegalMoves p k).Nodup :=
  Texel.nodup_pseudoLegalMoves p k h

/-- **The list the engine treats as the legal moves (`pseudoLegalMoves` then `removeIllegal`) is a permutation of the
    legal moves of chess.** -/
theorem texel_legal_eq (p : Pos) (k : Sq) (h : Texel.GenWF p k) :
    (Texel.removeIllegal p k (Texel.pseudoLegalMoves p k)).Perm (genLegal p) := Texel.texel_legal_perm p k h

/-- **`MoveGen::pseudoLegalCaptures`** (moveGen.cpp:386-456) omits no pseudo-legal — hence no legal — capture of its class
    (captures incl. en passant, promotion piece queen or knight) -/
theorem texel_captures_complete (p : Pos) (k : Sq) (h : Texel.GenWF p k) (m : Mv) (hp : pseudo p m = true)
    (hc : capClass p m = true) : m ∈ Texel.pseudoLegalCaptures p k := Texel.captures_complete p k h m hp hc

/-- **`MoveGen::checkEvasions`** (moveGen.cpp:148-250) omits no legal move when the side to move is in check: a legal reply
    other than a king move or an en-passant capture must capture the only checking piece or land between it and the king
    (`kingThreats` has one bit, `validTargets = kingThreats | squaresBetween`).  Extra hypothesis: the kings are not adjacent. -/
theorem texel_evasions_complete (p : Pos) (k : Sq) (h : Texel.GenWF p k)
    (hkk : ∀ q, p.b[q] = Texel.pc (!p.wtm) 1 → Texel.kingGeom k q = false)
    (hchk : inCheck p.b p.wtm = true) (m : Mv) (hl : legalB p m = true) : m ∈ Texel.checkEvasions p k :=
  Texel.evasions_complete p k h hkk hchk m hl

theorem texel_kingsApart_of_check (p : Pos) (k : Sq) (h : Texel.kingsApartB p k = true) :
    ∀ q, p.b[q] = Texel.pc (!p.wtm) 1 → Texel.kingGeom k q = false := Texel.kingsApart_of_b p k h

/-- the decidable form of the hypotheses, evaluated by the driver on every tested position -/
theorem texel_genWF_of_check (p : Pos) (k : Sq) (h : Texel.genWFb p k = true) : Texel.GenWF p k := Texel.genWF_of_b p k h

/-! ## `MoveGen::givesCheck` (moveGen.cpp:458-571; model `Texel.givesCheck`, proof `Chess/TexelGenGives*.lean`)

Hypotheses `Texel.GcWF p ok`: piece codes 0..12; the side **not** to move has its king on `ok = pos.getKingSq(!wtm)` and
nowhere else; that king is not attacked (`readFEN` rejects such positions, `makeMove` of a legal move never produces
one); the en-passant square, if any, is empty, lies on the mover's sixth rank and has the double-stepped pawn behind it.
All evaluated by the driver on every tested position (`Texel.gcWFb`). -/

/-- **`MoveGen::givesCheck` for every pseudo-legal move** that does not put the mover's king next to the opponent's king:
    the verdict equals "the opponent is in check on the board after the move".  Covers the first `switch` (direct check by
    queen/rook/bishop along an open line, pawn, knight), the discovered check through the from-square (`d2 ≠ d1`: the
    piece leaves the line), the promoted piece attacking through the vacated from-square, castling (the rook, along the
    back rank through the king's home square or up its file) and en passant (lines through the captured pawn's square,
    and the rank through both vacated squares). -/
theorem texel_givesCheck_eq (p : Pos) (ok : Sq) (h : Texel.GcWF p ok) (m : Mv) (hp : pseudo p m = true)
    (hkk : kind p.b[m.f] = 1 → Texel.kingGeom ok m.t = false) :
    Texel.givesCheck p ok m = inCheck (apply p m).b (!p.wtm) := Texel.givesCheck_eq p ok h m hp hkk

/-- **`MoveGen::givesCheck` for every legal move** (a legal king move never ends next to the other king) -/
theorem texel_givesCheck_legal (p : Pos) (k ok : Sq) (h1 : Texel.GenWF p k) (h2 : Texel.GcWF p ok) (m : Mv)
    (hl : legalB p m = true) : Texel.givesCheck p ok m = inCheck (apply p m).b (!p.wtm) :=
  Texel.givesCheck_legal p k ok h1 h2 m hl

/-- the side condition on king moves cannot be dropped: Ka1-b1 next to a king on c2 is pseudo-legal, the specification
    counts the black king as attacked afterwards, `givesCheck` (rightly, for the engine never plays that move) says no -/
theorem texel_givesCheck_kings_adjacent_witness :
    let p : Pos := { b := (Vector.replicate 64 0 |>.set 0 WKING |>.set 10 BKING), wtm := true, castle := 0, ep := none, hmc := 0, fmc := 1 }
    let m : Mv := { f := sq 0, t := sq 1, promo := 0 }
    Texel.gcWFb p (sq 10) = true ∧ pseudo p m = true ∧ legalB p m = false ∧
    Texel.givesCheck p (sq 10) m = false ∧ inCheck (apply p m).b (!p.wtm) = true := by decide

/-- the decidable form of the `givesCheck` hypotheses, evaluated by the driver on every tested position -/
theorem texel_gcWF_of_check (p : Pos) (ok : Sq) (h : Texel.gcWFb p ok = true) : Texel.GcWF p ok := Texel.gcWF_of_b p ok h

/-! ## `MoveGen::pseudoLegalCapturesAndChecks` (moveGen.cpp:257-384; model `Texel.pseudoLegalCapturesAndChecks`)

What the C++ generates, precisely (`Texel.CCGen`, with `D = discovered`: every square the opponent's king sees along a
rook line if some own rook or queen would see the king with the first blockers removed, likewise for bishop lines):
queen / rook / bishop / knight — all moves of a piece on `D`, else captures and moves onto `kRookAtk` / `kBishAtk` /
`kKnightAtk` as fits the piece; king — all steps if on `D`, else captures, and every pseudo-legal castling move; pawns
(promotion piece queen or knight) — captures incl. en passant, every push of a pawn on `D` or on its seventh rank, else
pushes onto a square from which the pawn attacks the king.  The list is a superset of "captures, promotions and checks":
a piece on `D` that moves along its line, or castling without check, is generated as well. -/

/-- **exact characterisation**: the list is the set of pseudo-legal moves satisfying `CCGen` -/
theorem texel_capturesAndChecks_iff (p : Pos) (k ok : Sq) (h : Texel.GenWF p k) (m : Mv) :
    m ∈ Texel.pseudoLegalCapturesAndChecks p k ok ↔ (pseudo p m = true ∧ Texel.CCGen p ok m) := Texel.mem_cc_iff p k ok h m

/-- **soundness**: every generated move is pseudo-legal -/
theorem texel_capturesAndChecks_sound (p : Pos) (k ok : Sq) (h : Texel.GenWF p k) (m : Mv)
    (hm : m ∈ Texel.pseudoLegalCapturesAndChecks p k ok) : pseudo p m = true := Texel.cc_sound p k ok h m hm

/-- `discovered` contains every square from which a move uncovers a check (second block of `givesCheck`) -/
theorem texel_discovered_complete (b : Board) (hv : Texel.ValidB b) (w : Bool) (ok : Sq) (hK : Texel.KingAt b (!w) ok)
    (f t : Sq) (h : Texel.gcDisc b w ok f t = true) : Texel.tst (Texel.ccDiscovered b w ok) f = true :=
  Texel.disc_mem b hv w ok hK f t h

/-- **completeness**: every pseudo-legal move that captures (en passant included), promotes, or gives check — direct,
    discovered, by the castling rook or through an en-passant capture — is generated, provided the promotion piece (if
    any) is a queen or a knight and a king move does not end next to the opponent's king -/
theorem texel_capturesAndChecks_complete (p : Pos) (k ok : Sq) (h1 : Texel.GenWF p k) (h2 : Texel.GcWF p ok) (m : Mv)
    (hp : pseudo p m = true) (hkk : kind p.b[m.f] = 1 → Texel.kingGeom ok m.t = false) (hq : qnPromo m = true)
    (hc : isCaptureMv p m = true ∨ m.promo ≠ 0 ∨ givesCheckSpec p m = true) :
    m ∈ Texel.pseudoLegalCapturesAndChecks p k ok := Texel.cc_complete p k ok h1 h2 m hp hkk hq hc

/-- …in particular no legal move of the class the acceptor checks (`ccClass`: capture or check, promotion piece queen or
    knight) and no legal promotion to queen or knight is omitted -/
theorem texel_capturesAndChecks_complete_legal (p : Pos) (k ok : Sq) (h1 : Texel.GenWF p k) (h2 : Texel.GcWF p ok) (m : Mv)
    (hl : legalB p m = true) (hc : ccClass p m = true ∨ (m.promo ≠ 0 ∧ qnPromo m = true)) :
    m ∈ Texel.pseudoLegalCapturesAndChecks p k ok := by
  have hp : pseudo p m = true := (legal_safe p m hl).1
  have hkk := Texel.legal_king_apart p k ok h1 h2 m hl
  rcases hc with hc | ⟨h0, hq⟩
  · unfold ccClass at hc
    simp only [Bool.and_eq_true, Bool.or_eq_true] at hc
    refine Texel.cc_complete p k ok h1 h2 m hp hkk hc.2 ?_
    rcases hc.1 with h | h
    · exact Or.inl h
    · exact Or.inr (Or.inr h)
  · exact Texel.cc_complete p k ok h1 h2 m hp hkk hq (Or.inr (Or.inl h0))

/-- the list is a proper superset of its class: with Ke1, Rh1 against Ka8, castling O-O is generated although it neither
    captures nor gives check (the castling block of the C++ is unconditional) -/
theorem texel_capturesAndChecks_superset_witness :
    let p : Pos := { b := (Vector.replicate 64 0 |>.set 4 WKING |>.set 7 WROOK |>.set 56 BKING), wtm := true, castle := 2, ep := none, hmc := 0, fmc := 1 }
    let m : Mv := { f := sq 4, t := sq 6, promo := 0 }
    m ∈ Texel.pseudoLegalCapturesAndChecks p (sq 4) (sq 56) ∧ isCaptureMv p m = false ∧ givesCheckSpec p m = false := by decide

-- non-vacuity of the `givesCheck` hypotheses: a bare-kings position
example : Texel.GcWF { b := (Vector.replicate 64 0 |>.set 0 WKING |>.set 63 BKING), wtm := true, castle := 0, ep := none, hmc := 0, fmc := 1 } (sq 63) :=
  Texel.gcWF_of_b _ _ (by decide)

-- non-vacuity of the generator hypotheses: a bare-kings position
example : Texel.GenWF { b := (Vector.replicate 64 0 |>.set 0 WKING |>.set 63 BKING), wtm := true, castle := 0, ep := none, hmc := 0, fmc := 1 } (sq 0) :=
  Texel.genWF_of_b _ _ (by decide)

-- non-vacuity: the acceptor's hypotheses are satisfiable (the initial position with the real generator's data
-- is accepted on every run by the check; here a tiny artificial instance: a bare-kings position)
example : (genLegal { b := (Vector.replicate 64 0 |>.set 0 WKING |>.set 63 BKING), wtm := true, castle := 0, ep := none, hmc := 0, fmc := 1 }).length = 3 := by decide

end Props.C01
