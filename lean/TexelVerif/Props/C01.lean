import TexelVerif.Chess.SpecLemmas
import TexelVerif.Chess.KingRay
/-!
# C01 — generated legal moves are exactly the legal moves of chess

The specification (`Chess/Spec.lean`) is the trusted text.  The theorems here say (1) the legal-move oracle
is exactly the legality predicate, and (2) the acceptor that is run over the real generator's output on every
position (`Chess.genCheck`) is sound: whenever it accepts, the implementation's lists and verdicts for that
position have every property C01 asks for.  What ties this to the C++ is the per-position run of the acceptor
(tools/checks/c01.py) plus the exhaustive comparison of the attack tables with the ray-walk definition.
-/
namespace Props.C01
open Chess

/-- the oracle lists exactly the moves satisfying the legality predicate -/
theorem genLegal_iff (p : Pos) (m : Mv) : m ∈ genLegal p ↔ legalB p m = true := mem_genLegal p m

/-- …and the pseudo-legal oracle exactly the moves satisfying the movement rules -/
theorem genPseudo_iff (p : Pos) (m : Mv) : m ∈ genPseudo p ↔ pseudo p m = true := mem_genPseudo p m

/-- a legal move never leaves the mover's king attacked, and obeys the movement rules -/
theorem legal_safe (p : Pos) (m : Mv) (h : legalB p m = true) :
    pseudo p m = true ∧ inCheck (apply p m).b p.wtm = false := by
  unfold legalB at h; simpa using h

private theorem all_of_genCheck_none (p : Pos) (d : GenData) (h : genCheck p d = none) :
    chkInCheck p d = true ∧ chkLengths d = true ∧ chkNodup d = true ∧ chkPseudoSound p d = true ∧
    chkPseudoComplete p d = true ∧ chkLegalSound p d = true ∧ chkLegalComplete (genLegal p) d = true ∧
    chkGives p d = true ∧ chkEvasions (genLegal p) d = true ∧ chkCaps p (genLegal p) d = true ∧
    chkCC p (genLegal p) d = true := by
  unfold genCheck at h
  simp only at h
  repeat' (split at h; · simp at h)
  simp_all

/-- **Soundness of the acceptor.**  If `genCheck` accepts the implementation's data for position `p` then:
    the in-check verdict is right; the pseudo-legal list and the list after `removeIllegal` have no duplicates;
    the pseudo-legal list is exactly the set of pseudo-legal moves; the moves accepted by `isLegal`, and the
    list after `removeIllegal`, are exactly the legal moves; `givesCheck` agrees with playing the move for every
    legal move; when in check the evasion list omits no legal move; the capture list omits no legal capture
    and (when not in check) the captures-and-checks list omits no legal capture or checking move
    (promotions to queen or knight — rook/bishop under-promotions are deliberately outside these two classes). -/
theorem accepts_sound (p : Pos) (d : GenData) (h : genCheck p d = none) :
    d.inChk = inCheck p.b p.wtm ∧
    d.pseudo.Nodup ∧ d.removed.Nodup ∧
    (∀ m, m ∈ d.pseudo ↔ pseudo p m = true) ∧
    (∀ m, m ∈ d.implLegal ↔ legalB p m = true) ∧
    (∀ m, m ∈ d.removed ↔ legalB p m = true) ∧
    (∀ x ∈ (d.pseudo.zip d.legalV).zip d.givesV, x.1.2 = true → x.2 = givesCheckSpec p x.1.1) ∧
    (d.inChk = true → ∀ m, legalB p m = true → m ∈ d.ev) ∧
    (∀ m, legalB p m = true → capClass p m = true → m ∈ d.caps) ∧
    (d.inChk = false → ∀ m, legalB p m = true → ccClass p m = true → m ∈ d.cc) := by
  obtain ⟨h1, _, h3, h4, h5, h6, h7, h8, h9, h10, h11⟩ := all_of_genCheck_none p d h
  simp only [chkInCheck, beq_iff_eq] at h1
  simp only [chkNodup, Bool.and_eq_true, nodupB_iff] at h3
  simp only [chkPseudoSound, List.all_eq_true] at h4
  simp only [chkPseudoComplete, List.all_eq_true, List.contains_iff_mem, mem_genPseudo] at h5
  simp only [chkLegalSound, Bool.and_eq_true, List.all_eq_true] at h6
  simp only [chkLegalComplete, Bool.and_eq_true, List.all_eq_true, List.contains_iff_mem, mem_genLegal] at h7
  simp only [chkGives, List.all_eq_true, Bool.or_eq_true, Bool.not_eq_true', beq_iff_eq] at h8
  simp only [chkEvasions, Bool.or_eq_true, Bool.not_eq_true', List.all_eq_true, List.contains_iff_mem, mem_genLegal] at h9
  simp only [chkCaps, List.all_eq_true, List.mem_filter, List.contains_iff_mem, mem_genLegal, and_imp] at h10
  simp only [chkCC, Bool.or_eq_true, List.all_eq_true, List.mem_filter, List.contains_iff_mem, mem_genLegal, and_imp] at h11
  refine ⟨h1, h3.1, h3.2, fun m => ⟨h4 m, h5 m⟩, fun m => ⟨h6.1 m, h7.1 m⟩, fun m => ⟨h6.2 m, h7.2 m⟩, ?_, ?_, h10, ?_⟩
  · intro x hx hl
    rcases h8 x hx with h | h
    · rw [hl] at h; cases h
    · exact h
  · intro hc m hm
    rcases h9 with h | h
    · rw [hc] at h; cases h
    · exact h m hm
  · intro hc m hm hcl
    rcases h11 with h | h
    · rw [hc] at h; cases h
    · exact h m hm hcl

/-- geometric core of the king-ray shortcut in `removeIllegal` / `isLegal` (see `Chess/KingRay.lean`) -/
theorem king_ray_core (occ : Ray.Pt → Bool) (k d f t : Ray.Pt) (hd : d ≠ (0,0)) (n : Nat)
    (hnv : ¬ Ray.visible occ k d f) (hc : Ray.clear (Ray.occAfter occ f t) k d n) : Ray.clear occ k d n :=
  Ray.clear_before_of_clear_after occ k d f t hd n hnv hc

-- non-vacuity: the acceptor's hypotheses are satisfiable (the initial position with the real generator's data
-- is accepted on every run by the check; here a tiny artificial instance: a bare-kings position)
example : (genLegal { b := (Vector.replicate 64 0 |>.set 0 WKING |>.set 63 BKING), wtm := true, castle := 0, ep := none, hmc := 0, fmc := 1 }).length = 3 := by decide

end Props.C01
