import TexelVerif.Chess.Mate
import TexelVerif.Score.Claims
import TexelVerif.TT.TableLemmas
import TexelVerif.Bridge.SearchGuards
/-!
# C04 — announced mates are real

Two layers.  (1) The *claim calculus*: semantics `Sound` of a search result (score, bound) at a ply in terms of forced
mates within a ply budget, and the soundness of the rules by which negaScout produces mate claims (terminal mate,
negamax step, all-moves-searched, hash-table ply shift, and the pruning sites) — DESIGN.md Appendix A maps rules to return
sites.  For the sites listed under "sites of search.cpp" below the guard expression and the returned (score, bound) are
regenerated from the current source (Generated/SearchGuards, tools/kernels.json `"site"` entries) and
Bridge/SearchGuards.lean proves that they meet the rule's side condition; which values flow into those expressions
(e.g. that the score returned by razoring comes from `quiesce` outside check) is still by reading (partial).  (2) The *audit*: every `score mate N` the real engine prints is checked against the specification
through certificates (strategy trees found by an untrusted solver) whose checkers are proven sound here.
-/
namespace Props.C04
open Chess

/-- a verified win certificate proves a forced mate within `n` own moves -/
theorem win_certificate_sound (p : Pos) (n : Nat) (c : WinCert) (h : checkWin p n c = true) : WinIn p n :=
  checkWin_sound n p c h

/-- a verified refutation certificate proves that no mate can be forced within `n` own moves -/
theorem nowin_certificate_sound (p : Pos) (n : Nat) (c : NoWinCert) (h : checkNoWin p n c = true) : ¬ WinIn p n :=
  checkNoWin_sound n p c h

/-- "mate within N moves" is monotone in N (a `mate N` lower bound is implied by any shorter forced mate) -/
theorem winIn_mono (p : Pos) (n k : Nat) (h : WinIn p n) (hk : n ≤ k) : WinIn p k := h.mono hk

/-- the mate-in-one oracle is exact -/
theorem mate_in_one_exact (p : Pos) : hasMateIn1 p = true ↔ WinIn p 1 := hasMateIn1_iff p

/-- a position from which the side to move is mated in `n` (all moves lose): every reply keeps a forced mate for the
    opponent — the shape of the check applied after the engine's best move with a `mate N` score -/
theorem lose_unfold (p : Pos) (n : Nat) (h : LoseIn p n) (m : Mv) (hm : legalB p m = true) : WinIn (nextPos p m) n := h.2 m hm

/-- claim calculus, terminal rule: a checkmated node at ply `ply` scores −(MATE0 − (ply+1)) exactly -/
theorem rule_mated {P} (G : Cl.Game P) (p : P) (ply : Nat) (hm : Cl.mated G p = true) (hply : ply < 1000) :
    Cl.Sound G p ply (-(Cl.MATE0 - (ply + 1))) .exact := Cl.sound_mated G p ply hm hply

/-- claim calculus, negamax step: a sound losing claim of a child gives a sound winning lower bound of the parent -/
theorem rule_step {P} (G : Cl.Game P) (p q : P) (ply : Nat) (sc : Int) (bc : Cl.Bound) (hq : q ∈ G.moves p)
    (hc : Cl.Sound G q (ply+1) sc bc) (hb : bc ≠ .lower) : Cl.Sound G p ply (-sc) .lower :=
  Cl.sound_step_lower G p q ply sc bc hq hc hb

/-- claim calculus, all moves searched: if every child is a sound win for the opponent the node is a sound loss -/
theorem rule_all_moves {P} (G : Cl.Game P) (p : P) (ply : Nat) (s : Int) (hne : (G.moves p).isEmpty = false)
    (hall : ∀ q ∈ G.moves p, ∃ sc bc, Cl.Sound G q (ply+1) sc bc ∧ bc ≠ .upper ∧ -sc ≤ s)
    (hs : Cl.isLose s) (hrange : Cl.MATE0 + s - ply - 1 ≥ 1) : Cl.Sound G p ply s .upper :=
  Cl.sound_all_upper G p ply s hne hall hs hrange

/-- claim calculus, hash table: a claim stored at ply p₁ and read at ply p₂ with the ply shift is sound at p₂ -/
theorem rule_tt_shift {P} (G : Cl.Game P) (p : P) (p1 p2 : Nat) (s : Int) (b : Cl.Bound) (h : Cl.Sound G p p1 s b)
    (hp1 : p1 < 1000) (hp2 : p2 < 1000) :
    Cl.Sound G p p2 (if s > Cl.MATE0/2 then s + p1 - p2 else if s < -(Cl.MATE0/2) then s - p1 + p2 else s) b :=
  Cl.sound_tt_shift G p p1 p2 s b h hp1 hp2

/-- …and that shift is exactly what the table's `setScore` / `getScore` compute (C08) -/
theorem tt_shift_is_table_shift (d : TT.W) (s p1 p2 : Int) (hw : s > 16000) (hp : 0 ≤ p1) (hfit : s + p1 ≤ 32767) :
    TT.getScore (TT.setScore d s p1) p2 = s + p1 - p2 := by
  have e : TT.toStored s p1 = s + p1 := by rw [TT.toStored_def]; split <;> omega
  unfold TT.getScore
  rw [TT.rawScore_setScore d s p1 (by omega) (by omega), e, TT.fromStored_def]
  split <;> omega

/-! ### pruning rules and the sites of search.cpp they are tied to (Bridge/SearchGuards) -/

/-- every derivation built from the rules (terminal mate, no-claim results, negamax step, all moves, exact, relabel,
    hash shift) is sound -/
theorem derivations_sound {P} (G : Cl.Game P) (p : P) (ply : Nat) (s : Int) (b : Cl.Bound) (h : Cl.Derivable G p ply s b) :
    Cl.Sound G p ply s b := Cl.derivable_sound G p ply s b h

/-- move loop with late-move pruning / futility: if every skipped move passed its guard and the node still ends with a
    lose score, then no move was skipped (every move was searched, with a score ≤ the final one) -/
theorem rule_pruned_loop (best : Int) (es : List Cl.MoveEv) (hg : Cl.GuardedRun best es) (hl : Cl.isLose (Cl.runLoop best es)) :
    ∀ e ∈ es, ∃ s, e = .searched s ∧ s ≤ Cl.runLoop best es := Cl.guarded_lose_all_searched best es hg hl

/-- …and without the guard of late-move pruning that fails -/
theorem rule_pruned_loop_needs_guard_witness : Cl.isLose (Cl.runLoop (-31999) [.searched (-31990), .lmp]) ∧
    ¬ (∀ e ∈ [Cl.MoveEv.searched (-31990), Cl.MoveEv.lmp], ∃ s, e = Cl.MoveEv.searched s ∧ s ≤ Cl.runLoop (-31999) [.searched (-31990), .lmp]) :=
  Cl.unguarded_lmp_witness

open Gen.SearchGuards in
/-- site: late-move pruning in the current search.cpp skips a move only while `bestScore` is not a lose score
    (and `normalBound`, computed as `¬isLose α ∧ ¬isWin β`, holds) -/
theorem site_lmp (alpha beta limit bestScore mi : Int) (h : lmpCond (normalBound := normalBound (alpha := alpha) (beta := beta)) (lmpMoveCountLimit := limit) (bestScore := bestScore) (mi := mi) = true) :
    Cl.MoveEv.Guarded bestScore .lmp ∧ ¬ Cl.isLose alpha ∧ ¬ Cl.isWin beta :=
  ⟨(Bridge.SearchGuards.lmp_guard_sound_unfolded alpha beta limit bestScore mi h).1, (Bridge.SearchGuards.lmp_guard_sound_unfolded alpha beta limit bestScore mi h).2⟩

open Gen.SearchGuards in
/-- site: futility-pruned moves get a score that is not a lose score (static evaluation + margin) -/
theorem site_futility (bestScore evalScore fs margin score : Int) (he : ¬ Cl.isLose evalScore) (hm : 0 ≤ margin) :
    Cl.MoveEv.Guarded bestScore (.fut (futMoveScore (futilityScore := futScore (evalScore := evalScore) (futilityScore := fs) (margin := margin)) (score := score))) :=
  Bridge.SearchGuards.fut_event_guarded bestScore evalScore fs margin score he hm

open Gen.SearchGuards in
/-- site: moves are pruned only after a legal move was searched, so `haveLegalMoves = false` at the end of the loop
    means there is none (stalemate / mate detection) -/
theorem site_prune_gate (haveLegalMoves : Bool) (pass : Int) (mayReduce givesCheck ppp : Bool)
    (h : pruneGate (haveLegalMoves := haveLegalMoves) (pass := pass) (mayReduce := mayReduce) (givesCheck := givesCheck) (opq_passedPawnPush := ppp) = true) : haveLegalMoves = true :=
  (Bridge.SearchGuards.prune_gate_sound haveLegalMoves pass mayReduce givesCheck ppp h).1

open Gen.SearchGuards in
/-- site: the null-move cut of the current search.cpp returns a sound result whenever its entry guard held -/
theorem site_null {P} (G : Cl.Game P) (p : P) (ply : Nat) (alpha beta depth score : Int) (inCheck allowNull singularSearch : Bool)
    (h : nullEntryCond (alpha := alpha) (beta := beta) (depth := depth) (inCheck := inCheck) (sti_allowNullMove := allowNull) (singularSearch := singularSearch) = true) :
    ∃ b, Bridge.SearchGuards.boundOf (nullRet (beta := beta) (score := score)).2 = some b ∧ Cl.Sound G p ply (nullRet (beta := beta) (score := score)).1 b :=
  Bridge.SearchGuards.null_rule G p ply alpha beta depth score inCheck allowNull singularSearch h

open Gen.SearchGuards in
/-- site: the mate-distance cut returns a correct upper bound that claims nothing, and its negation claims nothing at
    the parent -/
theorem site_mdp {P} (G : Cl.Game P) (p : P) (alpha beta : Int) (ply : Nat) (hply : ply < 1000) (hab : alpha < beta)
    (h : mdpCut (alpha := alpha) (beta := mdpBeta (beta := beta) (ply := ply)) = true) :
    Cl.Sound G p ply (mdpRet (alpha := alpha)) .upper ∧ Cl.NoClaim (-(mdpRet (alpha := alpha))) .lower :=
  Bridge.SearchGuards.mdp_rule G p alpha beta ply hply hab h

open Gen.SearchGuards in
/-- site: razoring returns an upper bound; sound when the quiescence score is not a lose score -/
theorem site_razor {P} (G : Cl.Game P) (p : P) (ply : Nat) (score : Int) (hs : ¬ Cl.isLose score) :
    ∃ b, Bridge.SearchGuards.boundOf (razorRet (score := score)).2 = some b ∧ Cl.Sound G p ply (razorRet (score := score)).1 b :=
  Bridge.SearchGuards.razor_rule G p ply score hs

open Gen.SearchGuards in
/-- site: reverse futility returns `eval − margin` as a lower bound; sound when the evaluation is not a win score -/
theorem site_revfut {P} (G : Cl.Game P) (p : P) (ply : Nat) (evalScore margin : Int) (he : ¬ Cl.isWin evalScore) (hm : 0 ≤ margin) :
    ∃ b, Bridge.SearchGuards.boundOf (revFutRet (evalScore := evalScore) (margin := margin)).2 = some b ∧ Cl.Sound G p ply (revFutRet (evalScore := evalScore) (margin := margin)).1 b :=
  Bridge.SearchGuards.revfut_rule G p ply evalScore margin he hm

open Gen.SearchGuards in
/-- site: mated node — the score `illegalScore` that remains when no move was legal, and the explicit return inside
    the 50-move test, are the terminal rule's score -/
theorem site_mated {P} (G : Cl.Game P) (p : P) (ply : Nat) (b : Cl.Bound) (hm : Cl.mated G p = true) (hply : ply < 1000) :
    Cl.Sound G p ply (illegalScore (ply := ply)) b ∧ Cl.Sound G p ply (draw50MatedRet (ply := ply)).1 b :=
  Bridge.SearchGuards.mated_rule G p ply b hm hply

open Gen.SearchGuards in
/-- site: fail high overridden by a lose score of the hash entry (entry sound for this node) -/
theorem site_fail_high_override {P} (G : Cl.Game P) (p : P) (ply : Nat) (entScore : Int → Int) (entType score tType : Int)
    (hent : ∀ b, Bridge.SearchGuards.boundOf entType = some b → Cl.Sound G p ply (entScore ply) b) (hsc : Cl.Sound G p ply score .lower) :
    ∃ b, Bridge.SearchGuards.boundOf (failHighOverride (ply := ply) (ent_getScore := entScore) (ent_getType := entType) (score := score) (tType := tType)).2 = some b ∧
         Cl.Sound G p ply (failHighOverride (ply := ply) (ent_getScore := entScore) (ent_getType := entType) (score := score) (tType := tType)).1 b :=
  Bridge.SearchGuards.fail_high_override_rule G p ply entScore entType score tType hent hsc

open Gen.SearchGuards in
/-- site: fail low overridden by a win score of the hash entry -/
theorem site_fail_low_override {P} (G : Cl.Game P) (p : P) (ply : Nat) (alpha : Int) (entScore : Int → Int) (entType bestScore tType : Int)
    (hent : ∀ b, Bridge.SearchGuards.boundOf entType = some b → Cl.Sound G p ply (entScore ply) b) (hsc : Cl.Sound G p ply bestScore .upper) :
    ∃ b, Bridge.SearchGuards.boundOf (failLowOverride (alpha := alpha) (ply := ply) (ent_getScore := entScore) (ent_getType := entType) (bestScore := bestScore) (tType := tType)).2 = some b ∧
         Cl.Sound G p ply (failLowOverride (alpha := alpha) (ply := ply) (ent_getScore := entScore) (ent_getType := entType) (bestScore := bestScore) (tType := tType)).1 b :=
  Bridge.SearchGuards.fail_low_override_rule G p ply alpha entScore entType bestScore tType hent hsc

open Gen.SearchGuards in
/-- site (quiesce): a node is entered with `inCheck = true` only at depths where no evasion is skipped, and starts from
    the mated score instead of a stand-pat value -/
theorem site_quiesce_in_check (depth mi ply score : Int) (givesCheck : Bool) (h : qNextInCheck (depth := depth) (givesCheck := givesCheck) = true) :
    qSkipCond (depth := depth - 1) (mi := mi) = false ∧ qInCheckScore (ply := ply) (score := score) = -(Cl.MATE0 - (ply + 1)) :=
  ⟨Bridge.SearchGuards.q_incheck_no_skip depth mi givesCheck h, Bridge.SearchGuards.q_incheck_score ply score⟩

-- the guards are satisfiable (the site theorems are not vacuous)
example : Gen.SearchGuards.lmpCond (Gen.SearchGuards.normalBound 10 11) 3 (-50) 5 = true := by decide
example : Gen.SearchGuards.nullEntryCond 10 11 5 false true false = true := by decide
example : Gen.SearchGuards.mdpCut 31998 (Gen.SearchGuards.mdpBeta 31999 1) = true := by decide
example : Gen.SearchGuards.qNextInCheck 0 true = true := by decide

-- non-vacuity: K+Q vs K, Qg6-g7 mates (the hypotheses of `WinIn.mate` are satisfiable)
def kqk : Pos := { b := (Vector.replicate 64 0 |>.set 63 BKING |>.set 45 WKING |>.set 46 WQUEEN), wtm := true, castle := 0, ep := none, hmc := 0, fmc := 1 }
example : WinIn kqk 1 := .mate kqk { f := 46, t := 54, promo := 0 } 0 (by decide +kernel) (by decide +kernel)

end Props.C04
