import TexelVerif.Chess.Mate
import TexelVerif.Score.Claims
import TexelVerif.TT.TableLemmas
/-!
# C04 — announced mates are real

Two layers.  (1) The *claim calculus*: semantics `Sound` of a search result (score, bound) at a ply in terms of forced
mates within a ply budget, and the soundness of the rules by which negaScout produces mate claims (terminal mate,
negamax step, all-moves-searched, hash-table ply shift) — DESIGN.md Appendix A maps rules to return sites; the map is by
reading (partial).  (2) The *audit*: every `score mate N` the real engine prints is checked against the specification
through certificates (strategy trees found by an untrusted solver) whose checkers are proven sound here.
-/
namespace Props.C04
open Chess

/-- a verified win certificate proves a forced mate within `n` own moves -/
theorem win_certificate_sound (p : Pos) (n : Nat) (c : WinCert) (h : checkWin p n c = true) : WinIn p n :=
  checkWin_sound n p c h

/-- a verified refutation certificate proves that no mate can be forced within `n` own moves -/
theorem nowin_certificate_sound (p : Pos) (n : Nat) (c : NoWinCert) (h : checkNoWin p n c = true) : ¬ WinIn p n :=
  checkNoWin_sound n p c h

/-- "mate within N moves" is monotone in N (a `mate N` lower bound is implied by any shorter forced mate) -/
theorem winIn_mono (p : Pos) (n k : Nat) (h : WinIn p n) (hk : n ≤ k) : WinIn p k := h.mono hk

/-- the mate-in-one oracle is exact -/
theorem mate_in_one_exact (p : Pos) : hasMateIn1 p = true ↔ WinIn p 1 := hasMateIn1_iff p

/-- a position from which the side to move is mated in `n` (all moves lose): every reply keeps a forced mate for the
    opponent — the shape of the check applied after the engine's best move with a `mate N` score -/
theorem lose_unfold (p : Pos) (n : Nat) (h : LoseIn p n) (m : Mv) (hm : legalB p m = true) : WinIn (nextPos p m) n := h.2 m hm

/-- claim calculus, terminal rule: a checkmated node at ply `ply` scores −(MATE0 − (ply+1)) exactly -/
theorem rule_mated {P} (G : Cl.Game P) (p : P) (ply : Nat) (hm : Cl.mated G p = true) (hply : ply < 1000) :
    Cl.Sound G p ply (-(Cl.MATE0 - (ply + 1))) .exact := Cl.sound_mated G p ply hm hply

/-- claim calculus, negamax step: a sound losing claim of a child gives a sound winning lower bound of the parent -/
theorem rule_step {P} (G : Cl.Game P) (p q : P) (ply : Nat) (sc : Int) (bc : Cl.Bound) (hq : q ∈ G.moves p)
    (hc : Cl.Sound G q (ply+1) sc bc) (hb : bc ≠ .lower) : Cl.Sound G p ply (-sc) .lower :=
  Cl.sound_step_lower G p q ply sc bc hq hc hb

/-- claim calculus, all moves searched: if every child is a sound win for the opponent the node is a sound loss -/
theorem rule_all_moves {P} (G : Cl.Game P) (p : P) (ply : Nat) (s : Int) (hne : (G.moves p).isEmpty = false)
    (hall : ∀ q ∈ G.moves p, ∃ sc bc, Cl.Sound G q (ply+1) sc bc ∧ bc ≠ .upper ∧ -sc ≤ s)
    (hs : Cl.isLose s) (hrange : Cl.MATE0 + s - ply - 1 ≥ 1) : Cl.Sound G p ply s .upper :=
  Cl.sound_all_upper G p ply s hne hall hs hrange

/-- claim calculus, hash table: a claim stored at ply p₁ and read at ply p₂ with the ply shift is sound at p₂ -/
theorem rule_tt_shift {P} (G : Cl.Game P) (p : P) (p1 p2 : Nat) (s : Int) (b : Cl.Bound) (h : Cl.Sound G p p1 s b)
    (hp1 : p1 < 1000) (hp2 : p2 < 1000) :
    Cl.Sound G p p2 (if s > Cl.MATE0/2 then s + p1 - p2 else if s < -(Cl.MATE0/2) then s - p1 + p2 else s) b :=
  Cl.sound_tt_shift G p p1 p2 s b h hp1 hp2

/-- …and that shift is exactly what the table's `setScore` / `getScore` compute (C08) -/
theorem tt_shift_is_table_shift (d : TT.W) (s p1 p2 : Int) (hw : s > 16000) (hp : 0 ≤ p1) (hfit : s + p1 ≤ 32767) :
    TT.getScore (TT.setScore d s p1) p2 = s + p1 - p2 := by
  have e : TT.toStored s p1 = s + p1 := by rw [TT.toStored_def]; split <;> omega
  unfold TT.getScore
  rw [TT.rawScore_setScore d s p1 (by omega) (by omega), e, TT.fromStored_def]
  split <;> omega

-- non-vacuity: K+Q vs K, Qg6-g7 mates (the hypotheses of `WinIn.mate` are satisfiable)
def kqk : Pos := { b := (Vector.replicate 64 0 |>.set 63 BKING |>.set 45 WKING |>.set 46 WQUEEN), wtm := true, castle := 0, ep := none, hmc := 0, fmc := 1 }
example : WinIn kqk 1 := .mate kqk { f := 46, t := 54, promo := 0 } 0 (by decide +kernel) (by decide +kernel)

end Props.C04
