import TexelVerif.Chess.UnMove
namespace Props.C15
open Chess

theorem unMoves_sound (all : Bool) (Q : Pos) (x : UnMv) (h : x ∈ unMoves all Q) : Pred Q x := by
  unfold unMoves at h
  rw [List.mem_filter] at h
  have h2 := h.2
  unfold predB at h2
  simp only [Bool.and_eq_true, beq_iff_eq] at h2
  exact ⟨unmake Q x.m x.ui, h2.1.1.1.2, h2.1.1.2, h2.1.2, h2.2.symm⟩

end Props.C15
