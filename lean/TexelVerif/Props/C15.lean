import TexelVerif.Chess.UnMoveComplete
/-!
# C15 — reverse move generation is complete and consistent with forward moves

Specification (`Chess/UnMove.lean`): `Pred Q (m, ui)` — there is a predecessor `P` that counts (`wfB`: accepted
unchanged by the FEN reader, origin of a double push empty, piece counts reachable by promotions) in which `m` is
legal, playing `m` and normalising the e.p. square (`fixupEP`, as `TextIO::fixupEPSquare`) gives `Q` (board, side,
castle mask, e.p. square), and `ui = undoInfo P m` (captured piece, castle mask and e.p. square of `P`; the
half-move clock of an `UnMove` is always 0 by revmovegen.hpp's contract and is not part of `Undo`).

The oracle `unMoves all Q` (`all` = `includeAllEpSquares`) enumerates candidates from `Q` alone and keeps those for
which `Pred` holds by direct evaluation with the forward rules on `unmake Q m ui`.  The theorems say the oracle is
exactly the specification, for every position `Q` whatsoever, in both modes.  What ties this to the C++ is the
per-position set equality of `RevMoveGen::genMoves(Q, all)` with `unMoves all Q` (tools/checks/c15.py), plus the
two property predicates evaluated on the implementation alone.
-/
namespace Props.C15
open Chess

/-- every un-move the oracle lists is an un-move of the specification (either mode) -/
theorem unMoves_sound (all : Bool) (Q : Pos) (x : UnMv) (h : x ∈ unMoves all Q) : Pred Q x := by
  unfold unMoves at h
  rw [List.mem_filter] at h
  have h2 := h.2
  unfold predB at h2
  simp only [Bool.and_eq_true, beq_iff_eq] at h2
  exact ⟨unmake Q x.m x.ui, (wfFast_eq _).symm.trans h2.1.1.1.2, h2.1.1.2, h2.1.2, h2.2.symm⟩

/-- in mode `includeAllEpSquares = false` an e.p. square is reported only for the e.p. capture itself -/
theorem unMoves_false_ep (Q : Pos) (x : UnMv) (h : x ∈ unMoves false Q) : x.ui.ep = none ∨ isEpUn Q x = true := by
  unfold unMoves at h
  rw [List.mem_filter] at h
  have h1 := h.1
  unfold cands at h1
  simp only [List.mem_flatMap, List.mem_map] at h1
  obtain ⟨m, _, cap, _, c, _, ep, hep, rfl⟩ := h1
  unfold epCands at hep
  simp only [Bool.false_eq_true, if_false] at hep
  unfold isEpUn
  split at hep
  · next hk =>
    simp only [List.mem_cons, List.not_mem_nil, or_false] at hep
    rcases hep with rfl | rfl
    · exact Or.inl rfl
    · right; simp only [Bool.and_eq_true, beq_iff_eq]; exact ⟨by simpa using hk, trivial⟩
  · simp only [List.mem_cons, List.not_mem_nil, or_false] at hep
    exact Or.inl hep

/-- **the oracle is exactly the specification**, for every `Q`, in both modes -/
theorem unMoves_iff (all : Bool) (Q : Pos) (x : UnMv) :
    x ∈ unMoves all Q ↔ Pred Q x ∧ (all = true ∨ x.ui.ep = none ∨ isEpUn Q x = true) := by
  constructor
  · intro h
    refine ⟨unMoves_sound all Q x h, ?_⟩
    cases all
    · exact Or.inr (unMoves_false_ep Q x h)
    · exact Or.inl rfl
  · rintro ⟨h, hm⟩
    exact unMoves_complete all Q x h hm

theorem unMovesSpec_sound (Q : Pos) (x : UnMv) (h : x ∈ unMovesSpec Q) : Pred Q x := unMoves_sound true Q x h

theorem unMovesSpec_complete (Q : Pos) (x : UnMv) (h : Pred Q x) : x ∈ unMovesSpec Q :=
  unMoves_complete true Q x h (Or.inl rfl)

theorem unMovesSpec_iff (Q : Pos) (x : UnMv) : x ∈ unMovesSpec Q ↔ Pred Q x :=
  ⟨unMovesSpec_sound Q x, unMovesSpec_complete Q x⟩

theorem pred_intro (P Q : Pos) (m : Mv) (hP : wfB P = true) (hm : legalB P m = true)
    (hQ : (fixupEP (apply P m)).core = Q.core) : Pred Q { m := m, ui := undoInfo P m } :=
  ⟨P, hP, hm, hQ, rfl⟩

/-- **complete** (the property's first half): for every predecessor `P` that counts and every legal move `m` leading
    to `Q`, the list for `Q` contains `m` together with exactly the information that restores `P` -/
theorem complete (P Q : Pos) (m : Mv) (hP : wfB P = true) (hm : legalB P m = true)
    (hQ : (fixupEP (apply P m)).core = Q.core) : { m := m, ui := undoInfo P m } ∈ unMovesSpec Q :=
  unMovesSpec_complete Q _ (pred_intro P Q m hP hm hQ)

/-- …and in mode `includeAllEpSquares = false` it contains `m` with `P`'s captured piece and castle mask, and with
    `P`'s e.p. square if `m` is the e.p. capture, none otherwise -/
theorem complete_noEp (P Q : Pos) (m : Mv) (hP : wfB P = true) (hm : legalB P m = true)
    (hQ : (fixupEP (apply P m)).core = Q.core) :
    (if isEpUn Q { m := m, ui := undoInfo P m } then { m := m, ui := undoInfo P m }
     else UnMv.noEp { m := m, ui := undoInfo P m }) ∈ unMoves false Q := by
  have hp := pred_intro P Q m hP hm hQ
  by_cases h : isEpUn Q { m := m, ui := undoInfo P m } = true
  · rw [if_pos h]; exact unMoves_complete false Q _ hp (Or.inr (Or.inr h))
  · rw [if_neg h]
    have h' : isEpUn Q { m := m, ui := undoInfo P m } = false := by simpa using h
    exact unMoves_complete false Q _ (pred_noEp Q _ hp h') (Or.inr (Or.inl rfl))

/-- **consistent** (the property's second half): every un-move listed for any position `Q`, undone with `unmake`,
    restores a position that counts, in which the move is legal, from which it leads back to `Q`, and whose captured
    piece / castle mask / e.p. square are the listed undo information -/
theorem consistent (all : Bool) (Q : Pos) (x : UnMv) (h : x ∈ unMoves all Q) :
    wfB (unmake Q x.m x.ui) = true ∧ legalB (unmake Q x.m x.ui) x.m = true ∧
    (fixupEP (apply (unmake Q x.m x.ui) x.m)).core = Q.core ∧ undoInfo (unmake Q x.m x.ui) x.m = x.ui := by
  unfold unMoves at h
  rw [List.mem_filter] at h
  have h2 := h.2
  unfold predB at h2
  simp only [Bool.and_eq_true, beq_iff_eq] at h2
  exact ⟨(wfFast_eq _).symm.trans h2.1.1.1.2, h2.1.1.2, h2.1.2, h2.2⟩

/-- **no legal predecessor is ever missing**: if the list for `Q` is empty — even in the mode without unused e.p.
    squares, which is the one the "no possible last move" test uses — then no position that counts has a legal move
    leading to `Q` -/
theorem no_unmoves_no_predecessor (Q : Pos) (h : unMoves false Q = []) :
    ¬ ∃ (P : Pos) (m : Mv), wfB P = true ∧ legalB P m = true ∧ (fixupEP (apply P m)).core = Q.core := by
  rintro ⟨P, m, hP, hm, hQ⟩
  have := complete_noEp P Q m hP hm hQ
  rw [h] at this
  cases this

/-- **repaired behaviour** (`fix: RevMoveGen::genMoves must not un-move the double push when the pawn's origin square …
    is occupied`): a position with an e.p. square has predecessors only if the square the double-pushed pawn came from,
    and the e.p. square itself, are empty — so the condition the repair adds never drops a predecessor -/
theorem ep_origin_empty (Q : Pos) (x : UnMv) (e : Sq) (h : Pred Q x) (he : Q.ep = some e) :
    Q.b.getD (if Q.wtm then e.val + 8 else e.val - 8) 0 = 0 ∧ Q.b.getD e.val 0 = 0 :=
  pred_ep_origin_empty Q x e h he

/-- the position `4k3/8/8/8/3pP3/8/4N3/4K3 b - e3` (accepted by the FEN reader; knight on the double push's origin) -/
def witnessQ : Pos :=
  { b := (Vector.replicate 64 0 |>.set 4 WKING |>.set 60 BKING |>.set 12 WKNIGHT |>.set 28 WPAWN |>.set 27 BPAWN),
    wtm := false, castle := 0, ep := some (sq 20), hmc := 0, fmc := 1 }

/-- **witness of the defect found**: `witnessQ` has no predecessor at all (the unrepaired `genMoves` listed `e2e4` for it,
    whose predecessor lacks the knight; replay: known_findings.json `ep-origin-occupied`) -/
theorem ep_origin_occupied_witness : ¬ ∃ x, Pred witnessQ x := by
  rintro ⟨x, h⟩
  have := (ep_origin_empty witnessQ x (sq 20) h rfl).1
  revert this
  decide

/-- un-making a pseudo-legal move restores the predecessor (board, side to move, castle mask, e.p. square) -/
theorem unmake_restores (P Q : Pos) (m : Mv) (hp : pseudo P m = true) (hs : epShape P = true)
    (hq : (fixupEP (apply P m)).core = Q.core) : (unmake Q m (undoInfo P m)).core = P.core :=
  unmake_core P Q m hp hs hq

/-! ## non-vacuity: the hypotheses of `complete` / `complete_noEp` are satisfiable -/

private def P0 : Pos :=
  { b := (Vector.replicate 64 0 |>.set 4 WKING |>.set 60 BKING |>.set 12 WPAWN), wtm := true, castle := 0, ep := none, hmc := 0, fmc := 1 }
private def m0 : Mv := { f := sq 12, t := sq 28, promo := 0 }
/-- a predecessor with an e.p. square: white pawn e5, black pawn d5 just double-pushed -/
private def P1 : Pos :=
  { b := (Vector.replicate 64 0 |>.set 4 WKING |>.set 60 BKING |>.set 36 WPAWN |>.set 35 BPAWN), wtm := true, castle := 0,
    ep := some (sq 43), hmc := 0, fmc := 1 }
private def m1 : Mv := { f := sq 36, t := sq 43, promo := 0 }

set_option maxRecDepth 100000 in
example : wfB P0 = true ∧ legalB P0 m0 = true := by decide +kernel
set_option maxRecDepth 100000 in
example : wfB P1 = true ∧ legalB P1 m1 = true := by decide +kernel
set_option maxRecDepth 100000 in
example : { m := m0, ui := undoInfo P0 m0 } ∈ unMovesSpec (fixupEP (apply P0 m0)) :=
  complete P0 _ m0 (by decide +kernel) (by decide +kernel) rfl
set_option maxRecDepth 100000 in
example : isEpUn (fixupEP (apply P1 m1)) { m := m1, ui := undoInfo P1 m1 } = true := by decide +kernel

end Props.C15
