import TexelVerif.TB.OnDemand
import TexelVerif.Bridge.TB
import TexelVerif.Props.C12
/-!
# C13 — with tablebase knowledge the engine reports exact results and keeps them

Layers: (1) the certified tables (C12: `certificate_sound`, `probe_score`); (2) the score arithmetic of the on-demand
probe, regenerated from the C++ by the translator (`Bridge/TB.lean`: `rule50Margin`, `swindleScore`) and proved here to
mean what the property says; (3) partial: that the search propagates an exact probe result to the root is tied only
through the audit of the real engine's output against the certified distance to mate (tools/checks/c13.py).
-/
namespace Props.C13
open TB13 TB Cert

/-- the regenerated `rule50Margin` is the model's margin -/
theorem margin_is_source (d ply hmc : Int) : Gen.TB.rule50Margin d ply hmc = margin d ply hmc := by
  rw [Bridge.TB.rule50Margin_eq]; simp [margin, pliesToMate]

/-- the margin is non-negative exactly when the mate is on the board no later than half-move clock 100 -/
theorem margin_nonneg_iff (d ply hmc : Int) : 0 ≤ margin d ply hmc ↔ hmc + pliesToMate d ply ≤ 100 := by
  simp only [margin]; omega

/-- for the certified score of a won position (`win n`, n ≥ 1) the plies to mate are `2n − 1`, for a lost position
    (`loss n`) `2n` — so "margin ≥ 0" is "the mate can be completed before the 50-move limit" in the property's terms -/
theorem plies_of_value (n : Nat) (ply : Int) (hp : 0 ≤ ply) (hn : 1 ≤ n) (hs : ply + 2 * n ≤ 16000) :
    pliesToMate (scoreOf (.win n) ply) ply = 2 * n - 1 ∧ pliesToMate (scoreOf (.loss n) ply) ply = 2 * n := by
  simp only [pliesToMate, scoreOf, MATE0]
  constructor <;> omega

/-- the probe gives the exact certified score iff the position is drawn or the mate fits the 50-move window;
    otherwise it gives bound 0 in the right direction and records the (positive) frustration distance -/
theorem ondemand_spec (d ply hmc : Int) :
    (d = 0 ∨ hmc + pliesToMate d ply ≤ 100 → onDemand d ply hmc = (d, .exact, 0)) ∧
    (d > 0 → ¬ hmc + pliesToMate d ply ≤ 100 →
        onDemand d ply hmc = (0, .lower, hmc + pliesToMate d ply - 100) ∧ hmc + pliesToMate d ply - 100 > 0) ∧
    (d < 0 → ¬ hmc + pliesToMate d ply ≤ 100 →
        onDemand d ply hmc = (0, .upper, -(hmc + pliesToMate d ply - 100))) := by
  refine ⟨fun h => ?_, fun hd hm => ?_, fun hd hm => ?_⟩
  · have : d = 0 ∨ margin d ply hmc ≥ 0 := by
      rcases h with h | h
      · exact Or.inl h
      · exact Or.inr ((margin_nonneg_iff d ply hmc).2 h)
    simp [onDemand, this]
  · have hmg : margin d ply hmc = (100 - hmc) - pliesToMate d ply := rfl
    have h1 : ¬ (d = 0 ∨ margin d ply hmc ≥ 0) := by
      intro h; rcases h with h | h
      · omega
      · exact hm ((margin_nonneg_iff d ply hmc).1 h)
    unfold onDemand
    rw [if_neg h1, if_pos hd, if_pos hd]
    refine ⟨?_, by omega⟩
    rw [hmg]; congr 2; omega
  · have hmg : margin d ply hmc = (100 - hmc) - pliesToMate d ply := rfl
    have h1 : ¬ (d = 0 ∨ margin d ply hmc ≥ 0) := by
      intro h; rcases h with h | h
      · omega
      · exact hm ((margin_nonneg_iff d ply hmc).1 h)
    have h2 : ¬ d > 0 := by omega
    unfold onDemand
    rw [if_neg h1, if_neg h2, if_neg h2, hmg]
    congr 2; omega

/-- what the audit expects at the root (ply 0) is exactly "exact certified score through the UCI mate conversion when the
    probe is exact": `mate n` for `win n` iff `2n − 1 ≤ 100 − hmc`, `mate −n` for `loss n` iff `2n ≤ 100 − hmc`, never a
    mate for a draw -/
theorem expected_is_exact_probe (v : Val) (hmc : Int) (hv : match v with | .win n => 1 ≤ n ∧ n ≤ 8000 | .loss n => n ≤ 8000 | .draw => True) :
    (expectedMate v hmc).isSome = true ↔ (v ≠ .draw ∧ (onDemand (scoreOf v 0) 0 hmc).2.1 = .exact) := by
  cases v with
  | draw => simp [expectedMate]
  | win n =>
    obtain ⟨h1, h2⟩ := hv
    have hp := (plies_of_value n 0 (by omega) h1 (by omega)).1
    have hd : scoreOf (.win n) 0 ≠ 0 := by simp only [scoreOf, MATE0]; omega
    simp only [expectedMate, onDemand, hd, false_or, margin, hp]
    by_cases h : 2 * (n : Int) - 1 ≤ 100 - hmc
    · have : (100 - hmc) - (2 * (n:Int) - 1) ≥ 0 := by omega
      simp [h, this]
    · have : ¬ ((100 - hmc) - (2 * (n:Int) - 1) ≥ 0) := by omega
      simp only [h, this, if_false]
      split <;> simp
  | loss n =>
    have hp : pliesToMate (scoreOf (.loss n) 0) 0 = 2 * n := by simp only [pliesToMate, scoreOf, MATE0]; omega
    have hd : scoreOf (.loss n) 0 ≠ 0 := by simp only [scoreOf, MATE0]; omega
    simp only [expectedMate, onDemand, hd, false_or, margin, hp]
    by_cases h : 2 * (n : Int) ≤ 100 - hmc
    · have : (100 - hmc) - (2 * (n:Int)) ≥ 0 := by omega
      simp [h, this]
    · have : ¬ ((100 - hmc) - (2 * (n:Int)) ≥ 0) := by omega
      simp only [h, this, if_false]
      split <;> simp

/-- swindle scores (used for positions that are won on the board but drawn by the 50-move rule) are never mate scores:
    magnitude between 35 and 70 with the sign of the frustrated distance -/
theorem swindle_far_range (e d : Int) (hd : d ≠ 0) :
    (0 < d → 35 ≤ Gen.TB.swindleScore e d ∧ Gen.TB.swindleScore e d ≤ 70) ∧
    (d < 0 → -70 ≤ Gen.TB.swindleScore e d ∧ Gen.TB.swindleScore e d ≤ -35) := Bridge.TB.swindle_far e d hd

/-- …and for distance 0 at most 34 with the sign of the evaluation -/
theorem swindle_near_range (e : Int) (he : e.natAbs < 2^31) :
    (0 ≤ e → 0 ≤ Gen.TB.swindleScore e 0 ∧ Gen.TB.swindleScore e 0 ≤ 34) ∧
    (e < 0 → -34 ≤ Gen.TB.swindleScore e 0 ∧ Gen.TB.swindleScore e 0 ≤ 0) := Bridge.TB.swindle_near e he

/-- the certified table gives the engine exactly the score of the true distance to mate (C12) -/
theorem probe_is_exact (cls : Cls) (T : ByteArray)
    (h : ∀ k1, k1 ≤ 64 → ∀ k2, k2 ≤ 64 → checkUnit cls.cc cls.cc.shape T k1 k2 = true)
    (p : Pos) (hp : legal cls.cc p = true) (ply : Int) :
    probeDTM cls.cc.shape T (toBoard cls.cc.shape p) ply = some (scoreOf (DTM (game cls.cc) p) ply) :=
  Props.C12.probe_score cls T h p hp ply

-- non-vacuity
example : expectedMate (.win 10) 50 = some 10 ∧ expectedMate (.win 30) 50 = none ∧ expectedMate (.loss 25) 50 = some (-25) ∧
    expectedMate (.loss 26) 50 = none := by decide

end Props.C13
