import TexelVerif.BookBuild.Link
namespace Props.C19
open Bk
theorem placeholder : negateScore 5 = -5 := by decide
end Props.C19
