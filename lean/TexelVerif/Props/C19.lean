import TexelVerif.BookBuild.Witness
import TexelVerif.BookBuild.AddPos
import TexelVerif.BookBuild.Relink
import TexelVerif.BookBuild.Serial
/-!
# C19 — book-builder graph scores stay at their defined fixed point

Property theorems only; the model is `TexelVerif/BookBuild/{Basic,Update,Link}.lean`, the proofs are in
`BookBuild/{Propagate,Invariant,Preserve,UpdateSpec,Ops,Depth,LinkSpec,AddLink,LinkNew,Sorted,AddPos,Distance,Unique,
Init,Reload,Relink,Serial,Witness}.lean`.

`fixed := true` is the algorithm of the tree *after* the commit `fix: BookNode::updateScores also queues the changed
node itself for the path-error pass`; `fixed := false` is the algorithm as found.  The line-protocol driver
(`Drv/BookBuild.lean`) runs `fixed := true`; the differential of `./check C19` ties it to the C++.
-/
namespace Props.C19
open Bk

/-- `BookNode::setSearchResult` (any best move, any score incl. mate / INVALID / IGNORE) keeps the book at its fixed point. -/
theorem setSearchResult_preserves_fixedpoint (b : Book) (i mv : Nat) (score : Int) (time : Nat)
    (h : FixedPoint b) (hi : i < b.size) : FixedPoint (setSearchResult true b i mv score time) :=
  setSearchResult_preserves b i mv score time h hi

/-- `Book::addPending` keeps the book at its fixed point. -/
theorem addPending_preserves_fixedpoint (b : Book) (i : Nat) (h : FixedPoint b) (hi : i < b.size) :
    FixedPoint (addPending true b i) :=
  addPending_preserves b i h hi

/-- `Book::removePending` keeps the book at its fixed point. -/
theorem removePending_preserves_fixedpoint (b : Book) (i : Nat) (h : FixedPoint b) (hi : i < b.size) :
    FixedPoint (removePending true b i) :=
  removePending_preserves b i h hi

/-- An explicit `node->updateScores(bookData)` keeps the book at its fixed point. -/
theorem updateScores_preserves_fixedpoint (b : Book) (i : Nat) (h : FixedPoint b) (hi : i < b.size) :
    FixedPoint (updateScores true b i) :=
  updateScores_preserves b i h hi

/-- `Book::addPosToBook` (new node, links to *all* its parents incl. transpositions, links to already existing
    children, `updateDepth` along every new link, `updateScores` on the new node) keeps the book at its fixed point.
    `AddOk` is what the chess rules guarantee about the new position's links: at least one parent, link targets exist,
    the root is nobody's child, the extended graph is acyclic (ghost rank `r'`), all parents have the same depth parity
    and all children that parity too, the parents have no book move yet for the linking move, distinct children are
    reached by distinct moves, fewer than 2^31 - 2 nodes. -/
theorem addPos_preserves_fixedpoint (b : Book) (key : Nat) (ps cs : List (Nat × Nat)) (r' : Nat → Nat)
    (h : FixedPoint b) (hA : AddOk b ps cs r') : FixedPoint (addPos true b key ps cs) :=
  addPos_preserves b key ps cs r' h hA

/-- One `parent->addChild(mv, child); child->addParent(mv, parent)` (which runs `updateDepth`) keeps links consistent
    and ranked, re-establishes every depth equation and the parity alternation, and changes nothing but the two link
    lists and depths; depths only decrease and keep parity and zero-ness. -/
theorem addLink_preserves_link_invariant (b : Book) (r : Nat → Nat) (c mv p : Nat) (hI : LinkInv b r)
    (hp : p < b.size) (hc : c < b.size) (hc0 : c ≠ 0) (hrk : r p < r c) (hpl : p = 0 ∨ parentIds (b.nd p) ≠ [])
    (hpar : parentIds (b.nd c) = [] ∨ ((b.nd p).depth + (b.nd c).depth) % 2 = 1)
    (huniq : ∀ x ∈ (b.nd p).children, x.1 = mv → x = (mv, c)) :
    LinkInv (addLink b c mv p) r ∧ AL b (addLink b c mv p) c mv p :=
  addLink_spec b r c mv p hI hp hc hc0 hrk hpl hpar huniq

/-- The core of all of the above: on a structurally sound book where only `start` and its parents may violate the
    negamax / expansion-cost equations and only `start` may violate the path-error equations, the repaired
    `updateScores` re-establishes every equation and writes nothing but the five derived score fields. -/
theorem updateScores_reaches_fixedpoint (b : Book) (start : Nat) (hS : StructOk b) (hs : start < b.size)
    (hnm : ∀ j, j < b.size → j ≠ start → j ∉ parentIds (b.nd start) → nmOk b j)
    (hpe : ∀ j, j < b.size → j ≠ start → peOk b j) :
    FixedPoint (updateScores true b start) ∧ SameBase (updateScores true b start) b := by
  refine ⟨updateScores_fixedPoint b start hS hs hnm hpe, ?_⟩
  obtain ⟨r, hr⟩ := hS.acyclic
  exact (updateScores_spec b start r hS.wf hr hs hnm hpe).1

/-- The local depth equation of `FixedPoint` means "length of a shortest chain of child links from the root". -/
theorem depth_is_shortest_distance (b : Book) (h : FixedPoint b) (j : Nat) (hj : j < b.size) :
    Path b 0 j (b.nd j).depth ∧ ∀ len, Path b 0 j len → (b.nd j).depth ≤ len :=
  depth_is_distance b h.struct j hj

/-- The fixed point is well defined: the stored fields of every node, the links, the pending set and the cost constants
    determine depth, negamax score, expansion costs and path errors of every node. -/
theorem fixedpoint_unique (b1 b2 : Book) (h1 : FixedPoint b1) (h2 : FixedPoint b2) (hg : SameGiven b1 b2) : b1 = b2 :=
  fixedPoint_unique b1 b2 h1 h2 hg

/-- `readFromFile`'s `root->updateScores` on freshly deserialised scores (all negamax scores INVALID) reaches the fixed
    point on any structurally sound book (this is the `updateChildren` branch of `updateNegaMax`, which the other
    operations never enter on a book at its fixed point). -/
theorem updateScores_from_fresh_reaches_fixedpoint (b : Book) (hS : StructOk b)
    (hfresh : ∀ j, j < b.size → (b.nd j).nm = INVALID) (hpe : ∀ j, j < b.size → j ≠ 0 → peOk b j) :
    FixedPoint (updateScores true b 0) :=
  (updateScores_init b hS hfresh hpe).1

/-- Save + reload (`writeToFile`, then `readFromFile`: fresh nodes from the stored records, depth-first relinking
    `initPositions`/`setChildRefs` along the links the chess rules give, `root->updateScores`) reproduces exactly the
    same graph and scores.  `readFromFile` clears the pending set, hence `b.pending = []`; fewer than 2^31 - 1 nodes. -/
theorem reload_roundtrip (b : Book) (h : FixedPoint b) (hp : b.pending = []) (hsmall : b.size < DEPTH_INF) :
    reload true b = b :=
  Bk.reload_roundtrip b h hp hsmall

/-- …and with marks pending before the save, the reloaded book is at its fixed point again (with no marks). -/
theorem reload_reaches_fixedpoint (b : Book) (h : FixedPoint b) (hsmall : b.size < DEPTH_INF) :
    FixedPoint (reload true b) := by
  obtain ⟨r, hr⟩ := h.acyclic
  have hL := relinked_spec b r h hr hsmall
  rw [reload_eq]
  refine (updateScores_init (relinked b) hL.struct ?_ ?_).1
  · intro j hj; have := (hL.fresh j (by rw [← hL.size]; exact hj)).1; simp only [Book.scores3, Prod.mk.injEq] at this; exact this.1
  · intro j hj hj0
    have hfr := hL.fresh j (by rw [← hL.size]; exact hj)
    have hnm : ((relinked b).nd j).nm = INVALID := by
      have := hfr.1; simp only [Book.scores3, Prod.mk.injEq] at this; exact this.1
    have hd : ((relinked b).nd j).depth ≠ 0 := by
      obtain ⟨q, _, e⟩ := (hL.struct.depth j (by omega) hj).1
      omega
    show (relinked b).pathErrOf j = Book.pe2 ((relinked b).nd j)
    rw [hfr.2 hj0]
    show calcPE ((relinked b).nd j).depth ((relinked b).nd j).nm _ _ = _
    rw [hnm]; exact calcPE_invalid _ _ _ hd

/-- The 16-byte record: reading back what `serialize` wrote gives the four stored fields (U64 key, U16 move,
    S16 score, U32 time; little-endian host). -/
theorem record_roundtrip (r : Rec) (hk : r.key < 2 ^ 64) (hm : r.move < 2 ^ 16) (hs1 : -32768 ≤ r.score)
    (hs2 : r.score ≤ 32767) (ht : r.time < 2 ^ 32) : Rec.decode r.encode = some r :=
  decode_encode r hk hm hs1 hs2 ht

/-- The algorithm as found leaves the book off its fixed point: after the 4-node history of `witnessRun`
    node A's path error violates its defining equation. -/
theorem fixedpoint_broken_witness : ¬ FixedPoint (witnessRun false) :=
  fun h => absurd (h.pathErr 1 (by decide)) (by decide)

/-- The same history with the repaired algorithm satisfies every score equation. -/
theorem fixedpoint_ok_witness_fixed : ∀ i, i < (witnessRun true).size → nmOk (witnessRun true) i ∧ peOk (witnessRun true) i :=
  (scoresOkB_iff _).mp (by decide)

/-- The values of the witness, as printed by the real library before / after the repair. -/
theorem witness_values :
    ((witnessRun false).nd 1).nm = 30 ∧ ((witnessRun false).nd 1).peW = 40 ∧ ((witnessRun false).pathErrOf 1).1 = 80 ∧
    ((witnessRun true).nd 1).nm = 30 ∧ ((witnessRun true).nd 1).peW = 80 := by decide

-- non-vacuity: the hypotheses are satisfiable
example (k : Nat) (c : Costs) : FixedPoint (Book.new k c) := fixedPoint_new k c
example : (0 : Nat) < (Book.new 7 {}).size := by decide
example : AddOk (Book.new 7 {}) [(1804, 0)] [] (fun i => i) := by
  refine ⟨by simp, ?_, by simp, ?_, ?_, ?_, by simp, ?_, by simp, ?_, by simp, by decide⟩
  · intro e he; simp at he; subst he; decide
  · intro i hi; exact hi
  · intro i hi c hc
    have : i = 0 := by have : (Book.new 7 {}).size = 1 := rfl; omega
    subst this; simp [nd_new, childIds] at hc
  · intro e he; simp at he; subst he; decide
  · intro e he e' he'; simp at he he'; subst he; subst he'; rfl
  · intro e he x hx; simp at he; subst he; simp [nd_new] at hx

-- a transposition: node 3 is added under the root and gets the existing node 2 (depth 2) as its child
example : AddOk exB [(30, 0)] [(40, 2)] exR := by
  have hsz : exB.size = 3 := by decide
  have hcase : ∀ i, i < exB.size → i = 0 ∨ i = 1 ∨ i = 2 := by intro i hi; omega
  refine ⟨by simp, ?_, ?_, ?_, ?_, ?_, ?_, ?_, ?_, ?_, ?_, by decide⟩
  · intro e he; simp at he; subst he; decide
  · intro e he; simp at he; subst he; decide
  · intro i hi; rw [hsz] at hi ⊢; unfold exR; split <;> (try split) <;> omega
  · intro i hi c hc
    rcases hcase i hi with rfl | rfl | rfl
    · have : childIds (exB.nd 0) = [1] := by decide
      rw [this] at hc; simp at hc; subst hc; decide
    · have : childIds (exB.nd 1) = [2] := by decide
      rw [this] at hc; simp at hc; subst hc; decide
    · have : childIds (exB.nd 2) = [] := by decide
      rw [this] at hc; simp at hc
  · intro e he; simp at he; subst he; decide
  · intro e he; simp at he; subst he; decide
  · intro e he e' he'; simp at he he'; subst he; subst he'; rfl
  · intro e he e' he'; simp at he he'; subst he; subst he'; decide
  · intro e he x hx; simp at he; subst he
    have : (exB.nd 0).children = [(10, 1)] := by decide
    rw [this] at hx; simp at hx; subst hx; decide
  · intro e he e' he' _; simp at he he'; rw [he, he']
example : exB.pending = [] ∧ exB.size < DEPTH_INF := by decide

end Props.C19
