import TexelVerif.TT.TableLemmas
/-!
# C14 — Clear Hash makes the next search identical to a fresh start

The engine's persistent search-affecting table state is the `TT.Table` model.  `Table.clear` is the repaired
`TranspositionTable::clear()` (resets `generation`); `clearOld` is the behaviour of the pinned commit (keeps it),
for which the witness below shows an observable difference once the generation counter wraps to 0.
Determinism of the whole search is observed by the two-process comparison, not proved (partial).
-/
namespace Props.C14
open TT

/-- behaviour of the pinned commit: `clear()` kept the generation counter -/
def clearOld (t : Table) : Table := { t with used := setUsedSize t.size, slots := Array.replicate t.size (0, 0) }

/-- after (the repaired) Clear Hash the table is exactly a freshly constructed one, up to the contempt hash,
    which is re-derived from the options at the start of every search -/
theorem clear_is_fresh (t : Table) (hs : t.size = normSize t.size) :
    t.clear = { Table.new t.size with contempt := t.contempt } := by
  simp only [Table.clear, Table.new, ← hs]

/-- in particular the first search after Clear Hash runs with generation 1, like the first search of a fresh engine -/
theorem clear_generation (t : Table) : t.clear.nextGeneration.gen = (Table.new t.size).nextGeneration.gen := by
  simp [Table.clear, Table.new, Table.nextGeneration]

/-- every slot is empty after Clear Hash -/
theorem clear_slots (t : Table) (i : Nat) : t.clear.slot i = (0, 0) := by
  simp only [Table.clear, Table.slot, Array.getD_eq_getD_getElem?]
  by_cases h : i < t.size
  · simp [h]
  · simp [h]

def k1 : W := 0x1234000000000000#64
def k2 : W := 0x1234000000000100#64
def insA (k : W) : InsArgs :=
  { key := k, from_ := 1, to := 2, promote := 0, score := 5, type := 2, ply := 0, depth := 0, eval := 0, busy := false }
/-- two depth-0 bound entries whose keys share a bucket, then a probe for the first -/
def scenario (t : Table) : Option (W × W) := (((t.insert (insA k1)).insert (insA k2)).probe k1).2

/-- **witness for the pinned commit**: after 15 (or 31, 47 …) earlier searches the old Clear Hash leaves generation 15,
    the next search runs with generation 0, under which empty slots look current to `betterThan`; the same two
    stores and probe that hit in a fresh engine (generation 1) then miss. -/
theorem clearOld_generation_zero_differs :
    scenario (clearOld { Table.new 512 with gen := 15 }).nextGeneration = none ∧
    (scenario (Table.new 512).nextGeneration).isSome = true := by decide +kernel

/-- with the repaired `clear` the same history gives the fresh engine's answer -/
theorem clear_generation_scenario :
    scenario ({ Table.new 512 with gen := 15 } : Table).clear.nextGeneration = scenario (Table.new 512).nextGeneration := by
  decide +kernel

end Props.C14
