import TexelVerif.TB.Check
import TexelVerif.TB.GameLemmas
import TexelVerif.TB.IndexLemmas
import TexelVerif.TB.Abort
import TexelVerif.TB.RetroBridge
/-!
# C12 — on-demand endgame tables hold the exact distance to mate

Property theorems only.  Models: `TB/Game.lean` (pawnless chess of a material class as a finite game),
`TB/Index.lean` (Texel's `TBIndex`/`TBPosition::setPosition`/`PositionValue`/`probeDTM`), `TB/Check.lean`
(the executable certificate checker the compiled driver runs over every dumped table), `TB/Abort.lean`
(`updateTB` state machine).  `Cert.DTM` is the exact game value defined from the bounded-recursion ground truth
`winW / lossW` of `TB/Certificate.lean`.

The hypothesis "every unit of the checker accepts the table" is not an assumption about the engine: it is what
each run of `./check C12` establishes by executing the compiled `TB.checkUnit` on the bytes the real
`TBGenerator` produced (all 65 × 65 units per table).
-/
namespace Props.C12
open TB Cert

/-! ## 1. An accepted table is exact -/

/-- **certificate_sound.**  Let `T` be the bytes of a dumped table of class `cls`.  If all 65 × 65 units of the
    executable checker accept `T`, then for **every** legal position of the class — every placement of the men
    (any of the non-king men possibly captured), either side to move, hence every symmetry image of every table
    entry — Texel's index mapping (model of `setPosition`) yields an index inside the table and the byte stored
    there decodes (model of `PositionValue`) to the exact distance to mate. -/
theorem certificate_sound (cls : Cls) (T : ByteArray)
    (h : ∀ k1, k1 ≤ 64 → ∀ k2, k2 ≤ 64 → checkUnit cls.cc cls.cc.shape T k1 k2 = true) :
    ∀ p, legal cls.cc p = true →
      ∃ i, indexOf cls.cc.shape p = some i ∧ i < T.size ∧
        decodeByte (readByte T i) = some (DTM (game cls.cc) p) :=
  units_sound cls.cc cls.cc.shape T (by simp only [Cls.cc]; omega) h

/-- the same from the single Boolean `checkTable` -/
theorem certificate_sound_table (cls : Cls) (T : ByteArray) (h : checkTable cls.cc cls.cc.shape T = true) :
    T.size = cls.cc.shape.nPos ∧
    ∀ p, legal cls.cc p = true →
      ∃ i, indexOf cls.cc.shape p = some i ∧ i < T.size ∧
        decodeByte (readByte T i) = some (DTM (game cls.cc) p) :=
  ⟨(checkTable_units _ _ T h).1, certificate_sound cls T (checkTable_units _ _ T h).2⟩

/-- The ground truth behind `DTM`, spelled out: a table that satisfies the local rule on the legal positions labels a
    position `win k` (k ≥ 1) exactly if the side to move can force mate within k of its own moves, and `loss k`
    exactly if it is mated within k moves whatever it plays (`winW`/`lossW` are defined by plain recursion on the
    number of moves over the legal-move relation; no table involved). -/
theorem exactness_unfolded (G : Game P) (S : P → Prop) (hS : ∀ p, S p → ∀ q ∈ G.moves p, S q)
    (T : P → Val) (hT : ∀ p, S p → T p = expected G T p) (n : Nat) (p : P) (hp : S p) :
    (lossW G n p = true ↔ ∃ k, k ≤ n ∧ T p = .loss k) ∧ (winW G n p = true ↔ ∃ k, 1 ≤ k ∧ k ≤ n ∧ T p = .win k) :=
  (fixedpoint_exact_on G S hS T hT).2 n p hp

/-- the successors of a legal position are legal positions (the set the certificate talks about is closed) -/
theorem legal_closed (cls : Cls) (p q : Pos) (hq : q ∈ (game cls.cc).moves p) : legal cls.cc q = true :=
  moves_legal cls.cc p q hq

/-- the hypotheses of the abstract theorem are satisfiable: a three-position game (0 → 1, 1 is checkmated, 2 is
    stalemated) with its exact table -/
example : ∃ (G : Game (Fin 3)) (T : Fin 3 → Val), (∀ p, T p = expected G T p) ∧ T 0 = .win 1 ∧ T 1 = .loss 0 ∧ T 2 = .draw :=
  ⟨{ moves := fun p => if p = 0 then [1] else [], inCheck := fun p => p = 1 },
   fun p => if p = 0 then .win 1 else if p = 1 then .loss 0 else .draw, by decide, rfl, rfl, rfl⟩

/-! ## 1b. The retrograde generator itself

`TB/Retro.lean` is `TBGenerator::generate` (tbgen.cpp:481-612) over the interface it uses of `TBPosition` (an index
graph `IG`: number of indices, `indexValid`, `canTakeKing`, `getMoves`, `getUnMoves`, `swapSide`): the same four
phases, the same in-place table with the same cell encoding, the `newMated`/`oldMated` block flags and the
`idx += 63; continue;` skip, the adjacent-duplicate skip on the sorted move lists, the REMAINING counters.
`TB/RetroChess.lean` instantiates it with transcriptions of `getMoves` / `getUnMoves` on `TBIndex` words. -/

open TB.Retro in
/-- **retrograde_terminates.**  For every material class the generator's loop `for (n = 1; ; n++)` is left through
    `if (modified == 0) break;` (every scan that modifies something computes at least one more entry). -/
theorem retrograde_terminates (cls : Cls) : (generate (igOf cls.cc)).finished = true :=
  generate_finished (igOf_h64 cls.cc (by simp only [Cls.cc]; omega))

open TB.Retro in
/-- the same for every index graph whose size is a multiple of 64 (the flag arrays have `nPos / 64` entries) -/
theorem retrograde_terminates_abstract (G : IG) (h64 : G.nPos % 64 = 0) : (generate G).finished = true :=
  generate_finished h64

open TB.Retro in
/-- **retrograde_local_rule.**  Let `G` be an index graph satisfying the obligations `OK` — chiefly: on the legal
    indices `getUnMoves` is the converse of `getMoves` — whose generation needs at most 63 scans (so that no
    MATE_IN / MATED_IN value leaves its byte range).  Then the generated table has `nPos` entries, holds INVALID at
    every invalid index, MATE_IN_0 at every index whose side to move can take the king, and at every legal index a
    game value that satisfies the certificate checker's local rule `Cert.expected` over the legal successor indices;
    all cells are in `-1 … 126`, i.e. the `Int` cells are the `S8` cells of the C++. -/
theorem retrograde_local_rule (G : IG) (hG : OK G) (hp : (generate G).passes ≤ 63) :
    (generate G).tab.size = G.nPos ∧
    ∀ i, i < G.nPos →
      (G.valid i = false → rd (generate G).tab i = -1) ∧
      (G.valid i = true → G.takeK i = true → rd (generate G).tab i = 64) ∧
      (legalI G i → ∃ v, decodeS (rd (generate G).tab i) = some v ∧
        v = expected (gameI G) (valT (generate G).tab) i) ∧
      (-1 ≤ rd (generate G).tab i ∧ rd (generate G).tab i ≤ 126) :=
  generate_spec hG hp

open TB.Retro in
/-- **retrograde_exact.**  Under the same hypotheses the cell of every legal index decodes to the exact distance to
    mate of the game "legal index ↦ its successor indices that are not king captures; in check = the index with the
    other side to move is a king capture". -/
theorem retrograde_exact (G : IG) (hG : OK G) (hp : (generate G).passes ≤ 63) (i : Nat) (hi : legalI G i) :
    decodeS (rd (generate G).tab i) = some (DTM (gameI G) i) :=
  generate_exact hG hp i hi

open TB.Retro in
/-- **retrograde_exact_partial.**  For a material class: if the executable check of the obligations `OK (igOf c)`
    (`okCheckCached` or `okCheckDirect`: index ranges, and *getUnMoves is the converse of getMoves on all legal
    indices* — un-captures by either king included) and the executable check `homCheck` (every legal position has a
    legal index; its legal successors are mapped onto the index's non-king-capture successors; "in check" agrees)
    evaluate to `true`, and the run needs at most 63 scans, then the bytes of the table the generator model produces
    are accepted by the certificate checker — hence (`certificate_sound_table`) hold the exact distance to mate of
    **every** legal position of the class at the index Texel's mapping assigns to it.

    Full-strength statement `retrograde_exact_chess` (not proved): the same conclusion for every class of at most four
    men without the three hypotheses.  Missing: a proof, once and for all classes, that `okCheck…` and `homCheck`
    hold (a symmetry / canonisation argument about `TBIndex`) and that no 4-man distance exceeds 62.  Instead the
    compiled driver *evaluates* the two proven-sound checks per class on every run (all 2- and 3-man classes in the
    quick tier; 4-man classes in the thorough tier) and reports the number of scans; the tie to the C++ is the
    byte-for-byte comparison of the model's table with the real `TBGenerator` table and the complete comparison of
    `getMoves` / `getUnMoves` with their transcriptions. -/
theorem retrograde_exact_partial (cls : Cls)
    (hok : okCheckCached (igOf cls.cc) = true ∨ okCheckDirect (igOf cls.cc) = true)
    (hhom : homCheck cls.cc = true) (hp : (generate (igOf cls.cc)).passes ≤ 63) :
    checkTable cls.cc cls.cc.shape (bytes (generate (igOf cls.cc)).tab) = true ∧
    ∀ p, legal cls.cc p = true →
      ∃ i, indexOf cls.cc.shape p = some i ∧ i < (bytes (generate (igOf cls.cc)).tab).size ∧
        decodeByte (readByte (bytes (generate (igOf cls.cc)).tab) i) = some (DTM (game cls.cc) p) := by
  have hs := igOf_sorted cls.cc
  have hG : OK (igOf cls.cc) := by
    rcases hok with h | h
    · exact okCheckCached_sound _ hs.1 hs.2 h
    · exact okCheckDirect_sound _ hs.1 hs.2 h
  have hn2 : 2 ≤ cls.cc.n := by simp only [Cls.cc]; omega
  have hT := retro_checkTable cls.cc hn2 hG hhom hp
  exact ⟨hT, (certificate_sound_table cls _ hT).2⟩

open TB.Retro in
/-- the obligations are exactly what the un-move generator must satisfy: a generator that drops a predecessor (here
    the toy graph without the un-move 1 ↦ 0) fails the executable check — and then the table is wrong: index 0,
    a mate in 1, is left a draw -/
theorem retrograde_needs_converse :
    okCheckDirect { toy with unmoves := fun _ => [] } = false ∧
    decodeS (rd (generate { toy with unmoves := fun _ => [] }).tab 0) = some .draw ∧
    decodeS (rd (generate toy).tab 0) = some (.win 1) := by decide +kernel

open TB.Retro in
/-- the hypotheses of `retrograde_local_rule` / `retrograde_exact` are satisfiable (toy graph: 0 → 1, 1 checkmated,
    2 stalemated), and the run gives win 1 / loss 0 / draw -/
example : OK toy ∧ (generate toy).passes ≤ 63 ∧
    (generate toy).tab.toList.take 5 = [65, 63, 0, 64, -1] :=
  ⟨okCheckDirect_sound toy (by intro i; simp only [toy]; split <;> simp) (by intro i; simp only [toy]; split <;> simp)
    (by decide), by decide +kernel, by decide +kernel⟩

/-! ## 2. What `probeDTM` returns -/

/-- **probe_score.**  For an accepted table, `probeDTM` (model) on any legal position of the class returns a hit, and
    the score is `MATE0 - ply - 2n` for "mate in n", `-(MATE0 - ply - 2n - 1)` for "mated in n", 0 for a draw,
    `n` being the exact distance. -/
theorem probe_score (cls : Cls) (T : ByteArray)
    (h : ∀ k1, k1 ≤ 64 → ∀ k2, k2 ≤ 64 → checkUnit cls.cc cls.cc.shape T k1 k2 = true)
    (p : Pos) (hp : legal cls.cc p = true) (ply : Int) :
    probeDTM cls.cc.shape T (toBoard cls.cc.shape p) ply = some (scoreOf (DTM (game cls.cc) p) ply) := by
  obtain ⟨i, hi, _, hd⟩ := certificate_sound cls T h p hp
  have hi' : cls.cc.shape.setPosition (toBoard cls.cc.shape p) = some i := hi
  simp only [probeDTM, hi']
  exact convert_decode _ _ ply hd

/-- the conversion agrees with the search's mate scores: the search gives `-(MATE0 - (q+1))` to the side that is
    checkmated at ply `q` (search.cpp), and negates once per ply towards the root.  "Mate in n" at ply `ply` means the
    opponent is checkmated at ply `ply + 2n - 1`; "mated in n" means being checkmated at ply `ply + 2n`. -/
theorem score_convention (n : Nat) (ply : Int) :
    (1 ≤ n → scoreOf (.win n) ply = -(-(MATE0 - ((ply + 2 * n - 1) + 1)))) ∧
    scoreOf (.loss n) ply = -(MATE0 - ((ply + 2 * n) + 1)) := by
  constructor
  · intro _; simp only [scoreOf]; omega
  · simp only [scoreOf]; omega

/-- … and with the UCI `score mate` output of search.cpp (`(MATE0 - s) / 2`, resp. `-((MATE0 + s - 1) / 2)`) at the root -/
theorem uci_mate_distance (n : Nat) :
    (MATE0 - scoreOf (.win n) 0) / 2 = n ∧ -((MATE0 + scoreOf (.loss n) 0 - 1) / 2) = -(n : Int) := by
  constructor
  · simp only [scoreOf, MATE0]; omega
  · simp only [scoreOf, MATE0]; omega

/-- decoding and score conversion read the same byte ranges: whenever a byte is a game value `probeDTM` converts it
    to that value's score, and whenever it is not (MATE_IN_0 = "king can be taken", INVALID, UNINITIALIZED,
    UNKNOWN / REMAINING_n) `probeDTM` reports a miss -/
theorem convert_iff_decode (s ply : Int) :
    (∀ v, decodeS s = some v → convertS s ply = some (scoreOf v ply)) ∧ (decodeS s = none → convertS s ply = none) := by
  refine ⟨fun v h => convert_decode s v ply h, ?_⟩
  intro h
  unfold decodeS at h
  unfold convertS
  split at h
  · cases h
  · split at h
    · cases h
    · split at h
      · cases h
      · next h1 h2 h3 => simp [h1, h2, h3]

/-! ## 3. Positions outside the table's scope are reported as not found -/

/-- a position with castling rights is never answered -/
theorem out_of_scope_castle (sh : Shape) (T : ByteArray) (b : Board) (ply : Int) (h : b.castle ≠ 0) :
    probeDTM sh T b ply = none := by
  simp only [probeDTM, setPosition_castle sh b h]

/-- a position that has more men of some piece code (pawns included) than the table's class has slots for that
    code — other material, or simply more men — is never answered -/
theorem out_of_scope_material (sh : Shape) (T : ByteArray) (b : Board) (ply : Int) (c : Nat)
    (h : sh.types.count c < countCode c b.men) : probeDTM sh T b ply = none := by
  simp only [probeDTM, setPosition_material sh b c h]

/-- e.g. a KRK position probed in a KQK table, a KQKR position in a KQK table, a position with a pawn -/
example : (Cls.mk [.Q] []).cc.shape.setPosition { men := sortMen [mkMan 1 4, mkMan 7 60, mkMan 3 27], wtm := true, castle := 0 } = none := by decide
example : (Cls.mk [.Q] []).cc.shape.setPosition { men := sortMen [mkMan 1 4, mkMan 7 60, mkMan 2 27, mkMan 9 30], wtm := true, castle := 0 } = none := by decide
example : (Cls.mk [.Q] []).cc.shape.setPosition { men := sortMen [mkMan 1 4, mkMan 7 60, mkMan 6 12], wtm := true, castle := 0 } = none := by decide

/-- the index-level audit: if `checkAux` accepts the index range, then in that range every index that is not a
    canonical placement holds INVALID, every index whose side to move could take the king holds MATE_IN_0, and
    `probeDTM`'s conversion reports a miss for both -/
theorem aux_not_answered (c : CC) (sh : Shape) (T : ByteArray) (lo hi : Nat) (h : checkAux c sh T lo hi = true)
    (i : Nat) (h1 : lo ≤ i) (h2 : i < hi) (ply : Int) :
    (sh.indexValid i.toUInt64 = false → readByte T i = 0xFF ∧ convertS (s8 (readByte T i)) ply = none) ∧
    (sh.indexValid i.toUInt64 = true → canTakeKing c (posOfIndex sh i.toUInt64) = true →
        readByte T i = 64 ∧ convertS (s8 (readByte T i)) ply = none) := by
  simp only [checkAux, List.all_eq_true, List.mem_range'_1] at h
  have hi := h i ⟨h1, by omega⟩
  unfold auxAt at hi
  constructor
  · intro hv
    simp only [hv, Bool.not_false, if_true, beq_iff_eq] at hi
    refine ⟨hi, ?_⟩
    have : s8 0xFF = -1 := by decide
    rw [hi, this]; simp [convertS]
  · intro hv hc
    simp only [hv, Bool.not_true, Bool.false_eq_true, if_false, hc, if_true, beq_iff_eq] at hi
    refine ⟨hi, ?_⟩
    have : s8 64 = 64 := by decide
    rw [hi, this]; simp [convertS]

/-! ## 4. The game model is self-consistent -/

/-- a man attacks exactly the squares it could move to by the movement rules (one table of lines serves both) -/
theorem attacks_iff_reach (k : Kind) (occ : SqSet) (s t : Nat) : attacks k occ s t = (reach k occ s).contains t :=
  (reach_contains k occ s t).symm

/-- the tabulated lines are the geometric ones (rays of Q/R/B in walking order, jumps of K/N) on all 64 squares -/
theorem lines_are_geometric (k : Kind) (s : Nat) (h : s < 64) : lines k s = linesSpec k s := lines_eq k s h

/-! ## 5. An aborted generation never leaves a partial table in use -/

open TB.Abort in
/-- **abort_not_installed (repaired code).**  Whatever the state, if `updateTB` runs the generator and the generator
    aborts, then afterwards no generator is installed (`probeDTM` answers nothing), the whole table is used for
    hashing again, and `updateTB` returns false. -/
theorem abort_not_installed (st : St) (m : Mat) (g : Bool) (h : earlyHit st m g = false) :
    let r := stepFixed st (.update m .abort g)
    r.2 = false ∧ probeAnswers r.1 = false ∧ r.1.reduced = false := by
  simp [stepFixed, stepCommon, h, probeAnswers]

open TB.Abort in
/-- along every history of `updateTB` calls (finishing, aborting, refused for lack of time), unsuitable roots, hash
    stores and `clear`, the repaired code consults only a completely generated table that hash stores cannot touch -/
theorem resident_table_always_complete (evs : List Ev) :
    let st := run stepFixed {} evs
    probeAnswers st = true → st.complete = true ∧ st.reduced = true :=
  run_safe evs {} (by intro h; cases h)

open TB.Abort in
/-- **abort_not_installed_witness (code before the `fix:` commit).**  One aborted generation and the table is
    consulted although it is incomplete and open to hash stores; a second `updateTB` for the same material (whose
    probe of the root happens to hit the garbage) returns "table present" without generating anything. -/
theorem abort_not_installed_witness :
    let st1 := (stepOrig {} (.update [1,0,0,0,0,1,0,0] .abort false)).1
    probeAnswers st1 = true ∧ st1.complete = false ∧ st1.reduced = false ∧
    (stepOrig st1 (.update [1,0,0,0,0,1,0,0] .noTime true)).2 = true ∧
    (stepOrig st1 (.update [1,0,0,0,0,1,0,0] .noTime true)).1.complete = false := by decide

end Props.C12
