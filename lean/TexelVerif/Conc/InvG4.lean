import TexelVerif.Conc.Progress
/-! The activity invariant `G4`.  A ghost counter `gen v` counts the STOPs a communicator has processed
    (for the root: the stop rounds it has started); a helper is "old" while the current stop wave has not
    reached it (`gen v + 1 = gen r`).  A helper can be active (job, inside `doSearch`, START queued or
    pending) only inside its round, while the root is still searching, or while it is old. -/
namespace Conc

variable {n : Nat}

/-- STOPs on their way from `p` to `v` -/
def stopIn (s : St n) (p v : Fin n) : Nat := cStop (s.q v) + pStop (s.out p) v
/-- STOP_ACKs on their way from `v` to `p` -/
def ackIn (s : St n) (p v : Fin n) : Nat := cAck (s.q p) v + pAck (s.out v) p v

theorem debt_split (s : St n) (p v : Fin n) :
    debt s p v = stopIn s p v + (if inRound s v then 1 else 0) + ackIn s p v := by
  unfold debt stopIn ackIn; omega

/-- the engine thread is between `sendInitSearch` and `sendStopSearch` -/
def actPc : Pc → Bool
  | .esearch => true
  | .ehold true => true
  | .ebest true => true
  | .estop => true
  | _ => false

def actR (s : St n) (r : Fin n) : Bool := actPc (s.pc r)

def isSearch : Pc → Bool
  | .search _ => true
  | _ => false

/-- helper `v` has a job, is inside `doSearch`, or has a START queued or about to be forwarded -/
def act (s : St n) (v : Fin n) : Bool :=
  (s.jobId v).isSome || isSearch (s.pc v) || hasStart (s.q v) || hasPStart (s.out v)

structure G4 (r : Fin n) (s : St n) : Prop where
  gN : ∀ v, s.alive v = true → s.gen v ≤ s.gen r
  gN2 : ∀ v, s.alive v = true → s.gen r ≤ s.gen v + 1
  gM : ∀ p v, isChild s p v = true → s.gen v ≤ s.gen p
  gX : ∀ p v, isChild s p v = true → 0 < stopIn s p v → s.gen v + 1 = s.gen r ∧ s.gen p = s.gen r
  gW : ∀ p v, isChild s p v = true → s.gen v + 1 = s.gen r → 0 < stopIn s p v ∨ s.gen p + 1 = s.gen r
  gZ : ∀ v, s.alive v = true → v ≠ r → inRound s v = true → s.gen v = s.gen r
  gZ2 : ∀ p v, isChild s p v = true → 0 < ackIn s p v → s.gen v = s.gen r
  j1 : ∀ v, s.alive v = true → v ≠ r → inRound s v = true → s.jobId v = none
  j2 : ∀ v, s.alive v = true → v ≠ r → inRound s v = true → s.selfWait v = false → isSearch (s.pc v) = false
  a : ∀ v, s.alive v = true → v ≠ r → act s v = true → inRound s v = true ∨ actR s r = true ∨ s.gen v + 1 = s.gen r

/-- outside a stop round of the root every helper has seen all stop waves -/
theorem G4.all_new {r : Fin n} {s : St n} (h1 : G1 r s) (h : G4 r s) (hr : inRound s r = false) :
    ∀ v, s.alive v = true → s.gen v = s.gen r := by
  have key : ∀ d v, s.depth v = d → s.alive v = true → s.gen v = s.gen r := by
    intro d
    induction d using Nat.strongRecOn with
    | _ d ih =>
      intro v hd hv
      by_cases hvr : v = r
      · subst hvr; rfl
      · obtain ⟨p, hp, hpa⟩ := h1.par v hv hvr
        have hc : isChild s p v = true := (isChild_iff s p v).2 ⟨hv, hp⟩
        have hlt := h1.dep v p hv hp
        have hgp := ih (s.depth p) (by omega) p rfl hpa
        have hN := h.gN v hv
        have hN2 := h.gN2 v hv
        by_cases hold : s.gen v + 1 = s.gen r
        · rcases h.gW p v hc hold with hst | hpo
          · have := h1.quiescent_edge hr hc
            unfold stopIn at hst; omega
          · omega
        · omega
  intro v hv
  exact key (s.depth v) v rfl hv

/-- **idle helpers**: when the engine thread is neither searching nor collecting acks, no helper has a job,
    is inside `doSearch`, or has a START queued or pending -/
theorem G4.idle {r : Fin n} {s : St n} (h1 : G1 r s) (h : G4 r s) (hr : inRound s r = false) (ha : actR s r = false)
    (v : Fin n) (hv : s.alive v = true) (hvr : v ≠ r) : act s v = false := by
  cases hact : act s v
  · rfl
  · rcases h.a v hv hvr hact with h1' | h2 | h3
    · rw [h1.quiescent hr v hv] at h1'; cases h1'
    · rw [ha] at h2; cases h2
    · have := h.all_new h1 hr v hv; omega

end Conc
