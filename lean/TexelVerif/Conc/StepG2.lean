import TexelVerif.Conc.InvG2
/-! Every step preserves the notifier invariant `G2` (given the counting invariant `G1`). -/
namespace Conc

variable {n : Nat}

theorem quitPc_upd {r v : Fin n} {pc : Fin n → Pc} {x : Pc} (hx : v = r → quitPc (pc r) = true → quitPc x = true)
    (h : quitPc (pc r) = true) : quitPc (upd pc v x r) = true := by
  by_cases hrv : r = v
  · subst hrv; rw [upd_same]; exact hx rfl h
  · rw [upd_other _ _ _ _ hrv]; exact h

theorem oj_trivial {x : Pc} {jb : Option Nat} (h1 : ∀ j, x ≠ .search j) (h2 : x ≠ .ackSelf) (h3 : x ≠ .wait) :
    (∀ j, x = .search j → jb = some j) ∧ ((x = .ackSelf ∨ x = .wait) → jb = none) :=
  ⟨fun j hj => absurd hj (h1 j), fun hj => by rcases hj with hj | hj; exact absurd hj h2; exact absurd hj h3⟩

theorem any_tail {α : Type} {p : α → Bool} {c : α} {l : List α} (h : l.any p = true) : (c :: l).any p = true := by
  rw [List.any_cons, h]; simp

/-- the QUIT phase excludes stop rounds everywhere -/
theorem quit_no_round {r : Fin n} {s : St n} (h1 : G1 r s) (hq : quitPc (s.pc r) = true) (v : Fin n) (va : s.alive v = true) :
    s.selfWait v = false ∧ s.childWait v = 0 := by
  have hnr : inRound s r = false := h1.root_not_inRound (by cases hp : s.pc r <;> simp [hp, quitPc] at hq <;> rfl)
  have := h1.quiescent hnr v va
  simp [inRound] at this
  exact this

theorem stepWaitRet_G2 {r : Fin n} {s s' : St n} (h : G2 r s) (v : Fin n) (hs : stepWaitRet s v = some s') : G2 r s' := by
  unfold stepWaitRet at hs
  split at hs
  · rename_i hg
    obtain ⟨va, hout, hwp, hfl⟩ := hg
    cases hs
    refine h.local v (afterWait (s.pc v)) (s.q v) (s.out v) false (s.selfWait v) (s.quitWait v) (s.jobId v) rfl (by simp) (by simp) rfl (by simp) (by simp) (by simp) rfl ?_ ?_ ?_ ?_ ?_
    · apply quitPc_upd
      intro e hq; subst e
      cases hp : s.pc v <;> simp [hp, isWaitPc] at hwp <;> simp [hp, quitPc] at hq <;> rfl
    · intro hq
      have := h.qphase v va hq
      revert this; apply quitPc_upd
      intro e hq; subst e
      cases hp : s.pc v <;> simp [hp, isWaitPc] at hwp <;> simp [hp, quitPc] at hq <;> rfl
    · intro hsw
      have := h.ns v va hsw
      cases hp : s.pc v <;> simp [hp, isWaitPc] at hwp <;> simp [hp, selfPc] at this
    · intro hqp
      cases hp : s.pc v <;> simp [hp, isWaitPc] at hwp <;> simp [hp, afterWait, quietPc] at hqp
    · intro _
      constructor
      · intro j hj
        cases hp : s.pc v <;> simp [hp, isWaitPc] at hwp <;> simp [hp, afterWait] at hj
      · intro hj
        cases hp : s.pc v <;> simp [hp, isWaitPc] at hwp <;> simp [hp, afterWait] at hj
  · cases hs

theorem stepSearchLeave_G2 {r : Fin n} {s s' : St n} (h1 : G1 r s) (h : G2 r s) (v : Fin n) (m : Bool)
    (hs : stepSearchLeave s v m = some s') : G2 r s' := by
  unfold stepSearchLeave at hs
  split at hs
  · rename_i hg
    split at hs
    · rename_i j hpc
      have hne : v ≠ r := h1.worker_ne_root hg.1 (by rw [hpc]; rfl)
      have hnv : r ≠ v := fun e => hne e.symm
      have oq1 : quitPc (s.pc r) = true → quitPc (upd s.pc v .ackSelf r) = true := by
        intro hq; rw [upd_other _ _ _ _ hnv]; exact hq
      have hon : quietPc Pc.ackSelf = true → s.flag v = false → s.q v = [] := fun _ hf => h.nq v hg.1 (by rw [hpc]; rfl) hf
      split at hs
      · cases hs
        refine h.local v .ackSelf (s.q v) (s.out v) (s.flag v) (s.selfWait v) (s.quitWait v) none rfl (by simp) (by simp) (by simp) (by simp) (by simp) rfl rfl
          oq1 (fun hq => oq1 (h.qphase v hg.1 hq)) (fun _ => rfl) hon (fun _ => ⟨(by intro j hj; cases hj), fun _ => rfl⟩)
      · split at hs
        · rename_i hjob
          cases hs
          refine h.local v .ackSelf (s.q v) (s.out v) (s.flag v) (s.selfWait v) (s.quitWait v) (s.jobId v) rfl (by simp) (by simp) (by simp) (by simp) (by simp) (by simp) rfl
            oq1 (fun hq => oq1 (h.qphase v hg.1 hq)) (fun _ => rfl) hon ?_
          intro hf
          exact absurd ((h.nj v hg.1 hf).1 j hpc) hjob
        · cases hs
    · cases hs
  · cases hs

theorem any_isQuit_bcast (s : St n) (p : Fin n) (x : Cmd n) (hx : x.isQuit = false) : (bcast s p x).any Out.isQuit = false := by
  unfold bcast
  rw [List.any_eq_false]
  intro o ho
  obtain ⟨c, _, e⟩ := List.mem_map.1 ho
  subst e
  simp [Out.isQuit, hx]

theorem any_isQuit_toParent (s : St n) (v : Fin n) (x : Cmd n) (hx : x.isQuit = false) : (toParent s v x).any Out.isQuit = false := by
  unfold toParent
  split <;> simp [Out.isQuit, hx]

/-- which components a helper's command handler changes -/
theorem handleW_fields (s : St n) (v : Fin n) (c : Cmd n) (hout : s.out v = []) :
    ∃ (ol : List (Out n)) (sw : Bool) (qw : Int) (jb : Option Nat),
      (handleW s v c).alive = s.alive ∧ (handleW s v c).q = s.q ∧ (handleW s v c).out = upd s.out v ol ∧
      (handleW s v c).flag = s.flag ∧ (handleW s v c).selfWait = upd s.selfWait v sw ∧
      (handleW s v c).quitWait = upd s.quitWait v qw ∧ (handleW s v c).jobId = upd s.jobId v jb ∧
      (handleW s v c).pc = s.pc ∧
      (c.isQuit = false → ol.any Out.isQuit = false ∧ qw = s.quitWait v) := by
  cases c with
  | init =>
    exact ⟨bcast s v .init, s.selfWait v, s.quitWait v, none, rfl, rfl, rfl, rfl, by simp [handleW], by simp [handleW], rfl, rfl,
      fun _ => ⟨any_isQuit_bcast s v _ rfl, rfl⟩⟩
  | start e j =>
    exact ⟨bcast s v (.start e j), s.selfWait v, s.quitWait v, some j, rfl, rfl, rfl, rfl, by simp [handleW], by simp [handleW], rfl, rfl,
      fun _ => ⟨any_isQuit_bcast s v _ rfl, rfl⟩⟩
  | stop =>
    refine ⟨Out.notify v :: bcast s v .stop, true, s.quitWait v, none, rfl, rfl, rfl, rfl, rfl, by simp [handleW], rfl, rfl,
      fun _ => ⟨?_, rfl⟩⟩
    rw [List.any_cons, any_isQuit_bcast s v _ rfl]; rfl
  | quit =>
    simp only [handleW]
    split
    · exact ⟨toParent s v (.quitAck v), s.selfWait v, 0, s.jobId v, rfl, rfl, rfl, rfl, by simp, rfl, by simp, rfl, fun hc => by simp [Cmd.isQuit] at hc⟩
    · exact ⟨bcast s v .quit, s.selfWait v, (nChildren s v : Int), s.jobId v, rfl, rfl, rfl, rfl, by simp, rfl, by simp, rfl, fun hc => by simp [Cmd.isQuit] at hc⟩
  | report src e j =>
    simp only [handleW]
    split
    · exact ⟨toParent s v (.report v e j), s.selfWait v, s.quitWait v, s.jobId v, rfl, rfl, rfl, rfl, by simp, by simp, by simp, rfl,
        fun _ => ⟨any_isQuit_toParent s v _ rfl, rfl⟩⟩
    · exact ⟨s.out v, s.selfWait v, s.quitWait v, s.jobId v, rfl, rfl, by simp, rfl, by simp, by simp, by simp, rfl,
        fun _ => ⟨by rw [hout]; rfl, rfl⟩⟩
  | ack src =>
    refine ⟨_, s.selfWait v, s.quitWait v, s.jobId v, rfl, rfl, rfl, rfl, by simp [handleW], by simp [handleW], by simp [handleW], rfl,
      fun _ => ⟨?_, rfl⟩⟩
    split
    · exact any_isQuit_toParent s v _ rfl
    · rfl
  | quitAck src =>
    exact ⟨_, s.selfWait v, s.quitWait v - 1, s.jobId v, rfl, rfl, rfl, rfl, by simp [handleW], rfl, by simp [handleW], rfl,
      fun hc => by simp [Cmd.isQuit] at hc⟩

theorem stepDeq_G2 {r : Fin n} {s s' : St n} (h1 : G1 r s) (h : G2 r s) (v : Fin n) (hs : stepDeq s v = some s') : G2 r s' := by
  unfold stepDeq at hs
  split at hs
  · rename_i hg
    obtain ⟨va, hout⟩ := hg
    split at hs
    · cases hs
    · rename_i c rest hq
      simp only at hs
      have hflag : quietPc (s.pc v) = true → s.flag v = true := by
        intro hqp
        cases hf : s.flag v
        · have := h.nq v va hqp hf; rw [hq] at this; cases this
        · rfl
      have hanyq : rest.any Cmd.isQuit = true → (s.q v).any Cmd.isQuit = true := by
        intro hh; rw [hq]; exact any_tail hh
      have hheadq : c.isQuit = true → (s.q v).any Cmd.isQuit = true := by
        intro hh; rw [hq, List.any_cons, hh]; rfl
      -- the helper case, uniform in the command
      have worker : (s.pc v = .poll ∨ ∃ j, s.pc v = .search j) → G2 r (handleW { s with q := upd s.q v rest } v c) := by
        intro hpcv
        obtain ⟨ol, sw, qw, jb, e1, e2, e3, e4, e5, e6, e7, e8, e9⟩ := handleW_fields { s with q := upd s.q v rest } v c hout
        refine h.local v (s.pc v) rest ol (s.flag v) sw qw jb e1 e2 e3 (by rw [e4]; simp) e5 e6 e7 (by rw [e8]; simp)
          (by rw [e8]; exact fun hq => hq) ?_ ?_ ?_ ?_
        · intro hqq
          rw [e8]
          cases hcq : c.isQuit
          · obtain ⟨f1, f2⟩ := e9 hcq
            rcases hqq with hh | hh | hh
            · exact h.qphase v va (Or.inl (hanyq hh))
            · rw [f1] at hh; cases hh
            · rw [f2] at hh; exact h.qphase v va (Or.inr (Or.inr hh))
          · exact h.qphase v va (Or.inl (hheadq hcq))
        · intro _
          rcases hpcv with e | ⟨j, e⟩ <;> rw [e] <;> rfl
        · intro hqp hf
          rw [hflag hqp] at hf; cases hf
        · intro hf
          rcases hpcv with e | ⟨j, e⟩
          · rw [e]; exact oj_trivial (by intro j hj; cases hj) (by intro hj; cases hj) (by intro hj; cases hj)
          · rw [hflag (by rw [e]; rfl)] at hf; cases hf
      split at hs
      · rename_i hpc; cases hs; exact worker (Or.inl hpc)
      · rename_i j hpc; cases hs; exact worker (Or.inr ⟨j, hpc⟩)
      · rename_i hpc; cases hs
        refine h.local v (s.pc v) rest (s.out v) (s.flag v) (s.selfWait v) (s.quitWait v) (s.jobId v) rfl rfl (by simp) (by simp) (by simp) (by simp) (by simp) (by simp)
          (fun hq => hq) ?_ (fun hsw => h.ns v va hsw) (by rw [hpc]; intro hh; cases hh) ?_
        · intro hqq
          rcases hqq with hh | hh | hh
          · exact h.qphase v va (Or.inl (hanyq hh))
          · exact h.qphase v va (Or.inr (Or.inl hh))
          · exact h.qphase v va (Or.inr (Or.inr hh))
        · intro _; rw [hpc]; exact oj_trivial (by intro j hj; cases hj) (by intro hj; cases hj) (by intro hj; cases hj)
      · rename_i hpc; cases hs
        have hvr : v = r := h1.root_pc va (by rw [hpc]; rfl)
        have hkeep : (handleE { s with q := upd s.q v rest } v .ecollect c).quitWait = s.quitWait := by
          cases c <;> rfl
        have hsw : (handleE { s with q := upd s.q v rest } v .ecollect c).selfWait = s.selfWait := by
          cases c <;> rfl
        refine h.local v (s.pc v) rest (s.out v) (s.flag v) (s.selfWait v) (s.quitWait v) (s.jobId v) (by cases c <;> rfl) (by cases c <;> rfl)
          (by cases c <;> simp [handleE]) (by cases c <;> simp [handleE]) (by rw [hsw]; simp) (by rw [hkeep]; simp) (by cases c <;> simp [handleE]) (by cases c <;> simp [handleE])
          (by cases c <;> exact fun hq => hq) ?_ (fun hsw => h.ns v va hsw) (by rw [hpc]; intro hh; cases hh) ?_
        · intro hqq
          have : quitPc (s.pc r) = true := by
            rcases hqq with hh | hh | hh
            · exact h.qphase v va (Or.inl (hanyq hh))
            · exact h.qphase v va (Or.inr (Or.inl hh))
            · exact h.qphase v va (Or.inr (Or.inr hh))
          cases c <;> exact this
        · intro _; rw [hpc]; exact oj_trivial (by intro j hj; cases hj) (by intro hj; cases hj) (by intro hj; cases hj)
      · rename_i hpc; cases hs
        have hvr : v = r := h1.root_pc va (by rw [hpc]; rfl)
        subst hvr
        have hqp : quitPc (s.pc v) = true := by rw [hpc]; rfl
        have hsw : (handleE { s with q := upd s.q v rest } v .equit c).selfWait = s.selfWait := by
          cases c <;> rfl
        refine h.local v (s.pc v) rest (s.out v) (s.flag v) (s.selfWait v) ((handleE { s with q := upd s.q v rest } v .equit c).quitWait v) (s.jobId v)
          (by cases c <;> rfl) (by cases c <;> rfl)
          (by cases c <;> simp [handleE]) (by cases c <;> simp [handleE]) (by rw [hsw]; simp) ?_ (by cases c <;> simp [handleE]) (by cases c <;> simp [handleE])
          (by cases c <;> exact fun hq => hq) (by intro _; cases c <;> exact hqp) (fun hsw => h.ns v va hsw) (by rw [hpc]; intro hh; cases hh) ?_
        · cases c <;> simp [handleE]
        · intro _; rw [hpc]; exact oj_trivial (by intro j hj; cases hj) (by intro hj; cases hj) (by intro hj; cases hj)
      · cases hs
  · cases hs

theorem G2.qphase_keep {r : Fin n} {s : St n} (h : G2 r s) (v : Fin n) (va : s.alive v = true) :
    ((s.q v).any Cmd.isQuit = true ∨ (s.out v).any Out.isQuit = true ∨ s.quitWait v ≠ -1) → quitPc (s.pc r) = true :=
  h.qphase v va

theorem stepPollEmpty_G2 {r : Fin n} {s s' : St n} (h1 : G1 r s) (h : G2 r s) (v : Fin n) (hs : stepPollEmpty s v = some s') : G2 r s' := by
  unfold stepPollEmpty at hs
  split at hs
  · rename_i hg
    obtain ⟨va, hout, hqe⟩ := hg
    split at hs
    · rename_i hpc; cases hs
      have hne : v ≠ r := h1.worker_ne_root va (by rw [hpc]; rfl)
      have hnv : r ≠ v := fun e => hne e.symm
      have oq1 : ∀ x, quitPc (s.pc r) = true → quitPc (upd s.pc v x r) = true := by
        intro x hq; rw [upd_other _ _ _ _ hnv]; exact hq
      refine h.local v _ (s.q v) (s.out v) (s.flag v) (s.selfWait v) (s.quitWait v) (s.jobId v) rfl (by simp) (by simp) (by simp) (by simp) (by simp) (by simp) rfl
        (oq1 _) (fun hq => oq1 _ (h.qphase v va hq)) ?_ (fun _ _ => hqe) ?_
      · intro hsw
        split
        · rename_i hqw
          -- the QUIT phase excludes stop rounds
          have hqp := h.qphase v va (Or.inr (Or.inr (by rw [hqw]; decide)))
          rw [(quit_no_round h1 hqp v va).1] at hsw; cases hsw
        · split <;> rfl
      · intro _
        split
        · exact oj_trivial (by intro j hj; cases hj) (by intro hj; cases hj) (by intro hj; cases hj)
        · split
          · rename_i j hj
            exact ⟨fun j' e => by cases e; exact hj, fun e => by rcases e with e | e <;> cases e⟩
          · rename_i hj
            exact ⟨fun j' e => (by cases e), fun _ => hj⟩
    · cases hs; exact h
    · cases hs; exact h
    · rename_i hpc
      have hvr : v = r := h1.root_pc va (by rw [hpc]; rfl)
      subst hvr
      have hnq : quitPc (s.pc v) = false := by rw [hpc]; rfl
      have hq0 : ¬ ((s.q v).any Cmd.isQuit = true ∨ (s.out v).any Out.isQuit = true ∨ s.quitWait v ≠ -1) := by
        intro hh; have := h.qphase v va hh; rw [hnq] at this; cases this
      have hsw0 : s.selfWait v = false := by
        cases hh : s.selfWait v
        · rfl
        · have := h.ns v va hh; rw [hpc] at this; cases this
      split at hs
      · cases hs
        refine h.local v .epost (s.q v) [Out.notify v] (s.flag v) (s.selfWait v) (s.quitWait v) (s.jobId v) rfl (by simp) rfl (by simp) (by simp) (by simp) (by simp) rfl
          (by intro hq; rw [hnq] at hq; cases hq) ?_ (by intro hh; rw [hsw0] at hh; cases hh) (by intro hh; cases hh)
          (fun _ => oj_trivial (by intro j hj; cases hj) (by intro hj; cases hj) (by intro hj; cases hj))
        intro hh; exfalso; apply hq0
        rcases hh with hh | hh | hh
        · exact Or.inl hh
        · simp [Out.isQuit] at hh
        · exact Or.inr (Or.inr hh)
      · cases hs
        refine h.local v .ecwait (s.q v) (s.out v) (s.flag v) (s.selfWait v) (s.quitWait v) (s.jobId v) rfl (by simp) (by simp) (by simp) (by simp) (by simp) (by simp) rfl
          (by intro hq; rw [hnq] at hq; cases hq) (fun hh => absurd hh hq0) (by intro hh; rw [hsw0] at hh; cases hh) (fun _ _ => hqe)
          (fun _ => oj_trivial (by intro j hj; cases hj) (by intro hj; cases hj) (by intro hj; cases hj))
    · rename_i hpc; cases hs
      have hvr : v = r := h1.root_pc va (by rw [hpc]; rfl)
      subst hvr
      have hsw0 : s.selfWait v = false := by
        cases hh : s.selfWait v
        · rfl
        · have := h.ns v va hh; rw [hpc] at this; cases this
      have hx : quitPc (if s.quitWait v = 0 then Pc.edone else Pc.eqwait) = true := by split <;> rfl
      refine h.local v _ (s.q v) (s.out v) (s.flag v) (s.selfWait v) (s.quitWait v) (s.jobId v) rfl (by simp) (by simp) (by simp) (by simp) (by simp) (by simp) rfl
        (by intro _; show quitPc (upd s.pc v _ v) = true; rw [upd_same]; exact hx)
        (by intro _; show quitPc (upd s.pc v _ v) = true; rw [upd_same]; exact hx)
        (by intro hh; rw [hsw0] at hh; cases hh) (fun _ _ => hqe) ?_
      intro _
      split
      · exact oj_trivial (by intro j hj; cases hj) (by intro hj; cases hj) (by intro hj; cases hj)
      · exact oj_trivial (by intro j hj; cases hj) (by intro hj; cases hj) (by intro hj; cases hj)
    · cases hs
  · cases hs

theorem stepAckSelf_G2 {r : Fin n} {s s' : St n} (h1 : G1 r s) (h : G2 r s) (v : Fin n) (hs : stepAckSelf s v = some s') : G2 r s' := by
  unfold stepAckSelf at hs
  split at hs
  · rename_i hg
    obtain ⟨va, hout⟩ := hg
    split at hs
    · rename_i hpc
      have hne : v ≠ r := h1.worker_ne_root va (by rw [hpc]; rfl)
      have hnv : r ≠ v := fun e => hne e.symm
      have oq1 : quitPc (s.pc r) = true → quitPc (upd s.pc v .wait r) = true := by
        intro hq; rw [upd_other _ _ _ _ hnv]; exact hq
      have hon : quietPc Pc.wait = true → s.flag v = false → s.q v = [] := fun _ hf => h.nq v va (by rw [hpc]; rfl) hf
      have hoj : s.flag v = false → (∀ j, Pc.wait = .search j → s.jobId v = some j) ∧ ((Pc.wait = .ackSelf ∨ Pc.wait = .wait) → s.jobId v = none) :=
        fun hf => ⟨fun j e => (by cases e), fun _ => (h.nj v va hf).2 (Or.inl hpc)⟩
      split at hs
      · cases hs
        refine h.local v .wait (s.q v) _ (s.flag v) false (s.quitWait v) (s.jobId v) rfl (by simp) rfl (by simp) rfl (by simp) (by simp) rfl
          oq1 ?_ (by intro hh; cases hh) hon hoj
        intro hh
        apply oq1
        rcases hh with hh | hh | hh
        · exact h.qphase v va (Or.inl hh)
        · exfalso
          split at hh
          · rw [any_isQuit_toParent s v _ rfl] at hh; cases hh
          · cases hh
        · exact h.qphase v va (Or.inr (Or.inr hh))
      · cases hs
        refine h.local v .wait (s.q v) (s.out v) (s.flag v) (s.selfWait v) (s.quitWait v) (s.jobId v) rfl (by simp) (by simp) (by simp) (by simp) (by simp) (by simp) rfl
          oq1 (fun hq => oq1 (h.qphase v va hq)) ?_ hon hoj
        intro hsw; rename_i hns; exact absurd hsw hns
    · rename_i hpc; cases hs
      have hvr : v = r := h1.root_pc va (by rw [hpc]; rfl)
      subst hvr
      have hnq : quitPc (s.pc v) = false := by rw [hpc]; rfl
      refine h.local v .ecollect (s.q v) (s.out v) (s.flag v) false (s.quitWait v) (s.jobId v) rfl (by simp) (by simp) (by simp) rfl (by simp) (by simp) rfl
        (by intro hq; rw [hnq] at hq; cases hq) ?_ (by intro hh; cases hh) (by intro hh; cases hh)
        (fun _ => oj_trivial (by intro j hj; cases hj) (by intro hj; cases hj) (by intro hj; cases hj))
      intro hh; have := h.qphase v va hh; rw [hnq] at this; cases this
    · cases hs
  · cases hs

theorem stepSearchResult_G2 {r : Fin n} {s s' : St n} (h : G2 r s) (v : Fin n) (hs : stepSearchResult s v = some s') : G2 r s' := by
  unfold stepSearchResult at hs
  split at hs
  · rename_i hg
    obtain ⟨va, hout⟩ := hg
    split at hs
    · rename_i j hpc
      split at hs
      · cases hs
        refine h.local v (s.pc v) (s.q v) _ (s.flag v) (s.selfWait v) (s.quitWait v) (s.jobId v) rfl (by simp) rfl (by simp) (by simp) (by simp) (by simp) (by simp)
          (fun hq => hq) ?_ (fun hsw => h.ns v va hsw) (fun hqp hf => h.nq v va hqp hf) (fun hf => h.nj v va hf)
        intro hh
        rcases hh with hh | hh | hh
        · exact h.qphase v va (Or.inl hh)
        · rw [any_isQuit_toParent s v _ rfl] at hh; cases hh
        · exact h.qphase v va (Or.inr (Or.inr hh))
      · cases hs; exact h
    · cases hs
  · cases hs

theorem enginePc_not_worker {x : Pc} {jb : Option Nat} (hx : isEnginePc x = true) :
    (∀ j, x = .search j → jb = some j) ∧ ((x = .ackSelf ∨ x = .wait) → jb = none) := by
  refine oj_trivial ?_ ?_ ?_
  · intro j e; subst e; cases hx
  · intro e; subst e; cases hx
  · intro e; subst e; cases hx

/-- an engine-thread step that moves its program counter and possibly sets non-QUIT pending actions -/
theorem G2.root_move {r : Fin n} {s s' : St n} (h : G2 r s) (x : Pc) (ol : List (Out n))
    (ha : s'.alive = s.alive) (hq : s'.q = s.q) (ho : s'.out = upd s.out r ol)
    (hf : s'.flag = s.flag) (h3 : s'.selfWait = s.selfWait) (hw : s'.quitWait = s.quitWait)
    (hj : s'.jobId = s.jobId) (hpc : s'.pc = upd s.pc r x)
    (hra : s.alive r = true)
    (hol : ol.any Out.isQuit = true → (s.out r).any Out.isQuit = true)
    (hx1 : quietPc x = false) (hx2 : isEnginePc x = true)
    (hsp : selfPc (s.pc r) = true → selfPc x = true)
    (hqp : quitPc (s.pc r) = true → quitPc x = true) : G2 r s' := by
  have hpcr : quitPc (s.pc r) = true → quitPc (s'.pc r) = true := by
    intro hh; rw [hpc, upd_same]; exact hqp hh
  refine h.local r x (s.q r) ol (s.flag r) (s.selfWait r) (s.quitWait r) (s.jobId r) ha (by rw [hq]; simp) ho (by rw [hf]; simp)
    (by rw [h3]; simp) (by rw [hw]; simp) (by rw [hj]; simp) hpc hpcr ?_ ?_ ?_ (fun _ => enginePc_not_worker hx2)
  · intro hh
    apply hpcr
    rcases hh with hh | hh | hh
    · exact h.qphase r hra (Or.inl hh)
    · exact h.qphase r hra (Or.inr (Or.inl (hol hh)))
    · exact h.qphase r hra (Or.inr (Or.inr hh))
  · intro hsw; exact hsp (h.ns r hra hsw)
  · intro hh; rw [hx1] at hh; cases hh

theorem stepERdPre_G2 {r : Fin n} {s s' : St n} (h1 : G1 r s) (h : G2 r s) (x : Var) (hs : stepERdPre r s x = some s') : G2 r s' := by
  have hra := h1.rootAlive
  unfold stepERdPre at hs
  split at hs
  · rename_i hg
    split at hs
    · rename_i hpc; cases hs
      exact h.root_move .eQ1 (s.out r) rfl rfl (by simp [setPc]) rfl rfl rfl rfl rfl hra (fun hh => hh) rfl rfl (by rw [hpc]; intro hh; cases hh) (by rw [hpc]; intro hh; cases hh)
    · rename_i hpc; cases hs
      exact h.root_move .eS1 (s.out r) rfl rfl (by simp [setPc]) rfl rfl rfl rfl rfl hra (fun hh => hh) rfl rfl (by rw [hpc]; intro hh; cases hh) (by rw [hpc]; intro hh; cases hh)
    · cases hs; exact ⟨h.qphase, h.ns, h.nq, h.nj⟩
    · cases hs; exact ⟨h.qphase, h.ns, h.nq, h.nj⟩
    · cases hs
  · cases hs

theorem stepERd_G2 {r : Fin n} {s s' : St n} (h1 : G1 r s) (h : G2 r s) (x : Var) (b : Bool) (hs : stepERd r s x b = some s') : G2 r s' := by
  have hra := h1.rootAlive
  unfold stepERd at hs
  split at hs
  · rename_i hg
    split at hs
    · rename_i hpc
      split at hs
      · cases hs
        refine h.root_move (if b then .eQuit0 else .eOpts1) (s.out r) rfl rfl (by simp [setPc]) rfl rfl rfl rfl rfl hra (fun hh => hh) ?_ ?_ (by rw [hpc]; intro hh; cases hh) (by rw [hpc]; intro hh; cases hh)
        · cases b <;> rfl
        · cases b <;> rfl
      · cases hs
    · rename_i hpc
      split at hs
      · cases hs
        refine h.root_move (if b then .eBegin else .ewait) (s.out r) rfl rfl (by simp [setPc]) rfl rfl rfl rfl rfl hra (fun hh => hh) ?_ ?_ (by rw [hpc]; intro hh; cases hh) (by rw [hpc]; intro hh; cases hh)
        · cases b <;> rfl
        · cases b <;> rfl
      · cases hs
    · cases hs
  · cases hs

theorem stepEOpts_G2 {r : Fin n} {s s' : St n} (h1 : G1 r s) (h : G2 r s) (k : Bool) (hs : stepEOpts r s k = some s') : G2 r s' := by
  have hra := h1.rootAlive
  unfold stepEOpts at hs
  split at hs
  · rename_i hg
    split at hs
    · rename_i hpc; cases hs
      cases k
      · exact h.root_move .eS0 (s.out r) rfl rfl (by simp [setPc]) rfl rfl rfl rfl rfl hra (fun hh => hh) rfl rfl (by rw [hpc]; intro hh; cases hh) (by rw [hpc]; intro hh; cases hh)
      · exact ⟨h.qphase, h.ns, h.nq, h.nj⟩
    · rename_i hpc; cases hs
      cases k
      · exact h.root_move .eend (s.out r) rfl rfl (by simp [setPc]) rfl rfl rfl rfl rfl hra (fun hh => hh) rfl rfl (by rw [hpc]; intro hh; cases hh) (by rw [hpc]; intro hh; cases hh)
      · exact ⟨h.qphase, h.ns, h.nq, h.nj⟩
    · cases hs
  · cases hs

theorem stepE_G2 {r : Fin n} {s s' : St n} (h1 : G1 r s) (h : G2 r s) (e : Ev n) (hs : stepE r s e = some s') : G2 r s' := by
  have hra := h1.rootAlive
  cases e <;> simp only [stepE] at hs <;> try (cases hs)
  case eBegin =>
    split at hs
    · rename_i hg; cases hs
      exact h.root_move .eGo (s.out r) rfl rfl (by simp [setPc]) rfl rfl rfl rfl rfl hra (fun hh => hh) rfl rfl (by rw [hg.2]; intro hh; cases hh) (by rw [hg.2]; intro hh; cases hh)
    · cases hs
  case eInit =>
    split at hs
    · rename_i hg; cases hs
      exact h.root_move .esearch (bcast s r .init) rfl rfl rfl rfl rfl rfl rfl rfl hra (by rw [any_isQuit_bcast s r _ rfl]; intro hh; cases hh) rfl rfl (by rw [hg.2]; intro hh; cases hh) (by rw [hg.2]; intro hh; cases hh)
    · cases hs
  case eJobNext =>
    split at hs
    · rename_i hg; cases hs
      exact h.root_move .esearch (bcast s r (.start s.epoch (s.ejob + 1))) rfl rfl rfl rfl rfl rfl rfl (by rw [← hg.2]; simp) hra (by rw [any_isQuit_bcast s r _ rfl]; intro hh; cases hh) rfl rfl (by rw [hg.2]; intro hh; cases hh) (by rw [hg.2]; intro hh; cases hh)
    · cases hs
  case eSearchDone =>
    split at hs
    · rename_i hg; cases hs
      exact h.root_move (.ehold true) (s.out r) rfl rfl (by simp [setPc]) rfl rfl rfl rfl rfl hra (fun hh => hh) rfl rfl (by rw [hg.2]; intro hh; cases hh) (by rw [hg.2]; intro hh; cases hh)
    · cases hs
  case eHoldDone =>
    split at hs
    · rename_i hg
      split at hs
      · rename_i hpc; cases hs
        exact h.root_move (.ebest false) (s.out r) rfl rfl (by simp [setPc]) rfl rfl rfl rfl rfl hra (fun hh => hh) rfl rfl (by rw [hpc]; intro hh; cases hh) (by rw [hpc]; intro hh; cases hh)
      · rename_i ws hpc; cases hs
        exact h.root_move (.ebest ws) (s.out r) rfl rfl (by simp [setPc]) rfl rfl rfl rfl rfl hra (fun hh => hh) rfl rfl (by rw [hpc]; intro hh; cases hh) (by rw [hpc]; intro hh; cases hh)
      · cases hs
    · cases hs
  case eBest =>
    split at hs
    · rename_i hg
      split at hs
      · rename_i ws hpc; cases hs
        refine h.root_move (if ws then .estop else .epost) (s.out r) rfl rfl (by simp [setPc]) rfl rfl rfl rfl rfl hra (fun hh => hh) ?_ ?_ (by rw [hpc]; intro hh; cases hh) (by rw [hpc]; intro hh; cases hh)
        · cases ws <;> rfl
        · cases ws <;> rfl
      · cases hs
    · cases hs
  case eStopSend =>
    split at hs
    · rename_i hg; cases hs
      have hnq : quitPc (s.pc r) = false := by rw [hg.2]; rfl
      refine h.local r .eack (s.q r) (Out.notify r :: bcast s r .stop) (s.flag r) true (s.quitWait r) (s.jobId r) rfl (by simp [setPc]) rfl (by simp [setPc]) rfl (by simp [setPc]) (by simp [setPc]) rfl
        (by intro hh; rw [hnq] at hh; cases hh) ?_ (fun _ => rfl) (by intro hh; cases hh) (fun _ => enginePc_not_worker rfl)
      intro hh; exfalso
      have : quitPc (s.pc r) = true := by
        rcases hh with hh | hh | hh
        · exact h.qphase r hra (Or.inl hh)
        · rw [List.any_cons, any_isQuit_bcast s r _ rfl] at hh; simp [Out.isQuit] at hh
        · exact h.qphase r hra (Or.inr (Or.inr hh))
      rw [hnq] at this; cases this
    · cases hs
  case eSearchEnd =>
    split at hs
    · rename_i hg; cases hs
      exact h.root_move .ewait (s.out r) rfl rfl (by simp [setPc]) rfl rfl rfl rfl rfl hra (fun hh => hh) rfl rfl (by rw [hg.2.1]; intro hh; cases hh) (by rw [hg.2.1]; intro hh; cases hh)
    · cases hs
  case eQuitSend =>
    split at hs
    · rename_i hg; cases hs
      have hsw0 : s.selfWait r = false := by
        cases hh : s.selfWait r
        · rfl
        · have := h.ns r hra hh; rw [hg.2] at this; cases this
      split
      · refine h.local r .equit (s.q r) (s.out r) (s.flag r) (s.selfWait r) 0 (s.jobId r) rfl (by simp [setPc]) (by simp [setPc]) (by simp [setPc]) (by simp [setPc]) rfl (by simp [setPc]) rfl
          (fun _ => by show quitPc (upd s.pc r .equit r) = true; rw [upd_same]; rfl) (fun _ => by show quitPc (upd s.pc r .equit r) = true; rw [upd_same]; rfl)
          (by intro hh; rw [hsw0] at hh; cases hh) (by intro hh; cases hh) (fun _ => enginePc_not_worker rfl)
      · refine h.local r .equit (s.q r) (bcast s r .quit) (s.flag r) (s.selfWait r) (nChildren s r : Int) (s.jobId r) rfl (by simp [setPc]) rfl (by simp [setPc]) (by simp [setPc]) rfl (by simp [setPc]) rfl
          (fun _ => by show quitPc (upd s.pc r .equit r) = true; rw [upd_same]; rfl) (fun _ => by show quitPc (upd s.pc r .equit r) = true; rw [upd_same]; rfl)
          (by intro hh; rw [hsw0] at hh; cases hh) (by intro hh; cases hh) (fun _ => enginePc_not_worker rfl)
    · cases hs

/-- protocol-thread steps touch nothing `G2` reads, except that `pNotify` sets a flag -/
theorem stepP_G2 {r : Fin n} {s s' : St n} (h : G2 r s) (e : Ev n) (hs : stepP r s e = some s') : G2 r s' := by
  have same : ∀ s'' : St n, s''.alive = s.alive → s''.q = s.q → s''.out = s.out → s''.flag = s.flag → s''.selfWait = s.selfWait →
      s''.quitWait = s.quitWait → s''.jobId = s.jobId → s''.pc = s.pc → G2 r s'' := by
    intro s'' a1 a2 a3 a4 a5 a6 a7 a8
    refine ⟨?_, ?_, ?_, ?_⟩
    · intro v; rw [a1, a2, a3, a6, a8]; exact h.qphase v
    · intro v; rw [a1, a5, a8]; exact h.ns v
    · intro v; rw [a1, a8, a4, a2]; exact h.nq v
    · intro v; rw [a1, a4, a8, a7]; exact h.nj v
  cases e <;> simp only [stepP] at hs <;> try (cases hs)
  case pWr x b =>
    cases x <;> simp only [stepPWr] at hs <;> try (cases hs)
    all_goals (split at hs <;> first | (cases hs; exact same _ rfl rfl rfl rfl rfl rfl rfl rfl) | cases hs)
  case pWd x =>
    cases x <;> simp only [stepPWd] at hs <;> try (cases hs)
    all_goals (split at hs <;> first | (cases hs; exact same _ rfl rfl rfl rfl rfl rfl rfl rfl) | cases hs)
  case pWaitStop =>
    split at hs
    · cases hs; exact h
    · cases hs
  case pWaitOpts =>
    split at hs
    · cases hs; exact h
    · cases hs
  case pSetOpt =>
    split at hs
    · cases hs; exact same _ rfl rfl rfl rfl rfl rfl rfl rfl
    · cases hs
  case pNotify t =>
    refine ⟨h.qphase, h.ns, ?_, ?_⟩
    · intro v hv hqp hf
      by_cases hvt : v = t
      · subst hvt; simp at hf
      · simp [hvt] at hf; exact h.nq v hv hqp hf
    · intro v hv hf
      by_cases hvt : v = t
      · subst hvt; simp at hf
      · simp [hvt] at hf; exact h.nj v hv hf

theorem any_erase {α : Type} [BEq α] [LawfulBEq α] {p : α → Bool} {l : List α} {o : α} (h : (l.erase o).any p = true) : l.any p = true := by
  rw [List.any_eq_true] at h ⊢
  obtain ⟨x, hx, hp⟩ := h
  exact ⟨x, List.mem_of_mem_erase hx, hp⟩

theorem any_isQuit_pushCmd {l : List (Cmd n)} {c : Cmd n} (h : (pushCmd l c).any Cmd.isQuit = true) :
    l.any Cmd.isQuit = true ∨ c.isQuit = true := by
  rw [List.any_eq_true] at h
  obtain ⟨x, hx, hp⟩ := h
  unfold pushCmd at hx
  rcases List.mem_append.1 hx with h1 | h1
  · left; rw [List.any_eq_true]
    refine ⟨x, ?_, hp⟩
    split at h1
    · exact (List.mem_filter.1 h1).1
    · exact h1
  · right; simp at h1; rw [← h1]; exact hp

theorem stepSend_G2 {r : Fin n} {s s' : St n} (h : G2 r s) (v : Fin n) (o : Out n) (hs : stepSend s v o = some s') : G2 r s' := by
  unfold stepSend at hs
  split at hs
  · rename_i hg
    obtain ⟨va, hmo⟩ := hg
    cases hs
    cases o with
    | notify t =>
      refine ⟨?_, h.ns, ?_, ?_⟩
      · intro w hw hqq
        apply h.qphase w hw
        rcases hqq with hh | hh | hh
        · exact Or.inl hh
        · right; left
          by_cases hwv : w = v
          · subst hwv; simp [applyOut] at hh
            rw [List.any_eq_true]
            obtain ⟨x, hx, hp⟩ := hh
            exact ⟨x, List.mem_of_mem_erase hx, hp⟩
          · simp [applyOut, hwv] at hh
            rw [List.any_eq_true]; exact hh
        · exact Or.inr (Or.inr hh)
      · intro w hw hqp hf
        by_cases hwt : w = t
        · subst hwt; simp [applyOut] at hf
        · simp [applyOut, hwt] at hf; exact h.nq w hw hqp hf
      · intro w hw hf
        by_cases hwt : w = t
        · subst hwt; simp [applyOut] at hf
        · simp [applyOut, hwt] at hf; exact h.nj w hw hf
    | enq t c =>
      refine ⟨?_, h.ns, ?_, ?_⟩
      · intro w hw hqq
        have hsrc : c.isQuit = true → quitPc (s.pc r) = true := by
          intro hc
          apply h.qphase v va; right; left
          rw [List.any_eq_true]; exact ⟨_, hmo, by simpa [Out.isQuit] using hc⟩
        rcases hqq with hh | hh | hh
        · by_cases hwt : w = t
          · subst hwt
            simp only [applyOut, upd_same] at hh
            rcases any_isQuit_pushCmd hh with h1 | h1
            · exact h.qphase w hw (Or.inl h1)
            · exact hsrc h1
          · simp only [applyOut, upd_other _ _ _ _ hwt] at hh
            exact h.qphase w hw (Or.inl hh)
        · apply h.qphase w hw; right; left
          by_cases hwv : w = v
          · subst hwv; simp only [applyOut, upd_same] at hh; exact any_erase hh
          · simp only [applyOut, upd_other _ _ _ _ hwv] at hh; exact hh
        · exact h.qphase w hw (Or.inr (Or.inr hh))
      · intro w hw hqp hf
        by_cases hwt : w = t
        · subst hwt; simp [applyOut] at hf
        · simp only [applyOut, upd_other _ _ _ _ hwt] at hf ⊢; exact h.nq w hw hqp hf
      · intro w hw hf
        by_cases hwt : w = t
        · subst hwt; simp [applyOut] at hf
        · simp only [applyOut, upd_other _ _ _ _ hwt] at hf; exact h.nj w hw hf
  · cases hs

theorem stepSpawn_G2 {r : Fin n} {s s' : St n} (h : G2 r s) (v p : Fin n) (hs : stepSpawn r s v p = some s') : G2 r s' := by
  unfold stepSpawn at hs
  split at hs
  · rename_i hg
    obtain ⟨hav, hap, hvr, hvp, hqv, hov, _⟩ := hg
    cases hs
    have hrv : r ≠ v := fun e => hvr e.symm
    have old : ∀ w, w ≠ v → upd s.alive v true w = true → s.alive w = true := by
      intro w hw hh; rw [upd_other _ _ _ _ hw] at hh; exact hh
    refine ⟨?_, ?_, ?_, ?_⟩
    · intro w hw hqq
      show quitPc (upd s.pc v .wait r) = true
      rw [upd_other _ _ _ _ hrv]
      by_cases hwv : w = v
      · subst hwv; simp [hqv, hov] at hqq
      · simp only [upd_other _ _ _ _ hwv] at hqq
        exact h.qphase w (old w hwv hw) hqq
    · intro w hw hsw
      by_cases hwv : w = v
      · subst hwv; simp at hsw
      · simp only [upd_other _ _ _ _ hwv] at hsw ⊢; exact h.ns w (old w hwv hw) hsw
    · intro w hw hqp hf
      by_cases hwv : w = v
      · subst hwv; exact hqv
      · simp only [upd_other _ _ _ _ hwv] at hqp hf; exact h.nq w (old w hwv hw) hqp hf
    · intro w hw hf
      by_cases hwv : w = v
      · subst hwv; simp
      · simp only [upd_other _ _ _ _ hwv] at hf ⊢; exact h.nj w (old w hwv hw) hf
  · cases hs

theorem stepExit_G2 {r : Fin n} {s s' : St n} (h : G2 r s) (v : Fin n) (hs : stepExit r s v = some s') : G2 r s' := by
  unfold stepExit at hs
  split at hs
  · cases hs
    have old : ∀ w, upd s.alive v false w = true → s.alive w = true := by
      intro w hh
      by_cases hw : w = v
      · subst hw; simp at hh
      · rw [upd_other _ _ _ _ hw] at hh; exact hh
    exact ⟨fun w hw => h.qphase w (old w hw), fun w hw => h.ns w (old w hw), fun w hw => h.nq w (old w hw), fun w hw => h.nj w (old w hw)⟩
  · cases hs

theorem stepTend_G2 {r : Fin n} {s s' : St n} (h : G2 r s) (v : Fin n) (hs : stepTend r s v = some s') : G2 r s' := by
  unfold stepTend at hs
  split at hs
  · rename_i hg
    obtain ⟨va, hvr, hpc, hout, hq, hsw, _⟩ := hg
    cases hs
    have hrv : r ≠ v := fun e => hvr e.symm
    have oq1 : quitPc (s.pc r) = true → quitPc (upd s.pc v .gone r) = true := by
      intro hq'; rw [upd_other _ _ _ _ hrv]; exact hq'
    exact h.local v .gone (s.q v) (s.out v) (s.flag v) (s.selfWait v) (s.quitWait v) (s.jobId v) rfl (by simp) (by simp) (by simp) (by simp) (by simp) (by simp) rfl
      oq1 (fun hq' => oq1 (h.qphase v va hq')) (by intro hh; rw [hsw] at hh; cases hh) (by intro hh; cases hh)
      (fun _ => oj_trivial (by intro j hj; cases hj) (by intro hj; cases hj) (by intro hj; cases hj))
  · cases hs

theorem init_G2 (r : Fin n) : G2 r (init r) := by
  refine ⟨?_, ?_, ?_, ?_⟩
  · intro v _ hq; simp [init] at hq
  · intro v _ hsw; simp [init] at hsw
  · intro v _ _ _; simp [init]
  · intro v hv _
    simp [init] at hv; subst hv
    simp [init]

theorem step_G2 {r : Fin n} {s s' : St n} (h1 : G1 r s) (h : G2 r s) (e : Ev n) (hs : step r s e = some s') : G2 r s' := by
  cases e with
  | waitRet v => exact stepWaitRet_G2 h v hs
  | deq v => exact stepDeq_G2 h1 h v hs
  | pollEmpty v => exact stepPollEmpty_G2 h1 h v hs
  | send v o => exact stepSend_G2 h v o hs
  | ackSelf v => exact stepAckSelf_G2 h1 h v hs
  | searchResult v => exact stepSearchResult_G2 h v hs
  | searchLeave v m => exact stepSearchLeave_G2 h1 h v m hs
  | spawn v p => exact stepSpawn_G2 h v p hs
  | tend v => exact stepTend_G2 h v hs
  | exit v => exact stepExit_G2 h v hs
  | eRdPre x => exact stepERdPre_G2 h1 h x hs
  | eRd x b => exact stepERd_G2 h1 h x b hs
  | eOpts k => exact stepEOpts_G2 h1 h k hs
  | eStopSend => exact stepE_G2 h1 h .eStopSend hs
  | eBegin => exact stepE_G2 h1 h .eBegin hs
  | eInit => exact stepE_G2 h1 h .eInit hs
  | eJobNext => exact stepE_G2 h1 h .eJobNext hs
  | eSearchDone => exact stepE_G2 h1 h .eSearchDone hs
  | eHoldDone => exact stepE_G2 h1 h .eHoldDone hs
  | eBest => exact stepE_G2 h1 h .eBest hs
  | eSearchEnd => exact stepE_G2 h1 h .eSearchEnd hs
  | eQuitSend => exact stepE_G2 h1 h .eQuitSend hs
  | pWr x b => exact stepP_G2 h (.pWr x b) hs
  | pWd x => exact stepP_G2 h (.pWd x) hs
  | pWaitStop => exact stepP_G2 h .pWaitStop hs
  | pWaitOpts => exact stepP_G2 h .pWaitOpts hs
  | pSetOpt => exact stepP_G2 h .pSetOpt hs
  | pNotify t => exact stepP_G2 h (.pNotify t) hs

theorem reach_G2 {r : Fin n} {s : St n} (h : Reach r s) : G2 r s := by
  induction h with
  | init => exact init_G2 r
  | step s s' e hr hs ih => exact step_G2 (reach_G1 hr) ih e hs

end Conc
