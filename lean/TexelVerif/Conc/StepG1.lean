import TexelVerif.Conc.InvG1
/-! Every step of the protocol model preserves the counting invariant `G1`. -/
namespace Conc

variable {n : Nat}

/-- a step of the thread owning `v` that only moves its program counter (and fields outside `G1`) -/
theorem G1.frame_pc {r : Fin n} {s s' : St n} (h : G1 r s) (v : Fin n) (x : Pc)
    (ha : s'.alive = s.alive) (hp : s'.parent = s.parent) (hd : s'.depth = s.depth)
    (h1 : s'.q = s.q) (h2 : s'.out = s.out) (h3 : s'.selfWait = s.selfWait) (h4 : s'.childWait = s.childWait)
    (hpc : s'.pc = upd s.pc v x) (hout : s.out v = [])
    (hk : isEnginePc x = isEnginePc (s.pc v))
    (hr : v = r → roundPc (s.pc r) = true → roundPc x = true) : G1 r s' := by
  apply h.frame ha hp hd h1 h2 h3 h4
  · intro w _
    rw [hpc]
    by_cases hw : w = v
    · subst hw; simp [hk]
    · simp [hw]
  · intro hir
    rw [hpc]
    by_cases hv : r = v
    · subst hv; simp; exact hr rfl (h.rootRound hir)
    · simp [hv]; exact h.rootRound hir
  · intro hst
    by_cases hv : r = v
    · subst hv; rw [hout] at hst; simp [hasPStart] at hst
    · rw [hpc]; simp [hv]; exact h.rootStart hst

/-- a step that changes nothing `G1` looks at -/
theorem G1.frame_same {r : Fin n} {s s' : St n} (h : G1 r s)
    (ha : s'.alive = s.alive) (hp : s'.parent = s.parent) (hd : s'.depth = s.depth)
    (h1 : s'.q = s.q) (h2 : s'.out = s.out) (h3 : s'.selfWait = s.selfWait) (h4 : s'.childWait = s.childWait)
    (hpc : s'.pc = s.pc) : G1 r s' := by
  apply h.frame ha hp hd h1 h2 h3 h4
  · intro w _; rw [hpc]
  · intro hir; rw [hpc]; exact h.rootRound hir
  · intro hst; rw [hpc]; exact h.rootStart hst

theorem stepWaitRet_G1 {r : Fin n} {s s' : St n} (h : G1 r s) (v : Fin n) (hs : stepWaitRet s v = some s') : G1 r s' := by
  unfold stepWaitRet at hs
  split at hs
  · rename_i hg
    cases hs
    refine h.frame_pc v (afterWait (s.pc v)) rfl rfl rfl rfl rfl rfl rfl rfl hg.2.1 ?_ ?_
    · cases hpc : s.pc v <;> simp [hpc, isWaitPc] at hg <;> simp [afterWait, isEnginePc]
    · intro hv; subst hv
      cases hpc : s.pc v <;> simp [hpc, isWaitPc] at hg <;> simp [afterWait, roundPc]
  · cases hs

theorem stepSearchLeave_G1 {r : Fin n} {s s' : St n} (h : G1 r s) (v : Fin n) (m : Bool)
    (hs : stepSearchLeave s v m = some s') : G1 r s' := by
  unfold stepSearchLeave at hs
  split at hs
  · rename_i hg
    split at hs
    · rename_i j hpc
      have hne : v ≠ r := by
        intro e
        have := (h.pcKind v hg.1).2 e
        rw [hpc] at this; simp [isEnginePc] at this
      split at hs
      · cases hs
        exact h.frame_pc v .ackSelf rfl rfl rfl rfl rfl rfl rfl rfl hg.2 (by rw [hpc]; rfl) (fun e => absurd e hne)
      · split at hs
        · cases hs
          exact h.frame_pc v .ackSelf rfl rfl rfl rfl rfl rfl rfl rfl hg.2 (by rw [hpc]; rfl) (fun e => absurd e hne)
        · cases hs
    · cases hs
  · cases hs

/-- a step of the engine thread that only moves its program counter -/
theorem G1.frame_root {r : Fin n} {s s' : St n} (h : G1 r s) (x : Pc)
    (ha : s'.alive = s.alive) (hp : s'.parent = s.parent) (hd : s'.depth = s.depth)
    (h1 : s'.q = s.q) (h2 : s'.out = s.out) (h3 : s'.selfWait = s.selfWait) (h4 : s'.childWait = s.childWait)
    (hpc : s'.pc = upd s.pc r x) (hout : s.out r = [])
    (hx : isEnginePc x = true) (hr : roundPc (s.pc r) = true → roundPc x = true) : G1 r s' :=
  h.frame_pc r x ha hp hd h1 h2 h3 h4 hpc hout (by rw [hx, (h.pcKind r h.rootAlive).2 rfl]) (fun _ => hr)

theorem stepERdPre_G1 {r : Fin n} {s s' : St n} (h : G1 r s) (x : Var) (hs : stepERdPre r s x = some s') : G1 r s' := by
  unfold stepERdPre at hs
  split at hs
  · rename_i hg
    split at hs
    · rename_i hpc; cases hs
      exact h.frame_root .eQ1 rfl rfl rfl rfl rfl rfl rfl rfl hg rfl (by rw [hpc]; simp [roundPc])
    · rename_i hpc; cases hs
      exact h.frame_root .eS1 rfl rfl rfl rfl rfl rfl rfl rfl hg rfl (by rw [hpc]; simp [roundPc])
    · cases hs; exact h.frame_same rfl rfl rfl rfl rfl rfl rfl rfl
    · cases hs; exact h.frame_same rfl rfl rfl rfl rfl rfl rfl rfl
    · cases hs
  · cases hs

theorem stepERd_G1 {r : Fin n} {s s' : St n} (h : G1 r s) (x : Var) (b : Bool) (hs : stepERd r s x b = some s') : G1 r s' := by
  unfold stepERd at hs
  split at hs
  · rename_i hg
    split at hs
    · rename_i hpc
      split at hs
      · cases hs
        refine h.frame_root (if b then .eQuit0 else .eOpts1) rfl rfl rfl rfl rfl rfl rfl rfl hg ?_ (by rw [hpc]; simp [roundPc])
        cases b <;> rfl
      · cases hs
    · rename_i hpc
      split at hs
      · cases hs
        refine h.frame_root (if b then .eBegin else .ewait) rfl rfl rfl rfl rfl rfl rfl rfl hg ?_ (by rw [hpc]; simp [roundPc])
        cases b <;> rfl
      · cases hs
    · cases hs
  · cases hs

theorem stepEOpts_G1 {r : Fin n} {s s' : St n} (h : G1 r s) (k : Bool) (hs : stepEOpts r s k = some s') : G1 r s' := by
  unfold stepEOpts at hs
  split at hs
  · rename_i hg
    split at hs
    · rename_i hpc; cases hs
      cases k
      · exact h.frame_root .eS0 rfl rfl rfl rfl rfl rfl rfl rfl hg.1 rfl (by rw [hpc]; simp [roundPc])
      · exact h.frame_same rfl rfl rfl rfl rfl rfl rfl rfl
    · rename_i hpc; cases hs
      cases k
      · exact h.frame_root .eend rfl rfl rfl rfl rfl rfl rfl rfl hg.1 rfl (by rw [hpc]; simp [roundPc])
      · exact h.frame_same rfl rfl rfl rfl rfl rfl rfl rfl
    · cases hs
  · cases hs

theorem stepP_G1 {r : Fin n} {s s' : St n} (h : G1 r s) (e : Ev n) (hs : stepP r s e = some s') : G1 r s' := by
  cases e <;> simp only [stepP] at hs <;> try (cases hs)
  case pWr x b =>
    cases x <;> simp only [stepPWr] at hs <;> try (cases hs)
    all_goals (split at hs <;> first | (cases hs; exact h.frame_same rfl rfl rfl rfl rfl rfl rfl rfl) | cases hs)
  case pWd x =>
    cases x <;> simp only [stepPWd] at hs <;> try (cases hs)
    all_goals (split at hs <;> first | (cases hs; exact h.frame_same rfl rfl rfl rfl rfl rfl rfl rfl) | cases hs)
  case pWaitStop =>
    split at hs
    · cases hs; exact h
    · cases hs
  case pWaitOpts =>
    split at hs
    · cases hs; exact h
    · cases hs
  case pSetOpt =>
    split at hs
    · cases hs; exact h.frame_same rfl rfl rfl rfl rfl rfl rfl rfl
    · cases hs
  case pNotify t =>
    exact h.frame_same rfl rfl rfl rfl rfl rfl rfl rfl

/-! ### steps of thread `v` that pop a neutral command and/or set neutral pending actions -/

theorem hasStart_cons (c : Cmd n) (l : List (Cmd n)) : hasStart (c :: l) = (c.isStart || hasStart l) := by
  simp [hasStart]

theorem G1.neutral {r : Fin n} {s s' : St n} (h : G1 r s) (v : Fin n) (x : Pc) (ql : List (Cmd n)) (l : List (Out n))
    (va : s.alive v = true)
    (ha : s'.alive = s.alive) (hp : s'.parent = s.parent) (hd : s'.depth = s.depth)
    (h3 : s'.selfWait = s.selfWait) (h4 : s'.childWait = s.childWait)
    (hq : s'.q = upd s.q v ql)
    (hql : ql = s.q v ∨ ∃ c, s.q v = c :: ql ∧ c ≠ Cmd.stop ∧ ∀ d, c ≠ Cmd.ack d)
    (ho : s'.out = upd s.out v l) (hout : s.out v = [])
    (hl1 : ∀ d, pStop l d = 0) (hl2 : ∀ p d, pAck l p d = 0) (hl3 : ∀ o, o ∈ l → OutOk s v o)
    (hst : hasPStart l = true → (v ≠ r → inRound s v = false) ∧ (v = r → x = .esearch))
    (hpc : s'.pc = upd s.pc v x)
    (hk : isEnginePc x = isEnginePc (s.pc v))
    (hr : v = r → roundPc (s.pc r) = true → roundPc x = true) : G1 r s' := by
  have hic := isChild_congr ha hp
  have hir := inRound_congr h3 h4
  have hcs : cStop ql = cStop (s.q v) := by
    rcases hql with e | ⟨c, e, h1, _⟩
    · rw [e]
    · rw [e, cStop_cons]; simp [h1]
  have hca : ∀ d, cAck ql d = cAck (s.q v) d := by
    intro d
    rcases hql with e | ⟨c, e, _, h2⟩
    · rw [e]
    · rw [e, cAck_cons]; simp [h2 d]
  have hmem : ∀ c, c ∈ ql → c ∈ s.q v := by
    intro c hc
    rcases hql with e | ⟨c', e, _, _⟩
    · rw [← e]; exact hc
    · rw [e]; exact List.mem_cons_of_mem _ hc
  have hdc : ∀ p c, debt s' p c = debt s p c := by
    intro p c
    unfold debt
    rw [hir, hq, ho]
    have e1 : cStop (upd s.q v ql c) = cStop (s.q c) := by
      by_cases hc : c = v
      · subst hc; simp [hcs]
      · simp [hc]
    have e2 : pStop (upd s.out v l p) c = pStop (s.out p) c := by
      by_cases hc : p = v
      · subst hc; rw [upd_same, hl1 c, hout]; simp [pStop]
      · simp [hc]
    have e3 : cAck (upd s.q v ql p) c = cAck (s.q p) c := by
      by_cases hc : p = v
      · subst hc; simp [hca]
      · simp [hc]
    have e4 : pAck (upd s.out v l c) p c = pAck (s.out c) p c := by
      by_cases hc : c = v
      · subst hc; rw [upd_same, hl2 p c, hout]; simp [pAck]
      · simp [hc]
    rw [e1, e2, e3, e4]
  refine ⟨?_, ?_, ?_, ?_, ?_, ?_, ?_, ?_, ?_, ?_, ?_, ?_, ?_⟩
  · rw [ha]; exact h.rootAlive
  · rw [hp]; exact h.rootPar
  · intro w hw hne; rw [ha] at hw; rw [hp, ha]; exact h.par w hw hne
  · intro w p hw hpp; rw [ha] at hw; rw [hp] at hpp; rw [hd]; exact h.dep w p hw hpp
  · intro p hpa; rw [ha] at hpa; rw [h4, h.sum p hpa]
    exact sumCh_congr s s' p _ _ (hic p) (fun c _ => (hdc p c).symm)
  · intro p c hc; rw [hic] at hc; rw [hdc]; exact h.le1 p c hc
  · intro w o hw ho'; rw [ha] at hw; rw [ho] at ho'
    rw [OutOk_congr ha hp]
    by_cases hwv : w = v
    · subst hwv; simp at ho'; exact hl3 o ho'
    · simp [hwv] at ho'; exact h.outOk w o hw ho'
  · intro w c hw hc; rw [ha] at hw; rw [hq] at hc
    rw [QOk_congr ha hp]
    by_cases hwv : w = v
    · subst hwv; simp at hc; exact h.qOk w c hw (hmem c hc)
    · simp [hwv] at hc; exact h.qOk w c hw hc
  · intro w hw; rw [ha] at hw; rw [hq]
    by_cases hwv : w = v
    · subst hwv; rw [upd_same]
      rcases hql with e | ⟨c, e, _, _⟩
      · rw [e]; exact h.purger1 w hw
      · have := h.purger1 w hw
        rw [e, List.filter_cons] at this
        split at this
        · simp only [List.length_cons] at this; omega
        · exact this
    · simp [hwv]; exact h.purger1 w hw
  · intro w hw hne hst'; rw [ha] at hw; rw [hq, ho] at hst'; rw [hir]
    by_cases hwv : w = v
    · subst hwv
      simp at hst'
      rcases hst' with h1 | h1
      · apply h.startRound w hw hne
        left
        rcases hql with e | ⟨c, e, _, _⟩
        · rw [← e]; exact h1
        · rw [e, hasStart_cons, h1]; simp
      · exact (hst h1).1 hne
    · simp [hwv] at hst'; exact h.startRound w hw hne hst'
  · intro hr'; rw [hir] at hr'; rw [hpc]
    by_cases hv : r = v
    · subst hv; simp; exact hr rfl (h.rootRound hr')
    · simp [hv]; exact h.rootRound hr'
  · intro hst'; rw [ho] at hst'; rw [hpc]
    by_cases hv : r = v
    · subst hv; simp at hst' ⊢; exact (hst hst').2 rfl
    · simp [hv] at hst' ⊢; exact h.rootStart hst'
  · intro w hw; rw [ha] at hw; rw [hpc]
    by_cases hwv : w = v
    · subst hwv; simp [hk]; exact h.pcKind w hw
    · simp [hwv]; exact h.pcKind w hw

end Conc
