import TexelVerif.Conc.InvG1
/-! Every step of the protocol model preserves the counting invariant `G1`. -/
namespace Conc

variable {n : Nat}

/-- a step of the thread owning `v` that only moves its program counter (and fields outside `G1`) -/
theorem G1.frame_pc {r : Fin n} {s s' : St n} (h : G1 r s) (v : Fin n) (x : Pc)
    (ha : s'.alive = s.alive) (hp : s'.parent = s.parent) (hd : s'.depth = s.depth)
    (h1 : s'.q = s.q) (h2 : s'.out = s.out) (h3 : s'.selfWait = s.selfWait) (h4 : s'.childWait = s.childWait)
    (hpc : s'.pc = upd s.pc v x) (hout : s.out v = [])
    (hk : isEnginePc x = isEnginePc (s.pc v))
    (hr : v = r → inRound s r = true → roundPc x = true) : G1 r s' := by
  apply h.frame ha hp hd h1 h2 h3 h4
  · intro w _
    rw [hpc]
    by_cases hw : w = v
    · subst hw; simp [hk]
    · simp [hw]
  · intro hir
    rw [hpc]
    by_cases hv : r = v
    · subst hv; simp; exact hr rfl hir
    · simp [hv]; exact h.rootRound hir
  · intro hst
    by_cases hv : r = v
    · subst hv; rw [hout] at hst; simp [hasPStart] at hst
    · rw [hpc]; simp [hv]; exact h.rootStart hst

/-- a step that changes nothing `G1` looks at -/
theorem G1.frame_same {r : Fin n} {s s' : St n} (h : G1 r s)
    (ha : s'.alive = s.alive) (hp : s'.parent = s.parent) (hd : s'.depth = s.depth)
    (h1 : s'.q = s.q) (h2 : s'.out = s.out) (h3 : s'.selfWait = s.selfWait) (h4 : s'.childWait = s.childWait)
    (hpc : s'.pc = s.pc) : G1 r s' := by
  apply h.frame ha hp hd h1 h2 h3 h4
  · intro w _; rw [hpc]
  · intro hir; rw [hpc]; exact h.rootRound hir
  · intro hst; rw [hpc]; exact h.rootStart hst

theorem stepWaitRet_G1 {r : Fin n} {s s' : St n} (h : G1 r s) (v : Fin n) (hs : stepWaitRet s v = some s') : G1 r s' := by
  unfold stepWaitRet at hs
  split at hs
  · rename_i hg
    cases hs
    refine h.frame_pc v (afterWait (s.pc v)) rfl rfl rfl rfl rfl rfl rfl rfl hg.2.1 ?_ ?_
    · cases hpc : s.pc v <;> simp [hpc, isWaitPc] at hg <;> simp [afterWait, isEnginePc]
    · intro hv hir; subst hv
      have hrp := h.rootRound hir
      cases hpc : s.pc v <;> simp [hpc, isWaitPc] at hg <;> simp [hpc, roundPc] at hrp <;> simp [afterWait, roundPc]
  · cases hs

theorem stepSearchLeave_G1 {r : Fin n} {s s' : St n} (h : G1 r s) (v : Fin n) (m : Bool)
    (hs : stepSearchLeave s v m = some s') : G1 r s' := by
  unfold stepSearchLeave at hs
  split at hs
  · rename_i hg
    split at hs
    · rename_i j hpc
      have hne : v ≠ r := by
        intro e
        have := (h.pcKind v hg.1).2 e
        rw [hpc] at this; simp [isEnginePc] at this
      split at hs
      · cases hs
        exact h.frame_pc v .ackSelf rfl rfl rfl rfl rfl rfl rfl rfl hg.2 (by rw [hpc]; rfl) (fun e => absurd e hne)
      · split at hs
        · cases hs
          exact h.frame_pc v .ackSelf rfl rfl rfl rfl rfl rfl rfl rfl hg.2 (by rw [hpc]; rfl) (fun e => absurd e hne)
        · cases hs
    · cases hs
  · cases hs

/-- a step of the engine thread that only moves its program counter -/
theorem G1.frame_root {r : Fin n} {s s' : St n} (h : G1 r s) (x : Pc)
    (ha : s'.alive = s.alive) (hp : s'.parent = s.parent) (hd : s'.depth = s.depth)
    (h1 : s'.q = s.q) (h2 : s'.out = s.out) (h3 : s'.selfWait = s.selfWait) (h4 : s'.childWait = s.childWait)
    (hpc : s'.pc = upd s.pc r x) (hout : s.out r = [])
    (hx : isEnginePc x = true) (hr : roundPc (s.pc r) = true → roundPc x = true) : G1 r s' :=
  h.frame_pc r x ha hp hd h1 h2 h3 h4 hpc hout (by rw [hx, (h.pcKind r h.rootAlive).2 rfl]) (fun _ hir => hr (h.rootRound hir))

theorem stepERdPre_G1 {r : Fin n} {s s' : St n} (h : G1 r s) (x : Var) (hs : stepERdPre r s x = some s') : G1 r s' := by
  unfold stepERdPre at hs
  split at hs
  · rename_i hg
    split at hs
    · rename_i hpc; cases hs
      exact h.frame_root .eQ1 rfl rfl rfl rfl rfl rfl rfl rfl hg rfl (by rw [hpc]; simp [roundPc])
    · rename_i hpc; cases hs
      exact h.frame_root .eS1 rfl rfl rfl rfl rfl rfl rfl rfl hg rfl (by rw [hpc]; simp [roundPc])
    · cases hs; exact h.frame_same rfl rfl rfl rfl rfl rfl rfl rfl
    · cases hs; exact h.frame_same rfl rfl rfl rfl rfl rfl rfl rfl
    · cases hs
  · cases hs

theorem stepERd_G1 {r : Fin n} {s s' : St n} (h : G1 r s) (x : Var) (b : Bool) (hs : stepERd r s x b = some s') : G1 r s' := by
  unfold stepERd at hs
  split at hs
  · rename_i hg
    split at hs
    · rename_i hpc
      split at hs
      · cases hs
        refine h.frame_root (if b then .eQuit0 else .eOpts1) rfl rfl rfl rfl rfl rfl rfl rfl hg ?_ (by rw [hpc]; simp [roundPc])
        cases b <;> rfl
      · cases hs
    · rename_i hpc
      split at hs
      · cases hs
        refine h.frame_root (if b then .eBegin else .ewait) rfl rfl rfl rfl rfl rfl rfl rfl hg ?_ (by rw [hpc]; simp [roundPc])
        cases b <;> rfl
      · cases hs
    · cases hs
  · cases hs

theorem stepEOpts_G1 {r : Fin n} {s s' : St n} (h : G1 r s) (k : Bool) (hs : stepEOpts r s k = some s') : G1 r s' := by
  unfold stepEOpts at hs
  split at hs
  · rename_i hg
    split at hs
    · rename_i hpc; cases hs
      cases k
      · exact h.frame_root .eS0 rfl rfl rfl rfl rfl rfl rfl rfl hg.1 rfl (by rw [hpc]; simp [roundPc])
      · exact h.frame_same rfl rfl rfl rfl rfl rfl rfl rfl
    · rename_i hpc; cases hs
      cases k
      · exact h.frame_root .eend rfl rfl rfl rfl rfl rfl rfl rfl hg.1 rfl (by rw [hpc]; simp [roundPc])
      · exact h.frame_same rfl rfl rfl rfl rfl rfl rfl rfl
    · cases hs
  · cases hs

theorem stepP_G1 {r : Fin n} {s s' : St n} (h : G1 r s) (e : Ev n) (hs : stepP r s e = some s') : G1 r s' := by
  cases e <;> simp only [stepP] at hs <;> try (cases hs)
  case pWr x b =>
    cases x <;> simp only [stepPWr] at hs <;> try (cases hs)
    all_goals (split at hs <;> first | (cases hs; exact h.frame_same rfl rfl rfl rfl rfl rfl rfl rfl) | cases hs)
  case pWd x =>
    cases x <;> simp only [stepPWd] at hs <;> try (cases hs)
    all_goals (split at hs <;> first | (cases hs; exact h.frame_same rfl rfl rfl rfl rfl rfl rfl rfl) | cases hs)
  case pWaitStop =>
    split at hs
    · cases hs; exact h
    · cases hs
  case pWaitOpts =>
    split at hs
    · cases hs; exact h
    · cases hs
  case pSetOpt =>
    split at hs
    · cases hs; exact h.frame_same rfl rfl rfl rfl rfl rfl rfl rfl
    · cases hs
  case pNotify t =>
    exact h.frame_same rfl rfl rfl rfl rfl rfl rfl rfl

/-! ### steps of thread `v` that pop a neutral command and/or set neutral pending actions -/

theorem hasStart_cons (c : Cmd n) (l : List (Cmd n)) : hasStart (c :: l) = (c.isStart || hasStart l) := by
  simp [hasStart]

theorem G1.neutral {r : Fin n} {s s' : St n} (h : G1 r s) (v : Fin n) (x : Pc) (ql : List (Cmd n)) (l : List (Out n))
    (va : s.alive v = true)
    (ha : s'.alive = s.alive) (hp : s'.parent = s.parent) (hd : s'.depth = s.depth)
    (h3 : s'.selfWait = s.selfWait) (h4 : s'.childWait = s.childWait)
    (hq : s'.q = upd s.q v ql)
    (hql : ql = s.q v ∨ ∃ c, s.q v = c :: ql ∧ c ≠ Cmd.stop ∧ ∀ d, c ≠ Cmd.ack d)
    (ho : s'.out = upd s.out v l) (hout : s.out v = [])
    (hl1 : ∀ d, pStop l d = 0) (hl2 : ∀ p d, pAck l p d = 0) (hl3 : ∀ o, o ∈ l → OutOk s v o)
    (hst : hasPStart l = true → (v ≠ r → inRound s v = false) ∧ (v = r → x = .esearch))
    (hpc : s'.pc = upd s.pc v x)
    (hk : isEnginePc x = isEnginePc (s.pc v))
    (hr : v = r → inRound s r = true → roundPc x = true) : G1 r s' := by
  have hic := isChild_congr ha hp
  have hir := inRound_congr h3 h4
  have hcs : cStop ql = cStop (s.q v) := by
    rcases hql with e | ⟨c, e, h1, _⟩
    · rw [e]
    · rw [e, cStop_cons]; simp [h1]
  have hca : ∀ d, cAck ql d = cAck (s.q v) d := by
    intro d
    rcases hql with e | ⟨c, e, _, h2⟩
    · rw [e]
    · rw [e, cAck_cons]; simp [h2 d]
  have hmem : ∀ c, c ∈ ql → c ∈ s.q v := by
    intro c hc
    rcases hql with e | ⟨c', e, _, _⟩
    · rw [← e]; exact hc
    · rw [e]; exact List.mem_cons_of_mem _ hc
  have hdc : ∀ p c, debt s' p c = debt s p c := by
    intro p c
    unfold debt
    rw [hir, hq, ho]
    have e1 : cStop (upd s.q v ql c) = cStop (s.q c) := by
      by_cases hc : c = v
      · subst hc; simp [hcs]
      · simp [hc]
    have e2 : pStop (upd s.out v l p) c = pStop (s.out p) c := by
      by_cases hc : p = v
      · subst hc; rw [upd_same, hl1 c, hout]; simp [pStop]
      · simp [hc]
    have e3 : cAck (upd s.q v ql p) c = cAck (s.q p) c := by
      by_cases hc : p = v
      · subst hc; simp [hca]
      · simp [hc]
    have e4 : pAck (upd s.out v l c) p c = pAck (s.out c) p c := by
      by_cases hc : c = v
      · subst hc; rw [upd_same, hl2 p c, hout]; simp [pAck]
      · simp [hc]
    rw [e1, e2, e3, e4]
  refine ⟨?_, ?_, ?_, ?_, ?_, ?_, ?_, ?_, ?_, ?_, ?_, ?_, ?_⟩
  · rw [ha]; exact h.rootAlive
  · rw [hp]; exact h.rootPar
  · intro w hw hne; rw [ha] at hw; rw [hp, ha]; exact h.par w hw hne
  · intro w p hw hpp; rw [ha] at hw; rw [hp] at hpp; rw [hd]; exact h.dep w p hw hpp
  · intro p hpa; rw [ha] at hpa; rw [h4, h.sum p hpa]
    exact sumCh_congr s s' p _ _ (hic p) (fun c _ => (hdc p c).symm)
  · intro p c hc; rw [hic] at hc; rw [hdc]; exact h.le1 p c hc
  · intro w o hw ho'; rw [ha] at hw; rw [ho] at ho'
    rw [OutOk_congr ha hp]
    by_cases hwv : w = v
    · subst hwv; simp at ho'; exact hl3 o ho'
    · simp [hwv] at ho'; exact h.outOk w o hw ho'
  · intro w c hw hc; rw [ha] at hw; rw [hq] at hc
    rw [QOk_congr ha hp]
    by_cases hwv : w = v
    · subst hwv; simp at hc; exact h.qOk w c hw (hmem c hc)
    · simp [hwv] at hc; exact h.qOk w c hw hc
  · intro w hw; rw [ha] at hw; rw [hq]
    by_cases hwv : w = v
    · subst hwv; rw [upd_same]
      rcases hql with e | ⟨c, e, _, _⟩
      · rw [e]; exact h.purger1 w hw
      · have := h.purger1 w hw
        rw [e, List.filter_cons] at this
        split at this
        · simp only [List.length_cons] at this; omega
        · exact this
    · simp [hwv]; exact h.purger1 w hw
  · intro w hw hne hst'; rw [ha] at hw; rw [hq, ho] at hst'; rw [hir]
    by_cases hwv : w = v
    · subst hwv
      simp at hst'
      rcases hst' with h1 | h1
      · apply h.startRound w hw hne
        left
        rcases hql with e | ⟨c, e, _, _⟩
        · rw [← e]; exact h1
        · rw [e, hasStart_cons, h1]; simp
      · exact (hst h1).1 hne
    · simp [hwv] at hst'; exact h.startRound w hw hne hst'
  · intro hr'; rw [hir] at hr'; rw [hpc]
    by_cases hv : r = v
    · subst hv; simp; exact hr rfl hr'
    · simp [hv]; exact h.rootRound hr'
  · intro hst'; rw [ho] at hst'; rw [hpc]
    by_cases hv : r = v
    · subst hv; simp at hst' ⊢; exact (hst hst').2 rfl
    · simp [hv] at hst' ⊢; exact h.rootStart hst'
  · intro w hw; rw [ha] at hw; rw [hpc]
    by_cases hwv : w = v
    · subst hwv; simp [hk]; exact h.pcKind w hw
    · simp [hwv]; exact h.pcKind w hw

/-! ### shapes of `bcast` and `toParent` -/

theorem pStop_bcast_ne (s : St n) (p : Fin n) (x : Cmd n) (hx : x ≠ Cmd.stop) (d : Fin n) : pStop (bcast s p x) d = 0 := by
  rw [pStop_bcast]; simp [hx]

theorem OutOk_bcast (s : St n) (p : Fin n) (x : Cmd n) (hx : x.isDown = true) (o : Out n) (ho : o ∈ bcast s p x) :
    OutOk s p o := by
  obtain ⟨c, hc, e⟩ := (mem_bcast s p x o).1 ho
  subst e
  exact Or.inl ⟨hc, hx⟩

theorem hasPStart_bcast (s : St n) (p : Fin n) (x : Cmd n) (hx : x.isStart = false) : hasPStart (bcast s p x) = false := by
  unfold hasPStart bcast
  rw [List.any_eq_false]
  intro o ho
  obtain ⟨c, _, e⟩ := List.mem_map.1 ho
  subst e
  simp [Out.isStart, hx]

theorem pStop_toParent (s : St n) (v : Fin n) (x : Cmd n) (hx : x ≠ Cmd.stop) (d : Fin n) : pStop (toParent s v x) d = 0 := by
  unfold toParent pStop
  split
  · rw [List.count_eq_zero]; intro hm; simp at hm; exact hx hm.2.symm
  · simp

theorem pAck_toParent_ne (s : St n) (v : Fin n) (x : Cmd n) (hx : ∀ d, x ≠ Cmd.ack d) (p d : Fin n) :
    pAck (toParent s v x) p d = 0 := by
  unfold toParent pAck
  split
  · rw [List.count_eq_zero]; intro hm; simp at hm; exact hx d hm.2.symm
  · simp

theorem OutOk_toParent (s : St n) (v : Fin n) (x : Cmd n) (hx : mentions v x = true) (o : Out n) (ho : o ∈ toParent s v x) :
    OutOk s v o := by
  unfold toParent at ho
  split at ho
  · rename_i p hp
    simp at ho; subst ho
    exact Or.inr ⟨hp, hx⟩
  · cases ho

theorem hasPStart_toParent (s : St n) (v : Fin n) (x : Cmd n) (hx : x.isStart = false) : hasPStart (toParent s v x) = false := by
  unfold toParent hasPStart
  split <;> simp [Out.isStart, hx]

theorem G1.worker_ne_root {r : Fin n} {s : St n} (h : G1 r s) {v : Fin n} (va : s.alive v = true)
    (hpc : isEnginePc (s.pc v) = false) : v ≠ r := by
  intro e
  have := (h.pcKind v va).2 e
  rw [hpc] at this; cases this

theorem G1.root_pc {r : Fin n} {s : St n} (h : G1 r s) {v : Fin n} (va : s.alive v = true)
    (hpc : isEnginePc (s.pc v) = true) : v = r := (h.pcKind v va).1 hpc

theorem G1.root_not_inRound {r : Fin n} {s : St n} (h : G1 r s) (hpc : roundPc (s.pc r) = false) : inRound s r = false := by
  cases hh : inRound s r
  · rfl
  · have := h.rootRound hh; rw [hpc] at this; cases this

theorem stepSearchResult_G1 {r : Fin n} {s s' : St n} (h : G1 r s) (v : Fin n) (hs : stepSearchResult s v = some s') : G1 r s' := by
  unfold stepSearchResult at hs
  split at hs
  · rename_i hg
    split at hs
    · rename_i j hpc
      split at hs
      · cases hs
        refine h.neutral v (.search j) (s.q v) (toParent s v (.report v (s.jobEp v) j)) hg.1 rfl rfl rfl rfl rfl ?_ (Or.inl rfl) rfl hg.2
          (pStop_toParent s v _ (by simp)) (pAck_toParent_ne s v _ (by simp)) (OutOk_toParent s v _ (by simp [mentions])) ?_ ?_ (by rw [hpc]) ?_
        · funext w; by_cases hw : w = v
          · subst hw; simp
          · simp [hw]
        · intro hst; rw [hasPStart_toParent s v _ (by simp [Cmd.isStart])] at hst; cases hst
        · funext w; by_cases hw : w = v
          · subst hw; simp [hpc]
          · simp [hw]
        · intro e; subst e; intro hr; have := h.rootRound hr; rw [hpc] at this; simp [roundPc] at this
      · cases hs; exact h
    · cases hs
  · cases hs

theorem stepPollEmpty_G1 {r : Fin n} {s s' : St n} (h : G1 r s) (v : Fin n) (hs : stepPollEmpty s v = some s') : G1 r s' := by
  unfold stepPollEmpty at hs
  split at hs
  · rename_i hg
    split at hs
    · rename_i hpc; cases hs
      have hne : v ≠ r := h.worker_ne_root hg.1 (by rw [hpc]; rfl)
      refine h.frame_pc v _ rfl rfl rfl rfl rfl rfl rfl rfl hg.2.1 ?_ (fun e => absurd e hne)
      rw [hpc]
      split
      · rfl
      · split <;> rfl
    · cases hs; exact h
    · cases hs; exact h
    · rename_i hpc
      have hvr : v = r := h.root_pc hg.1 (by rw [hpc]; rfl)
      subst hvr
      split at hs
      · rename_i hack; cases hs
        refine h.neutral v .epost (s.q v) [Out.notify v] hg.1 rfl rfl rfl rfl rfl (by simp) (Or.inl rfl) rfl hg.2.1
          (by intro d; simp [pStop]) (by intro p d; simp [pAck]) (by intro o ho; simp at ho; subst ho; simp [OutOk])
          (by intro hst; simp [hasPStart, Out.isStart] at hst) rfl (by rw [hpc]; rfl) ?_
        intro _ hir
        have : inRound s v = false := by simp [inRound, hack.1, hack.2]
        rw [this] at hir; cases hir
      · cases hs
        exact h.frame_root .ecwait rfl rfl rfl rfl rfl rfl rfl rfl hg.2.1 rfl (fun _ => rfl)
    · rename_i hpc; cases hs
      have hvr : v = r := h.root_pc hg.1 (by rw [hpc]; rfl)
      subst hvr
      refine h.frame_root _ rfl rfl rfl rfl rfl rfl rfl rfl hg.2.1 ?_ (by rw [hpc]; simp [roundPc])
      split <;> rfl
    · cases hs
  · cases hs

/-- engine-thread steps other than `eStopSend` -/
theorem stepE_G1_easy {r : Fin n} {s s' : St n} (h : G1 r s) (e : Ev n) (hne : e ≠ .eStopSend)
    (hs : stepE r s e = some s') : G1 r s' := by
  have hra := h.rootAlive
  cases e <;> simp only [stepE] at hs <;> try (cases hs)
  case eBegin =>
    split at hs
    · rename_i hg; cases hs
      exact h.frame_root .eGo rfl rfl rfl rfl rfl rfl rfl rfl hg.1 rfl (by rw [hg.2]; simp [roundPc])
    · cases hs
  case eInit =>
    split at hs
    · rename_i hg; cases hs
      refine h.neutral r .esearch (s.q r) (bcast s r .init) hra rfl rfl rfl rfl rfl (by simp [setPc]) (Or.inl rfl) rfl hg.1
        (pStop_bcast_ne s r _ (by simp)) (fun p d => pAck_bcast s r _ p d (by simp)) (OutOk_bcast s r _ rfl)
        (by intro hst; rw [hasPStart_bcast s r _ rfl] at hst; cases hst) rfl (by rw [hg.2]; rfl) ?_
      intro _ hir; have := h.rootRound hir; rw [hg.2] at this; simp [roundPc] at this
    · cases hs
  case eJobNext =>
    split at hs
    · rename_i hg; cases hs
      refine h.neutral r .esearch (s.q r) (bcast s r (.start s.epoch (s.ejob + 1))) hra rfl rfl rfl rfl rfl (by simp) (Or.inl rfl) rfl hg.1
        (pStop_bcast_ne s r _ (by simp)) (fun p d => pAck_bcast s r _ p d (by simp)) (OutOk_bcast s r _ rfl)
        (by intro _; exact ⟨fun hh => absurd rfl hh, fun _ => rfl⟩) (by rw [← hg.2]; simp) (by rw [hg.2]) ?_
      intro _ hir; have := h.rootRound hir; rw [hg.2] at this; simp [roundPc] at this
    · cases hs
  case eSearchDone =>
    split at hs
    · rename_i hg; cases hs
      exact h.frame_root (.ehold true) rfl rfl rfl rfl rfl rfl rfl rfl hg.1 rfl (by rw [hg.2]; simp [roundPc])
    · cases hs
  case eHoldDone =>
    split at hs
    · rename_i hg
      split at hs
      · rename_i hpc; cases hs
        exact h.frame_root (.ebest false) rfl rfl rfl rfl rfl rfl rfl rfl hg.1 rfl (by rw [hpc]; simp [roundPc])
      · rename_i ws hpc; cases hs
        exact h.frame_root (.ebest ws) rfl rfl rfl rfl rfl rfl rfl rfl hg.1 rfl (by rw [hpc]; simp [roundPc])
      · cases hs
    · cases hs
  case eBest =>
    split at hs
    · rename_i hg
      split at hs
      · rename_i ws hpc; cases hs
        refine h.frame_root (if ws then .estop else .epost) rfl rfl rfl rfl rfl rfl rfl rfl hg ?_ (by rw [hpc]; simp [roundPc])
        cases ws <;> rfl
      · cases hs
    · cases hs
  case eStopSend => exact absurd rfl hne
  case eSearchEnd =>
    split at hs
    · rename_i hg; cases hs
      exact h.frame_root .ewait rfl rfl rfl rfl rfl rfl rfl rfl hg.1 rfl (by rw [hg.2.1]; simp [roundPc])
    · cases hs
  case eQuitSend =>
    split at hs
    · rename_i hg; cases hs
      split
      · exact h.frame_root .equit rfl rfl rfl rfl rfl rfl rfl rfl hg.1 rfl (by rw [hg.2]; simp [roundPc])
      · refine h.neutral r .equit (s.q r) (bcast s r .quit) hra rfl rfl rfl rfl rfl (by simp [setPc]) (Or.inl rfl) rfl hg.1
          (pStop_bcast_ne s r _ (by simp)) (fun p d => pAck_bcast s r _ p d (by simp)) (OutOk_bcast s r _ rfl)
          (by intro hst; rw [hasPStart_bcast s r _ rfl] at hst; cases hst) rfl (by rw [hg.2]; rfl) ?_
        intro _ hir; have := h.rootRound hir; rw [hg.2] at this; simp [roundPc] at this
    · cases hs

/-! ### a step of thread `v` that changes only `v`'s own queue, pending actions and stop counters -/

/-- the debt of child `c` towards `v` after a local update of `v` -/
def debtDown (s : St n) (v : Fin n) (ql : List (Cmd n)) (ol : List (Out n)) (c : Fin n) : Nat :=
  cStop (s.q c) + pStop ol c + (if inRound s c then 1 else 0) + cAck ql c + pAck (s.out c) v c

/-- the debt of `v` towards its parent `p` after a local update of `v` -/
def debtUp (s : St n) (v : Fin n) (ql : List (Cmd n)) (ol : List (Out n)) (sw : Bool) (cw : Nat) (p : Fin n) : Nat :=
  cStop ql + pStop (s.out p) v + (if sw || decide (0 < cw) then 1 else 0) + cAck (s.q p) v + pAck ol p v

theorem G1.local {r : Fin n} {s s' : St n} (h : G1 r s) (v : Fin n) (x : Pc) (ql : List (Cmd n)) (ol : List (Out n))
    (sw : Bool) (cw : Nat) (va : s.alive v = true)
    (ha : s'.alive = s.alive) (hp : s'.parent = s.parent) (hd : s'.depth = s.depth)
    (hq : s'.q = upd s.q v ql) (hmem : ∀ c, c ∈ ql → c ∈ s.q v)
    (hpur : (ql.filter Cmd.isPurger).length ≤ 1)
    (ho : s'.out = upd s.out v ol)
    (h3 : s'.selfWait = upd s.selfWait v sw) (h4 : s'.childWait = upd s.childWait v cw)
    (hpc : s'.pc = upd s.pc v x) (hk : isEnginePc x = isEnginePc (s.pc v))
    (hsumv : cw = sumCh s v (debtDown s v ql ol))
    (hlev : ∀ c, isChild s v c = true → debtDown s v ql ol c ≤ 1)
    (hup : ∀ p, isChild s p v = true → debtUp s v ql ol sw cw p = debt s p v)
    (hol : ∀ o, o ∈ ol → OutOk s v o)
    (hstart : v ≠ r → hasStart ql = true ∨ hasPStart ol = true → (sw || decide (0 < cw)) = false)
    (hrr : v = r → (sw || decide (0 < cw)) = true → roundPc x = true)
    (hrs : v = r → hasPStart ol = true → x = .esearch) : G1 r s' := by
  have hic := isChild_congr ha hp
  have hirv : inRound s' v = (sw || decide (0 < cw)) := by simp [inRound, h3, h4]
  have hiro : ∀ w, w ≠ v → inRound s' w = inRound s w := by
    intro w hw; simp [inRound, h3, h4, hw]
  -- debts after the step
  have hd1 : ∀ c, isChild s v c = true → debt s' v c = debtDown s v ql ol c := by
    intro c hc
    have hcv : c ≠ v := h.child_ne hc
    unfold debt debtDown
    rw [hiro c hcv, hq, ho]
    simp [hcv]
  have hd2 : ∀ p, isChild s p v = true → debt s' p v = debt s p v := by
    intro p hc
    have hvp : v ≠ p := h.child_ne hc
    have hpv : p ≠ v := fun e => hvp e.symm
    rw [← hup p hc]
    unfold debt debtUp
    rw [hirv, hq, ho]
    simp [hpv]
  have hd3 : ∀ p c, p ≠ v → c ≠ v → debt s' p c = debt s p c := by
    intro p c hpv hcv
    unfold debt
    rw [hiro c hcv, hq, ho]
    simp [hpv, hcv]
  have hdo : ∀ p c, p ≠ v → isChild s p c = true → debt s' p c = debt s p c := by
    intro p c hpv hc
    by_cases hcv : c = v
    · subst hcv; exact hd2 p hc
    · exact hd3 p c hpv hcv
  refine ⟨?_, ?_, ?_, ?_, ?_, ?_, ?_, ?_, ?_, ?_, ?_, ?_, ?_⟩
  · rw [ha]; exact h.rootAlive
  · rw [hp]; exact h.rootPar
  · intro w hw hne; rw [ha] at hw; rw [hp, ha]; exact h.par w hw hne
  · intro w p hw hpp; rw [ha] at hw; rw [hp] at hpp; rw [hd]; exact h.dep w p hw hpp
  · intro p hpa; rw [ha] at hpa; rw [h4]
    by_cases hpv : p = v
    · subst hpv
      rw [upd_same, hsumv]
      exact sumCh_congr s s' p _ _ (hic p) (fun c hc => (hd1 c hc).symm)
    · rw [upd_other _ _ _ _ hpv, h.sum p hpa]
      exact sumCh_congr s s' p _ _ (hic p) (fun c hc => (hdo p c hpv hc).symm)
  · intro p c hc; rw [hic] at hc
    by_cases hpv : p = v
    · subst hpv; rw [hd1 c hc]; exact hlev c hc
    · rw [hdo p c hpv hc]; exact h.le1 p c hc
  · intro w o hw ho'; rw [ha] at hw; rw [ho] at ho'
    rw [OutOk_congr ha hp]
    by_cases hwv : w = v
    · subst hwv; simp at ho'; exact hol o ho'
    · simp [hwv] at ho'; exact h.outOk w o hw ho'
  · intro w c hw hc; rw [ha] at hw; rw [hq] at hc
    rw [QOk_congr ha hp]
    by_cases hwv : w = v
    · subst hwv; simp at hc; exact h.qOk w c hw (hmem c hc)
    · simp [hwv] at hc; exact h.qOk w c hw hc
  · intro w hw; rw [ha] at hw; rw [hq]
    by_cases hwv : w = v
    · subst hwv; rw [upd_same]; exact hpur
    · rw [upd_other _ _ _ _ hwv]; exact h.purger1 w hw
  · intro w hw hne hst'; rw [ha] at hw; rw [hq, ho] at hst'
    by_cases hwv : w = v
    · subst hwv
      simp at hst'
      rw [hirv]; exact hstart hne hst'
    · simp [hwv] at hst'; rw [hiro w hwv]; exact h.startRound w hw hne hst'
  · intro hr'; rw [hpc]
    by_cases hv : r = v
    · subst hv; rw [hirv] at hr'; simp; exact hrr rfl hr'
    · rw [hiro r hv] at hr'; simp [hv]; exact h.rootRound hr'
  · intro hst'; rw [ho] at hst'; rw [hpc]
    by_cases hv : r = v
    · subst hv; simp at hst' ⊢; exact hrs rfl hst'
    · simp [hv] at hst' ⊢; exact h.rootStart hst'
  · intro w hw; rw [ha] at hw; rw [hpc]
    by_cases hwv : w = v
    · subst hwv; simp [hk]; exact h.pcKind w hw
    · simp [hwv]; exact h.pcKind w hw

end Conc
