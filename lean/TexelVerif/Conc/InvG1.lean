import TexelVerif.Conc.Debt
/-! The counting invariant `G1` of the protocol model (tree shape, per-edge debts, shapes of queues
    and pending actions, START only outside stop rounds) and the frame lemmas. -/
namespace Conc

variable {n : Nat}

def Cmd.isDown : Cmd n → Bool
  | .init => true
  | .start _ _ => true
  | .stop => true
  | .quit => true
  | _ => false

/-- a pending action of the thread that owns `v` -/
def OutOk (s : St n) (v : Fin n) : Out n → Prop
  | .notify t => t = v
  | .enq t c => (isChild s v t = true ∧ c.isDown = true) ∨ (s.parent v = some t ∧ mentions v c = true)

/-- a command in the queue of `v` -/
def QOk (r : Fin n) (s : St n) (v : Fin n) : Cmd n → Prop
  | .ack src => isChild s v src = true
  | .report src _ _ => isChild s v src = true
  | .quitAck src => isChild s v src = true
  | _ => v ≠ r

def Cmd.isStart : Cmd n → Bool
  | .start _ _ => true
  | _ => false

def Out.isStart : Out n → Bool
  | .enq _ c => c.isStart
  | _ => false

def hasStart (l : List (Cmd n)) : Bool := l.any Cmd.isStart
def hasPStart (l : List (Out n)) : Bool := l.any Out.isStart

def isEnginePc : Pc → Bool
  | .wait | .poll | .search _ | .ackSelf | .done | .gone => false
  | _ => true

def roundPc : Pc → Bool
  | .eack | .ecollect | .ecwait => true
  | _ => false

structure G1 (r : Fin n) (s : St n) : Prop where
  rootAlive : s.alive r = true
  rootPar : s.parent r = none
  par : ∀ v, s.alive v = true → v ≠ r → ∃ p, s.parent v = some p ∧ s.alive p = true
  dep : ∀ v p, s.alive v = true → s.parent v = some p → s.depth p < s.depth v
  sum : ∀ p, s.alive p = true → s.childWait p = sumCh s p (debt s p)
  le1 : ∀ p c, isChild s p c = true → debt s p c ≤ 1
  outOk : ∀ v o, s.alive v = true → o ∈ s.out v → OutOk s v o
  qOk : ∀ v c, s.alive v = true → c ∈ s.q v → QOk r s v c
  purger1 : ∀ v, s.alive v = true → ((s.q v).filter Cmd.isPurger).length ≤ 1
  startRound : ∀ v, s.alive v = true → v ≠ r → hasStart (s.q v) = true ∨ hasPStart (s.out v) = true → inRound s v = false
  rootRound : inRound s r = true → roundPc (s.pc r) = true
  rootStart : hasPStart (s.out r) = true → s.pc r = .esearch
  pcKind : ∀ v, s.alive v = true → (isEnginePc (s.pc v) = true ↔ v = r)

/-! ### basic consequences -/

theorem isChild_iff (s : St n) (p c : Fin n) : isChild s p c = true ↔ s.alive c = true ∧ s.parent c = some p := by
  simp [isChild]

theorem G1.child_ne_root {r : Fin n} {s : St n} (h : G1 r s) {p c : Fin n} (hc : isChild s p c = true) : c ≠ r := by
  intro e; subst e
  have := (isChild_iff s p c).1 hc
  rw [h.rootPar] at this
  cases this.2

theorem G1.parent_alive {r : Fin n} {s : St n} (h : G1 r s) {p c : Fin n} (hc : isChild s p c = true) : s.alive p = true := by
  have hcr := h.child_ne_root hc
  have hh := (isChild_iff s p c).1 hc
  obtain ⟨p', hp', ha⟩ := h.par c hh.1 hcr
  rw [hh.2] at hp'
  cases hp'
  exact ha

theorem G1.child_ne {r : Fin n} {s : St n} (h : G1 r s) {p c : Fin n} (hc : isChild s p c = true) : c ≠ p := by
  intro e; subst e
  have hh := (isChild_iff s c c).1 hc
  have := h.dep c c hh.1 hh.2
  omega

/-- not in a round: every child's debt is zero -/
theorem G1.debt_zero {r : Fin n} {s : St n} (h : G1 r s) {p c : Fin n} (hc : isChild s p c = true)
    (hr : inRound s p = false) : debt s p c = 0 := by
  have hp := h.parent_alive hc
  have hs := h.sum p hp
  have : s.childWait p = 0 := by
    simp [inRound] at hr
    exact hr.2
  rw [this] at hs
  exact sumCh_zero_iff s p _ hs.symm c hc

theorem debt_zero_parts {s : St n} {p c : Fin n} (h : debt s p c = 0) :
    cStop (s.q c) = 0 ∧ pStop (s.out p) c = 0 ∧ inRound s c = false ∧ cAck (s.q p) c = 0 ∧ pAck (s.out c) p c = 0 := by
  unfold debt at h
  have hr : inRound s c = false := by
    cases hh : inRound s c
    · rfl
    · rw [hh] at h
      simp only [↓reduceIte] at h
      omega
  simp only [hr, Bool.false_eq_true, ↓reduceIte] at h
  exact ⟨by omega, by omega, hr, by omega, by omega⟩

/-! ### frame lemmas -/

theorem isChild_congr {s s' : St n} (ha : s'.alive = s.alive) (hp : s'.parent = s.parent) (p c : Fin n) :
    isChild s' p c = isChild s p c := by
  simp [isChild, ha, hp]

theorem inRound_congr {s s' : St n} (h3 : s'.selfWait = s.selfWait) (h4 : s'.childWait = s.childWait) (v : Fin n) :
    inRound s' v = inRound s v := by
  simp [inRound, h3, h4]

theorem debt_congr {s s' : St n} (h1 : s'.q = s.q) (h2 : s'.out = s.out) (h3 : s'.selfWait = s.selfWait)
    (h4 : s'.childWait = s.childWait) (p c : Fin n) : debt s' p c = debt s p c := by
  simp [debt, inRound, h1, h2, h3, h4]

theorem OutOk_congr {s s' : St n} (ha : s'.alive = s.alive) (hp : s'.parent = s.parent) (v : Fin n) (o : Out n) :
    OutOk s' v o ↔ OutOk s v o := by
  cases o <;> simp [OutOk, isChild, ha, hp]

theorem QOk_congr {r : Fin n} {s s' : St n} (ha : s'.alive = s.alive) (hp : s'.parent = s.parent) (v : Fin n) (c : Cmd n) :
    QOk r s' v c ↔ QOk r s v c := by
  cases c <;> simp [QOk, isChild, ha, hp]

/-- a step that leaves the tree, the queues, the pending actions and the stop counters alone -/
theorem G1.frame {r : Fin n} {s s' : St n} (h : G1 r s)
    (ha : s'.alive = s.alive) (hp : s'.parent = s.parent) (hd : s'.depth = s.depth)
    (h1 : s'.q = s.q) (h2 : s'.out = s.out) (h3 : s'.selfWait = s.selfWait) (h4 : s'.childWait = s.childWait)
    (hpc : ∀ v, s.alive v = true → isEnginePc (s'.pc v) = isEnginePc (s.pc v))
    (hrr : inRound s r = true → roundPc (s'.pc r) = true)
    (hrs : hasPStart (s.out r) = true → s'.pc r = .esearch) : G1 r s' := by
  have hic := isChild_congr ha hp
  have hdc := debt_congr h1 h2 h3 h4
  have hir := inRound_congr h3 h4
  refine ⟨?_, ?_, ?_, ?_, ?_, ?_, ?_, ?_, ?_, ?_, ?_, ?_, ?_⟩
  · rw [ha]; exact h.rootAlive
  · rw [hp]; exact h.rootPar
  · intro v hv hne; rw [ha] at hv; rw [hp, ha]; exact h.par v hv hne
  · intro v p hv hpp; rw [ha] at hv; rw [hp] at hpp; rw [hd]; exact h.dep v p hv hpp
  · intro p hpa; rw [ha] at hpa; rw [h4, h.sum p hpa]
    exact sumCh_congr s s' p _ _ (hic p) (fun c _ => (hdc p c).symm)
  · intro p c hc; rw [hic] at hc; rw [hdc]; exact h.le1 p c hc
  · intro v o hv ho; rw [ha] at hv; rw [h2] at ho; exact (OutOk_congr ha hp v o).2 (h.outOk v o hv ho)
  · intro v c hv hc; rw [ha] at hv; rw [h1] at hc; exact (QOk_congr ha hp v c).2 (h.qOk v c hv hc)
  · intro v hv; rw [ha] at hv; rw [h1]; exact h.purger1 v hv
  · intro v hv hne hst; rw [ha] at hv; rw [h1, h2] at hst; rw [hir]; exact h.startRound v hv hne hst
  · intro hr; rw [hir] at hr; exact hrr hr
  · intro hst; rw [h2] at hst; exact hrs hst
  · intro v hv; rw [ha] at hv; rw [hpc v hv]; exact h.pcKind v hv

end Conc
